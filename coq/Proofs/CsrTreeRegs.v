(* C06, composition clause, part 3: the registers of a CSR tree, in the root map's words.
   For a tree in C01's domain with root map m and all_resources m = Ok l:
     - every reported register's element strobes are those of the FLAT statement (C04_r_strobe_exact,
       C05_w_strobe_exact) at the reported root range [i_start, i_end); every element port of the tree
       belongs to a reported register; the root's r_data is the addressed multiplexer's;
     - C04_read_atomic and C05_write_atomic hold for a register deep in the tree at its ROOT addresses,
       with the protocol premises stated on the root trace. *)
From Coq Require Import ZArith List Bool Lia ZifyBool Arith.
From Soc Require Import Model.CsrDecoder.
From Soc Require Import Lib.Res Lib.Bits Model.MemoryMap Model.Hierarchy Model.MuxSpec
  Proofs.LookupWf Proofs.HierCsr Proofs.HierInert Proofs.HierWf Proofs.CsrTreeFlat Proofs.CsrTreeMap.
From Soc Require Model.Mux Proofs.CsrDecoder Proofs.MuxBasic Proofs.MuxRead Proofs.MuxWrite.
Import ListNotations.
Open Scope Z_scope.

Local Opaque Z.pow.

(* ------------------------------------------------------------------ vocabulary *)

(* the register the root map reports as `i` is register number k of multiplexer L, locally r *)
Definition reg_at (aw : Z) (h : chw) (i : info) (L : hleaf) (k : nat) (r : Mux.reg) : Prop :=
  In L (hw_leaves aw h) /\ leaf_reg L k (i_res i) r /\
  i_start i = hl_base L + Mux.r_start r /\ i_end i = hl_base L + Mux.r_stop r.

(* the last cycle of tr was a write strobe at address a (false for the empty trace) *)
Definition last_write (tr : btrace) (a : Z) : bool :=
  match rev tr with [] => false | x :: _ => w_stb (fst x) && (addr (fst x) =? a) end.

(* the root's r_data visible in cycle t of the trace (a function of cycles 0..t-1) *)
Definition rdata_after (h : chw) (tr : btrace) (t : nat) : Z := c_rdata h (c_after h (cinit h) (firstn t tr)).

Lemma last_write_nil a : last_write [] a = false.
Proof. reflexivity. Qed.

Lemma last_write_snoc tr x a : last_write (tr ++ [x]) a = w_stb (fst x) && (addr (fst x) =? a).
Proof. unfold last_write. rewrite rev_app_distr. reflexivity. Qed.

Lemma last_write_S tr t b rv a : nth_error tr t = Some (b, rv) ->
  last_write (firstn (S t) tr) a = w_stb b && (addr b =? a).
Proof. intros H. rewrite (MuxRead.firstn_S_nth _ _ _ H). apply last_write_snoc. Qed.

(* what the construction guarantees (Proofs/CsrTreeMap.v, Proofs/HierWf.v) *)
Record tree_ok (n : csrnode) (h : chw) (l : list info) : Prop := {
  to_aw : 0 < csr_aw n;
  to_geom : geom (csr_aw n) h;
  to_wf : hw_wf h;
  to_corr : reg_corr (csr_aw n) h l;
  to_dw : forall L, In L (hw_leaves (csr_aw n) h) -> Mux.c_dw (hl_cfg L) = csr_dw n }.

Lemma tree_ok_intro n m h l : csr_dom n -> csr_widths n ->
  csr_map n = Ok m -> csr_hw n = Ok h -> all_resources m = Ok l -> tree_ok n h l.
Proof.
  intros Hd Hw Hm Hh Hl. constructor.
  - exact (proj2 (proj2 (proj2 (csr_map_good n Hd m Hm)))).
  - exact (csr_hw_geom n Hd m h Hm Hh).
  - exact (csr_hw_wf n Hd Hw h Hh).
  - exact (csr_reg_corr n Hd m h l Hm Hh Hl).
  - exact (csr_leaves_dw n Hd m h Hm Hh).
Qed.

(* ------------------------------------------------------------------ what a leaf sees *)

Lemma leaf_inp_spec L b rv :
  leaf_inp L (b, rv) =
  {| Mux.i_addr := if hl_inb L (addr b) then addr b - hl_base L else trunc (hl_aw L) (addr b);
     Mux.i_rstb := hl_inb L (addr b) && r_stb b;
     Mux.i_wstb := hl_inb L (addr b) && w_stb b;
     Mux.i_wdata := w_data b;
     Mux.i_rvals := map (fun id => nth (Z.to_nat id) rv 0) (hl_ids L) |}.
Proof.
  unfold leaf_inp, mux_inp, PD.route. cbn [fst snd].
  change (PD.in_spanb (hl_sub L) (addr b)) with (hl_inb L (addr b)).
  destruct (hl_inb L (addr b)); reflexivity.
Qed.

Lemma leaf_inp_rstb L b rv : Mux.i_rstb (leaf_inp L (b, rv)) = true ->
  hl_in L (addr b) /\ r_stb b = true /\ Mux.i_addr (leaf_inp L (b, rv)) = addr b - hl_base L.
Proof.
  rewrite leaf_inp_spec. cbn [Mux.i_rstb Mux.i_addr]. destruct (hl_inb L (addr b)) eqn:E; [|discriminate].
  cbn [andb]. intros H. split; [apply hl_inb_iff; exact E|]. split; [exact H|reflexivity].
Qed.

Lemma leaf_inp_wstb L b rv : Mux.i_wstb (leaf_inp L (b, rv)) = true ->
  hl_in L (addr b) /\ w_stb b = true /\ Mux.i_addr (leaf_inp L (b, rv)) = addr b - hl_base L.
Proof.
  rewrite leaf_inp_spec. cbn [Mux.i_wstb Mux.i_addr]. destruct (hl_inb L (addr b)) eqn:E; [|discriminate].
  cbn [andb]. intros H. split; [apply hl_inb_iff; exact E|]. split; [exact H|reflexivity].
Qed.

Lemma leaf_inp_in L b rv : hl_in L (addr b) ->
  Mux.i_addr (leaf_inp L (b, rv)) = addr b - hl_base L /\ Mux.i_rstb (leaf_inp L (b, rv)) = r_stb b /\
  Mux.i_wstb (leaf_inp L (b, rv)) = w_stb b /\ Mux.i_wdata (leaf_inp L (b, rv)) = w_data b.
Proof.
  intros H. apply hl_inb_iff in H. rewrite leaf_inp_spec, H. cbn. auto.
Qed.

Lemma leaf_is_nth L tr t b rv : nth_error tr t = Some (b, rv) ->
  nth_error (leaf_is L tr) t = Some (leaf_inp L (b, rv)).
Proof. intros H. unfold leaf_is. exact (map_nth_error _ _ _ H). Qed.

Lemma leaf_is_nth_inv L tr t inp : nth_error (leaf_is L tr) t = Some inp ->
  exists b rv, nth_error tr t = Some (b, rv) /\ inp = leaf_inp L (b, rv).
Proof.
  unfold leaf_is. rewrite nth_error_map. destruct (nth_error tr t) as [[b rv]|]; [|discriminate].
  intros [= <-]. eauto.
Qed.

Lemma leaf_st_at L tr t : leaf_st L (firstn t tr) = st_at (hl_cfg L) (leaf_is L tr) t.
Proof. unfold leaf_st, st_at, leaf_is. rewrite firstn_map. reflexivity. Qed.

(* ------------------------------------------------------------------ the ports of one register *)

Lemma leaf_wstb_any L k id r tr rv b : leaf_reg L k id r ->
  nth_error (Mux.o_wstb (leaf_out L tr rv b)) k =
  Some (Mux.r_wr r && last_write tr (hl_base L + Mux.r_stop r - 1)).
Proof.
  intros Hreg. destruct tr as [|x tr0] using rev_ind.
  - rewrite (leaf_wstb_reset L k id r rv b Hreg), last_write_nil, andb_false_r. reflexivity.
  - destruct x as [b0 rv0]. rewrite (leaf_wstb_flat L k id r _ rv0 b0 rv b Hreg), last_write_snoc.
    cbn [fst]. rewrite andb_assoc. reflexivity.
Qed.

Lemma leaf_obs_nth L k id r tr rv b : leaf_reg L k id r ->
  nth_error (leaf_obs L tr rv b) k =
  Some {| lo_id := id;
          lo_rstb := Mux.r_rd r && r_stb b && (addr b =? hl_base L + Mux.r_start r);
          lo_wstb := Mux.r_wr r && last_write tr (hl_base L + Mux.r_stop r - 1);
          lo_wdata := if Mux.r_wr r then Mux.elem_wdata (hl_cfg L) (leaf_st L tr) r else 0 |}.
Proof.
  intros Hreg. pose proof Hreg as (Hid & Hr & _). unfold leaf_obs. apply mux_leaves_nth.
  - exact Hid.
  - exact (leaf_rstb_flat L k id r tr rv b Hreg).
  - exact (leaf_wstb_any L k id r tr rv b Hreg).
  - unfold leaf_out. cbn [Mux.out Mux.o_wdata]. rewrite nth_error_map, Hr. reflexivity.
Qed.

Lemma nth_error_map_inv {X Y} (f : X -> Y) l k y : nth_error (map f l) k = Some y ->
  exists x, nth_error l k = Some x /\ y = f x.
Proof. rewrite nth_error_map. destruct (nth_error l k) as [x|]; [|discriminate]. intros [= <-]. eauto. Qed.

(* ONE multiplexer carrying the registers `ids`, driven by the root trace itself; the register reported as i
   (locally r in its leaf) as this multiplexer would hold it *)
Definition flat_inp (ids : list Z) (x : bus * list Z) : Mux.inp := mux_inp ids (snd x) (fst x).
Definition flat_is (ids : list Z) (tr : btrace) : list Mux.inp := map (flat_inp ids) tr.
Definition flat_reg (i : info) (r : Mux.reg) : Mux.reg :=
  {| Mux.r_start := i_start i; Mux.r_stop := i_end i; Mux.r_width := Mux.r_width r;
     Mux.r_rd := Mux.r_rd r; Mux.r_wr := Mux.r_wr r |}.

Section Tree.
  Variables (n : csrnode) (h : chw) (l : list info).
  Hypothesis Hok : tree_ok n h l.

  Let Haw0 : 0 <= csr_aw n. Proof. pose proof (to_aw _ _ _ Hok). lia. Qed.

  Lemma leaf_wf L : In L (hw_leaves (csr_aw n) h) -> hl_wf L.
  Proof.
    intros HL. pose proof (hw_wf_leaves h 0 (csr_aw n) (to_wf _ _ _ Hok)) as H.
    rewrite Forall_forall in H. exact (H L HL).
  Qed.

  (* ---------------------------------------------------------------- strobes *)

  (* every reported register: its element strobes are the flat ones, at the reported range *)
  Theorem tree_strobes_flat i : In i l ->
    exists L k r, reg_at (csr_aw n) h i L k r /\
      forall tr, in_range (csr_aw n) tr -> forall t b rv, nth_error tr t = Some (b, rv) ->
      exists rd los lo, nth_error (csr_run h (cinit h) tr) t = Some (rd, los) /\ In lo los /\
        lo_id lo = i_res i /\
        lo_rstb lo = Mux.r_rd r && r_stb b && (addr b =? i_start i) /\
        lo_wstb lo = Mux.r_wr r && last_write (firstn t tr) (i_end i - 1).
  Proof.
    intros Hi. destruct (proj1 (to_corr _ _ _ Hok) i Hi) as (L & k & r & HL & Hreg & Hs & He).
    exists L, k, r. split; [exact (conj HL (conj Hreg (conj Hs He)))|].
    intros tr Hr t b rv Ht.
    rewrite (tree_run_flat _ h Haw0 (to_geom _ _ _ Hok) tr Hr t b rv Ht).
    eexists _, _, _. split; [reflexivity|]. split.
    - apply in_flat_map. exists L. split; [exact HL|].
      exact (nth_error_In _ _ (leaf_obs_nth L k _ r (firstn t tr) rv b Hreg)).
    - cbn [lo_id lo_rstb lo_wstb]. rewrite Hs, He. auto.
  Qed.

  (* every element port of the tree is the port of a reported register *)
  Theorem tree_ports_flat tr t b rv rd los : in_range (csr_aw n) tr -> nth_error tr t = Some (b, rv) ->
    nth_error (csr_run h (cinit h) tr) t = Some (rd, los) ->
    forall lo, In lo los ->
    exists i L k r, In i l /\ reg_at (csr_aw n) h i L k r /\ lo_id lo = i_res i /\
      lo_rstb lo = Mux.r_rd r && r_stb b && (addr b =? i_start i) /\
      lo_wstb lo = Mux.r_wr r && last_write (firstn t tr) (i_end i - 1).
  Proof.
    intros Hr Ht Hrun lo Hlo.
    rewrite (tree_run_flat _ h Haw0 (to_geom _ _ _ Hok) tr Hr t b rv Ht) in Hrun. injection Hrun as _ <-.
    apply in_flat_map in Hlo as (L & HL & Hlo). unfold leaf_obs in Hlo. cbv zeta in Hlo.
    apply mux_leaves_In in Hlo as (k & Hid & Hrs & Hws & Hwd).
    assert (Hreg : exists r, nth_error (Mux.c_regs (hl_cfg L)) k = Some r).
    { pose proof Hrs as H0. unfold leaf_out in H0. cbn [Mux.out Mux.o_rstb] in H0.
      apply nth_error_map_inv in H0 as (r & H0 & _). eauto. }
    destruct Hreg as (r & Hreg).
    destruct (proj2 (to_corr _ _ _ Hok) L k _ r HL Hid Hreg) as (i & Hi & Hres & Hlr & Hs & He).
    exists i, L, k, r. split; [exact Hi|]. split; [rewrite <- Hres in Hlr; exact (conj HL (conj Hlr (conj Hs He)))|]. rewrite Hres.
    split; [reflexivity|].
    rewrite (leaf_rstb_flat L k _ r (firstn t tr) rv b Hlr) in Hrs.
    rewrite (leaf_wstb_any L k _ r (firstn t tr) rv b Hlr) in Hws.
    injection Hrs as <-. injection Hws as <-. rewrite Hs, He. auto.
  Qed.

  (* ---------------------------------------------------------------- r_data *)

  Theorem tree_rdata_flat tr : in_range (csr_aw n) tr ->
    rdata_after h tr 0 = 0 /\
    forall t b rv, nth_error tr t = Some (b, rv) ->
      (forall L, In L (hw_leaves (csr_aw n) h) -> hl_in L (addr b) ->
         rdata_after h tr (S t) = leaf_rdata L (firstn (S t) tr)) /\
      ((forall L, In L (hw_leaves (csr_aw n) h) -> ~ hl_in L (addr b)) -> rdata_after h tr (S t) = 0) /\
      (r_stb b = false -> rdata_after h tr (S t) = 0).
  Proof.
    intros Hr. split.
    - unfold rdata_after. cbn [firstn].
      assert (Hb0 : 0 <= addr {| addr := 0; r_stb := false; w_stb := false; w_data := 0 |} < 2 ^ csr_aw n).
      { cbn [addr]. pose proof (pow2_pos _ Haw0). lia. }
      destruct (tree_flat_hw _ h Haw0 (to_geom _ _ _ Hok) [] [] _ (fun x (H : In x []) => match H with end) Hb0)
        as [_ H]. rewrite H. apply PD.dec_up_zero. intros x Hx. apply in_map_iff in Hx as (L & <- & _).
      apply leaf_rdata_nil.
    - intros t b rv Ht. unfold rdata_after. rewrite (MuxRead.firstn_S_nth _ _ _ Ht).
      apply (tree_rdata_addressed _ h Haw0 (to_geom _ _ _ Hok) (to_wf _ _ _ Hok)).
      rewrite <- (MuxRead.firstn_S_nth _ _ _ Ht). apply in_range_firstn. exact Hr.
  Qed.

  (* ---------------------------------------------------------------- rung 3: read_atomic at root addresses *)

  Lemma nth_map_ids (f : Z -> Z) ids k id : nth_error ids k = Some id -> nth k (map f ids) 0 = f id.
  Proof.
    intros H. apply nth_error_nth. exact (map_nth_error f _ _ H).
  Qed.

  (* C04_read_atomic for a register anywhere in the tree.  Root premises: a read strobe at the register's
     first ROOT address at t0; from then to t no read strobe at the first address of any reported register;
     a read strobe at root address i_start + j at t.  Then the root returns, in cycle t+1, word j of the value
     the register presented at t0. *)
  Theorem tree_read_atomic i L k r tr t0 t j b0 rv0 bt rvt :
    In i l -> reg_at (csr_aw n) h i L k r -> Mux.r_rd r = true -> in_range (csr_aw n) tr ->
    nth_error tr t0 = Some (b0, rv0) -> r_stb b0 = true -> addr b0 = i_start i ->
    (t0 <= t)%nat ->
    (forall u bu rvu i', (t0 < u <= t)%nat -> nth_error tr u = Some (bu, rvu) -> r_stb bu = true ->
                         In i' l -> addr bu <> i_start i') ->
    nth_error tr t = Some (bt, rvt) -> r_stb bt = true -> addr bt = i_start i + j ->
    0 <= j < i_end i - i_start i ->
    rdata_after h tr (S t) =
    Mux.word (csr_dw n) (Mux.r_width r) j (trunc (Mux.r_width r) (nth (Z.to_nat (i_res i)) rv0 0)).
  Proof.
    intros Hi (HL & Hreg & Hs & He) Hrd Hr Ht0 Hs0 Ha0 Hle Hquiet Ht Hst Hat Hj.
    pose proof Hreg as (Hid & Hrk & Hr0 & Hr1 & Hr2).
    destruct (leaf_wf L HL) as [Hwf Hlen].
    assert (Hin0 : hl_in L (addr b0)) by (unfold hl_in; lia).
    assert (Hint : hl_in L (addr bt)) by (unfold hl_in; lia).
    destruct (proj2 (tree_rdata_flat tr Hr) t bt rvt Ht) as [Hrdata _].
    rewrite (Hrdata L HL Hint). unfold leaf_rdata. rewrite leaf_st_at.
    change (Mux.bus_rdata (hl_cfg L) (st_at (hl_cfg L) (leaf_is L tr) (S t)))
      with (rdata_at (hl_cfg L) (leaf_is L tr) (S t)).
    destruct (leaf_inp_in L b0 rv0 Hin0) as (A0 & R0 & _).
    destruct (leaf_inp_in L bt rvt Hint) as (At & Rt & _).
    rewrite (MuxRead.read_atomic (hl_cfg L) (leaf_is L tr) t0 t k r j (leaf_inp L (b0, rv0)) (leaf_inp L (bt, rvt)) Hwf Hrk Hrd
               (leaf_is_nth L tr t0 b0 rv0 Ht0)).
    - rewrite (to_dw _ _ _ Hok L HL). f_equal. unfold rval_at. rewrite (leaf_is_nth L tr t0 b0 rv0 Ht0).
      f_equal. unfold leaf_inp, mux_inp. cbn [Mux.i_rvals snd]. exact (nth_map_ids (fun id => nth (Z.to_nat id) rv0 0) _ _ _ Hid).
    - rewrite R0. exact Hs0.
    - rewrite A0. lia.
    - exact Hle.
    - intros u Hu (inp & r' & Hn & Hin' & Hrd' & Hs' & Ha').
      apply leaf_is_nth_inv in Hn as (bu & rvu & Hnu & ->).
      apply leaf_inp_rstb in Hs' as (Hinu & Hsu & Hau). rewrite Hau in Ha'.
      apply In_nth_error in Hin' as [k' Hk'].
      assert (Hidk : exists id', nth_error (hl_ids L) k' = Some id').
      { destruct (nth_error (hl_ids L) k') as [id'|] eqn:E; [eauto|]. apply nth_error_None in E.
        assert (nth_error (Mux.c_regs (hl_cfg L)) k' <> None) by congruence.
        apply nth_error_Some in H. lia. }
      destruct Hidk as (id' & Hid').
      destruct (proj2 (to_corr _ _ _ Hok) L k' id' r' HL Hid' Hk') as (i' & Hi' & _ & _ & Hs'' & _).
      apply (Hquiet u bu rvu i' Hu Hnu Hsu Hi'). lia.
    - exact (leaf_is_nth L tr t bt rvt Ht).
    - rewrite Rt. exact Hst.
    - rewrite At. lia.
    - unfold Mux.reg_len. lia.
  Qed.

  (* ---------------------------------------------------------------- rung 3: write_atomic at root addresses *)

  (* C05_write_atomic for a register anywhere in the tree.  Root premises: a write strobe at the register's
     last ROOT address at t; for every chunk j that carries data bits, tj j is the cycle of the latest write
     strobe at root address i_start + j and dj j the data written; between the earliest of these and t, every
     write strobe that hits a reported register hits this one.  Then in cycle t+1 the register's element port
     shows w_stb and the concatenation of the dj. *)
  Theorem tree_write_atomic i L k r tr t bt rvt (tj : Z -> nat) (dj : Z -> Z) :
    In i l -> reg_at (csr_aw n) h i L k r -> Mux.r_wr r = true -> in_range (csr_aw n) tr ->
    nth_error tr t = Some (bt, rvt) -> w_stb bt = true -> addr bt = i_end i - 1 ->
    (forall j, 0 <= j < i_end i - i_start i -> j * csr_dw n < Mux.r_width r ->
       (tj j <= t)%nat /\
       (exists bj rvj, nth_error tr (tj j) = Some (bj, rvj) /\ w_stb bj = true /\ addr bj = i_start i + j /\
                       dj j = trunc (csr_dw n) (w_data bj)) /\
       (forall u bu rvu, (tj j < u <= t)%nat -> nth_error tr u = Some (bu, rvu) ->
                         ~ (w_stb bu = true /\ addr bu = i_start i + j))) ->
    (forall j u bu rvu i', 0 <= j < i_end i - i_start i -> j * csr_dw n < Mux.r_width r ->
       (tj j < u <= t)%nat -> nth_error tr u = Some (bu, rvu) -> w_stb bu = true ->
       In i' l -> i_start i' <= addr bu < i_end i' -> i_start i <= addr bu < i_end i) ->
    forall b' rv', nth_error tr (S t) = Some (b', rv') ->
    exists rd los lo, nth_error (csr_run h (cinit h) tr) (S t) = Some (rd, los) /\ In lo los /\
      lo_id lo = i_res i /\ lo_wstb lo = true /\
      lo_wdata lo = assemble (csr_dw n) (Mux.r_width r) dj (Z.to_nat (i_end i - i_start i)).
  Proof.
    intros Hi (HL & Hreg & Hs & He) Hwr Hr Ht Hst Hat Hchunks Hexcl b' rv' Ht'.
    pose proof Hreg as (Hid & Hrk & Hr0 & Hr1 & Hr2).
    destruct (leaf_wf L HL) as [Hwf Hlen].
    pose proof (to_dw _ _ _ Hok L HL) as Hdw.
    rewrite (tree_run_flat _ h Haw0 (to_geom _ _ _ Hok) tr Hr (S t) b' rv' Ht').
    eexists _, _, _. split; [reflexivity|]. split.
    { apply in_flat_map. exists L. split; [exact HL|].
      exact (nth_error_In _ _ (leaf_obs_nth L k _ r (firstn (S t) tr) rv' b' Hreg)). }
    cbn [lo_id lo_wstb lo_wdata]. split; [reflexivity|]. split.
    { rewrite Hwr, (last_write_S tr t bt rvt _ Ht), Hst. cbn [andb]. lia. }
    rewrite Hwr, leaf_st_at.
    assert (Hint : hl_in L (addr bt)) by (unfold hl_in; lia).
    destruct (leaf_inp_in L bt rvt Hint) as (At & _ & Wt & _).
    replace (i_end i - i_start i) with (Mux.reg_len r) by (unfold Mux.reg_len; lia).
    rewrite <- Hdw.
    apply (MuxWrite.write_atomic (hl_cfg L) (leaf_is L tr) t k r (leaf_inp L (bt, rvt)) tj dj Hwf Hrk Hwr
             (leaf_is_nth L tr t bt rvt Ht)).
    - rewrite Wt. exact Hst.
    - rewrite At. lia.
    - intros j Hj Hjw. unfold Mux.reg_len in Hj. rewrite Hdw in Hjw.
      destruct (Hchunks j ltac:(lia) Hjw) as (Hle & (bj & rvj & Hnj & Hsj & Haj & Hdj) & Hlast).
      assert (Hinj : hl_in L (addr bj)) by (unfold hl_in; lia).
      destruct (leaf_inp_in L bj rvj Hinj) as (Aj & _ & Wj & Dj).
      split; [exact Hle|]. split.
      + exists (leaf_inp L (bj, rvj)). split; [exact (leaf_is_nth L tr _ bj rvj Hnj)|].
        rewrite Wj, Aj, Dj, Hdw. repeat split; auto; lia.
      + intros u inp Hu Hn [Hw Ha]. apply leaf_is_nth_inv in Hn as (bu & rvu & Hnu & ->).
        apply leaf_inp_wstb in Hw as (Hinu & Hsu & Hau). rewrite Hau in Ha.
        apply (Hlast u bu rvu Hu Hnu). split; [exact Hsu|lia].
    - intros j u Hj Hjw Hu (inp & k' & r' & Hn & Hk' & Hne & Hwr' & Hw & Ha).
      unfold Mux.reg_len in Hj. rewrite Hdw in Hjw.
      apply leaf_is_nth_inv in Hn as (bu & rvu & Hnu & ->).
      apply leaf_inp_wstb in Hw as (Hinu & Hsu & Hau). rewrite Hau in Ha.
      assert (Hidk : exists id', nth_error (hl_ids L) k' = Some id').
      { destruct (nth_error (hl_ids L) k') as [id'|] eqn:E; [eauto|]. apply nth_error_None in E.
        assert (nth_error (Mux.c_regs (hl_cfg L)) k' <> None) by congruence.
        apply nth_error_Some in H. lia. }
      destruct Hidk as (id' & Hid').
      destruct (proj2 (to_corr _ _ _ Hok) L k' id' r' HL Hid' Hk') as (i' & Hi' & _ & _ & Hs' & He').
      pose proof (Hexcl j u bu rvu i' ltac:(lia) Hjw Hu Hnu Hsu Hi' ltac:(lia)) as Hhit.
      apply Hne. destruct Hwf as (_ & Hlay & _).
      apply (MuxRead.layout_index_unique _ k' k r' r (addr bu - hl_base L) Hlay Hk' Hrk); lia.
  Qed.

  (* ---------------------------------------------------------------- against ONE multiplexer, literally *)

  (* Any flat multiplexer cF that carries the register at its reported range (position kF) and is driven by
     the root trace itself shows, at kF, the very strobes the tree's register shows: every trace. *)
  Theorem tree_strobes_equal_flat i : In i l ->
    exists L k r, reg_at (csr_aw n) h i L k r /\
      forall cF idsF kF, nth_error (Mux.c_regs cF) kF = Some (flat_reg i r) ->
      forall tr, in_range (csr_aw n) tr -> forall t b rv, nth_error tr t = Some (b, rv) ->
      exists rd los lo, nth_error (csr_run h (cinit h) tr) t = Some (rd, los) /\ In lo los /\
        lo_id lo = i_res i /\
        nth_error (Mux.o_rstb (Mux.out cF (st_at cF (flat_is idsF tr) t) (flat_inp idsF (b, rv)))) kF
          = Some (lo_rstb lo) /\
        nth_error (Mux.o_wstb (Mux.out cF (st_at cF (flat_is idsF tr) t) (flat_inp idsF (b, rv)))) kF
          = Some (lo_wstb lo).
  Proof.
    intros Hi. destruct (tree_strobes_flat i Hi) as (L & k & r & Hreg & Hall).
    exists L, k, r. split; [exact Hreg|]. intros cF idsF kF HkF tr Hr t b rv Ht.
    destruct (Hall tr Hr t b rv Ht) as (rd & los & lo & Hrun & Hlo & Hid & Hrs & Hws).
    exists rd, los, lo. split; [exact Hrun|]. split; [exact Hlo|]. split; [exact Hid|]. split.
    - rewrite (MuxBasic.r_strobe_exact _ _ _ _ _ HkF), Hrs. reflexivity.
    - rewrite Hws. destruct t as [|t].
      + unfold st_at. cbn [firstn Mux.state_after].
        rewrite (MuxBasic.w_strobe_init _ _ _ _ HkF), last_write_nil, andb_false_r. reflexivity.
      + destruct (nth_error tr t) as [[b1 rv1]|] eqn:E1.
        * rewrite (MuxRead.st_at_S cF (flat_is idsF tr) t (flat_inp idsF (b1, rv1)) (map_nth_error _ _ _ E1)).
          rewrite (MuxBasic.w_strobe_next _ _ _ _ _ _ HkF), (last_write_S tr t b1 rv1 _ E1).
          cbn [flat_reg Mux.r_wr Mux.r_stop flat_inp mux_inp Mux.i_wstb Mux.i_addr fst].
          rewrite andb_assoc. reflexivity.
        * exfalso. apply nth_error_None in E1. assert (nth_error tr (S t) <> None) by congruence.
          apply nth_error_Some in H. lia.
  Qed.

  (* Under the premises of tree_read_atomic the tree returns what the flat multiplexer returns (whose
     readable registers all start at reported first addresses). *)
  Theorem tree_read_equals_flat i L k r tr t0 t j b0 rv0 bt rvt cF idsF kF :
    In i l -> reg_at (csr_aw n) h i L k r -> Mux.r_rd r = true -> in_range (csr_aw n) tr ->
    nth_error tr t0 = Some (b0, rv0) -> r_stb b0 = true -> addr b0 = i_start i ->
    (t0 <= t)%nat ->
    (forall u bu rvu i', (t0 < u <= t)%nat -> nth_error tr u = Some (bu, rvu) -> r_stb bu = true ->
                         In i' l -> addr bu <> i_start i') ->
    nth_error tr t = Some (bt, rvt) -> r_stb bt = true -> addr bt = i_start i + j ->
    0 <= j < i_end i - i_start i ->
    wf_cfg cF -> Mux.c_dw cF = csr_dw n ->
    nth_error (Mux.c_regs cF) kF = Some (flat_reg i r) -> nth_error idsF kF = Some (i_res i) ->
    (forall rF, In rF (Mux.c_regs cF) -> exists i', In i' l /\ Mux.r_start rF = i_start i') ->
    rdata_after h tr (S t) = rdata_at cF (flat_is idsF tr) (S t).
  Proof.
    intros Hi Hreg Hrd Hr Ht0 Hs0 Ha0 Hle Hquiet Ht Hst Hat Hj HwfF HdwF HkF HidF Hstarts.
    rewrite (tree_read_atomic i L k r tr t0 t j b0 rv0 bt rvt Hi Hreg Hrd Hr Ht0 Hs0 Ha0 Hle Hquiet Ht Hst Hat Hj).
    rewrite (MuxRead.read_atomic cF (flat_is idsF tr) t0 t kF (flat_reg i r) j
               (flat_inp idsF (b0, rv0)) (flat_inp idsF (bt, rvt)) HwfF HkF Hrd (map_nth_error _ _ _ Ht0)).
    - rewrite HdwF. cbn [flat_reg Mux.r_width]. f_equal. unfold rval_at, flat_is.
      rewrite (map_nth_error _ _ _ Ht0). f_equal. cbn [flat_inp mux_inp Mux.i_rvals snd].
      symmetry. exact (nth_map_ids (fun id => nth (Z.to_nat id) rv0 0) _ _ _ HidF).
    - exact Hs0.
    - exact Ha0.
    - exact Hle.
    - intros u Hu (inp & rF & Hn & HrF & _ & Hs' & Ha').
      unfold flat_is in Hn. apply nth_error_map_inv in Hn as ([bu rvu] & Hnu & ->).
      destruct (Hstarts rF HrF) as (i' & Hi' & Hsi').
      apply (Hquiet u bu rvu i' Hu Hnu Hs' Hi'). cbn in Ha'. lia.
    - exact (map_nth_error _ _ _ Ht).
    - exact Hst.
    - exact Hat.
    - unfold Mux.reg_len. cbn [flat_reg Mux.r_start Mux.r_stop]. exact Hj.
  Qed.

  (* Under the premises of tree_write_atomic the register receives what it would receive on the flat
     multiplexer (whose registers all occupy reported ranges). *)
  Theorem tree_write_equals_flat i L k r tr t bt rvt (tj : Z -> nat) (dj : Z -> Z) cF idsF kF :
    In i l -> reg_at (csr_aw n) h i L k r -> Mux.r_wr r = true -> in_range (csr_aw n) tr ->
    nth_error tr t = Some (bt, rvt) -> w_stb bt = true -> addr bt = i_end i - 1 ->
    (forall j, 0 <= j < i_end i - i_start i -> j * csr_dw n < Mux.r_width r ->
       (tj j <= t)%nat /\
       (exists bj rvj, nth_error tr (tj j) = Some (bj, rvj) /\ w_stb bj = true /\ addr bj = i_start i + j /\
                       dj j = trunc (csr_dw n) (w_data bj)) /\
       (forall u bu rvu, (tj j < u <= t)%nat -> nth_error tr u = Some (bu, rvu) ->
                         ~ (w_stb bu = true /\ addr bu = i_start i + j))) ->
    (forall j u bu rvu i', 0 <= j < i_end i - i_start i -> j * csr_dw n < Mux.r_width r ->
       (tj j < u <= t)%nat -> nth_error tr u = Some (bu, rvu) -> w_stb bu = true ->
       In i' l -> i_start i' <= addr bu < i_end i' -> i_start i <= addr bu < i_end i) ->
    wf_cfg cF -> Mux.c_dw cF = csr_dw n -> nth_error (Mux.c_regs cF) kF = Some (flat_reg i r) ->
    (forall rF, In rF (Mux.c_regs cF) -> exists i', In i' l /\ Mux.r_start rF = i_start i' /\ Mux.r_stop rF = i_end i') ->
    forall b' rv', nth_error tr (S t) = Some (b', rv') ->
    exists rd los lo, nth_error (csr_run h (cinit h) tr) (S t) = Some (rd, los) /\ In lo los /\
      lo_id lo = i_res i /\ lo_wstb lo = true /\
      lo_wdata lo = Mux.elem_wdata cF (st_at cF (flat_is idsF tr) (S t)) (flat_reg i r).
  Proof.
    intros Hi Hreg Hwr Hr Ht Hst Hat Hchunks Hexcl HwfF HdwF HkF Hranges b' rv' Ht'.
    destruct (tree_write_atomic i L k r tr t bt rvt tj dj Hi Hreg Hwr Hr Ht Hst Hat Hchunks Hexcl b' rv' Ht')
      as (rd & los & lo & H1 & H2 & H3 & H4 & H5).
    exists rd, los, lo. repeat (split; [assumption|]). rewrite H5.
    replace (i_end i - i_start i) with (Mux.reg_len (flat_reg i r)) by reflexivity.
    rewrite <- HdwF. change (Mux.r_width r) with (Mux.r_width (flat_reg i r)). symmetry.
    apply (MuxWrite.write_atomic cF (flat_is idsF tr) t kF (flat_reg i r) (flat_inp idsF (bt, rvt)) tj dj HwfF HkF Hwr
             (map_nth_error _ _ _ Ht)).
    - exact Hst.
    - exact Hat.
    - intros j Hj Hjw. unfold Mux.reg_len in Hj. cbn [flat_reg Mux.r_start Mux.r_stop Mux.r_width] in Hj, Hjw.
      rewrite HdwF in Hjw. destruct (Hchunks j Hj Hjw) as (Hle & (bj & rvj & Hnj & Hsj & Haj & Hdj) & Hlast).
      split; [exact Hle|]. split.
      + exists (flat_inp idsF (bj, rvj)). split; [exact (map_nth_error _ _ _ Hnj)|].
        rewrite HdwF. cbn. auto.
      + intros u inp Hu Hn [Hw Ha]. unfold flat_is in Hn. apply nth_error_map_inv in Hn as ([bu rvu] & Hnu & ->).
        exact (Hlast u bu rvu Hu Hnu (conj Hw Ha)).
    - intros j u Hj Hjw Hu (inp & k' & r' & Hn & Hk' & Hne & _ & Hw & Ha).
      unfold Mux.reg_len in Hj. cbn [flat_reg Mux.r_start Mux.r_stop Mux.r_width] in Hj, Hjw. rewrite HdwF in Hjw.
      unfold flat_is in Hn. apply nth_error_map_inv in Hn as ([bu rvu] & Hnu & ->).
      cbn [flat_inp mux_inp Mux.i_wstb Mux.i_addr fst] in Hw, Ha.
      destruct (Hranges r' (nth_error_In _ _ Hk')) as (i' & Hi' & Hs' & He').
      pose proof (Hexcl j u bu rvu i' Hj Hjw Hu Hnu Hw Hi' ltac:(lia)) as Hhit.
      apply Hne. destruct HwfF as (_ & Hlay & _).
      apply (MuxRead.layout_index_unique _ k' kF r' (flat_reg i r) (addr bu) Hlay Hk' HkF); [lia|exact Hhit].
  Qed.
End Tree.
