(* _Shadow.add / _Shadow.prepare always deliver an admissible shadow size: the doubling loop of the
   model (`prepare`) returns within `prepare_fuel` rounds, for every register list and every sharing
   limit, and what it returns is a power of two at least as large as every register's size. *)
From Coq Require Import ZArith List Bool Lia.
From Soc Require Import Lib.Bits Model.Mux Model.MuxSpec Proofs.ShadowHash.
Import ListNotations.
Open Scope Z_scope.

(* ------------------------------------------------------------------ folds of Z.max *)

Lemma fold_max_ge {A} (f : A -> Z) (l : list A) : forall a,
  a <= fold_left (fun s r => Z.max s (f r)) l a.
Proof.
  induction l as [|x l IH]; simpl; intros a; [lia|].
  specialize (IH (Z.max a (f x))). lia.
Qed.

Lemma fold_max_In {A} (f : A -> Z) (l : list A) : forall a x, In x l ->
  f x <= fold_left (fun s r => Z.max s (f r)) l a.
Proof.
  induction l as [|y l IH]; simpl; intros a x Hx; [contradiction|].
  destruct Hx as [->|Hx].
  - pose proof (fold_max_ge f l (Z.max a (f x))). lia.
  - apply IH; auto.
Qed.

Lemma pow2_max a b : 0 <= a -> 0 <= b -> Z.max (2 ^ a) (2 ^ b) = 2 ^ Z.max a b.
Proof.
  intros Ha Hb. destruct (Z.le_ge_cases a b) as [H|H].
  - rewrite (Z.max_r a b) by lia. apply Z.max_r. apply Z.pow_le_mono_r; lia.
  - rewrite (Z.max_l a b) by lia. apply Z.max_l. apply Z.pow_le_mono_r; lia.
Qed.

(* the maximum of powers of two is the power of two of the maximal exponent *)
Lemma fold_max_pow2 (regs : list reg) : forall a, 0 <= a ->
  fold_left (fun s r => Z.max s (reg_size r)) regs (2 ^ a) =
  2 ^ fold_left (fun s r => Z.max s (ceil_log2 (reg_len r))) regs a.
Proof.
  induction regs as [|r regs IH]; simpl; intros a Ha; [reflexivity|].
  pose proof (ceil_log2_nonneg (reg_len r)) as Hc.
  change (reg_size r) with (2 ^ ceil_log2 (reg_len r)).
  rewrite pow2_max by lia. apply IH. lia.
Qed.

Definition init_exp (regs : list reg) : Z :=
  fold_left (fun s r => Z.max s (ceil_log2 (reg_len r))) regs 0.

Lemma init_size_pow2 regs : init_size regs = 2 ^ init_exp regs.
Proof. unfold init_size, init_exp. change 1 with (2 ^ 0). apply fold_max_pow2. lia. Qed.

Lemma init_exp_nonneg regs : 0 <= init_exp regs.
Proof. unfold init_exp. apply (fold_max_ge (fun r => ceil_log2 (reg_len r))). Qed.

Lemma init_exp_ge regs r : In r regs -> ceil_log2 (reg_len r) <= init_exp regs.
Proof. intros H. unfold init_exp. apply (fold_max_In (fun r => ceil_log2 (reg_len r))); auto. Qed.

(* ------------------------------------------------------------------ the doubling loop *)

Lemma log2_up_ge a : a <= 2 ^ Z.log2_up a.
Proof.
  destruct (Z.lt_ge_cases 1 a) as [H|H].
  - apply Z.log2_up_spec; auto.
  - rewrite Z.log2_up_eqn0 by lia. simpl. lia.
Qed.

Lemma can_grow_true S regs : can_grow S regs = true -> exists r, In r regs /\ S <= r_start r.
Proof.
  unfold can_grow. rewrite existsb_exists. intros (r & Hr & H). exists r. split; auto. lia.
Qed.

(* with f+1 rounds left and every start below 2^(s+f), the loop returns; the result is admissible *)
Lemma prepare_total ov regs : forall f s, 0 <= s ->
  (forall r, In r regs -> ceil_log2 (reg_len r) <= s) ->
  (forall r, In r regs -> r_start r < 2 ^ (s + Z.of_nat f)) ->
  exists S', prepare (S f) (2 ^ s) ov regs = Some S' /\ size_ok S' regs.
Proof.
  induction f as [|f IH]; intros s Hs Hsz Hst.
  - cbn [prepare]. destruct (can_grow (2 ^ s) regs && unbalanced (2 ^ s) ov regs) eqn:E.
    + apply andb_prop in E. destruct E as [E _]. apply can_grow_true in E.
      destruct E as (r & Hr & Hle). specialize (Hst r Hr).
      replace (s + Z.of_nat 0) with s in Hst by lia. lia.
    + exists (2 ^ s). split; auto. exists s. auto.
  - remember (S f) as f1 eqn:Ef1. cbn [prepare].
    destruct (can_grow (2 ^ s) regs && unbalanced (2 ^ s) ov regs) eqn:E.
    + subst f1. replace (2 * 2 ^ s) with (2 ^ (s + 1)) by (rewrite Z.pow_add_r by lia; lia).
      apply IH; [lia| |].
      * intros r Hr. specialize (Hsz r Hr). lia.
      * intros r Hr. specialize (Hst r Hr).
        replace (s + 1 + Z.of_nat f) with (s + Z.of_nat (S f)) by lia. exact Hst.
    + exists (2 ^ s). split; auto. exists s. auto.
Qed.

Lemma prepare_fuel_succ regs :
  prepare_fuel regs =
  S (Z.to_nat (fold_left (fun s r => Z.max s (Z.log2_up (r_start r + 1))) regs 0 + 1)).
Proof.
  unfold prepare_fuel.
  pose proof (fold_max_ge (fun r => Z.log2_up (r_start r + 1)) regs 0) as H.
  cbv beta in H. lia.
Qed.

(* shadow_size never runs out of fuel, whatever the register list and the sharing limit *)
Lemma shadow_size_total ov regs : exists S, shadow_size ov regs = Some S /\ size_ok S regs.
Proof.
  unfold shadow_size. rewrite prepare_fuel_succ, init_size_pow2.
  set (M := fold_left (fun s r => Z.max s (Z.log2_up (r_start r + 1))) regs 0).
  assert (HM : 0 <= M) by apply (fold_max_ge (fun r => Z.log2_up (r_start r + 1))).
  apply prepare_total.
  - apply init_exp_nonneg.
  - apply init_exp_ge.
  - intros r Hr.
    pose proof (fold_max_In (fun r => Z.log2_up (r_start r + 1)) regs 0 r Hr) as Hle.
    cbv beta in Hle. fold M in Hle.
    pose proof (log2_up_ge (r_start r + 1)) as Hl.
    pose proof (Z.log2_up_nonneg (r_start r + 1)) as Hn.
    pose proof (init_exp_nonneg regs) as Hi.
    assert (2 ^ Z.log2_up (r_start r + 1) <= 2 ^ (init_exp regs + Z.of_nat (Z.to_nat (M + 1)))).
    { apply Z.pow_le_mono_r; lia. }
    lia.
Qed.

Lemma mk_cfg_total dw regs ov : 0 < dw -> wf_layout regs ->
  (match ov with Some v => 0 <= v | None => True end) ->
  exists c, mk_cfg dw regs ov = Some c /\ wf_cfg c /\ c_regs c = regs /\ c_dw c = dw.
Proof.
  intros Hdw Hl _. unfold mk_cfg.
  destruct (shadow_size_total ov (filter r_rd regs)) as (sr & Er & Hr).
  destruct (shadow_size_total ov (filter r_wr regs)) as (sw & Ew & Hw).
  rewrite Er, Ew. eexists. split; [reflexivity|].
  unfold wf_cfg, rregs, wregs. cbn. auto.
Qed.

(* the sizes mk_cfg delivers are the ones shadow_size computes (used to read the statement) *)
Lemma mk_cfg_sizes dw regs ov c : mk_cfg dw regs ov = Some c ->
  shadow_size ov (filter r_rd regs) = Some (c_Sr c) /\ shadow_size ov (filter r_wr regs) = Some (c_Sw c).
Proof.
  unfold mk_cfg. destruct (shadow_size ov (filter r_rd regs)) as [sr|]; [|discriminate].
  destruct (shadow_size ov (filter r_wr regs)) as [sw|]; [|discriminate].
  intros H. inversion H. cbn. auto.
Qed.
