(* C01, rung 3 (c): a bridge subordinate of the cycle-exact hierarchy machine.
     - bridge_run: the bridge and the CSR tree below it, clocked together on the request relayed by the root
       decoder, produce the bridge's input sequence and the CSR-bus trace `br_ctr`;
     - proj_state / proj_cycle (the key lemma): subordinate k of `wb_run`, from reset, IS Model/WbCsrBridge.v's
       machine (`B.state_at` on the trace br_tr) in front of Model/Hierarchy.v's CSR tree run on br_ctr
       (`c_after`, i.e. `csr_run`), with the bridge's r_data = the tree's r_data;
     - held frames (sides_after): while one request is held, the other subordinates stay quiet;
     - bridge_transfer (T2 at CSR-bus level): a request held on [t0, t0+R+1] to an idle bridge: C10_transfer's
       conclusions, on the hierarchy machine: one CSR access per granule at t0+i, ack exactly at t0+R+1, read
       lanes, no SRAM sees cyc or changes, nothing below another bridge is strobed. *)
From Coq Require Import ZArith List Bool Lia ZifyBool Arith.
From Soc Require Import Lib.Res Lib.Bits Model.Hierarchy Proofs.HierInert Proofs.HierWb Proofs.HierCycle1
  Proofs.HierCycle2 Proofs.CsrTreeFlat.
From Soc Require Lib.CsrPattern Model.Mux Model.CsrDecoder Model.WbDecoder Model.WbCsrBridge Model.Sram
  Proofs.WbDecoder Proofs.Sram Proofs.WbCsrBridge Proofs.BridgeMux Proofs.CsrTreeRegs.
Import ListNotations.
Open Scope Z_scope.

Local Opaque Z.pow.

Module B := Soc.Model.WbCsrBridge.
Module BP := Soc.Proofs.WbCsrBridge.
Module CD := Soc.Model.CsrDecoder.

(* ------------------------------------------------------------------ bridge + tree, clocked together *)

Fixpoint bridge_run (bc : B.cfg) (ch : chw) (b : B.st) (cs : cst) (l : strace) : list (B.inp * (CD.bus * list Z)) :=
  match l with
  | [] => []
  | x :: l' =>
      let i := bridge_inp ch cs (fst x) in
      let bus := csr_bus_of (B.out bc b i) in
      (i, (bus, snd x)) :: bridge_run bc ch (B.next bc b i) (c_next ch cs (snd x) bus) l'
  end.

Lemma br_length bc ch : forall l b cs, length (bridge_run bc ch b cs l) = length l.
Proof. induction l as [|x l IH]; intros b cs; [reflexivity|]. cbn [bridge_run length]. f_equal. apply IH. Qed.

Lemma br_state bc ch : forall l b cs,
  w_after (HBridge bc ch) (SBridge b cs) l =
  SBridge (B.state_after bc b (map fst (bridge_run bc ch b cs l))) (c_after ch cs (map snd (bridge_run bc ch b cs l))).
Proof.
  induction l as [|x l IH]; intros b cs; [reflexivity|].
  cbn [w_after w_next bridge_run map fst snd B.state_after c_after]. apply IH.
Qed.

Lemma br_firstn bc ch : forall l b cs t, bridge_run bc ch b cs (firstn t l) = firstn t (bridge_run bc ch b cs l).
Proof.
  induction l as [|x l IH]; intros b cs t; [destruct t; reflexivity|].
  destruct t as [|t]; [reflexivity|]. cbn [firstn bridge_run]. f_equal. apply IH.
Qed.

Lemma br_nth bc ch : forall l b cs t so rv, nth_error l t = Some (so, rv) ->
  let R := bridge_run bc ch b cs l in
  let bt := B.state_after bc b (firstn t (map fst R)) in
  let ct := c_after ch cs (firstn t (map snd R)) in
  nth_error R t = Some (bridge_inp ch ct so, (csr_bus_of (B.out bc bt (bridge_inp ch ct so)), rv)).
Proof.
  induction l as [|x l IH]; intros b cs t so rv Ht; [destruct t; discriminate|].
  destruct t as [|t]; cbn [nth_error] in Ht.
  - injection Ht as ->. reflexivity.
  - cbn [bridge_run map firstn B.state_after c_after nth_error fst snd]. apply IH. exact Ht.
Qed.

(* ------------------------------------------------------------------ the projection, from reset *)

Definition br_dflt : B.inp :=
  {| B.cyc := false; B.stb := false; B.we := false; B.adr := 0; B.sel := 0; B.dat_w := 0; B.r_data := 0 |}.

Section BridgeProj.
  Variables (h : wbhw) (k : nat) (bc : B.cfg) (ch : chw) (s : D.sub) (tr : wtrace).
  Hypothesis Hlen : length (D.c_subs (wh_cfg h)) = length (wh_subs h).
  Hypothesis Hh : nth_error (wh_subs h) k = Some (HBridge bc ch).
  Hypothesis Hs : nth_error (D.c_subs (wh_cfg h)) k = Some s.

  Definition br_R := bridge_run bc ch B.init (cinit ch) (sub_trace (wh_cfg h) k s tr).
  Definition br_is : list B.inp := map fst br_R.
  Definition br_ctr : btrace := map snd br_R.
  Definition br_tr : nat -> B.inp := fun n => nth n br_is br_dflt.

  Lemma br_is_length : length br_is = length tr.
  Proof. unfold br_is, br_R. rewrite map_length, br_length. unfold sub_trace. apply map_length. Qed.
  Lemma br_ctr_length : length br_ctr = length tr.
  Proof. unfold br_ctr, br_R. rewrite map_length, br_length. unfold sub_trace. apply map_length. Qed.

  (* the state of subordinate k after t cycles *)
  Theorem proj_state t : (t <= length tr)%nat ->
    nth_error (wb_after h (map winit (wh_subs h)) (firstn t tr)) k =
    Some (SBridge (B.state_at bc br_tr t) (c_after ch (cinit ch) (firstn t br_ctr))).
  Proof.
    intros Ht.
    rewrite (wb_after_proj h Hlen (firstn t tr) (map winit (wh_subs h)) k (HBridge bc ch) s
               (winit (HBridge bc ch))); [|apply map_length|exact Hh|exact Hs|rewrite nth_error_map, Hh; reflexivity].
    f_equal. cbn [winit]. unfold sub_trace. rewrite <- firstn_map. fold (sub_trace (wh_cfg h) k s tr).
    rewrite br_state, br_firstn. fold br_R. rewrite <- !firstn_map. fold br_is. fold br_ctr.
    f_equal. unfold br_tr. apply BP.state_after_firstn. rewrite br_is_length. exact Ht.
  Qed.

  (* what the bridge is fed, and what it drives on the CSR bus, in cycle t *)
  Theorem proj_cycle t q rv : nth_error tr t = Some (q, rv) ->
    br_tr t = bridge_inp ch (c_after ch (cinit ch) (firstn t br_ctr)) (sub_req (wh_cfg h) k s q) /\
    nth_error br_ctr t = Some (csr_bus_of (B.out_at bc br_tr t), rv).
  Proof.
    intros Hq.
    assert (Hl : nth_error (sub_trace (wh_cfg h) k s tr) t = Some (sub_req (wh_cfg h) k s q, rv)).
    { unfold sub_trace. rewrite nth_error_map, Hq. reflexivity. }
    pose proof (br_nth bc ch _ B.init (cinit ch) t _ _ Hl) as Hn. cbv zeta in Hn. fold br_R in Hn.
    fold br_is in Hn. fold br_ctr in Hn.
    assert (Ht : (t < length tr)%nat) by (apply nth_error_Some; congruence).
    rewrite (BP.state_after_firstn bc br_is br_dflt t) in Hn by (rewrite br_is_length; lia).
    fold br_tr in Hn.
    assert (E1 : br_tr t = bridge_inp ch (c_after ch (cinit ch) (firstn t br_ctr)) (sub_req (wh_cfg h) k s q)).
    { unfold br_tr, br_is. apply nth_error_nth. rewrite nth_error_map, Hn. reflexivity. }
    split; [exact E1|]. unfold br_ctr at 1. rewrite nth_error_map, Hn. cbn [option_map snd].
    unfold B.out_at. rewrite E1. reflexivity.
  Qed.

  (* the element ports below subordinate k in cycle t are those of the CSR tree run on br_ctr *)
  Lemma proj_leaves t q rv : nth_error tr t = Some (q, rv) ->
    nth_error (csr_run ch (cinit ch) br_ctr) t =
    Some (c_rdata ch (c_after ch (cinit ch) (firstn t br_ctr)),
          w_leaves (HBridge bc ch) (SBridge (B.state_at bc br_tr t) (c_after ch (cinit ch) (firstn t br_ctr))) rv
                   (sub_req (wh_cfg h) k s q)).
  Proof.
    intros Hq. destruct (proj_cycle t q rv Hq) as (E1 & E2).
    rewrite (csr_run_nth ch br_ctr (cinit ch) t _ rv E2). f_equal. f_equal.
    cbn [w_leaves]. unfold B.out_at. rewrite E1. reflexivity.
  Qed.

  Lemma br_tr_rdata t q rv : nth_error tr t = Some (q, rv) ->
    B.r_data (br_tr t) = c_rdata ch (c_after ch (cinit ch) (firstn t br_ctr)).
  Proof. intros Hq. rewrite (proj1 (proj_cycle t q rv Hq)). reflexivity. Qed.

  Lemma br_tr_req t q rv : nth_error tr t = Some (q, rv) ->
    B.cyc (br_tr t) = D.is_sel (D.selected (wh_cfg h) (D.adr q)) k && D.cyc q /\
    B.stb (br_tr t) = D.stb q /\ B.we (br_tr t) = D.we q /\
    B.adr (br_tr t) = D.o_adr (sub_req (wh_cfg h) k s q) /\
    B.sel (br_tr t) = D.o_sel (sub_req (wh_cfg h) k s q) /\
    B.dat_w (br_tr t) = D.o_dat_w (sub_req (wh_cfg h) k s q).
  Proof. intros Hq. rewrite (proj1 (proj_cycle t q rv Hq)). cbn. repeat split; reflexivity. Qed.

  (* every address on the CSR bus fits the bridge's CSR address width *)
  Lemma br_ctr_range : 0 <= B.c_caw bc -> in_range (B.c_caw bc) br_ctr.
  Proof.
    intros Hc x Hx. apply In_nth_error in Hx as [t Ht].
    assert (Hlt : (t < length tr)%nat) by (rewrite <- br_ctr_length; apply nth_error_Some; congruence).
    destruct (nth_error tr t) as [[q rv]|] eqn:Eq; [|apply nth_error_None in Eq; lia].
    rewrite (proj2 (proj_cycle t q rv Eq)) in Ht. injection Ht as <-. cbn [fst csr_bus_of CD.addr].
    unfold B.out_at, B.out. set (i := br_tr t). set (b := B.state_at bc br_tr t).
    destruct (B.cyc i && B.stb i); [destruct (B.switch_cycle bc b)|]; cbn [B.o_addr]; apply trunc_range; exact Hc.
  Qed.
End BridgeProj.

(* ------------------------------------------------------------------ frames while one request is held *)

Fixpoint sides_after (hs : list whw) (ss : list wst) (outs : list D.sout) (rvs : list (list Z)) : list wst :=
  match rvs with
  | [] => ss
  | rv :: r => sides_after hs (side_next hs ss rv outs) outs r
  end.

Lemma sides_after_quiet hs outs : Forall whw_wf hs -> Forall nocyc outs -> length outs = length hs ->
  forall rvs ss, Forall2 wst_ok hs ss -> Forall ack_low ss ->
  let ss' := sides_after hs ss outs rvs in
  Forall2 wst_ok hs ss' /\ Forall ack_low ss' /\ length ss' = length hs /\
  side_srams hs ss' outs = side_srams hs ss outs /\
  (forall x, In x (side_srams hs ss outs) -> snd (fst x) = false) /\
  (forall rv lo, In lo (side_leaves hs ss' rv outs) -> lo_rstb lo = false) /\
  (rvs <> [] -> forall rv outs' lo, In lo (side_leaves hs ss' rv outs') -> lo_wstb lo = false).
Proof.
  intros Hwf Hc Hl. induction rvs as [|rv0 r IH]; intros ss Hok Hlow; cbn [sides_after].
  - destruct (subs_no_cyc [] hs ss outs Hwf Hok Hlow Hc Hl) as (_ & _ & _ & _ & I5 & _).
    split; [exact Hok|]. split; [exact Hlow|]. split; [symmetry; exact (Forall2_len _ _ _ Hok)|].
    split; [reflexivity|]. split; [exact I5|]. split; [|intros H; congruence].
    intros rv lo Hin. destruct (subs_no_cyc rv hs ss outs Hwf Hok Hlow Hc Hl) as (_ & _ & _ & I4 & _). exact (I4 lo Hin).
  - destruct (side_quiet hs ss rv0 outs Hwf Hok Hlow Hc Hl) as (Q1 & Q2 & Q3).
    destruct (IH (side_next hs ss rv0 outs) Q1 Q2) as (I1 & I2 & I3 & I4 & I5 & I6 & I7).
    split; [exact I1|]. split; [exact I2|]. split; [exact I3|].
    split.
    { rewrite I4. unfold side_srams, side_next. apply (quiet_srams_step rv0 hs ss outs outs); auto. }
    split.
    { destruct (subs_no_cyc [] hs ss outs Hwf Hok Hlow Hc Hl) as (_ & _ & _ & _ & J5 & _). exact J5. }
    split; [exact I6|]. intros _ rv outs' lo Hin.
    destruct r as [|rv1 r]; [|apply (I7 ltac:(discriminate) rv outs' lo Hin)].
    cbn [sides_after] in Hin. exact (quiet_wstb_step rv0 hs ss outs Hwf Hc rv outs' lo Hin).
Qed.

Definition held (q : D.breq) (rvs : list (list Z)) : wtrace := map (fun rv => (q, rv)) rvs.

Section HeldSplit.
  Variables (h : wbhw) (k : nat) (hs1 : list whw) (hh : whw) (hs2 : list whw)
            (cs1 : list D.sub) (s : D.sub) (cs2 : list D.sub).
  Hypothesis SP : split_hw h k hs1 hh hs2 cs1 s cs2.
  Variable q : D.breq.

  Lemma held_split : forall rvs ss1 sk ss2, length ss1 = length hs1 ->
    Forall2 wst_ok hs1 ss1 -> Forall ack_low ss1 -> only_k h k q ->
    wb_after h (ss1 ++ sk :: ss2) (held q rvs) =
    sides_after hs1 ss1 (outs1 h cs1 q) rvs ++
    w_after hh sk (map (fun rv => (sub_req (wh_cfg h) k s q, rv)) rvs) ::
    sides_after hs2 ss2 (outs2 h k cs2 q) rvs.
  Proof.
    induction rvs as [|rv r IH]; intros ss1 sk ss2 L1 Ok1 Lo1 Hq; [reflexivity|].
    cbn [held map wb_after fst snd sides_after w_after].
    rewrite (next_split h k hs1 hh hs2 cs1 s cs2 SP) by exact L1.
    destruct (side_quiet hs1 ss1 rv (outs1 h cs1 q) (sp_w1 _ _ _ _ _ _ _ _ SP) Ok1 Lo1
                (outs1_nocyc h k hs1 hh hs2 cs1 s cs2 SP q Hq) (outs1_length h k hs1 hh hs2 cs1 s cs2 SP q))
      as (Q1 & Q2 & Q3).
    apply (IH _ _ _ Q3 Q1 Q2 Hq).
  Qed.
End HeldSplit.

(* ------------------------------------------------------------------ T2 at CSR-bus level *)

(* idle: an SRAM without pending acknowledge, a bridge in sequencer state 0 without pending acknowledge *)
Definition sub_idle (s : wst) : Prop :=
  match s with SSram st => Sram.ack st = false | SBridge b _ => BP.idle b end.

Lemma nth_mid {X} (l1 : list X) x l2 k : length l1 = k -> nth_error (l1 ++ x :: l2) k = Some x.
Proof. intros <-. rewrite nth_error_app2 by lia. rewrite Nat.sub_diag. reflexivity. Qed.

Lemma firstn_app_exact {X} (l1 l2 : list X) j : firstn (length l1 + j) (l1 ++ l2) = l1 ++ firstn j l2.
Proof. rewrite firstn_app. replace (length l1 + j - length l1)%nat with j by lia. rewrite firstn_all2 by lia. reflexivity. Qed.

Lemma firstn_held q rvs j : firstn j (held q rvs) = held q (firstn j rvs).
Proof. unfold held. apply firstn_map. Qed.

Record bx_pre (h : wbhw) (k : nat) (bc : B.cfg) (ch : chw) (s : D.sub)
              (pre : wtrace) (q : D.breq) (rvs : list (list Z))
              (hs1 hs2 : list whw) (cs1 cs2 : list D.sub) (ss1 ss2 : list wst) (sk : wst) : Prop := {
  bx_wf : wbhw_wf h;
  bx_bc : BP.wf bc;
  bx_h : nth_error (wh_subs h) k = Some (HBridge bc ch);
  bx_s : nth_error (D.c_subs (wh_cfg h)) k = Some s;
  bx_rvs : length rvs = (BP.nratio bc + 2)%nat;
  bx_cyc : D.cyc q = true;
  bx_stb : D.stb q = true;
  bx_sel : D.selected (wh_cfg h) (D.adr q) = Some k;
  bx_idle : forall sk', nth_error (wb_after h (map winit (wh_subs h)) pre) k = Some sk' -> sub_idle sk';
  bx_sp : split_hw h k hs1 (HBridge bc ch) hs2 cs1 s cs2;
  bx_ess : wb_after h (map winit (wh_subs h)) pre = ss1 ++ sk :: ss2;
  bx_ok1 : Forall2 wst_ok hs1 ss1;
  bx_ok2 : Forall2 wst_ok hs2 ss2;
  bx_lo1 : Forall ack_low ss1;
  bx_lo2 : Forall ack_low ss2 }.

Section BridgeTransfer.
  Variables (h : wbhw) (k : nat) (bc : B.cfg) (ch : chw) (s : D.sub).
  Variables (pre : wtrace) (q : D.breq) (rvs : list (list Z)) (post : wtrace).
  Variables (hs1 hs2 : list whw) (cs1 cs2 : list D.sub).
  Variables (ss1 ss2 : list wst) (sk : wst).
  Hypothesis HT : bx_pre h k bc ch s pre q rvs hs1 hs2 cs1 cs2 ss1 ss2 sk.
  Notation R := (BP.nratio bc).
  Notation init := (map winit (wh_subs h)).
  Notation tr := (pre ++ held q rvs ++ post).
  Notation t0 := (length pre).
  Let Hwf := bx_wf _ _ _ _ _ _ _ _ _ _ _ _ _ _ _ HT.
  Let Hbc := bx_bc _ _ _ _ _ _ _ _ _ _ _ _ _ _ _ HT.
  Let Hh := bx_h _ _ _ _ _ _ _ _ _ _ _ _ _ _ _ HT.
  Let Hs := bx_s _ _ _ _ _ _ _ _ _ _ _ _ _ _ _ HT.
  Let Hrvs := bx_rvs _ _ _ _ _ _ _ _ _ _ _ _ _ _ _ HT.
  Let Hcyc := bx_cyc _ _ _ _ _ _ _ _ _ _ _ _ _ _ _ HT.
  Let Hstb := bx_stb _ _ _ _ _ _ _ _ _ _ _ _ _ _ _ HT.
  Let Hsel := bx_sel _ _ _ _ _ _ _ _ _ _ _ _ _ _ _ HT.
  Let Hidle := bx_idle _ _ _ _ _ _ _ _ _ _ _ _ _ _ _ HT.
  Let HSP := bx_sp _ _ _ _ _ _ _ _ _ _ _ _ _ _ _ HT.
  Let Ess := bx_ess _ _ _ _ _ _ _ _ _ _ _ _ _ _ _ HT.
  Let Ok1 := bx_ok1 _ _ _ _ _ _ _ _ _ _ _ _ _ _ _ HT.
  Let Ok2 := bx_ok2 _ _ _ _ _ _ _ _ _ _ _ _ _ _ _ HT.
  Let Lo1 := bx_lo1 _ _ _ _ _ _ _ _ _ _ _ _ _ _ _ HT.
  Let Lo2 := bx_lo2 _ _ _ _ _ _ _ _ _ _ _ _ _ _ _ HT.

  Notation so := (sub_req (wh_cfg h) k s q).
  Notation btr := (br_tr h k bc ch s tr).
  Notation ctr := (br_ctr h k bc ch s tr).

  Let Hlen : length (D.c_subs (wh_cfg h)) = length (wh_subs h). Proof. exact (proj1 Hwf). Qed.

  Lemma tr_nth j : (j < R + 2)%nat -> nth_error tr (t0 + j)%nat = Some (q, nth j rvs []).
  Proof.
    intros Hj. rewrite nth_error_app2 by lia. replace (t0 + j - t0)%nat with j by lia.
    rewrite nth_error_app1 by (unfold held; rewrite map_length; lia).
    unfold held. rewrite nth_error_map. rewrite (nth_error_nth' rvs []) by lia. reflexivity.
  Qed.

  Lemma tr_len : (t0 + R + 2 <= length tr)%nat.
  Proof. rewrite !app_length. unfold held. rewrite map_length. lia. Qed.

  (* the bridge's own view: idle at t0, the request held *)
  Lemma b_idle : BP.idle (B.state_at bc btr t0).
  Proof.
    pose proof (proj_state h k bc ch s tr Hlen Hh Hs t0 ltac:(pose proof tr_len; lia)) as P.
    replace (firstn t0 tr) with pre in P by (rewrite <- (Nat.add_0_r t0), firstn_app_exact; cbn [firstn]; rewrite app_nil_r; reflexivity).
    exact (Hidle _ P).
  Qed.

  Lemma b_req j : (j < R + 2)%nat ->
    B.cyc (btr (t0 + j)%nat) = true /\ B.stb (btr (t0 + j)%nat) = true /\ B.we (btr (t0 + j)%nat) = D.we q /\
    B.adr (btr (t0 + j)%nat) = D.o_adr so /\ B.sel (btr (t0 + j)%nat) = D.o_sel so /\
    B.dat_w (btr (t0 + j)%nat) = D.o_dat_w so.
  Proof.
    intros Hj. destruct (br_tr_req h k bc ch s tr Hlen (t0 + j)%nat q _ (tr_nth j Hj)) as (E1 & E2 & E3 & E4 & E5 & E6).
    rewrite E1, E2, E3, E4, E5, E6, Hsel, Hcyc, Hstb. cbn [D.is_sel]. rewrite Nat.eqb_refl. repeat split; reflexivity.
  Qed.

  Lemma b_held : BP.req_held btr t0 R.
  Proof.
    destruct (b_req 0 ltac:(lia)) as (E1 & E2 & E3 & E4 & E5 & E6). rewrite Nat.add_0_r in *.
    split; [exact E1|]. split; [exact E2|]. intros j Hj.
    destruct (b_req j ltac:(lia)) as (F1 & F2 & F3 & F4 & F5 & F6).
    rewrite E1, E2, E3, E4, E5, E6, F1, F2, F3, F4, F5, F6. repeat split; reflexivity.
  Qed.

  Notation O1 := (outs1 h cs1 q).
  Notation O2 := (outs2 h k cs2 q).

  Let Hq : only_k h k q. Proof. right. exact Hsel. Qed.
  Let NC1 : Forall nocyc O1. Proof. exact (outs1_nocyc h k hs1 _ hs2 cs1 s cs2 HSP q Hq). Qed.
  Let NC2 : Forall nocyc O2. Proof. exact (outs2_nocyc h k cs2 q Hq). Qed.
  Let LO1 : length O1 = length hs1. Proof. exact (outs1_length h k hs1 _ hs2 cs1 s cs2 HSP q). Qed.
  Let LO2 : length O2 = length hs2. Proof. exact (outs2_length h k hs1 _ hs2 cs1 s cs2 HSP q). Qed.
  Let LS1 : length ss1 = length hs1. Proof. symmetry. exact (Forall2_len _ _ _ Ok1). Qed.

  Definition S1 j := sides_after hs1 ss1 O1 (firstn j rvs).
  Definition S2 j := sides_after hs2 ss2 O2 (firstn j rvs).
  Definition mid j := SBridge (B.state_at bc btr (t0 + j)%nat) (c_after ch (cinit ch) (firstn (t0 + j)%nat ctr)).

  Lemma state_at_j j : (j <= R + 2)%nat ->
    wb_after h init (firstn (t0 + j)%nat tr) = S1 j ++ mid j :: S2 j.
  Proof.
    intros Hj.
    pose proof (proj_state h k bc ch s tr Hlen Hh Hs (t0 + j)%nat ltac:(pose proof tr_len; lia)) as P.
    rewrite firstn_app_exact, wb_after_app, Ess in P |- *.
    rewrite firstn_app, firstn_held in P |- *.
    assert (Ej : (j - length (held q rvs) = 0)%nat) by (unfold held; rewrite map_length; lia).
    rewrite Ej in P |- *. cbn [firstn] in P |- *. rewrite app_nil_r in P |- *.
    rewrite (held_split h k hs1 _ hs2 cs1 s cs2 HSP q (firstn j rvs) ss1 sk ss2 LS1 Ok1 Lo1 Hq) in P |- *.
    destruct (sides_after_quiet hs1 O1 (sp_w1 _ _ _ _ _ _ _ _ HSP) NC1 LO1 (firstn j rvs) ss1 Ok1 Lo1)
      as (_ & _ & L & _).
    rewrite nth_mid in P by (rewrite L; exact (sp_l1 _ _ _ _ _ _ _ _ HSP)).
    injection P as P. unfold S1, S2, mid. rewrite P. reflexivity.
  Qed.

  Lemma S1_quiet j :
    Forall2 wst_ok hs1 (S1 j) /\ Forall ack_low (S1 j) /\ length (S1 j) = length hs1 /\
    side_srams hs1 (S1 j) O1 = side_srams hs1 ss1 O1 /\
    (forall x, In x (side_srams hs1 ss1 O1) -> snd (fst x) = false) /\
    (forall rv lo, In lo (side_leaves hs1 (S1 j) rv O1) -> lo_rstb lo = false) /\
    (firstn j rvs <> [] -> forall rv outs' lo, In lo (side_leaves hs1 (S1 j) rv outs') -> lo_wstb lo = false).
  Proof. exact (sides_after_quiet hs1 O1 (sp_w1 _ _ _ _ _ _ _ _ HSP) NC1 LO1 (firstn j rvs) ss1 Ok1 Lo1). Qed.

  Lemma S2_quiet j :
    Forall2 wst_ok hs2 (S2 j) /\ Forall ack_low (S2 j) /\ length (S2 j) = length hs2 /\
    side_srams hs2 (S2 j) O2 = side_srams hs2 ss2 O2 /\
    (forall x, In x (side_srams hs2 ss2 O2) -> snd (fst x) = false) /\
    (forall rv lo, In lo (side_leaves hs2 (S2 j) rv O2) -> lo_rstb lo = false) /\
    (firstn j rvs <> [] -> forall rv outs' lo, In lo (side_leaves hs2 (S2 j) rv outs') -> lo_wstb lo = false).
  Proof. exact (sides_after_quiet hs2 O2 (sp_w2 _ _ _ _ _ _ _ _ HSP) NC2 LO2 (firstn j rvs) ss2 Ok2 Lo2). Qed.

  (* cycle t0+j of the hierarchy machine, j <= R+1 *)
  Lemma cycle_j j : (j < R + 2)%nat ->
    exists o rd los,
      nth_error (wb_run h init tr) (t0 + j)%nat = Some o /\
      nth_error (csr_run ch (cinit ch) ctr) (t0 + j)%nat = Some (rd, los) /\
      wo_ack o = B.o_ack (B.out_at bc btr (t0 + j)%nat) /\
      wo_dat_r o = trunc (D.c_dw (wh_cfg h)) (B.o_dat_r (B.out_at bc btr (t0 + j)%nat)) /\
      wo_srams o = side_srams hs1 ss1 O1 ++ side_srams hs2 ss2 O2 /\
      wo_leaves o = side_leaves hs1 (S1 j) (nth j rvs []) O1 ++ los ++ side_leaves hs2 (S2 j) (nth j rvs []) O2.
  Proof.
    intros Hj. pose proof (tr_nth j Hj) as Hn.
    destruct (S1_quiet j) as (A1 & A2 & A3 & A4 & _). destruct (S2_quiet j) as (B1 & B2 & B3 & B4 & _).
    eexists _, _, _. split; [rewrite (wb_run_nth h tr _ (t0 + j)%nat q _ Hn), (state_at_j j ltac:(lia)); reflexivity|].
    split; [exact (proj_leaves h k bc ch s tr Hlen (t0 + j)%nat q _ Hn)|].
    destruct (out_split h k hs1 _ hs2 cs1 s cs2 HSP (S1 j) (mid j) (S2 j) q (nth j rvs []) A3) as [E1 E2].
    split; [|split; [|split]].
    - rewrite (ack_split h k hs1 _ hs2 cs1 s cs2 HSP) by auto. unfold B.out_at. rewrite BP.out_ack. reflexivity.
    - unfold wb_out, wb_dec_out, D.out, D.bus_out. cbn [wo_dat_r D.out_b D.r_dat_r D.in_b D.in_s]. rewrite Hsel.
      rewrite nth_error_map, nth_mid by (rewrite A3; exact (sp_l1 _ _ _ _ _ _ _ _ HSP)).
      unfold B.out_at. rewrite BP.out_dat_r. reflexivity.
    - rewrite E1. cbn [w_srams mid app]. rewrite A4, B4. reflexivity.
    - rewrite E2. reflexivity.
  Qed.

  (* ---- the bridge's transfer (C10_transfer), read on the hierarchy machine ---- *)

  Lemma ctr_nth j : (j < R + 2)%nat ->
    nth_error ctr (t0 + j)%nat = Some (csr_bus_of (B.out_at bc btr (t0 + j)%nat), nth j rvs []).
  Proof. intros Hj. exact (proj2 (proj_cycle h k bc ch s tr Hlen (t0 + j)%nat q _ (tr_nth j Hj))). Qed.

  Lemma x_fields : B.we (btr t0) = D.we q /\ B.adr (btr t0) = D.o_adr so /\ B.sel (btr t0) = D.o_sel so /\
                   B.dat_w (btr t0) = D.o_dat_w so.
  Proof. destruct (b_req 0 ltac:(lia)) as (_ & _ & E3 & E4 & E5 & E6). rewrite Nat.add_0_r in *. auto. Qed.

  (* one CSR access per granule, in order *)
  Lemma csr_granule i : (i < R)%nat ->
    nth_error ctr (t0 + i)%nat =
    Some ({| CD.addr := trunc (B.c_caw bc) (D.o_adr so * B.ratio bc + Z.of_nat i);
             CD.r_stb := Z.testbit (D.o_sel so) (Z.of_nat i) && negb (D.we q);
             CD.w_stb := Z.testbit (D.o_sel so) (Z.of_nat i) && D.we q;
             CD.w_data := B.lane bc (Z.of_nat i) (D.o_dat_w so) |}, nth i rvs []).
  Proof.
    intros Hi. rewrite (ctr_nth i ltac:(lia)). f_equal. f_equal.
    destruct (BP.xfer_granule bc btr t0 Hbc b_idle b_held i Hi) as (Ea & Er & Ew & Ed).
    destruct x_fields as (F3 & F4 & F5 & F6). unfold csr_bus_of, B.out_at.
    rewrite Ea, Er, Ew, Ed, F3, F4, F5, F6. reflexivity.
  Qed.

  (* none in the last sequencer state, none in the acknowledge cycle *)
  Lemma csr_quiet_end j : (j = R \/ j = R + 1)%nat ->
    exists b, nth_error ctr (t0 + j)%nat = Some (b, nth j rvs []) /\ CD.r_stb b = false /\ CD.w_stb b = false.
  Proof.
    intros Hj. eexists. split; [apply ctr_nth; lia|]. unfold csr_bus_of, B.out_at. cbn [CD.r_stb CD.w_stb].
    destruct Hj as [-> | ->].
    - exact (BP.xfer_no_strobe_at_R bc btr t0 Hbc b_idle b_held).
    - destruct (BP.xfer_state_R1 bc btr t0 Hbc b_idle b_held) as (Ec & _).
      set (o := B.out bc _ _).
      assert (Hn : ~ (B.o_r_stb o = true \/ B.o_w_stb o = true)).
      { intros Hs'. subst o. apply BP.no_stray_strobe in Hs'; [|exact Hbc]. lia. }
      destruct (B.o_r_stb o), (B.o_w_stb o); auto; exfalso; apply Hn; auto.
  Qed.

  (* the cycle before t0 (if any) carried no strobe: an idle state is only entered that way *)
  Lemma csr_quiet_before t' b rv : t0 = S t' -> nth_error ctr t' = Some (b, rv) ->
    CD.r_stb b = false /\ CD.w_stb b = false.
  Proof.
    intros Et Hn.
    assert (Hlt : (t' < length tr)%nat) by (rewrite !app_length; lia).
    destruct (nth_error tr t') as [[q' rv']|] eqn:Eq; [|apply nth_error_None in Eq; lia].
    rewrite (proj2 (proj_cycle h k bc ch s tr Hlen t' q' rv' Eq)) in Hn. injection Hn as <- _.
    unfold csr_bus_of, B.out_at. cbn [CD.r_stb CD.w_stb].
    apply Proofs.BridgeMux.idle_no_prev_strobe; [exact Hbc|apply BP.state_inv; exact Hbc|].
    pose proof b_idle as Hi. rewrite Et in Hi. exact Hi.
  Qed.

  (* the root's acknowledge: low on [t0, t0+R], high at t0+R+1 *)
  Lemma ack_at j : (j < R + 2)%nat -> B.o_ack (B.out_at bc btr (t0 + j)%nat) = (j =? R + 1)%nat.
  Proof.
    intros Hj. destruct (BP.transfer bc btr t0 Hbc b_idle b_held) as (_ & _ & Hno & Hyes & _).
    destruct (Nat.eqb_spec j (R + 1)) as [->|Hne].
    - rewrite Nat.add_assoc. exact Hyes.
    - apply Hno. lia.
  Qed.

  (* read data lanes in the acknowledge cycle: the tree's r_data one cycle after each granule *)
  Lemma read_lanes i : (i < R)%nat ->
    B.lane bc (Z.of_nat i) (B.o_dat_r (B.out_at bc btr (t0 + R + 1)%nat)) =
    trunc (B.c_g bc) (c_rdata ch (c_after ch (cinit ch) (firstn (t0 + i + 1)%nat ctr))).
  Proof.
    intros Hi. destruct (BP.transfer bc btr t0 Hbc b_idle b_held) as (_ & _ & _ & _ & _ & Hl & _).
    rewrite (Hl i Hi). f_equal.
    replace (t0 + i + 1)%nat with (t0 + (i + 1))%nat by lia.
    exact (br_tr_rdata h k bc ch s tr Hlen (t0 + (i + 1))%nat q _ (tr_nth (i + 1) ltac:(lia))).
  Qed.

  (* after the acknowledge cycle everything is ready again *)
  Lemma after_bridge_transfer :
    Forall ack_low (wb_after h init (pre ++ held q rvs)) /\
    Forall2 wst_ok (wh_subs h) (wb_after h init (pre ++ held q rvs)) /\
    forall sk', nth_error (wb_after h init (pre ++ held q rvs)) k = Some sk' -> sub_idle sk'.
  Proof.
    assert (E : pre ++ held q rvs = firstn (t0 + (R + 2))%nat tr).
    { assert (Lh : length (held q rvs) = (R + 2)%nat) by (unfold held; rewrite map_length; exact Hrvs).
      rewrite firstn_app_exact, firstn_app, Lh, Nat.sub_diag. cbn [firstn].
      rewrite app_nil_r, firstn_all2 by lia. reflexivity. }
    rewrite E, (state_at_j (R + 2) ltac:(lia)).
    destruct (S1_quiet (R + 2)) as (A1 & A2 & A3 & _). destruct (S2_quiet (R + 2)) as (B1 & B2 & _).
    destruct (BP.transfer bc btr t0 Hbc b_idle b_held) as (_ & _ & _ & _ & _ & _ & Hid).
    replace (t0 + R + 2)%nat with (t0 + (R + 2))%nat in Hid by lia.
    split; [|split].
    - apply Forall_app. split; [exact A2|]. constructor; [|exact B2]. exact (proj2 Hid).
    - rewrite (sp_hs _ _ _ _ _ _ _ _ HSP). apply Forall2_app; [exact A1|]. constructor; [exact I|exact B1].
    - intros sk' Hn. rewrite nth_mid in Hn by (rewrite A3; exact (sp_l1 _ _ _ _ _ _ _ _ HSP)).
      injection Hn as <-. exact Hid.
  Qed.
End BridgeTransfer.

(* ------------------------------------------------------------------ T2 at CSR-bus level, assembled *)

Lemma lane_trunc bc n i z : 0 <= B.c_g bc -> 0 <= i -> (i + 1) * B.c_g bc <= n ->
  B.lane bc i (trunc n z) = B.lane bc i z.
Proof.
  intros Hg Hi Hn. unfold B.lane. apply Z.bits_inj'. intros b Hb.
  assert (Ho : 0 <= i * B.c_g bc) by (apply Z.mul_nonneg_nonneg; lia).
  rewrite !slice_testbit by lia. destruct (Z.ltb_spec b (B.c_g bc)) as [Hlt|]; [|reflexivity].
  rewrite trunc_testbit by lia. destruct (Z.ltb_spec (i * B.c_g bc + b) n); [reflexivity|lia].
Qed.

(* A request held on [t0, t0+R+1] (R = ratio of the bridge; the acknowledge cycle included, as the Wishbone
   protocol demands), selecting subordinate k, a bridge that is idle at t0, no acknowledge pending anywhere.
   ctr = the CSR-bus trace below that bridge (bus signals and register values, per cycle, from reset). *)
Theorem bridge_transfer h k bc ch s : wbhw_wf h -> BP.wf bc ->
  nth_error (wh_subs h) k = Some (HBridge bc ch) -> nth_error (D.c_subs (wh_cfg h)) k = Some s ->
  forall pre q rvs post, length rvs = (BP.nratio bc + 2)%nat ->
  D.cyc q = true -> D.stb q = true -> D.selected (wh_cfg h) (D.adr q) = Some k ->
  Forall ack_low (wb_after h (map winit (wh_subs h)) pre) ->
  (forall sk, nth_error (wb_after h (map winit (wh_subs h)) pre) k = Some sk -> sub_idle sk) ->
  let R := BP.nratio bc in
  let tr := pre ++ held q rvs ++ post in
  let t0 := length pre in
  let so := sub_req (wh_cfg h) k s q in
  let ctr := br_ctr h k bc ch s tr in
  (* the CSR bus below the bridge *)
  in_range (B.c_caw bc) ctr /\ length ctr = length tr /\
  (forall i, (i < R)%nat ->
     nth_error ctr (t0 + i)%nat =
     Some ({| CD.addr := trunc (B.c_caw bc) (D.o_adr so * B.ratio bc + Z.of_nat i);
              CD.r_stb := Z.testbit (D.o_sel so) (Z.of_nat i) && negb (D.we q);
              CD.w_stb := Z.testbit (D.o_sel so) (Z.of_nat i) && D.we q;
              CD.w_data := B.lane bc (Z.of_nat i) (D.o_dat_w so) |}, nth i rvs [])) /\
  (forall j, (j = R \/ j = R + 1)%nat ->
     exists b, nth_error ctr (t0 + j)%nat = Some (b, nth j rvs []) /\ CD.r_stb b = false /\ CD.w_stb b = false) /\
  (forall t' b rv, t0 = S t' -> nth_error ctr t' = Some (b, rv) -> CD.r_stb b = false /\ CD.w_stb b = false) /\
  (* the root, cycle by cycle *)
  (exists P, (forall x, In x P -> snd (fst x) = false) /\
     forall j, (j < R + 2)%nat ->
     exists o rd los L1 L2,
       nth_error (wb_run h (map winit (wh_subs h)) tr) (t0 + j)%nat = Some o /\
       nth_error (csr_run ch (cinit ch) ctr) (t0 + j)%nat = Some (rd, los) /\
       wo_ack o = (j =? R + 1)%nat /\
       wo_srams o = P /\
       wo_leaves o = L1 ++ los ++ L2 /\
       (forall lo, In lo L1 \/ In lo L2 -> lo_rstb lo = false /\ ((1 <= j)%nat -> lo_wstb lo = false)) /\
       (j = (R + 1)%nat -> forall i, (i < R)%nat -> (Z.of_nat i + 1) * B.c_g bc <= D.c_dw (wh_cfg h) ->
          B.lane bc (Z.of_nat i) (wo_dat_r o) = trunc (B.c_g bc) (Proofs.CsrTreeRegs.rdata_after ch ctr (t0 + i + 1)))) /\
  (* afterwards *)
  Forall ack_low (wb_after h (map winit (wh_subs h)) (pre ++ held q rvs)) /\
  (forall sk, nth_error (wb_after h (map winit (wh_subs h)) (pre ++ held q rvs)) k = Some sk -> sub_idle sk).
Proof.
  intros Hwf Hbc Hh Hs pre q rvs post Hrvs Hcyc Hstb Hsel Hlow Hidle R tr t0 so ctr.
  destruct (split_hw_intro h k _ s Hwf Hh Hs) as (hs1 & hs2 & cs1 & cs2 & HSP).
  pose proof (wb_after_ok h Hwf pre _ (winit_all_ok h Hwf)) as Hok.
  remember (wb_after h (map winit (wh_subs h)) pre) as ss0 eqn:Ess0.
  rewrite (sp_hs _ _ _ _ _ _ _ _ HSP) in Hok.
  destruct (split_state _ _ _ _ Hok) as (ss1 & sk & ss2 & Ess & Ok1 & Okk & Ok2).
  pose proof Hlow as Hlow'. rewrite Ess in Hlow'. apply Forall_app in Hlow' as [Lo1 Lo2].
  inversion Lo2 as [|? ? Lok Lo2']; subst.
  assert (HT : bx_pre h k bc ch s pre q rvs hs1 hs2 cs1 cs2 ss1 ss2 sk) by (constructor; assumption).
  pose proof (proj1 Hwf) as Hlen.
  split; [apply (br_ctr_range h k bc ch s tr Hlen); apply Hbc|].
  split; [apply br_ctr_length|].
  split; [intros i Hi; exact (csr_granule h k bc ch s pre q rvs post hs1 hs2 cs1 cs2 ss1 ss2 sk HT i Hi)|].
  split; [intros j Hj; exact (csr_quiet_end h k bc ch s pre q rvs post hs1 hs2 cs1 cs2 ss1 ss2 sk HT j Hj)|].
  split; [intros t' b rv Et Hn; exact (csr_quiet_before h k bc ch s pre q rvs post hs1 hs2 cs1 cs2 ss1 ss2 sk HT t' b rv Et Hn)|].
  split.
  { exists (side_srams hs1 ss1 (outs1 h cs1 q) ++ side_srams hs2 ss2 (outs2 h k cs2 q)). split.
    - intros x Hx. apply in_app_or in Hx as [Hx|Hx].
      + destruct (S1_quiet h k bc ch s pre q rvs hs1 hs2 cs1 cs2 ss1 ss2 sk HT 0) as (_ & _ & _ & _ & Q & _). exact (Q x Hx).
      + destruct (S2_quiet h k bc ch s pre q rvs hs1 hs2 cs1 cs2 ss1 ss2 sk HT 0) as (_ & _ & _ & _ & Q & _). exact (Q x Hx).
    - intros j Hj.
      destruct (cycle_j h k bc ch s pre q rvs post hs1 hs2 cs1 cs2 ss1 ss2 sk HT j Hj)
        as (o & rd & los & C1 & C2 & C3 & C4 & C5 & C6).
      exists o, rd, los. eexists _, _. split; [exact C1|]. split; [exact C2|].
      split; [rewrite C3; exact (ack_at h k bc ch s pre q rvs post hs1 hs2 cs1 cs2 ss1 ss2 sk HT j Hj)|].
      split; [exact C5|]. split; [exact C6|]. split.
      + destruct (S1_quiet h k bc ch s pre q rvs hs1 hs2 cs1 cs2 ss1 ss2 sk HT j) as (_ & _ & _ & _ & _ & Q1 & Q1').
        destruct (S2_quiet h k bc ch s pre q rvs hs1 hs2 cs1 cs2 ss1 ss2 sk HT j) as (_ & _ & _ & _ & _ & Q2 & Q2').
        assert (Hne : (1 <= j)%nat -> firstn j rvs <> []).
        { intros H1 E. apply (f_equal (@length _)) in E. rewrite firstn_length in E. cbn [length] in E. lia. }
        intros lo [Hin|Hin]; (split; [|intros H1]).
        * exact (Q1 _ lo Hin). * exact (Q1' (Hne H1) _ _ lo Hin).
        * exact (Q2 _ lo Hin). * exact (Q2' (Hne H1) _ _ lo Hin).
      + intros -> i Hi Hfit. rewrite C4. rewrite lane_trunc by (try apply Hbc; lia).
        rewrite Nat.add_assoc.
        exact (read_lanes h k bc ch s pre q rvs post hs1 hs2 cs1 cs2 ss1 ss2 sk HT i Hi). }
  destruct (after_bridge_transfer h k bc ch s pre q rvs post hs1 hs2 cs1 cs2 ss1 ss2 sk HT) as (A1 & _ & A3).
  split; [exact A1|exact A3].
Qed.
