(* C16: the register fan-out assumed by Model/Gpio.v (`pin_slice`, `mode_val`, `input_val`, `output_val`) IS what the
   C11 model of csr.Register (Model/RegPack.v: flatten + elaborate) produces for the field collections that
   Peripheral.Mode / Input / Output / SetClr hand to csr.Register — for every pin count.  This is the C11 link of
   the composition: the GPIO model does not re-decide where a pin's bits live, it inherits it. *)
From Coq Require Import ZArith List Bool Lia Arith ZifyBool.
From Soc Require Import Lib.Bits.
From Soc Require Model.RegPack Proofs.RegPack.
From Soc Require Import Model.Gpio Model.GpioSpec.
Import ListNotations.
Open Scope Z_scope.

Module R := Soc.Model.RegPack.
Module RP := Soc.Proofs.RegPack.

Definition fld (w : Z) (a : R.facc) : R.field := {| R.f_w := w; R.f_a := a |}.

Lemma flatten_leaves w a n : R.flatten (R.Map [(1, R.Arr (repeat (R.Leaf w a) n))]) = repeat (fld w a) n.
Proof.
  rewrite RP.flatten_Map. cbn [flat_map snd]. rewrite app_nil_r, RP.flatten_Arr.
  induction n as [|n IH]; [reflexivity|]. cbn [repeat flat_map]. rewrite IH. reflexivity.
Qed.

Lemma flatten_setclr n : R.flatten (setclr_tree n) = repeat (fld 1 R.FW) (2 * n).
Proof.
  unfold setclr_tree. rewrite RP.flatten_Map. cbn [flat_map snd]. rewrite app_nil_r, RP.flatten_Arr.
  induction n as [|n IH]; [reflexivity|]. cbn [repeat flat_map]. rewrite IH.
  replace (2 * S n)%nat with (S (S (2 * n))) by lia. reflexivity.
Qed.

(* ---- a register whose fields all have the same width and access *)

Lemma combine_repeat {X Y} (f : X) : forall (vs : list Y), combine (repeat f (length vs)) vs = map (fun v => (f, v)) vs.
Proof. induction vs as [|v vs IH]; [reflexivity|]. cbn. rewrite IH. reflexivity. Qed.

Lemma map_const_repeat {X Y} (c : Y) : forall (l : list X), map (fun _ => c) l = repeat c (length l).
Proof. induction l as [|x l IH]; [reflexivity|]. cbn. rewrite IH. reflexivity. Qed.

Lemma offset_uniform f : forall n i, (i <= n)%nat -> R.offset_of (repeat f n) i = R.f_w f * Z.of_nat i.
Proof.
  unfold R.offset_of. induction n as [|n IH]; intros i Hi.
  - replace i with 0%nat by lia. cbn. lia.
  - destruct i as [|i]; [cbn; lia|]. cbn [repeat firstn map R.sumz fold_right].
    change (fold_right Z.add 0 (map R.f_w (firstn i (repeat f n)))) with (R.sumz (map R.f_w (firstn i (repeat f n)))).
    rewrite IH by lia. lia.
Qed.

Lemma pack_chunks_readable w a : R.f_readable a = true -> forall vs,
  RP.pack (RP.chunks (map (fun v => (fld w a, v)) vs)) = pack w vs.
Proof.
  intros Ha. induction vs as [|v vs IH]; [reflexivity|].
  cbn [map RP.chunks RP.pack pack]. unfold RP.chunks in IH. rewrite IH.
  unfold RP.contrib. cbn [fst snd fld R.f_a R.f_w]. rewrite Ha. reflexivity.
Qed.

Lemma pack_chunks_unreadable w a : R.f_readable a = false -> forall vs,
  RP.pack (RP.chunks (map (fun v => (fld w a, v)) vs)) = 0.
Proof.
  intros Ha vs. apply RP.pack_zero. unfold RP.chunks. rewrite map_map. apply Forall_map.
  apply Forall_forall. intros v _. cbn [snd]. unfold RP.contrib. cbn [fst fld R.f_a]. rewrite Ha. reflexivity.
Qed.

(* element.r_data is the LSB-first concatenation of the field values, field k's port gets the element strobes
   (by access) and bits [w*k, w*k + w) of element.w_data *)
Lemma reg_out_uniform t w a e vs : 0 <= w -> R.flatten t = repeat (fld w a) (length vs) ->
  fst (R.reg_out t e vs) = (if R.f_readable a then pack w vs else 0) /\
  forall k, (k < length vs)%nat ->
    nth_error (snd (R.reg_out t e vs)) k = Some (RP.port_of e (w * Z.of_nat k) (fld w a)).
Proof.
  intros Hw Hf. unfold R.reg_out. rewrite Hf, combine_repeat. split.
  - rewrite RP.elab_rdata; [| |lia|cbn; lia].
    + change (2 ^ 0) with 1. rewrite Z.add_0_l, Z.mul_1_l.
      destruct (R.f_readable a) eqn:Ha; [apply pack_chunks_readable|apply pack_chunks_unreadable]; exact Ha.
    + rewrite map_map. cbn [fst]. apply Forall_map. apply Forall_forall. intros v _. exact Hw.
  - intros k Hk.
    destruct (nth_error vs k) as [v|] eqn:Ev; [|apply nth_error_None in Ev; lia].
    rewrite (RP.elab_ports_nth e _ 0 0 k (fld w a) v) by (apply map_nth_error; exact Ev).
    rewrite map_map. cbn [fst]. rewrite map_const_repeat. rewrite offset_uniform by lia. reflexivity.
Qed.

(* ---- the four GPIO registers *)

Lemma slice1_testbit k z : 0 <= k -> slice k 1 z = Z.b2z (Z.testbit z k).
Proof.
  intros Hk. apply Z.bits_inj'. intros n Hn. rewrite slice_testbit by lia.
  destruct (Z.eq_dec n 0) as [->|Hn0].
  - rewrite Z.add_0_r. cbn. destruct (Z.testbit z k); reflexivity.
  - replace (n <? 1) with false by lia.
    destruct (Z.testbit z k); cbn [Z.b2z]; [|symmetry; apply Z.testbit_0_l].
    symmetry. change 1 with (2 ^ 0). apply Z.pow2_bits_false. lia.
Qed.

(* Mode: r_data = mode_val; pin k's field port = what pin_slice hands to pin k *)
Theorem mode_register_tie s el r_stb :
  fst (R.reg_out (mode_tree (length s)) (mode_ein el r_stb) (map ps_mode s)) = mode_val s /\
  forall k, (k < length s)%nat ->
    nth_error (snd (R.reg_out (mode_tree (length s)) (mode_ein el r_stb) (map ps_mode s))) k =
    Some {| R.p_r_stb := r_stb; R.p_w_stb := pi_mode_wstb (pin_slice el k); R.p_w_data := pi_mode_wdata (pin_slice el k) |}.
Proof.
  destruct (reg_out_uniform (mode_tree (length s)) 2 R.FRW (mode_ein el r_stb) (map ps_mode s)) as (H1 & H2);
    [lia|rewrite map_length; apply flatten_leaves|].
  split; [exact H1|]. intros k Hk. rewrite H2 by (rewrite map_length; exact Hk). reflexivity.
Qed.

(* Input: r_data = input_val, i.e. bit k = pin k's synchronised level *)
Theorem input_register_tie s pins e :
  fst (R.reg_out (input_tree (length s)) e (map Z.b2z (input_bits_from 0 s pins))) = input_val s pins.
Proof.
  assert (Hl : length (map Z.b2z (input_bits_from 0 s pins)) = length s).
  { rewrite map_length. generalize 0%nat. induction s as [|ps s IH]; intros k; [reflexivity|]. cbn. rewrite IH. reflexivity. }
  destruct (reg_out_uniform (input_tree (length s)) 1 R.FR e (map Z.b2z (input_bits_from 0 s pins))) as (H1 & _);
    [lia|rewrite Hl; apply flatten_leaves|]. exact H1.
Qed.

(* Output: r_data = output_val; pin k's field port gets the element strobe and bit k *)
Theorem output_register_tie s el r_stb :
  fst (R.reg_out (output_tree (length s)) (out_ein el r_stb) (map (fun ps => Z.b2z (ps_out ps)) s)) = output_val s /\
  forall k, (k < length s)%nat ->
    nth_error (snd (R.reg_out (output_tree (length s)) (out_ein el r_stb) (map (fun ps => Z.b2z (ps_out ps)) s))) k =
    Some {| R.p_r_stb := r_stb; R.p_w_stb := pi_out_wstb (pin_slice el k);
            R.p_w_data := Z.b2z (pi_out_wdata (pin_slice el k)) |}.
Proof.
  destruct (reg_out_uniform (output_tree (length s)) 1 R.FRW (out_ein el r_stb) (map (fun ps => Z.b2z (ps_out ps)) s))
    as (H1 & H2); [lia|rewrite map_length; apply flatten_leaves|].
  split; [exact H1|]. intros k Hk. rewrite H2 by (rewrite map_length; exact Hk).
  unfold RP.port_of. cbn [fld R.f_a R.f_w R.f_readable R.f_writable andb out_ein R.e_r_stb R.e_w_stb R.e_w_data].
  rewrite Z.mul_1_l, slice1_testbit by lia. reflexivity.
Qed.

(* SetClr: write-only (reads as 0); pin k's `set` field is field 2k, its `clr` field is field 2k+1 *)
Theorem setclr_register_tie n el :
  let ro := R.reg_out (setclr_tree n) (sc_ein el) (repeat 0 (2 * n)) in
  fst ro = 0 /\
  forall k, (k < n)%nat ->
    nth_error (snd ro) (2 * k) =
      Some {| R.p_r_stb := false; R.p_w_stb := pi_set_wstb (pin_slice el k);
              R.p_w_data := Z.b2z (pi_set_wdata (pin_slice el k)) |} /\
    nth_error (snd ro) (2 * k + 1) =
      Some {| R.p_r_stb := false; R.p_w_stb := pi_clr_wstb (pin_slice el k);
              R.p_w_data := Z.b2z (pi_clr_wdata (pin_slice el k)) |}.
Proof.
  cbv zeta.
  destruct (reg_out_uniform (setclr_tree n) 1 R.FW (sc_ein el) (repeat 0 (2 * n))) as (H1 & H2);
    [lia|rewrite repeat_length; apply flatten_setclr|].
  split; [exact H1|]. intros k Hk. rewrite !H2 by (rewrite repeat_length; lia).
  unfold RP.port_of. cbn [fld R.f_a R.f_w R.f_readable R.f_writable andb sc_ein R.e_r_stb R.e_w_stb R.e_w_data].
  rewrite !Z.mul_1_l, !slice1_testbit by lia.
  unfold pin_slice. cbn [pi_set_wstb pi_set_wdata pi_clr_wstb pi_clr_wdata].
  replace (Z.of_nat (2 * k)) with (2 * Z.of_nat k) by lia.
  replace (Z.of_nat (2 * k + 1)) with (2 * Z.of_nat k + 1) by lia.
  split; reflexivity.
Qed.

(* ---- and csr.Register.__init__ accepts these collections with the element widths the layout uses *)

Lemma check_fields_repeat ra f : R.incompatible ra f = false -> forall n w0,
  R.check_fields ra (repeat f n) w0 = R.Ok (w0 + Z.of_nat n * R.f_w f).
Proof.
  intros Hc. induction n as [|n IH]; intros w0; cbn [repeat R.check_fields].
  - f_equal. lia.
  - unfold R.incompatible in Hc. apply orb_false_elim in Hc. destruct Hc as [H1 H2]. rewrite H1, H2.
    rewrite IH. f_equal. lia.
Qed.

Lemma build_ok_leaves w a n : 0 <= w -> (0 < n)%nat -> R.build_ok (R.Map [(1, R.Arr (repeat (R.Leaf w a) n))]) = true.
Proof.
  intros Hw Hn. rewrite RP.build_ok_Map. cbn [R.is_nil negb andb forallb snd]. rewrite andb_true_r.
  rewrite RP.build_ok_Arr. destruct n as [|n]; [lia|]. cbn [repeat R.is_nil negb andb].
  apply forallb_forall. intros x Hx.
  assert (E : x = R.Leaf w a) by (destruct Hx as [<-|Hx]; [reflexivity|apply repeat_spec in Hx; exact Hx]).
  subst x. cbn. lia.
Qed.

Theorem register_classes_accepted n : (0 < n)%nat ->
  R.reg_core (mode_tree n) R.ERW = R.Ok (2 * Z.of_nat n) /\
  R.reg_core (input_tree n) R.ER = R.Ok (Z.of_nat n) /\
  R.reg_core (output_tree n) R.ERW = R.Ok (Z.of_nat n) /\
  R.reg_core (setclr_tree n) R.EW = R.Ok (2 * Z.of_nat n).
Proof.
  intros Hn. unfold R.reg_core, mode_tree, input_tree, output_tree.
  rewrite !build_ok_leaves by lia. rewrite !flatten_leaves, flatten_setclr.
  rewrite !check_fields_repeat by reflexivity. cbn [fld R.f_w].
  assert (Hs : R.build_ok (setclr_tree n) = true).
  { unfold setclr_tree. rewrite RP.build_ok_Map. cbn [R.is_nil negb andb forallb snd]. rewrite andb_true_r.
    rewrite RP.build_ok_Arr. destruct n as [|m]; [lia|]. cbn [repeat R.is_nil negb andb].
    apply forallb_forall. intros x Hx.
    assert (E : x = R.Map [(2, R.Leaf 1 R.FW); (3, R.Leaf 1 R.FW)])
      by (destruct Hx as [<-|Hx]; [reflexivity|apply repeat_spec in Hx; exact Hx]).
    subst x. reflexivity. }
  rewrite Hs.
  replace (0 + Z.of_nat n * 2 <? 0) with false by lia.
  replace (0 + Z.of_nat n * 1 <? 0) with false by lia.
  replace (0 + Z.of_nat (2 * n) * 1 <? 0) with false by lia.
  repeat split; f_equal; lia.
Qed.
