(* Lemmas for Gen/TieShadow.v that do not mention the generated text: the Python containers of Lib/PyShadow.v
   (loops, defaultdict grouping, sets, sorted) against the functions of Model/Mux.v.

   - py_for: extensionality, loops that never break, loops that cannot fail;
   - the nested loop of _Shadow.prepare with its inner `break`, for ANY loop bodies that satisfy the step
     specifications inner_ok / outer_ok: the flag it computes is `can_grow && unbalanced` and, when balanced, the
     dict it builds is the chunk table (keys = Mux.table, values = the registers touching the chunk);
   - sorted() of ANY enumeration of a set whose elements are strictly ordered is that order (a Python set has
     no order of its own: this is the order-independence the translation needs);
   - the model's shadow size does not depend on the order of the register list (Permutation);
   - `sites`: the (chunk, bus address, register, word, strobe) tuples elaborate() wires, read off the chunk table,
     and their relation to the per-cycle functions of the model (wen, ren_next, elem_rstb, wstb_next). *)
From Coq Require Import ZArith List Bool Lia ZifyBool Permutation Sorted.
From Soc Require Import Lib.Bits Lib.Res Lib.PyShadow Model.Mux Model.MuxSpec Proofs.ShadowHash Proofs.MuxTable
  Proofs.MuxPrepare.
Import ListNotations.
Open Scope Z_scope.

(* ------------------------------------------------------------------ ranges of model registers *)
Definition rng_of (r : reg) : rng := (r_start r, r_stop r).
(* a register with the given range: decode / encode / reg_size only look at the range *)
Definition mkreg (x : rng) : reg := {| r_start := fst x; r_stop := snd x; r_width := 0; r_rd := false; r_wr := false |}.

Lemma mkreg_decode S r a : decode S (mkreg (rng_of r)) a = decode S r a.
Proof. reflexivity. Qed.
Lemma mkreg_encode r o : encode (mkreg (rng_of r)) o = encode r o.
Proof. reflexivity. Qed.
Lemma range_list_addrs r : range_list (r_start r) (r_stop r) = addrs r.
Proof. reflexivity. Qed.
Lemma in_range_addrs r a : In a (addrs r) -> in_range a (rng_of r) = true.
Proof. rewrite addrs_In. unfold in_range, rng_of, rstart, rstop. cbn. lia. Qed.

Lemma existsb_ext' {A} (f g : A -> bool) l : (forall x, f x = g x) -> existsb f l = existsb g l.
Proof. intros H. induction l as [|x l IH]; cbn; [reflexivity|]. rewrite H, IH. reflexivity. Qed.

Lemma existsb_false {A} (f : A -> bool) l : existsb f l = false -> forall x, In x l -> f x = false.
Proof.
  induction l as [|y l IH]; cbn; intros H x Hx; [contradiction|].
  apply orb_false_elim in H. destruct H as [H1 H2]. destruct Hx as [->|Hx]; auto.
Qed.

(* ------------------------------------------------------------------ py_for *)
Lemma py_for_ext {A St} (l : list A) (b b' : A -> St -> res (St * bool)) :
  (forall x s, In x l -> b x s = b' x s) -> forall s, py_for l b s = py_for l b' s.
Proof.
  induction l as [|x l IH]; intros H s; [reflexivity|]. cbn.
  rewrite (H x s) by (left; reflexivity).
  destruct (b' x s) as [[s' brk]|e]; [|reflexivity]. destruct brk; [reflexivity|].
  apply IH. intros y s0 Hy. apply H. right; exact Hy.
Qed.

(* a loop whose body never breaks and never fails is a fold *)
Lemma py_for_fold {A St} (l : list A) (b : A -> St -> res (St * bool)) (f : St -> A -> St) :
  (forall x s, In x l -> b x s = Ok (f s x, false)) -> forall s, py_for l b s = Ok (fold_left f l s).
Proof.
  induction l as [|x l IH]; intros H s; [reflexivity|]. cbn.
  rewrite (H x s) by (left; reflexivity). apply IH. intros y s0 Hy. apply H. right; exact Hy.
Qed.

(* with an invariant on the state *)
Lemma py_for_fold_inv {A St} (P : St -> Prop) (l : list A) (b : A -> St -> res (St * bool)) (f : St -> A -> St) :
  (forall x s, In x l -> P s -> b x s = Ok (f s x, false) /\ P (f s x)) ->
  forall s, P s -> py_for l b s = Ok (fold_left f l s) /\ P (fold_left f l s).
Proof.
  induction l as [|x l IH]; intros H s Hs; [split; [reflexivity|exact Hs]|]. cbn.
  destruct (H x s (or_introl eq_refl) Hs) as [E HP]. rewrite E. apply IH; [|exact HP].
  intros y s0 Hy. apply H. right; exact Hy.
Qed.

Lemma fold_left_app_list {A B} (f : A -> list B) (l : list A) : forall acc,
  fold_left (fun acc x => acc ++ f x) l acc = acc ++ flat_map f l.
Proof.
  induction l as [|x l IH]; intros acc; cbn; [rewrite app_nil_r; reflexivity|].
  rewrite IH, app_assoc. reflexivity.
Qed.

Lemma fold_left_snoc_map {A B} (f : A -> B) (l : list A) : forall acc,
  fold_left (fun acc x => acc ++ [f x]) l acc = acc ++ map f l.
Proof.
  induction l as [|x l IH]; intros acc; cbn; [rewrite app_nil_r; reflexivity|].
  rewrite IH, <- app_assoc. reflexivity.
Qed.

(* ------------------------------------------------------------------ defaultdict(list) *)
Definition keys {V} (d : list (Z * V)) : list Z := map fst d.

Lemma dd_has_In {V} (d : list (Z * V)) k : dd_has d k = true <-> In k (keys d).
Proof.
  induction d as [|[k' v] d IH]; cbn; [split; [discriminate|tauto]|].
  rewrite orb_true_iff, IH, Z.eqb_eq. split; intros [H|H]; auto.
Qed.

Lemma dd_get_append {V} (d : ddict V) k v o :
  dd_get (dd_append d k v) o = if o =? k then dd_get d k ++ [v] else dd_get d o.
Proof.
  induction d as [|[k' l] d IH]; cbn.
  - destruct (o =? k); reflexivity.
  - destruct (k =? k') eqn:E; cbn.
    + apply Z.eqb_eq in E. subst k'. destruct (o =? k); reflexivity.
    + rewrite IH. destruct (o =? k) eqn:E1; [|reflexivity].
      apply Z.eqb_eq in E1. subst o. rewrite E. reflexivity.
Qed.

Lemma keys_append {V} (d : ddict V) k v :
  keys (dd_append d k v) = if dd_has d k then keys d else keys d ++ [k].
Proof.
  induction d as [|[k' l] d IH]; cbn; [reflexivity|].
  destruct (k =? k') eqn:E; cbn; [reflexivity|]. unfold keys in IH. rewrite IH.
  destruct (dd_has d k); reflexivity.
Qed.

Lemma dd_append_touch {V} (d : ddict V) k v : dd_append (dd_touch d k) k v = dd_append d k v.
Proof.
  unfold dd_touch. destruct (dd_has d k) eqn:E; [reflexivity|].
  induction d as [|[k' l] d IH]; cbn in *; [rewrite Z.eqb_refl; reflexivity|].
  destruct (k =? k') eqn:E1; cbn in E; [discriminate|]. rewrite IH by exact E. reflexivity.
Qed.

Lemma dd_get_touch {V} (d : ddict V) k o : dd_get (dd_touch d k) o = dd_get d o.
Proof.
  unfold dd_touch. destruct (dd_has d k) eqn:E; [reflexivity|].
  induction d as [|[k' l] d IH]; cbn in *; [destruct (o =? k); reflexivity|].
  destruct (k =? k') eqn:E1; cbn in E; [discriminate|]. rewrite IH by exact E. reflexivity.
Qed.

(* an association list with distinct keys is determined by its keys and its lookups *)
Lemma dd_repr {V} (d : ddict V) : NoDup (keys d) -> d = map (fun o => (o, dd_get d o)) (keys d).
Proof.
  induction d as [|[k l] d IH]; cbn; intros H; [reflexivity|].
  inversion H as [|? ? Hk Hd]; subst. rewrite Z.eqb_refl. f_equal.
  rewrite IH at 1 by exact Hd. apply map_ext_in. intros o Ho.
  destruct (o =? k) eqn:E; [|reflexivity]. apply Z.eqb_eq in E. subst. contradiction.
Qed.

(* grouping a sequence of (key, value) by appending *)
Definition group {V} (l : list (Z * V)) (d : ddict V) : ddict V :=
  fold_left (fun d p => dd_append d (fst p) (snd p)) l d.

Lemma group_cons {V} k (v : V) l d : group ((k, v) :: l) d = group l (dd_append d k v).
Proof. reflexivity. Qed.

Lemma dd_get_group {V} (l : list (Z * V)) : forall d o,
  dd_get (group l d) o = dd_get d o ++ map snd (filter (fun p => fst p =? o) l).
Proof.
  induction l as [|[k v] l IH]; intros d o; [cbn; rewrite app_nil_r; reflexivity|].
  rewrite group_cons, IH, dd_get_append. cbn [filter fst]. rewrite (Z.eqb_sym k o).
  destruct (o =? k) eqn:E; cbn [map snd]; [|reflexivity].
  apply Z.eqb_eq in E. subst. rewrite <- app_assoc. reflexivity.
Qed.

Lemma dedup_seen_ext l : forall s s', (forall x, In x s <-> In x s') -> dedup l s = dedup l s'.
Proof.
  induction l as [|x l IH]; intros s s' H; cbn; [reflexivity|].
  assert (E : existsb (fun y => y =? x) s = existsb (fun y => y =? x) s').
  { destruct (existsb (fun y => y =? x) s) eqn:E1; destruct (existsb (fun y => y =? x) s') eqn:E2; auto.
    - apply existsb_eqb_In in E1. apply H in E1. apply existsb_eqb_In in E1. congruence.
    - apply existsb_eqb_In in E2. apply H in E2. apply existsb_eqb_In in E2. congruence. }
  rewrite E. destruct (existsb (fun y => y =? x) s').
  - apply IH; exact H.
  - f_equal. apply IH. intros y. cbn. rewrite H. tauto.
Qed.

Lemma keys_group {V} (l : list (Z * V)) : forall d, keys (group l d) = keys d ++ dedup (map fst l) (keys d).
Proof.
  induction l as [|[k v] l IH]; intros d; [cbn; rewrite app_nil_r; reflexivity|].
  rewrite group_cons, IH, keys_append. cbn [map fst dedup].
  destruct (dd_has d k) eqn:E.
  - assert (E' : existsb (fun y => y =? k) (keys d) = true) by (apply existsb_eqb_In, dd_has_In; exact E).
    rewrite E'. reflexivity.
  - assert (E' : existsb (fun y => y =? k) (keys d) = false).
    { destruct (existsb (fun y => y =? k) (keys d)) eqn:E1; [|reflexivity].
      apply existsb_eqb_In, dd_has_In in E1. congruence. }
    rewrite E', <- app_assoc. cbn. f_equal. f_equal. apply dedup_seen_ext.
    intros x. rewrite in_app_iff. cbn. tauto.
Qed.

Lemma group_nil {V} (l : list (Z * V)) :
  group l [] = map (fun o => (o, map snd (filter (fun p => fst p =? o) l))) (dedup (map fst l) []).
Proof.
  assert (Hk : keys (group l []) = dedup (map fst l) []) by (rewrite keys_group; reflexivity).
  rewrite (dd_repr (group l [])) by (rewrite Hk; apply dedup_NoDup).
  rewrite Hk. apply map_ext. intros o. rewrite dd_get_group. reflexivity.
Qed.

(* ------------------------------------------------------------------ the items prepare() walks through *)
Definition items (S : Z) (regs : list reg) : list (Z * rng) :=
  flat_map (fun r => map (fun a => (decode S r a, rng_of r)) (addrs r)) regs.
(* the registers recorded for chunk o: one entry per address that decodes to o *)
Definition chunk_regs (S : Z) (regs : list reg) (o : Z) : list reg :=
  flat_map (fun r => flat_map (fun a => if decode S r a =? o then [r] else []) (addrs r)) regs.
(* the chunk table as registers[...] holds it when prepare() finds the shadow balanced *)
Definition chunk_dict (S : Z) (regs : list reg) : ddict rng :=
  map (fun o => (o, map rng_of (chunk_regs S regs o))) (table S regs).

Lemma items_offsets S regs : map fst (items S regs) = offsets S regs.
Proof.
  unfold items, offsets. induction regs as [|r regs IH]; cbn; [reflexivity|].
  rewrite map_app, IH, map_map. reflexivity.
Qed.

Lemma items_filter S regs o :
  map snd (filter (fun p => fst p =? o) (items S regs)) = map rng_of (chunk_regs S regs o).
Proof.
  unfold items, chunk_regs. induction regs as [|r regs IH]; cbn; [reflexivity|].
  rewrite filter_app, !map_app, IH. f_equal.
  induction (addrs r) as [|a l IHl]; cbn; [reflexivity|].
  destruct (decode S r a =? o); cbn; rewrite IHl; reflexivity.
Qed.

Lemma group_items S regs : group (items S regs) [] = chunk_dict S regs.
Proof.
  rewrite group_nil, items_offsets. unfold chunk_dict, table.
  apply map_ext. intros o. rewrite items_filter. reflexivity.
Qed.

(* within one register the addresses decode to distinct offsets, so a register is recorded once per chunk *)
Lemma low_bits_inj r a b : r_start r <= a < r_stop r -> r_start r <= b < r_stop r ->
  Z.land a (reg_size r - 1) = Z.land b (reg_size r - 1) -> a = b.
Proof.
  intros Ha Hb E. assert (Hl : 0 < reg_len r) by (unfold reg_len; lia).
  pose proof (reg_len_le_size r Hl) as Hs. unfold reg_size in *.
  pose proof (ceil_log2_nonneg (reg_len r)) as Hc.
  rewrite !land_pow2m1 in E by exact Hc. unfold reg_len in *.
  set (R := 2 ^ ceil_log2 (r_stop r - r_start r)) in *.
  assert (HR : 0 < R) by (apply pow2_pos; exact Hc).
  assert (Ea : a = R * (a / R) + a mod R) by (apply Z.div_mod; lia).
  assert (Eb : b = R * (b / R) + b mod R) by (apply Z.div_mod; lia).
  assert (a / R = b / R); [|nia].
  pose proof (Z.mod_pos_bound a R HR). pose proof (Z.mod_pos_bound b R HR). nia.
Qed.

Lemma decode_low S r a : Z.land (decode S r a) (reg_size r - 1) = Z.land a (reg_size r - 1).
Proof.
  unfold decode. rewrite Z.land_lor_distr_l.
  rewrite <- Z.land_assoc, (Z.land_comm (Z.lnot _)), Z.land_lnot_diag, Z.land_0_r, Z.lor_0_l.
  rewrite <- Z.land_assoc, Z.land_diag. reflexivity.
Qed.

Lemma decode_inj_any S r a b : r_start r <= a < r_stop r -> r_start r <= b < r_stop r ->
  decode S r a = decode S r b -> a = b.
Proof.
  intros Ha Hb E. apply (low_bits_inj r); auto. rewrite <- (decode_low S r a), <- (decode_low S r b), E. reflexivity.
Qed.

Lemma addrs_NoDup r : NoDup (addrs r).
Proof.
  unfold addrs. apply FinFun.Injective_map_NoDup; [|apply seq_NoDup].
  intros x y H. lia.
Qed.

Lemma once_in_NoDup (f : Z -> Z) (l : list Z) (o : Z) {A} (r : A) : NoDup l ->
  (forall a b, In a l -> In b l -> f a = f b -> a = b) ->
  flat_map (fun a => if f a =? o then [r] else []) l = if existsb (fun a => f a =? o) l then [r] else [].
Proof.
  induction l as [|a l IH]; intros Hnd Hinj; cbn; [reflexivity|].
  inversion Hnd as [|? ? Ha Hl]; subst.
  rewrite IH; [|exact Hl|intros; apply Hinj; cbn; auto].
  destruct (f a =? o) eqn:E; cbn; [|reflexivity].
  destruct (existsb (fun a0 => f a0 =? o) l) eqn:E1; [|reflexivity].
  apply existsb_exists in E1. destruct E1 as (b & Hb & E1).
  apply Z.eqb_eq in E, E1. assert (a = b) by (apply Hinj; cbn; auto; congruence). subst. contradiction.
Qed.

Lemma chunk_regs_filter S regs o : chunk_regs S regs o = filter (fun r => touches S r o) regs.
Proof.
  unfold chunk_regs, touches. induction regs as [|r regs IH]; cbn; [reflexivity|].
  rewrite IH, (once_in_NoDup (decode S r) (addrs r) o r (addrs_NoDup r)).
  - destruct (existsb (fun a => decode S r a =? o) (addrs r)); reflexivity.
  - intros a b Ha Hb. apply addrs_In in Ha, Hb. apply decode_inj_any; assumption.
Qed.

(* ------------------------------------------------------------------ the nested loop of prepare() *)
Definition count (l : list Z) (o : Z) : Z := Z.of_nat (length (filter (fun x => x =? o) l)).

Lemma count_cons x l o : count (x :: l) o = (if x =? o then 1 else 0) + count l o.
Proof. unfold count. cbn. destruct (x =? o); cbn [length]; lia. Qed.

Lemma count_nonneg l o : 0 <= count l o.
Proof. unfold count. lia. Qed.

Lemma count_pos_In l o : 0 < count l o -> In o l.
Proof.
  induction l as [|x l IH]; [unfold count; cbn; lia|]. rewrite count_cons.
  destruct (x =? o) eqn:E; [apply Z.eqb_eq in E; subst; left; reflexivity|].
  intros H. right. apply IH. lia.
Qed.

Section PrepareLoop.
  Variables (S ov : Z) (cg : bool).

  (* does the test `len(registers[o]) > overlaps` fire somewhere along l, starting from the lengths cnt *)
  Fixpoint overfull (cnt : Z -> Z) (l : list Z) : bool :=
    match l with
    | [] => false
    | o :: l' => (cnt o >? ov) || overfull (fun x => if x =? o then cnt x + 1 else cnt x) l'
    end.

  Lemma overfull_ext l : forall c c', (forall x, c x = c' x) -> overfull c l = overfull c' l.
  Proof.
    induction l as [|o l IH]; intros c c' H; cbn; [reflexivity|]. rewrite (H o). f_equal.
    apply IH. intros x. rewrite (H x). reflexivity.
  Qed.

  Lemma overfull_app l1 : forall c l2,
    overfull c (l1 ++ l2) = overfull c l1 || overfull (fun x => c x + count l1 x) l2.
  Proof.
    induction l1 as [|o l1 IH]; intros c l2; cbn.
    - apply overfull_ext. intros x. unfold count. cbn. lia.
    - rewrite IH, orb_assoc. f_equal. apply overfull_ext. intros x. rewrite count_cons, (Z.eqb_sym o x).
      destruct (x =? o); lia.
  Qed.

  Lemma overfull_count l : forall c,
    overfull c l = existsb (fun o => c o + count l o >? ov + 1) l.
  Proof.
    induction l as [|x l IH]; intros c; [reflexivity|]. cbn [overfull existsb]. rewrite IH.
    set (E := existsb (fun o => (if o =? x then c o + 1 else c o) + count l o >? ov + 1) l).
    assert (HE : existsb (fun o => c o + count (x :: l) o >? ov + 1) l = E).
    { unfold E. apply existsb_ext'. intros o. rewrite count_cons, (Z.eqb_sym x o). destruct (o =? x); f_equal; lia. }
    rewrite HE. rewrite count_cons, Z.eqb_refl.
    destruct E eqn:EE; [rewrite !orb_true_r; reflexivity|]. rewrite !orb_false_r.
    pose proof (count_nonneg l x) as Hn.
    destruct (Z.eq_dec (count l x) 0) as [H0|H0]; [rewrite H0; lia|].
    assert (Hin : In x l) by (apply count_pos_In; lia).
    unfold E in EE. pose proof (existsb_false _ _ EE x Hin) as EE'. cbv beta in EE'. rewrite Z.eqb_refl in EE'. lia.
  Qed.

  (* the loop state, in the order the translator packs it: (balanced, registers) *)
  Definition dstate := (bool * ddict rng)%type.
  Definition cnt_of (d : ddict rng) (o : Z) : Z := Z.of_nat (length (dd_get d o)).

  (* what one round of the inner loop does for register r at address a *)
  Definition inner_ok (r : reg) (body : Z -> dstate -> res (dstate * bool)) : Prop :=
    forall a bal d, In a (addrs r) ->
      if cg && (cnt_of d (decode S r a) >? ov)
      then exists d', body a (bal, d) = Ok ((false, d'), true)
      else body a (bal, d) = Ok ((bal, dd_append d (decode S r a) (rng_of r)), false).

  Lemma cnt_of_append d o x k : cnt_of (dd_append d o x) k = if k =? o then cnt_of d k + 1 else cnt_of d k.
  Proof.
    unfold cnt_of. rewrite dd_get_append. destruct (k =? o) eqn:E; [|reflexivity].
    apply Z.eqb_eq in E. subst. rewrite app_length. cbn. lia.
  Qed.

  Lemma inner_loop r body : forall l, incl l (addrs r) -> inner_ok r body -> forall bal d,
    exists d', py_for l body (bal, d) = Ok (bal && negb (cg && overfull (cnt_of d) (map (decode S r) l)), d') /\
               (cg && overfull (cnt_of d) (map (decode S r) l) = false ->
                d' = group (map (fun a => (decode S r a, rng_of r)) l) d).
  Proof.
    induction l as [|a l IH]; intros Hl Hb bal d.
    - exists d. cbn. rewrite andb_false_r, andb_true_r. auto.
    - assert (Ha : In a (addrs r)) by (apply Hl; left; reflexivity).
      assert (Hl' : incl l (addrs r)) by (intros x Hx; apply Hl; right; exact Hx).
      specialize (Hb a bal d Ha) as Hstep. cbn [py_for map overfull].
      destruct (cg && (cnt_of d (decode S r a) >? ov)) eqn:E.
      + destruct Hstep as (d' & ->). exists d'. split.
        * f_equal. f_equal. destruct cg; cbn in *; [rewrite E; cbn; rewrite andb_false_r; reflexivity|discriminate].
        * intros H. destruct cg; cbn in *; [rewrite E in H; discriminate|discriminate].
      + rewrite Hstep.
        destruct (IH Hl' Hb bal (dd_append d (decode S r a) (rng_of r))) as (d' & E1 & E2).
        assert (Hov : overfull (cnt_of (dd_append d (decode S r a) (rng_of r))) (map (decode S r) l) =
                      overfull (fun x => if x =? decode S r a then cnt_of d x + 1 else cnt_of d x) (map (decode S r) l)).
        { apply overfull_ext. intros x. apply cnt_of_append. }
        rewrite Hov in E1, E2. exists d'. split.
        * rewrite E1. f_equal. f_equal. destruct cg; cbn in *; [rewrite E; reflexivity|reflexivity].
        * intros H. cbn. apply E2. destruct cg; cbn in *; [rewrite E in H; exact H|reflexivity].
  Qed.

  (* the body of the outer loop runs the inner loop over the addresses of its register and never breaks *)
  Definition outer_ok (regs : list reg) (body : rng -> dstate -> res (dstate * bool)) : Prop :=
    forall r st, In r regs -> exists inner, inner_ok r inner /\
      body (rng_of r) st = (let! '(b', d') := py_for (range_list (r_start r) (r_stop r)) inner st in
                            Ok ((b', d'), false)).

  Lemma cnt_of_group l : forall d o, cnt_of (group l d) o = cnt_of d o + count (map fst l) o.
  Proof.
    intros d o. unfold cnt_of, count. rewrite dd_get_group, app_length, map_length.
    assert (length (filter (fun p : Z * rng => fst p =? o) l) = length (filter (fun x => x =? o) (map fst l))).
    { induction l as [|[k v] l IH]; cbn; [reflexivity|]. destruct (k =? o); cbn; rewrite IH; reflexivity. }
    lia.
  Qed.

  Lemma outer_loop body : forall regs, outer_ok regs body -> forall bal d,
    exists d', py_for (map rng_of regs) body (bal, d) =
               Ok (bal && negb (cg && overfull (cnt_of d) (offsets S regs)), d') /\
               (cg && overfull (cnt_of d) (offsets S regs) = false -> d' = group (items S regs) d).
  Proof.
    induction regs as [|r regs IH]; intros Hb bal d.
    - exists d. cbn. rewrite andb_false_r, andb_true_r. auto.
    - destruct (Hb r (bal, d) (or_introl eq_refl)) as (inner & Hin & Eb).
      destruct (inner_loop r inner (addrs r) (incl_refl _) Hin bal d) as (d1 & E1 & G1).
      rewrite range_list_addrs in Eb. rewrite E1 in Eb. cbn [bind] in Eb.
      assert (Hb' : outer_ok regs body) by (intros r0 st0 H0; apply Hb; right; exact H0).
      set (o1 := cg && overfull (cnt_of d) (map (decode S r) (addrs r))) in *.
      destruct (IH Hb' (bal && negb o1) d1) as (d2 & E2 & G2).
      cbn [map py_for]. rewrite Eb. exists d2.
      unfold offsets in *. cbn [flat_map]. rewrite overfull_app.
      destruct o1 eqn:Eo.
      + split.
        * rewrite E2. f_equal. f_equal. unfold o1 in Eo. destruct cg; cbn in *; [rewrite Eo; cbn|discriminate].
          rewrite !andb_false_r. reflexivity.
        * intros H. unfold o1 in Eo. destruct cg; cbn in *; [rewrite Eo in H; discriminate|discriminate].
      + specialize (G1 eq_refl). subst d1.
        assert (Hov : overfull (cnt_of (group (map (fun a => (decode S r a, rng_of r)) (addrs r)) d))
                               (flat_map (fun r0 => map (decode S r0) (addrs r0)) regs) =
                      overfull (fun x => cnt_of d x + count (map (decode S r) (addrs r)) x)
                               (flat_map (fun r0 => map (decode S r0) (addrs r0)) regs)).
        { apply overfull_ext. intros x. rewrite cnt_of_group, map_map. reflexivity. }
        rewrite Hov in E2, G2. split.
        * rewrite E2. f_equal. f_equal. unfold o1 in Eo.
          destruct cg; cbn in *; [rewrite Eo; cbn; rewrite andb_true_r; reflexivity|rewrite andb_true_r; reflexivity].
        * intros H. unfold items. cbn [flat_map]. unfold group. rewrite fold_left_app. apply G2.
          unfold o1 in Eo. destruct cg; cbn in *; [rewrite Eo in H; exact H|reflexivity].
  Qed.

  Lemma overfull_unbalanced regs : overfull (cnt_of []) (offsets S regs) = unbalanced S ov regs.
  Proof.
    rewrite overfull_count. unfold unbalanced, occupancy. apply existsb_ext'. intros o.
    unfold cnt_of, count. cbn. reflexivity.
  Qed.

  (* the result of the two loops, started as prepare() starts them *)
  Theorem prepare_loops regs body : outer_ok regs body ->
    exists d', py_for (map rng_of regs) body (true, []) = Ok (negb (cg && unbalanced S ov regs), d') /\
               (cg && unbalanced S ov regs = false -> d' = chunk_dict S regs).
  Proof.
    intros Hb. destruct (outer_loop body regs Hb true []) as (d' & E & G).
    rewrite overfull_unbalanced in E, G. exists d'. split; [exact E|].
    intros H. rewrite (G H). apply group_items.
  Qed.
End PrepareLoop.

(* ------------------------------------------------------------------ sorted() *)
Lemma lex_ltb_asym a : forall b, lex_ltb a b = true -> lex_ltb b a = false.
Proof.
  induction a as [|x a IH]; intros [|y b]; cbn; try discriminate; try reflexivity.
  intros H. destruct (x <? y) eqn:E1; cbn in H.
  - assert (y <? x = false) by lia. assert (y =? x = false) by lia. rewrite H0, H1. reflexivity.
  - destruct (x =? y) eqn:E2; cbn in H; [|discriminate].
    assert (y <? x = false) by lia. assert (y =? x = true) by lia. rewrite H0, H1. cbn. apply IH. exact H.
Qed.

Lemma lex_ltb_irrefl a : lex_ltb a a = false.
Proof. destruct (lex_ltb a a) eqn:E; [|reflexivity]. pose proof (lex_ltb_asym a a E). congruence. Qed.

Section SortedSet.
  Context {A : Type} (A_eq_dec : forall a b : A, {a = b} + {a <> b}) (key : A -> list Z).
  Definition klt (a b : A) : Prop := lex_ltb (key a) (key b) = true.
  Definition memb (l : list A) (x : A) : bool := if in_dec A_eq_dec x l then true else false.

  Lemma ins_front x l : Forall (klt x) l -> ins_sorted key x l = x :: l.
  Proof. intros H. destruct l as [|y l]; [reflexivity|]. cbn. inversion H; subst. unfold klt in *. rewrite H2. reflexivity. Qed.

  (* inserting a new element of a strictly ordered list into a sub-selection of it *)
  Lemma ins_filter (P : A -> bool) x : forall s, StronglySorted klt s -> In x s -> P x = false ->
    ins_sorted key x (filter P s) = filter (fun y => P y || (if A_eq_dec y x then true else false)) s.
  Proof.
    induction s as [|y s IH]; intros Hs Hx HP; [contradiction|].
    apply StronglySorted_inv in Hs. destruct Hs as [Hs Hy].
    destruct (A_eq_dec y x) as [->|Hne].
    - cbn [filter]. rewrite HP. destruct (A_eq_dec x x) as [_|N]; [|congruence]. cbn.
      rewrite ins_front.
      + f_equal. apply filter_ext_in. intros z Hz.
        destruct (A_eq_dec z x) as [->|_]; [|rewrite orb_false_r; reflexivity].
        rewrite Forall_forall in Hy. specialize (Hy x Hz). unfold klt in Hy. rewrite lex_ltb_irrefl in Hy. discriminate.
      + rewrite Forall_forall in *. intros z Hz. apply filter_In in Hz. apply Hy. tauto.
    - destruct Hx as [Hx|Hx]; [congruence|].
      cbn [filter]. destruct (A_eq_dec y x) as [E|_]; [congruence|]. rewrite orb_false_r.
      destruct (P y) eqn:Py.
      + cbn [ins_sorted]. rewrite Forall_forall in Hy. specialize (Hy x Hx). unfold klt in Hy.
        rewrite (lex_ltb_asym _ _ Hy). f_equal. apply IH; assumption.
      + apply IH; assumption.
  Qed.

  Lemma sorted_fold s : StronglySorted klt s -> forall l seen, NoDup (seen ++ l) -> incl l s ->
    fold_left (fun acc x => ins_sorted key x acc) l (filter (memb seen) s) = filter (memb (seen ++ l)) s.
  Proof.
    intros Hs. induction l as [|x l IH]; intros seen Hnd Hin; cbn; [rewrite app_nil_r; reflexivity|].
    assert (Hx : memb seen x = false).
    { unfold memb. destruct (in_dec A_eq_dec x seen) as [H|H]; [|reflexivity].
      apply NoDup_remove_2 in Hnd. exfalso. apply Hnd. apply in_or_app. left; exact H. }
    rewrite ins_filter; [|exact Hs|apply Hin; left; reflexivity|exact Hx].
    replace (seen ++ x :: l) with ((seen ++ [x]) ++ l) in * by (rewrite <- app_assoc; reflexivity).
    rewrite <- IH; [|exact Hnd|intros y Hy; apply Hin; right; exact Hy].
    f_equal. apply filter_ext. intros y. unfold memb.
    destruct (in_dec A_eq_dec y seen) as [H1|H1]; destruct (in_dec A_eq_dec y (seen ++ [x])) as [H2|H2];
      destruct (A_eq_dec y x) as [H3|H3]; cbn; try reflexivity; exfalso;
      rewrite in_app_iff in H2; cbn in H2; intuition congruence.
  Qed.

  Lemma klt_sorted_NoDup s : StronglySorted klt s -> NoDup s.
  Proof.
    induction s as [|y s IH]; intros Hs; [constructor|].
    apply StronglySorted_inv in Hs. destruct Hs as [Hs Hy]. constructor; [|apply IH; exact Hs].
    intros Hin. rewrite Forall_forall in Hy. specialize (Hy y Hin). unfold klt in Hy.
    rewrite lex_ltb_irrefl in Hy. discriminate.
  Qed.

  (* sorted() of any enumeration of the elements of a strictly ordered list is that list *)
  Theorem py_sorted_perm s l : StronglySorted klt s -> Permutation l s -> py_sorted key l = s.
  Proof.
    intros Hs Hp. unfold py_sorted.
    assert (E0 : forall t : list A, ([] : list A) = filter (memb []) t).
    { induction t as [|y t IHt]; [reflexivity|]. cbn. exact IHt. }
    rewrite (E0 s) at 1. rewrite sorted_fold; [|exact Hs| |].
    - cbn. rewrite <- (filter_ext_in (fun _ => true)).
      + clear. induction s as [|y s IH]; cbn; [reflexivity|]. rewrite IH. reflexivity.
      + intros y Hy. unfold memb. destruct (in_dec A_eq_dec y l) as [H|H]; [reflexivity|].
        exfalso. apply H. apply Permutation_in with s; [symmetry; exact Hp|exact Hy].
    - cbn. apply Permutation_NoDup with s; [symmetry; exact Hp|]. apply klt_sorted_NoDup. exact Hs.
    - intros y Hy. apply Permutation_in with l; assumption.
  Qed.
End SortedSet.

Definition rng_eq_dec : forall a b : rng, {a = b} + {a <> b}.
Proof. decide equality; apply Z.eq_dec. Defined.

Lemma rng_eqb_eq a b : rng_eqb a b = true <-> a = b.
Proof.
  destruct a as [a1 a2], b as [b1 b2]. unfold rng_eqb, rstart, rstop. cbn.
  rewrite andb_true_iff, !Z.eqb_eq. split; [intros [-> ->]; reflexivity|intros H; inversion H; auto].
Qed.

(* registers in ascending order of their start address (what resources() yields) *)
Definition ascending (regs : list reg) : Prop := StronglySorted (fun a b => r_start a < r_start b) regs.

Lemma ascending_filter f regs : ascending regs -> ascending (filter f regs).
Proof.
  unfold ascending. induction regs as [|r regs IH]; intros H; [constructor|].
  apply StronglySorted_inv in H. destruct H as [H1 H2]. cbn. destruct (f r); [|apply IH; exact H1].
  constructor; [apply IH; exact H1|]. rewrite Forall_forall in *. intros x Hx. apply H2.
  apply filter_In in Hx. tauto.
Qed.

Lemma layout_from_lower regs : forall lo, layout_from lo regs -> Forall (fun x => lo <= r_start x) regs.
Proof.
  induction regs as [|r regs IH]; intros lo H; [constructor|].
  cbn in H. destruct H as (H1 & H2 & H3 & H4). constructor; [exact H1|].
  apply Forall_impl with (P := fun x => r_stop r <= r_start x); [intros x Hx; lia|]. apply IH. exact H4.
Qed.

Lemma layout_ascending regs : wf_layout regs -> ascending regs.
Proof.
  unfold wf_layout, ascending. generalize 0. induction regs as [|r regs IH]; intros lo H; [constructor|].
  cbn in H. destruct H as (H1 & H2 & H3 & H4). constructor; [apply (IH _ H4)|].
  apply Forall_impl with (P := fun x => r_stop r <= r_start x); [intros x Hx; lia|].
  apply layout_from_lower. exact H4.
Qed.

(* any key tuple that starts with the start address orders an ascending list strictly *)
Lemma ascending_klt (key : rng -> list Z) regs :
  (forall x, exists t, key x = rstart x :: t) -> ascending regs ->
  StronglySorted (klt key) (map rng_of regs).
Proof.
  intros Hk. unfold ascending. induction regs as [|r regs IH]; intros H; [constructor|].
  apply StronglySorted_inv in H. destruct H as [H1 H2]. cbn. constructor; [apply IH; exact H1|].
  rewrite Forall_forall in *. intros x Hx. apply in_map_iff in Hx. destruct Hx as (r' & <- & Hr').
  specialize (H2 r' Hr'). unfold klt. destruct (Hk (rng_of r)) as (t & ->). destruct (Hk (rng_of r')) as (t' & ->).
  cbn. unfold rstart. cbn. assert (r_start r <? r_start r' = true) by lia. rewrite H. reflexivity.
Qed.

(* ------------------------------------------------------------------ sets of ranges *)
Lemma set_mem_In x s : set_mem x s = true <-> In x (rs_elems s).
Proof.
  unfold set_mem. rewrite existsb_exists. split.
  - intros (y & Hy & E). apply rng_eqb_eq in E. subst. exact Hy.
  - intros H. exists x. split; [exact H|]. apply rng_eqb_eq. reflexivity.
Qed.

Lemma set_mem_false x s : ~ In x (rs_elems s) -> set_mem x s = false.
Proof. intros H. destruct (set_mem x s) eqn:E; [|reflexivity]. apply set_mem_In in E. contradiction. Qed.

(* ------------------------------------------------------------------ the model does not depend on the order *)
Lemma existsb_perm {A} (f : A -> bool) l l' : Permutation l l' -> existsb f l = existsb f l'.
Proof.
  induction 1; cbn; try congruence.
  destruct (f x), (f y); reflexivity.
Qed.

Lemma count_perm l l' o : Permutation l l' -> count l o = count l' o.
Proof.
  induction 1; [reflexivity| | |congruence].
  - rewrite !count_cons. lia.
  - rewrite !count_cons. lia.
Qed.

Lemma offsets_perm S regs regs' : Permutation regs regs' -> Permutation (offsets S regs) (offsets S regs').
Proof.
  unfold offsets. induction 1; cbn.
  - constructor.
  - apply Permutation_app_head. assumption.
  - rewrite !app_assoc. apply Permutation_app_tail. apply Permutation_app_comm.
  - eapply perm_trans; eassumption.
Qed.

Lemma unbalanced_perm S ov regs regs' : Permutation regs regs' -> unbalanced S ov regs = unbalanced S ov regs'.
Proof.
  intros H. unfold unbalanced. pose proof (offsets_perm S _ _ H) as Hp.
  rewrite (existsb_perm _ _ _ Hp). apply existsb_ext'. intros o. unfold occupancy.
  change (count (offsets S regs) o >? ov + 1 = (count (offsets S regs') o >? ov + 1)).
  rewrite (count_perm _ _ o Hp). reflexivity.
Qed.

Lemma can_grow_perm S regs regs' : Permutation regs regs' -> can_grow S regs = can_grow S regs'.
Proof. intros H. unfold can_grow. apply existsb_perm. exact H. Qed.

Lemma prepare_perm regs regs' : Permutation regs regs' -> forall fuel S ov, prepare fuel S ov regs = prepare fuel S ov regs'.
Proof.
  intros H. induction fuel as [|f IH]; intros S ov; [reflexivity|]. cbn [prepare].
  rewrite (can_grow_perm S _ _ H), (unbalanced_perm S ov _ _ H), IH. reflexivity.
Qed.

Lemma fold_max_perm {A} (f : A -> Z) l l' : Permutation l l' -> forall a,
  fold_left (fun s r => Z.max s (f r)) l a = fold_left (fun s r => Z.max s (f r)) l' a.
Proof.
  induction 1; intros a; cbn; try congruence.
  f_equal. lia.
Qed.

(* the shadow size the model computes is a function of the SET of registers *)
Theorem shadow_size_perm ov regs regs' : Permutation regs regs' -> shadow_size ov regs = shadow_size ov regs'.
Proof.
  intros H. unfold shadow_size, prepare_fuel, init_size.
  rewrite (fold_max_perm (fun r => Z.log2_up (r_start r + 1)) _ _ H 0).
  rewrite (fold_max_perm reg_size _ _ H 1). rewrite (Permutation_length H). apply prepare_perm. exact H.
Qed.

(* more fuel does not change what the loop returns *)
Lemma prepare_more_fuel regs ov : forall f f' S S', prepare f S ov regs = Some S' -> (f <= f')%nat ->
  prepare f' S ov regs = Some S'.
Proof.
  induction f as [|f IH]; intros f' S S' H Hle; [discriminate|].
  destruct f' as [|f']; [lia|]. cbn [prepare] in *.
  destruct (can_grow S regs && unbalanced S ov regs); [|exact H]. apply (IH f'); [exact H|lia].
Qed.

Lemma dict_set_new {V} (d : list (Z * V)) k v : ~ In k (keys d) -> dict_set d k v = d ++ [(k, v)].
Proof.
  induction d as [|[k' v'] d IH]; intros H; cbn [dict_set app]; [reflexivity|].
  destruct (k =? k') eqn:E; [apply Z.eqb_eq in E; subst; exfalso; apply H; left; reflexivity|].
  rewrite IH; [reflexivity|]. intros H1. apply H. right; exact H1.
Qed.

Lemma existsb_rng_of (f : rng -> bool) regs : existsb f (map rng_of regs) = existsb (fun r => f (rng_of r)) regs.
Proof. induction regs as [|r regs IH]; cbn; [reflexivity|]. rewrite IH. reflexivity. Qed.

Lemma chunk_dict_keys S regs : keys (chunk_dict S regs) = table S regs.
Proof. unfold chunk_dict, keys. rewrite map_map. cbn. apply map_id. Qed.

(* a loop that only validates *)
Lemma py_for_check {A} (c : A -> bool) (e : exn) (l : list A) (body : A -> unit -> res (unit * bool)) :
  (forall x st, body x st = if c x then Err e else Ok (tt, false)) ->
  py_for l body tt = if existsb c l then Err e else Ok tt.
Proof.
  intros H. induction l as [|x l IH]; [reflexivity|]. cbn [py_for existsb]. rewrite H.
  destruct (c x); [reflexivity|]. cbn. exact IH.
Qed.

Lemma rng_of_mkreg x : rng_of (mkreg x) = x.
Proof. destruct x; reflexivity. Qed.

Lemma ascending_NoDup_rng regs : ascending regs -> NoDup (map rng_of regs).
Proof.
  unfold ascending. induction regs as [|r regs IH]; intros H; [constructor|].
  apply StronglySorted_inv in H. destruct H as [H1 H2]. cbn. constructor; [|apply IH; exact H1].
  intros Hin. apply in_map_iff in Hin. destruct Hin as (r' & E & Hr'). rewrite Forall_forall in H2.
  specialize (H2 r' Hr'). unfold rng_of in E. inversion E. lia.
Qed.

(* ------------------------------------------------------------------ what elaborate() wires, read off the chunk table *)
(* one entry per (chunk, register using it): the bus address of the Case, the register (by its start address), the
   word of the register that the chunk holds, and whether the element strobe is raised in this Case *)
Record site := mk_site { st_chunk : Z; st_addr : Z; st_reg : Z; st_word : Z; st_strobe : bool }.

Definition sites_of (strobe_at : rng -> Z) (d : ddict rng) : list site :=
  flat_map (fun p => map (fun x => let ca := encode (mkreg x) (fst p) in
                                   mk_site (fst p) ca (rstart x) (ca - rstart x) (ca =? strobe_at x)) (snd p)) d.
Definition rsites (S : Z) (regs : list reg) : list site := sites_of rstart (chunk_dict S regs).
Definition wsites (S : Z) (regs : list reg) : list site := sites_of (fun x => rstop x - 1) (chunk_dict S regs).

Lemma sites_In f S regs s : In s (sites_of f (chunk_dict S regs)) <->
  exists o r, In r regs /\ touches S r o = true /\
              s = mk_site o (encode r o) (r_start r) (encode r o - r_start r) (encode r o =? f (rng_of r)).
Proof.
  unfold sites_of, chunk_dict. rewrite in_flat_map. split.
  - intros ([o l] & Hp & Hs). apply in_map_iff in Hp. destruct Hp as (o' & E & Ho). inversion E; subst o' l. clear E.
    cbn [fst snd] in Hs. rewrite map_map in Hs. apply in_map_iff in Hs. destruct Hs as (r & <- & Hr).
    rewrite chunk_regs_filter in Hr. apply filter_In in Hr. destruct Hr as [Hr Ht].
    exists o, r. split; [exact Hr|]. split; [exact Ht|]. reflexivity.
  - intros (o & r & Hr & Ht & ->). exists (o, map rng_of (chunk_regs S regs o)). split.
    + apply in_map_iff. exists o. split; [reflexivity|]. apply table_In.
      apply touches_spec in Ht. destruct Ht as (a & Ha & E). exists r, a. auto.
    + cbn [fst snd]. rewrite map_map. apply in_map_iff. exists r. split; [reflexivity|].
      rewrite chunk_regs_filter. apply filter_In. auto.
Qed.

Lemma site_word_spec f d s : In s (sites_of f d) -> st_word s = st_addr s - st_reg s.
Proof.
  unfold sites_of. rewrite in_flat_map. intros (p & _ & H). apply in_map_iff in H. destruct H as (x & <- & _). reflexivity.
Qed.

(* the Case addresses of write chunk o are the addresses at which the model enables the chunk *)
Theorem wen_sites c i o :
  wen c i o = i_wstb i && existsb (fun s => (st_chunk s =? o) && (i_addr i =? st_addr s)) (wsites (c_Sw c) (wregs c)).
Proof.
  unfold wen. f_equal. apply eq_iff_eq_true. rewrite !existsb_exists. split.
  - intros (r & Hr & H). apply andb_prop in H. destruct H as [Ht Ha].
    eexists. split; [apply sites_In; exists o, r; split; [exact Hr|split; [exact Ht|reflexivity]]|].
    cbn. rewrite Z.eqb_refl. exact Ha.
  - intros (s & Hs & H). apply sites_In in Hs. destruct Hs as (o' & r & Hr & Ht & ->). cbn in H.
    apply andb_prop in H. destruct H as [Ho Ha]. apply Z.eqb_eq in Ho. subst o'.
    exists r. split; [exact Hr|]. rewrite Ht. exact Ha.
Qed.

Theorem ren_sites c i o :
  ren_next c i o = if i_rstb i && existsb (fun s => (st_chunk s =? o) && (i_addr i =? st_addr s)) (rsites (c_Sr c) (rregs c))
                   then 1 else 0.
Proof.
  unfold ren_next.
  replace (existsb (fun r => touches (c_Sr c) r o && (i_addr i =? encode r o)) (rregs c))
    with (existsb (fun s => (st_chunk s =? o) && (i_addr i =? st_addr s)) (rsites (c_Sr c) (rregs c))); [reflexivity|].
  apply eq_iff_eq_true. rewrite !existsb_exists. split.
  - intros (s & Hs & H). apply sites_In in Hs. destruct Hs as (o' & r & Hr & Ht & ->). cbn in H.
    apply andb_prop in H. destruct H as [Ho Ha]. apply Z.eqb_eq in Ho. subst o'.
    exists r. split; [exact Hr|]. rewrite Ht. exact Ha.
  - intros (r & Hr & H). apply andb_prop in H. destruct H as [Ht Ha].
    eexists. split; [apply sites_In; exists o, r; split; [exact Hr|split; [exact Ht|reflexivity]]|].
    cbn. rewrite Z.eqb_refl. exact Ha.
Qed.

Lemma ascending_start_inj regs r r' : ascending regs -> In r regs -> In r' regs -> r_start r = r_start r' -> r = r'.
Proof.
  unfold ascending. induction regs as [|x regs IH]; intros H Hr Hr' E; [contradiction|].
  apply StronglySorted_inv in H. destruct H as [H1 H2]. rewrite Forall_forall in H2.
  destruct Hr as [->|Hr]; destruct Hr' as [->|Hr']; auto.
  - specialize (H2 _ Hr'). lia.
  - specialize (H2 _ Hr). lia.
Qed.

Lemma size_ok_encode_decode S regs r a : size_ok S regs -> In r regs -> r_start r <= a < r_stop r ->
  touches S r (decode S r a) = true /\ encode r (decode S r a) = a.
Proof.
  intros (s & -> & Hs & Hall) Hr Ha. split.
  - apply touches_spec. exists a. auto.
  - apply encode_decode; [apply Hall; exact Hr|unfold reg_len; lia|exact Ha].
Qed.

(* element.r_stb of a readable register is raised exactly in the Case whose address is the register's first address *)
Theorem rstb_sites S regs i r : size_ok S regs -> In r regs -> 0 < reg_len r ->
  elem_rstb i r = r_rd r && i_rstb i &&
                  existsb (fun s => st_strobe s && (st_reg s =? r_start r) && (i_addr i =? st_addr s)) (rsites S regs).
Proof.
  intros Hok Hr Hl. unfold elem_rstb. f_equal. apply eq_iff_eq_true. rewrite existsb_exists, Z.eqb_eq. split.
  - intros E. destruct (size_ok_encode_decode S regs r (r_start r) Hok Hr) as [Ht He]; [unfold reg_len in Hl; lia|].
    eexists. split; [apply sites_In; exists (decode S r (r_start r)), r; split; [exact Hr|split; [exact Ht|reflexivity]]|].
    cbn. rewrite He. unfold rstart. cbn. rewrite !Z.eqb_refl. cbn. lia.
  - intros (s & Hs & H). apply sites_In in Hs. destruct Hs as (o & r' & Hr' & Ht & ->). cbn in H.
    unfold rstart in H. cbn in H. lia.
Qed.

(* element.w_stb of a writable register is raised exactly in the Case whose address is the register's last address *)
Theorem wstb_sites S regs i r : size_ok S regs -> ascending regs -> In r regs -> 0 < reg_len r ->
  wstb_next i r = r_wr r && i_wstb i &&
                  existsb (fun s => st_strobe s && (st_reg s =? r_start r) && (i_addr i =? st_addr s)) (wsites S regs).
Proof.
  intros Hok Hasc Hr Hl. unfold wstb_next. f_equal. apply eq_iff_eq_true. rewrite existsb_exists, Z.eqb_eq. split.
  - intros E. destruct (size_ok_encode_decode S regs r (r_stop r - 1) Hok Hr) as [Ht He]; [unfold reg_len in Hl; lia|].
    eexists. split; [apply sites_In; exists (decode S r (r_stop r - 1)), r; split; [exact Hr|split; [exact Ht|reflexivity]]|].
    cbn. rewrite He. unfold rstop. cbn. rewrite !Z.eqb_refl. cbn. lia.
  - intros (s & Hs & H). apply sites_In in Hs. destruct Hs as (o & r' & Hr' & Ht & ->). cbn in H.
    unfold rstop in H. cbn in H.
    assert (r' = r) by (apply (ascending_start_inj regs); auto; lia). subst r'. lia.
Qed.
