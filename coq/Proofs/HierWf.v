(* C01: the hardware read off a CSR tree's maps is well formed (every multiplexer configuration meets
   C04/C05's premise), hence the inertness theorems of Proofs/HierInert.v apply to it. *)
From Coq Require Import ZArith List Bool Lia ZifyBool Arith Permutation.
From Soc Require Import Lib.Res Lib.PyList Lib.Bits Model.MemoryMap Model.MemSpec Model.Hierarchy Model.MuxSpec
  Proofs.RangeMap Proofs.LookupArith Proofs.LookupWf Proofs.Lookup Proofs.MemArith Proofs.HierMap
  Proofs.HierCsr Proofs.HierInert.
From Soc Require Lib.CsrPattern Model.Mux Model.CsrDecoder Proofs.MuxTable Proofs.MuxPrepare.
Import ListNotations.
Open Scope Z_scope.

Local Opaque Z.pow.

(* element widths are not negative (csr.Element.Signature refuses anything else) *)
Definition ops_widths (ops : list mop) : Prop :=
  Forall (fun op => match op with MAdd r => 0 <= l_width r | MAlign _ => True end) ops.

Fixpoint csr_widths (n : csrnode) : Prop :=
  match n with
  | MuxLeaf _ _ _ ops _ => ops_widths ops
  | CsrDec _ _ _ subs =>
      (fix go (l : list (wopt * csrnode)) : Prop :=
         match l with [] => True | (_, c) :: l' => csr_widths c /\ go l' end) subs
  end.

Lemma csr_widths_dec aw dw al subs :
  csr_widths (CsrDec aw dw al subs) <-> Forall (fun p : wopt * csrnode => csr_widths (snd p)) subs.
Proof.
  cbn [csr_widths]. induction subs as [|[o c] l IH].
  - split; auto.
  - split.
    + intros [H1 H2]. constructor; [exact H1|apply IH; exact H2].
    + intros H. inversion H as [|? ? H1 H2]; subst. split; [exact H1|apply IH; exact H2].
Qed.

Lemma find_leaf_width ops id lf : ops_widths ops -> find_leaf id ops = Some lf -> 0 <= l_width lf.
Proof.
  induction ops as [|[r|a] ops IH]; cbn [find_leaf]; intros Hw H; [discriminate| |].
  - inversion Hw as [|? ? H1 H2]; subst. destruct (l_id r =? id); [injection H as <-; exact H1|auto].
  - inversion Hw as [|? ? H1 H2]; subst. auto.
Qed.

Lemma layout_weaken regs lo lo' : lo' <= lo -> layout_from lo regs -> layout_from lo' regs.
Proof. destruct regs as [|r regs]; cbn; [auto|]. intros H (H1 & H2 & H3 & H4). repeat split; auto; lia. Qed.

(* the registers of one range entry *)
Definition entry_regs (ress : list resent) (ops : list mop) (x : entry) : list (Z * Mux.reg) :=
  match e_asg x with
  | AR id =>
      match find_res id ress, find_leaf id ops with
      | Some _, Some r => [(id, {| Mux.r_start := e_start x; Mux.r_stop := e_stop x; Mux.r_width := l_width r;
                                   Mux.r_rd := l_rd r; Mux.r_wr := l_wr r |})]
      | _, _ => []
      end
  | AW _ => []
  end.

Lemma mux_regs_flat m ops : mux_regs m ops = flat_map (entry_regs (m_ress m) ops) (m_ranges m).
Proof.
  unfold mux_regs, resources. induction (m_ranges m) as [|x l IH]; [reflexivity|].
  cbn [flat_map]. rewrite flat_map_app, IH. f_equal.
  unfold entry_regs. destruct (e_asg x) as [id|id]; [|reflexivity].
  destruct (find_res id (m_ress m)); [|reflexivity]. cbn [flat_map app].
  destruct (find_leaf id ops); reflexivity.
Qed.

Lemma ranges_layout ress ops : ops_widths ops -> forall l lo, chain lo l ->
  layout_from lo (map snd (flat_map (entry_regs ress ops) l)).
Proof.
  intros Hw. induction l as [|x l IH]; intros lo Hc; [exact I|].
  cbn [chain] in Hc. destruct Hc as (H1 & H2 & H3). cbn [flat_map]. rewrite map_app.
  specialize (IH _ H3). unfold entry_regs at 1.
  destruct (e_asg x) as [id|id]; [|cbn [map app]; apply (layout_weaken _ (e_stop x)); [lia|exact IH]].
  destruct (find_res id ress); [|cbn [map app]; apply (layout_weaken _ (e_stop x)); [lia|exact IH]].
  destruct (find_leaf id ops) as [lf|] eqn:El; [|cbn [map app]; apply (layout_weaken _ (e_stop x)); [lia|exact IH]].
  cbn [map app snd layout_from Mux.r_start Mux.r_stop Mux.r_width].
  repeat split; auto. eapply find_leaf_width; eauto.
Qed.

Theorem csr_hw_wf n : csr_dom n -> csr_widths n -> forall h, csr_hw n = Ok h -> hw_wf h.
Proof.
  induction n as [aw dw al ops ov|aw dw al subs IH] using csrnode_ind'; intros Hdom Hwd h Hh.
  - cbn [csr_hw] in Hh. apply bind_ok in Hh as (m & Hm & Hh).
    destruct (Mux.mk_cfg dw (map snd (mux_regs m ops)) ov) as [c|] eqn:Ec; [|discriminate].
    injection Hh as <-. destruct (mux_map_spec _ _ _ _ _ Hm) as (Hwt & _ & _ & _ & _ & Pd & _).
    pose proof (wf_tree_node _ Hwt) as (_ & _ & _ & _ & Hch & _).
    assert (Hl : wf_layout (map snd (mux_regs m ops))).
    { rewrite mux_regs_flat. apply ranges_layout; [exact Hwd|exact Hch]. }
    set (regs := map snd (mux_regs m ops)) in *.
    destruct (MuxPrepare.shadow_size_total ov (filter Mux.r_rd regs)) as (sr & Er & Hr).
    destruct (MuxPrepare.shadow_size_total ov (filter Mux.r_wr regs)) as (sw & Ew & Hw).
    unfold Mux.mk_cfg in Ec. rewrite Er, Ew in Ec. injection Ec as <-. cbn [hw_wf]. split.
    + unfold wf_cfg, Mux.rregs, Mux.wregs. cbn. auto.
    + cbn [Mux.c_regs]. unfold regs. rewrite !map_length. reflexivity.
  - apply csr_dom_dec in Hdom. apply csr_widths_dec in Hwd.
    rewrite csr_hw_dec in Hh. apply bind_ok in Hh as (m & Hm & Hh). apply bind_ok in Hh as (hk & Ehk & Hh).
    injection Hh as <-. apply hw_wf_dec. apply Forall_forall. intros [w ch] Hin. cbn [snd].
    apply dec_subs_In in Hin as (x & idk & caw & _ & _ & En & _).
    destruct (hw_kids_nth _ _ Ehk) as [Hlen Hnth].
    assert (Hlt : (Z.to_nat idk < length subs)%nat). { rewrite <- Hlen. apply nth_error_Some. congruence. }
    destruct (nth_error subs (Z.to_nat idk)) as [[o cn]|] eqn:Es; [|apply nth_error_None in Es; lia].
    destruct (Hnth _ _ _ Es) as (hj & Hhj & Hhw). rewrite Hhj in En. injection En as _ <-.
    pose proof (nth_error_In _ _ Es) as Hi. rewrite Forall_forall in IH, Hdom, Hwd.
    exact (IH _ Hi (proj2 (Hdom _ Hi)) (Hwd _ Hi) _ Hhw).
Qed.

(* unassigned_inert for CSR trees: an address the root map leaves unassigned raises no register's read
   strobe in the cycle of the access, no register's write strobe in the next cycle (w_stb is registered),
   and the bus reads zero in the next cycle (r_data is registered); whatever the state and the strobes *)
Theorem csr_unassigned_inert n m h l : csr_dom n -> csr_widths n ->
  csr_map n = Ok m -> csr_hw n = Ok h -> all_resources m = Ok l ->
  forall s rv b, 0 <= CsrDecoder.addr b < 2 ^ csr_aw n -> decode_address m (CsrDecoder.addr b) = None ->
  quiet_after h s rv b.
Proof.
  intros Hdom Hwd Hm Hh Hl s rv b Ha Hd.
  apply unreached_quiet; [exact (csr_hw_wf n Hdom Hwd h Hh)|].
  apply (csr_unassigned_iff_unreached n m h l Hdom Hm Hh Hl _ Ha). exact Hd.
Qed.

(* and a cycle without strobes is inert at every address *)
Theorem csr_idle_inert n h : csr_dom n -> csr_widths n -> csr_hw n = Ok h ->
  forall s rv b, CsrDecoder.r_stb b = false -> CsrDecoder.w_stb b = false -> quiet_after h s rv b.
Proof. intros Hdom Hwd Hh. apply idle_quiet. exact (csr_hw_wf n Hdom Hwd h Hh). Qed.
