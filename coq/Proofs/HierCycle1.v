(* C01, rung 3 (a): the cycle-exact Wishbone machine `wb_run`, one subordinate at a time.
     - `wb_after` = the registered state after a trace; cycle t of `wb_run` is `wb_out` of the state after the
       first t cycles (wb_run_nth);
     - projection (wb_after_proj): subordinate number k of the hierarchy machine IS its own machine (`w_after`)
       run on the request the root decoder relays to it (`sub_req`, Model/WbDecoder.v's sub_out: C07's request
       relay) -- a function of the ROOT request alone;
     - frame (quiet_side, step_split, out_split): while the root decoder selects subordinate k (or cyc is low),
       every other subordinate sees no cyc, keeps its acknowledge low, keeps its SRAM rows, raises no r_stb and
       (one cycle later) no w_stb; the root's ack is subordinate k's (C07's response relay with the quiet premise
       PROVED from the subordinates' own machines). *)
From Coq Require Import ZArith List Bool Lia ZifyBool Arith.
From Soc Require Import Lib.Res Lib.Bits Model.Hierarchy Proofs.HierInert Proofs.HierWb.
From Soc Require Lib.CsrPattern Model.Mux Model.CsrDecoder Model.WbDecoder Model.WbCsrBridge Model.Sram
  Proofs.WbDecoder Proofs.Sram Proofs.WbCsrBridge.
Import ListNotations.
Open Scope Z_scope.

Local Opaque Z.pow.

Module D := Soc.Model.WbDecoder.
Module DP := Soc.Proofs.WbDecoder.

(* ------------------------------------------------------------------ lists *)

Lemma map3_nth {X Y Z' R} (f : X -> Y -> Z' -> R) : forall l1 l2 l3 k x y z,
  nth_error l1 k = Some x -> nth_error l2 k = Some y -> nth_error l3 k = Some z ->
  nth_error (map3 f l1 l2 l3) k = Some (f x y z).
Proof.
  induction l1 as [|a l1 IH]; intros l2 l3 k x y z H1 H2 H3; [destruct k; discriminate|].
  destruct l2 as [|b l2]; [destruct k; discriminate|]. destruct l3 as [|c l3]; [destruct k; discriminate|].
  destruct k as [|k]; cbn [nth_error map3] in *.
  - injection H1 as <-. injection H2 as <-. injection H3 as <-. reflexivity.
  - eapply IH; eassumption.
Qed.

Lemma map3_length {X Y Z' R} (f : X -> Y -> Z' -> R) : forall l1 l2 l3,
  length l2 = length l1 -> length l3 = length l1 -> length (map3 f l1 l2 l3) = length l1.
Proof.
  induction l1 as [|a l1 IH]; intros l2 l3 H2 H3; [reflexivity|].
  destruct l2 as [|b l2]; [discriminate|]. destruct l3 as [|c l3]; [discriminate|].
  cbn [map3 length] in *. f_equal. apply IH; lia.
Qed.

Lemma map3_app {X Y Z' R} (f : X -> Y -> Z' -> R) : forall l1 l2 l3 m1 m2 m3,
  length l2 = length l1 -> length l3 = length l1 ->
  map3 f (l1 ++ m1) (l2 ++ m2) (l3 ++ m3) = map3 f l1 l2 l3 ++ map3 f m1 m2 m3.
Proof.
  induction l1 as [|a l1 IH]; intros l2 l3 m1 m2 m3 H2 H3.
  - destruct l2; [|discriminate]. destruct l3; [|discriminate]. reflexivity.
  - destruct l2 as [|b l2]; [discriminate|]. destruct l3 as [|c l3]; [discriminate|].
    cbn [map3 app length] in *. f_equal. apply IH; lia.
Qed.

Lemma in_concat_map3 {X Y Z' R} (f : X -> Y -> Z' -> list R) : forall l1 l2 l3 a,
  In a (concat (map3 f l1 l2 l3)) ->
  exists k x y z, nth_error l1 k = Some x /\ nth_error l2 k = Some y /\ nth_error l3 k = Some z /\ In a (f x y z).
Proof.
  induction l1 as [|x l1 IH]; intros l2 l3 a H; [contradiction|].
  destruct l2 as [|y l2]; [contradiction|]. destruct l3 as [|z l3]; [contradiction|].
  cbn [map3 concat] in H. apply in_app_or in H as [H|H].
  - exists 0%nat, x, y, z. auto.
  - destruct (IH _ _ _ H) as (k & x' & y' & z' & H1 & H2 & H3 & H4). exists (S k), x', y', z'. auto.
Qed.

Lemma Forall2_len {X Y} (R : X -> Y -> Prop) l1 l2 : Forall2 R l1 l2 -> length l1 = length l2.
Proof. induction 1; cbn [length]; congruence. Qed.

Lemma nth_error_split' {X} (l : list X) k x : nth_error l k = Some x ->
  exists l1 l2, l = l1 ++ x :: l2 /\ length l1 = k.
Proof. apply nth_error_split. Qed.

Lemma firstn_S_snoc {X} (l : list X) : forall t x, nth_error l t = Some x -> firstn (S t) l = firstn t l ++ [x].
Proof.
  induction l as [|y l IH]; intros t x H; [destruct t; discriminate|].
  destruct t as [|t]; cbn [nth_error] in H; [injection H as <-; reflexivity|].
  cbn [firstn app]. f_equal. apply IH. exact H.
Qed.

(* ------------------------------------------------------------------ runs and states *)

Definition wtrace := list (D.breq * list Z).

Fixpoint wb_after (h : wbhw) (ss : list wst) (tr : wtrace) : list wst :=
  match tr with
  | [] => ss
  | x :: tr' => wb_after h (wb_next h ss (fst x) (snd x)) tr'
  end.

Lemma wb_after_app h : forall tr1 tr2 ss, wb_after h ss (tr1 ++ tr2) = wb_after h (wb_after h ss tr1) tr2.
Proof. induction tr1 as [|x tr1 IH]; intros tr2 ss; [reflexivity|]. cbn [app wb_after]. apply IH. Qed.

Lemma wb_after_S h tr ss t q rv : nth_error tr t = Some (q, rv) ->
  wb_after h ss (firstn (S t) tr) = wb_next h (wb_after h ss (firstn t tr)) q rv.
Proof. intros H. rewrite (firstn_S_snoc tr t _ H), wb_after_app. reflexivity. Qed.

Lemma wb_run_nth h : forall tr ss t q rv, nth_error tr t = Some (q, rv) ->
  nth_error (wb_run h ss tr) t = Some (wb_out h (wb_after h ss (firstn t tr)) q rv).
Proof.
  induction tr as [|[q0 rv0] tr IH]; intros ss t q rv Ht; [destruct t; discriminate|].
  destruct t as [|t]; cbn [nth_error wb_run firstn wb_after fst snd] in *.
  - injection Ht as <- <-. reflexivity.
  - apply IH. exact Ht.
Qed.

Lemma wb_run_length h : forall tr ss, length (wb_run h ss tr) = length tr.
Proof. induction tr as [|[q rv] tr IH]; intros ss; [reflexivity|]. cbn [wb_run length]. f_equal. apply IH. Qed.

(* ------------------------------------------------------------------ what subordinate k is sent *)

(* C07's request relay: a function of the root request alone *)
Definition sub_req (c : D.cfg) (k : nat) (s : D.sub) (q : D.breq) : D.sout :=
  D.sub_out c q (D.selected c (D.adr q)) k s.

Lemma dec_out_nth h ss q k s : nth_error (D.c_subs (wh_cfg h)) k = Some s ->
  nth_error (D.out_s (wb_dec_out h ss q)) k = Some (sub_req (wh_cfg h) k s q).
Proof. intros H. unfold wb_dec_out. rewrite (DP.out_s_nth _ _ k s H). reflexivity. Qed.

Lemma sub_req_cyc c k s q :
  D.o_cyc (sub_req c k s q) = D.is_sel (D.selected c (D.adr q)) k && D.cyc q.
Proof. reflexivity. Qed.

Lemma sub_req_cyc_sel c k s q : D.selected c (D.adr q) = Some k -> D.o_cyc (sub_req c k s q) = D.cyc q.
Proof. intros H. rewrite sub_req_cyc, H. cbn [D.is_sel]. rewrite Nat.eqb_refl. reflexivity. Qed.

Lemma sub_req_cyc_other c k j s q : (D.cyc q = false \/ D.selected c (D.adr q) = Some k) -> j <> k ->
  D.o_cyc (sub_req c j s q) = false.
Proof.
  intros H Hne. rewrite sub_req_cyc. destruct H as [->| ->]; [apply andb_false_r|].
  cbn [D.is_sel]. destruct (Nat.eqb_spec k j); [congruence|reflexivity].
Qed.

(* one subordinate's machine, alone *)
Definition strace := list (D.sout * list Z).

Fixpoint w_after (hh : whw) (s : wst) (l : strace) : wst :=
  match l with
  | [] => s
  | x :: l' => w_after hh (w_next hh s (snd x) (fst x)) l'
  end.

Definition sub_trace (c : D.cfg) (k : nat) (s : D.sub) (tr : wtrace) : strace :=
  map (fun x => (sub_req c k s (fst x), snd x)) tr.

Lemma wb_next_length h ss q rv : length (D.c_subs (wh_cfg h)) = length (wh_subs h) ->
  length ss = length (wh_subs h) -> length (wb_next h ss q rv) = length (wh_subs h).
Proof.
  intros Hc Hs. unfold wb_next. apply map3_length; [exact Hs|]. rewrite out_s_length. exact Hc.
Qed.

(* PROJECTION: subordinate k of the hierarchy machine is its own machine on the relayed request *)
Theorem wb_after_proj h : length (D.c_subs (wh_cfg h)) = length (wh_subs h) ->
  forall tr ss k hh s sk, length ss = length (wh_subs h) ->
  nth_error (wh_subs h) k = Some hh -> nth_error (D.c_subs (wh_cfg h)) k = Some s -> nth_error ss k = Some sk ->
  nth_error (wb_after h ss tr) k = Some (w_after hh sk (sub_trace (wh_cfg h) k s tr)).
Proof.
  intros Hc. induction tr as [|[q rv] tr IH]; intros ss k hh s sk Hl Hh Hs Hk; [exact Hk|].
  cbn [wb_after sub_trace map w_after fst snd].
  apply IH; [apply wb_next_length; assumption|exact Hh|exact Hs|].
  unfold wb_next.
  exact (map3_nth (fun hh0 s0 so => w_next hh0 s0 rv so) _ _ _ k hh sk _ Hh Hk (dec_out_nth h ss q k s Hs)).
Qed.

Lemma wb_after_length h : length (D.c_subs (wh_cfg h)) = length (wh_subs h) ->
  forall tr ss, length ss = length (wh_subs h) -> length (wb_after h ss tr) = length (wh_subs h).
Proof.
  intros Hc. induction tr as [|[q rv] tr IH]; intros ss Hl; [exact Hl|].
  cbn [wb_after fst snd]. apply IH. apply wb_next_length; assumption.
Qed.

(* ------------------------------------------------------------------ the quiet side *)

Definition nocyc (so : D.sout) : Prop := D.o_cyc so = false.

(* one unselected subordinate, one cycle later: no w_stb below it, whatever it is sent then *)
Lemma sub_no_cyc_wstb hh s rv so : whw_wf hh -> nocyc so ->
  forall rv' so' lo, In lo (w_leaves hh (w_next hh s rv so) rv' so') -> lo_wstb lo = false.
Proof.
  intros Hwf Hc rv' so' lo Hin.
  destruct hh as [id g rows0|bc ch]; destruct s as [ss|b cs]; cbn [w_next w_leaves] in Hin; try contradiction.
  set (i := bridge_inp ch cs so) in *.
  assert (Hcyc : WbCsrBridge.cyc i = false) by exact Hc.
  assert (Hq : quiet_after ch cs rv (csr_bus_of (WbCsrBridge.out bc b i))).
  { apply idle_quiet; [exact Hwf| |]; unfold csr_bus_of, WbCsrBridge.out; rewrite Hcyc; reflexivity. }
  exact (proj1 (proj2 Hq) _ _ lo Hin).
Qed.

(* the SRAM ports of unselected subordinates only show (id, cyc = 0, rows) *)
Lemma quiet_srams_step rv : forall hs ss outs outs',
  Forall whw_wf hs -> Forall2 wst_ok hs ss -> Forall ack_low ss ->
  Forall nocyc outs -> length outs = length hs -> Forall nocyc outs' -> length outs' = length hs ->
  concat (map3 (fun hh s so => w_srams hh s so) hs (map3 (fun hh s so => w_next hh s rv so) hs ss outs) outs') =
  concat (map3 (fun hh s so => w_srams hh s so) hs ss outs).
Proof.
  induction hs as [|hh hs IH]; intros ss outs outs' Hwf Hok Hack Hc Hl Hc' Hl'.
  - inversion Hok; subst. reflexivity.
  - inversion Hok as [|? s ? ss' Hs Hok']; subst. destruct outs as [|so outs]; [discriminate|].
    destruct outs' as [|so' outs']; [discriminate|].
    inversion Hwf as [|? ? Hw Hwf']; subst. inversion Hack as [|? ? Ha Hack']; subst.
    inversion Hc as [|? ? Hc1 Hc2]; subst. inversion Hc' as [|? ? Hc1' Hc2']; subst.
    cbn [map3 concat length] in *. f_equal; [|apply IH; auto; lia].
    destruct (sub_no_cyc hh s rv so Hw Hs Hc1 Ha) as (_ & _ & S3 & _).
    destruct hh as [id g rows0|bc ch]; destruct s as [sst|b cs]; try contradiction; [|reflexivity].
    assert (E : Sram.rows (Sram.next g sst (sram_inp so)) = Sram.rows sst).
    { cbn [w_next sram_rows] in S3. congruence. }
    cbn [w_next w_srams]. unfold nocyc in Hc1, Hc1'. rewrite Hc1, Hc1', E. reflexivity.
Qed.

Lemma quiet_wstb_step rv : forall hs ss outs,
  Forall whw_wf hs -> Forall nocyc outs ->
  forall rv' outs' lo,
  In lo (concat (map3 (fun hh s so => w_leaves hh s rv' so) hs (map3 (fun hh s so => w_next hh s rv so) hs ss outs) outs')) ->
  lo_wstb lo = false.
Proof.
  intros hs ss outs Hwf Hc rv' outs' lo Hin.
  apply in_concat_map3 in Hin as (k & hh & s' & so' & H1 & H2 & H3 & H4).
  assert (Hs' : exists s so, nth_error ss k = Some s /\ nth_error outs k = Some so /\ s' = w_next hh s rv so).
  { clear - H1 H2. revert ss outs k H1 H2. induction hs as [|hh0 hs IH]; intros ss outs k H1 H2; [destruct k; discriminate|].
    destruct ss as [|s0 ss]; [destruct k; discriminate|]. destruct outs as [|so0 outs]; [destruct k; discriminate|].
    destruct k as [|k]; cbn [nth_error map3] in *.
    - injection H1 as <-. injection H2 as <-. eauto.
    - eapply IH; eassumption. }
  destruct Hs' as (s & so & Hs & Hso & ->).
  rewrite Forall_forall in Hwf, Hc.
  exact (sub_no_cyc_wstb hh s rv so (Hwf _ (nth_error_In _ _ H1)) (Hc _ (nth_error_In _ _ Hso)) rv' so' lo H4).
Qed.

(* the requests relayed to a block of subordinates none of which is the selected one *)
Lemma sub_outs_nocyc c q sl : forall l j0,
  (forall j, (j0 <= j < j0 + length l)%nat -> D.is_sel sl j && D.cyc q = false) ->
  Forall nocyc (D.sub_outs c q sl j0 l).
Proof.
  induction l as [|s l IH]; intros j0 H; [constructor|]. cbn [D.sub_outs]. constructor.
  - unfold nocyc. cbn [D.sub_out D.o_cyc]. apply H. cbn [length]. lia.
  - apply IH. intros j Hj. apply H. cbn [length]. lia.
Qed.

Lemma sub_outs_app c q sl : forall l1 l2 j0,
  D.sub_outs c q sl j0 (l1 ++ l2) = D.sub_outs c q sl j0 l1 ++ D.sub_outs c q sl (j0 + length l1) l2.
Proof.
  induction l1 as [|s l1 IH]; intros l2 j0; cbn [app D.sub_outs length].
  - rewrite Nat.add_0_r. reflexivity.
  - f_equal. rewrite IH. f_equal. f_equal. lia.
Qed.

(* ------------------------------------------------------------------ the split at the selected subordinate *)

(* the hardware split at subordinate k *)
Record split_hw (h : wbhw) (k : nat) (hs1 : list whw) (hh : whw) (hs2 : list whw)
                (cs1 : list D.sub) (s : D.sub) (cs2 : list D.sub) : Prop := {
  sp_hs : wh_subs h = hs1 ++ hh :: hs2;
  sp_cs : D.c_subs (wh_cfg h) = cs1 ++ s :: cs2;
  sp_l1 : length hs1 = k;
  sp_c1 : length cs1 = k;
  sp_c2 : length cs2 = length hs2;
  sp_w1 : Forall whw_wf hs1;
  sp_wk : whw_wf hh;
  sp_w2 : Forall whw_wf hs2
}.

Lemma split_hw_intro h k hh s : wbhw_wf h ->
  nth_error (wh_subs h) k = Some hh -> nth_error (D.c_subs (wh_cfg h)) k = Some s ->
  exists hs1 hs2 cs1 cs2, split_hw h k hs1 hh hs2 cs1 s cs2.
Proof.
  intros [Hlen Hwf] Hh Hs.
  destruct (nth_error_split _ _ Hh) as (hs1 & hs2 & E1 & L1).
  destruct (nth_error_split _ _ Hs) as (cs1 & cs2 & E2 & L2).
  exists hs1, hs2, cs1, cs2. rewrite E1 in Hwf. apply Forall_app in Hwf as [W1 W2].
  inversion W2 as [|? ? Wk W2']; subst.
  constructor; auto. rewrite E1, E2, !app_length in Hlen. cbn [length] in Hlen. lia.
Qed.

(* a state that fits the split hardware *)
Lemma split_state hs1 hh hs2 ss : Forall2 wst_ok (hs1 ++ hh :: hs2) ss ->
  exists ss1 sk ss2, ss = ss1 ++ sk :: ss2 /\ Forall2 wst_ok hs1 ss1 /\ wst_ok hh sk /\ Forall2 wst_ok hs2 ss2.
Proof.
  intros H. apply Forall2_app_inv_l in H as (ss1 & r & H1 & H2 & ->).
  inversion H2 as [|? sk ? ss2 Hk H2']; subst. exists ss1, sk, ss2. auto.
Qed.

Section Split.
  Variables (h : wbhw) (k : nat) (hs1 : list whw) (hh : whw) (hs2 : list whw)
            (cs1 : list D.sub) (s : D.sub) (cs2 : list D.sub).
  Hypothesis SP : split_hw h k hs1 hh hs2 cs1 s cs2.

  Notation c := (wh_cfg h).

  (* the request does not reach anybody but (possibly) subordinate k *)
  Definition only_k (q : D.breq) : Prop := D.cyc q = false \/ D.selected c (D.adr q) = Some k.

  Definition outs1 (q : D.breq) := D.sub_outs c q (D.selected c (D.adr q)) 0 cs1.
  Definition outs2 (q : D.breq) := D.sub_outs c q (D.selected c (D.adr q)) (S k) cs2.

  Lemma dec_out_split ss q :
    D.out_s (wb_dec_out h ss q) = outs1 q ++ sub_req c k s q :: outs2 q.
  Proof.
    unfold wb_dec_out, D.out. cbn [D.out_s D.in_b]. rewrite (sp_cs _ _ _ _ _ _ _ _ SP), sub_outs_app.
    cbn [D.sub_outs]. rewrite (sp_c1 _ _ _ _ _ _ _ _ SP). cbn [Nat.add]. reflexivity.
  Qed.

  Lemma outs1_length q : length (outs1 q) = length hs1.
  Proof. unfold outs1. rewrite DP.sub_outs_length, (sp_c1 _ _ _ _ _ _ _ _ SP), (sp_l1 _ _ _ _ _ _ _ _ SP). reflexivity. Qed.
  Lemma outs2_length q : length (outs2 q) = length hs2.
  Proof. unfold outs2. rewrite DP.sub_outs_length. exact (sp_c2 _ _ _ _ _ _ _ _ SP). Qed.

  Lemma outs1_nocyc q : only_k q -> Forall nocyc (outs1 q).
  Proof.
    intros Hq. apply sub_outs_nocyc. intros j Hj. rewrite (sp_c1 _ _ _ _ _ _ _ _ SP) in Hj.
    destruct Hq as [->| ->]; [apply andb_false_r|]. cbn [D.is_sel].
    destruct (Nat.eqb_spec k j); [lia|reflexivity].
  Qed.
  Lemma outs2_nocyc q : only_k q -> Forall nocyc (outs2 q).
  Proof.
    intros Hq. apply sub_outs_nocyc. intros j Hj.
    destruct Hq as [->| ->]; [apply andb_false_r|]. cbn [D.is_sel].
    destruct (Nat.eqb_spec k j); [lia|reflexivity].
  Qed.

  Definition side_next (hs : list whw) (ss : list wst) (rv : list Z) (outs : list D.sout) : list wst :=
    map3 (fun hh s so => w_next hh s rv so) hs ss outs.

  (* one clock edge, in the split view *)
  Lemma next_split ss1 sk ss2 q rv : length ss1 = length hs1 ->
    wb_next h (ss1 ++ sk :: ss2) q rv =
    side_next hs1 ss1 rv (outs1 q) ++ w_next hh sk rv (sub_req c k s q) :: side_next hs2 ss2 rv (outs2 q).
  Proof.
    intros L1. unfold wb_next. rewrite dec_out_split, (sp_hs _ _ _ _ _ _ _ _ SP).
    rewrite map3_app by (rewrite ?outs1_length; auto). reflexivity.
  Qed.

  (* the quiet sides stay quiet *)
  Lemma side_quiet hs ss rv outs : Forall whw_wf hs -> Forall2 wst_ok hs ss -> Forall ack_low ss ->
    Forall nocyc outs -> length outs = length hs ->
    Forall2 wst_ok hs (side_next hs ss rv outs) /\ Forall ack_low (side_next hs ss rv outs) /\
    length (side_next hs ss rv outs) = length hs.
  Proof.
    intros Hwf Hok Hack Hc Hl. destruct (subs_no_cyc rv hs ss outs Hwf Hok Hack Hc Hl) as (I1 & I2 & _).
    split; [exact I1|]. split; [exact I2|]. symmetry. exact (Forall2_len _ _ _ I1).
  Qed.

  (* the observation, in the split view *)
  Definition side_srams (hs : list whw) (ss : list wst) (outs : list D.sout) : list (Z * bool * list Z) :=
    concat (map3 (fun hh s so => w_srams hh s so) hs ss outs).
  Definition side_leaves (hs : list whw) (ss : list wst) (rv : list Z) (outs : list D.sout) : list lobs :=
    concat (map3 (fun hh s so => w_leaves hh s rv so) hs ss outs).

  Lemma out_split ss1 sk ss2 q rv : length ss1 = length hs1 ->
    let o := wb_out h (ss1 ++ sk :: ss2) q rv in
    wo_srams o = side_srams hs1 ss1 (outs1 q) ++ w_srams hh sk (sub_req c k s q) ++ side_srams hs2 ss2 (outs2 q) /\
    wo_leaves o = side_leaves hs1 ss1 rv (outs1 q) ++ w_leaves hh sk rv (sub_req c k s q) ++
                  side_leaves hs2 ss2 rv (outs2 q).
  Proof.
    intros L1 o. subst o. unfold wb_out. cbn [wo_srams wo_leaves].
    rewrite dec_out_split, (sp_hs _ _ _ _ _ _ _ _ SP).
    rewrite !map3_app by (rewrite ?outs1_length; auto).
    cbn [map3]. rewrite !concat_app. cbn [concat]. split; reflexivity.
  Qed.

  (* the root's acknowledge: subordinate k's, the others holding theirs low *)
  Lemma ack_split ss1 sk ss2 q rv : length ss1 = length hs1 -> length ss2 = length hs2 ->
    Forall ack_low ss1 -> Forall ack_low ss2 ->
    wo_ack (wb_out h (ss1 ++ sk :: ss2) q rv) = D.ack (wresp sk).
  Proof.
    intros L1 L2 A1 A2. unfold wb_out, wb_dec_out, D.out, D.bus_out. cbn [wo_ack D.out_b D.r_ack D.in_s].
    assert (Hk : nth_error (ss1 ++ sk :: ss2) k = Some sk).
    { rewrite nth_error_app2 by (rewrite L1, (sp_l1 _ _ _ _ _ _ _ _ SP); lia).
      rewrite L1, (sp_l1 _ _ _ _ _ _ _ _ SP), Nat.sub_diag. reflexivity. }
    assert (Hs : nth_error (D.c_subs c) k = Some s).
    { rewrite (sp_cs _ _ _ _ _ _ _ _ SP). rewrite nth_error_app2 by (rewrite (sp_c1 _ _ _ _ _ _ _ _ SP); lia).
      rewrite (sp_c1 _ _ _ _ _ _ _ _ SP), Nat.sub_diag. reflexivity. }
    rewrite (DP.fanin_only (fun _ r => D.ack r) (D.c_subs c) (map wresp (ss1 ++ sk :: ss2)) k s (wresp sk) Hs).
    - reflexivity.
    - rewrite nth_error_map, Hk. reflexivity.
    - intros j sj rj Hne _ Hr. rewrite nth_error_map in Hr.
      destruct (nth_error (ss1 ++ sk :: ss2) j) as [st|] eqn:Ej; [|discriminate]. injection Hr as <-.
      pose proof (sp_l1 _ _ _ _ _ _ _ _ SP) as K1.
      destruct (Nat.lt_ge_cases j k) as [Hlt|Hge].
      + rewrite nth_error_app1 in Ej by lia. apply nth_error_In in Ej.
        rewrite Forall_forall in A1. exact (A1 _ Ej).
      + rewrite nth_error_app2 in Ej by lia.
        destruct (j - length ss1)%nat as [|d] eqn:Ed; [lia|]. cbn [nth_error] in Ej.
        apply nth_error_In in Ej. rewrite Forall_forall in A2. exact (A2 _ Ej).
  Qed.
End Split.
