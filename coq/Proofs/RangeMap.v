(* _RangeMap: the bisection-based overlaps/insert/get meet their specification on every sorted,
   disjoint list of non-empty ranges, and insert preserves that invariant. *)
From Coq Require Import ZArith List Bool Lia ZifyBool Arith.
From Soc Require Import Lib.Res Lib.PyList Model.MemoryMap.
Import ListNotations.
Open Scope Z_scope.

(* invariant: each range non-empty, consecutive ranges ordered and disjoint, all at or above lo *)
Fixpoint chain (lo : Z) (l : list entry) : Prop :=
  match l with
  | [] => True
  | x :: l' => lo <= e_start x /\ e_start x < e_stop x /\ chain (e_stop x) l'
  end.

Definition isect (s e : Z) (x : entry) : bool := (s <? e_stop x) && (e_start x <? e).

Lemma chain_weaken lo lo' l : lo' <= lo -> chain lo l -> chain lo' l.
Proof. destruct l as [|x l]; simpl; intuition lia. Qed.

Lemma chain_all_ge lo l : chain lo l -> Forall (fun x => lo <= e_start x /\ e_start x < e_stop x) l.
Proof.
  revert lo; induction l as [|x l IH]; simpl; intros lo H; constructor.
  - lia.
  - destruct H as (H1 & H2 & H3). apply IH in H3. eapply Forall_impl; [|exact H3]. simpl; intros; lia.
Qed.

Lemma chain_app lo l1 l2 : chain lo (l1 ++ l2) ->
  chain lo l1 /\ exists lo', lo <= lo' /\ chain lo' l2 /\ (forall x, In x l1 -> e_stop x <= lo').
Proof.
  revert lo; induction l1 as [|x l1 IH]; simpl; intros lo H.
  - split; auto. exists lo. repeat split; auto; try lia.
  - destruct H as (H1 & H2 & H3). destruct (IH _ H3) as (Hc & lo' & Hle & Hc2 & Hall).
    split; [auto|]. exists lo'. repeat split; auto; try lia.
    intros y [<-|Hy]; [lia|auto].
Qed.

(* overlaps returns exactly the stored ranges intersecting [s, e), in order *)
Lemma overlaps_spec lo l s e : chain lo l -> s < e ->
  rm_overlaps l s e = filter (isect s e) l.
Proof.
  unfold rm_overlaps, starts, stops.
  revert lo; induction l as [|x l IH]; intros lo Hc Hse; simpl in *.
  - reflexivity.
  - destruct Hc as (H1 & H2 & H3). unfold isect at 1.
    destruct (e_stop x <=? s) eqn:E1; destruct (e_start x <? e) eqn:E2; simpl.
    + replace (s <? e_stop x) with false by lia. simpl. rewrite <- (IH (e_stop x) H3 Hse).
      destruct (bisect_left (map e_start l) e); reflexivity || f_equal.
    + replace (s <? e_stop x) with false by lia; simpl. lia.
    + replace (s <? e_stop x) with true by lia. simpl.
      assert (Hz: bisect_right (map e_stop l) s = 0%nat).
      { apply chain_all_ge in H3. destruct l as [|y l']; simpl; auto.
        inversion H3; subst; simpl in *. replace (e_stop y <=? s) with false by lia. reflexivity. }
      specialize (IH (e_stop x) H3 Hse). rewrite Hz in IH. simpl in IH. rewrite Nat.sub_0_r in *.
      simpl. f_equal. exact IH.
    + replace (s <? e_stop x) with true by lia. simpl.
      apply chain_all_ge in H3.
      symmetry. clear IH. induction l as [|y l' IHl]; simpl; auto.
      inversion H3; subst; simpl in *. unfold isect.
      replace (e_start y <? e) with false by lia. rewrite andb_false_r. apply IHl; auto.
Qed.

(* insert: when nothing overlaps, the two bisections agree (the assert cannot fire), the invariant is
   kept, and the new list is the old one plus the new entry *)
Lemma insert_ok lo l k : chain lo l -> lo <= e_start k -> e_start k < e_stop k ->
  filter (isect (e_start k) (e_stop k)) l = [] ->
  exists l', rm_insert l k = Ok l' /\ chain lo l' /\
             (forall x, In x l' <-> x = k \/ In x l) /\
             exists l1 l2, l = l1 ++ l2 /\ l' = l1 ++ k :: l2.
Proof.
  intros Hc Hlo Hab Hf. unfold rm_insert.
  rewrite (overlaps_spec lo l _ _ Hc Hab), Hf.
  unfold starts, stops.
  revert lo Hc Hlo Hf; induction l as [|x l IH]; intros lo Hc Hlo Hf; simpl in *.
  - eexists; split; [reflexivity|]. simpl. split; [lia|]. split; [intros x; intuition|].
    exists [], []. auto.
  - destruct Hc as (H1 & H2 & H3). unfold isect in Hf at 1.
    destruct ((e_start k <? e_stop x) && (e_start x <? e_stop k)) eqn:E; [discriminate|].
    destruct (e_start x <=? e_start k) eqn:E1.
    + assert (e_stop x <= e_start k) by lia.
      replace (e_stop x <? e_stop k) with true by lia.
      destruct (IH (e_stop x) H3 ltac:(lia) Hf) as (l' & Hi & Hc' & Hin & l1 & l2 & Hl & Hl').
      destruct (Nat.eqb _ _) eqn:En in Hi; [|discriminate]. injection Hi as <-.
      simpl. rewrite En. eexists; split; [reflexivity|]. simpl.
      split; [repeat split; try lia; exact Hc'|].
      split; [intros y; rewrite Hin; intuition|].
      exists (x :: l1), l2. rewrite Hl at 1. rewrite Hl'. auto.
    + assert (e_stop k <= e_start x) by lia.
      replace (e_stop x <? e_stop k) with false by lia. simpl.
      eexists; split; [reflexivity|]. simpl.
      split; [repeat split; try lia; eapply chain_weaken; [|exact H3]; lia|].
      split; [intros y; intuition|]. exists [], (x :: l). auto.
Qed.

(* get returns the stored range containing the point, if any *)
Lemma get_spec lo l p : chain lo l ->
  match rm_get l p with
  | Some x => In x l /\ e_start x <= p < e_stop x
  | None => forall x, In x l -> ~ (e_start x <= p < e_stop x)
  end.
Proof.
  unfold rm_get, stops. revert lo; induction l as [|x l IH]; intros lo Hc; simpl in *.
  - intros x [].
  - destruct Hc as (H1 & H2 & H3).
    destruct (e_stop x <=? p) eqn:E.
    + simpl. specialize (IH _ H3).
      destruct (nth_error l (bisect_right (map e_stop l) p)) as [y|] eqn:En.
      * destruct ((e_start y <=? p) && (p <? e_stop y)) eqn:Ey.
        -- destruct IH; split; auto.
        -- intros z [<-|Hz]; [lia|auto].
      * intros z [<-|Hz]; [lia|auto].
    + simpl. destruct ((e_start x <=? p) && (p <? e_stop x)) eqn:Ex.
      * split; auto; lia.
      * apply chain_all_ge in H3. rewrite Forall_forall in H3.
        intros z [<-|Hz]; [lia|]. specialize (H3 z Hz). lia.
Qed.
