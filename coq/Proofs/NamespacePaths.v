(* Consequence of the namespace invariant: the paths all_resources() reports for any map of a
   reachable world are pairwise distinct. *)
From Coq Require Import ZArith List Bool Lia ZifyBool Arith Permutation.
From Soc Require Import Lib.Res Lib.PyList Model.MemoryMap Model.MemSpec Proofs.RangeMap
                        Proofs.Namespace Proofs.NamespaceInv.
Import ListNotations.
Open Scope Z_scope.

(* ------------------------------------------------------------------ all_resources, entry by entry *)

Definition entry_infos (m : mmap) (x : entry) : res (list info) :=
  match e_asg x with
  | AR id =>
      match find_res id (m_ress m) with
      | Some r => let! i := mk_info id [r_name r] (e_start x) (e_stop x) (m_dw m) in Ok [i]
      | None => Err AssertionError
      end
  | AW id =>
      match find_win id (m_wins m) with
      | Some (w, c) =>
          let! l := all_resources c in
          mapR (fun i => translate i (m_dw c) (w_name w) (e_start x) (e_step x)) l
      | None => Err AssertionError
      end
  end.

Lemma find_kids (g : mmap -> res (list info)) id : forall wins,
  find (fun k : winent * Z * res (list info) => w_id (fst (fst k)) =? id)
       (map (fun wc : winent * mmap => (fst wc, m_dw (snd wc), g (snd wc))) wins) =
  match find_win id wins with Some (w, c) => Some (w, m_dw c, g c) | None => None end.
Proof.
  induction wins as [|[w c] wins IH]; simpl; [reflexivity|].
  destruct (w_id w =? id); [reflexivity|exact IH].
Qed.

Lemma all_resources_eq m : all_resources m = concatR (map (entry_infos m) (m_ranges m)).
Proof.
  destruct m as [aw dw al ranges ress wins names next frozen]. cbn [all_resources m_ranges].
  f_equal. apply map_ext. intros x. unfold entry_infos. cbn [m_ress m_wins m_dw].
  destruct (e_asg x) as [id|id]; [reflexivity|].
  rewrite (find_kids all_resources). destruct (find_win id wins) as [[w c]|]; reflexivity.
Qed.

Lemma concatR_cons_inv {X} (r : res (list X)) l y :
  concatR (r :: l) = Ok y -> exists lx lr, r = Ok lx /\ concatR l = Ok lr /\ y = lx ++ lr.
Proof.
  simpl. destruct r as [lx|e]; [|discriminate]. destruct (concatR l) as [lr|e]; [|discriminate].
  intros H; inversion H. eauto.
Qed.

Lemma mk_info_path id p s e w i : mk_info id p s e w = Ok i -> i_path i = p.
Proof.
  unfold mk_info. intros H. inv_bind H u1 H1. inv_bind H u2 H2. inv_bind H u3 H3. inv_bind H u4 H4.
  inversion H; reflexivity.
Qed.

Definition prep (wn : option name) (p : list name) : list name :=
  match wn with None => p | Some n => n :: p end.

Lemma translate_path i cdw wn ws wstep i' :
  translate i cdw wn ws wstep = Ok i' -> i_path i' = prep wn (i_path i).
Proof.
  unfold translate. intros H. inv_bind H u1 H1. inv_bind H u2 H2. inv_bind H u3 H3.
  apply mk_info_path in H. exact H.
Qed.

Lemma mapR_translate_paths cdw wn ws wstep : forall l l',
  mapR (fun i => translate i cdw wn ws wstep) l = Ok l' ->
  map i_path l' = map (prep wn) (map i_path l).
Proof.
  induction l as [|i l IH]; simpl; intros l' H.
  - inversion H; reflexivity.
  - destruct (translate i cdw wn ws wstep) as [i'|e] eqn:E; [|discriminate].
    destruct (mapR _ l) as [r|e]; [|discriminate]. inversion H; subst. simpl.
    rewrite (translate_path _ _ _ _ _ _ E), (IH r eq_refl). reflexivity.
Qed.

Lemma find_res_some id : forall l r, find_res id l = Some r -> In r l /\ r_id r = id.
Proof.
  induction l as [|x l IH]; simpl; intros r H; [discriminate|].
  destruct (r_id x =? id) eqn:E.
  - inversion H; subst. split; [auto|lia].
  - destruct (IH r H); auto.
Qed.

Lemma find_win_some {X} id : forall (l : list (winent * X)) wc,
  find_win id l = Some wc -> In wc l /\ w_id (fst wc) = id.
Proof.
  induction l as [|[w x] l IH]; simpl; intros wc H; [discriminate|].
  destruct (w_id w =? id) eqn:E.
  - inversion H; subst. split; [auto|simpl; lia].
  - destruct (IH wc H); auto.
Qed.

(* ------------------------------------------------------------------ names contributed by an entry *)

Definition cn (m : mmap) (a : assign) : list name :=
  match a with
  | AR id => match find_res id (m_ress m) with Some r => [r_name r] | None => [] end
  | AW id => match find_win id (m_wins m) with Some wc => win_names wc | None => [] end
  end.

Lemma pfree_flat_map {X} (f : X -> list name) : forall l a b,
  pfree (flat_map f l) -> In a l -> In b l -> a <> b ->
  forall n1 n2, In n1 (f a) -> In n2 (f b) -> ~ name_conflict n1 n2.
Proof.
  induction l as [|x l IH]; simpl; intros a b Hp Ha Hb Hab n1 n2 H1 H2; [contradiction|].
  apply pfree_app in Hp. destruct Hp as (Hx & Hl & Hxl).
  destruct Ha as [->|Ha], Hb as [->|Hb].
  - congruence.
  - apply Hxl; auto. apply in_flat_map. eauto.
  - intros Hc. apply name_conflict_sym in Hc. revert Hc. apply Hxl; auto. apply in_flat_map. eauto.
  - eapply (IH a b); eauto.
Qed.

Lemma map_flat_map {X Y} (f : X -> Y) l : map f l = flat_map (fun x => [f x]) l.
Proof. induction l as [|x l IH]; simpl; [reflexivity|]. rewrite IH; reflexivity. Qed.

Lemma cn_in_names m a n : local_ok m -> In n (cn m a) -> In n (m_names m).
Proof.
  intros Hl Hn. eapply Permutation_in; [apply Permutation_sym; apply (lo_perm _ Hl)|].
  unfold contrib. apply in_or_app. destruct a as [id|id]; simpl in Hn.
  - destruct (find_res id (m_ress m)) as [r|] eqn:E; [|contradiction].
    destruct Hn as [<-|[]]. apply find_res_some in E. left. apply in_map. apply E.
  - destruct (find_win id (m_wins m)) as [wc|] eqn:E; [|contradiction].
    apply find_win_some in E. right. apply in_flat_map. exists wc. split; [apply E|exact Hn].
Qed.

Lemma cn_disjoint m a1 a2 n1 n2 : local_ok m -> a1 <> a2 ->
  In n1 (cn m a1) -> In n2 (cn m a2) -> ~ name_conflict n1 n2.
Proof.
  intros Hl Ha H1 H2.
  pose proof (pfree_perm _ _ (lo_perm _ Hl) (lo_pfree _ Hl)) as Hp. unfold contrib in Hp.
  apply pfree_app in Hp. destruct Hp as (Hpr & Hpw & Hrw).
  destruct a1 as [i1|i1], a2 as [i2|i2]; simpl in H1, H2.
  - destruct (find_res i1 _) as [r1|] eqn:E1; [|contradiction].
    destruct (find_res i2 _) as [r2|] eqn:E2; [|contradiction].
    apply find_res_some in E1, E2. destruct E1 as (E1 & I1), E2 as (E2 & I2).
    rewrite map_flat_map in Hpr.
    apply (pfree_flat_map _ _ r1 r2 Hpr E1 E2); auto. congruence.
  - destruct (find_res i1 _) as [r1|] eqn:E1; [|contradiction].
    destruct (find_win i2 _) as [wc|] eqn:E2; [|contradiction].
    apply find_res_some in E1. apply find_win_some in E2. destruct H1 as [<-|[]].
    apply Hrw; [apply in_map; apply E1|]. apply in_flat_map. exists wc. split; [apply E2|exact H2].
  - destruct (find_win i1 _) as [wc|] eqn:E1; [|contradiction].
    destruct (find_res i2 _) as [r2|] eqn:E2; [|contradiction].
    apply find_win_some in E1. apply find_res_some in E2. destruct H2 as [<-|[]].
    intros Hc. apply name_conflict_sym in Hc. revert Hc.
    apply Hrw; [apply in_map; apply E2|]. apply in_flat_map. exists wc. split; [apply E1|exact H1].
  - destruct (find_win i1 _) as [wc1|] eqn:E1; [|contradiction].
    destruct (find_win i2 _) as [wc2|] eqn:E2; [|contradiction].
    apply find_win_some in E1, E2. destruct E1 as (E1 & I1), E2 as (E2 & I2).
    apply (pfree_flat_map _ _ wc1 wc2 Hpw E1 E2); auto. congruence.
Qed.

(* ------------------------------------------------------------------ distinct paths *)

Definition headed (names : list name) (p : list name) : Prop :=
  exists hd tl, p = hd :: tl /\ In hd names.

Definition paths_ok (m : mmap) : Prop :=
  forall l, all_resources m = Ok l ->
    NoDup (map i_path l) /\ forall p, In p (map i_path l) -> headed (m_names m) p.

Lemma NoDup_app_intro {X} (l1 l2 : list X) :
  NoDup l1 -> NoDup l2 -> (forall x, In x l1 -> In x l2 -> False) -> NoDup (l1 ++ l2).
Proof.
  induction l1 as [|x l1 IH]; simpl; intros H1 H2 H; [exact H2|].
  inversion H1; subst. constructor.
  - intros Hin. apply in_app_or in Hin. destruct Hin as [Hin|Hin]; [contradiction|]. eapply H; eauto.
  - apply IH; auto. intros y Hy1 Hy2. eapply H; eauto.
Qed.

Lemma NoDup_map_prep wn ps : NoDup ps -> NoDup (map (prep wn) ps).
Proof.
  destruct wn as [n|]; simpl.
  - intros H. apply FinFun.Injective_map_NoDup; [|exact H]. intros a b E. inversion E; reflexivity.
  - rewrite map_id. auto.
Qed.

Lemma entry_paths_ok m x lx :
  (forall wn c, In (wn, c) (m_wins m) -> paths_ok c) ->
  entry_infos m x = Ok lx ->
  NoDup (map i_path lx) /\ forall p, In p (map i_path lx) -> headed (cn m (e_asg x)) p.
Proof.
  intros IH H. unfold entry_infos in H. unfold cn. destruct (e_asg x) as [id|id].
  - destruct (find_res id (m_ress m)) as [r|]; [|discriminate].
    inv_bind H i Hi. inversion H; subst. apply mk_info_path in Hi. simpl. rewrite Hi. split.
    + constructor; [simpl; tauto|constructor].
    + intros p [<-|[]]. exists (r_name r), []. simpl; auto.
  - destruct (find_win id (m_wins m)) as [[w c]|] eqn:E; [|discriminate].
    apply find_win_some in E. destruct E as (E & _).
    inv_bind H l Hl. apply mapR_translate_paths in H. rewrite H.
    destruct (IH w c E l Hl) as (Hnd & Hhd). split.
    + apply NoDup_map_prep; exact Hnd.
    + intros p Hp. apply in_map_iff in Hp. destruct Hp as (p0 & <- & Hp0).
      destruct (Hhd p0 Hp0) as (hd & tl & -> & Hin). unfold win_names. simpl.
      destruct (w_name w) as [n|]; simpl.
      * exists n, (hd :: tl). simpl; auto.
      * exists hd, tl. auto.
Qed.

Lemma ranges_paths_ok m : local_ok m ->
  (forall wn c, In (wn, c) (m_wins m) -> paths_ok c) ->
  forall rg l, NoDup (map e_asg rg) -> concatR (map (entry_infos m) rg) = Ok l ->
  NoDup (map i_path l) /\
  forall p, In p (map i_path l) -> exists x, In x rg /\ headed (cn m (e_asg x)) p.
Proof.
  intros Hl IH. induction rg as [|x rg IHrg]; intros l Hnd H.
  - simpl in H. inversion H; subst. simpl. split; [constructor|tauto].
  - cbn [map] in H. apply concatR_cons_inv in H. destruct H as (lx & lr & Hx & Hr & ->).
    simpl in Hnd. inversion Hnd as [|a0 l0 Hnotin Hnd']; subst.
    destruct (entry_paths_ok m x lx IH Hx) as (Hndx & Hhx).
    destruct (IHrg lr Hnd' Hr) as (Hndr & Hhr).
    rewrite map_app. split.
    + apply NoDup_app_intro; auto.
      intros p Hp1 Hp2. destruct (Hhx p Hp1) as (hd & tl & -> & Hin1).
      destruct (Hhr _ Hp2) as (y & Hy & hd' & tl' & Heq & Hin2). inversion Heq; subst hd' tl'.
      apply (cn_disjoint m (e_asg x) (e_asg y) hd hd Hl); auto.
      * intros Heq'. apply Hnotin. rewrite Heq'. apply in_map; exact Hy.
      * apply name_conflict_refl.
    + intros p Hp. apply in_app_or in Hp. destruct Hp as [Hp|Hp].
      * exists x. split; [left; reflexivity|auto].
      * destruct (Hhr p Hp) as (y & Hy & Hh). exists y. split; [right; exact Hy|exact Hh].
Qed.

Lemma deep_paths_ok m : deep m -> paths_ok m.
Proof.
  induction 1 as [m Hl Hk IH]. intros l H. rewrite all_resources_eq in H.
  destruct (ranges_paths_ok m Hl IH (m_ranges m) l (lo_nodup _ Hl) H) as (Hnd & Hh).
  split; [exact Hnd|]. intros p Hp. destruct (Hh p Hp) as (x & _ & hd & tl & -> & Hin).
  exists hd, tl. split; [reflexivity|]. eapply cn_in_names; eauto.
Qed.

Lemma reachable_paths_distinct w m l : reachable w -> In m w ->
  all_resources m = Ok l -> NoDup (map i_path l).
Proof.
  intros Hr Hm H. apply (deep_paths_ok m (reachable_deep _ _ Hr Hm) l H).
Qed.
