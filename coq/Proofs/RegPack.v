(* Proofs about the register packing model (C11). *)
From Coq Require Import ZArith List Bool Lia Arith ZifyBool.
From Soc Require Import Lib.Bits Model.RegPack.
Import ListNotations.
Open Scope Z_scope.

(* ---------- induction over the nested inductive ftree ---------- *)
Section ftree_ind2.
  Variable P : ftree -> Prop.
  Hypothesis HL : forall w a, P (Leaf w a).
  Hypothesis HJ : P Junk.
  Hypothesis HM : forall l, Forall (fun kx => P (snd kx)) l -> P (Map l).
  Hypothesis HA : forall l, Forall P l -> P (Arr l).

  Fixpoint ftree_ind2 (t : ftree) : P t :=
    match t with
    | Leaf w a => HL w a
    | Junk => HJ
    | Map l =>
        HM l ((fix go (l : list (Z * ftree)) : Forall (fun kx => P (snd kx)) l :=
                 match l with
                 | [] => Forall_nil _
                 | kx :: l' =>
                     Forall_cons kx
                       (match kx return P (snd kx) with (k, x) => ftree_ind2 x end) (go l')
                 end) l)
    | Arr l =>
        HA l ((fix go (l : list ftree) : Forall P l :=
                 match l with
                 | [] => Forall_nil _
                 | x :: l' => Forall_cons x (ftree_ind2 x) (go l')
                 end) l)
    end.
End ftree_ind2.

(* ---------- the nested loops as list combinators ---------- *)
Lemma flatten_Map l : flatten (Map l) = flat_map (fun kx => flatten (snd kx)) l.
Proof.
  induction l as [|[k x] l IH]; [reflexivity|].
  cbn [flat_map snd]. rewrite <- IH. reflexivity.
Qed.

Lemma flatten_Arr l : flatten (Arr l) = flat_map flatten l.
Proof.
  induction l as [|x l IH]; [reflexivity|].
  cbn [flat_map]. rewrite <- IH. reflexivity.
Qed.

Lemma build_ok_Map l :
  build_ok (Map l) = negb (is_nil l) && forallb (fun kx => build_ok (snd kx)) l.
Proof.
  assert (H : forall l : list (Z * ftree),
             (fix go (l : list (Z * ftree)) : bool :=
                match l with [] => true | (_, x) :: l' => build_ok x && go l' end) l
             = forallb (fun kx => build_ok (snd kx)) l).
  { intros l0. induction l0 as [|[k x] l0 IH]; [reflexivity|]. cbn [forallb snd]. rewrite <- IH. reflexivity. }
  cbn [build_ok]. rewrite H. reflexivity.
Qed.

Lemma build_ok_Arr l : build_ok (Arr l) = negb (is_nil l) && forallb build_ok l.
Proof.
  assert (H : forall l : list ftree,
             (fix go (l : list ftree) : bool :=
                match l with [] => true | x :: l' => build_ok x && go l' end) l
             = forallb build_ok l).
  { intros l0. induction l0 as [|x l0 IH]; [reflexivity|]. cbn [forallb]. rewrite <- IH. reflexivity. }
  cbn [build_ok]. rewrite H. reflexivity.
Qed.

Definition keep_kv (kx : Z * ftree) : list (Z * ftree) :=
  let y := filter_fields (snd kx) in if truthy y then [(fst kx, y)] else [].
Definition keep_v (x : ftree) : list ftree :=
  let y := filter_fields x in if truthy y then [y] else [].

Lemma filter_Map l : filter_fields (Map l) = Map (flat_map keep_kv l).
Proof.
  cbn [filter_fields]. f_equal.
  induction l as [|[k x] l IH]; [reflexivity|].
  cbn [flat_map]. unfold keep_kv at 1. cbn [fst snd]. rewrite <- IH.
  destruct (truthy (filter_fields x)); reflexivity.
Qed.

Lemma filter_Arr l : filter_fields (Arr l) = Arr (flat_map keep_v l).
Proof.
  cbn [filter_fields]. f_equal.
  induction l as [|x l IH]; [reflexivity|].
  cbn [flat_map]. unfold keep_v at 1. rewrite <- IH.
  destruct (truthy (filter_fields x)); reflexivity.
Qed.

Lemma is_nil_app {X} (a b : list X) : is_nil (a ++ b) = is_nil a && is_nil b.
Proof. destruct a; reflexivity. Qed.

Lemma is_nil_true {X} (l : list X) : is_nil l = true <-> l = [].
Proof. destruct l; split; intros H; try reflexivity; discriminate. Qed.

(* ---------- facts about flatten / build_ok / filter_fields ---------- *)
Definition width_ok (f : field) : Prop := 0 <= f_w f.

Lemma build_ok_widths t : build_ok t = true -> Forall width_ok (flatten t).
Proof.
  induction t as [w a| |l IH|l IH] using ftree_ind2; intros H.
  - cbn in *. constructor; [|constructor]. unfold width_ok; cbn. lia.
  - discriminate.
  - rewrite build_ok_Map in H. apply andb_true_iff in H. destruct H as [_ H].
    rewrite flatten_Map. induction IH as [|kx l Hx _ IHl]; cbn [flat_map]; [constructor|].
    cbn [forallb] in H. apply andb_true_iff in H. destruct H as [H1 H2].
    apply Forall_app. split; auto.
  - rewrite build_ok_Arr in H. apply andb_true_iff in H. destruct H as [_ H].
    rewrite flatten_Arr. induction IH as [|x l Hx _ IHl]; cbn [flat_map]; [constructor|].
    cbn [forallb] in H. apply andb_true_iff in H. destruct H as [H1 H2].
    apply Forall_app. split; auto.
Qed.

(* every register the constructor accepts has at least one field *)
Lemma build_ok_nonempty t : build_ok t = true -> flatten t <> [].
Proof.
  induction t as [w a| |l IH|l IH] using ftree_ind2; intros H.
  - cbn. discriminate.
  - discriminate.
  - rewrite build_ok_Map in H. rewrite flatten_Map.
    destruct IH as [|[k x] l Hx _]; [discriminate|].
    cbn in H. apply andb_true_iff in H. destruct H as [H1 _].
    cbn [flat_map snd]. intros E. apply app_eq_nil in E. destruct E as [E _].
    exact (Hx H1 E).
  - rewrite build_ok_Arr in H. rewrite flatten_Arr.
    destruct IH as [|x l Hx _]; [discriminate|].
    cbn in H. apply andb_true_iff in H. destruct H as [H1 _].
    cbn [flat_map]. intros E. apply app_eq_nil in E. destruct E as [E _].
    exact (Hx H1 E).
Qed.

(* filtering the annotations keeps exactly the Field objects, in order *)
Lemma flatten_filter t :
  flatten (filter_fields t) = flatten t /\
  truthy (filter_fields t) = negb (is_nil (flatten t)).
Proof.
  induction t as [w a| |l IH|l IH] using ftree_ind2.
  - split; reflexivity.
  - split; reflexivity.
  - rewrite filter_Map. cbn [truthy]. rewrite !flatten_Map.
    induction IH as [|[k x] l [Hx1 Hx2] _ [IH1 IH2]]; [split; reflexivity|].
    cbn [flat_map snd] in *. unfold keep_kv at 1 3. cbn [fst snd].
    rewrite Hx2.
    destruct (flatten x) as [|f fl] eqn:E; cbn [is_nil negb app].
    + split; assumption.
    + cbn [flat_map snd is_nil negb app]. rewrite Hx1, IH1. split; reflexivity.
  - rewrite filter_Arr. cbn [truthy]. rewrite !flatten_Arr.
    induction IH as [|x l [Hx1 Hx2] _ [IH1 IH2]]; [split; reflexivity|].
    cbn [flat_map] in *. unfold keep_v at 1 3.
    rewrite Hx2.
    destruct (flatten x) as [|f fl] eqn:E; cbn [is_nil negb app].
    + split; assumption.
    + cbn [flat_map is_nil negb app]. rewrite Hx1, IH1. split; reflexivity.
Qed.

(* ... and what is left is a well-formed collection as soon as it is non-empty *)
Lemma build_ok_filter t :
  Forall width_ok (flatten t) -> truthy (filter_fields t) = true ->
  build_ok (filter_fields t) = true.
Proof.
  induction t as [w a| |l IH|l IH] using ftree_ind2; intros HW HT.
  - cbn in *. inversion HW as [|f l' Hf _]; subst. unfold width_ok in Hf; cbn in Hf. lia.
  - discriminate.
  - rewrite filter_Map in *. rewrite build_ok_Map. cbn [truthy] in HT. rewrite HT. cbn [andb].
    clear HT. rewrite flatten_Map in HW.
    induction IH as [|[k x] l Hx _ IHl]; [reflexivity|].
    cbn [flat_map snd] in *. apply Forall_app in HW. destruct HW as [HW1 HW2].
    rewrite forallb_app. rewrite (IHl HW2), andb_true_r.
    unfold keep_kv. cbn [fst snd].
    destruct (truthy (filter_fields x)) eqn:E; [|reflexivity].
    cbn [forallb snd]. rewrite (Hx HW1 eq_refl). reflexivity.
  - rewrite filter_Arr in *. rewrite build_ok_Arr. cbn [truthy] in HT. rewrite HT. cbn [andb].
    clear HT. rewrite flatten_Arr in HW.
    induction IH as [|x l Hx _ IHl]; [reflexivity|].
    cbn [flat_map] in *. apply Forall_app in HW. destruct HW as [HW1 HW2].
    rewrite forallb_app. rewrite (IHl HW2), andb_true_r.
    unfold keep_v.
    destruct (truthy (filter_fields x)) eqn:E; [|reflexivity].
    cbn [forallb]. rewrite (Hx HW1 eq_refl). reflexivity.
Qed.

(* ---------- the constructor ---------- *)
Lemma sumz_app a b : sumz (a ++ b) = sumz a + sumz b.
Proof. induction a as [|x a IH]; cbn [sumz fold_right app] in *; [reflexivity|]. unfold sumz in *. lia. Qed.

Lemma sumz_nonneg l : Forall (fun z => 0 <= z) l -> 0 <= sumz l.
Proof.
  induction 1 as [|x l Hx _ IH]; cbn [sumz fold_right]; [lia|]. unfold sumz in IH. lia.
Qed.

Lemma widths_nonneg l : Forall width_ok l -> Forall (fun z => 0 <= z) (map f_w l).
Proof. induction 1 as [|f l Hf _ IH]; cbn [map]; constructor; auto. Qed.

(* closed form of the checking loop *)
Lemma check_fields_eq ra l : forall w0,
  check_fields ra l w0 =
  if existsb (incompatible ra) l then Err ValueError else Ok (w0 + sumz (map f_w l)).
Proof.
  induction l as [|f l IH]; intros w0.
  - cbn. f_equal. lia.
  - cbn [check_fields existsb map]. unfold incompatible at 1.
    destruct (f_readable (f_a f) && negb (e_readable ra)) eqn:E1; [reflexivity|].
    destruct (f_writable (f_a f) && negb (e_writable ra)) eqn:E2; [reflexivity|].
    cbn [orb]. rewrite IH. destruct (existsb (incompatible ra) l); [reflexivity|].
    f_equal. cbn [sumz fold_right]. unfold sumz. lia.
Qed.

Lemma reg_core_eq t ra :
  reg_core t ra =
  if build_ok t
  then if existsb (incompatible ra) (flatten t) then Err ValueError
       else Ok (sumz (map f_w (flatten t)))
  else Err TypeError.
Proof.
  unfold reg_core. destruct (build_ok t) eqn:B; [|reflexivity].
  rewrite check_fields_eq. destruct (existsb (incompatible ra) (flatten t)); [reflexivity|].
  pose proof (sumz_nonneg _ (widths_nonneg _ (build_ok_widths t B))) as H.
  destruct (0 + sumz (map f_w (flatten t)) <? 0) eqn:E; [lia|]. f_equal.
Qed.

(* the negative-width branch of Element.Signature is never what rejects a register *)
Lemma reg_core_ok t ra w :
  reg_core t ra = Ok w ->
  build_ok t = true /\ existsb (incompatible ra) (flatten t) = false /\
  w = sumz (map f_w (flatten t)) /\ 0 <= w /\ Forall width_ok (flatten t).
Proof.
  rewrite reg_core_eq. destruct (build_ok t) eqn:B; [|discriminate].
  destruct (existsb (incompatible ra) (flatten t)) eqn:X; [discriminate|].
  intros H. injection H as <-. pose proof (build_ok_widths t B) as HW.
  repeat split; auto. apply sumz_nonneg, widths_nonneg, HW.
Qed.

Lemma compatible_access ra l f :
  existsb (incompatible ra) l = false -> In f l ->
  (f_readable (f_a f) = true -> e_readable ra = true) /\
  (f_writable (f_a f) = true -> e_writable ra = true).
Proof.
  intros HX HI.
  assert (HF : incompatible ra f = false).
  { destruct (incompatible ra f) eqn:E; [|reflexivity].
    assert (existsb (incompatible ra) l = true) by (apply existsb_exists; eauto). congruence. }
  unfold incompatible in HF. apply orb_false_iff in HF. destruct HF as [H1 H2].
  split; intros H; rewrite H in *; cbn in *.
  - destruct (e_readable ra); [reflexivity|discriminate].
  - destruct (e_writable ra); [reflexivity|discriminate].
Qed.

(* ---------- offsets ---------- *)
Lemma offset_of_0 l : offset_of l 0 = 0.
Proof. reflexivity. Qed.

Lemma offset_of_S l i f : nth_error l i = Some f -> offset_of l (S i) = offset_of l i + f_w f.
Proof.
  revert i. induction l as [|g l IH]; intros i H.
  - destruct i; discriminate.
  - destruct i as [|i].
    + injection H as ->. unfold offset_of. cbn. lia.
    + cbn [nth_error] in H. specialize (IH i H). unfold offset_of in *.
      cbn [firstn map sumz fold_right] in *. unfold sumz in *. lia.
Qed.

Lemma offset_of_all l : offset_of l (length l) = sumz (map f_w l).
Proof. unfold offset_of. rewrite firstn_all. reflexivity. Qed.

Lemma offset_of_nonneg l i : Forall width_ok l -> 0 <= offset_of l i.
Proof.
  intros H. unfold offset_of. apply sumz_nonneg, widths_nonneg.
  revert i. induction H as [|f l Hf _ IH]; intros i; destruct i; cbn [firstn]; constructor; auto.
Qed.

Lemma offset_of_mono l i j : Forall width_ok l -> (i <= j)%nat -> offset_of l i <= offset_of l j.
Proof.
  intros HW. revert i j. induction HW as [|f l Hf HW' IH]; intros i j Hij.
  - unfold offset_of. destruct i, j; cbn; lia.
  - destruct i as [|i]; destruct j as [|j]; try lia.
    + rewrite offset_of_0. apply offset_of_nonneg. constructor; auto.
    + assert (Hij' : (i <= j)%nat) by lia. specialize (IH i j Hij').
      unfold offset_of in *. cbn [firstn map sumz fold_right] in *. unfold sumz in *. lia.
Qed.

(* ranges of distinct fields never overlap: field i ends before field j starts *)
Lemma offsets_disjoint l i j f :
  Forall width_ok l -> nth_error l i = Some f -> (i < j)%nat ->
  offset_of l i + f_w f <= offset_of l j.
Proof.
  intros HW HN Hij. rewrite <- (offset_of_S l i f HN). apply offset_of_mono; auto.
Qed.

Lemma offset_in_width l i f :
  Forall width_ok l -> nth_error l i = Some f -> offset_of l i + f_w f <= sumz (map f_w l).
Proof.
  intros HW HN. rewrite <- offset_of_all. rewrite <- (offset_of_S l i f HN).
  apply offset_of_mono; auto. apply nth_error_Some. congruence.
Qed.

(* ---------- elaborate: the field ports ---------- *)
Definition port_of (e : ein) (off : Z) (f : field) : fout :=
  {| p_r_stb := f_readable (f_a f) && e_r_stb e;
     p_w_stb := f_writable (f_a f) && e_w_stb e;
     p_w_data := if f_writable (f_a f) then slice off (f_w f) (e_w_data e) else 0 |}.

Lemma elab_ports_length e l : forall s r, length (snd (elab e s r l)) = length l.
Proof.
  induction l as [|[f v] l IH]; intros s r; [reflexivity|].
  cbn [elab]. specialize (IH (s + f_w f)
    (if f_readable (f_a f) then set_slice s (f_w f) r v else r)).
  destruct (elab e (s + f_w f) _ l) as [rd os]. cbn [snd length] in *. lia.
Qed.

Lemma elab_ports_nth e l : forall s r i f v,
  nth_error l i = Some (f, v) ->
  nth_error (snd (elab e s r l)) i = Some (port_of e (s + offset_of (map fst l) i) f).
Proof.
  induction l as [|[g u] l IH]; intros s r i f v H.
  - destruct i; discriminate.
  - cbn [elab]. specialize (IH (s + f_w g)
      (if f_readable (f_a g) then set_slice s (f_w g) r u else r)).
    destruct (elab e (s + f_w g) _ l) as [rd os]. cbn [snd] in *.
    destruct i as [|i].
    + injection H as -> ->. cbn [nth_error]. f_equal. unfold port_of.
      rewrite offset_of_0, Z.add_0_r.
      destruct (f_readable (f_a f)), (f_writable (f_a f)); reflexivity.
    + cbn [nth_error] in *. rewrite (IH i f v H). f_equal. f_equal.
      unfold offset_of. cbn [map fst firstn sumz fold_right]. unfold sumz. lia.
Qed.

(* ---------- elaborate: element.r_data ---------- *)
(* what field (f, v) puts on its bits of the read data *)
Definition contrib (fv : field * Z) : Z :=
  if f_readable (f_a (fst fv)) then trunc (f_w (fst fv)) (snd fv) else 0.

(* LSB-first concatenation of (width, value) chunks *)
Fixpoint pack (l : list (Z * Z)) : Z :=
  match l with
  | [] => 0
  | (w, c) :: l' => c + 2 ^ w * pack l'
  end.

(* appending a chunk c above a value r that fits in a: r + a*c fits in a*b *)
Lemma cat_bound a b r c : 0 < a -> 0 <= r < a -> 0 <= c < b -> 0 <= r + a * c < a * b.
Proof.
  intros Ha Hr Hc.
  assert (H1 : a * c <= a * (b - 1)) by (apply Z.mul_le_mono_nonneg_l; lia).
  assert (H2 : 0 <= a * c) by (apply Z.mul_nonneg_nonneg; lia).
  rewrite Z.mul_sub_distr_l in H1. lia.
Qed.

Definition chunk_ok (wc : Z * Z) : Prop := 0 <= fst wc /\ 0 <= snd wc < 2 ^ fst wc.

Lemma pack_bound l : Forall chunk_ok l -> 0 <= pack l < 2 ^ sumz (map fst l).
Proof.
  induction 1 as [|[w c] l [Hw Hc] HF IH]; cbn [pack map fst sumz fold_right].
  - cbn. lia.
  - cbn [fst snd] in *. fold (sumz (map fst l)).
    assert (HS : 0 <= sumz (map fst l)).
    { apply sumz_nonneg. clear IH. induction HF as [|[w' c'] l' [Hw' _] _ IH']; cbn [map]; constructor; auto. }
    rewrite Z.pow_add_r by lia.
    pose proof (pow2_pos w Hw) as P1.
    apply cat_bound; auto.
Qed.

Lemma pack_slice l : forall i w c,
  Forall chunk_ok l -> nth_error l i = Some (w, c) ->
  slice (sumz (map fst (firstn i l))) w (pack l) = c.
Proof.
  induction l as [|[w0 c0] l IH]; intros i w c HF HN.
  - destruct i; discriminate.
  - inversion HF as [|x l' [Hw0 Hc0] HF']; subst. cbn [fst snd] in *.
    pose proof (pow2_pos w0 Hw0) as P0.
    destruct i as [|i].
    + injection HN as -> ->. cbn [firstn map sumz fold_right pack]. unfold slice.
      rewrite Z.pow_0_r, Z.div_1_r.
      rewrite (Z.mul_comm (2 ^ w) (pack l)), Z_mod_plus_full. apply Z.mod_small. lia.
    + cbn [nth_error] in HN. cbn [firstn map fst sumz fold_right pack].
      fold (sumz (map fst (firstn i l))).
      assert (HS : 0 <= sumz (map fst (firstn i l))).
      { apply sumz_nonneg. clear - HF'. revert i.
        induction HF' as [|[w' c'] l' [Hw' _] _ IH']; intros i; destruct i; cbn [firstn map]; constructor; auto. }
      rewrite <- (IH i w c HF' HN). unfold slice.
      rewrite Z.pow_add_r by lia. rewrite <- Z.div_div by lia.
      f_equal. f_equal.
      rewrite (Z.mul_comm (2 ^ w0) (pack l)), Z.div_add by lia.
      rewrite (Z.div_small c0) by lia. lia.
Qed.

Definition chunks (l : list (field * Z)) : list (Z * Z) :=
  map (fun fv => (f_w (fst fv), contrib fv)) l.

Lemma contrib_range fv : 0 <= f_w (fst fv) -> 0 <= contrib fv < 2 ^ f_w (fst fv).
Proof.
  intros H. unfold contrib. destruct (f_readable (f_a (fst fv))).
  - apply trunc_range; auto.
  - pose proof (pow2_pos _ H). lia.
Qed.

Lemma chunks_ok l : Forall width_ok (map fst l) -> Forall chunk_ok (chunks l).
Proof.
  induction l as [|fv l IH]; intros H; cbn [chunks map] in *; [constructor|].
  inversion H as [|x l' Hx HF]; subst. constructor; [|apply IH; auto].
  split; cbn [fst snd]; [exact Hx|apply contrib_range; exact Hx].
Qed.

(* an in-range slice assignment onto still-zero bits adds the truncated value at that offset *)
Lemma set_slice_fresh s w r v :
  0 <= s -> 0 <= w -> 0 <= r < 2 ^ s -> set_slice s w r v = r + 2 ^ s * trunc w v.
Proof.
  intros Hs Hw Hr. unfold set_slice, slice.
  rewrite (Z.div_small r) by lia. rewrite Z.mod_0_l by (pose proof (pow2_pos w Hw); lia). lia.
Qed.

(* the assignments of the loop add up to the LSB-first concatenation *)
Lemma elab_rdata e l : forall s r,
  Forall width_ok (map fst l) -> 0 <= s -> 0 <= r < 2 ^ s ->
  fst (elab e s r l) = r + 2 ^ s * pack (chunks l).
Proof.
  induction l as [|[f v] l IH]; intros s r HF Hs Hr.
  - cbn. lia.
  - cbn [map fst] in HF. inversion HF as [|x l' Hf HF']; subst. unfold width_ok in Hf.
    cbn [elab].
    set (r1 := if f_readable (f_a f) then set_slice s (f_w f) r v else r).
    assert (E1 : r1 = r + 2 ^ s * contrib (f, v)).
    { unfold r1, contrib. cbn [fst snd]. destruct (f_readable (f_a f)).
      - apply set_slice_fresh; auto.
      - lia. }
    pose proof (contrib_range (f, v) Hf) as HC. cbn [fst] in HC.
    pose proof (pow2_pos s Hs) as P1. pose proof (pow2_pos _ Hf) as P2.
    assert (Hr1 : 0 <= r1 < 2 ^ (s + f_w f)).
    { rewrite Z.pow_add_r by lia. rewrite E1. apply cat_bound; auto. }
    specialize (IH (s + f_w f) r1 HF' ltac:(lia) Hr1).
    destruct (elab e (s + f_w f) r1 l) as [rd os]. cbn [fst] in *.
    rewrite IH. cbn [chunks map pack fst]. fold (chunks l).
    rewrite E1. rewrite Z.pow_add_r by lia. ring.
Qed.

(* ---------- combine ---------- *)
Lemma map_fst_combine {X Y} (a : list X) : forall (b : list Y),
  length a = length b -> map fst (combine a b) = a.
Proof.
  induction a as [|x a IH]; intros b H; [reflexivity|].
  destruct b as [|y b]; [discriminate|]. cbn [combine map fst]. f_equal. apply IH. cbn in H. lia.
Qed.

Lemma nth_error_combine {X Y} (a : list X) : forall (b : list Y) i x y,
  nth_error a i = Some x -> nth_error b i = Some y -> nth_error (combine a b) i = Some (x, y).
Proof.
  induction a as [|x0 a IH]; intros b i x y Ha Hb.
  - destruct i; discriminate.
  - destruct b as [|y0 b]; [destruct i; discriminate|].
    destruct i as [|i]; cbn in *.
    + congruence.
    + apply IH; auto.
Qed.

Lemma chunks_widths l : map fst (chunks l) = map f_w (map fst l).
Proof. unfold chunks. rewrite !map_map. reflexivity. Qed.

Lemma firstn_chunks i l : firstn i (chunks l) = chunks (firstn i l).
Proof. unfold chunks. apply firstn_map. Qed.

(* ---------- the register as a whole ---------- *)
Section Register.
  Variables (t : ftree) (e : ein) (vs : list Z).
  Hypothesis HW : Forall width_ok (flatten t).
  Hypothesis HL : length vs = length (flatten t).

  Let l := combine (flatten t) vs.

  Lemma reg_l_fst : map fst l = flatten t.
  Proof. apply map_fst_combine. symmetry. exact HL. Qed.

  Lemma reg_rdata_pack : fst (reg_out t e vs) = pack (chunks l).
  Proof.
    unfold reg_out. fold l. rewrite elab_rdata.
    - rewrite Z.pow_0_r. lia.
    - rewrite reg_l_fst. exact HW.
    - lia.
    - rewrite Z.pow_0_r. lia.
  Qed.

  Lemma reg_rdata_bound : 0 <= fst (reg_out t e vs) < 2 ^ sumz (map f_w (flatten t)).
  Proof.
    rewrite reg_rdata_pack.
    replace (map f_w (flatten t)) with (map fst (chunks l))
      by (rewrite chunks_widths, reg_l_fst; reflexivity).
    apply pack_bound, chunks_ok. rewrite reg_l_fst. exact HW.
  Qed.

  Lemma reg_rdata_slice i f v :
    nth_error (flatten t) i = Some f -> nth_error vs i = Some v ->
    slice (offset_of (flatten t) i) (f_w f) (fst (reg_out t e vs)) =
    if f_readable (f_a f) then trunc (f_w f) v else 0.
  Proof.
    intros Hf Hv. rewrite reg_rdata_pack.
    pose proof (nth_error_combine _ _ _ _ _ Hf Hv) as HN. fold l in HN.
    assert (HC : nth_error (chunks l) i = Some (f_w f, contrib (f, v))).
    { unfold chunks. rewrite nth_error_map, HN. reflexivity. }
    pose proof (pack_slice (chunks l) i _ _ (chunks_ok l ltac:(rewrite reg_l_fst; exact HW)) HC) as HS.
    rewrite firstn_chunks, chunks_widths in HS. rewrite <- firstn_map in HS.
    rewrite reg_l_fst in HS. unfold offset_of. rewrite HS. reflexivity.
  Qed.

  Lemma reg_ports_nth i f :
    nth_error (flatten t) i = Some f ->
    nth_error (snd (reg_out t e vs)) i = Some (port_of e (offset_of (flatten t) i) f).
  Proof.
    intros Hf.
    assert (Hv : exists v, nth_error vs i = Some v).
    { destruct (nth_error vs i) as [v|] eqn:E; [eauto|].
      apply nth_error_None in E. assert (i < length (flatten t))%nat by (apply nth_error_Some; congruence). lia. }
    destruct Hv as [v Hv].
    pose proof (nth_error_combine _ _ _ _ _ Hf Hv) as HN. fold l in HN.
    unfold reg_out. fold l. rewrite (elab_ports_nth e l 0 0 i f v HN).
    rewrite reg_l_fst. rewrite Z.add_0_l. reflexivity.
  Qed.

  Lemma reg_ports_length : length (snd (reg_out t e vs)) = length (flatten t).
  Proof.
    unfold reg_out. rewrite elab_ports_length. rewrite combine_length. lia.
  Qed.
End Register.

(* ---------- statements in the form used by Properties/C11.v ---------- *)
Lemma new_is_core annot fields ca ia t ra w :
  reg_new annot fields ca ia = Ok (t, ra, w) ->
  reg_core t ra = Ok w /\
  match annot, fields with
  | _, Some f => t = f /\ (forall a, annot = Some a -> flatten a = [])
  | Some a, None => t = filter_fields a
  | None, None => False
  end /\
  match ia, ca with
  | Some a, Some c => ra = a /\ a = c
  | Some a, None => ra = a
  | None, Some c => ra = c
  | None, None => False
  end.
Proof.
  unfold reg_new. intros H.
  assert (HA : exists fields2,
    match annot with
    | Some a => match fields with
                | None => Ok (Some (filter_fields a))
                | Some f => if truthy (filter_fields a) then Err ValueError else Ok (Some f)
                end
    | None => Ok fields
    end = Ok fields2 /\
    match fields2 with
    | None => annot = None /\ fields = None
    | Some t' =>
        match annot, fields with
        | _, Some f => t' = f /\ (forall a, annot = Some a -> flatten a = [])
        | Some a, None => t' = filter_fields a
        | None, None => False
        end
    end).
  { destruct annot as [a|]; destruct fields as [f|].
    - destruct (truthy (filter_fields a)) eqn:E; [discriminate|].
      eexists; split; [reflexivity|]. split; [reflexivity|].
      intros a' Ha'. injection Ha' as <-.
      destruct (flatten_filter a) as [_ HT]. rewrite E in HT.
      destruct (flatten a); [reflexivity|discriminate].
    - eexists; split; reflexivity.
    - eexists; split; [reflexivity|]. split; [reflexivity|]. intros a' Ha'. discriminate.
    - eexists; split; [reflexivity|]. split; reflexivity. }
  destruct HA as (fields2 & HE & HF). rewrite HE in H. clear HE.
  assert (HB : exists ra',
    match ia with
    | Some a => match ca with Some c => if racc_eqb a c then Ok a else Err ValueError | None => Ok a end
    | None => match ca with Some c => Ok c | None => Err ValueError end
    end = Ok ra' /\
    match ia, ca with
    | Some a, Some c => ra' = a /\ a = c
    | Some a, None => ra' = a
    | None, Some c => ra' = c
    | None, None => False
    end).
  { destruct ia as [a|]; destruct ca as [c|].
    - destruct (racc_eqb a c) eqn:E; [|discriminate].
      eexists; split; [reflexivity|]. split; [reflexivity|]. destruct a, c; try discriminate; reflexivity.
    - eexists; split; reflexivity.
    - eexists; split; reflexivity.
    - discriminate. }
  destruct HB as (ra' & HE & HR). rewrite HE in H. clear HE.
  destruct fields2 as [t'|]; [|discriminate].
  destruct (reg_core t' ra') as [w'|ex] eqn:EC; [|discriminate].
  injection H as <- <- <-. auto.
Qed.

Lemma ctor_value_error t ra :
  reg_core t ra = Err ValueError <->
  build_ok t = true /\
  exists f, In f (flatten t) /\
    ((f_readable (f_a f) = true /\ e_readable ra = false) \/
     (f_writable (f_a f) = true /\ e_writable ra = false)).
Proof.
  rewrite reg_core_eq. split.
  - destruct (build_ok t); [|discriminate].
    destruct (existsb (incompatible ra) (flatten t)) eqn:X; [|discriminate].
    intros _. split; [reflexivity|]. apply existsb_exists in X. destruct X as (f & HI & HF).
    exists f. split; [exact HI|]. unfold incompatible in HF.
    apply orb_true_iff in HF. destruct HF as [HF|HF]; apply andb_true_iff in HF; destruct HF as [H1 H2];
      apply negb_true_iff in H2; auto.
  - intros (B & f & HI & HF). rewrite B.
    assert (X : existsb (incompatible ra) (flatten t) = true).
    { apply existsb_exists. exists f. split; [exact HI|]. unfold incompatible.
      destruct HF as [[H1 H2]|[H1 H2]]; rewrite H1, H2; cbn; auto using orb_true_r. }
    rewrite X. reflexivity.
Qed.

Lemma ctor_type_error t ra : reg_core t ra = Err TypeError <-> build_ok t = false.
Proof.
  rewrite reg_core_eq. destruct (build_ok t).
  - destruct (existsb (incompatible ra) (flatten t)); split; discriminate.
  - split; reflexivity.
Qed.

Lemma filter_build_ok a :
  build_ok (filter_fields a) = true <-> (flatten a <> [] /\ Forall width_ok (flatten a)).
Proof.
  destruct (flatten_filter a) as [HF HT]. split.
  - intros B. rewrite <- HF. split; [apply build_ok_nonempty|apply build_ok_widths]; exact B.
  - intros [HN HW]. apply build_ok_filter; [exact HW|]. rewrite HT.
    destruct (flatten a); [congruence|reflexivity].
Qed.

(* a register that is not readable reads as 0 (it has no r_data at all in the implementation) *)
Lemma pack_zero l : Forall (fun wc => snd wc = 0) l -> pack l = 0.
Proof. induction 1 as [|[w c] l Hc _ IH]; cbn [pack]; [reflexivity|]. cbn in Hc. subst. rewrite IH. lia. Qed.

Lemma unreadable_reads_zero t ra w e vs :
  reg_core t ra = Ok w -> length vs = length (flatten t) -> e_readable ra = false ->
  fst (reg_out t e vs) = 0.
Proof.
  intros HC HL HR. apply reg_core_ok in HC. destruct HC as (_ & HX & _ & _ & HW).
  rewrite reg_rdata_pack by assumption. apply pack_zero.
  unfold chunks. apply Forall_map. apply Forall_forall. intros [f v] HI. cbn [snd].
  unfold contrib. cbn [fst snd].
  assert (HF : In f (flatten t)) by (apply in_combine_l in HI; exact HI).
  destruct (compatible_access ra _ f HX HF) as [H1 _].
  destruct (f_readable (f_a f)); [|reflexivity]. rewrite H1 in HR by reflexivity. discriminate.
Qed.
