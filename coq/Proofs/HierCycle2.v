(* C01, rung 3 (b): a held Wishbone transfer to an SRAM window, on the cycle-exact hierarchy machine.
   T1: the root request (cyc & stb) is held for two cycles from t0, no acknowledge is pending at t0, the root
   decoder selects subordinate k, an SRAM.  Then: that SRAM and nobody else sees cyc; the root's ack is 0 at t0,
   1 at t0+1, 0 at t0+2; the SRAM's rows change once (between t0 and t0+1), granule by granule as C15 says, in
   the row the relayed address names; no other SRAM changes; no register below any bridge sees r_stb in
   [t0, t0+1] nor w_stb in [t0+1, t0+2]; a read returns at t0+1 the row as it was at t0. *)
From Coq Require Import ZArith List Bool Lia ZifyBool Arith.
From Soc Require Import Lib.Res Lib.Bits Model.Hierarchy Proofs.HierInert Proofs.HierWb Proofs.HierCycle1.
From Soc Require Lib.CsrPattern Model.Mux Model.CsrDecoder Model.WbDecoder Model.WbCsrBridge Model.Sram
  Proofs.WbDecoder Proofs.Sram Proofs.WbCsrBridge.
Import ListNotations.
Open Scope Z_scope.

Local Opaque Z.pow.

Module SP := Soc.Proofs.Sram.

(* ------------------------------------------------------------------ invariants of every reachable state *)

Lemma w_next_ok hh s rv so : whw_wf hh -> wst_ok hh s -> wst_ok hh (w_next hh s rv so).
Proof.
  destruct hh as [id g rows0|bc ch]; destruct s as [st|b cs]; cbn [wst_ok w_next whw_wf]; try contradiction; auto.
  intros [W _] R. apply SP.next_rows_ok; assumption.
Qed.

Lemma side_next_ok rv : forall hs ss outs, Forall whw_wf hs -> Forall2 wst_ok hs ss -> length outs = length hs ->
  Forall2 wst_ok hs (map3 (fun hh s so => w_next hh s rv so) hs ss outs).
Proof.
  induction hs as [|hh hs IH]; intros ss outs Hwf Hok Hl.
  - inversion Hok; subst. constructor.
  - inversion Hok as [|? s ? ss' Hs Hok']; subst. destruct outs as [|so outs]; [discriminate|].
    inversion Hwf as [|? ? Hw Hwf']; subst. cbn [map3 length] in *. constructor.
    + apply w_next_ok; assumption.
    + apply IH; auto; lia.
Qed.

Lemma wb_next_ok h ss q rv : wbhw_wf h -> Forall2 wst_ok (wh_subs h) ss -> Forall2 wst_ok (wh_subs h) (wb_next h ss q rv).
Proof.
  intros [Hlen Hwf] Hok. unfold wb_next. apply side_next_ok; auto. rewrite out_s_length. exact Hlen.
Qed.

Lemma wb_after_ok h : wbhw_wf h -> forall tr ss, Forall2 wst_ok (wh_subs h) ss ->
  Forall2 wst_ok (wh_subs h) (wb_after h ss tr).
Proof.
  intros Hwf. induction tr as [|[q rv] tr IH]; intros ss Hok; [exact Hok|].
  cbn [wb_after fst snd]. apply IH. apply wb_next_ok; assumption.
Qed.

Lemma winit_all_ok h : wbhw_wf h -> Forall2 wst_ok (wh_subs h) (map winit (wh_subs h)).
Proof.
  intros [_ Hw]. induction (wh_subs h) as [|hh l IH]; [constructor|].
  inversion Hw; subst. constructor; [exact (proj1 (winit_ok hh H1))|apply IH; assumption].
Qed.

Lemma winit_all_low h : wbhw_wf h -> Forall ack_low (map winit (wh_subs h)).
Proof.
  intros [_ Hw]. induction (wh_subs h) as [|hh l IH]; [constructor|].
  inversion Hw; subst. constructor; [exact (proj2 (winit_ok hh H1))|apply IH; assumption].
Qed.

(* "no acknowledge pending" is observable: the root's ack is the OR of the subordinates' *)
Lemma fanin_ack_false : forall (cs : list D.sub) (ss : list wst), length cs = length ss ->
  D.fanin (fun _ r => D.ack r) cs (map wresp ss) = false -> Forall ack_low ss.
Proof.
  induction cs as [|c cs IH]; intros ss Hl H; destruct ss as [|s ss]; try discriminate; [constructor|].
  cbn [map D.fanin length] in *. apply orb_false_iff in H as [H1 H2]. constructor; [exact H1|].
  apply IH; [lia|exact H2].
Qed.

Lemma root_ack_low h ss q rv : length (D.c_subs (wh_cfg h)) = length ss ->
  wo_ack (wb_out h ss q rv) = false -> Forall ack_low ss.
Proof. intros Hl H. apply (fanin_ack_false _ _ Hl). exact H. Qed.

(* SRAM rows shown at the port are the rows of the state, whatever is relayed *)
Lemma side_srams_rows : forall hs ss outs, Forall2 wst_ok hs ss -> length outs = length hs ->
  map (fun x : Z * bool * list Z => snd x) (side_srams hs ss outs) = concat (map sram_rows ss).
Proof.
  unfold side_srams. induction hs as [|hh hs IH]; intros ss outs Hok Hl.
  - inversion Hok; subst. reflexivity.
  - inversion Hok as [|? s ? ss' Hs Hok']; subst. destruct outs as [|so outs]; [discriminate|].
    cbn [map3 concat map length] in *. rewrite map_app, IH by (auto; lia). f_equal.
    destruct hh as [id g rows0|bc ch]; destruct s as [st|b cs]; try contradiction; reflexivity.
Qed.

(* ------------------------------------------------------------------ the transfer, from any fitting state *)

Record xfer_pre (h : wbhw) (k : nat) (hs1 hs2 : list whw) (id : Z) (g : Sram.geom) (rows0 : list Z)
                (cs1 : list D.sub) (s : D.sub) (cs2 : list D.sub) (ss1 ss2 : list wst) (st : Sram.state)
                (q : D.breq) : Prop := {
  xp_sp : split_hw h k hs1 (HSram id g rows0) hs2 cs1 s cs2;
  xp_ok1 : Forall2 wst_ok hs1 ss1;
  xp_ok2 : Forall2 wst_ok hs2 ss2;
  xp_okk : SP.rows_ok g (Sram.rows st);
  xp_lo1 : Forall ack_low ss1;
  xp_lo2 : Forall ack_low ss2;
  xp_lok : Sram.ack st = false;
  xp_cyc : D.cyc q = true;
  xp_stb : D.stb q = true;
  xp_sel : D.selected (wh_cfg h) (D.adr q) = Some k }.

Section SramTransfer.
  Variables (h : wbhw) (k : nat) (hs1 hs2 : list whw) (id : Z) (g : Sram.geom) (rows0 : list Z)
            (cs1 : list D.sub) (s : D.sub) (cs2 : list D.sub).
  Variables (ss1 ss2 : list wst) (st : Sram.state) (q : D.breq).
  Hypothesis HT : xfer_pre h k hs1 hs2 id g rows0 cs1 s cs2 ss1 ss2 st q.

  Let HSP := xp_sp _ _ _ _ _ _ _ _ _ _ _ _ _ _ HT.
  Let Ok1 := xp_ok1 _ _ _ _ _ _ _ _ _ _ _ _ _ _ HT.
  Let Ok2 := xp_ok2 _ _ _ _ _ _ _ _ _ _ _ _ _ _ HT.
  Let Okk := xp_okk _ _ _ _ _ _ _ _ _ _ _ _ _ _ HT.
  Let Lo1 := xp_lo1 _ _ _ _ _ _ _ _ _ _ _ _ _ _ HT.
  Let Lo2 := xp_lo2 _ _ _ _ _ _ _ _ _ _ _ _ _ _ HT.
  Let Lok := xp_lok _ _ _ _ _ _ _ _ _ _ _ _ _ _ HT.
  Let Hcyc := xp_cyc _ _ _ _ _ _ _ _ _ _ _ _ _ _ HT.
  Let Hstb := xp_stb _ _ _ _ _ _ _ _ _ _ _ _ _ _ HT.
  Let Hsel := xp_sel _ _ _ _ _ _ _ _ _ _ _ _ _ _ HT.

  Notation c := (wh_cfg h).
  Notation hh := (HSram id g rows0).
  Definition so := sub_req (wh_cfg h) k s q.
  Definition si := sram_inp so.

  Let Wg : SP.wf g. Proof. exact (proj1 (sp_wk _ _ _ _ _ _ _ _ HSP)). Qed.

  Lemma only_k_q : only_k h k q. Proof. right. exact Hsel. Qed.

  Lemma L1 : length ss1 = length hs1. Proof. symmetry. exact (Forall2_len _ _ _ Ok1). Qed.
  Lemma L2 : length ss2 = length hs2. Proof. symmetry. exact (Forall2_len _ _ _ Ok2). Qed.

  Lemma si_req : Sram.cyc si = true /\ Sram.stb si = true /\ Sram.we si = D.we q.
  Proof.
    unfold si, sram_inp, so. cbn [Sram.cyc Sram.stb Sram.we]. rewrite sub_req_cyc_sel by exact Hsel.
    cbn [sub_req D.sub_out D.o_stb D.o_we]. auto.
  Qed.

  Lemma acc0 : SP.accepted st si = true.
  Proof. destruct si_req as (E1 & E2 & _). unfold SP.accepted. rewrite Lok, E1, E2. reflexivity. Qed.

  Definition st1 := Sram.next g st si.
  Definition st2 := Sram.next g st1 si.

  Lemma ack1 : Sram.ack st1 = true. Proof. unfold st1. rewrite SP.ack_step. exact acc0. Qed.
  Lemma ack2 : Sram.ack st2 = false.
  Proof. unfold st2. rewrite SP.ack_step. unfold SP.accepted. rewrite ack1. reflexivity. Qed.
  Lemma ok1 : SP.rows_ok g (Sram.rows st1). Proof. apply SP.next_rows_ok; [exact Wg|exact Okk]. Qed.
  Lemma rows2 : Sram.rows st2 = Sram.rows st1.
  Proof.
    unfold st2. apply SP.rows_step_no_write; [exact Wg|exact ok1|].
    unfold SP.accepted_write, SP.accepted. rewrite ack1. cbn [negb andb]. rewrite andb_false_r. reflexivity.
  Qed.

  (* the states after one and two clock edges *)
  Definition A1 rv := side_next hs1 ss1 rv (outs1 h cs1 q).
  Definition B1 rv := side_next hs2 ss2 rv (outs2 h k cs2 q).
  Definition A2 rv rv' := side_next hs1 (A1 rv) rv' (outs1 h cs1 q).
  Definition B2 rv rv' := side_next hs2 (B1 rv) rv' (outs2 h k cs2 q).

  Lemma state1 rv : wb_next h (ss1 ++ SSram st :: ss2) q rv = A1 rv ++ SSram st1 :: B1 rv.
  Proof. rewrite (next_split h k hs1 hh hs2 cs1 s cs2 HSP) by exact L1. reflexivity. Qed.

  Lemma A1_quiet rv : Forall2 wst_ok hs1 (A1 rv) /\ Forall ack_low (A1 rv) /\ length (A1 rv) = length hs1.
  Proof.
    apply side_quiet; auto; [exact (sp_w1 _ _ _ _ _ _ _ _ HSP)| |].
    - exact (outs1_nocyc h k hs1 hh hs2 cs1 s cs2 HSP q only_k_q).
    - exact (outs1_length h k hs1 hh hs2 cs1 s cs2 HSP q).
  Qed.
  Lemma B1_quiet rv : Forall2 wst_ok hs2 (B1 rv) /\ Forall ack_low (B1 rv) /\ length (B1 rv) = length hs2.
  Proof.
    apply side_quiet; auto; [exact (sp_w2 _ _ _ _ _ _ _ _ HSP)| |].
    - exact (outs2_nocyc h k cs2 q only_k_q).
    - exact (outs2_length h k hs1 hh hs2 cs1 s cs2 HSP q).
  Qed.

  Lemma state2 rv rv' : wb_next h (A1 rv ++ SSram st1 :: B1 rv) q rv' = A2 rv rv' ++ SSram st2 :: B2 rv rv'.
  Proof.
    rewrite (next_split h k hs1 hh hs2 cs1 s cs2 HSP) by exact (proj2 (proj2 (A1_quiet rv))). reflexivity.
  Qed.

  Lemma A2_quiet rv rv' : Forall2 wst_ok hs1 (A2 rv rv') /\ Forall ack_low (A2 rv rv') /\ length (A2 rv rv') = length hs1.
  Proof.
    destruct (A1_quiet rv) as (H1 & H2 & _).
    apply side_quiet; auto; [exact (sp_w1 _ _ _ _ _ _ _ _ HSP)| |].
    - exact (outs1_nocyc h k hs1 hh hs2 cs1 s cs2 HSP q only_k_q).
    - exact (outs1_length h k hs1 hh hs2 cs1 s cs2 HSP q).
  Qed.
  Lemma B2_quiet rv rv' : Forall2 wst_ok hs2 (B2 rv rv') /\ Forall ack_low (B2 rv rv') /\ length (B2 rv rv') = length hs2.
  Proof.
    destruct (B1_quiet rv) as (H1 & H2 & _).
    apply side_quiet; auto; [exact (sp_w2 _ _ _ _ _ _ _ _ HSP)| |].
    - exact (outs2_nocyc h k cs2 q only_k_q).
    - exact (outs2_length h k hs1 hh hs2 cs1 s cs2 HSP q).
  Qed.

  (* the rows of the unselected SRAMs do not move *)
  Lemma A_rows rv : concat (map sram_rows (A1 rv)) = concat (map sram_rows ss1).
  Proof.
    destruct (subs_no_cyc rv hs1 ss1 (outs1 h cs1 q) (sp_w1 _ _ _ _ _ _ _ _ HSP) Ok1 Lo1
                (outs1_nocyc h k hs1 hh hs2 cs1 s cs2 HSP q only_k_q)
                (outs1_length h k hs1 hh hs2 cs1 s cs2 HSP q)) as (_ & _ & I3 & _). exact I3.
  Qed.
  Lemma B_rows rv : concat (map sram_rows (B1 rv)) = concat (map sram_rows ss2).
  Proof.
    destruct (subs_no_cyc rv hs2 ss2 (outs2 h k cs2 q) (sp_w2 _ _ _ _ _ _ _ _ HSP) Ok2 Lo2
                (outs2_nocyc h k cs2 q only_k_q)
                (outs2_length h k hs1 hh hs2 cs1 s cs2 HSP q)) as (_ & _ & I3 & _). exact I3.
  Qed.
  Lemma A2_rows rv rv' : concat (map sram_rows (A2 rv rv')) = concat (map sram_rows ss1).
  Proof.
    destruct (A1_quiet rv) as (H1 & H2 & _).
    destruct (subs_no_cyc rv' hs1 (A1 rv) (outs1 h cs1 q) (sp_w1 _ _ _ _ _ _ _ _ HSP) H1 H2
                (outs1_nocyc h k hs1 hh hs2 cs1 s cs2 HSP q only_k_q)
                (outs1_length h k hs1 hh hs2 cs1 s cs2 HSP q)) as (_ & _ & I3 & _).
    unfold A2, side_next. rewrite I3. apply A_rows.
  Qed.
  Lemma B2_rows rv rv' : concat (map sram_rows (B2 rv rv')) = concat (map sram_rows ss2).
  Proof.
    destruct (B1_quiet rv) as (H1 & H2 & _).
    destruct (subs_no_cyc rv' hs2 (B1 rv) (outs2 h k cs2 q) (sp_w2 _ _ _ _ _ _ _ _ HSP) H1 H2
                (outs2_nocyc h k cs2 q only_k_q)
                (outs2_length h k hs1 hh hs2 cs1 s cs2 HSP q)) as (_ & _ & I3 & _).
    unfold B2, side_next. rewrite I3. apply B_rows.
  Qed.

  (* what the unselected SRAMs show in cycles t0 and t0+1 *)
  Definition PA := side_srams hs1 ss1 (outs1 h cs1 q).
  Definition PB := side_srams hs2 ss2 (outs2 h k cs2 q).

  Lemma PA_nocyc : forall x, In x PA -> snd (fst x) = false.
  Proof.
    destruct (subs_no_cyc [] hs1 ss1 (outs1 h cs1 q) (sp_w1 _ _ _ _ _ _ _ _ HSP) Ok1 Lo1
                (outs1_nocyc h k hs1 hh hs2 cs1 s cs2 HSP q only_k_q)
                (outs1_length h k hs1 hh hs2 cs1 s cs2 HSP q)) as (_ & _ & _ & _ & I5 & _). exact I5.
  Qed.
  Lemma PB_nocyc : forall x, In x PB -> snd (fst x) = false.
  Proof.
    destruct (subs_no_cyc [] hs2 ss2 (outs2 h k cs2 q) (sp_w2 _ _ _ _ _ _ _ _ HSP) Ok2 Lo2
                (outs2_nocyc h k cs2 q only_k_q)
                (outs2_length h k hs1 hh hs2 cs1 s cs2 HSP q)) as (_ & _ & _ & _ & I5 & _). exact I5.
  Qed.

  Lemma sram_port st' : w_srams hh (SSram st') so = [(id, true, Sram.rows st')].
  Proof. cbn [w_srams]. unfold so. rewrite sub_req_cyc_sel by exact Hsel. rewrite Hcyc. reflexivity. Qed.

  (* cycle t0 *)
  Lemma cycle0 rv :
    let o := wb_out h (ss1 ++ SSram st :: ss2) q rv in
    wo_ack o = false /\ wo_srams o = PA ++ (id, true, Sram.rows st) :: PB /\
    (forall lo, In lo (wo_leaves o) -> lo_rstb lo = false).
  Proof.
    intros o. subst o. split; [|split].
    - rewrite (ack_split h k hs1 hh hs2 cs1 s cs2 HSP) by (auto using L1, L2). exact Lok.
    - destruct (out_split h k hs1 hh hs2 cs1 s cs2 HSP ss1 (SSram st) ss2 q rv L1) as [E _].
      rewrite E. fold so. rewrite sram_port. reflexivity.
    - destruct (out_split h k hs1 hh hs2 cs1 s cs2 HSP ss1 (SSram st) ss2 q rv L1) as [_ E].
      rewrite E. cbn [w_leaves app]. intros lo Hin. apply in_app_or in Hin as [Hin|Hin].
      + destruct (subs_no_cyc rv hs1 ss1 (outs1 h cs1 q) (sp_w1 _ _ _ _ _ _ _ _ HSP) Ok1 Lo1
                    (outs1_nocyc h k hs1 hh hs2 cs1 s cs2 HSP q only_k_q)
                    (outs1_length h k hs1 hh hs2 cs1 s cs2 HSP q)) as (_ & _ & _ & I4 & _). exact (I4 lo Hin).
      + destruct (subs_no_cyc rv hs2 ss2 (outs2 h k cs2 q) (sp_w2 _ _ _ _ _ _ _ _ HSP) Ok2 Lo2
                    (outs2_nocyc h k cs2 q only_k_q)
                    (outs2_length h k hs1 hh hs2 cs1 s cs2 HSP q)) as (_ & _ & _ & I4 & _). exact (I4 lo Hin).
  Qed.

  (* cycle t0+1 *)
  Lemma cycle1 rv rv' :
    let o := wb_out h (A1 rv ++ SSram st1 :: B1 rv) q rv' in
    wo_ack o = true /\ wo_srams o = PA ++ (id, true, Sram.rows st1) :: PB /\
    wo_dat_r o = trunc (D.c_dw (wh_cfg h)) (Sram.latch st1) /\
    (forall lo, In lo (wo_leaves o) -> lo_rstb lo = false /\ lo_wstb lo = false).
  Proof.
    intros o. subst o. destruct (A1_quiet rv) as (HA1 & HA2 & HA3). destruct (B1_quiet rv) as (HB1 & HB2 & HB3).
    split; [|split; [|split]].
    - rewrite (ack_split h k hs1 hh hs2 cs1 s cs2 HSP) by auto. exact ack1.
    - destruct (out_split h k hs1 hh hs2 cs1 s cs2 HSP (A1 rv) (SSram st1) (B1 rv) q rv' HA3) as [E _].
      rewrite E. fold so. rewrite sram_port. unfold PA, PB, A1, B1, side_srams, side_next.
      rewrite (quiet_srams_step rv hs1 ss1), (quiet_srams_step rv hs2 ss2); auto;
        try exact (sp_w1 _ _ _ _ _ _ _ _ HSP); try exact (sp_w2 _ _ _ _ _ _ _ _ HSP);
        try exact (outs1_nocyc h k hs1 hh hs2 cs1 s cs2 HSP q only_k_q);
        try exact (outs2_nocyc h k cs2 q only_k_q);
        try exact (outs1_length h k hs1 hh hs2 cs1 s cs2 HSP q);
        try exact (outs2_length h k hs1 hh hs2 cs1 s cs2 HSP q).
    - unfold wb_out, wb_dec_out, D.out, D.bus_out. cbn [wo_dat_r D.out_b D.r_dat_r D.in_b D.in_s]. rewrite Hsel.
      rewrite nth_error_map, nth_error_app2 by (rewrite HA3, (sp_l1 _ _ _ _ _ _ _ _ HSP); lia).
      rewrite HA3, (sp_l1 _ _ _ _ _ _ _ _ HSP), Nat.sub_diag. reflexivity.
    - destruct (out_split h k hs1 hh hs2 cs1 s cs2 HSP (A1 rv) (SSram st1) (B1 rv) q rv' HA3) as [_ E].
      rewrite E. cbn [w_leaves app]. intros lo Hin. apply in_app_or in Hin as [Hin|Hin]; split.
      + destruct (subs_no_cyc rv' hs1 (A1 rv) (outs1 h cs1 q) (sp_w1 _ _ _ _ _ _ _ _ HSP) HA1 HA2
                    (outs1_nocyc h k hs1 hh hs2 cs1 s cs2 HSP q only_k_q)
                    (outs1_length h k hs1 hh hs2 cs1 s cs2 HSP q)) as (_ & _ & _ & I4 & _). exact (I4 lo Hin).
      + exact (quiet_wstb_step rv hs1 ss1 _ (sp_w1 _ _ _ _ _ _ _ _ HSP)
                 (outs1_nocyc h k hs1 hh hs2 cs1 s cs2 HSP q only_k_q) rv' _ lo Hin).
      + destruct (subs_no_cyc rv' hs2 (B1 rv) (outs2 h k cs2 q) (sp_w2 _ _ _ _ _ _ _ _ HSP) HB1 HB2
                    (outs2_nocyc h k cs2 q only_k_q)
                    (outs2_length h k hs1 hh hs2 cs1 s cs2 HSP q)) as (_ & _ & _ & I4 & _). exact (I4 lo Hin).
      + exact (quiet_wstb_step rv hs2 ss2 _ (sp_w2 _ _ _ _ _ _ _ _ HSP)
                 (outs2_nocyc h k cs2 q only_k_q) rv' _ lo Hin).
  Qed.

  (* cycle t0+2, whatever the root is asked then *)
  Lemma cycle2 rv rv' q2 rv2 :
    let o := wb_out h (A2 rv rv' ++ SSram st2 :: B2 rv rv') q2 rv2 in
    wo_ack o = false /\
    map (fun x : Z * bool * list Z => snd x) (wo_srams o) =
      map (fun x : Z * bool * list Z => snd x) (PA ++ (id, true, Sram.rows st1) :: PB) /\
    (forall lo, In lo (wo_leaves o) -> lo_wstb lo = false).
  Proof.
    intros o. subst o. destruct (A2_quiet rv rv') as (HA1 & HA2 & HA3). destruct (B2_quiet rv rv') as (HB1 & HB2 & HB3).
    split; [|split].
    - apply acks_low_no_ack. apply Forall_app. split; [exact HA2|]. constructor; [exact ack2|exact HB2].
    - destruct (out_split h k hs1 hh hs2 cs1 s cs2 HSP (A2 rv rv') (SSram st2) (B2 rv rv') q2 rv2 HA3) as [E _].
      rewrite E. cbn [w_srams app]. rewrite !map_app. cbn [map snd]. rewrite rows2.
      unfold PA, PB.
      rewrite !side_srams_rows; auto;
        try exact (outs1_length h k hs1 hh hs2 cs1 s cs2 HSP _);
        try exact (outs2_length h k hs1 hh hs2 cs1 s cs2 HSP _).
      rewrite A2_rows, B2_rows. reflexivity.
    - destruct (out_split h k hs1 hh hs2 cs1 s cs2 HSP (A2 rv rv') (SSram st2) (B2 rv rv') q2 rv2 HA3) as [_ E].
      rewrite E. cbn [w_leaves app]. intros lo Hin. apply in_app_or in Hin as [Hin|Hin].
      + exact (quiet_wstb_step rv' hs1 (A1 rv) _ (sp_w1 _ _ _ _ _ _ _ _ HSP)
                 (outs1_nocyc h k hs1 hh hs2 cs1 s cs2 HSP q only_k_q) rv2 _ lo Hin).
      + exact (quiet_wstb_step rv' hs2 (B1 rv) _ (sp_w2 _ _ _ _ _ _ _ _ HSP)
                 (outs2_nocyc h k cs2 q only_k_q) rv2 _ lo Hin).
  Qed.

  (* the SRAM's own step, granule by granule (C15_write_exact's clause, from this state) *)
  Lemma rows_change :
    length (Sram.rows st1) = length (Sram.rows st) /\
    forall a, 0 <= a < Sram.g_depth g -> forall kk, 0 <= kk < Sram.nsel g ->
      slice (kk * Sram.g_gran g) (Sram.g_gran g) (SP.row (Sram.rows st1) a) =
      if Sram.g_wr g && D.we q && (trunc (Sram.g_aw g) (D.o_adr so) =? a) && Z.testbit (D.o_sel so) kk
      then slice (kk * Sram.g_gran g) (Sram.g_gran g) (D.o_dat_w so)
      else slice (kk * Sram.g_gran g) (Sram.g_gran g) (SP.row (Sram.rows st) a).
  Proof.
    split.
    - destruct ok1 as [E1 _]. destruct Okk as [E0 _]. congruence.
    - intros a Ha kk Hk. unfold st1. rewrite (SP.next_granule g st si a kk Wg Okk Ha Hk).
      unfold SP.accepted_write. rewrite acc0. destruct si_req as (_ & _ & Ew). rewrite Ew, andb_true_r. reflexivity.
  Qed.

  Lemma read_data : D.we q = false -> Sram.latch st1 = SP.row (Sram.rows st) (trunc (Sram.g_aw g) (D.o_adr so)).
  Proof.
    intros Hwe. unfold st1. apply SP.read_step. unfold SP.accepted_read. rewrite acc0.
    destruct si_req as (_ & _ & Ew). rewrite Ew, Hwe. reflexivity.
  Qed.

  (* everything is ready for the next transfer *)
  Lemma after_transfer rv rv' :
    Forall2 wst_ok (wh_subs h) (A2 rv rv' ++ SSram st2 :: B2 rv rv') /\
    Forall ack_low (A2 rv rv' ++ SSram st2 :: B2 rv rv').
  Proof.
    destruct (A2_quiet rv rv') as (HA1 & HA2 & _). destruct (B2_quiet rv rv') as (HB1 & HB2 & _). split.
    - rewrite (sp_hs _ _ _ _ _ _ _ _ HSP). apply Forall2_app; [exact HA1|]. constructor; [|exact HB1].
      cbn [wst_ok]. rewrite rows2. exact ok1.
    - apply Forall_app. split; [exact HA2|]. constructor; [exact ack2|exact HB2].
  Qed.
End SramTransfer.

(* ------------------------------------------------------------------ T1, from the reset state *)

(* the transfer as the observer of `wb_run` sees it.  `pre` is any history; no acknowledge is pending after it
   (equivalently, by root_ack_low: the root's ack is low in cycle t0 = |pre|); the request q is presented in
   cycles t0 and t0+1; (q2, rv2) is whatever comes next. *)
Theorem sram_transfer h : wbhw_wf h -> forall pre q rv0 rv1 q2 rv2 post k id g rows0 s,
  let tr := pre ++ (q, rv0) :: (q, rv1) :: (q2, rv2) :: post in
  let t0 := length pre in
  Forall ack_low (wb_after h (map winit (wh_subs h)) pre) ->
  D.cyc q = true -> D.stb q = true -> D.selected (wh_cfg h) (D.adr q) = Some k ->
  nth_error (wh_subs h) k = Some (HSram id g rows0) -> nth_error (D.c_subs (wh_cfg h)) k = Some s ->
  let so := sub_req (wh_cfg h) k s q in
  exists o0 o1 o2 PA PB r0 r1,
    nth_error (wb_run h (map winit (wh_subs h)) tr) t0 = Some o0 /\
    nth_error (wb_run h (map winit (wh_subs h)) tr) (t0 + 1) = Some o1 /\
    nth_error (wb_run h (map winit (wh_subs h)) tr) (t0 + 2) = Some o2 /\
    (* acknowledge *)
    wo_ack o0 = false /\ wo_ack o1 = true /\ wo_ack o2 = false /\
    (* cyc: the selected SRAM and nobody else; the other SRAMs' ports are the same in both cycles *)
    wo_srams o0 = PA ++ (id, true, r0) :: PB /\ wo_srams o1 = PA ++ (id, true, r1) :: PB /\
    (forall x, In x PA \/ In x PB -> snd (fst x) = false) /\
    (* afterwards every memory holds what it held at t0+1: the write happens once *)
    map (fun x : Z * bool * list Z => snd x) (wo_srams o2) = map (fun x : Z * bool * list Z => snd x) (wo_srams o1) /\
    (* the selected SRAM's rows: exactly the selected granules of the addressed row, on a write *)
    SP.rows_ok g r0 /\ length r1 = length r0 /\
    (forall a, 0 <= a < Sram.g_depth g -> forall kk, 0 <= kk < Sram.nsel g ->
       slice (kk * Sram.g_gran g) (Sram.g_gran g) (SP.row r1 a) =
       if Sram.g_wr g && D.we q && (trunc (Sram.g_aw g) (D.o_adr so) =? a) && Z.testbit (D.o_sel so) kk
       then slice (kk * Sram.g_gran g) (Sram.g_gran g) (D.o_dat_w so)
       else slice (kk * Sram.g_gran g) (Sram.g_gran g) (SP.row r0 a)) /\
    (* a read returns the addressed row as it was at t0 *)
    (D.we q = false -> wo_dat_r o1 = trunc (D.c_dw (wh_cfg h)) (SP.row r0 (trunc (Sram.g_aw g) (D.o_adr so)))) /\
    (* no register strobe *)
    (forall lo, In lo (wo_leaves o0) -> lo_rstb lo = false) /\
    (forall lo, In lo (wo_leaves o1) -> lo_rstb lo = false /\ lo_wstb lo = false) /\
    (forall lo, In lo (wo_leaves o2) -> lo_wstb lo = false) /\
    (* and no acknowledge is pending after the transfer: the theorem applies again at t0+2 *)
    Forall ack_low (wb_after h (map winit (wh_subs h)) (pre ++ [(q, rv0); (q, rv1)])).
Proof.
  intros Hwf pre q rv0 rv1 q2 rv2 post k id g rows0 s tr t0 Hlow Hcyc Hstb Hsel Hh Hs so0.
  destruct (split_hw_intro h k _ s Hwf Hh Hs) as (hs1 & hs2 & cs1 & cs2 & HSP).
  pose proof (wb_after_ok h Hwf pre _ (winit_all_ok h Hwf)) as Hok.
  set (ss0 := wb_after h (map winit (wh_subs h)) pre) in *.
  rewrite (sp_hs _ _ _ _ _ _ _ _ HSP) in Hok.
  destruct (split_state _ _ _ _ Hok) as (ss1 & sk & ss2 & Ess & Ok1 & Okk & Ok2).
  destruct sk as [st|b cs]; [|contradiction]. cbn [wst_ok] in Okk.
  rewrite Ess in Hlow. apply Forall_app in Hlow as [Lo1 Lo2]. inversion Lo2 as [|? ? Lok Lo2']; subst x l.
  unfold ack_low in Lok. cbn [wresp D.ack] in Lok.
  assert (HT : xfer_pre h k hs1 hs2 id g rows0 cs1 s cs2 ss1 ss2 st q) by (constructor; assumption).
  (* the three cycles *)
  assert (N0 : nth_error tr t0 = Some (q, rv0)).
  { unfold tr, t0. rewrite nth_error_app2 by lia. rewrite Nat.sub_diag. reflexivity. }
  assert (N1 : nth_error tr (t0 + 1) = Some (q, rv1)).
  { unfold tr, t0. rewrite nth_error_app2 by lia. replace (length pre + 1 - length pre)%nat with 1%nat by lia. reflexivity. }
  assert (N2 : nth_error tr (t0 + 2) = Some (q2, rv2)).
  { unfold tr, t0. rewrite nth_error_app2 by lia. replace (length pre + 2 - length pre)%nat with 2%nat by lia. reflexivity. }
  assert (F0 : firstn t0 tr = pre).
  { unfold tr, t0. rewrite firstn_app, Nat.sub_diag, firstn_all. cbn [firstn]. apply app_nil_r. }
  assert (S0 : wb_after h (map winit (wh_subs h)) (firstn t0 tr) = ss1 ++ SSram st :: ss2).
  { rewrite F0. exact Ess. }
  pose proof (wb_after_S h tr (map winit (wh_subs h)) t0 q rv0 N0) as S1.
  rewrite S0, (state1 h k hs1 hs2 id g rows0 cs1 s cs2 ss1 ss2 st q HT rv0) in S1.
  replace (S t0) with (t0 + 1)%nat in S1 by lia.
  pose proof (wb_after_S h tr (map winit (wh_subs h)) (t0 + 1) q rv1 N1) as S2.
  rewrite S1, (state2 h k hs1 hs2 id g rows0 cs1 s cs2 ss1 ss2 st q HT rv0 rv1) in S2.
  replace (S (t0 + 1)) with (t0 + 2)%nat in S2 by lia.
  destruct (cycle0 h k hs1 hs2 id g rows0 cs1 s cs2 ss1 ss2 st q HT rv0) as (C01 & C02 & C03).
  destruct (cycle1 h k hs1 hs2 id g rows0 cs1 s cs2 ss1 ss2 st q HT rv0 rv1) as (C11 & C12 & C13 & C14).
  destruct (cycle2 h k hs1 hs2 id g rows0 cs1 s cs2 ss1 ss2 st q HT rv0 rv1 q2 rv2) as (C21 & C22 & C23).
  destruct (rows_change h k hs1 hs2 id g rows0 cs1 s cs2 ss1 ss2 st q HT) as (R1 & R2).
  eexists _, _, _, _, _, (Sram.rows st), _.
  split; [rewrite (wb_run_nth h tr _ t0 q rv0 N0), S0; reflexivity|].
  split; [rewrite (wb_run_nth h tr _ (t0 + 1) q rv1 N1), S1; reflexivity|].
  split; [rewrite (wb_run_nth h tr _ (t0 + 2) q2 rv2 N2), S2; reflexivity|].
  split; [exact C01|]. split; [exact C11|]. split; [exact C21|].
  split; [exact C02|]. split; [exact C12|].
  split.
  { intros x [Hx|Hx].
    - exact (PA_nocyc h k hs1 hs2 id g rows0 cs1 s cs2 ss1 ss2 st q HT x Hx).
    - exact (PB_nocyc h k hs1 hs2 id g rows0 cs1 s cs2 ss1 ss2 st q HT x Hx). }
  split; [rewrite C22, C12; reflexivity|].
  split; [exact Okk|]. split; [exact R1|]. split; [exact R2|].
  split.
  { intros Hwe. rewrite C13. f_equal.
    exact (read_data h k hs1 hs2 id g rows0 cs1 s cs2 ss1 ss2 st q HT Hwe). }
  split; [exact C03|]. split; [exact C14|]. split; [exact C23|].
  assert (E : pre ++ [(q, rv0); (q, rv1)] = firstn (t0 + 2) tr).
  { unfold tr, t0. rewrite firstn_app. replace (length pre + 2 - length pre)%nat with 2%nat by lia.
    rewrite firstn_all2 by lia. reflexivity. }
  rewrite E, S2.
  exact (proj2 (after_transfer h k hs1 hs2 id g rows0 cs1 s cs2 ss1 ss2 st q HT rv0 rv1)).
Qed.
