(* What the allocation proofs need of Res chains, MemoryMap.Name and _Namespace.is_available:
   names are non-empty, `conflicts` is total and symmetric on non-empty names, and on a set of
   pairwise conflict-free non-empty names `is_available` never raises. *)
From Coq Require Import ZArith List Bool Lia ZifyBool Arith.
From Soc Require Import Lib.Res Lib.PyList Model.MemoryMap Model.MemSpec.
Import ListNotations.
Open Scope Z_scope.

(* ------------------------------------------------------------------ Res chains *)

Lemma bind_ok {A B} (r : res A) (f : A -> res B) y :
  bind r f = Ok y -> exists x, r = Ok x /\ f x = Ok y.
Proof. destruct r as [x|e]; cbn [bind]; intros H; [eauto|discriminate]. Qed.

Lemma bind_err {A B} (r : res A) (f : A -> res B) e :
  bind r f = Err e -> r = Err e \/ exists x, r = Ok x /\ f x = Err e.
Proof. destruct r as [x|e']; cbn [bind]; intros H; [right; eauto|left; injection H as ->; reflexivity]. Qed.

Lemma check_ok b e u : check b e = Ok u -> b = true.
Proof. destruct b; cbn [check]; [reflexivity|discriminate]. Qed.

Lemma check_err b e e' : check b e = Err e' -> e' = e.
Proof. destruct b; cbn [check]; [discriminate|]. intros H; injection H; auto. Qed.

(* ------------------------------------------------------------------ Name *)

Lemma mapR_ok_length {X Y} (f : X -> res Y) l r : mapR f l = Ok r -> length r = length l.
Proof.
  revert r; induction l as [|x l IH]; cbn [mapR]; intros r H.
  - injection H as <-. reflexivity.
  - destruct (f x) as [y|]; [|discriminate]. destruct (mapR f l) as [r'|]; [|discriminate].
    injection H as <-. cbn [length]. f_equal. apply IH. reflexivity.
Qed.

Lemma mapR_valid_part_err l e : mapR valid_part l = Err e -> e = TypeError.
Proof.
  induction l as [|x l IH]; cbn [mapR]; intros H; [discriminate|].
  destruct (valid_part x) as [y|e'] eqn:E.
  - destruct (mapR valid_part l) as [r'|e'']; [discriminate|]. injection H as <-. apply IH. reflexivity.
  - injection H as <-. destruct x as [a|n|]; cbn [valid_part] in E.
    + destruct (a =? 0); [injection E; auto|discriminate].
    + destruct (n >=? 0); [discriminate|injection E; auto].
    + injection E; auto.
Qed.

Lemma mk_name_nonempty r n : mk_name r = Ok n -> n <> [].
Proof.
  intros H Hn. subst n. destruct r as [a|l|]; cbn [mk_name] in H.
  - apply mapR_ok_length in H. discriminate.
  - destruct l as [|p l]; [discriminate|]. apply mapR_ok_length in H. discriminate.
  - discriminate.
Qed.

Lemma mk_name_err r e : mk_name r = Err e -> e = TypeError.
Proof.
  destruct r as [a|l|]; cbn [mk_name]; intros H.
  - eapply mapR_valid_part_err; eauto.
  - destruct l as [|p l]; [injection H; auto|]. eapply mapR_valid_part_err; eauto.
  - injection H; auto.
Qed.

(* ------------------------------------------------------------------ name equality *)

Lemma part_eqb_refl p : part_eqb p p = true.
Proof. destruct p; cbn [part_eqb]; apply Z.eqb_refl. Qed.

Lemma part_eqb_sym p q : part_eqb p q = part_eqb q p.
Proof. destruct p, q; cbn [part_eqb]; auto using Z.eqb_sym. Qed.

Lemma name_eqb_refl n : name_eqb n n = true.
Proof.
  unfold name_eqb. rewrite Nat.eqb_refl. cbn [andb].
  induction n as [|p n IH]; cbn [combine forallb]; [reflexivity|].
  rewrite part_eqb_refl. exact IH.
Qed.

Lemma name_in_In r l : In r l -> name_in r l = true.
Proof.
  intros H. unfold name_in. apply existsb_exists. exists r. split; [exact H|apply name_eqb_refl].
Qed.

(* ------------------------------------------------------------------ conflicts *)

(* the index test of the loop is exact: with both names non-empty the loop decides before
   `reserved_name[part_idx]` can run past the end *)
Lemma conflict_loop_total nm : forall rs idx ml,
  ml - idx = Z.min (Z.of_nat (length nm)) (Z.of_nat (length rs)) ->
  (rs <> [] \/ nm = []) ->
  exists b, conflict_loop idx ml nm rs = Ok b.
Proof.
  induction nm as [|p nm IH]; intros rs idx ml Hml Hne; cbn [conflict_loop].
  - eauto.
  - destruct rs as [|r rs]; [destruct Hne as [Hne|Hne]; [congruence|discriminate]|].
    destruct (negb (part_eqb p r)); [eauto|].
    destruct (idx =? ml - 1) eqn:E; [eauto|].
    cbn [length] in Hml. apply IH.
    + lia.
    + destruct rs as [|r' rs]; [|left; discriminate]. destruct nm; [auto|]. cbn [length] in Hml. lia.
Qed.

Lemma conflicts_total nm rs : nm <> [] -> rs <> [] -> exists b, conflicts nm rs = Ok b.
Proof. intros Hn Hr. unfold conflicts. apply conflict_loop_total; [lia|auto]. Qed.

Lemma conflict_loop_sym nm : forall rs idx ml,
  ml - idx = Z.min (Z.of_nat (length nm)) (Z.of_nat (length rs)) ->
  nm <> [] -> rs <> [] ->
  conflict_loop idx ml nm rs = conflict_loop idx ml rs nm.
Proof.
  induction nm as [|p nm IH]; intros rs idx ml Hml Hn Hr; [congruence|].
  destruct rs as [|r rs]; [congruence|]. cbn [conflict_loop].
  rewrite (part_eqb_sym r p).
  destruct (negb (part_eqb p r)); [reflexivity|].
  destruct (idx =? ml - 1) eqn:E; [reflexivity|].
  cbn [length] in Hml.
  destruct nm as [|p' nm]; [cbn [length] in Hml; lia|].
  destruct rs as [|r' rs]; [cbn [length] in Hml; lia|].
  apply IH; [cbn [length] in *; lia|discriminate|discriminate].
Qed.

Lemma conflicts_sym nm rs : nm <> [] -> rs <> [] -> conflicts nm rs = conflicts rs nm.
Proof.
  intros Hn Hr. unfold conflicts. rewrite (Z.min_comm (Z.of_nat (length rs))).
  apply conflict_loop_sym; [lia|auto|auto].
Qed.

(* ------------------------------------------------------------------ is_available *)

(* non-empty names, no two of which conflict (each against the later ones; `conflicts` is symmetric) *)
Fixpoint names_ok (l : list name) : Prop :=
  match l with
  | [] => True
  | a :: l' => a <> [] /\ (forall r, In r l' -> conflicts a r = Ok false) /\ names_ok l'
  end.

Lemma names_ok_nonempty l : names_ok l -> forall a, In a l -> a <> [].
Proof.
  induction l as [|x l IH]; cbn [names_ok In]; intros H a Ha; [contradiction|].
  destruct H as (H1 & _ & H3). destruct Ha as [<-|Ha]; auto.
Qed.

Lemma names_ok_app l1 l2 : names_ok l1 -> names_ok l2 ->
  (forall a r, In a l1 -> In r l2 -> conflicts a r = Ok false) -> names_ok (l1 ++ l2).
Proof.
  induction l1 as [|x l1 IH]; cbn [names_ok app]; intros H1 H2 Hx; [exact H2|].
  destruct H1 as (Hn & Hc & Hok). split; [exact Hn|]. split.
  - intros r Hr. apply in_app_or in Hr as [Hr|Hr]; [auto|]. apply Hx; [left; reflexivity|exact Hr].
  - apply IH; auto. intros a r Ha Hr. apply Hx; [right; exact Ha|exact Hr].
Qed.

Lemma check_reserved_false (assigned : list name) (nm : name) (reserved : list name) :
  check_reserved assigned nm reserved = Ok false ->
  forall r, In r reserved -> conflicts nm r = Ok false.
Proof.
  induction reserved as [|x reserved IH]; cbn [check_reserved In]; intros H r Hr; [contradiction|].
  apply bind_ok in H as (c & Hc & H). destruct c.
  - destruct (name_in x assigned); [|discriminate].
    apply bind_ok in H as (c' & _ & H). discriminate.
  - destruct Hr as [<-|Hr]; [exact Hc|auto].
Qed.

Lemma is_available_true (assigned queries : list name) :
  is_available assigned queries = Ok true ->
  (forall q, In q queries -> q <> []) ->
  names_ok queries /\ forall q a, In q queries -> In a assigned -> conflicts q a = Ok false.
Proof.
  induction queries as [|q queries IH]; cbn [is_available names_ok]; intros H Hne.
  - split; [exact I|]. intros q a [].
  - apply bind_ok in H as (c & Hc & H). apply bind_ok in H as (r & Hr & H).
    injection H as H. destruct c; [discriminate|]. destruct r; [|discriminate].
    pose proof (check_reserved_false _ _ _ Hc) as Hfree.
    destruct (IH Hr) as (Hok & Hcross); [intros; apply Hne; right; auto|].
    split.
    + split; [apply Hne; left; reflexivity|]. split; [|exact Hok].
      intros r Hin. apply Hfree. apply in_or_app. right. exact Hin.
    + intros q' a [<-|Hq'] Ha; [|auto]. apply Hfree. apply in_or_app. left. exact Ha.
Qed.

Lemma check_reserved_total (assigned : list name) (nm : name) (reserved : list name) :
  nm <> [] -> (forall r, In r reserved -> r <> []) ->
  (forall r, In r reserved -> conflicts nm r = Ok true -> name_in r assigned = true) ->
  exists b, check_reserved assigned nm reserved = Ok b.
Proof.
  intros Hn. induction reserved as [|x reserved IH]; cbn [check_reserved]; intros Hne Hin; [eauto|].
  destruct (conflicts_total nm x Hn (Hne x (or_introl eq_refl))) as (c & Hc). rewrite Hc. cbn [bind].
  destruct IH as (b & Hb); [intros; apply Hne; right; auto|intros; apply Hin; [right|]; auto|].
  destruct c.
  - rewrite (Hin x (or_introl eq_refl) Hc). rewrite Hb. cbn [bind]. eauto.
  - eauto.
Qed.

(* the `assert reserved_name in self._assignments` of _Namespace.is_available and the IndexError of
   its inner loop are unreachable when the assigned names are non-empty and the queried names are
   non-empty and conflict-free among themselves *)
Lemma is_available_total (assigned queries : list name) :
  (forall a, In a assigned -> a <> []) -> names_ok queries ->
  exists b, is_available assigned queries = Ok b.
Proof.
  intros Ha. induction queries as [|q queries IH]; cbn [is_available names_ok]; intros Hok; [eauto|].
  destruct Hok as (Hq & Hfree & Hok).
  destruct (check_reserved_total assigned q (assigned ++ queries)) as (c & Hc).
  - exact Hq.
  - intros r Hr. apply in_app_or in Hr as [Hr|Hr]; [auto|]. eapply names_ok_nonempty; eauto.
  - intros r Hr Hcf. apply in_app_or in Hr as [Hr|Hr]; [apply name_in_In; exact Hr|].
    rewrite (Hfree r Hr) in Hcf. discriminate.
  - rewrite Hc. cbn [bind]. destruct (IH Hok) as (b & Hb). rewrite Hb. cbn [bind]. eauto.
Qed.
