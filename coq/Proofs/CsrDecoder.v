(* Proofs about the CSR decoder model (C06): routing of one decoder, the read multiplexer, and the
   composition of decoders into trees of any depth. *)
From Coq Require Import ZArith List Bool Lia.
From Soc Require Import Lib.Bits Lib.CsrPattern Model.CsrDecoder.
Import ListNotations.
Open Scope Z_scope.

(* ---------- vocabulary ---------- *)

(* the addresses a subordinate can see through its window: [start, start + 2^aw_w) *)
Definition in_span (w : sub) (a : Z) : Prop := s_start w <= a < s_start w + 2 ^ s_aw w.
Definition in_spanb (w : sub) (a : Z) : bool := (s_start w <=? a) && (a <? s_start w + 2 ^ s_aw w).

(* what the memory map guarantees for a window of a decoder with aw address bits *)
Definition wf_sub (aw : Z) (w : sub) : Prop :=
  0 <= s_aw w /\ 0 <= s_start w /\ s_start w mod 2 ^ s_aw w = 0 /\ s_start w + 2 ^ s_aw w <= 2 ^ aw.

Definition span_disj (w1 w2 : sub) : Prop :=
  s_start w1 + 2 ^ s_aw w1 <= s_start w2 \/ s_start w2 + 2 ^ s_aw w2 <= s_start w1.

(* the same on the ranges add() returned: the span lies inside the range, ranges are disjoint *)
Definition wf_range (aw : Z) (w : sub) : Prop :=
  0 <= s_aw w /\ 0 <= s_start w /\ s_start w mod 2 ^ s_aw w = 0 /\
  s_start w + 2 ^ s_aw w <= s_stop w /\ s_stop w <= 2 ^ aw.
Definition range_disj (w1 w2 : sub) : Prop := s_stop w1 <= s_start w2 \/ s_stop w2 <= s_start w1.

Lemma in_spanb_iff w a : in_spanb w a = true <-> in_span w a.
Proof. unfold in_spanb, in_span. rewrite andb_true_iff, Z.leb_le, Z.ltb_lt. reflexivity. Qed.

Lemma in_spanb_false w a : in_spanb w a = false <-> ~ in_span w a.
Proof. rewrite <- in_spanb_iff. destruct (in_spanb w a); split; congruence. Qed.

Lemma wf_sub_aw aw w : wf_sub aw w -> 0 <= s_aw w <= aw.
Proof.
  intros (H0 & H1 & _ & H3). split; [assumption|].
  destruct (Z.le_gt_cases (s_aw w) aw) as [|Hgt]; [assumption|exfalso].
  destruct (Z.le_gt_cases 0 aw) as [Haw|Haw].
  - assert (2 ^ aw < 2 ^ s_aw w) by (apply Z.pow_lt_mono_r; lia). lia.
  - rewrite (Z.pow_neg_r 2 aw) in H3 by lia. pose proof (pow2_pos' (s_aw w) H0). lia.
Qed.

Lemma wf_sub_start aw w : wf_sub aw w -> 0 <= s_start w < 2 ^ aw.
Proof. intros (H0 & H1 & _ & H3). pose proof (pow2_pos' (s_aw w) H0). lia. Qed.

(* ---------- ordered pairs ---------- *)

Lemma FOP_nth_lt {X} (R : X -> X -> Prop) l : ForallOrdPairs R l ->
  forall k1 k2 x y, (k1 < k2)%nat -> nth_error l k1 = Some x -> nth_error l k2 = Some y -> R x y.
Proof.
  induction 1 as [|a l Ha _ IH]; intros k1 k2 x y Hlt H1 H2.
  - destruct k1; discriminate.
  - destruct k2 as [|k2]; [lia|]. simpl in H2. destruct k1 as [|k1]; simpl in H1.
    + injection H1 as <-. rewrite Forall_forall in Ha. apply Ha. eapply nth_error_In; eassumption.
    + apply (IH k1 k2); auto; lia.
Qed.

Lemma FOP_app {X} (R : X -> X -> Prop) l1 l2 :
  ForallOrdPairs R l1 -> ForallOrdPairs R l2 ->
  (forall x y, In x l1 -> In y l2 -> R x y) -> ForallOrdPairs R (l1 ++ l2).
Proof.
  induction 1 as [|a l1 Ha _ IH]; intros H2 Hx; simpl; [assumption|].
  constructor.
  - apply Forall_app. split; [assumption|]. rewrite Forall_forall. intros y Hy. apply Hx; simpl; auto.
  - apply IH; auto. intros x y Hi Hj. apply Hx; simpl; auto.
Qed.

Lemma FOP_map {X Y} (f : X -> Y) (R : X -> X -> Prop) (Q : Y -> Y -> Prop) l :
  (forall x y, R x y -> Q (f x) (f y)) -> ForallOrdPairs R l -> ForallOrdPairs Q (map f l).
Proof.
  intros HRQ. induction 1 as [|a l Ha _ IH]; simpl; constructor; auto.
  rewrite Forall_forall in *. intros y Hy. apply in_map_iff in Hy. destruct Hy as (x & <- & Hx). auto.
Qed.

Lemma FOP_impl {X} (R Q : X -> X -> Prop) (P : X -> Prop) l :
  (forall x y, P x -> P y -> R x y -> Q x y) -> Forall P l -> ForallOrdPairs R l -> ForallOrdPairs Q l.
Proof.
  intros HRQ HP. induction 1 as [|a l Ha _ IH]; constructor.
  - inversion HP as [|? ? Pa Pl]; subst. rewrite Forall_forall in *. intros y Hy. apply HRQ; auto.
  - inversion HP; subst. auto.
Qed.

Lemma span_disj_sym w1 w2 : span_disj w1 w2 -> span_disj w2 w1.
Proof. unfold span_disj. tauto. Qed.

Lemma span_disj_excl w1 w2 a : span_disj w1 w2 -> in_span w1 a -> in_span w2 a -> False.
Proof. unfold span_disj, in_span. lia. Qed.

(* at most one span of a disjoint family contains a *)
Lemma span_unique ws a : ForallOrdPairs span_disj ws ->
  forall k1 k2 w1 w2, nth_error ws k1 = Some w1 -> nth_error ws k2 = Some w2 ->
  in_span w1 a -> in_span w2 a -> k1 = k2.
Proof.
  intros Hd k1 k2 w1 w2 H1 H2 S1 S2.
  destruct (Nat.lt_trichotomy k1 k2) as [Hlt|[Heq|Hgt]]; [exfalso|assumption|exfalso].
  - exact (span_disj_excl _ _ a (FOP_nth_lt _ _ Hd _ _ _ _ Hlt H1 H2) S1 S2).
  - exact (span_disj_excl _ _ a (FOP_nth_lt _ _ Hd _ _ _ _ Hgt H2 H1) S2 S1).
Qed.

(* ranges give spans *)
Lemma wf_range_sub aw w : wf_range aw w -> wf_sub aw w.
Proof. unfold wf_range, wf_sub. intros (H0 & H1 & H2 & H3 & H4). repeat split; auto; lia. Qed.

Lemma ranges_give_spans aw ws : Forall (wf_range aw) ws -> ForallOrdPairs range_disj ws ->
  Forall (wf_sub aw) ws /\ ForallOrdPairs span_disj ws.
Proof.
  intros Hw Hd. split.
  - eapply Forall_impl; [|exact Hw]. apply wf_range_sub.
  - apply (FOP_impl range_disj span_disj (wf_range aw)); auto.
    intros x y (Hx0 & _ & _ & Hx & _) (Hy0 & _ & _ & Hy & _). unfold range_disj, span_disj. lia.
Qed.

(* ---------- one window ---------- *)

(* The Case of an accepted window is taken exactly on its span. *)
Lemma sub_match_span aw w a : wf_sub aw w -> 0 <= a < 2 ^ aw ->
  pmatch (sub_pattern aw w) a = in_spanb w a.
Proof.
  intros Hwf Ha. pose proof (wf_sub_aw aw w Hwf) as Haw. pose proof (wf_sub_start aw w Hwf) as Hs.
  destruct Hwf as (_ & _ & Hm & _).
  pose proof (pattern_matches_aligned aw (s_aw w) (s_start w) a Haw Hs Hm Ha) as Hiff.
  unfold sub_pattern. destruct (in_spanb w a) eqn:E.
  - apply Hiff. apply in_spanb_iff in E. exact E.
  - destruct (pmatch _ a) eqn:Ep; [|reflexivity]. apply in_spanb_false in E. exfalso. apply E, Hiff. reflexivity.
Qed.

(* Truncating the address to the subordinate's width subtracts the window start. *)
Lemma trunc_in_span aw w a : wf_sub aw w -> in_span w a -> trunc (s_aw w) a = a - s_start w.
Proof.
  intros (H0 & H1 & Hm & _) (Hlo & Hhi). unfold trunc.
  pose proof (pow2_pos' (s_aw w) H0) as Hp.
  pose proof (Z.div_mod (s_start w) (2 ^ s_aw w) ltac:(lia)) as Hdm. rewrite Hm in Hdm.
  replace a with ((a - s_start w) + (s_start w / 2 ^ s_aw w) * 2 ^ s_aw w) at 1 by lia.
  rewrite Z_mod_plus_full. apply Z.mod_small. lia.
Qed.

Lemma sub_drive_addr aw w en i : wf_sub aw w -> addr (sub_drive aw w en i) = trunc (s_aw w) (addr i).
Proof. intros Hwf. pose proof (wf_sub_aw aw w Hwf). simpl. rewrite Z.min_l by lia. reflexivity. Qed.

Lemma pattern_len_ok aw w : wf_sub aw w -> Z.of_nat (length (sub_pattern aw w)) = aw.
Proof.
  intros Hwf. apply window_pattern_length; [apply (wf_sub_aw aw w Hwf) | apply (wf_sub_start aw w Hwf)].
Qed.

Lemma elab_ok_wf aw ws : Forall (wf_sub aw) ws -> elab_ok aw ws = true.
Proof.
  intros H. unfold elab_ok. apply forallb_forall. intros w Hw. rewrite Forall_forall in H.
  apply Z.eqb_eq, pattern_len_ok, H, Hw.
Qed.

(* ---------- one decoder, initiator to target ---------- *)

(* what the property requires subordinate w to see *)
Definition route (w : sub) (i : bus) : bus :=
  if in_spanb w (addr i)
  then {| addr := addr i - s_start w; r_stb := r_stb i; w_stb := w_stb i; w_data := w_data i |}
  else {| addr := trunc (s_aw w) (addr i); r_stb := false; w_stb := false; w_data := w_data i |}.

Lemma sub_drive_route aw w i : wf_sub aw w -> sub_drive aw w (in_spanb w (addr i)) i = route w i.
Proof.
  intros Hwf. pose proof (wf_sub_aw aw w Hwf) as Haw. unfold route, sub_drive. rewrite Z.min_l by lia.
  destruct (in_spanb w (addr i)) eqn:E; simpl; [|reflexivity].
  rewrite (trunc_in_span aw w (addr i) Hwf) by (apply in_spanb_iff; exact E). reflexivity.
Qed.

Lemma sub_drive_false_route aw w i : wf_sub aw w -> in_spanb w (addr i) = false ->
  sub_drive aw w false i = route w i.
Proof. intros Hwf E. rewrite <- (sub_drive_route aw w i Hwf), E. reflexivity. Qed.

(* first-match-wins over disjoint aligned windows = each window decides for itself *)
Lemma dec_down_from_spec aw i : 0 <= addr i < 2 ^ aw ->
  forall ws found, Forall (wf_sub aw) ws -> ForallOrdPairs span_disj ws ->
  (found = true -> Forall (fun w => in_spanb w (addr i) = false) ws) ->
  dec_down_from aw found ws i = map (fun w => route w i) ws.
Proof.
  intros Ha. induction ws as [|w ws IH]; intros found Hwf Hd Hf; [reflexivity|].
  inversion Hwf as [|? ? Hw Hws]; subst. inversion Hd as [|? ? Hdw Hdws]; subst.
  cbn [dec_down_from map]. rewrite (sub_match_span aw w (addr i) Hw Ha).
  f_equal.
  - destruct found; cbn [negb andb].
    + specialize (Hf eq_refl). inversion Hf as [|? ? Hz _]; subst.
      apply sub_drive_false_route; assumption.
    + apply sub_drive_route; assumption.
  - apply IH; auto. intros Hor. apply orb_true_iff in Hor. destruct Hor as [->|Hin].
    + specialize (Hf eq_refl). inversion Hf; subst; assumption.
    + rewrite Forall_forall in *. intros w' Hw'. apply in_spanb_false. intros Hin'.
      apply in_spanb_iff in Hin. exact (span_disj_excl _ _ _ (Hdw w' Hw') Hin Hin').
Qed.

Lemma dec_down_spec aw ws i : Forall (wf_sub aw) ws -> ForallOrdPairs span_disj ws ->
  0 <= addr i < 2 ^ aw -> dec_down aw ws i = map (fun w => route w i) ws.
Proof. intros Hwf Hd Ha. apply dec_down_from_spec; auto. discriminate. Qed.

(* DESIGN §5 C06: route_exactly_one, spelled out per subordinate *)
Lemma route_exactly_one aw ws i : Forall (wf_sub aw) ws -> ForallOrdPairs span_disj ws ->
  0 <= addr i < 2 ^ aw ->
  length (dec_down aw ws i) = length ws /\
  (forall k w, nth_error ws k = Some w ->
     exists o, nth_error (dec_down aw ws i) k = Some o /\
       w_data o = w_data i /\ addr o = trunc (s_aw w) (addr i) /\
       (in_span w (addr i) -> r_stb o = r_stb i /\ w_stb o = w_stb i /\ addr o = addr i - s_start w) /\
       (~ in_span w (addr i) -> r_stb o = false /\ w_stb o = false)) /\
  (forall k1 k2 w1 w2, nth_error ws k1 = Some w1 -> nth_error ws k2 = Some w2 ->
     in_span w1 (addr i) -> in_span w2 (addr i) -> k1 = k2).
Proof.
  intros Hwf Hd Ha. rewrite dec_down_spec by assumption. split; [apply map_length|]. split.
  - intros k w Hk. exists (route w i). split; [exact (map_nth_error (fun w => route w i) k ws Hk)|].
    assert (Hw : wf_sub aw w) by (rewrite Forall_forall in Hwf; eapply Hwf, nth_error_In; eassumption).
    unfold route. destruct (in_spanb w (addr i)) eqn:E; cbn [w_data addr r_stb w_stb].
    + apply in_spanb_iff in E. split; [reflexivity|].
      split; [symmetry; eapply trunc_in_span; eassumption|].
      split; [intros _; auto | intros Hn; contradiction].
    + apply in_spanb_false in E. split; [reflexivity|]. split; [reflexivity|].
      split; [intros Hin; contradiction | intros _; auto].
  - apply span_unique; assumption.
Qed.

(* ---------- one decoder, target to initiator ---------- *)

Lemma fold_lor_acc rs : forall acc, fold_left Z.lor rs acc = Z.lor acc (fold_left Z.lor rs 0).
Proof.
  induction rs as [|r rs IH]; intros acc; simpl.
  - rewrite Z.lor_0_r. reflexivity.
  - rewrite (IH (Z.lor acc r)), (IH r), Z.lor_assoc. reflexivity.
Qed.

Lemma dec_up_cons r rs : dec_up (r :: rs) = Z.lor r (dec_up rs).
Proof. unfold dec_up. simpl. apply fold_lor_acc. Qed.

Lemma dec_up_app l1 l2 : dec_up (l1 ++ l2) = Z.lor (dec_up l1) (dec_up l2).
Proof.
  induction l1 as [|r l1 IH]; simpl.
  - reflexivity.
  - rewrite !dec_up_cons, IH, Z.lor_assoc. reflexivity.
Qed.

Lemma dec_up_zero rs : (forall x, In x rs -> x = 0) -> dec_up rs = 0.
Proof.
  induction rs as [|r rs IH]; intros H; [reflexivity|].
  rewrite dec_up_cons, IH by (intros; apply H; simpl; auto).
  rewrite (H r) by (simpl; auto). reflexivity.
Qed.

Lemma dec_up_one_hot : forall rs k r, nth_error rs k = Some r ->
  (forall j x, j <> k -> nth_error rs j = Some x -> x = 0) -> dec_up rs = r.
Proof.
  induction rs as [|r0 rs IH]; intros k r Hk Hz; [destruct k; discriminate|].
  rewrite dec_up_cons. destruct k as [|k]; simpl in Hk.
  - injection Hk as ->. rewrite dec_up_zero; [apply Z.lor_0_r|].
    intros x Hx. apply In_nth_error in Hx. destruct Hx as (j & Hj). apply (Hz (S j) x); [lia|exact Hj].
  - rewrite (Hz 0%nat r0) by (simpl; auto). rewrite Z.lor_0_l.
    apply (IH k r Hk). intros j x Hne Hj. apply (Hz (S j) x); [lia|exact Hj].
Qed.

(* DESIGN §5 C06: read_mux *)
Lemma read_mux ws a rs : ForallOrdPairs span_disj ws -> length rs = length ws ->
  (forall k w r, nth_error ws k = Some w -> nth_error rs k = Some r -> ~ in_span w a -> r = 0) ->
  (forall k w r, nth_error ws k = Some w -> nth_error rs k = Some r -> in_span w a -> dec_up rs = r) /\
  ((forall w, In w ws -> ~ in_span w a) -> dec_up rs = 0).
Proof.
  intros Hd Hlen Hidle. split.
  - intros k w r Hk Hr Hin. apply (dec_up_one_hot rs k r Hr). intros j x Hne Hj.
    destruct (nth_error ws j) as [wj|] eqn:Ewj.
    + apply (Hidle j wj x Ewj Hj). intros Hin'. apply Hne. exact (span_unique ws a Hd _ _ _ _ Ewj Hk Hin' Hin).
    + apply nth_error_None in Ewj. assert (nth_error rs j <> None) by congruence.
      apply nth_error_Some in H. lia.
  - intros Hnone. apply dec_up_zero. intros x Hx. apply In_nth_error in Hx. destruct Hx as (j & Hj).
    destruct (nth_error ws j) as [wj|] eqn:Ewj.
    + apply (Hidle j wj x Ewj Hj). apply Hnone. eapply nth_error_In; eassumption.
    + apply nth_error_None in Ewj. assert (nth_error rs j <> None) by congruence.
      apply nth_error_Some in H. lia.
Qed.

(* ---------- trees of decoders ---------- *)

Scheme tree_mut := Induction for tree Sort Prop
  with forest_mut := Induction for forest Sort Prop.

(* a leaf port as seen from the root of a (sub)tree: offset of its span, its width, its id *)
Record leaf := { l_off : Z; l_aw : Z; l_id : nat }.

Definition shift (s : Z) (l : leaf) : leaf := {| l_off := s + l_off l; l_aw := l_aw l; l_id := l_id l |}.

Fixpoint leaves (t : tree) : list leaf :=
  match t with
  | Leaf aw id => [{| l_off := 0; l_aw := aw; l_id := id |}]
  | Node _ f => fleaves f
  end
with fleaves (f : forest) : list leaf :=
  match f with
  | FNil => []
  | FCons s _ t f' => map (shift s) (leaves t) ++ fleaves f'
  end.

Definition in_leaf (l : leaf) (a : Z) : Prop := l_off l <= a < l_off l + 2 ^ l_aw l.
Definition in_leafb (l : leaf) (a : Z) : bool := (l_off l <=? a) && (a <? l_off l + 2 ^ l_aw l).
Definition leaf_disj (l1 l2 : leaf) : Prop :=
  l_off l1 + 2 ^ l_aw l1 <= l_off l2 \/ l_off l2 + 2 ^ l_aw l2 <= l_off l1.
Definition leaf_inside (lo hi : Z) (l : leaf) : Prop := lo <= l_off l /\ l_off l + 2 ^ l_aw l <= hi.

Lemma in_leafb_iff l a : in_leafb l a = true <-> in_leaf l a.
Proof. unfold in_leafb, in_leaf. rewrite andb_true_iff, Z.leb_le, Z.ltb_lt. reflexivity. Qed.

(* every decoder of the tree has windows as the memory map makes them *)
Fixpoint wf_tree (t : tree) : Prop :=
  match t with
  | Leaf aw _ => 0 <= aw
  | Node aw f => wf_forest aw f /\ ForallOrdPairs span_disj (subs_of f)
  end
with wf_forest (aw : Z) (f : forest) : Prop :=
  match f with
  | FNil => True
  | FCons s e t f' => wf_sub aw (win_of s e t) /\ wf_tree t /\ wf_forest aw f'
  end.

Lemma wf_forest_subs aw f : wf_forest aw f -> Forall (wf_sub aw) (subs_of f).
Proof. induction f as [|s e t f IH]; simpl; intros H; constructor; tauto. Qed.

(* leaf spans lie inside the subtree's address space *)
Lemma leaves_inside_mut :
  (forall t, wf_tree t -> Forall (leaf_inside 0 (2 ^ tree_aw t)) (leaves t)) /\
  (forall f aw, wf_forest aw f -> Forall (leaf_inside 0 (2 ^ aw)) (fleaves f)).
Proof.
  set (P := fun t => wf_tree t -> Forall (leaf_inside 0 (2 ^ tree_aw t)) (leaves t)).
  set (Q := fun f => forall aw, wf_forest aw f -> Forall (leaf_inside 0 (2 ^ aw)) (fleaves f)).
  assert (HL : forall aw id, P (Leaf aw id)).
  { intros aw id Hwf. simpl in *. constructor; [|constructor]. unfold leaf_inside; simpl; lia. }
  assert (HN : forall aw f, Q f -> P (Node aw f)).
  { intros aw f IHf (Hwf & _). simpl. apply IHf. exact Hwf. }
  assert (HE : Q FNil) by (intros aw _; simpl; constructor).
  assert (HC : forall s e t, P t -> forall f, Q f -> Q (FCons s e t f)).
  { intros s e t IHt f IHf aw (Hw & Ht & Hf). simpl. apply Forall_app. split; [|apply IHf; exact Hf].
    specialize (IHt Ht). rewrite Forall_forall in *. intros l Hl. apply in_map_iff in Hl.
    destruct Hl as (l0 & <- & Hl0). specialize (IHt l0 Hl0).
    destruct Hw as (H0 & H1 & _ & H3). unfold leaf_inside, shift, win_of in *. simpl in *. lia. }
  split; [exact (tree_mut P Q HL HN HE HC) | exact (forest_mut P Q HL HN HE HC)].
Qed.

Lemma leaves_inside t : wf_tree t -> Forall (leaf_inside 0 (2 ^ tree_aw t)) (leaves t).
Proof. apply leaves_inside_mut. Qed.

(* leaves of a window lie inside the window's span *)
Lemma shifted_inside s t : wf_tree t ->
  Forall (leaf_inside s (s + 2 ^ tree_aw t)) (map (shift s) (leaves t)).
Proof.
  intros Ht. pose proof (leaves_inside t Ht) as H. rewrite Forall_forall in *. intros l Hl.
  apply in_map_iff in Hl. destruct Hl as (l0 & <- & Hl0). specialize (H l0 Hl0).
  unfold leaf_inside, shift in *; simpl in *. lia.
Qed.

Lemma fleaves_inside_subs : forall f aw, wf_forest aw f ->
  forall l, In l (fleaves f) -> exists w, In w (subs_of f) /\ leaf_inside (s_start w) (s_start w + 2 ^ s_aw w) l.
Proof.
  induction f as [|s e t f IH]; simpl; intros aw Hwf l Hl; [contradiction|].
  destruct Hwf as (Hw & Ht & Hf). apply in_app_or in Hl. destruct Hl as [Hl|Hl].
  - exists (win_of s e t). split; [auto|]. pose proof (shifted_inside s t Ht) as H.
    rewrite Forall_forall in H. exact (H l Hl).
  - destruct (IH aw Hf l Hl) as (w & Hin & Hi). exists w. auto.
Qed.

(* leaf spans of a well-formed tree are pairwise disjoint *)
Lemma leaves_disjoint_mut :
  (forall t, wf_tree t -> ForallOrdPairs leaf_disj (leaves t)) /\
  (forall f aw, wf_forest aw f -> ForallOrdPairs span_disj (subs_of f) -> ForallOrdPairs leaf_disj (fleaves f)).
Proof.
  set (P := fun t => wf_tree t -> ForallOrdPairs leaf_disj (leaves t)).
  set (Q := fun f => forall aw, wf_forest aw f -> ForallOrdPairs span_disj (subs_of f) ->
                     ForallOrdPairs leaf_disj (fleaves f)).
  assert (HL : forall aw id, P (Leaf aw id)).
  { intros aw id Hwf. simpl. constructor; constructor. }
  assert (HN : forall aw f, Q f -> P (Node aw f)).
  { intros aw f IHf (Hwf & Hd). simpl. apply (IHf aw); assumption. }
  assert (HE : Q FNil) by (intros aw _ _; simpl; constructor).
  assert (HC : forall s e t, P t -> forall f, Q f -> Q (FCons s e t f)).
  { intros s e t IHt f IHf aw (Hw & Ht & Hf) Hd. simpl in *.
    inversion Hd as [|? ? Hdw Hdf]; subst.
    apply FOP_app; [| apply (IHf aw); assumption |].
    - apply (FOP_map (shift s) leaf_disj leaf_disj); [|apply IHt; exact Ht].
      intros x y. unfold leaf_disj, shift. simpl. lia.
    - intros x y Hx Hy.
      pose proof (shifted_inside s t Ht) as Hin. rewrite Forall_forall in Hin. specialize (Hin x Hx).
      destruct (fleaves_inside_subs f aw Hf y Hy) as (w & Hwin & Hyin).
      rewrite Forall_forall in Hdw. specialize (Hdw w Hwin).
      unfold span_disj, leaf_inside, leaf_disj, win_of in *. simpl in *. lia. }
  split; [exact (tree_mut P Q HL HN HE HC) | exact (forest_mut P Q HL HN HE HC)].
Qed.

Lemma leaves_disjoint t : wf_tree t -> ForallOrdPairs leaf_disj (leaves t).
Proof. apply leaves_disjoint_mut. Qed.

Lemma leaf_unique t a : wf_tree t ->
  forall k1 k2 l1 l2, nth_error (leaves t) k1 = Some l1 -> nth_error (leaves t) k2 = Some l2 ->
  in_leaf l1 a -> in_leaf l2 a -> k1 = k2.
Proof.
  intros Hwf k1 k2 l1 l2 H1 H2 S1 S2. pose proof (leaves_disjoint t Hwf) as Hd.
  destruct (Nat.lt_trichotomy k1 k2) as [Hlt|[Heq|Hgt]]; [exfalso|assumption|exfalso].
  - pose proof (FOP_nth_lt _ _ Hd _ _ _ _ Hlt H1 H2) as D. unfold leaf_disj, in_leaf in *. lia.
  - pose proof (FOP_nth_lt _ _ Hd _ _ _ _ Hgt H2 H1) as D. unfold leaf_disj, in_leaf in *. lia.
Qed.

(* what the property requires leaf l to see when the root bus carries i *)
Definition leaf_ok (i : bus) (l : leaf) (o : bus) : Prop :=
  w_data o = w_data i /\
  (in_leaf l (addr i) -> r_stb o = r_stb i /\ w_stb o = w_stb i /\ addr o = addr i - l_off l) /\
  (~ in_leaf l (addr i) -> r_stb o = false /\ w_stb o = false).

(* one level of composition: what a leaf sees below window w, re-expressed at the decoder's bus *)
Lemma leaf_ok_shift aw w i l o : wf_sub aw w -> leaf_inside 0 (2 ^ s_aw w) l ->
  leaf_ok (route w i) l o -> leaf_ok i (shift (s_start w) l) o.
Proof.
  intros Hw (Hlo & Hhi) (Hd & Hin & Hout). unfold leaf_ok, in_leaf, route, shift in *.
  destruct (in_spanb w (addr i)) eqn:E; cbn [addr r_stb w_stb w_data l_off l_aw l_id] in *.
  - apply in_spanb_iff in E. unfold in_span in E.
    split; [exact Hd|]. split.
    + intros Hi. destruct Hin as (A & B & C); [lia|]. rewrite A, B, C. repeat split; lia.
    + intros Hi. apply Hout. lia.
  - apply in_spanb_false in E. unfold in_span in E.
    split; [exact Hd|]. split.
    + intros Hi. exfalso. apply E. lia.
    + intros _.
      destruct (Z_le_dec (l_off l) (trunc (s_aw w) (addr i))) as [Hle|Hgt];
        [destruct (Z_lt_dec (trunc (s_aw w) (addr i)) (l_off l + 2 ^ l_aw l)) as [Hlt|Hge]|].
      * destruct Hin as (A & B & _); [lia|]. auto.
      * apply Hout. lia.
      * apply Hout. lia.
Qed.

Lemma Forall2_leaf_ok_shift aw w i ls outs : wf_sub aw w ->
  Forall (leaf_inside 0 (2 ^ s_aw w)) ls -> Forall2 (leaf_ok (route w i)) ls outs ->
  Forall2 (leaf_ok i) (map (shift (s_start w)) ls) outs.
Proof.
  intros Hw Hins HF. induction HF as [|l o ls outs Hlo _ IH]; simpl; constructor.
  - inversion Hins; subst. eapply leaf_ok_shift; eassumption.
  - inversion Hins; subst. apply IH. assumption.
Qed.

(* composition of route_exactly_one with itself, any depth *)
Lemma tree_route_mut :
  (forall t, wf_tree t -> forall i, 0 <= addr i < 2 ^ tree_aw t -> Forall2 (leaf_ok i) (leaves t) (tree_down t i)) /\
  (forall f aw, wf_forest aw f -> forall i found, 0 <= addr i < 2 ^ aw ->
     ForallOrdPairs span_disj (subs_of f) ->
     (found = true -> Forall (fun w => in_spanb w (addr i) = false) (subs_of f)) ->
     Forall2 (leaf_ok i) (fleaves f) (forest_down aw found f i)).
Proof.
  set (P := fun t => wf_tree t -> forall i, 0 <= addr i < 2 ^ tree_aw t ->
                     Forall2 (leaf_ok i) (leaves t) (tree_down t i)).
  set (Q := fun f => forall aw, wf_forest aw f -> forall i found, 0 <= addr i < 2 ^ aw ->
     ForallOrdPairs span_disj (subs_of f) ->
     (found = true -> Forall (fun w => in_spanb w (addr i) = false) (subs_of f)) ->
     Forall2 (leaf_ok i) (fleaves f) (forest_down aw found f i)).
  assert (HL : forall aw id, P (Leaf aw id)).
  { intros aw id Hwf i Ha. simpl. constructor; [|constructor].
    unfold leaf_ok, in_leaf. simpl in *. split; [reflexivity|]. split.
    - intros _. repeat split; lia.
    - intros Hn. exfalso. apply Hn. lia. }
  assert (HN : forall aw f, Q f -> P (Node aw f)).
  { intros aw f IHf (Hwf & Hd) i Ha. simpl in *. apply (IHf aw); auto. discriminate. }
  assert (HE : Q FNil).
  { intros aw _ i found _ _ _. simpl. constructor. }
  assert (HC : forall s e t, P t -> forall f, Q f -> Q (FCons s e t f)).
  { intros s e t IHt f IHf aw (Hw & Ht & Hf) i found Ha Hd Hfound. simpl in *.
    inversion Hd as [|? ? Hdw Hdf]; subst.
    set (w := win_of s e t) in *.
    rewrite (sub_match_span aw w (addr i) Hw Ha).
    apply Forall2_app.
    - (* the leaves below this window *)
      assert (Hen : negb found && in_spanb w (addr i) = in_spanb w (addr i)).
      { destruct found; [|reflexivity]. specialize (Hfound eq_refl). inversion Hfound; subst. simpl. congruence. }
      rewrite Hen, (sub_drive_route aw w i Hw).
      pose proof (leaves_inside t Ht) as Hins.
      assert (Hra : 0 <= addr (route w i) < 2 ^ tree_aw t).
      { unfold route. destruct (in_spanb w (addr i)) eqn:E; cbn [addr].
        - apply in_spanb_iff in E. unfold in_span in E. change (s_start w) with s in *.
          change (s_aw w) with (tree_aw t) in *. lia.
        - apply trunc_range. destruct Hw as (H0 & _). exact H0. }
      specialize (IHt Ht (route w i) Hra).
      exact (Forall2_leaf_ok_shift aw w i (leaves t) _ Hw Hins IHt).
    - (* the other windows *)
      apply IHf; auto.
      intros Hor. apply orb_true_iff in Hor. destruct Hor as [->|Hin].
      + specialize (Hfound eq_refl). inversion Hfound; subst; assumption.
      + rewrite Forall_forall in *. intros w' Hw'. apply in_spanb_false. intros Hin'.
        apply in_spanb_iff in Hin. exact (span_disj_excl _ _ _ (Hdw w' Hw') Hin Hin'). }
  split.
  - exact (tree_mut P Q HL HN HE HC).
  - exact (forest_mut P Q HL HN HE HC).
Qed.

Lemma tree_route t i : wf_tree t -> 0 <= addr i < 2 ^ tree_aw t ->
  Forall2 (leaf_ok i) (leaves t) (tree_down t i).
Proof. intros Hwf Ha. apply tree_route_mut; assumption. Qed.

Lemma Forall2_len {X Y} (R : X -> Y -> Prop) l1 l2 : Forall2 R l1 l2 -> length l1 = length l2.
Proof. induction 1; simpl; congruence. Qed.

(* the same, per leaf, with uniqueness of the addressed leaf *)
Lemma tree_route_full t i : wf_tree t -> 0 <= addr i < 2 ^ tree_aw t ->
  length (tree_down t i) = length (leaves t) /\
  (forall k l, nth_error (leaves t) k = Some l ->
     exists o, nth_error (tree_down t i) k = Some o /\
       w_data o = w_data i /\
       (in_leaf l (addr i) -> r_stb o = r_stb i /\ w_stb o = w_stb i /\ addr o = addr i - l_off l) /\
       (~ in_leaf l (addr i) -> r_stb o = false /\ w_stb o = false)) /\
  (forall k1 k2 l1 l2, nth_error (leaves t) k1 = Some l1 -> nth_error (leaves t) k2 = Some l2 ->
     in_leaf l1 (addr i) -> in_leaf l2 (addr i) -> k1 = k2).
Proof.
  intros Hwf Ha. pose proof (tree_route t i Hwf Ha) as HF. split; [|split].
  - symmetry. exact (Forall2_len _ _ _ HF).
  - clear Ha. induction HF as [|l o ls os Hlo _ IH]; intros k l' Hk; destruct k; simpl in *; try discriminate.
    + injection Hk as <-. exists o. split; [reflexivity|exact Hlo].
    + exact (IH k l' Hk).
  - exact (leaf_unique t (addr i) Hwf).
Qed.

(* r_data at the root is the OR of all leaves' r_data, whatever the tree *)
Lemma tree_up_flat_mut rd :
  (forall t, tree_up rd t = dec_up (map (fun l => rd (l_id l)) (leaves t))) /\
  (forall f, dec_up (forest_up rd f) = dec_up (map (fun l => rd (l_id l)) (fleaves f))).
Proof.
  set (P := fun t => tree_up rd t = dec_up (map (fun l => rd (l_id l)) (leaves t))).
  set (Q := fun f => dec_up (forest_up rd f) = dec_up (map (fun l => rd (l_id l)) (fleaves f))).
  assert (HL : forall aw id, P (Leaf aw id)).
  { intros aw id. unfold P. simpl. rewrite dec_up_cons. unfold dec_up. simpl. rewrite Z.lor_0_r. reflexivity. }
  assert (HN : forall aw f, Q f -> P (Node aw f)) by (intros aw f IH; exact IH).
  assert (HE : Q FNil) by reflexivity.
  assert (HC : forall s e t, P t -> forall f, Q f -> Q (FCons s e t f)).
  { intros s e t IHt f IHf. unfold P, Q in *. simpl. rewrite dec_up_cons, map_app, dec_up_app, IHt, IHf.
    rewrite map_map. reflexivity. }
  split; [exact (tree_mut P Q HL HN HE HC) | exact (forest_mut P Q HL HN HE HC)].
Qed.

Lemma tree_up_flat rd t : tree_up rd t = dec_up (map (fun l => rd (l_id l)) (leaves t)).
Proof. apply tree_up_flat_mut. Qed.

(* read_mux for a whole tree *)
Lemma tree_read_mux rd t a : wf_tree t ->
  (forall l, In l (leaves t) -> ~ in_leaf l a -> rd (l_id l) = 0) ->
  (forall l, In l (leaves t) -> in_leaf l a -> tree_up rd t = rd (l_id l)) /\
  ((forall l, In l (leaves t) -> ~ in_leaf l a) -> tree_up rd t = 0).
Proof.
  intros Hwf Hidle. rewrite tree_up_flat. split.
  - intros l Hl Hin. apply In_nth_error in Hl. destruct Hl as (k & Hk).
    apply (dec_up_one_hot _ k); [exact (map_nth_error (fun l => rd (l_id l)) k (leaves t) Hk)|].
    intros j x Hne Hj. rewrite nth_error_map in Hj.
    destruct (nth_error (leaves t) j) as [lj|] eqn:Ej; [|discriminate]. injection Hj as <-.
    apply Hidle; [eapply nth_error_In; eassumption|].
    intros Hin'. apply Hne. exact (leaf_unique t a Hwf _ _ _ _ Ej Hk Hin' Hin).
  - intros Hnone. apply dec_up_zero. intros x Hx. apply in_map_iff in Hx. destruct Hx as (l & <- & Hl). auto.
Qed.

(* well-formed trees elaborate *)
Lemma tree_elab_ok_mut :
  (forall t, wf_tree t -> tree_elab_ok t = true) /\
  (forall f aw, wf_forest aw f -> forest_elab_ok f = true).
Proof.
  set (P := fun t => wf_tree t -> tree_elab_ok t = true).
  set (Q := fun f => forall aw, wf_forest aw f -> forest_elab_ok f = true).
  assert (HL : forall aw id, P (Leaf aw id)) by (intros aw id _; reflexivity).
  assert (HN : forall aw f, Q f -> P (Node aw f)).
  { intros aw f IH (Hwf & _). simpl. rewrite (elab_ok_wf aw _ (wf_forest_subs aw f Hwf)), (IH aw Hwf). reflexivity. }
  assert (HE : Q FNil) by (intros aw _; reflexivity).
  assert (HC : forall s e t, P t -> forall f, Q f -> Q (FCons s e t f)).
  { intros s e t IHt f IHf aw (_ & Ht & Hf). simpl. rewrite (IHt Ht), (IHf aw Hf). reflexivity. }
  split; [exact (tree_mut P Q HL HN HE HC) | exact (forest_mut P Q HL HN HE HC)].
Qed.

(* one decoder is the depth-1 tree *)
Fixpoint flat_forest (ws : list sub) (k : nat) : forest :=
  match ws with
  | [] => FNil
  | w :: ws' => FCons (s_start w) (s_stop w) (Leaf (s_aw w) k) (flat_forest ws' (S k))
  end.

Lemma flat_forest_down aw i : forall ws found k,
  forest_down aw found (flat_forest ws k) i = dec_down_from aw found ws i.
Proof.
  induction ws as [|w ws IH]; intros found k; simpl; [reflexivity|].
  unfold win_of. simpl. destruct w as [a s e]; simpl. rewrite IH. reflexivity.
Qed.

Lemma flat_tree_down aw ws i : tree_down (Node aw (flat_forest ws 0)) i = dec_down aw ws i.
Proof. simpl. apply flat_forest_down. Qed.
