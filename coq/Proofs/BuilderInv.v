(* Histories of csr.Builder calls (C17): every builder the API produces satisfies the invariant the
   layout theorems need; names are lexical scope paths; Cluster/Index blocks are balanced and their
   assert never fires; a frozen builder stays frozen and keeps its registers. *)
From Coq Require Import ZArith List Bool Lia ZifyBool Arith.
From Soc Require Import Lib.Res Lib.Bits Lib.PyList Model.MemoryMap Model.MemSpec Model.Builder
                        Model.BuilderSpec.
From Soc Require Import Proofs.MemNames Proofs.BuilderArith Proofs.BuilderMap.
Import ListNotations.
Open Scope Z_scope.

Local Opaque Z.pow Z.div Z.modulo.

(* ------------------------------------------------------------------ induction on call trees *)

Lemma run_op_scope b k body :
  run_op b (BScope k body) =
    match enter_scope b k with
    | Err e => (b, OScope (Err e) [] (Ok tt))
    | Ok (b1, p) =>
        let '(b2, obs) := run_ops b1 body in
        let '(b3, ex) := exit_scope b2 p in
        (b3, OScope (Ok tt) obs ex)
    end.
Proof. reflexivity. Qed.

Section BopInd.
  Variable P : bop -> Prop.
  Hypothesis Hadd : forall nm r off, P (BAdd nm r off).
  Hypothesis Hscope : forall k body, Forall P body -> P (BScope k body).
  Hypothesis Hfreeze : P BFreeze.
  Hypothesis Hmap : P BAsMap.

  Fixpoint bop_ind' (o : bop) : P o :=
    match o with
    | BAdd nm r off => Hadd nm r off
    | BScope k body =>
        Hscope k body ((fix go (l : list bop) : Forall P l :=
                          match l with
                          | [] => Forall_nil P
                          | x :: l' => Forall_cons x (bop_ind' x) (go l')
                          end) body)
    | BFreeze => Hfreeze
    | BAsMap => Hmap
    end.
End BopInd.

(* ------------------------------------------------------------------ add *)

Lemma badd_inv b nm r off b' : badd b nm r off = Ok b' ->
  exists id w o, r = RReg id w /\ bd_frozen b = false /\ valid_str nm = true /\
    (off = VNone /\ o = None \/
     exists z, off = VInt z /\ 0 <= z /\ z mod (bd_dw b / bd_gran b) = 0 /\ o = Some z) /\
    has_reg b id = false /\
    b' = set_regs b (bd_regs b ++ [{| b_id := id; b_width := w;
                                      b_name := bd_stack b ++ [PStr (atom_of nm)]; b_off := o |}]).
Proof.
  unfold badd. destruct r as [id w|]; [|discriminate]. intros H.
  apply bind_ok in H as (u1 & Hfr & H). apply check_ok in Hfr.
  apply bind_ok in H as (u2 & Hnm & H). apply check_ok in Hnm.
  apply bind_ok in H as (o & Ho & H).
  apply bind_ok in H as (u3 & Hhas & H). apply check_ok in Hhas.
  injection H as <-. exists id, w, o.
  split; [reflexivity|]. split; [destruct (bd_frozen b); [discriminate|reflexivity]|].
  split; [exact Hnm|]. split.
  - destruct off as [z| |].
    + right. apply bind_ok in Ho as (u4 & Hz & Ho). apply check_ok in Hz.
      apply bind_ok in Ho as (u5 & Hmod & Ho). apply check_ok in Hmod.
      injection Ho as <-. cbn [nonneg zof] in *. exists z. repeat split; lia.
    + left. injection Ho as <-. auto.
    + apply bind_ok in Ho as (u4 & Hz & _). apply check_ok in Hz. discriminate.
  - split; [destruct (has_reg b id); [discriminate|reflexivity]|reflexivity].
Qed.

Lemma has_reg_false b id : has_reg b id = false -> ~ In id (map b_id (bd_regs b)).
Proof.
  unfold has_reg. intros H Hin. apply in_map_iff in Hin as (x & Hx & Hin).
  assert (existsb (fun x => b_id x =? id) (bd_regs b) = true).
  { apply existsb_exists. exists x. split; [exact Hin|lia]. }
  congruence.
Qed.

Lemma NoDup_snoc {X} (l : list X) a : NoDup l -> ~ In a l -> NoDup (l ++ [a]).
Proof.
  intros Hl Ha. apply NoDup_app_remove_l with (l := []) || idtac.
  induction Hl as [|x l Hx Hl IH]; cbn [app].
  - constructor; [intros []|constructor].
  - constructor.
    + intros Hin. apply in_app_or in Hin as [Hin|[<-|[]]]; [exact (Hx Hin)|apply Ha; left; reflexivity].
    + apply IH. intros Hin. apply Ha. right. exact Hin.
Qed.

Lemma valid_str_atom nm : valid_str nm = true -> atom_of nm <> 0.
Proof. destruct nm as [a|]; cbn [valid_str atom_of]; [lia|discriminate]. Qed.

Lemma badd_binv b nm r off b' : binv b -> regarg_ok r = true -> badd b nm r off = Ok b' -> binv b'.
Proof.
  intros [Hg Hregs Hids Hst] Hr H.
  apply badd_inv in H as (id & w & o & -> & _ & Hnm & Ho & Hhas & ->).
  cbn [regarg_ok] in Hr.
  constructor; cbn [set_regs bd_regs bd_stack bd_aw bd_dw bd_gran].
  - destruct Hg. constructor; assumption.
  - apply Forall_app. split; [exact Hregs|]. constructor; [|constructor].
    unfold reg_ok. cbn [b_width b_name b_off bd_dw bd_gran set_regs].
    split; [lia|]. split; [intros E; apply app_eq_nil in E as (_ & E); discriminate|].
    split.
    + apply Forall_app. split; [exact Hst|]. constructor; [|constructor].
      cbn [part_ok]. apply valid_str_atom, Hnm.
    + destruct Ho as [(_ & ->)|(z & _ & Hz & Hm & ->)]; [exact I|auto].
  - rewrite map_app. cbn [map b_id]. apply NoDup_snoc; [exact Hids|apply has_reg_false, Hhas].
  - exact Hst.
Qed.

(* ------------------------------------------------------------------ blocks *)

Lemma enter_scope_eq b k :
  enter_scope b k =
    match scope_part k with
    | Some p => Ok (set_stack b (bd_stack b ++ [p]), p)
    | None => Err TypeError
    end.
Proof.
  destruct k as [nm|idx]; cbn [enter_scope scope_part].
  - destruct (valid_str nm); reflexivity.
  - destruct (nonneg idx); reflexivity.
Qed.

Lemma scope_part_ok k p : scope_part k = Some p -> part_ok p.
Proof.
  destruct k as [nm|idx]; cbn [scope_part].
  - destruct (valid_str nm) eqn:E; [|discriminate]. intros H; injection H as <-.
    cbn [part_ok]. apply valid_str_atom, E.
  - destruct idx as [z| |]; cbn [nonneg]; try discriminate.
    destruct (Z.leb_spec 0 z) as [Hz|Hz]; [|discriminate]. intros Hp; injection Hp as <-. cbn [part_ok zof]. lia.
Qed.

(* leaving a block whose part is on top of the stack pops it and the assert holds *)
Lemma exit_scope_top b s p : bd_stack b = s ++ [p] -> exit_scope b p = (set_stack b s, Ok tt).
Proof.
  intros H. unfold exit_scope. rewrite H.
  destruct (s ++ [p]) as [|x l] eqn:E; [destruct s; discriminate E|]. rewrite <- E.
  rewrite removelast_last, last_last, part_eqb_refl. reflexivity.
Qed.

(* ------------------------------------------------------------------ lexical reading of the stack *)

Lemma set_stack_set_stack b s1 s2 : set_stack (set_stack b s1) s2 = set_stack b s2.
Proof. reflexivity. Qed.
Lemma set_stack_same b : set_stack b (bd_stack b) = b.
Proof. destruct b; reflexivity. Qed.

Lemma leaf_step_set_stack b s l : leaf_step (set_stack b s) l = set_stack (leaf_step b l) s.
Proof.
  destruct l as [scope nm r off| |]; cbn [leaf_step]; [|reflexivity|reflexivity].
  rewrite set_stack_set_stack. destruct (badd (set_stack b scope) nm r off); reflexivity.
Qed.

Lemma fold_leaf_set_stack ls : forall b s,
  fold_left leaf_step ls (set_stack b s) = set_stack (fold_left leaf_step ls b) s.
Proof.
  induction ls as [|l ls IH]; intros b s; [reflexivity|].
  cbn [fold_left]. rewrite leaf_step_set_stack. apply IH.
Qed.

Lemma badd_keeps b nm r off b' : badd b nm r off = Ok b' ->
  bd_stack b' = bd_stack b /\ bd_frozen b' = bd_frozen b /\
  bd_aw b' = bd_aw b /\ bd_dw b' = bd_dw b /\ bd_gran b' = bd_gran b.
Proof. intros H. apply badd_inv in H as (id & w & o & _ & _ & _ & _ & _ & ->). repeat split. Qed.

Lemma leaf_step_keeps b l :
  bd_stack (leaf_step b l) = bd_stack b /\ bd_aw (leaf_step b l) = bd_aw b /\
  bd_dw (leaf_step b l) = bd_dw b /\ bd_gran (leaf_step b l) = bd_gran b /\
  (bd_frozen b = true -> bd_frozen (leaf_step b l) = true /\ bd_regs (leaf_step b l) = bd_regs b).
Proof.
  destruct l as [scope nm r off| |]; cbn [leaf_step]; [|repeat split..].
  destruct (badd (set_stack b scope) nm r off) as [b'|e] eqn:E; [|repeat split; auto].
  pose proof (badd_keeps _ _ _ _ _ E) as (H1 & H2 & H3 & H4 & H5).
  cbn [set_stack bd_stack bd_aw bd_dw bd_gran bd_frozen bd_regs] in *.
  repeat split; auto.
  all: apply badd_inv in E as (id & w & o & _ & Hfr & _); cbn [set_stack bd_frozen] in Hfr; congruence.
Qed.

Lemma fold_leaf_keeps ls : forall b,
  bd_stack (fold_left leaf_step ls b) = bd_stack b /\ bd_aw (fold_left leaf_step ls b) = bd_aw b /\
  bd_dw (fold_left leaf_step ls b) = bd_dw b /\ bd_gran (fold_left leaf_step ls b) = bd_gran b /\
  (bd_frozen b = true -> bd_frozen (fold_left leaf_step ls b) = true /\
                         bd_regs (fold_left leaf_step ls b) = bd_regs b).
Proof.
  induction ls as [|l ls IH]; intros b; [repeat split; auto|].
  cbn [fold_left]. destruct (IH (leaf_step b l)) as (H1 & H2 & H3 & H4 & H5).
  destruct (leaf_step_keeps b l) as (K1 & K2 & K3 & K4 & K5).
  rewrite H1, H2, H3, H4, K1, K2, K3, K4.
  split; [reflexivity|]. split; [reflexivity|]. split; [reflexivity|]. split; [reflexivity|].
  intros Hf. destruct (K5 Hf) as (K6 & K7). destruct (H5 K6) as (H6 & H7). split; congruence.
Qed.

Definition lexical (o : bop) : Prop :=
  forall b, fst (run_op b o) = fold_left leaf_step (flatten (bd_stack b) o) b /\
            clean (snd (run_op b o)) = true.

Lemma lexical_list l : Forall lexical l ->
  forall b, fst (run_ops b l) = fold_left leaf_step (flat_map (flatten (bd_stack b)) l) b /\
            forallb clean (snd (run_ops b l)) = true.
Proof.
  induction 1 as [|o l Ho Hl IH]; intros b; [split; reflexivity|].
  cbn [run_ops flat_map]. destruct (Ho b) as (H1 & H2).
  destruct (run_op b o) as [b' x]. cbn [fst snd] in H1, H2.
  destruct (IH b') as (H3 & H4). destruct (run_ops b' l) as [b'' xs]. cbn [fst snd] in *.
  rewrite fold_left_app, <- H1.
  assert (Hst : bd_stack b' = bd_stack b) by (rewrite H1; apply fold_leaf_keeps).
  rewrite Hst in H3. split; [exact H3|]. cbn [forallb]. rewrite H2, H4. reflexivity.
Qed.

Lemma run_op_lexical o : lexical o.
Proof.
  induction o as [nm r off|k body IH| |] using bop_ind'; intros b.
  - cbn [run_op flatten fold_left leaf_step]. rewrite set_stack_same.
    destruct (badd b nm r off) as [b'|e] eqn:E; cbn [fst snd clean]; split; auto.
    destruct (badd_keeps _ _ _ _ _ E) as (<- & _). rewrite set_stack_same. reflexivity.
  - rewrite run_op_scope, enter_scope_eq. cbn [flatten].
    destruct (scope_part k) as [p|]; [|split; reflexivity].
    pose proof (lexical_list body IH (set_stack b (bd_stack b ++ [p]))) as (H1 & H2).
    destruct (run_ops (set_stack b (bd_stack b ++ [p])) body) as [b2 obs]. cbn [fst snd] in H1, H2.
    cbn [set_stack bd_stack] in H1.
    assert (Hst : bd_stack b2 = bd_stack b ++ [p]).
    { rewrite H1. destruct (fold_leaf_keeps (flat_map (flatten (bd_stack b ++ [p])) body)
                                            (set_stack b (bd_stack b ++ [p]))) as (K & _).
      rewrite K. reflexivity. }
    rewrite (exit_scope_top b2 _ p Hst). cbn [fst snd clean]. split; [|exact H2].
    rewrite H1, fold_leaf_set_stack, set_stack_set_stack.
    rewrite <- (set_stack_same (fold_left _ _ b)) at 2.
    destruct (fold_leaf_keeps (flat_map (flatten (bd_stack b ++ [p])) body) b) as (K & _).
    rewrite K. reflexivity.
  - split; reflexivity.
  - split; reflexivity.
Qed.

(* names are lexical scope paths: running a call tree is the same as running its calls one by one,
   each add taking as name prefix the blocks that lexically enclose it; the stack is balanced, and
   neither the assert nor the pop of a block ever fails *)
Theorem run_ops_lexical ops b :
  fst (run_ops b ops) = fold_left leaf_step (flat_map (flatten (bd_stack b)) ops) b /\
  forallb clean (snd (run_ops b ops)) = true.
Proof. apply lexical_list. apply Forall_forall. intros o _. apply run_op_lexical. Qed.

(* ------------------------------------------------------------------ the invariant holds for every history *)

Lemma leaf_step_binv b l :
  binv b -> match l with LAdd scope _ r _ => Forall part_ok scope /\ regarg_ok r = true | _ => True end ->
  binv (leaf_step b l).
Proof.
  intros Hb Hl. destruct l as [scope nm r off| |]; cbn [leaf_step].
  - destruct Hl as (Hsc & Hr).
    destruct (badd (set_stack b scope) nm r off) as [b'|e] eqn:E; [|exact Hb].
    assert (Hb1 : binv (set_stack b scope)).
    { destruct Hb as [[? ? ? ?] ? ? ?]. constructor; [constructor|..]; assumption. }
    pose proof (badd_binv _ _ _ _ _ Hb1 Hr E) as [[? ? ? ?] ? ? ?].
    destruct Hb as [_ _ _ Hst].
    constructor; [constructor|..]; assumption.
  - apply binv_freeze, Hb.
  - apply binv_freeze, Hb.
Qed.

Lemma flatten_ok o : forall scope, Forall part_ok scope -> bop_ok o = true ->
  Forall (fun l => match l with LAdd sc _ r _ => Forall part_ok sc /\ regarg_ok r = true | _ => True end)
         (flatten scope o).
Proof.
  induction o as [nm r off|k body IH| |] using bop_ind'; intros scope Hsc Hok; cbn [flatten bop_ok] in *.
  - constructor; [auto|constructor].
  - destruct (scope_part k) as [p|] eqn:Ep; [|constructor].
    assert (Hsc' : Forall part_ok (scope ++ [p])).
    { apply Forall_app. split; [exact Hsc|]. constructor; [exact (scope_part_ok _ _ Ep)|constructor]. }
    revert Hok. induction IH as [|o l Ho Hl IHl]; intros Hok; cbn [flat_map forallb] in *; [constructor|].
    apply andb_true_iff in Hok as (Ho1 & Ho2).
    apply Forall_app. split; [apply Ho; assumption|apply IHl; assumption].
  - constructor; [exact I|constructor].
  - constructor; [exact I|constructor].
Qed.

Lemma fold_leaf_binv ls : forall b, binv b ->
  Forall (fun l => match l with LAdd sc _ r _ => Forall part_ok sc /\ regarg_ok r = true | _ => True end) ls ->
  binv (fold_left leaf_step ls b).
Proof.
  induction ls as [|l ls IH]; intros b Hb Hls; [exact Hb|].
  inversion Hls; subst. cbn [fold_left]. apply IH; [apply leaf_step_binv; assumption|assumption].
Qed.

Lemma run_ops_binv b ops : binv b -> forallb bop_ok ops = true -> binv (fst (run_ops b ops)).
Proof.
  intros Hb Hok. rewrite (proj1 (run_ops_lexical ops b)). apply fold_leaf_binv; [exact Hb|].
  revert Hok. induction ops as [|o ops IH]; intros Hok; cbn [flat_map forallb] in *; [constructor|].
  apply andb_true_iff in Hok as (H1 & H2).
  apply Forall_app. split; [apply flatten_ok; [apply (bi_stack _ Hb)|exact H1]|apply IH, H2].
Qed.

Lemma new_builder_binv aw dw g b : new_builder aw dw g = Ok b -> binv b.
Proof.
  unfold new_builder. intros H.
  apply bind_ok in H as (u1 & H1 & H). apply check_ok in H1.
  apply bind_ok in H as (u2 & H2 & H). apply check_ok in H2.
  apply bind_ok in H as (u3 & H3 & H). apply check_ok in H3.
  apply bind_ok in H as (u4 & H4 & H). apply check_ok in H4.
  injection H as <-.
  destruct aw as [a| |], dw as [d| |], g as [gr| |]; cbn [posint zof] in *; try discriminate.
  constructor; cbn [bd_aw bd_dw bd_gran bd_regs bd_stack]; [constructor; cbn [bd_aw bd_dw bd_gran]; lia|..];
    constructor.
Qed.

Theorem reachable_binv b : reachable_builder b -> binv b.
Proof.
  intros (aw & dw & g & b0 & ops & Hnew & Hok & ->).
  apply run_ops_binv; [exact (new_builder_binv _ _ _ _ Hnew)|exact Hok].
Qed.

(* ------------------------------------------------------------------ frozen builders *)

Theorem frozen_forever b ops : bd_frozen b = true ->
  bd_frozen (fst (run_ops b ops)) = true /\ bd_regs (fst (run_ops b ops)) = bd_regs b /\
  bd_aw (fst (run_ops b ops)) = bd_aw b /\ bd_dw (fst (run_ops b ops)) = bd_dw b /\
  bd_gran (fst (run_ops b ops)) = bd_gran b.
Proof.
  intros Hf. rewrite (proj1 (run_ops_lexical ops b)).
  destruct (fold_leaf_keeps (flat_map (flatten (bd_stack b)) ops) b) as (_ & H2 & H3 & H4 & H5).
  destruct (H5 Hf). auto.
Qed.

Lemma add_regs_ext b1 b2 l : bd_dw b1 = bd_dw b2 -> bd_gran b1 = bd_gran b2 ->
  forall m, add_regs b1 m l = add_regs b2 m l.
Proof.
  intros Hd Hg. induction l as [|r l IH]; intros m; [reflexivity|].
  cbn [add_regs]. unfold reg_size, reg_addr. rewrite Hd, Hg.
  destruct (add_resource _ _ _ _ _ _ _) as [[m' x]|e]; cbn [bind]; [apply IH|reflexivity].
Qed.

Lemma as_memory_map_ext b1 b2 :
  bd_aw b1 = bd_aw b2 -> bd_dw b1 = bd_dw b2 -> bd_gran b1 = bd_gran b2 -> bd_regs b1 = bd_regs b2 ->
  snd (as_memory_map b1) = snd (as_memory_map b2).
Proof.
  intros Ha Hd Hg Hr. unfold as_memory_map. cbn [snd bfreeze bd_aw bd_dw bd_regs].
  rewrite Ha, Hd, Hr. destruct (new_map _ _ _) as [m|e]; cbn [bind]; [|reflexivity].
  rewrite (add_regs_ext (bfreeze b1) (bfreeze b2)); [reflexivity|exact Hd|exact Hg].
Qed.

(* once frozen (by freeze() or by as_memory_map(), successful or not), whatever is called next, a
   later as_memory_map() gives the same answer *)
Theorem layout_stable b ops : bd_frozen b = true ->
  snd (as_memory_map (fst (run_ops b ops))) = snd (as_memory_map b).
Proof.
  intros Hf. destruct (frozen_forever b ops Hf) as (_ & Hr & Ha & Hd & Hg).
  apply as_memory_map_ext; assumption.
Qed.
