(* C10, clause atomic_through_mux: the Wishbone-to-CSR bridge composed with the CSR multiplexer
   (Model/BridgeMuxSpec.v).  The composite run is decomposed into a run of the bridge over the trace
   of inputs it actually sees and a run of the multiplexer over the list of inputs it actually sees;
   then Proofs/WbCsrBridge.v (transfer), Proofs/MuxWrite.v (write_atomic) and Proofs/MuxRead.v
   (read_atomic) are instantiated: the bridge's access sequence satisfies their premises. *)
From Coq Require Import ZArith List Bool Lia Arith ZifyBool.
From Soc Require Import Lib.Bits Model.WbCsrBridge Model.Mux Model.MuxSpec Model.BridgeMuxSpec.
From Soc Require Import Proofs.WbCsrBridge Proofs.MuxBasic Proofs.MuxRead Proofs.MuxWrite Proofs.MuxAssemble.
Import ListNotations.
Open Scope Z_scope.

Module BP := Soc.Proofs.WbCsrBridge.
Module MR := Soc.Proofs.MuxRead.
Module MW := Soc.Proofs.MuxWrite.

(* ------------------------------------------------------------------------------------------ *)
(* decomposition of the composite run                                                         *)
(* ------------------------------------------------------------------------------------------ *)

(* what the bridge / the multiplexer see in cycle t of the composite run *)
Definition btr (bc : B.cfg) (mc : M.cfg) (tr : nat -> cinp) : nat -> B.inp :=
  fun t => bridge_in mc (cstate_at bc mc tr t) (tr t).
Definition mtr (bc : B.cfg) (mc : M.cfg) (tr : nat -> cinp) : nat -> M.inp :=
  fun t => mux_in bc mc (cstate_at bc mc tr t) (tr t).
Definition mis (bc : B.cfg) (mc : M.cfg) (tr : nat -> cinp) (T : nat) : list M.inp :=
  map (mtr bc mc tr) (seq 0 T).

Lemma fst_cstate bc mc tr t : fst (cstate_at bc mc tr t) = B.state_at bc (btr bc mc tr) t.
Proof.
  induction t as [|t IH]; [reflexivity|].
  cbn [cstate_at B.state_at]. unfold cnext. cbn [fst]. rewrite IH. reflexivity.
Qed.

Lemma snd_cstate bc mc tr t :
  snd (cstate_at bc mc tr t) = M.state_after mc (M.init mc) (map (mtr bc mc tr) (seq 0 t)).
Proof.
  induction t as [|t IH]; [reflexivity|].
  rewrite seq_S, map_app. cbn [map]. rewrite state_after_app, <- IH. reflexivity.
Qed.

Lemma firstn_map_seq {A} (f : nat -> A) T : forall t, (t <= T)%nat ->
  firstn t (map f (seq 0 T)) = map f (seq 0 t).
Proof.
  induction T as [|T IH]; intros t Ht.
  - replace t with 0%nat by lia. reflexivity.
  - destruct (Nat.eq_dec t (S T)) as [->|Hne].
    + apply firstn_all2. rewrite map_length, seq_length. lia.
    + rewrite seq_S, map_app, firstn_app, map_length, seq_length.
      replace (t - T)%nat with 0%nat by lia. cbn [firstn]. rewrite app_nil_r. apply IH. lia.
Qed.

Lemma st_at_mis bc mc tr T t : (t <= T)%nat ->
  st_at mc (mis bc mc tr T) t = snd (cstate_at bc mc tr t).
Proof. intros Ht. unfold st_at, mis. rewrite firstn_map_seq by exact Ht. symmetry. apply snd_cstate. Qed.

Lemma nth_mis bc mc tr T t : (t < T)%nat -> nth_error (mis bc mc tr T) t = Some (mtr bc mc tr t).
Proof.
  intros Ht. unfold mis. apply map_nth_error.
  rewrite (nth_error_nth' _ 0%nat) by (rewrite seq_length; exact Ht). rewrite seq_nth by exact Ht. reflexivity.
Qed.

Lemma wb_out_is_out_at bc mc tr t : wb_out_at bc mc tr t = B.out_at bc (btr bc mc tr) t.
Proof. unfold wb_out_at, bridge_out, B.out_at. rewrite fst_cstate. reflexivity. Qed.

Lemma mtr_eq bc mc tr t : mtr bc mc tr t = mux_of (B.out_at bc (btr bc mc tr) t) (tr t).
Proof. unfold mtr, mux_in. f_equal. apply wb_out_is_out_at. Qed.

Lemma elem_out_eq bc mc tr t :
  elem_out_at bc mc tr t = M.out mc (snd (cstate_at bc mc tr t)) (mtr bc mc tr t).
Proof. reflexivity. Qed.

Lemma btr_r_data bc mc tr t : B.r_data (btr bc mc tr t) = M.bus_rdata mc (snd (cstate_at bc mc tr t)).
Proof. reflexivity. Qed.

(* the held-request premise only concerns the initiator's signals *)
Lemma req_held_btr bc mc tr t0 n : BP.req_held (wb_trace tr) t0 n -> BP.req_held (btr bc mc tr) t0 n.
Proof. intros H. exact H. Qed.

(* ------------------------------------------------------------------------------------------ *)
(* small facts                                                                                *)
(* ------------------------------------------------------------------------------------------ *)

(* an idle state is only entered from a cycle without CSR strobe *)
Lemma idle_no_prev_strobe c s i : BP.wf c -> BP.inv c s -> BP.idle (B.next c s i) ->
  B.o_r_stb (B.out c s i) = false /\ B.o_w_stb (B.out c s i) = false.
Proof.
  intros Hwf (Hc & Ha) (Hi1 & Hi2). pose proof (BP.ratio_pos c Hwf) as Hp.
  rewrite BP.out_spec by auto. cbn [B.o_r_stb B.o_w_stb].
  assert (E : BP.in_case c s i = false); [|rewrite E; auto].
  unfold BP.in_case. destruct (BP.act i) eqn:Eact; [|reflexivity].
  destruct (B.ack s) eqn:Eack.
  - specialize (Ha eq_refl). destruct (Z.ltb_spec (B.cycle s) (B.ratio c)); [lia|]. apply andb_false_r.
  - destruct (Z.eq_dec (B.cycle s) (B.ratio c)) as [E|Hne].
    + destruct (Z.ltb_spec (B.cycle s) (B.ratio c)); [lia|]. apply andb_false_r.
    + rewrite BP.next_case in Hi1 by (auto; lia). cbn [B.cycle] in Hi1. lia.
Qed.

Lemma lane_range c i z : 0 <= B.c_g c -> 0 <= B.lane c i z < 2 ^ B.c_g c.
Proof. intros Hg. unfold B.lane. apply slice_range. exact Hg. Qed.

Lemma word_range dw width j v : 0 < dw -> 0 <= M.word dw width j v < 2 ^ dw.
Proof.
  intros Hdw. unfold M.word. pose proof (pow2_pos dw ltac:(lia)) as Hp.
  destruct (Z.leb_spec (Z.min width ((j + 1) * dw)) (j * dw)) as [Hle|Hgt]; [lia|].
  pose proof (slice_range (j * dw) (Z.min width ((j + 1) * dw) - j * dw) v ltac:(lia)) as Hs.
  assert (Hm : 2 ^ (Z.min width ((j + 1) * dw) - j * dw) <= 2 ^ dw) by (apply Z.pow_le_mono_r; lia).
  lia.
Qed.

(* ------------------------------------------------------------------------------------------ *)
(* one held transfer through the composite                                                    *)
(* ------------------------------------------------------------------------------------------ *)

Section Through.
  Variable bc : B.cfg.
  Variable mc : M.cfg.
  Variable tr : nat -> cinp.
  Variable t0 : nat.
  Hypothesis Hwf : BP.wf bc.
  Hypothesis Hmwf : wf_cfg mc.
  Hypothesis Hfit : fits bc mc.
  Hypothesis Hidle : BP.idle (fst (cstate_at bc mc tr t0)).
  Hypothesis Hreq : BP.req_held (wb_trace tr) t0 (BP.nratio bc).
  Hypothesis Hword : word_in_range bc (x_adr (tr t0)).

  Notation R := (BP.nratio bc).
  Notation base := (x_adr (tr t0) * B.ratio bc).
  Notation bt := (btr bc mc tr).
  Notation mt := (mtr bc mc tr).

  Lemma Hidle' : BP.idle (B.state_at bc bt t0).
  Proof. rewrite <- fst_cstate. exact Hidle. Qed.

  Lemma Hreq' : BP.req_held bt t0 R.
  Proof. apply req_held_btr. exact Hreq. Qed.

  Lemma HR : Z.of_nat R = B.ratio bc.
  Proof. apply BP.nratio_eq. exact Hwf. Qed.

  Lemma addr_exact i : 0 <= i < B.ratio bc -> trunc (B.c_caw bc) (base + i) = base + i.
  Proof.
    intros Hi. destruct Hword as (Ha & Hb). apply trunc_small.
    assert (0 <= base) by (apply Z.mul_nonneg_nonneg; lia). lia.
  Qed.

  (* what the multiplexer sees while granule i is presented ... *)
  Lemma mt_granule i : (i < R)%nat ->
    mt (t0 + i)%nat =
      {| M.i_addr := base + Z.of_nat i;
         M.i_rstb := Z.testbit (x_sel (tr t0)) (Z.of_nat i) && negb (x_we (tr t0));
         M.i_wstb := Z.testbit (x_sel (tr t0)) (Z.of_nat i) && x_we (tr t0);
         M.i_wdata := B.lane bc (Z.of_nat i) (x_dat_w (tr t0));
         M.i_rvals := x_rvals (tr (t0 + i)%nat) |}.
  Proof.
    intros Hi. rewrite mtr_eq. unfold mux_of, B.out_at.
    destruct (BP.xfer_granule bc bt t0 Hwf Hidle' Hreq' i Hi) as (Ea & Er & Ew & Ed).
    rewrite Ea, Er, Ew, Ed. pose proof HR as HR.
    change (B.adr (bt t0)) with (x_adr (tr t0)). rewrite addr_exact by lia. reflexivity.
  Qed.

  (* ... in the cycle after the last granule ... *)
  Lemma mt_at_R : M.i_rstb (mt (t0 + R)%nat) = false /\ M.i_wstb (mt (t0 + R)%nat) = false.
  Proof.
    rewrite mtr_eq. unfold mux_of, B.out_at. cbn [M.i_rstb M.i_wstb].
    exact (BP.xfer_no_strobe_at_R bc bt t0 Hwf Hidle' Hreq').
  Qed.

  (* ... and in the acknowledge cycle (whatever the initiator does then) *)
  Lemma mt_at_R1 : M.i_rstb (mt (t0 + R + 1)%nat) = false /\ M.i_wstb (mt (t0 + R + 1)%nat) = false.
  Proof.
    rewrite mtr_eq. unfold mux_of, B.out_at. cbn [M.i_rstb M.i_wstb].
    destruct (BP.xfer_state_R1 bc bt t0 Hwf Hidle' Hreq') as (Ec & _).
    rewrite <- Nat.add_assoc.
    set (o := B.out bc _ _).
    assert (Hn : ~ (B.o_r_stb o = true \/ B.o_w_stb o = true)).
    { intros Hs. subst o. apply BP.no_stray_strobe in Hs; auto. lia. }
    destruct (B.o_r_stb o), (B.o_w_stb o); auto; exfalso; apply Hn; auto.
  Qed.

  (* the cycle before t0 (if any) carries no strobe either *)
  Lemma mt_before : forall t', t0 = S t' -> M.i_rstb (mt t') = false /\ M.i_wstb (mt t') = false.
  Proof.
    intros t' E. rewrite mtr_eq. unfold mux_of, B.out_at. cbn [M.i_rstb M.i_wstb].
    apply idle_no_prev_strobe; auto; [apply BP.state_inv; auto|].
    pose proof Hidle' as H. rewrite E in H. exact H.
  Qed.

  (* ---------------------------------------------------------------------------------------- *)
  (* a register inside the addressed word                                                     *)
  (* ---------------------------------------------------------------------------------------- *)
  Variable k : nat.
  Variable r : M.reg.
  Hypothesis Hk : nth_error (M.c_regs mc) k = Some r.
  Hypothesis Hinw : reg_in_word bc (x_adr (tr t0)) r.
  Hypothesis Hsel : reg_selected bc (x_adr (tr t0)) (x_sel (tr t0)) r.

  (* first granule of the register, and the granule after its last one, within the word *)
  Definition g_first : nat := Z.to_nat (M.r_start r - base).
  Definition g_end : nat := Z.to_nat (M.r_stop r - base).

  Lemma Hin : In r (M.c_regs mc).
  Proof. eapply nth_error_In; exact Hk. Qed.

  Lemma reg_nonempty : M.r_start r < M.r_stop r.
  Proof. destruct Hmwf as (_ & Hl & _). destruct (MR.layout_from_In _ _ _ Hl Hin) as (_ & H & _). exact H. Qed.

  Lemma g_bounds : Z.of_nat g_first = M.r_start r - base /\ Z.of_nat g_end = M.r_stop r - base /\
                   (g_first < g_end <= R)%nat.
  Proof.
    pose proof reg_nonempty as Hne. pose proof HR as HR. destruct Hinw as (H1 & H2).
    unfold g_first, g_end. lia.
  Qed.

  Lemma sel_granule i : (g_first <= i < g_end)%nat -> Z.testbit (x_sel (tr t0)) (Z.of_nat i) = true.
  Proof. intros Hi. destruct g_bounds as (E0 & E1 & _). apply Hsel. lia. Qed.

  (* ----- write ----- *)
  Section Write.
    Hypothesis Hwe : x_we (tr t0) = true.
    Hypothesis Hwr : M.r_wr r = true.

    Lemma wstb_port_S t : nth_error (M.o_wstb (elem_out_at bc mc tr (S t))) k = Some (M.wstb_next (mt t) r).
    Proof. rewrite elem_out_eq. cbn [cstate_at cnext snd]. apply w_strobe_next. exact Hk. Qed.

    Lemma wstb_exact j : (j <= R + 2)%nat ->
      nth_error (M.o_wstb (elem_out_at bc mc tr (t0 + j))) k = Some (j =? g_end)%nat.
    Proof.
      intros Hj. destruct g_bounds as (E0 & E1 & Hb). pose proof HR as HR.
      destruct j as [|j].
      - rewrite Nat.add_0_r. destruct (Nat.eqb_spec 0 g_end) as [E|_]; [lia|].
        destruct (Nat.eq_dec t0 0) as [Ez|Enz].
        + rewrite Ez. rewrite elem_out_eq. cbn [cstate_at cinit snd]. exact (w_strobe_init mc _ k r Hk).
        + assert (Es : t0 = S (pred t0)) by lia. rewrite Es. rewrite wstb_port_S.
          destruct (mt_before (pred t0) Es) as (_ & Ew). unfold M.wstb_next. rewrite Ew.
          rewrite andb_false_r. reflexivity.
      - rewrite Nat.add_succ_r, wstb_port_S. f_equal. unfold M.wstb_next. rewrite Hwr. cbn [andb].
        destruct (Nat.lt_ge_cases j R) as [Hlt|Hge].
        + rewrite (mt_granule j Hlt). cbn [M.i_wstb M.i_addr]. rewrite Hwe, andb_true_r.
          destruct (Nat.eqb_spec (S j) g_end) as [E|Hne].
          * rewrite sel_granule by lia. destruct (Z.eqb_spec (base + Z.of_nat j) (M.r_stop r - 1)); [reflexivity|lia].
          * destruct (Z.eqb_spec (base + Z.of_nat j) (M.r_stop r - 1)); [lia|]. apply andb_false_r.
        + destruct (Nat.eqb_spec (S j) g_end) as [E|_]; [lia|].
          assert (Ej : (j = R \/ j = R + 1)%nat) by lia.
          destruct Ej as [-> | ->]; [destruct mt_at_R as (_ & Ew)|rewrite Nat.add_assoc; destruct mt_at_R1 as (_ & Ew)];
            rewrite Ew; reflexivity.
    Qed.

    Lemma wdata_through :
      nth_error (M.o_wdata (elem_out_at bc mc tr (t0 + g_end))) k =
      Some (assemble (M.c_dw mc) (M.r_width r)
                     (fun j => B.lane bc (Z.of_nat g_first + j) (x_dat_w (tr t0)))
                     (Z.to_nat (reg_len r))).
    Proof.
      destruct g_bounds as (E0 & E1 & Hb). pose proof HR as HR.
      rewrite elem_out_eq, (o_wdata_nth mc _ _ k r Hk Hwr). f_equal.
      set (T := (t0 + R + 2)%nat).
      rewrite <- (st_at_mis bc mc tr T) by (unfold T; lia).
      replace (t0 + g_end)%nat with (S (t0 + (g_end - 1)))%nat by lia.
      assert (Hlast : mt (t0 + (g_end - 1))%nat =
                {| M.i_addr := M.r_stop r - 1; M.i_rstb := false; M.i_wstb := true;
                   M.i_wdata := B.lane bc (Z.of_nat (g_end - 1)) (x_dat_w (tr t0));
                   M.i_rvals := x_rvals (tr (t0 + (g_end - 1))%nat) |}).
      { rewrite mt_granule by lia. rewrite sel_granule by lia. rewrite Hwe. cbn [andb negb]. f_equal. lia. }
      apply (write_atomic mc (mis bc mc tr T) (t0 + (g_end - 1)) k r (mt (t0 + (g_end - 1))%nat)
               (fun j => (t0 + g_first + Z.to_nat j)%nat)); auto.
      - apply nth_mis. unfold T. lia.
      - rewrite Hlast. reflexivity.
      - rewrite Hlast. reflexivity.
      - intros j Hj _. unfold reg_len in Hj.
        split; [lia|]. split.
        + exists (mt (t0 + (g_first + Z.to_nat j))%nat).
          split; [rewrite Nat.add_assoc; apply nth_mis; unfold T; lia|].
          rewrite mt_granule by lia. cbn [M.i_wstb M.i_addr M.i_wdata].
          rewrite sel_granule by lia. rewrite Hwe.
          split; [reflexivity|]. split; [lia|].
          replace (Z.of_nat (g_first + Z.to_nat j)) with (Z.of_nat g_first + j) by lia.
          symmetry. apply trunc_small. rewrite <- Hfit. apply lane_range. apply Hwf.
        + intros u i Hu Hi (Hs & Ha).
          replace u with (t0 + (u - t0))%nat in Hi by lia.
          rewrite nth_mis in Hi by (unfold T; lia). injection Hi as <-.
          rewrite mt_granule in Ha by lia. cbn [M.i_addr] in Ha. lia.
      - intros j u Hj _ Hu (i & k' & r' & Hi & Hk' & Hne & Hwr' & Hs & Ha). unfold reg_len in Hj.
        replace u with (t0 + (u - t0))%nat in Hi by lia.
        rewrite nth_mis in Hi by (unfold T; lia). injection Hi as <-.
        rewrite mt_granule in Ha by lia. cbn [M.i_addr] in Ha.
        apply Hne. destruct Hmwf as (_ & Hl & _).
        apply (MR.layout_index_unique (M.c_regs mc) k' k r' r (base + Z.of_nat (u - t0)) Hl Hk' Hk); lia.
    Qed.
  End Write.

  (* ----- read ----- *)
  Section Read.
    Hypothesis Hre : x_we (tr t0) = false.
    Hypothesis Hrd : M.r_rd r = true.

    (* element.r_stb (the read side effect) is up in exactly one cycle of the transfer: the one in
       which the register's first granule is presented *)
    Lemma rstb_exact j : (j <= R + 1)%nat ->
      nth_error (M.o_rstb (elem_out_at bc mc tr (t0 + j))) k = Some (j =? g_first)%nat.
    Proof.
      intros Hj. destruct g_bounds as (E0 & E1 & Hb). pose proof HR as HR.
      rewrite elem_out_eq, (r_strobe_exact mc _ _ k r Hk). f_equal. rewrite Hrd. cbn [andb].
      destruct (Nat.lt_ge_cases j R) as [Hlt|Hge].
      - rewrite (mt_granule j Hlt). cbn [M.i_rstb M.i_addr]. rewrite Hre. cbn [negb]. rewrite andb_true_r.
        destruct (Nat.eqb_spec j g_first) as [E|Hne].
        + rewrite sel_granule by lia. destruct (Z.eqb_spec (base + Z.of_nat j) (M.r_start r)); [reflexivity|lia].
        + destruct (Z.eqb_spec (base + Z.of_nat j) (M.r_start r)); [lia|]. apply andb_false_r.
      - destruct (Nat.eqb_spec j g_first) as [E|_]; [lia|].
        assert (Ej : (j = R \/ j = R + 1)%nat) by lia.
        destruct Ej as [-> | ->]; [destruct mt_at_R as (Er & _)|rewrite Nat.add_assoc; destruct mt_at_R1 as (Er & _)];
          rewrite Er; reflexivity.
    Qed.

    (* the CSR read data the bridge samples for granule i of the register is word (i - g_first) of the
       value the register presented when its first granule was read *)
    Lemma rdata_granule i : (g_first <= i < g_end)%nat ->
      M.bus_rdata mc (snd (cstate_at bc mc tr (t0 + i + 1))) =
      M.word (M.c_dw mc) (M.r_width r) (Z.of_nat i - Z.of_nat g_first)
             (trunc (M.r_width r) (nth k (x_rvals (tr (t0 + g_first)%nat)) 0)).
    Proof.
      intros Hi. destruct g_bounds as (E0 & E1 & Hb). pose proof HR as HR.
      set (T := (t0 + R + 2)%nat).
      rewrite <- (st_at_mis bc mc tr T) by (unfold T; lia).
      replace (t0 + i + 1)%nat with (S (t0 + i)) by lia.
      change (bus_rdata mc (st_at mc (mis bc mc tr T) (S (t0 + i)))) with (rdata_at mc (mis bc mc tr T) (S (t0 + i))).
      assert (Hfirst : mt (t0 + g_first)%nat =
                {| M.i_addr := M.r_start r; M.i_rstb := true; M.i_wstb := false;
                   M.i_wdata := B.lane bc (Z.of_nat g_first) (x_dat_w (tr t0));
                   M.i_rvals := x_rvals (tr (t0 + g_first)%nat) |}).
      { rewrite mt_granule by lia. rewrite sel_granule by lia. rewrite Hre. cbn [andb negb]. f_equal. lia. }
      rewrite (read_atomic mc (mis bc mc tr T) (t0 + g_first) (t0 + i) k r (Z.of_nat i - Z.of_nat g_first)
                 (mt (t0 + g_first)%nat) (mt (t0 + i)%nat) Hmwf Hk Hrd).
      - unfold rval_at. rewrite nth_mis by (unfold T; lia). rewrite Hfirst. reflexivity.
      - apply nth_mis. unfold T. lia.
      - rewrite Hfirst. reflexivity.
      - rewrite Hfirst. reflexivity.
      - lia.
      - intros u Hu (iu & r' & Hiu & Hin' & Hrd' & Hs & Ha).
        replace u with (t0 + (u - t0))%nat in Hiu by lia.
        rewrite nth_mis in Hiu by (unfold T; lia). injection Hiu as <-.
        rewrite mt_granule in Ha by lia. cbn [M.i_addr] in Ha.
        destruct Hmwf as (_ & Hl & _).
        destruct (MR.layout_from_In _ _ _ Hl Hin') as (_ & Hne' & _).
        assert (Er : r' = r).
        { apply (MR.layout_In_unique (M.c_regs mc) r' r (base + Z.of_nat (u - t0)) Hl Hin' Hin); lia. }
        subst r'. lia.
      - apply nth_mis. unfold T. lia.
      - rewrite mt_granule by lia. cbn [M.i_rstb]. rewrite sel_granule by lia. rewrite Hre. reflexivity.
      - rewrite mt_granule by lia. cbn [M.i_addr]. lia.
      - unfold reg_len. lia.
    Qed.

    (* ... and that is what the Wishbone initiator finds in the register's lanes of dat_r in the
       acknowledge cycle *)
    Lemma read_through i : (g_first <= i < g_end)%nat ->
      B.lane bc (Z.of_nat i) (B.o_dat_r (wb_out_at bc mc tr (t0 + R + 1))) =
      M.word (M.c_dw mc) (M.r_width r) (Z.of_nat i - Z.of_nat g_first)
             (trunc (M.r_width r) (nth k (x_rvals (tr (t0 + g_first)%nat)) 0)).
    Proof.
      intros Hi. destruct g_bounds as (E0 & E1 & Hb).
      rewrite wb_out_is_out_at. unfold B.out_at. rewrite BP.out_dat_r.
      rewrite <- Nat.add_assoc.
      rewrite (BP.xfer_lanes bc bt t0 Hwf Hidle' Hreq' (R + 1)) by lia.
      rewrite btr_r_data, rdata_granule by exact Hi.
      apply trunc_small. rewrite Hfit. apply word_range. apply Hmwf.
    Qed.
  End Read.

  (* acknowledge timing of the composite's Wishbone side *)
  Lemma ack_through :
    (forall j, (j <= R)%nat -> B.o_ack (wb_out_at bc mc tr (t0 + j)) = false) /\
    B.o_ack (wb_out_at bc mc tr (t0 + R + 1)) = true /\
    BP.idle (fst (cstate_at bc mc tr (t0 + R + 2))).
  Proof.
    destruct (BP.transfer bc bt t0 Hwf Hidle' Hreq') as (_ & _ & Hno & Hyes & _ & _ & Hid).
    split; [intros j Hj; rewrite wb_out_is_out_at; auto|].
    split; [rewrite wb_out_is_out_at; auto|]. rewrite fst_cstate. exact Hid.
  Qed.
End Through.

(* ------------------------------------------------------------------------------------------ *)
(* atomic_through_mux                                                                         *)
(* ------------------------------------------------------------------------------------------ *)

(* WRITE.  gf / ge: index (within the word) of the register's first granule / of the granule after its
   last one.  The register's w_stb is up in cycle t0+ge and in no other cycle of [t0, t0+R+2]; ge <= R,
   so that is strictly before the acknowledge cycle t0+R+1; in that cycle its w_data is the
   concatenation of the dat_w lanes gf .. ge-1, clipped to the register's width. *)
Theorem atomic_write_through_mux bc mc tr t0 k r :
  BP.wf bc -> wf_cfg mc -> fits bc mc ->
  BP.idle (fst (cstate_at bc mc tr t0)) -> BP.req_held (wb_trace tr) t0 (BP.nratio bc) ->
  let x := tr t0 in
  let R := BP.nratio bc in
  word_in_range bc (x_adr x) ->
  nth_error (M.c_regs mc) k = Some r -> reg_in_word bc (x_adr x) r -> reg_selected bc (x_adr x) (x_sel x) r ->
  x_we x = true -> M.r_wr r = true ->
  let gf := Z.to_nat (M.r_start r - x_adr x * B.ratio bc) in
  let ge := Z.to_nat (M.r_stop r - x_adr x * B.ratio bc) in
  (Z.of_nat gf = M.r_start r - x_adr x * B.ratio bc /\ Z.of_nat ge = M.r_stop r - x_adr x * B.ratio bc /\
   (gf < ge <= R)%nat) /\
  (forall j, (j <= R + 2)%nat ->
     nth_error (M.o_wstb (elem_out_at bc mc tr (t0 + j))) k = Some (j =? ge)%nat) /\
  nth_error (M.o_wdata (elem_out_at bc mc tr (t0 + ge))) k =
    Some (assemble (M.c_dw mc) (M.r_width r) (fun j => B.lane bc (Z.of_nat gf + j) (x_dat_w x))
                   (Z.to_nat (reg_len r))) /\
  (forall j, (j <= R)%nat -> B.o_ack (wb_out_at bc mc tr (t0 + j)) = false) /\
  B.o_ack (wb_out_at bc mc tr (t0 + R + 1)) = true /\
  BP.idle (fst (cstate_at bc mc tr (t0 + R + 2))).
Proof.
  intros Hwf Hmwf Hfit Hidle Hreq x R Hword Hk Hinw Hsel Hwe Hwr gf ge. subst x R gf ge.
  split; [exact (g_bounds bc mc tr t0 Hwf Hmwf k r Hk Hinw)|].
  split; [intros j Hj; exact (wstb_exact bc mc tr t0 Hwf Hmwf Hidle Hreq Hword k r Hk Hinw Hsel Hwe Hwr j Hj)|].
  split; [exact (wdata_through bc mc tr t0 Hwf Hmwf Hfit Hidle Hreq Hword k r Hk Hinw Hsel Hwe Hwr)|].
  exact (ack_through bc mc tr t0 Hwf Hidle Hreq).
Qed.

(* READ.  The register's r_stb (its read side effect) is up in cycle t0+gf and in no other cycle of
   [t0, t0+R+1]; in the acknowledge cycle t0+R+1, lane i of dat_r, for every granule i of the
   register, is word i-gf of the value the register presented in cycle t0+gf - whatever it (or any
   other register) presents in any other cycle. *)
Theorem atomic_read_through_mux bc mc tr t0 k r :
  BP.wf bc -> wf_cfg mc -> fits bc mc ->
  BP.idle (fst (cstate_at bc mc tr t0)) -> BP.req_held (wb_trace tr) t0 (BP.nratio bc) ->
  let x := tr t0 in
  let R := BP.nratio bc in
  word_in_range bc (x_adr x) ->
  nth_error (M.c_regs mc) k = Some r -> reg_in_word bc (x_adr x) r -> reg_selected bc (x_adr x) (x_sel x) r ->
  x_we x = false -> M.r_rd r = true ->
  let gf := Z.to_nat (M.r_start r - x_adr x * B.ratio bc) in
  let ge := Z.to_nat (M.r_stop r - x_adr x * B.ratio bc) in
  (Z.of_nat gf = M.r_start r - x_adr x * B.ratio bc /\ Z.of_nat ge = M.r_stop r - x_adr x * B.ratio bc /\
   (gf < ge <= R)%nat) /\
  (forall j, (j <= R + 1)%nat ->
     nth_error (M.o_rstb (elem_out_at bc mc tr (t0 + j))) k = Some (j =? gf)%nat) /\
  (forall i, (gf <= i < ge)%nat ->
     B.lane bc (Z.of_nat i) (B.o_dat_r (wb_out_at bc mc tr (t0 + R + 1))) =
     M.word (M.c_dw mc) (M.r_width r) (Z.of_nat i - Z.of_nat gf)
            (trunc (M.r_width r) (nth k (x_rvals (tr (t0 + gf)%nat)) 0))) /\
  (forall j, (j <= R)%nat -> B.o_ack (wb_out_at bc mc tr (t0 + j)) = false) /\
  B.o_ack (wb_out_at bc mc tr (t0 + R + 1)) = true /\
  BP.idle (fst (cstate_at bc mc tr (t0 + R + 2))).
Proof.
  intros Hwf Hmwf Hfit Hidle Hreq x R Hword Hk Hinw Hsel Hre Hrd gf ge. subst x R gf ge.
  split; [exact (g_bounds bc mc tr t0 Hwf Hmwf k r Hk Hinw)|].
  split; [intros j Hj; exact (rstb_exact bc mc tr t0 Hwf Hmwf Hidle Hreq Hword k r Hk Hinw Hsel Hre Hrd j Hj)|].
  split; [intros i Hi; exact (read_through bc mc tr t0 Hwf Hmwf Hfit Hidle Hreq Hword k r Hk Hinw Hsel Hre Hrd i Hi)|].
  exact (ack_through bc mc tr t0 Hwf Hidle Hreq).
Qed.

(* ------------------------------------------------------------------------------------------ *)
(* closed form of the write data; a register that fills the word                              *)
(* ------------------------------------------------------------------------------------------ *)

(* the concatenation of lanes o, o+1, ... of z, clipped to `width`, is the width-bit field of z that
   starts at lane o (n lanes covering the width, as the memory map guarantees for its registers) *)
Lemma lanes_concat bc o width z n : 0 < B.c_g bc -> 0 <= o -> 0 <= width -> width <= Z.of_nat n * B.c_g bc ->
  assemble (B.c_g bc) width (fun j => B.lane bc (o + j) z) n = slice (o * B.c_g bc) width z.
Proof.
  intros Hg Ho Hw Hcov. apply Z.bits_inj'. intros b Hb.
  rewrite assemble_full_testbit by auto.
  assert (Ho' : 0 <= o * B.c_g bc) by (apply Z.mul_nonneg_nonneg; lia).
  rewrite slice_testbit by auto.
  destruct (Z.ltb_spec b width) as [Hlt|Hge]; [|reflexivity].
  pose proof (Z.div_mod b (B.c_g bc) ltac:(lia)) as Hdm.
  pose proof (Z.mod_pos_bound b (B.c_g bc) Hg) as Hm.
  assert (Hq : 0 <= b / B.c_g bc) by (apply Z.div_pos; lia).
  unfold B.lane. rewrite slice_testbit; [| apply Z.mul_nonneg_nonneg; lia | lia | lia].
  destruct (Z.ltb_spec (b mod B.c_g bc) (B.c_g bc)); [|lia]. f_equal. lia.
Qed.

(* the word contains exactly one register, which fills it, and every granule is selected *)
Definition fills_word (bc : B.cfg) (a : Z) (r : M.reg) : Prop :=
  M.r_start r = a * B.ratio bc /\ M.r_stop r = a * B.ratio bc + B.ratio bc.
Definition all_selected (bc : B.cfg) (sel : Z) : Prop :=
  forall i, 0 <= i < B.ratio bc -> Z.testbit sel i = true.

Lemma fills_in_word bc a r : fills_word bc a r -> reg_in_word bc a r.
Proof. intros (E0 & E1). unfold reg_in_word. lia. Qed.

Lemma all_reg_selected bc a sel r : fills_word bc a r -> all_selected bc sel -> reg_selected bc a sel r.
Proof. intros (E0 & E1) Hall i Hi. apply Hall. lia. Qed.

Theorem atomic_write_whole_word bc mc tr t0 k r :
  BP.wf bc -> wf_cfg mc -> fits bc mc ->
  BP.idle (fst (cstate_at bc mc tr t0)) -> BP.req_held (wb_trace tr) t0 (BP.nratio bc) ->
  let x := tr t0 in
  let R := BP.nratio bc in
  word_in_range bc (x_adr x) ->
  nth_error (M.c_regs mc) k = Some r -> fills_word bc (x_adr x) r -> all_selected bc (x_sel x) ->
  x_we x = true -> M.r_wr r = true -> M.r_width r <= B.ratio bc * M.c_dw mc ->
  (forall j, (j <= R + 2)%nat ->
     nth_error (M.o_wstb (elem_out_at bc mc tr (t0 + j))) k = Some (j =? R)%nat) /\
  nth_error (M.o_wdata (elem_out_at bc mc tr (t0 + R))) k = Some (trunc (M.r_width r) (x_dat_w x)) /\
  (forall j, (j <= R)%nat -> B.o_ack (wb_out_at bc mc tr (t0 + j)) = false) /\
  B.o_ack (wb_out_at bc mc tr (t0 + R + 1)) = true /\
  BP.idle (fst (cstate_at bc mc tr (t0 + R + 2))).
Proof.
  intros Hwf Hmwf Hfit Hidle Hreq x R Hword Hk Hfill Hall Hwe Hwr Hwidth.
  pose proof (atomic_write_through_mux bc mc tr t0 k r Hwf Hmwf Hfit Hidle Hreq Hword Hk
                (fills_in_word _ _ _ Hfill) (all_reg_selected _ _ _ _ Hfill Hall) Hwe Hwr) as H.
  cbv zeta in H. fold x in H. destruct Hfill as (E0 & E1). fold x in E0, E1.
  pose proof (BP.nratio_eq bc Hwf) as HR. fold R in HR.
  assert (Ege : Z.to_nat (M.r_stop r - x_adr x * B.ratio bc) = R) by lia.
  assert (Egf : Z.to_nat (M.r_start r - x_adr x * B.ratio bc) = 0%nat) by lia.
  rewrite Ege, Egf in H. destruct H as (_ & Hs & Hd & Ha).
  split; [exact Hs|]. split; [|exact Ha].
  rewrite Hd. f_equal.
  assert (Hg : 0 < B.c_g bc) by (rewrite Hfit; apply Hmwf).
  assert (Hw0 : 0 <= M.r_width r).
  { destruct Hmwf as (_ & Hl & _). apply nth_error_In in Hk.
    destruct (MR.layout_from_In _ _ _ Hl Hk) as (_ & _ & Hw0). exact Hw0. }
  rewrite <- Hfit. change (Z.of_nat 0) with 0.
  rewrite (lanes_concat bc 0 (M.r_width r) (x_dat_w x)); auto; try lia.
  - unfold slice. rewrite Z.mul_0_l, Z.pow_0_r, Z.div_1_r. reflexivity.
  - unfold reg_len. rewrite Hfit. rewrite Z2Nat.id by lia. nia.
Qed.

Theorem atomic_read_whole_word bc mc tr t0 k r :
  BP.wf bc -> wf_cfg mc -> fits bc mc ->
  BP.idle (fst (cstate_at bc mc tr t0)) -> BP.req_held (wb_trace tr) t0 (BP.nratio bc) ->
  let x := tr t0 in
  let R := BP.nratio bc in
  word_in_range bc (x_adr x) ->
  nth_error (M.c_regs mc) k = Some r -> fills_word bc (x_adr x) r -> all_selected bc (x_sel x) ->
  x_we x = false -> M.r_rd r = true ->
  (forall j, (j <= R + 1)%nat ->
     nth_error (M.o_rstb (elem_out_at bc mc tr (t0 + j))) k = Some (j =? 0)%nat) /\
  (forall i, (i < R)%nat ->
     B.lane bc (Z.of_nat i) (B.o_dat_r (wb_out_at bc mc tr (t0 + R + 1))) =
     M.word (M.c_dw mc) (M.r_width r) (Z.of_nat i) (trunc (M.r_width r) (nth k (x_rvals x) 0))) /\
  (forall j, (j <= R)%nat -> B.o_ack (wb_out_at bc mc tr (t0 + j)) = false) /\
  B.o_ack (wb_out_at bc mc tr (t0 + R + 1)) = true /\
  BP.idle (fst (cstate_at bc mc tr (t0 + R + 2))).
Proof.
  intros Hwf Hmwf Hfit Hidle Hreq x R Hword Hk Hfill Hall Hre Hrd.
  pose proof (atomic_read_through_mux bc mc tr t0 k r Hwf Hmwf Hfit Hidle Hreq Hword Hk
                (fills_in_word _ _ _ Hfill) (all_reg_selected _ _ _ _ Hfill Hall) Hre Hrd) as H.
  cbv zeta in H. fold x in H. destruct Hfill as (E0 & E1). fold x in E0, E1.
  pose proof (BP.nratio_eq bc Hwf) as HR. fold R in HR.
  assert (Ege : Z.to_nat (M.r_stop r - x_adr x * B.ratio bc) = R) by lia.
  assert (Egf : Z.to_nat (M.r_start r - x_adr x * B.ratio bc) = 0%nat) by lia.
  rewrite Ege, Egf in H. destruct H as (_ & Hs & Hd & Ha).
  split; [exact Hs|]. split; [|exact Ha].
  intros i Hi. specialize (Hd i ltac:(lia)). rewrite Nat.add_0_r in Hd. change (Z.of_nat 0) with 0 in Hd.
  rewrite Z.sub_0_r in Hd. exact Hd.
Qed.

(* ------------------------------------------------------------------------------------------ *)
(* finite runs of the composite are prefixes of the trace semantics                           *)
(* ------------------------------------------------------------------------------------------ *)

Fixpoint cstate_after (bc : B.cfg) (mc : M.cfg) (s : cst) (xs : list cinp) : cst :=
  match xs with
  | [] => s
  | x :: xs' => cstate_after bc mc (cnext bc mc s x) xs'
  end.

Lemma cstate_after_app bc mc l1 : forall s l2,
  cstate_after bc mc s (l1 ++ l2) = cstate_after bc mc (cstate_after bc mc s l1) l2.
Proof. induction l1 as [|x l1 IH]; intros s l2; simpl; auto. Qed.

Lemma cstate_after_firstn bc mc xs d t : (t <= length xs)%nat ->
  cstate_after bc mc (cinit mc) (firstn t xs) = cstate_at bc mc (fun n => nth n xs d) t.
Proof.
  induction t as [|t IH]; intros Ht; [reflexivity|].
  cbn [cstate_at]. rewrite <- IH by lia.
  assert (E : firstn (S t) xs = firstn t xs ++ [nth t xs d]).
  { apply MR.firstn_S_nth. apply nth_error_nth'. lia. }
  rewrite E, cstate_after_app. reflexivity.
Qed.

Lemma crun_nth_gen bc mc xs : forall s t d, (t < length xs)%nat ->
  nth_error (crun bc mc s xs) t =
  Some (bridge_out bc mc (cstate_after bc mc s (firstn t xs)) (nth t xs d),
        mux_out bc mc (cstate_after bc mc s (firstn t xs)) (nth t xs d)).
Proof.
  induction xs as [|x xs IH]; intros s t d Ht; simpl in *; [lia|].
  destruct t as [|t]; [reflexivity|]. simpl. apply IH. lia.
Qed.

Theorem crun_is_out_at bc mc xs d t : (t < length xs)%nat ->
  nth_error (crun bc mc (cinit mc) xs) t =
  Some (wb_out_at bc mc (fun n => nth n xs d) t, elem_out_at bc mc (fun n => nth n xs d) t).
Proof.
  intros Ht. rewrite (crun_nth_gen bc mc xs (cinit mc) t d Ht).
  unfold wb_out_at, elem_out_at. rewrite (cstate_after_firstn bc mc xs d t) by lia. reflexivity.
Qed.
