(* The world invariant behind C18: in every map of every reachable world (and, recursively, in every
   child copy stored in a window entry) the names are non-empty, pairwise conflict-free and a permutation
   of the names contributed by the resources and windows; range entries carry pairwise distinct
   assignments that exist; the ranges form a chain. *)
From Coq Require Import ZArith List Bool Lia ZifyBool Arith Permutation.
From Soc Require Import Lib.Res Lib.PyList Model.MemoryMap Model.MemSpec Proofs.RangeMap Proofs.Namespace.
Import ListNotations.
Open Scope Z_scope.

(* names a window entry contributes to its parent *)
Definition win_names (wc : winent * mmap) : list name :=
  match w_name (fst wc) with Some n => [n] | None => m_names (snd wc) end.

Definition contrib (m : mmap) : list name :=
  map r_name (m_ress m) ++ flat_map win_names (m_wins m).

Definition asg_exists (m : mmap) (a : assign) : Prop :=
  match a with AR id => has_res m id = true | AW id => has_win m id = true end.

Record local_ok (m : mmap) : Prop := {
  lo_nonempty : forall n, In n (m_names m) -> n <> [];
  lo_pfree : pfree (m_names m);
  lo_perm : Permutation (m_names m) (contrib m);
  lo_nodup : NoDup (map e_asg (m_ranges m));
  lo_asg : forall x, In x (m_ranges m) -> asg_exists m (e_asg x);
  lo_al : 0 <= m_al m;
  lo_chain : exists lo, chain lo (m_ranges m)
}.

Inductive deep : mmap -> Prop :=
| deep_intro m : local_ok m -> (forall wn c, In (wn, c) (m_wins m) -> deep c) -> deep m.

Definition world_ok (w : world) : Prop := forall m, In m w -> deep m.

Lemma deep_local m : deep m -> local_ok m.
Proof. intros H; destruct H; assumption. Qed.

Lemma deep_kids m wn c : deep m -> In (wn, c) (m_wins m) -> deep c.
Proof. intros H; destruct H as [m _ H]; apply H. Qed.

(* ------------------------------------------------------------------ changes that keep the fields *)

Lemma has_res_ext m m' id : m_ress m' = m_ress m -> has_res m' id = has_res m id.
Proof. unfold has_res. intros ->. reflexivity. Qed.

Lemma has_win_ext m m' id : m_wins m' = m_wins m -> has_win m' id = has_win m id.
Proof. unfold has_win. intros ->. reflexivity. Qed.

Lemma local_ok_ext m m' :
  m_names m' = m_names m -> m_ress m' = m_ress m -> m_wins m' = m_wins m ->
  m_ranges m' = m_ranges m -> m_al m' = m_al m -> local_ok m -> local_ok m'.
Proof.
  intros Hn Hr Hw Hg Ha [H1 H2 H3 H4 H5 H6 H7].
  constructor; unfold contrib in *; rewrite ?Hn, ?Hr, ?Hw, ?Hg, ?Ha; auto.
  intros x Hx. specialize (H5 x Hx). unfold asg_exists in *. destruct (e_asg x).
  - rewrite (has_res_ext m m'); auto.
  - rewrite (has_win_ext m m'); auto.
Qed.

Lemma deep_ext m m' :
  m_names m' = m_names m -> m_ress m' = m_ress m -> m_wins m' = m_wins m ->
  m_ranges m' = m_ranges m -> m_al m' = m_al m -> deep m -> deep m'.
Proof.
  intros Hn Hr Hw Hg Ha H. constructor.
  - eapply local_ok_ext; eauto. apply deep_local; exact H.
  - rewrite Hw. intros wn c. apply deep_kids. exact H.
Qed.

Lemma deep_set_frozen m : deep m -> deep (set_frozen m).
Proof. destruct m; apply deep_ext; reflexivity. Qed.

Lemma deep_set_next m n : deep m -> deep (set_next m n).
Proof. destruct m; apply deep_ext; reflexivity. Qed.

(* ------------------------------------------------------------------ inversion of the two mutators *)

Definition res_alignment (m : mmap) (alignment : pyint) : res Z :=
  match alignment with
  | VNone => Ok (m_al m)
  | _ => let! _ := check (nonneg alignment) ValueError in Ok (Z.max (zof alignment) (m_al m))
  end.

Lemma add_resource_inv m id comp nm size addr alignment m' r :
  add_resource m id comp nm size addr alignment = Ok (m', r) ->
  exists n al s e rs,
    m_frozen m = false /\ comp = true /\ has_res m id = false /\ mk_name nm = Ok n /\
    is_available (m_names m) [n] = Ok true /\
    res_alignment m alignment = Ok al /\
    compute_addr_range m addr size al = Ok (s, e) /\
    rm_insert (m_ranges m) {| e_start := s; e_stop := e; e_step := 1; e_asg := AR id |} = Ok rs /\
    m' = MM (m_aw m) (m_dw m) (m_al m) rs
            (m_ress m ++ [{| r_id := id; r_name := n; r_start := s; r_stop := e |}])
            (m_wins m) (m_names m ++ [n]) e (m_frozen m) /\
    r = (s, e).
Proof.
  unfold add_resource. intros H.
  inv_bind H u1 H1. apply check_ok in H1.
  inv_bind H u2 H2. apply check_ok in H2.
  inv_bind H u3 H3. apply check_ok in H3.
  inv_bind H n H4.
  inv_bind H av H5.
  inv_bind H u6 H6. apply check_ok in H6. subst av.
  inv_bind H al H7.
  inv_bind H se H8. destruct se as [s e].
  inv_bind H rs H9.
  exists n, al, s, e, rs.
  destruct m as [a d l rg ress wins names nx f]. simpl in *.
  inversion H; subst. repeat split; auto.
  - destruct f; simpl in H1; congruence.
  - destruct (has_res _ id); simpl in H3; congruence.
Qed.

Definition win_queries (w : mmap) (n : option name) : list name :=
  match n with None => m_names w | Some x => [x] end.

Definition win_name_arg (nm : option rawname) : res (option name) :=
  match nm with None => Ok None | Some r => let! x := mk_name r in Ok (Some x) end.

Lemma add_window_inv m wid w nm addr sparse m' r :
  add_window m wid w nm addr sparse = Ok (m', r) ->
  exists n al size s e ratio rs,
    m_frozen m = false /\ has_win m wid = false /\ win_name_arg nm = Ok n /\
    is_available (m_names m) (win_queries w n) = Ok true /\
    m_al m <= al /\
    compute_addr_range m addr size al = Ok (s, e) /\
    rm_insert (m_ranges m) {| e_start := s; e_stop := e; e_step := ratio; e_asg := AW wid |} = Ok rs /\
    m' = MM (m_aw m) (m_dw m) (m_al m) rs (m_ress m)
            (m_wins m ++ [({| w_id := wid; w_name := n; w_start := s; w_stop := e; w_step := ratio |},
                           set_frozen w)])
            (m_names m ++ win_queries w n) e (m_frozen m) /\
    r = (s, e, ratio).
Proof.
  unfold add_window. intros H.
  inv_bind H u1 H1. apply check_ok in H1.
  inv_bind H u2 H2. apply check_ok in H2.
  inv_bind H u3 H3.
  inv_bind H u4 H4.
  inv_bind H n H5.
  inv_bind H av H6.
  inv_bind H u7 H7. apply check_ok in H7. subst av.
  inv_bind H u8 H8.
  inv_bind H u9 H9.
  inv_bind H se H10. destruct se as [s e].
  inv_bind H rs H11.
  match type of H10 with compute_addr_range _ _ ?sz ?al = _ => exists n, al, sz end.
  match type of H11 with rm_insert _ {| e_start := _; e_stop := _; e_step := ?ra; e_asg := _ |} = _ =>
    exists s, e, ra, rs end.
  destruct m as [a d l rg ress wins names nx f]. simpl in *.
  inversion H; subst. repeat split; auto.
  - destruct f; simpl in H1; congruence.
  - destruct (has_win _ wid); simpl in H2; congruence.
  - lia.
Qed.

(* ------------------------------------------------------------------ ranges *)

Lemma insert_at_split {X} (x : X) : forall n l, exists l1 l2, l = l1 ++ l2 /\ insert_at n x l = l1 ++ x :: l2.
Proof.
  induction n as [|n IH]; intros l.
  - exists [], l. destruct l; auto.
  - destruct l as [|y l]; simpl.
    + exists [], []. auto.
    + destruct (IH l) as (l1 & l2 & -> & ->). exists (y :: l1), l2. auto.
Qed.

Lemma rm_insert_split l k l' : rm_insert l k = Ok l' -> exists l1 l2, l = l1 ++ l2 /\ l' = l1 ++ k :: l2.
Proof.
  unfold rm_insert. destruct (rm_overlaps _ _ _); [|discriminate].
  destruct (Nat.eqb _ _); [|discriminate]. intros H; inversion H. apply insert_at_split.
Qed.

Lemma shiftl1_pos a : 0 <= a -> 0 < Z.shiftl 1 a.
Proof. intros H. rewrite Z.shiftl_1_l. apply Z.pow_pos_nonneg; lia. Qed.

Lemma align_up_ge v a : 0 <= a -> v <= align_up v a.
Proof.
  intros H. unfold align_up. pose proof (shiftl1_pos a H) as Hp.
  pose proof (Z.mod_pos_bound v _ Hp) as Hb.
  destruct (negb _); lia.
Qed.

Lemma car_inv m addr size al s e : 0 <= al ->
  compute_addr_range m addr size al = Ok (s, e) ->
  s < e /\ rm_overlaps (m_ranges m) s e = [].
Proof.
  intros Hal. unfold compute_addr_range. intros H.
  inv_bind H a H1. inv_bind H u2 H2. inv_bind H u3 H3.
  destruct (rm_overlaps _ _ _) eqn:E; [|discriminate]. inversion H; subst.
  split; [|exact E].
  pose proof (align_up_ge (Z.max (zof size) 1) al Hal). lia.
Qed.

Lemma rm_insert_chain lo l k l' :
  chain lo l -> e_start k < e_stop k -> rm_overlaps l (e_start k) (e_stop k) = [] ->
  rm_insert l k = Ok l' -> exists lo', chain lo' l'.
Proof.
  intros Hc Hk Ho Hi.
  assert (Hc' : chain (Z.min lo (e_start k)) l) by (eapply chain_weaken; [|exact Hc]; lia).
  rewrite (overlaps_spec _ _ _ _ Hc' Hk) in Ho.
  destruct (insert_ok _ l k Hc' ltac:(lia) Hk Ho) as (l'' & Hi' & Hc'' & _).
  rewrite Hi in Hi'. inversion Hi'; subst. eauto.
Qed.

(* ------------------------------------------------------------------ one generic extension step *)

Lemma has_res_mono m m' extra id :
  m_ress m' = m_ress m ++ extra -> has_res m id = true -> has_res m' id = true.
Proof. unfold has_res. intros -> H. rewrite existsb_app, H. reflexivity. Qed.

Lemma has_win_mono m m' extra id :
  m_wins m' = m_wins m ++ extra -> has_win m id = true -> has_win m' id = true.
Proof. unfold has_win. intros -> H. rewrite existsb_app, H. reflexivity. Qed.

Lemma local_ok_extend m m' k qs ress' wins' addr size al :
  local_ok m ->
  m_names m' = m_names m ++ qs -> m_ress m' = m_ress m ++ ress' -> m_wins m' = m_wins m ++ wins' ->
  m_al m' = m_al m ->
  Permutation qs (map r_name ress' ++ flat_map win_names wins') ->
  (forall q, In q qs -> q <> []) -> pfree qs ->
  is_available (m_names m) qs = Ok true ->
  0 <= al -> compute_addr_range m addr size al = Ok (e_start k, e_stop k) ->
  rm_insert (m_ranges m) k = Ok (m_ranges m') ->
  ~ asg_exists m (e_asg k) -> asg_exists m' (e_asg k) ->
  local_ok m'.
Proof.
  intros [H1 H2 H3 H4 H5 H6 H7] Hn Hr Hw Hal HP Hq Hpq Hav Hal0 Hcar Hins Hnew Hnew'.
  rewrite (is_available_pfree _ _ H1 Hq Hpq) in Hav. inversion Hav as [Hav']. clear Hav.
  rewrite avail_spec_true in Hav'.
  destruct (rm_insert_split _ _ _ Hins) as (l1 & l2 & Hl & Hl').
  destruct (car_inv _ _ _ _ _ _ Hal0 Hcar) as (Hse & Hov).
  constructor.
  - rewrite Hn. intros n Hin. apply in_app_or in Hin. destruct Hin; auto.
  - rewrite Hn. apply pfree_app. repeat split; auto.
    intros a b Ha Hb Hc. apply name_conflict_sym in Hc. exact (Hav' b a Hb Ha Hc).
  - rewrite Hn. unfold contrib. rewrite Hr, Hw, map_app, flat_map_app.
    eapply Permutation_trans; [apply Permutation_app; [exact H3|exact HP]|].
    unfold contrib. rewrite <- !app_assoc. apply Permutation_app_head.
    rewrite !app_assoc. apply Permutation_app_tail. apply Permutation_app_comm.
  - rewrite Hl', map_app. simpl. eapply Permutation_NoDup; [apply Permutation_middle|].
    constructor.
    + rewrite <- map_app, <- Hl. intros Hin. apply in_map_iff in Hin. destruct Hin as (x & Hx & Hin).
      apply Hnew. rewrite <- Hx. apply H5; exact Hin.
    + rewrite <- map_app, <- Hl. exact H4.
  - intros x Hx. rewrite Hl' in Hx. apply in_app_or in Hx.
    assert (Hx' : x = k \/ In x (m_ranges m)).
    { rewrite Hl. destruct Hx as [Hx|[Hx|Hx]]; auto; right; apply in_or_app; auto. }
    destruct Hx' as [->|Hx']; [exact Hnew'|].
    specialize (H5 x Hx'). unfold asg_exists in *. destruct (e_asg x).
    + eapply has_res_mono; eauto.
    + eapply has_win_mono; eauto.
  - rewrite Hal; exact H6.
  - destruct H7 as (lo & Hc). eapply rm_insert_chain; eauto.
Qed.

(* ------------------------------------------------------------------ the mutators keep the invariant *)

Lemma res_alignment_nonneg m alignment al : 0 <= m_al m -> res_alignment m alignment = Ok al -> 0 <= al.
Proof.
  unfold res_alignment. intros H0 H. destruct alignment as [z| |].
  - inv_bind H u Hu. inversion H. lia.
  - inversion H; subst; auto.
  - inv_bind H u Hu. discriminate.
Qed.

Lemma add_resource_deep m id comp nm size addr alignment m' r :
  deep m -> add_resource m id comp nm size addr alignment = Ok (m', r) -> deep m'.
Proof.
  intros Hd H. apply add_resource_inv in H.
  destruct H as (n & al & s & e & rs & Hf & Hc & Hid & Hn & Hav & Hal & Hcar & Hins & -> & _).
  pose proof (deep_local _ Hd) as Hl.
  constructor; [|simpl; intros wn c; apply deep_kids; exact Hd].
  eapply (local_ok_extend m _ {| e_start := s; e_stop := e; e_step := 1; e_asg := AR id |} [n]
            [{| r_id := id; r_name := n; r_start := s; r_stop := e |}] []); simpl; eauto.
  - rewrite app_nil_r. reflexivity.
  - intros q [<-|[]]. eapply mk_name_nonempty; eauto.
  - eapply res_alignment_nonneg; eauto. apply Hl.
  - rewrite Hid. discriminate.
  - unfold has_res. simpl. rewrite existsb_app. simpl. rewrite Z.eqb_refl, !orb_true_r. reflexivity.
Qed.

Lemma win_name_arg_nonempty nm x : win_name_arg nm = Ok (Some x) -> x <> [].
Proof.
  destruct nm as [r|]; simpl; intros H; [|discriminate].
  inv_bind H y Hy. inversion H; subst. eapply mk_name_nonempty; eauto.
Qed.

Lemma add_window_deep m wid w nm addr sparse m' r :
  deep m -> deep w -> add_window m wid w nm addr sparse = Ok (m', r) -> deep m'.
Proof.
  intros Hd Hdw H. apply add_window_inv in H.
  destruct H as (n & al & size & s & e & ratio & rs & Hf & Hid & Hn & Hav & Hal & Hcar & Hins & -> & _).
  pose proof (deep_local _ Hd) as Hl. pose proof (deep_local _ Hdw) as Hlw.
  constructor.
  - eapply (local_ok_extend m _ {| e_start := s; e_stop := e; e_step := ratio; e_asg := AW wid |}
              (win_queries w n) []
              [({| w_id := wid; w_name := n; w_start := s; w_stop := e; w_step := ratio |}, set_frozen w)]);
      simpl; eauto.
    + rewrite app_nil_r. reflexivity.
    + rewrite app_nil_r. unfold win_names, win_queries. simpl. destruct n; [reflexivity|].
      destruct w; reflexivity.
    + destruct n as [x|]; simpl.
      * intros q [<-|[]]. eapply win_name_arg_nonempty; eauto.
      * apply Hlw.
    + destruct n as [x|]; simpl; [auto|apply Hlw].
    + pose proof (lo_al _ Hl). lia.
    + rewrite Hid. discriminate.
    + unfold has_win. simpl. rewrite existsb_app. simpl. rewrite Z.eqb_refl, !orb_true_r. reflexivity.
  - simpl. intros wn c Hin. apply in_app_or in Hin. destruct Hin as [Hin|[Hin|[]]].
    + eapply deep_kids; [exact Hd|exact Hin].
    + inversion Hin; subst. apply deep_set_frozen; exact Hdw.
Qed.

(* ------------------------------------------------------------------ the world *)

Lemma in_set_nth {X} (x y : X) : forall n l, In x (set_nth n y l) -> x = y \/ In x l.
Proof.
  induction n as [|n IH]; intros [|z l]; simpl; auto.
  - intros [H|H]; auto.
  - intros [H|H]; auto. apply IH in H. tauto.
Qed.

Lemma new_map_deep aw dw al m : new_map aw dw al = Ok m -> deep m.
Proof.
  unfold new_map. intros H. inv_bind H u1 H1. inv_bind H u2 H2. inv_bind H u3 H3.
  apply check_ok in H3. inversion H; subst. constructor.
  - constructor; simpl.
    + tauto.
    + exact I.
    + apply perm_nil.
    + apply NoDup_nil.
    + tauto.
    + destruct al; simpl in *; try discriminate. lia.
    + exists 0. exact I.
  - simpl. tauto.
Qed.

Lemma wstep_ok w o : world_ok w -> world_ok (fst (wstep w o)).
Proof.
  unfold world_ok. intros Hw. destruct o as [aw dw al|mi id comp nm size addr al|mi wo nm addr sparse|mi a|mi];
    simpl.
  - destruct (new_map aw dw al) as [m|e] eqn:E; simpl; auto.
    intros x Hx. apply in_app_or in Hx. destruct Hx as [Hx|[<-|[]]]; auto.
    eapply new_map_deep; eauto.
  - destruct (nth_error w mi) as [m|] eqn:Em; simpl; auto.
    destruct (add_resource _ _ _ _ _ _ _) as [[m' r]|e] eqn:E; simpl; auto.
    intros x Hx. apply in_set_nth in Hx. destruct Hx as [->|Hx]; auto.
    eapply add_resource_deep; [|exact E]. apply Hw. eapply nth_error_In; eauto.
  - destruct (nth_error w mi) as [m|] eqn:Em; simpl; auto.
    destruct wo as [wi|]; simpl; auto.
    destruct (Nat.eqb wi mi); simpl; auto.
    destruct (nth_error w wi) as [wm|] eqn:Ewm; simpl; auto.
    destruct (add_window _ _ _ _ _ _) as [[m' r]|e] eqn:E; simpl; auto.
    assert (Hm : deep m) by (apply Hw; eapply nth_error_In; eauto).
    assert (Hwm : deep wm) by (apply Hw; eapply nth_error_In; eauto).
    intros x Hx. apply in_set_nth in Hx. destruct Hx as [->|Hx]; [apply deep_set_frozen; auto|].
    apply in_set_nth in Hx. destruct Hx as [->|Hx]; auto.
    eapply add_window_deep; [exact Hm|exact Hwm|exact E].
  - destruct (nth_error w mi) as [m|] eqn:Em; simpl; auto.
    destruct (align_to m a) as [[m' n]|e] eqn:E; simpl; auto.
    intros x Hx. apply in_set_nth in Hx. destruct Hx as [->|Hx]; auto.
    unfold align_to in E. inv_bind E u Hu. inversion E; subst.
    apply deep_set_next. apply Hw. eapply nth_error_In; eauto.
  - destruct (nth_error w mi) as [m|] eqn:Em; simpl; auto.
    intros x Hx. apply in_set_nth in Hx. destruct Hx as [->|Hx]; auto.
    apply deep_set_frozen. apply Hw. eapply nth_error_In; eauto.
Qed.

Lemma reachable_ok w : reachable w -> world_ok w.
Proof.
  intros (ops & ->). unfold world_after.
  assert (H : forall w0, world_ok w0 -> world_ok (fold_left (fun w o => fst (wstep w o)) ops w0)).
  { induction ops as [|o ops IH]; simpl; intros w0 H0; [exact H0|]. apply IH. apply wstep_ok; exact H0. }
  apply H. intros m [].
Qed.

Lemma reachable_deep w m : reachable w -> In m w -> deep m.
Proof. intros Hr. apply reachable_ok; exact Hr. Qed.

(* ------------------------------------------------------------------ consequences used by Properties/C18.v *)

Lemma reachable_names_ok w m : reachable w -> In m w ->
  (forall n, In n (m_names m) -> n <> []) /\
  forall i j a b, i <> j -> nth_error (m_names m) i = Some a -> nth_error (m_names m) j = Some b ->
                  ~ name_conflict a b.
Proof.
  intros Hr Hm. pose proof (deep_local _ (reachable_deep _ _ Hr Hm)) as Hl. split.
  - apply Hl.
  - apply pfree_nth. apply Hl.
Qed.

Lemma in_contrib m n :
  In n (contrib m) <->
    (exists r, In r (m_ress m) /\ r_name r = n) \/
    (exists wn c, In (wn, c) (m_wins m) /\ w_name wn = Some n) \/
    (exists wn c, In (wn, c) (m_wins m) /\ w_name wn = None /\ In n (m_names c)).
Proof.
  unfold contrib. rewrite in_app_iff, in_map_iff, in_flat_map. split.
  - intros [(r & Hn & Hr)|((wn & c) & Hin & Hn)]; [left; eauto|].
    unfold win_names in Hn. simpl in Hn. destruct (w_name wn) as [x|] eqn:E.
    + destruct Hn as [<-|[]]. right; left; eauto.
    + right; right; eauto.
  - intros [(r & Hr & Hn)|[(wn & c & Hin & Hn)|(wn & c & Hin & Hn & Hc)]]; [left; eauto| |];
      right; exists (wn, c); (split; [exact Hin|]); unfold win_names; simpl; rewrite Hn; simpl; auto.
Qed.

Lemma reachable_visible_names w m : reachable w -> In m w -> forall n,
  In n (m_names m) <->
    (exists r, In r (m_ress m) /\ r_name r = n) \/
    (exists wn c, In (wn, c) (m_wins m) /\ w_name wn = Some n) \/
    (exists wn c, In (wn, c) (m_wins m) /\ w_name wn = None /\ In n (m_names c)).
Proof.
  intros Hr Hm n. pose proof (deep_local _ (reachable_deep _ _ Hr Hm)) as Hl.
  rewrite <- in_contrib. split; apply Permutation_in; [|apply Permutation_sym]; apply Hl.
Qed.
