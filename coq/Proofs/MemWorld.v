(* World-level consequences for C02: failed calls are neutral, freezing is permanent and enforced,
   the cursor probe is neutral, and no internal assertion / index error is reachable. *)
From Coq Require Import ZArith List Bool Lia ZifyBool Arith.
From Soc Require Import Lib.Res Lib.PyList Model.MemoryMap Model.MemSpec.
From Soc Require Import Proofs.RangeMap Proofs.MemArith Proofs.MemNames Proofs.MemAlloc.
Import ListNotations.
Open Scope Z_scope.

Local Opaque Z.pow Z.shiftl Z.div Z.modulo.

(* ------------------------------------------------------------------ T5 *)

Lemma failed_call_no_effect w o : result_failed (snd (wstep w o)) = true -> fst (wstep w o) = w.
Proof.
  destruct o as [aw dw al|mi id comp nm size addr al|mi wo nm addr sparse|mi a|mi]; cbn [wstep].
  - destruct (new_map aw dw al); cbn [fst snd result_failed is_err]; [discriminate|reflexivity].
  - destruct (nth_error w mi) as [m|]; [|reflexivity].
    destruct (add_resource m id comp nm size addr al) as [[m' r]|e];
      cbn [fst snd result_failed is_err]; [discriminate|reflexivity].
  - destruct (nth_error w mi) as [m|]; [|reflexivity].
    destruct wo as [wi|]; [|reflexivity].
    destruct (Nat.eqb wi mi); [reflexivity|].
    destruct (nth_error w wi) as [wm|]; [|reflexivity].
    destruct (add_window m (Z.of_nat wi) wm nm addr sparse) as [[m' r]|e];
      cbn [fst snd result_failed is_err]; [discriminate|reflexivity].
  - destruct (nth_error w mi) as [m|]; [|reflexivity].
    destruct (align_to m a) as [[m' n]|e]; cbn [fst snd result_failed is_err]; [discriminate|reflexivity].
  - destruct (nth_error w mi) as [m|]; cbn [fst snd result_failed]; [discriminate|reflexivity].
Qed.

(* ------------------------------------------------------------------ T6 *)

Lemma frozen_rejects m : m_frozen m = true ->
  (forall id comp nm size addr al, add_resource m id comp nm size addr al = Err ValueError) /\
  (forall wid wm nm addr sparse, add_window m wid wm nm addr sparse = Err ValueError).
Proof.
  intros Hf. split; intros.
  - unfold add_resource. rewrite Hf. reflexivity.
  - unfold add_window. rewrite Hf. reflexivity.
Qed.

Lemma set_nth_keeps (P : mmap -> Prop) w k x mi m :
  nth_error w mi = Some m -> P m -> (forall m0, nth_error w k = Some m0 -> P m0 -> P x) ->
  exists m', nth_error (set_nth k x w) mi = Some m' /\ P m'.
Proof.
  intros Hn Hp Hx. destruct (Nat.eq_dec k mi) as [->|Hne].
  - exists x. split; [apply nth_error_set_nth_eq; eapply nth_error_lt; eauto|]. eapply Hx; eauto.
  - exists m. rewrite nth_error_set_nth_neq by auto. auto.
Qed.

Lemma set_frozen_frozen m : m_frozen (set_frozen m) = true.
Proof. destruct m; reflexivity. Qed.

Lemma frozen_forever w o mi m : nth_error w mi = Some m -> m_frozen m = true ->
  exists m', nth_error (fst (wstep w o)) mi = Some m' /\ m_frozen m' = true.
Proof.
  intros Hn Hf.
  destruct o as [aw dw al|k id comp nm size addr al|k wo nm addr sparse|k a|k]; cbn [wstep].
  - destruct (new_map aw dw al); cbn [fst]; [|eauto].
    exists m. rewrite nth_error_app1 by (eapply nth_error_lt; eauto). auto.
  - destruct (nth_error w k) as [mk|] eqn:Ek; [|cbn [fst]; eauto].
    destruct (add_resource mk id comp nm size addr al) as [[m' [s e]]|e] eqn:E; cbn [fst]; [|eauto].
    apply (set_nth_keeps (fun m => m_frozen m = true) w k m' mi m Hn Hf).
    intros m0 Hm0 Hf0. rewrite Ek in Hm0. injection Hm0 as <-.
    apply add_resource_inv in E as (n & rs & Hfr & _). congruence.
  - destruct (nth_error w k) as [mk|] eqn:Ek; [|cbn [fst]; eauto].
    destruct wo as [wi|]; [|cbn [fst]; eauto].
    destruct (Nat.eqb wi k); [cbn [fst]; eauto|].
    destruct (nth_error w wi) as [wm|] eqn:Ew; [|cbn [fst]; eauto].
    destruct (add_window mk (Z.of_nat wi) wm nm addr sparse) as [[m' [[s e] r]]|e] eqn:E; cbn [fst]; [|eauto].
    destruct (set_nth_keeps (fun m => m_frozen m = true) w k m' mi m Hn Hf) as (m1 & Hn1 & Hf1).
    { intros m0 Hm0 Hf0. rewrite Ek in Hm0. injection Hm0 as <-.
      apply add_window_inv in E as (n & rs & Hfr & _). congruence. }
    apply (set_nth_keeps (fun m => m_frozen m = true) _ wi (set_frozen wm) mi m1 Hn1 Hf1).
    intros. apply set_frozen_frozen.
  - destruct (nth_error w k) as [mk|] eqn:Ek; [|cbn [fst]; eauto].
    destruct (align_to mk a) as [[m' n]|e] eqn:E; cbn [fst]; [|eauto].
    apply (set_nth_keeps (fun m => m_frozen m = true) w k m' mi m Hn Hf).
    intros m0 Hm0 Hf0. rewrite Ek in Hm0. injection Hm0 as <-.
    apply align_to_inv in E as (z & _ & _ & _ & ->). destruct mk; exact Hf0.
  - destruct (nth_error w k) as [mk|] eqn:Ek; cbn [fst]; [|eauto].
    apply (set_nth_keeps (fun m => m_frozen m = true) w k _ mi m Hn Hf).
    intros. apply set_frozen_frozen.
Qed.

Lemma window_use_freezes w mi wi nm addr sparse w' r :
  wstep w (OWin mi (Some wi) nm addr sparse) = (w', RWin (Ok r)) ->
  exists wm', nth_error w' wi = Some wm' /\ m_frozen wm' = true.
Proof.
  cbn [wstep]. intros H.
  destruct (nth_error w mi) as [m|] eqn:Em; [|discriminate].
  destruct (Nat.eqb wi mi); [discriminate|].
  destruct (nth_error w wi) as [wm|] eqn:Ew; [|discriminate].
  destruct (add_window m (Z.of_nat wi) wm nm addr sparse) as [[m' r']|e]; [|discriminate].
  injection H as <- _. exists (set_frozen wm). split; [|apply set_frozen_frozen].
  apply nth_error_set_nth_eq. rewrite set_nth_length. eapply nth_error_lt; eauto.
Qed.

(* ------------------------------------------------------------------ T8 *)

Lemma probe_neutral w m : reachable w -> In m w -> align_to m (VInt 0) = Ok (m, m_next m).
Proof. intros Hr Hin. apply align_to_zero. eapply reachable_in_wf; eauto. Qed.

(* ------------------------------------------------------------------ T7 *)

Lemma no_internal_error w o : reachable w ->
  match snd (wstep w o) with
  | RRes (Err e) => e = ValueError \/ e = TypeError
  | RWin (Err e) => e = ValueError \/ e = TypeError \/
                    (e = OtherError /\ exists mi nm a s, o = OWin mi (Some mi) nm a s)
  | RAlign (Err e) => e = ValueError
  | RNew (Err e) => e = ValueError
  | _ => True
  end.
Proof.
  intros Hr. apply reachable_wf in Hr.
  destruct o as [aw dw al|k id comp nm size addr al|k wo nm addr sparse|k a|k]; cbn [wstep].
  - destruct (new_map aw dw al) as [m|e] eqn:E; cbn [snd]; [exact I|]. eapply new_map_err; eauto.
  - destruct (nth_error w k) as [mk|] eqn:Ek; [|exact I].
    destruct (add_resource mk id comp nm size addr al) as [[m' r]|e] eqn:E; cbn [snd]; [exact I|].
    eapply add_resource_err; eauto. eapply wf_world_nth; eauto.
  - destruct (nth_error w k) as [mk|] eqn:Ek; [|exact I].
    destruct wo as [wi|]; [|cbn [snd]; auto].
    destruct (Nat.eqb wi k) eqn:Eq.
    { cbn [snd]. right; right. split; [reflexivity|]. apply Nat.eqb_eq in Eq. subst wi. eauto. }
    destruct (nth_error w wi) as [wm|] eqn:Ew; [|exact I].
    destruct (add_window mk (Z.of_nat wi) wm nm addr sparse) as [[m' r]|e] eqn:E; cbn [snd]; [exact I|].
    destruct (add_window_err mk _ wm _ _ _ _ (wf_world_nth _ _ _ Hr Ek) (wf_world_nth _ _ _ Hr Ew) E); auto.
  - destruct (nth_error w k) as [mk|] eqn:Ek; [|exact I].
    destruct (align_to mk a) as [[m' n]|e] eqn:E; cbn [snd]; [exact I|]. eapply align_to_err; eauto.
  - destruct (nth_error w k); exact I.
Qed.
