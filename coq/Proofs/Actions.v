(* Proofs about the field-action model (C12). *)
From Coq Require Import ZArith List Bool Lia Arith ZifyBool.
From Soc Require Import Lib.Bits Model.Actions.
Import ListNotations.
Open Scope Z_scope.

(* ---------- traces ---------- *)

Lemma state_after_app c : forall a b s,
  state_after c s (a ++ b) = state_after c (state_after c s a) b.
Proof. induction a as [|x a IH]; intros b s; simpl; [reflexivity|apply IH]. Qed.

Lemma firstn_S_nth {X} : forall (l : list X) t x,
  nth_error l t = Some x -> firstn (S t) l = firstn t l ++ [x].
Proof.
  induction l as [|y l IH]; intros t x H.
  - destruct t; discriminate.
  - destruct t as [|t].
    + simpl in H. injection H as ->. reflexivity.
    + simpl in H. change (firstn (S (S t)) (y :: l)) with (y :: firstn (S t) l).
      rewrite (IH t x H). reflexivity.
Qed.

Lemma state_at_0 c is : state_at c is 0 = init_state c.
Proof. reflexivity. Qed.

Lemma state_at_S c is t i :
  nth_error is t = Some i -> state_at c is (S t) = next c (state_at c is t) i.
Proof.
  intros H. unfold state_at. rewrite (firstn_S_nth is t i H), state_after_app. reflexivity.
Qed.

(* the t-th observation is the output function on the storage at time t and the t-th input *)
Lemma run_nth c : forall is s t,
  nth_error (run c s is) t =
  match nth_error is t with
  | Some i => Some (out c (state_after c s (firstn t is)) i)
  | None => None
  end.
Proof.
  induction is as [|x is IH]; intros s t.
  - destruct t; reflexivity.
  - destruct t as [|t]; [reflexivity|]. simpl. apply IH.
Qed.

Lemma run0_nth c is t o :
  nth_error (run0 c is) t = Some o ->
  exists i, nth_error is t = Some i /\ o = out c (state_at c is t) i /\ (t < length is)%nat.
Proof.
  unfold run0. rewrite run_nth. destruct (nth_error is t) as [i|] eqn:E; [|discriminate].
  intros H. injection H as <-. exists i. repeat split.
  apply nth_error_Some. rewrite E. discriminate.
Qed.

Lemma run_length c : forall is s, length (run c s is) = length is.
Proof. induction is as [|x is IH]; intros s; simpl; [reflexivity|]. rewrite IH. reflexivity. Qed.

(* ---------- single-bit statements, "later assignment wins" ---------- *)

Lemma exec_cons st l acc :
  exec (st :: l) acc = exec l (if s_cond st then assign_bit acc (s_bit st) (s_val st) else acc).
Proof. reflexivity. Qed.

Lemma assign_bit_spec acc n v m : 0 <= n ->
  Z.testbit (assign_bit acc n v) m = if n =? m then v else Z.testbit acc m.
Proof.
  intros Hn. unfold assign_bit. destruct v.
  - rewrite Z.setbit_eqb by lia. destruct (n =? m); reflexivity.
  - rewrite Z.clearbit_eqb. destruct (n =? m); simpl; [apply andb_false_r | apply andb_true_r].
Qed.

(* the per-bit pair "If(c0[n]): bit n := 0;  If(c1[n]): bit n := 1", for n over a list of indices *)
Definition pair_stmts (c0 c1 : Z -> bool) (l : list Z) : list stmt :=
  flat_map (fun n => [ {| s_cond := c0 n; s_bit := n; s_val := false |};
                       {| s_cond := c1 n; s_bit := n; s_val := true |} ]) l.

(* what the pair computes for one bit: the later statement (set to 1) wins *)
Definition bit_rule (c0 c1 b : bool) : bool := if c1 then true else if c0 then false else b.

Lemma pair_stmts_cons c0 c1 n l :
  pair_stmts c0 c1 (n :: l) =
  {| s_cond := c0 n; s_bit := n; s_val := false |} ::
  {| s_cond := c1 n; s_bit := n; s_val := true |} :: pair_stmts c0 c1 l.
Proof. reflexivity. Qed.

Lemma exec_pair_seq c0 c1 len : forall a acc m,
  Z.testbit (exec (pair_stmts c0 c1 (map Z.of_nat (seq a len))) acc) m =
  if (Z.of_nat a <=? m) && (m <? Z.of_nat (a + len))
  then bit_rule (c0 m) (c1 m) (Z.testbit acc m) else Z.testbit acc m.
Proof.
  induction len as [|len IH]; intros a acc m.
  - cbn [seq map pair_stmts flat_map exec fold_left].
    destruct (Z.leb_spec (Z.of_nat a) m) as [H1|H1];
      destruct (Z.ltb_spec m (Z.of_nat (a + 0))) as [H2|H2]; cbn [andb]; try reflexivity; lia.
  - cbn [seq map]. rewrite pair_stmts_cons, !exec_cons. cbn [s_cond s_bit s_val].
    rewrite IH. set (x := Z.of_nat a).
    set (acc1 := if c0 x then assign_bit acc x false else acc).
    set (acc2 := if c1 x then assign_bit acc1 x true else acc1).
    assert (Hx : 0 <= x) by (unfold x; lia).
    assert (H2 : Z.testbit acc2 m =
                 if x =? m then bit_rule (c0 x) (c1 x) (Z.testbit acc x) else Z.testbit acc m).
    { unfold acc2, acc1, bit_rule.
      destruct (c1 x) eqn:E1; destruct (c0 x) eqn:E0;
        rewrite ?assign_bit_spec by assumption;
        destruct (Z.eqb_spec x m) as [->|Hne]; reflexivity. }
    rewrite H2. destruct (Z.eqb_spec x m) as [Hxm|Hxm].
    + subst m.
      destruct (Z.leb_spec (Z.of_nat (S a)) x) as [H3|H3]; [unfold x in H3; lia|]. cbn [andb].
      destruct (Z.leb_spec x x) as [H4|H4]; [|lia].
      destruct (Z.ltb_spec x (Z.of_nat (a + S len))) as [H5|H5]; [|unfold x in H5; lia].
      reflexivity.
    + assert (Hc : (Z.of_nat (S a) <=? m) && (m <? Z.of_nat (S a + len)) =
                   (x <=? m) && (m <? Z.of_nat (a + S len))).
      { unfold x in *.
        destruct (Z.leb_spec (Z.of_nat (S a)) m); destruct (Z.ltb_spec m (Z.of_nat (S a + len)));
          destruct (Z.leb_spec (Z.of_nat a) m); destruct (Z.ltb_spec m (Z.of_nat (a + S len)));
          cbn [andb]; try reflexivity; lia. }
      rewrite Hc. reflexivity.
Qed.

Lemma exec_pair_bits c0 c1 w acc m : 0 <= w ->
  Z.testbit (exec (pair_stmts c0 c1 (bits_of w)) acc) m =
  if (0 <=? m) && (m <? w) then bit_rule (c0 m) (c1 m) (Z.testbit acc m) else Z.testbit acc m.
Proof.
  intros Hw. unfold bits_of. rewrite exec_pair_seq.
  replace (Z.of_nat (0 + Z.to_nat w)) with w by lia. reflexivity.
Qed.

(* ---------- RW1C / RW1S: the per-bit rule and the word-level formula ---------- *)

Definition rw1c_clr (i : inp) (n : Z) : bool := p_w_stb i && Z.testbit (p_w_data i) n.
Definition rw1c_set (i : inp) (n : Z) : bool := Z.testbit (in_set i) n.
Definition rw1s_clr (i : inp) (n : Z) : bool := Z.testbit (in_clear i) n.
Definition rw1s_set (i : inp) (n : Z) : bool := p_w_stb i && Z.testbit (p_w_data i) n.

Lemma rw1c_stmts_pair w i : rw1c_stmts w i = pair_stmts (rw1c_clr i) (rw1c_set i) (bits_of w).
Proof. reflexivity. Qed.
Lemma rw1s_stmts_pair w i : rw1s_stmts w i = pair_stmts (rw1s_clr i) (rw1s_set i) (bits_of w).
Proof. reflexivity. Qed.

Lemma next_rw c s i : c_kind c = KRW ->
  next c s i = if p_w_stb i then trunc (c_w c) (p_w_data i) else s.
Proof. intros H. unfold next. rewrite H. reflexivity. Qed.
Lemma next_rw1c c s i : c_kind c = KRW1C -> next c s i = exec (rw1c_stmts (c_w c) i) s.
Proof. intros H. unfold next. rewrite H. reflexivity. Qed.
Lemma next_rw1s c s i : c_kind c = KRW1S -> next c s i = exec (rw1s_stmts (c_w c) i) s.
Proof. intros H. unfold next. rewrite H. reflexivity. Qed.

(* every bit, inside or outside the width *)
Lemma rw1c_bit c s i n : c_kind c = KRW1C -> 0 <= c_w c ->
  Z.testbit (next c s i) n =
  if (0 <=? n) && (n <? c_w c) then bit_rule (rw1c_clr i n) (rw1c_set i n) (Z.testbit s n)
  else Z.testbit s n.
Proof. intros Hk Hw. rewrite next_rw1c, rw1c_stmts_pair by assumption. apply exec_pair_bits; assumption. Qed.

Lemma rw1s_bit c s i n : c_kind c = KRW1S -> 0 <= c_w c ->
  Z.testbit (next c s i) n =
  if (0 <=? n) && (n <? c_w c) then bit_rule (rw1s_clr i n) (rw1s_set i n) (Z.testbit s n)
  else Z.testbit s n.
Proof. intros Hk Hw. rewrite next_rw1s, rw1s_stmts_pair by assumption. apply exec_pair_bits; assumption. Qed.

(* the mask written by the bus this cycle: w_stb ? w_data : 0 *)
Definition wmask (w : Z) (i : inp) : Z := if p_w_stb i then trunc w (p_w_data i) else 0.

Lemma wmask_testbit w i m : 0 <= w -> 0 <= m ->
  Z.testbit (wmask w i) m = if m <? w then p_w_stb i && Z.testbit (p_w_data i) m else false.
Proof.
  intros Hw Hm. unfold wmask. destruct (p_w_stb i).
  - rewrite trunc_testbit by assumption. destruct (m <? w); reflexivity.
  - rewrite Z.bits_0. destruct (m <? w); reflexivity.
Qed.

(* storage' = (storage AND NOT (w_stb ? w_data : 0)) OR set — all bits jointly, set wins *)
Lemma rw1c_formula c s i : c_kind c = KRW1C -> 0 <= c_w c ->
  next c s i = Z.lor (Z.land s (Z.lnot (wmask (c_w c) i))) (trunc (c_w c) (in_set i)).
Proof.
  intros Hk Hw. apply Z.bits_inj'. intros m Hm.
  rewrite rw1c_bit by assumption.
  rewrite Z.lor_spec, Z.land_spec, Z.lnot_spec by assumption.
  rewrite wmask_testbit, trunc_testbit by assumption.
  unfold bit_rule, rw1c_clr, rw1c_set.
  destruct (Z.leb_spec 0 m) as [_|H]; [|lia]. cbn [andb].
  destruct (m <? c_w c).
  - destruct (Z.testbit (in_set i) m); destruct (p_w_stb i); destruct (Z.testbit (p_w_data i) m);
      destruct (Z.testbit s m); reflexivity.
  - cbn [negb]. rewrite andb_true_r, orb_false_r. reflexivity.
Qed.

(* storage' = (storage AND NOT clear) OR (w_stb ? w_data : 0) — set (by the bus) wins *)
Lemma rw1s_formula c s i : c_kind c = KRW1S -> 0 <= c_w c ->
  next c s i = Z.lor (Z.land s (Z.lnot (trunc (c_w c) (in_clear i)))) (wmask (c_w c) i).
Proof.
  intros Hk Hw. apply Z.bits_inj'. intros m Hm.
  rewrite rw1s_bit by assumption.
  rewrite Z.lor_spec, Z.land_spec, Z.lnot_spec by assumption.
  rewrite wmask_testbit, trunc_testbit by assumption.
  unfold bit_rule, rw1s_clr, rw1s_set.
  destruct (Z.leb_spec 0 m) as [_|H]; [|lia]. cbn [andb].
  destruct (m <? c_w c).
  - destruct (Z.testbit (in_clear i) m); destruct (p_w_stb i); destruct (Z.testbit (p_w_data i) m);
      destruct (Z.testbit s m); reflexivity.
  - cbn [negb]. rewrite andb_true_r, orb_false_r. reflexivity.
Qed.

(* ---------- storage is always a w-bit pattern ---------- *)

Definition in_range (w x : Z) : Prop := 0 <= x < 2 ^ w.

Lemma in_range_of_bits w x : 0 <= w ->
  (forall m, w <= m -> Z.testbit x m = false) -> in_range w x.
Proof.
  intros Hw H. unfold in_range. replace x with (trunc w x); [apply trunc_range; assumption|].
  apply Z.bits_inj'. intros m Hm. rewrite trunc_testbit by assumption.
  destruct (Z.ltb_spec m w) as [_|Hge]; [reflexivity|]. symmetry. apply H. assumption.
Qed.

Lemma bits_of_in_range w x m : 0 <= w -> in_range w x -> w <= m -> Z.testbit x m = false.
Proof.
  intros Hw Hx Hm. rewrite <- (trunc_small w x Hx). rewrite trunc_testbit by lia.
  destruct (Z.ltb_spec m w); [lia|reflexivity].
Qed.

Lemma init_in_range c : 0 <= c_w c -> in_range (c_w c) (init_state c).
Proof.
  intros Hw. unfold init_state. destruct (has_storage (c_kind c)).
  - apply trunc_range. assumption.
  - unfold in_range. pose proof (pow2_pos (c_w c) Hw). lia.
Qed.

Lemma next_in_range c s i : 0 <= c_w c -> in_range (c_w c) s -> in_range (c_w c) (next c s i).
Proof.
  intros Hw Hs. destruct (c_kind c) eqn:Hk; try (unfold next; rewrite Hk; exact Hs).
  - rewrite next_rw by assumption. destruct (p_w_stb i); [apply trunc_range|]; assumption.
  - apply in_range_of_bits; [assumption|]. intros m Hm. rewrite rw1c_bit by assumption.
    destruct (Z.ltb_spec m (c_w c)) as [H|_]; [lia|]. rewrite andb_false_r.
    apply (bits_of_in_range (c_w c)); assumption.
  - apply in_range_of_bits; [assumption|]. intros m Hm. rewrite rw1s_bit by assumption.
    destruct (Z.ltb_spec m (c_w c)) as [H|_]; [lia|]. rewrite andb_false_r.
    apply (bits_of_in_range (c_w c)); assumption.
Qed.

Lemma state_at_in_range c is : 0 <= c_w c -> forall t, in_range (c_w c) (state_at c is t).
Proof.
  intros Hw. induction t as [|t IH].
  - rewrite state_at_0. apply init_in_range. assumption.
  - destruct (nth_error is t) as [i|] eqn:E.
    + rewrite (state_at_S c is t i E). apply next_in_range; assumption.
    + unfold state_at in *. apply nth_error_None in E.
      rewrite firstn_all2 by lia. rewrite firstn_all2 in IH by lia. exact IH.
Qed.

(* ---------- RW: holds init until written, then the last value written ---------- *)

Lemma rw_until_written c is : c_kind c = KRW -> forall t, (t <= length is)%nat ->
  (forall u i, (u < t)%nat -> nth_error is u = Some i -> p_w_stb i = false) ->
  state_at c is t = trunc (c_w c) (c_init c).
Proof.
  intros Hk. induction t as [|t IH]; intros Ht Hno.
  - rewrite state_at_0. unfold init_state. rewrite Hk. reflexivity.
  - destruct (nth_error is t) as [it|] eqn:Et; [|apply nth_error_None in Et; lia].
    rewrite (state_at_S c is t it Et), next_rw by assumption.
    rewrite (Hno t it (Nat.lt_succ_diag_r t) Et).
    apply IH; [lia|]. intros u i Hu. apply Hno. lia.
Qed.

Lemma rw_last_write c is : c_kind c = KRW -> forall t u i, (u < t <= length is)%nat ->
  nth_error is u = Some i -> p_w_stb i = true ->
  (forall v j, (u < v < t)%nat -> nth_error is v = Some j -> p_w_stb j = false) ->
  state_at c is t = trunc (c_w c) (p_w_data i).
Proof.
  intros Hk. induction t as [|t IH]; intros u i Hut Hu Hs Hno; [lia|].
  destruct (nth_error is t) as [it|] eqn:Et; [|apply nth_error_None in Et; lia].
  rewrite (state_at_S c is t it Et), next_rw by assumption.
  destruct (Nat.eq_dec u t) as [Heq|Hne].
  - subst u. rewrite Hu in Et. injection Et as <-. rewrite Hs. reflexivity.
  - rewrite (Hno t it ltac:(lia) Et).
    apply (IH u i); [lia|assumption|assumption|]. intros v j Hv. apply Hno. lia.
Qed.

(* ---------- per-bit trace behaviour, shared by RW1C and RW1S ---------- *)

Section PerBit.
  Variable c : cfg.
  Variable n : Z.
  Variables St Cl : inp -> bool.
  Hypothesis Hstep : forall s i,
    Z.testbit (next c s i) n = bit_rule (Cl i) (St i) (Z.testbit s n).

  Lemma perbit_set_until_cleared is : forall t u i, (u < t <= length is)%nat ->
    nth_error is u = Some i -> St i = true ->
    (forall v j, (u < v < t)%nat -> nth_error is v = Some j -> Cl j = false \/ St j = true) ->
    Z.testbit (state_at c is t) n = true.
  Proof.
    induction t as [|t IH]; intros u i Hut Hu HS Hbt; [lia|].
    destruct (nth_error is t) as [it|] eqn:Et; [|apply nth_error_None in Et; lia].
    rewrite (state_at_S c is t it Et), Hstep. unfold bit_rule.
    destruct (Nat.eq_dec u t) as [Heq|Hne].
    - subst u. rewrite Hu in Et. injection Et as <-. rewrite HS. reflexivity.
    - assert (Hb : Z.testbit (state_at c is t) n = true).
      { apply (IH u i); [lia|assumption|assumption|]. intros v j Hv. apply Hbt. lia. }
      rewrite Hb. destruct (Hbt t it ltac:(lia) Et) as [H|H]; rewrite H;
        [destruct (St it)|]; reflexivity.
  Qed.

  Lemma perbit_clear_until_set is : forall t u i, (u < t <= length is)%nat ->
    nth_error is u = Some i -> Cl i = true -> St i = false ->
    (forall v j, (u < v < t)%nat -> nth_error is v = Some j -> St j = false) ->
    Z.testbit (state_at c is t) n = false.
  Proof.
    induction t as [|t IH]; intros u i Hut Hu HC HS Hbt; [lia|].
    destruct (nth_error is t) as [it|] eqn:Et; [|apply nth_error_None in Et; lia].
    rewrite (state_at_S c is t it Et), Hstep. unfold bit_rule.
    destruct (Nat.eq_dec u t) as [Heq|Hne].
    - subst u. rewrite Hu in Et. injection Et as <-. rewrite HS, HC. reflexivity.
    - assert (Hb : Z.testbit (state_at c is t) n = false).
      { apply (IH u i); [lia|assumption|assumption|assumption|]. intros v j Hv. apply Hbt. lia. }
      rewrite Hb, (Hbt t it ltac:(lia) Et). destruct (Cl it); reflexivity.
  Qed.

  Lemma perbit_init_until_touched is : forall t, (t <= length is)%nat ->
    (forall v j, (v < t)%nat -> nth_error is v = Some j -> St j = false /\ Cl j = false) ->
    Z.testbit (state_at c is t) n = Z.testbit (init_state c) n.
  Proof.
    induction t as [|t IH]; intros Ht Hbt; [reflexivity|].
    destruct (nth_error is t) as [it|] eqn:Et; [|apply nth_error_None in Et; lia].
    rewrite (state_at_S c is t it Et), Hstep. unfold bit_rule.
    destruct (Hbt t it (Nat.lt_succ_diag_r t) Et) as [H1 H2]. rewrite H1, H2.
    apply IH; [lia|]. intros v j Hv. apply Hbt. lia.
  Qed.
End PerBit.

Lemma rw1c_bit_in c n : c_kind c = KRW1C -> 0 <= n < c_w c -> forall s i,
  Z.testbit (next c s i) n = bit_rule (rw1c_clr i n) (rw1c_set i n) (Z.testbit s n).
Proof.
  intros Hk Hn s i. rewrite rw1c_bit by (assumption || lia).
  destruct (Z.leb_spec 0 n); [|lia]. destruct (Z.ltb_spec n (c_w c)); [|lia]. reflexivity.
Qed.

Lemma rw1s_bit_in c n : c_kind c = KRW1S -> 0 <= n < c_w c -> forall s i,
  Z.testbit (next c s i) n = bit_rule (rw1s_clr i n) (rw1s_set i n) (Z.testbit s n).
Proof.
  intros Hk Hn s i. rewrite rw1s_bit by (assumption || lia).
  destruct (Z.leb_spec 0 n); [|lia]. destruct (Z.ltb_spec n (c_w c)); [|lia]. reflexivity.
Qed.

Lemma init_bit c n : has_storage (c_kind c) = true -> 0 <= n < c_w c ->
  Z.testbit (init_state c) n = Z.testbit (c_init c) n.
Proof.
  intros Hs Hn. unfold init_state. rewrite Hs, trunc_testbit by lia.
  destruct (Z.ltb_spec n (c_w c)); [reflexivity|lia].
Qed.

(* ---------- untouched bits keep their value (one step) ---------- *)

Lemma rw1c_untouched c s i n : c_kind c = KRW1C -> 0 <= c_w c ->
  (0 <= n < c_w c -> rw1c_set i n = false /\ rw1c_clr i n = false) ->
  Z.testbit (next c s i) n = Z.testbit s n.
Proof.
  intros Hk Hw H. rewrite rw1c_bit by assumption.
  destruct (Z.leb_spec 0 n) as [Ha|Ha]; destruct (Z.ltb_spec n (c_w c)) as [Hb|Hb]; cbn [andb];
    try reflexivity.
  destruct H as [H1 H2]; [lia|]. unfold bit_rule. rewrite H1, H2. reflexivity.
Qed.

Lemma rw1s_untouched c s i n : c_kind c = KRW1S -> 0 <= c_w c ->
  (0 <= n < c_w c -> rw1s_set i n = false /\ rw1s_clr i n = false) ->
  Z.testbit (next c s i) n = Z.testbit s n.
Proof.
  intros Hk Hw H. rewrite rw1s_bit by assumption.
  destruct (Z.leb_spec 0 n) as [Ha|Ha]; destruct (Z.ltb_spec n (c_w c)) as [Hb|Hb]; cbn [andb];
    try reflexivity.
  destruct H as [H1 H2]; [lia|]. unfold bit_rule. rewrite H1, H2. reflexivity.
Qed.

(* ---------- reserved actions ---------- *)

Lemma res_run c : c_kind c = KRes -> forall is s, run c s is = map (fun _ => zero_out) is.
Proof.
  intros Hk. induction is as [|i is IH]; intros s; [reflexivity|].
  cbn [run map]. rewrite IH. unfold out. rewrite Hk. reflexivity.
Qed.

Lemma no_storage_state c : has_storage (c_kind c) = false -> forall is s, state_after c s is = s.
Proof.
  intros Hk. induction is as [|i is IH]; intros s; [reflexivity|].
  cbn [state_after]. rewrite IH. unfold next. destruct (c_kind c); try discriminate; reflexivity.
Qed.

(* ---------- the same facts on what is observed at the ports ---------- *)

Lemma obs_storage c is t o : has_storage (c_kind c) = true ->
  nth_error (run0 c is) t = Some o ->
  o_port_r_data o = state_at c is t /\ o_data o = state_at c is t /\ (t < length is)%nat.
Proof.
  intros Hs H. destruct (run0_nth c is t o H) as (i & Hi & -> & Hlt).
  unfold out. destruct (c_kind c); try discriminate; auto.
Qed.

(* consecutive observations are related by `next` on the input in between *)
Lemma obs_next c is t o o' i : has_storage (c_kind c) = true ->
  nth_error (run0 c is) t = Some o -> nth_error (run0 c is) (S t) = Some o' ->
  nth_error is t = Some i ->
  o_port_r_data o' = next c (o_port_r_data o) i.
Proof.
  intros Hs H H' Hi.
  destruct (obs_storage c is t o Hs H) as (-> & _ & _).
  destruct (obs_storage c is (S t) o' Hs H') as (-> & _ & _).
  apply state_at_S. assumption.
Qed.

Lemma rw_holds_last_write c is t o : c_kind c = KRW ->
  nth_error (run0 c is) t = Some o ->
  ((forall u i, (u < t)%nat -> nth_error is u = Some i -> p_w_stb i = false) ->
     o_port_r_data o = trunc (c_w c) (c_init c)) /\
  (forall u i, (u < t)%nat -> nth_error is u = Some i -> p_w_stb i = true ->
     (forall v j, (u < v < t)%nat -> nth_error is v = Some j -> p_w_stb j = false) ->
     o_port_r_data o = trunc (c_w c) (p_w_data i)).
Proof.
  intros Hk H.
  destruct (obs_storage c is t o) as (Hr & _ & Hlt); [rewrite Hk; reflexivity|assumption|].
  rewrite Hr. split.
  - intros Hno. apply rw_until_written; [assumption|lia|exact Hno].
  - intros u i Hu Hi Hs Hno. apply (rw_last_write c is Hk t u i); [lia|assumption|assumption|exact Hno].
Qed.

Lemma rw1c_bit_set_until_cleared c is t o u i n : c_kind c = KRW1C -> 0 <= n < c_w c ->
  nth_error (run0 c is) t = Some o -> (u < t)%nat -> nth_error is u = Some i ->
  Z.testbit (in_set i) n = true ->
  (forall v j, (u < v < t)%nat -> nth_error is v = Some j ->
     p_w_stb j && Z.testbit (p_w_data j) n = false \/ Z.testbit (in_set j) n = true) ->
  Z.testbit (o_port_r_data o) n = true.
Proof.
  intros Hk Hn Ho Hut Hu Hset Hbt.
  destruct (obs_storage c is t o) as (Hr & _ & Hlt); [rewrite Hk; reflexivity|assumption|].
  rewrite Hr.
  apply (perbit_set_until_cleared c n (fun i => rw1c_set i n) (fun i => rw1c_clr i n)
           (rw1c_bit_in c n Hk Hn) is t u i); [lia|assumption|exact Hset|exact Hbt].
Qed.

Lemma rw1c_bit_clear_until_set c is t o u i n : c_kind c = KRW1C -> 0 <= n < c_w c ->
  nth_error (run0 c is) t = Some o -> (u < t)%nat -> nth_error is u = Some i ->
  p_w_stb i && Z.testbit (p_w_data i) n = true -> Z.testbit (in_set i) n = false ->
  (forall v j, (u < v < t)%nat -> nth_error is v = Some j -> Z.testbit (in_set j) n = false) ->
  Z.testbit (o_port_r_data o) n = false.
Proof.
  intros Hk Hn Ho Hut Hu Hclr Hset Hbt.
  destruct (obs_storage c is t o) as (Hr & _ & Hlt); [rewrite Hk; reflexivity|assumption|].
  rewrite Hr.
  apply (perbit_clear_until_set c n (fun i => rw1c_set i n) (fun i => rw1c_clr i n)
           (rw1c_bit_in c n Hk Hn) is t u i); [lia|assumption|exact Hclr|exact Hset|exact Hbt].
Qed.

Lemma rw1c_bit_init_until_touched c is t o n : c_kind c = KRW1C -> 0 <= n < c_w c ->
  nth_error (run0 c is) t = Some o ->
  (forall v j, (v < t)%nat -> nth_error is v = Some j ->
     Z.testbit (in_set j) n = false /\ p_w_stb j && Z.testbit (p_w_data j) n = false) ->
  Z.testbit (o_port_r_data o) n = Z.testbit (c_init c) n.
Proof.
  intros Hk Hn Ho Hbt.
  destruct (obs_storage c is t o) as (Hr & _ & Hlt); [rewrite Hk; reflexivity|assumption|].
  rewrite Hr, <- (init_bit c n) by (rewrite ?Hk; auto).
  apply (perbit_init_until_touched c n (fun i => rw1c_set i n) (fun i => rw1c_clr i n)
           (rw1c_bit_in c n Hk Hn) is t); [lia|exact Hbt].
Qed.

Lemma rw1s_bit_set_until_cleared c is t o u i n : c_kind c = KRW1S -> 0 <= n < c_w c ->
  nth_error (run0 c is) t = Some o -> (u < t)%nat -> nth_error is u = Some i ->
  p_w_stb i && Z.testbit (p_w_data i) n = true ->
  (forall v j, (u < v < t)%nat -> nth_error is v = Some j ->
     Z.testbit (in_clear j) n = false \/ p_w_stb j && Z.testbit (p_w_data j) n = true) ->
  Z.testbit (o_port_r_data o) n = true.
Proof.
  intros Hk Hn Ho Hut Hu Hset Hbt.
  destruct (obs_storage c is t o) as (Hr & _ & Hlt); [rewrite Hk; reflexivity|assumption|].
  rewrite Hr.
  apply (perbit_set_until_cleared c n (fun i => rw1s_set i n) (fun i => rw1s_clr i n)
           (rw1s_bit_in c n Hk Hn) is t u i); [lia|assumption|exact Hset|exact Hbt].
Qed.

Lemma rw1s_bit_clear_until_set c is t o u i n : c_kind c = KRW1S -> 0 <= n < c_w c ->
  nth_error (run0 c is) t = Some o -> (u < t)%nat -> nth_error is u = Some i ->
  Z.testbit (in_clear i) n = true -> p_w_stb i && Z.testbit (p_w_data i) n = false ->
  (forall v j, (u < v < t)%nat -> nth_error is v = Some j ->
     p_w_stb j && Z.testbit (p_w_data j) n = false) ->
  Z.testbit (o_port_r_data o) n = false.
Proof.
  intros Hk Hn Ho Hut Hu Hclr Hset Hbt.
  destruct (obs_storage c is t o) as (Hr & _ & Hlt); [rewrite Hk; reflexivity|assumption|].
  rewrite Hr.
  apply (perbit_clear_until_set c n (fun i => rw1s_set i n) (fun i => rw1s_clr i n)
           (rw1s_bit_in c n Hk Hn) is t u i); [lia|assumption|exact Hclr|exact Hset|exact Hbt].
Qed.

Lemma rw1s_bit_init_until_touched c is t o n : c_kind c = KRW1S -> 0 <= n < c_w c ->
  nth_error (run0 c is) t = Some o ->
  (forall v j, (v < t)%nat -> nth_error is v = Some j ->
     p_w_stb j && Z.testbit (p_w_data j) n = false /\ Z.testbit (in_clear j) n = false) ->
  Z.testbit (o_port_r_data o) n = Z.testbit (c_init c) n.
Proof.
  intros Hk Hn Ho Hbt.
  destruct (obs_storage c is t o) as (Hr & _ & Hlt); [rewrite Hk; reflexivity|assumption|].
  rewrite Hr, <- (init_bit c n) by (rewrite ?Hk; auto).
  apply (perbit_init_until_touched c n (fun i => rw1s_set i n) (fun i => rw1s_clr i n)
           (rw1s_bit_in c n Hk Hn) is t); [lia|exact Hbt].
Qed.

Lemma r_passthrough c is t i o : c_kind c = KR ->
  nth_error is t = Some i -> nth_error (run0 c is) t = Some o ->
  o_port_r_data o = trunc (c_w c) (in_r_data i) /\ o_r_stb o = p_r_stb i.
Proof.
  intros Hk Hi Ho. destruct (run0_nth c is t o Ho) as (i' & Hi' & -> & _).
  rewrite Hi in Hi'. injection Hi' as <-. unfold out. rewrite Hk. split; reflexivity.
Qed.

Lemma w_passthrough c is t i o : c_kind c = KW ->
  nth_error is t = Some i -> nth_error (run0 c is) t = Some o ->
  o_w_data o = trunc (c_w c) (p_w_data i) /\ o_w_stb o = p_w_stb i.
Proof.
  intros Hk Hi Ho. destruct (run0_nth c is t o Ho) as (i' & Hi' & -> & _).
  rewrite Hi in Hi'. injection Hi' as <-. unfold out. rewrite Hk. split; reflexivity.
Qed.

Lemma reserved_inert c is : c_kind c = KRes ->
  run0 c is = map (fun _ => zero_out) is /\ forall t, state_at c is t = 0.
Proof.
  intros Hk. split; [apply res_run; assumption|].
  intros t. unfold state_at. rewrite no_storage_state by (rewrite Hk; reflexivity).
  unfold init_state. rewrite Hk. reflexivity.
Qed.

Lemma reserved_ignores_inputs c is is' : c_kind c = KRes -> length is = length is' ->
  run0 c is = run0 c is'.
Proof.
  intros Hk Hl. rewrite (proj1 (reserved_inert c is Hk)), (proj1 (reserved_inert c is' Hk)).
  revert is' Hl. induction is as [|x is IH]; intros [|y is'] Hl; try discriminate; [reflexivity|].
  cbn [map]. f_equal. apply IH. simpl in Hl. lia.
Qed.

Lemma data_eq_read c is t o : has_storage (c_kind c) = true ->
  nth_error (run0 c is) t = Some o ->
  o_data o = o_port_r_data o /\ o_data o = state_at c is t.
Proof.
  intros Hs Ho. destruct (obs_storage c is t o Hs Ho) as (H1 & H2 & _). rewrite H1, H2. auto.
Qed.

Lemma outputs_in_range c is t o : 0 <= c_w c -> nth_error (run0 c is) t = Some o ->
  in_range (c_w c) (o_port_r_data o) /\ in_range (c_w c) (o_data o) /\ in_range (c_w c) (o_w_data o).
Proof.
  intros Hw Ho. destruct (run0_nth c is t o Ho) as (i & Hi & -> & _).
  pose proof (state_at_in_range c is Hw t) as Hs.
  assert (Hz : in_range (c_w c) 0) by (unfold in_range; pose proof (pow2_pos (c_w c) Hw); lia).
  unfold out. destruct (c_kind c); cbn [o_port_r_data o_data o_w_data zero_out];
    (split; [|split]); try exact Hs; try exact Hz; apply trunc_range; assumption.
Qed.
