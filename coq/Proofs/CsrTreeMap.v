(* C06, composition clause, part 2: from the construction (Model/Hierarchy.v: csr_map, csr_hw) to the
   premises and the vocabulary of Proofs/CsrTreeFlat.v.
     - the elaborated hardware of every CSR tree in C01's domain has the geometry `geom`;
     - the multiplexer leaves of the hardware and the root map's all_resources() list the same registers:
       register number k of leaf L, with leaf-local range [start, stop), is reported by the root map with
       the range [hl_base L + start, hl_base L + stop), and nothing else is reported;
     - every multiplexer of the tree has the data width of the root. *)
From Coq Require Import ZArith List Bool Lia ZifyBool Arith Permutation.
From Soc Require Import Lib.Res Lib.PyList Lib.Bits Model.MemoryMap Model.MemSpec Model.Hierarchy Model.MuxSpec
  Proofs.RangeMap Proofs.LookupArith Proofs.LookupWf Proofs.Lookup Proofs.MemArith Proofs.HierMap
  Proofs.HierCsr Proofs.HierInert Proofs.HierWf Proofs.CsrTreeFlat.
From Soc Require Lib.CsrPattern Model.Mux Model.CsrDecoder Proofs.MuxTable Proofs.CsrDecoder.
Import ListNotations.
Open Scope Z_scope.

Local Opaque Z.pow.

(* ------------------------------------------------------------------ a decoder's windows and Cases *)

(* everything known about a window of a decoder's finished map (cf. the proof of creach_good) *)
Lemma dec_windows aw dw al subs m hk :
  Forall (fun p : wopt * csrnode => map_good (snd p)) subs -> Forall sub_dom subs ->
  csr_map (CsrDec aw dw al subs) = Ok m -> hw_kids subs = Ok hk ->
  forall wn c, In (wn, c) (m_wins m) ->
    exists j o cn w hj, nth_error subs j = Some (o, cn) /\ w_id wn = Z.of_nat j /\
      csr_map cn = Ok w /\ c = set_frozen w /\ w_step wn = 1 /\
      nth_error hk j = Some (csr_aw cn, hj) /\ csr_hw cn = Ok hj /\
      m_aw w = csr_aw cn /\ 0 < csr_aw cn <= aw /\ wf_tree w /\
      w_start wn mod 2 ^ csr_aw cn = 0 /\ 0 <= w_start wn /\
      w_start wn + 2 ^ csr_aw cn <= w_stop wn /\ w_stop wn <= 2 ^ aw.
Proof.
  intros Hg Hdom Hm Ehk wn c Hwc.
  destruct (dec_map_facts _ _ _ _ _ Hg Hdom Hm) as [F Pa]. destruct F as [Hwt Faw Fdw Fress Flen Fwin].
  destruct (hw_kids_nth _ _ Ehk) as [Hklen Hknth].
  pose proof (wf_tree_node _ Hwt) as Hwf.
  pose proof Hwf as (_ & _ & _ & _ & Hch & Hstop & _ & _ & Hndw & _).
  rewrite Forall_forall in Hg.
  destruct (In_nth_error _ _ Hwc) as [j Hj].
  assert (Hlt : (j < length subs)%nat). { rewrite <- Flen. apply nth_error_Some. congruence. }
  destruct (nth_error subs j) as [[o cn]|] eqn:Es; [|apply nth_error_None in Es; lia].
  destruct (Fwin _ _ _ _ _ Hj Es) as (w & Hmw & -> & Hid & Hstep & Hal).
  destruct (Hknth _ _ _ Es) as (hj & Hhj & Hhw).
  pose proof (nth_error_In _ _ Es) as Hin.
  destruct (Hg _ Hin _ Hmw) as (Hww & Haw & _ & Hpos). cbn [snd] in *.
  destruct (win_step_ok _ _ _ Hwf Hwc) as [_ Hlen]. rewrite Hstep, Z.div_1_r, frozen_aw, Haw in Hlen.
  pose proof (Hstop _ (win_has_entry _ _ Hwf Hwc)) as Hst. cbn [ent_of_win e_stop fst] in Hst.
  rewrite Faw in Hst.
  pose proof (chain_all_ge _ _ Hch) as Hge. rewrite Forall_forall in Hge.
  pose proof (Hge _ (win_has_entry _ _ Hwf Hwc)) as [Hs0 _]. cbn [ent_of_win e_start fst] in Hs0.
  assert (Hle : csr_aw cn <= aw).
  { apply (Z.pow_le_mono_r_iff 2); lia. }
  exists j, o, cn, w, hj. rewrite Haw in Hal.
  repeat (split; [solve [auto | lia]|]). lia.
Qed.

(* a Case of the decoder and the window it was made from *)
Lemma dec_subs_windows aw dw al subs m hk :
  Forall (fun p : wopt * csrnode => map_good (snd p)) subs -> Forall sub_dom subs ->
  csr_map (CsrDec aw dw al subs) = Ok m -> hw_kids subs = Ok hk ->
  forall w ch, In (w, ch) (dec_subs (m_ranges m) hk) <->
    exists wn c, In (wn, c) (m_wins m) /\
      w = {| CsrDecoder.s_aw := m_aw c; CsrDecoder.s_start := w_start wn; CsrDecoder.s_stop := w_stop wn |} /\
      nth_error hk (Z.to_nat (w_id wn)) = Some (m_aw c, ch).
Proof.
  intros Hg Hdom Hm Ehk w ch.
  destruct (dec_map_facts _ _ _ _ _ Hg Hdom Hm) as [F Pa]. destruct F as [Hwt Faw Fdw Fress Flen Fwin].
  pose proof (wf_tree_node _ Hwt) as Hwf. split.
  - intros Hin. apply dec_subs_In in Hin as (x & idk & caw & Hx & Ea & En & ->).
    destruct (range_entry_cases _ _ Hwf Hx) as [(rr & Hrr & _)|([wn c] & Hwc & ->)];
      [rewrite Fress in Hrr; contradiction|].
    cbn [ent_of_win e_asg e_start e_stop fst] in *. injection Ea as <-.
    destruct (dec_windows _ _ _ _ _ _ Hg Hdom Hm Ehk _ _ Hwc)
      as (j & o & cn & wj & hj & Es & Hid & Hmw & -> & _ & Hhj & _ & Haw & _).
    rewrite Hid, Nat2Z.id, Hhj in En. injection En as <- <-.
    exists wn, (set_frozen wj). rewrite frozen_aw, Haw, Hid, Nat2Z.id. auto.
  - intros (wn & c & Hwc & -> & Hk). apply dec_subs_In.
    exists (ent_of_win (wn, c)), (w_id wn), (m_aw c).
    split; [apply win_has_entry; assumption|]. split; [reflexivity|]. split; [exact Hk|reflexivity].
Qed.

(* the Cases come in ascending, disjoint order *)
Lemma dec_subs_ordered {H} (kids : list (Z * H)) : forall ranges lo, chain lo ranges ->
  ForallOrdPairs PD.range_disj (map fst (dec_subs ranges kids)) /\
  Forall (fun w => lo <= CsrDecoder.s_start w) (map fst (dec_subs ranges kids)).
Proof.
  induction ranges as [|x l IH]; intros lo Hc; [split; constructor|].
  cbn [chain] in Hc. destruct Hc as (H1 & H2 & H3). destruct (IH _ H3) as [IH1 IH2].
  assert (IH2' : Forall (fun w => lo <= CsrDecoder.s_start w) (map fst (dec_subs l kids))).
  { eapply Forall_impl; [|exact IH2]. cbv beta. intros w Hw. lia. }
  unfold dec_subs in *. cbn [flat_map].
  destruct (e_asg x) as [id|id]; [exact (conj IH1 IH2')|].
  destruct (nth_error kids (Z.to_nat id)) as [[caw h]|]; [|exact (conj IH1 IH2')].
  cbn [app map fst]. split.
  - constructor; [|exact IH1]. eapply Forall_impl; [|exact IH2]. cbv beta. intros w Hw.
    unfold PD.range_disj. cbn [CsrDecoder.s_start CsrDecoder.s_stop]. lia.
  - constructor; [cbn [CsrDecoder.s_start]; lia|exact IH2'].
Qed.

(* ------------------------------------------------------------------ geometry *)

Theorem csr_hw_geom n : csr_dom n -> forall m h, csr_map n = Ok m -> csr_hw n = Ok h -> geom (csr_aw n) h.
Proof.
  induction n as [aw dw al ops ov|aw dw al subs IH] using csrnode_ind'; intros Hdom m h Hm Hh.
  - cbn [csr_hw] in Hh. apply bind_ok in Hh as (m' & _ & Hh).
    destruct (Mux.mk_cfg dw (map snd (mux_regs m' ops)) ov); [|discriminate]. injection Hh as <-. exact I.
  - apply csr_dom_dec in Hdom.
    assert (Hg : Forall (fun p : wopt * csrnode => map_good (snd p)) subs).
    { rewrite Forall_forall in *. intros p Hp. apply csr_map_good. exact (proj2 (Hdom p Hp)). }
    rewrite csr_hw_dec, Hm in Hh. cbn [bind] in Hh. apply bind_ok in Hh as (hk & Ehk & Hh).
    injection Hh as <-. cbn [csr_aw].
    destruct (dec_map_facts _ _ _ _ _ Hg Hdom Hm) as [F Pa]. destruct F as [Hwt Faw Fdw Fress Flen Fwin].
    pose proof (wf_tree_node _ Hwt) as Hwf. pose proof Hwf as (_ & _ & _ & _ & Hch & _).
    pose proof (dec_windows _ _ _ _ _ _ Hg Hdom Hm Ehk) as Hwin.
    pose proof (dec_subs_windows _ _ _ _ _ _ Hg Hdom Hm Ehk) as Hsub.
    assert (Hr : Forall (PD.wf_range aw) (map fst (dec_subs (m_ranges m) hk))).
    { apply Forall_forall. intros w Hw. apply in_map_iff in Hw as ([w' ch] & <- & Hin). cbn [fst].
      apply Hsub in Hin as (wn & c & Hwc & -> & _).
      destruct (Hwin _ _ Hwc) as (j & o & cn & wj & hj & _ & _ & _ & -> & _ & _ & _ & Haw & Hrg & _ & Hal & Hs0 & Hlen & Hst).
      unfold PD.wf_range. cbn [CsrDecoder.s_aw CsrDecoder.s_start CsrDecoder.s_stop].
      rewrite frozen_aw, Haw. repeat split; auto; lia. }
    destruct (PD.ranges_give_spans aw _ Hr (proj1 (dec_subs_ordered hk _ _ Hch))) as [Hws Hds].
    apply geom_dec. split; [reflexivity|]. split; [exact Hws|]. split; [exact Hds|].
    apply Forall_forall. intros [w ch] Hin. cbn [fst snd].
    apply Hsub in Hin as (wn & c & Hwc & -> & Hk).
    destruct (Hwin _ _ Hwc) as (j & o & cn & wj & hj & Es & Hid & Hmw & -> & _ & Hhj & Hhw & Haw & _).
    rewrite Hid, Nat2Z.id, Hhj in Hk. injection Hk as _ <-.
    cbn [CsrDecoder.s_aw]. rewrite frozen_aw, Haw.
    pose proof (nth_error_In _ _ Es) as Hi. rewrite Forall_forall in IH, Hdom.
    exact (IH _ Hi (proj2 (Hdom _ Hi)) _ _ Hmw Hhw).
Qed.

(* ------------------------------------------------------------------ registers: hardware = map *)

(* the hardware's registers and the map's report coincide *)
Definition reg_corr (aw : Z) (h : chw) (l : list info) : Prop :=
  (forall i, In i l -> exists L k r, In L (hw_leaves aw h) /\ leaf_reg L k (i_res i) r /\
     i_start i = hl_base L + Mux.r_start r /\ i_end i = hl_base L + Mux.r_stop r) /\
  (forall L k id r, In L (hw_leaves aw h) -> nth_error (hl_ids L) k = Some id ->
     nth_error (Mux.c_regs (hl_cfg L)) k = Some r ->
     exists i, In i l /\ i_res i = id /\ leaf_reg L k id r /\ i_start i = hl_base L + Mux.r_start r /\
               i_end i = hl_base L + Mux.r_stop r).

Lemma nth_error_split {X Y} (l : list (X * Y)) k x y :
  nth_error (map fst l) k = Some x -> nth_error (map snd l) k = Some y -> nth_error l k = Some (x, y).
Proof.
  rewrite !nth_error_map. destruct (nth_error l k) as [[a b]|]; cbn; [|discriminate].
  intros [= ->] [= ->]. reflexivity.
Qed.

Lemma mux_reg_corr aw dw al ops ov m h l :
  csr_map (MuxLeaf aw dw al ops ov) = Ok m -> csr_hw (MuxLeaf aw dw al ops ov) = Ok h ->
  all_resources m = Ok l -> reg_corr aw h l.
Proof.
  intros Hm Hh Hl. cbn [csr_map csr_hw] in *. rewrite Hm in Hh. cbn [bind] in Hh.
  destruct (Mux.mk_cfg dw (map snd (mux_regs m ops)) ov) as [c|] eqn:Ec; [|discriminate].
  injection Hh as <-. pose proof (mk_cfg_regs _ _ _ _ Ec) as Hregs.
  destruct (mux_map_spec _ _ _ _ _ Hm) as (Hwt & Hw & Haw & _ & _ & _ & Hids).
  pose proof (wf_tree_node _ Hwt) as Hwf.
  pose proof Hwf as (_ & _ & _ & _ & Hch & Hstop & _ & Hndr & _).
  assert (Hent : forall x, In x (m_ranges m) -> exists rr, In rr (m_ress m) /\ x = ent_of_res rr).
  { intros x Hx. destruct (range_entry_cases _ _ Hwf Hx) as [H|(wc & Hwc & _)]; [exact H|].
    rewrite Hw in Hwc. contradiction. }
  unfold hw_leaves. cbn [hw_leaves_from]. split.
  - intros i Hi.
    destruct (in_inv _ _ _ Hwf Hl Hi) as [(rr & Hrr & Hmk)|(wn & c0 & _ & _ & Hwc & _)];
      [|rewrite Hw in Hwc; contradiction].
    apply mk_info_ok in Hmk as (-> & Hs0 & Hse). cbn [i_res i_start i_end].
    destruct (Hids rr Hrr) as (lf & El).
    set (r := {| Mux.r_start := r_start rr; Mux.r_stop := r_stop rr; Mux.r_width := l_width lf;
                 Mux.r_rd := l_rd lf; Mux.r_wr := l_wr lf |}).
    assert (Hin : In (r_id rr, r) (mux_regs m ops)).
    { apply mux_regs_In. exists (ent_of_res rr), rr, lf.
      split; [apply res_has_entry; assumption|]. split; [reflexivity|].
      split; [apply find_res_nodup; assumption|]. split; [exact El|reflexivity]. }
    apply In_nth_error in Hin as [k Hk].
    pose proof (Hstop _ (res_has_entry _ _ Hwf Hrr)) as He. cbn [ent_of_res e_stop] in He. rewrite Haw in He.
    eexists _, k, r. split; [left; reflexivity|]. unfold leaf_reg. cbn [hl_ids hl_cfg hl_base hl_aw].
    rewrite Hregs, !nth_error_map, Hk. cbn [option_map fst snd r Mux.r_start Mux.r_stop].
    repeat split; lia.
  - intros L k id r [<-|[]] Hid Hr. unfold leaf_reg. cbn [hl_ids hl_cfg hl_base hl_aw] in *.
    pose proof Hr as Hr0. rewrite Hregs in Hr.
    pose proof (nth_error_In _ _ (nth_error_split _ _ _ _ Hid Hr)) as Hin.
    apply mux_regs_In in Hin as (x & rr & lf & Hx & Ea & Ef & El & ->).
    pose proof (chain_all_ge _ _ Hch) as Hge. rewrite Forall_forall in Hge.
    pose proof (Hge _ Hx) as [Hx0 Hx1]. pose proof (Hstop _ Hx) as Hx2. rewrite Haw in Hx2.
    destruct (Hent x Hx) as (rr' & Hrr' & ->). cbn [ent_of_res e_asg e_start e_stop] in *.
    injection Ea as <-.
    destruct (res_contrib _ _ _ Hwf Hl Hrr') as (i & Hmk & Hi & _).
    apply mk_info_ok in Hmk as (-> & _). eexists. split; [exact Hi|].
    cbn [i_res i_start i_end Mux.r_start Mux.r_stop]. repeat split; auto; lia.
Qed.

Lemma leaf_reg_shift d L k id r : leaf_reg L k id r -> leaf_reg (hshift d L) k id r.
Proof. exact (fun H => H). Qed.

Theorem csr_reg_corr n : csr_dom n -> forall m h l,
  csr_map n = Ok m -> csr_hw n = Ok h -> all_resources m = Ok l -> reg_corr (csr_aw n) h l.
Proof.
  induction n as [aw dw al ops ov|aw dw al subs IH] using csrnode_ind'; intros Hdom m h l Hm Hh Hl.
  - cbn [csr_aw]. eapply mux_reg_corr; eauto.
  - apply csr_dom_dec in Hdom.
    assert (Hg : Forall (fun p : wopt * csrnode => map_good (snd p)) subs).
    { rewrite Forall_forall in *. intros p Hp. apply csr_map_good. exact (proj2 (Hdom p Hp)). }
    rewrite csr_hw_dec, Hm in Hh. cbn [bind] in Hh. apply bind_ok in Hh as (hk & Ehk & Hh).
    injection Hh as <-. cbn [csr_aw].
    destruct (dec_map_facts _ _ _ _ _ Hg Hdom Hm) as [F Pa]. destruct F as [Hwt Faw Fdw Fress Flen Fwin].
    pose proof (wf_tree_node _ Hwt) as Hwf.
    pose proof (dec_windows _ _ _ _ _ _ Hg Hdom Hm Ehk) as Hwin.
    pose proof (dec_subs_windows _ _ _ _ _ _ Hg Hdom Hm Ehk) as Hsub.
    rewrite Forall_forall in IH, Hdom. split.
    + (* map -> hardware *)
      intros i Hi.
      destruct (in_inv _ _ _ Hwf Hl Hi) as [(rr & Hrr & _)|(wn & c & lc & i' & Hwc & Hc & Hi' & Ht)];
        [rewrite Fress in Hrr; contradiction|].
      destruct (in_window _ _ _ _ _ _ Hwt Hwc Hc Hi' Ht) as (_ & _ & -> & _ & _).
      destruct (Hwin _ _ Hwc) as (j & o & cn & wj & hj & Es & Hid & Hmw & -> & Hstep & Hhj & Hhw & Haw & _).
      rewrite frozen_all_resources in Hc. pose proof (nth_error_In _ _ Es) as Hin.
      destruct (IH _ Hin (proj2 (Hdom _ Hin)) _ _ _ Hmw Hhw Hc) as [IH1 _]. cbn [snd] in IH1.
      destruct (IH1 i' Hi') as (L' & k & r & HL' & Hreg & Hs & He).
      exists (hshift (w_start wn) L'), k, r. split.
      * apply hw_leaves_dec_In.
        exists {| CsrDecoder.s_aw := csr_aw cn; CsrDecoder.s_start := w_start wn; CsrDecoder.s_stop := w_stop wn |}, hj, L'.
        split; [|split; [exact HL'|reflexivity]].
        apply Hsub. exists wn, (set_frozen wj). rewrite frozen_aw, Haw, Hid, Nat2Z.id. auto.
      * cbn [translated i_res i_start i_end hshift hl_base]. rewrite Hstep, !Z.div_1_r.
        split; [apply leaf_reg_shift; exact Hreg|]. lia.
    + (* hardware -> map *)
      intros L k id r HL Hid Hr. apply hw_leaves_dec_In in HL as (w & ch & L' & Hp & HL' & ->).
      apply Hsub in Hp as (wn & c & Hwc & -> & Hk).
      destruct (Hwin _ _ Hwc) as (j & o & cn & wj & hj & Es & Hidw & Hmw & -> & Hstep & Hhj & Hhw & Haw & _).
      rewrite Hidw, Nat2Z.id, Hhj in Hk. injection Hk as _ <-.
      cbn [CsrDecoder.s_aw CsrDecoder.s_start] in *. rewrite frozen_aw, Haw in HL'.
      destruct (win_contrib _ _ _ _ Hwf Hl Hwc) as (lc & lx & Hc & HF & _ & Hincl).
      pose proof Hc as Hc'. rewrite frozen_all_resources in Hc'. pose proof (nth_error_In _ _ Es) as Hin.
      destruct (IH _ Hin (proj2 (Hdom _ Hin)) _ _ _ Hmw Hhw Hc') as [_ IH2]. cbn [snd] in IH2.
      destruct (IH2 L' k id r HL' Hid Hr) as (i' & Hi' & Hid' & Hreg & Hs & He).
      destruct (Forall2_in_l _ _ _ _ HF Hi') as (i & Hi & Ht).
      destruct (in_window _ _ _ _ _ _ Hwt Hwc Hc Hi' Ht) as (_ & _ & -> & _ & _).
      eexists. split; [apply Hincl; exact Hi|].
      cbn [translated i_res i_start i_end hshift hl_base]. rewrite Hstep, !Z.div_1_r.
      split; [exact Hid'|]. split; [apply leaf_reg_shift; exact Hreg|]. lia.
Qed.

(* ------------------------------------------------------------------ one data width throughout *)

(* Decoder.add() refuses a subordinate of another data width (sparse is never passed) *)
Lemma add_windows_dw (kids : kidmaps) : forall m k m',
  wf_tree m -> Forall (fun x => wf_tree (snd x)) kids ->
  Forall (fun x : wopt * option bool * mmap => snd (fst x) = None) kids ->
  add_windows m k kids = Ok m' -> Forall (fun x => m_dw (snd x) = m_dw m) kids.
Proof.
  induction kids as [|[[o sp] w] kids IH]; cbn [add_windows]; intros m k m' Hm Hk Hs H; [constructor|].
  apply bind_ok in H as (m1 & E1 & H). apply bind_ok in H as ([m2 rr] & E2 & H).
  inversion Hk as [|? ? Hw Hk']; subst. inversion Hs as [|? ? Hs1 Hs']; subst. cbn [fst snd] in *. subst sp.
  destruct (do_aligns_wf _ _ _ Hm E1) as [Hm1 C1].
  apply core_fields in C1 as (Ca & Cd & Cl & Cr & Cs & Cw).
  pose proof (wf_tree_eq m1) as [Hm1' _]. specialize (Hm1' Hm1) as [Hn1 HF1].
  pose proof (wf_tree_node _ Hw) as Hnw.
  destruct (add_window_wf _ _ _ _ _ _ _ _ Hn1 Hnw E2) as [Hn2 _].
  destruct (add_window_shape _ _ _ _ _ _ _ _ Hn1 Hnw E2)
    as (Ha2 & Hd2 & Hl2 & Hr2 & wn & Hw2 & Hid & Hstep & Hsp & _).
  assert (Hm2 : wf_tree m2).
  { apply wf_tree_eq. rewrite Hw2. split; [exact Hn2|]. apply Forall_app. split; [exact HF1|].
    constructor; [|constructor]. cbn [snd]. apply wf_set_frozen. exact Hw. }
  constructor.
  - cbn [snd]. rewrite (Hsp eq_refl). exact Cd.
  - pose proof (IH _ _ _ Hm2 Hk' Hs' H) as HI. eapply Forall_impl; [|exact HI].
    cbv beta. intros x Hx. rewrite Hx, Hd2. exact Cd.
Qed.

Lemma dec_child_dw aw dw al subs m :
  Forall (fun p : wopt * csrnode => map_good (snd p)) subs ->
  csr_map (CsrDec aw dw al subs) = Ok m ->
  forall j o cn, nth_error subs j = Some (o, cn) -> csr_dw cn = dw.
Proof.
  intros Hgood H j o cn Es. rewrite csr_map_dec in H.
  apply bind_ok in H as (kids & Ek & H). apply bind_ok in H as (m0 & E0 & H).
  destruct (map_kids_nth _ _ Ek) as [Hlen Hnth].
  pose proof (new_map_wf _ _ _ _ E0) as H0.
  destruct (new_map_fields _ _ _ _ E0) as (_ & Fd & _).
  rewrite Forall_forall in Hgood.
  assert (Hk : forall x, In x kids -> exists j o c, nth_error subs j = Some (o, c) /\
                                       x = (o, None, snd x) /\ csr_map c = Ok (snd x)).
  { intros x Hx. apply In_nth_error in Hx as [j' Hj].
    assert (Hlt : (j' < length subs)%nat). { rewrite <- Hlen. apply nth_error_Some. congruence. }
    destruct (nth_error subs j') as [[o' c]|] eqn:Es'; [|apply nth_error_None in Es'; lia].
    destruct (Hnth _ _ _ Es') as (w & Hw & Hm). rewrite Hw in Hj. injection Hj as <-.
    exists j', o', c. auto. }
  assert (K1 : Forall (fun x : wopt * option bool * mmap => wf_tree (snd x)) kids).
  { apply Forall_forall. intros x Hx. destruct (Hk x Hx) as (j' & o' & c & Es' & _ & Hm).
    exact (proj1 (Hgood _ (nth_error_In _ _ Es') _ Hm)). }
  assert (K2 : Forall (fun x : wopt * option bool * mmap => snd (fst x) = None) kids).
  { apply Forall_forall. intros x Hx. destruct (Hk x Hx) as (_ & o' & _ & _ & Ex & _). rewrite Ex. reflexivity. }
  pose proof (add_windows_dw kids _ _ _ H0 K1 K2 H) as Hdw. rewrite Forall_forall in Hdw.
  destruct (Hnth _ _ _ Es) as (w & Hw & Hm).
  pose proof (Hdw _ (nth_error_In _ _ Hw)) as E. cbn [snd] in E.
  destruct (Hgood _ (nth_error_In _ _ Es) _ Hm) as (_ & _ & Hd & _). cbn [snd] in Hd. congruence.
Qed.

Lemma mk_cfg_dw dw regs ov c : Mux.mk_cfg dw regs ov = Some c -> Mux.c_dw c = dw.
Proof.
  unfold Mux.mk_cfg. destruct (Mux.shadow_size ov (filter Mux.r_rd regs)); [|discriminate].
  destruct (Mux.shadow_size ov (filter Mux.r_wr regs)); [|discriminate]. intros [= <-]. reflexivity.
Qed.

Theorem csr_leaves_dw n : csr_dom n -> forall m h, csr_map n = Ok m -> csr_hw n = Ok h ->
  forall L, In L (hw_leaves (csr_aw n) h) -> Mux.c_dw (hl_cfg L) = csr_dw n.
Proof.
  induction n as [aw dw al ops ov|aw dw al subs IH] using csrnode_ind'; intros Hdom m h Hm Hh L HL.
  - cbn [csr_hw] in Hh. apply bind_ok in Hh as (m' & _ & Hh).
    destruct (Mux.mk_cfg dw (map snd (mux_regs m' ops)) ov) as [c|] eqn:Ec; [|discriminate]. injection Hh as <-.
    destruct HL as [<-|[]]. cbn [hl_cfg csr_dw]. exact (mk_cfg_dw _ _ _ _ Ec).
  - apply csr_dom_dec in Hdom.
    assert (Hg : Forall (fun p : wopt * csrnode => map_good (snd p)) subs).
    { rewrite Forall_forall in *. intros p Hp. apply csr_map_good. exact (proj2 (Hdom p Hp)). }
    rewrite csr_hw_dec, Hm in Hh. cbn [bind] in Hh. apply bind_ok in Hh as (hk & Ehk & Hh).
    injection Hh as <-. cbn [csr_aw csr_dw] in *.
    pose proof (dec_windows _ _ _ _ _ _ Hg Hdom Hm Ehk) as Hwin.
    pose proof (dec_subs_windows _ _ _ _ _ _ Hg Hdom Hm Ehk) as Hsub.
    apply hw_leaves_dec_In in HL as (w & ch & L' & Hp & HL' & ->).
    apply Hsub in Hp as (wn & c & Hwc & -> & Hk).
    destruct (Hwin _ _ Hwc) as (j & o & cn & wj & hj & Es & Hidw & Hmw & -> & Hstep & Hhj & Hhw & Haw & _).
    rewrite Hidw, Nat2Z.id, Hhj in Hk. injection Hk as _ <-.
    cbn [CsrDecoder.s_aw] in HL'. rewrite frozen_aw, Haw in HL'.
    pose proof (nth_error_In _ _ Es) as Hin. rewrite Forall_forall in IH, Hdom.
    cbn [hshift hl_cfg]. rewrite (IH _ Hin (proj2 (Hdom _ Hin)) _ _ Hmw Hhw L' HL'). cbn [snd].
    exact (dec_child_dw _ _ _ _ _ Hg Hm _ _ _ Es).
Qed.
