(* Proofs about the arbiter model: C08 (ownership, isolation, no pre-emption) and
   C09 (the If-chain is round-robin; bounded waiting). *)
From Coq Require Import ZArith List Bool Lia Arith.
From Soc Require Import Lib.Bits Model.Arbiter.
Import ListNotations.

(* ---------- the chain of "last assignment wins" equals "first requester in cyclic order" ---------- *)

Definition cyc_order (n g : nat) : list nat := seq (S g) (n - S g) ++ seq 0 g.

Definition rr_next (n : nat) (rq : nat -> bool) (g : nat) : nat :=
  match find rq (cyc_order n g) with Some j => j | None => g end.

Lemma fold_last_wins (rq : nat -> bool) l a :
  fold_left (fun acc j => if rq j then j else acc) (rev l) a =
  match find rq l with Some j => j | None => a end.
Proof.
  induction l as [|x l IH]; simpl; [reflexivity|].
  rewrite fold_left_app. simpl. rewrite IH.
  destruct (rq x); [reflexivity|]. reflexivity.
Qed.

Lemma assigns_rev n g : assigns n g = rev (cyc_order n g).
Proof. unfold assigns, cyc_order. rewrite rev_app_distr. reflexivity. Qed.

Lemma chain_is_round_robin n rq g : (g < n)%nat -> chain n rq g = rr_next n rq g.
Proof.
  intros H. unfold chain, rr_next.
  destruct (Nat.ltb_spec g n); [|lia].
  rewrite assigns_rev. apply fold_last_wins.
Qed.

Lemma find_seq (rq : nat -> bool) len : forall a j, find rq (seq a len) = Some j ->
  (a <= j < a + len)%nat /\ rq j = true /\ forall x, (a <= x < j)%nat -> rq x = false.
Proof.
  induction len as [|len IH]; simpl; intros a j H; [discriminate|].
  destruct (rq a) eqn:E.
  - injection H as <-. repeat split; auto; try lia.
  - apply IH in H. destruct H as (H1 & H2 & H3). repeat split; auto; try lia.
    intros x Hx. destruct (Nat.eq_dec x a) as [->|]; auto. apply H3; lia.
Qed.

Lemma find_seq_none (rq : nat -> bool) len : forall a, find rq (seq a len) = None ->
  forall x, (a <= x < a + len)%nat -> rq x = false.
Proof.
  induction len as [|len IH]; simpl; intros a H x Hx; [lia|].
  destruct (rq a) eqn:E; [discriminate|].
  destruct (Nat.eq_dec x a) as [->|]; auto. apply (IH (S a)); auto; lia.
Qed.

Lemma find_app {X} (f : X -> bool) l1 l2 :
  find f (l1 ++ l2) = match find f l1 with Some x => Some x | None => find f l2 end.
Proof. induction l1 as [|x l1 IH]; simpl; auto. destruct (f x); auto. Qed.

(* full characterisation of rr_next *)
Lemma rr_next_spec n rq g : (g < n)%nat ->
  let j := rr_next n rq g in
  (j < n)%nat /\
  ((j = g /\ forall x, (x < n)%nat -> x <> g -> rq x = false) \/
   (g < j /\ rq j = true /\ forall x, (g < x < j)%nat -> rq x = false) \/
   (j < g /\ rq j = true /\ (forall x, (g < x < n)%nat -> rq x = false) /\
             forall x, (x < j)%nat -> rq x = false))%nat.
Proof.
  intros Hg. unfold rr_next, cyc_order. rewrite find_app.
  destruct (find rq (seq (S g) (n - S g))) as [j|] eqn:E1.
  - apply find_seq in E1. destruct E1 as (H1 & H2 & H3). simpl. split; [lia|].
    right; left. repeat split; auto; try lia.
  - pose proof (find_seq_none _ _ _ E1) as N1.
    destruct (find rq (seq 0 g)) as [j|] eqn:E2.
    + apply find_seq in E2. destruct E2 as (H1 & H2 & H3). simpl. split; [lia|].
      right; right. repeat split; auto; try lia.
      * intros; apply N1; lia.
      * intros; apply H3; lia.
    + pose proof (find_seq_none _ _ _ E2) as N2. simpl. split; [lia|].
      left. split; auto. intros x Hx Hne.
      destruct (Nat.lt_ge_cases x g); [apply N2; lia | apply N1; lia].
Qed.

(* cyclic distance from g forward to k *)
Definition dist (n g k : nat) : nat := if Nat.leb g k then k - g else n - g + k.

Lemma rr_next_closer n rq g k : (g < n)%nat -> (k < n)%nat -> g <> k -> rq k = true ->
  (dist n (rr_next n rq g) k < dist n g k)%nat.
Proof.
  intros Hg Hk Hne Hr. destruct (rr_next_spec n rq g Hg) as (Hj & [H | [H | H]]).
  - destruct H as (_ & H). rewrite H in Hr; auto; discriminate.
  - destruct H as (H1 & H2 & H3). unfold dist.
    destruct (Nat.leb_spec g k); destruct (Nat.leb_spec (rr_next n rq g) k); try lia.
    assert (rq k = false) by (apply H3; lia). congruence.
  - destruct H as (H1 & H2 & H3 & H4). unfold dist.
    destruct (Nat.leb_spec g k).
    + assert (rq k = false) by (apply H3; lia). congruence.
    + destruct (Nat.leb_spec (rr_next n rq g) k); try lia.
      assert (rq k = false) by (apply H4; lia). congruence.
Qed.

(* ---------- machine-level statements ---------- *)

Lemma next_lt c g i : (g < nintr c)%nat -> (next c g i < nintr c)%nat.
Proof.
  intros H. unfold next. destruct (bus_busy c g i); auto.
  rewrite chain_is_round_robin by auto. apply rr_next_spec; auto.
Qed.

Lemma grant_in_range c : forall is g, (g < nintr c)%nat -> (state_after c g is < nintr c)%nat.
Proof.
  induction is as [|i is IH]; simpl; intros g H; auto. apply IH, next_lt, H.
Qed.

Lemma no_preemption c g i : bus_busy c g i = true -> next c g i = g.
Proof. intros H. unfold next. rewrite H. reflexivity. Qed.

Lemma next_owner_exact c g i : (g < nintr c)%nat -> bus_busy c g i = false ->
  next c g i = rr_next (nintr c) (req i) g.
Proof. intros Hg H. unfold next. rewrite H. apply chain_is_round_robin, Hg. Qed.

Lemma intr_outs_nth c g b : forall l k0 k ic,
  nth_error l k = Some ic ->
  nth_error (intr_outs c g b k0 l) k = Some (intr_out c g b (k0 + k) ic).
Proof.
  induction l as [|x l IH]; intros k0 k ic H; destruct k; simpl in *; try discriminate.
  - injection H as <-. f_equal. f_equal. lia.
  - rewrite (IH (S k0) k ic H). f_equal. f_equal. lia.
Qed.

Lemma intr_outs_length c g b : forall l k0, length (intr_outs c g b k0 l) = length l.
Proof. induction l; simpl; auto. Qed.

(* releases: cycles in which the bus is not held; never_granted: k is not the owner at any point *)
Fixpoint releases (c : cfg) (g : nat) (is : list inp) : nat :=
  match is with
  | [] => 0
  | i :: is' => (if bus_busy c g i then 0 else 1) + releases c (next c g i) is'
  end.

Fixpoint never_granted (c : cfg) (g : nat) (is : list inp) (k : nat) : bool :=
  negb (Nat.eqb g k) &&
  match is with
  | [] => true
  | i :: is' => never_granted c (next c g i) is' k
  end.

Lemma bounded_wait c k : (k < nintr c)%nat ->
  forall is g, (g < nintr c)%nat ->
  (forall i, In i is -> req i k = true) ->
  never_granted c g is k = true ->
  (releases c g is < dist (nintr c) g k)%nat.
Proof.
  intros Hk. induction is as [|i is IH]; intros g Hg Hreq Hn; simpl in *.
  - apply andb_prop in Hn. destruct Hn as [Hn _]. apply negb_true_iff, Nat.eqb_neq in Hn.
    unfold dist. destruct (Nat.leb_spec g k); lia.
  - apply andb_prop in Hn. destruct Hn as [Hne Hn]. apply negb_true_iff, Nat.eqb_neq in Hne.
    assert (Hlt := next_lt c g i Hg).
    specialize (IH (next c g i) Hlt (fun j Hj => Hreq j (or_intror Hj)) Hn).
    destruct (bus_busy c g i) eqn:Eb.
    + rewrite (no_preemption _ _ _ Eb) in *. simpl. exact IH.
    + rewrite (next_owner_exact _ _ _ Hg Eb) in *.
      pose proof (rr_next_closer (nintr c) (req i) g k Hg Hk Hne (Hreq i (or_introl eq_refl))).
      simpl. lia.
Qed.

Lemma dist_lt n g k : (g < n)%nat -> (k < n)%nat -> (dist n g k < n)%nat.
Proof. intros; unfold dist; destruct (Nat.leb_spec g k); lia. Qed.

(* k is the owner after some prefix of the trace, unless it is never granted *)
Lemma granted_at_prefix c k : forall is g, never_granted c g is k = false ->
  exists t, (t <= length is)%nat /\ state_after c g (firstn t is) = k.
Proof.
  induction is as [|i is IH]; intros g Hn; simpl in Hn.
  - rewrite andb_true_r in Hn. apply negb_false_iff, Nat.eqb_eq in Hn.
    exists 0%nat. split; [simpl; lia | exact Hn].
  - destruct (Nat.eqb g k) eqn:E.
    + apply Nat.eqb_eq in E. exists 0%nat. split; [simpl; lia | exact E].
    + simpl in Hn. destruct (IH _ Hn) as (t & Ht & Hs).
      exists (S t). split; [simpl; lia | exact Hs].
Qed.

(* the positive reading of bounded_wait: N-1 releases while k keeps requesting are enough *)
Lemma served_within c k : (k < nintr c)%nat ->
  forall is g, (g < nintr c)%nat ->
  (forall i, In i is -> req i k = true) ->
  (nintr c - 1 <= releases c g is)%nat ->
  exists t, (t <= length is)%nat /\ state_after c g (firstn t is) = k.
Proof.
  intros Hk is g Hg Hreq Hrel. apply granted_at_prefix.
  destruct (never_granted c g is k) eqn:E; [|reflexivity].
  pose proof (bounded_wait c k Hk is g Hg Hreq E).
  pose proof (dist_lt (nintr c) g k Hg Hk). lia.
Qed.

(* releases of a prefix: the count is monotone along the trace *)
Lemma releases_app c : forall is1 is2 g,
  releases c g (is1 ++ is2) = (releases c g is1 + releases c (state_after c g is1) is2)%nat.
Proof.
  induction is1 as [|i is1 IH]; intros is2 g; simpl; [reflexivity|].
  rewrite IH. lia.
Qed.

(* sharper: k owns the bus before more than dist(g,k) releases have happened - the owners between g and k in
   cyclic order are the only ones that can be served first, each at most once *)
Lemma served_by_release c k : (k < nintr c)%nat ->
  forall is g, (g < nintr c)%nat ->
  (forall i, In i is -> req i k = true) ->
  (dist (nintr c) g k <= releases c g is)%nat ->
  exists t, (t <= length is)%nat /\ state_after c g (firstn t is) = k /\
            (releases c g (firstn t is) <= dist (nintr c) g k)%nat.
Proof.
  intros Hk. induction is as [|i is IH]; intros g Hg Hreq Hrel.
  - simpl in Hrel. exists 0%nat. simpl. repeat split; try lia.
    unfold dist in Hrel. destruct (Nat.leb_spec g k); lia.
  - destruct (Nat.eq_dec g k) as [->|Hne].
    + exists 0%nat. simpl. repeat split; lia.
    + simpl in Hrel. assert (Hlt := next_lt c g i Hg).
      assert (Hreq' : forall j, In j is -> req j k = true) by (intros j Hj; apply Hreq; right; exact Hj).
      destruct (bus_busy c g i) eqn:Eb.
      * pose proof (no_preemption _ _ _ Eb) as Hnp. rewrite Hnp in *.
        destruct (IH g Hg Hreq') as (t & Ht & Hs & Hr); [lia|].
        exists (S t). simpl. rewrite Eb, Hnp. repeat split; try lia; auto.
      * pose proof (next_owner_exact _ _ _ Hg Eb) as Hne'.
        pose proof (rr_next_closer (nintr c) (req i) g k Hg Hk Hne (Hreq i (or_introl eq_refl))) as Hc.
        rewrite <- Hne' in Hc.
        destruct (IH (next c g i) Hlt Hreq') as (t & Ht & Hs & Hr); [lia|].
        exists (S t). simpl. rewrite Eb. repeat split; try lia; auto.
Qed.

(* ownership moves only when the bus is not held, and only to an initiator that is requesting *)
Lemma grant_moves_only_to_requesters c g i : (g < nintr c)%nat -> next c g i <> g ->
  bus_busy c g i = false /\ req i (next c g i) = true /\ (next c g i < nintr c)%nat.
Proof.
  intros Hg Hne. destruct (bus_busy c g i) eqn:Eb.
  - exfalso. apply Hne. apply no_preemption. exact Eb.
  - split; [reflexivity|]. rewrite (next_owner_exact c g i Hg Eb) in *.
    destruct (rr_next_spec (nintr c) (req i) g Hg) as (Hj & [H | [H | H]]).
    + destruct H as (H & _). contradiction.
    + destruct H as (_ & H & _). split; assumption.
    + destruct H as (_ & H & _). split; assumption.
Qed.
