(* C01, rung 1: CSR-only trees (csr.Decoder over csr.Decoder ... over csr.Multiplexer).
   The routing read off the hardware (`creach`) selects exactly the register, and the chunk of it,
   that the tree's memory map reports for the address. *)
From Coq Require Import ZArith List Bool Lia ZifyBool Arith Permutation.
From Soc Require Import Lib.Res Lib.PyList Lib.Bits Model.MemoryMap Model.MemSpec Model.Hierarchy
  Proofs.RangeMap Proofs.LookupArith Proofs.LookupWf Proofs.Lookup Proofs.MemArith Proofs.HierMap.
From Soc Require Lib.CsrPattern Model.Mux Model.CsrDecoder Proofs.MuxTable.
Import ListNotations.
Open Scope Z_scope.

Local Opaque Z.pow.

(* ------------------------------------------------------------------ induction over CSR trees *)

Section CsrInd.
  Variable P : csrnode -> Prop.
  Hypothesis Hmux : forall aw dw al ops ov, P (MuxLeaf aw dw al ops ov).
  Hypothesis Hdec : forall aw dw al subs,
    Forall (fun p : wopt * csrnode => P (snd p)) subs -> P (CsrDec aw dw al subs).
  Fixpoint csrnode_ind' (n : csrnode) : P n :=
    match n with
    | MuxLeaf aw dw al ops ov => Hmux aw dw al ops ov
    | CsrDec aw dw al subs =>
        Hdec aw dw al subs
          ((fix go (l : list (wopt * csrnode)) : Forall (fun p : wopt * csrnode => P (snd p)) l :=
              match l with
              | [] => Forall_nil _
              | (o, c) :: l' => @Forall_cons _ (fun p : wopt * csrnode => P (snd p)) (o, c) l'
                                  (csrnode_ind' c) (go l')
              end) subs)
    end.
End CsrInd.

(* ------------------------------------------------------------------ the property's domain *)

(* explicit window addresses are multiples of the window size (note N2 of the design: add_window does
   not check this); everything else the constructors check themselves *)
Fixpoint csr_dom (n : csrnode) : Prop :=
  match n with
  | MuxLeaf _ _ _ _ _ => True
  | CsrDec _ _ _ subs =>
      (fix go (l : list (wopt * csrnode)) : Prop :=
         match l with
         | [] => True
         | (o, c) :: l' => (forall z, o_addr o = VInt z -> z mod 2 ^ csr_aw c = 0) /\ csr_dom c /\ go l'
         end) subs
  end.

Definition sub_dom (p : wopt * csrnode) : Prop :=
  (forall z, o_addr (fst p) = VInt z -> z mod 2 ^ csr_aw (snd p) = 0) /\ csr_dom (snd p).

Lemma csr_dom_dec aw dw al subs : csr_dom (CsrDec aw dw al subs) <-> Forall sub_dom subs.
Proof.
  cbn [csr_dom]. induction subs as [|[o c] l IH].
  - split; auto.
  - split.
    + intros (H1 & H2 & H3). constructor; [split; assumption|apply IH; exact H3].
    + intros H. inversion H as [|? ? [H1 H2] H3]; subst. split; [exact H1|]. split; [exact H2|].
      apply IH. exact H3.
Qed.

(* ------------------------------------------------------------------ unfolding the two readings *)

Fixpoint map_kids (l : list (wopt * csrnode)) : res kidmaps :=
  match l with
  | [] => Ok []
  | (o, c) :: l' => let! w := csr_map c in let! r := map_kids l' in Ok ((o, None, w) :: r)
  end.

Fixpoint hw_kids (l : list (wopt * csrnode)) : res (list (Z * chw)) :=
  match l with
  | [] => Ok []
  | (_, c) :: l' => let! h := csr_hw c in let! r := hw_kids l' in Ok ((csr_aw c, h) :: r)
  end.

Lemma csr_map_dec aw dw al subs :
  csr_map (CsrDec aw dw al subs) =
  (let! kids := map_kids subs in let! m := new_map (VInt aw) (VInt dw) (VInt al) in add_windows m 0 kids).
Proof.
  reflexivity.
Qed.

Lemma csr_hw_dec aw dw al subs :
  csr_hw (CsrDec aw dw al subs) =
  (let! m := csr_map (CsrDec aw dw al subs) in
   let! kids := hw_kids subs in Ok (HDec aw (dec_subs (m_ranges m) kids))).
Proof.
  reflexivity.
Qed.

Lemma map_kids_nth subs : forall kids, map_kids subs = Ok kids ->
  length kids = length subs /\
  forall j o c, nth_error subs j = Some (o, c) ->
                exists w, nth_error kids j = Some (o, None, w) /\ csr_map c = Ok w.
Proof.
  induction subs as [|[o c] l IH]; cbn [map_kids]; intros kids H.
  - injection H as <-. split; [reflexivity|]. intros j o c Hj. destruct j; discriminate.
  - apply bind_ok in H as (w & Ew & H). apply bind_ok in H as (r & Er & H). injection H as <-.
    destruct (IH _ Er) as [Hlen Hn]. split; [cbn [length]; congruence|].
    intros j o' c' Hj. destruct j as [|j]; cbn [nth_error] in *.
    + injection Hj as <- <-. eauto.
    + apply Hn. exact Hj.
Qed.

Lemma hw_kids_nth subs : forall hk, hw_kids subs = Ok hk ->
  length hk = length subs /\
  forall j o c, nth_error subs j = Some (o, c) ->
                exists h, nth_error hk j = Some (csr_aw c, h) /\ csr_hw c = Ok h.
Proof.
  induction subs as [|[o c] l IH]; cbn [hw_kids]; intros hk H.
  - injection H as <-. split; [reflexivity|]. intros j o c Hj. destruct j; discriminate.
  - apply bind_ok in H as (h & Eh & H). apply bind_ok in H as (r & Er & H). injection H as <-.
    destruct (IH _ Er) as [Hlen Hn]. split; [cbn [length]; congruence|].
    intros j o' c' Hj. destruct j as [|j]; cbn [nth_error] in *.
    + injection Hj as <- <-. eauto.
    + eapply Hn. exact Hj.
Qed.

(* ------------------------------------------------------------------ the map of a CSR tree *)

Definition map_good (n : csrnode) : Prop :=
  forall m, csr_map n = Ok m -> wf_tree m /\ m_aw m = csr_aw n /\ m_dw m = csr_dw n /\ 0 < csr_aw n.

(* what is known about a decoder's finished map *)
Record dec_facts (aw dw : Z) (subs : list (wopt * csrnode)) (m : mmap) : Prop := {
  df_wf : wf_tree m;
  df_aw : m_aw m = aw;
  df_dw : m_dw m = dw;
  df_ress : m_ress m = [];
  df_len : length (m_wins m) = length subs;
  df_win : forall j wn c o cn, nth_error (m_wins m) j = Some (wn, c) -> nth_error subs j = Some (o, cn) ->
             exists w, csr_map cn = Ok w /\ win_is wn c (Z.of_nat j) w
}.

Lemma dec_map_facts aw dw al subs m :
  Forall (fun p : wopt * csrnode => map_good (snd p)) subs -> Forall sub_dom subs ->
  csr_map (CsrDec aw dw al subs) = Ok m -> dec_facts aw dw subs m /\ 0 < aw.
Proof.
  intros Hgood Hdom H. rewrite csr_map_dec in H.
  apply bind_ok in H as (kids & Ek & H). apply bind_ok in H as (m0 & E0 & H).
  destruct (map_kids_nth _ _ Ek) as [Hlen Hnth].
  pose proof (new_map_wf _ _ _ _ E0) as H0.
  destruct (new_map_fields _ _ _ _ E0) as (Fa & Fd & _ & _ & Fr & Fw & Pa & Pd).
  rewrite Forall_forall in Hgood, Hdom.
  assert (Hk : forall x, In x kids -> exists j o c, nth_error subs j = Some (o, c) /\
                                       x = (o, None, snd x) /\ csr_map c = Ok (snd x)).
  { intros x Hx. apply In_nth_error in Hx as [j Hj].
    assert (Hlt : (j < length subs)%nat). { rewrite <- Hlen. apply nth_error_Some. congruence. }
    destruct (nth_error subs j) as [[o c]|] eqn:Es; [|apply nth_error_None in Es; lia].
    destruct (Hnth _ _ _ Es) as (w & Hw & Hm). rewrite Hw in Hj. injection Hj as <-.
    exists j, o, c. auto. }
  assert (K1 : Forall (fun x : wopt * option bool * mmap => wf_tree (snd x)) kids).
  { apply Forall_forall. intros x Hx. destruct (Hk x Hx) as (j & o & c & Es & _ & Hm).
    exact (proj1 (Hgood _ (nth_error_In _ _ Es) _ Hm)). }
  assert (K2 : Forall (fun x : wopt * option bool * mmap => opt_ok (fst (fst x)) (snd x)) kids).
  { apply Forall_forall. intros x Hx. destruct (Hk x Hx) as (j & o & c & Es & Ex & Hm).
    rewrite Ex. cbn [fst snd]. intros z Hz.
    destruct (Hgood _ (nth_error_In _ _ Es) _ Hm) as (_ & -> & _).
    exact (proj1 (Hdom _ (nth_error_In _ _ Es)) z Hz). }
  assert (K3 : Forall (fun x : wopt * option bool * mmap =>
                         snd (fst x) <> Some false \/ m_dw (snd x) = m_dw m0) kids).
  { apply Forall_forall. intros x Hx. destruct (Hk x Hx) as (j & o & c & Es & Ex & Hm).
    left. rewrite Ex. cbn [fst snd]. discriminate. }
  destruct (add_windows_spec kids _ _ _ H0 K1 K2 K3 H) as (W1 & W2 & W3 & W4 & wins' & W5 & W6 & W7).
  rewrite Fw in W5. cbn [app] in W5.
  split; [|exact Pa]. constructor; try congruence.
  intros j wn c o cn Hj Hs. destruct (Hnth _ _ _ Hs) as (w & Hw & Hm).
  exists w. split; [exact Hm|]. rewrite W5 in Hj. exact (W7 _ _ _ _ _ _ Hj Hw).
Qed.

Lemma csr_map_good n : csr_dom n -> map_good n.
Proof.
  induction n as [aw dw al ops ov|aw dw al subs IH] using csrnode_ind'; intros Hdom m Hm.
  - cbn [csr_map] in Hm. destruct (mux_map_spec _ _ _ _ _ Hm) as (H1 & _ & H3 & H4 & H5 & _).
    cbn [csr_aw csr_dw]. auto.
  - apply csr_dom_dec in Hdom.
    assert (Hg : Forall (fun p : wopt * csrnode => map_good (snd p)) subs).
    { rewrite Forall_forall in *. intros p Hp. apply (IH p Hp). exact (proj2 (Hdom p Hp)). }
    destruct (dec_map_facts _ _ _ _ _ Hg Hdom Hm) as [F Pa]. destruct F.
    cbn [csr_aw csr_dw]. auto.
Qed.

(* ------------------------------------------------------------------ multiplexer routing *)

Lemma existsb_addrs a r : existsb (Z.eqb a) (Mux.addrs r) = true <-> Mux.r_start r <= a < Mux.r_stop r.
Proof.
  rewrite <- MuxTable.addrs_In, existsb_exists. split.
  - intros (x & Hx & E). apply Z.eqb_eq in E. subst. exact Hx.
  - intros H. exists a. split; [exact H|apply Z.eqb_refl].
Qed.

Lemma mux_reach_some (rs : list (Z * Mux.reg)) a id off :
  mux_reach (map snd rs) (map fst rs) a = Some (id, off) ->
  exists r, In (id, r) rs /\ Mux.r_start r <= a < Mux.r_stop r /\ off = a - Mux.r_start r.
Proof.
  induction rs as [|[id0 r0] rs IH]; cbn [map mux_reach fst snd]; [discriminate|].
  destruct (existsb (Z.eqb a) (Mux.addrs r0)) eqn:E.
  - intros [= <- <-]. apply existsb_addrs in E. exists r0. split; [left; reflexivity|auto].
  - intros H. destruct (IH H) as (r & Hin & Hr). exists r. split; [right; exact Hin|exact Hr].
Qed.

Lemma mux_reach_hit (rs : list (Z * Mux.reg)) a id r :
  In (id, r) rs -> Mux.r_start r <= a < Mux.r_stop r ->
  (forall id' r', In (id', r') rs -> Mux.r_start r' <= a < Mux.r_stop r' -> (id', r') = (id, r)) ->
  mux_reach (map snd rs) (map fst rs) a = Some (id, a - Mux.r_start r).
Proof.
  induction rs as [|[id0 r0] rs IH]; cbn [map mux_reach fst snd]; intros Hin Ha Hu; [contradiction|].
  destruct (existsb (Z.eqb a) (Mux.addrs r0)) eqn:E.
  - apply existsb_addrs in E. specialize (Hu id0 r0 (or_introl eq_refl) E). injection Hu as -> ->.
    reflexivity.
  - destruct Hin as [Hin|Hin].
    + injection Hin as -> ->. apply existsb_addrs in Ha. congruence.
    + apply IH; auto. intros id' r' Hin' Ha'. apply Hu; [right; exact Hin'|exact Ha'].
Qed.

Lemma mk_cfg_regs dw regs ov c : Mux.mk_cfg dw regs ov = Some c -> Mux.c_regs c = regs.
Proof.
  unfold Mux.mk_cfg. destruct (Mux.shadow_size ov (filter Mux.r_rd regs)); [|discriminate].
  destruct (Mux.shadow_size ov (filter Mux.r_wr regs)); [|discriminate]. intros [= <-]. reflexivity.
Qed.

(* the multiplexer's register list, read off its map *)
Lemma mux_regs_In m ops id r : In (id, r) (mux_regs m ops) <->
  exists x rr lf, In x (m_ranges m) /\ e_asg x = AR id /\ find_res id (m_ress m) = Some rr /\
                  find_leaf id ops = Some lf /\
                  r = {| Mux.r_start := e_start x; Mux.r_stop := e_stop x; Mux.r_width := l_width lf;
                         Mux.r_rd := l_rd lf; Mux.r_wr := l_wr lf |}.
Proof.
  unfold mux_regs, resources. rewrite in_flat_map. split.
  - intros ([[[id' nm] s] e] & Hin & H). apply in_flat_map in Hin as (x & Hx & Hin).
    destruct (e_asg x) as [i|i] eqn:Ea; [|contradiction].
    destruct (find_res i (m_ress m)) as [rr|] eqn:Ef; [|contradiction].
    destruct Hin as [Hin|[]]. injection Hin as <- <- <- <-.
    destruct (find_leaf i ops) as [lf|] eqn:El; [|contradiction].
    destruct H as [H|[]]. injection H as <- <-. exists x, rr, lf. auto.
  - intros (x & rr & lf & Hx & Ea & Ef & El & ->).
    exists (id, r_name rr, e_start x, e_stop x). split.
    + apply in_flat_map. exists x. split; [exact Hx|]. rewrite Ea, Ef. left. reflexivity.
    + rewrite El. left. reflexivity.
Qed.

(* ------------------------------------------------------------------ decoder routing *)

Definition sub_hit (aw a : Z) (p : CsrDecoder.sub * chw) : bool :=
  CsrPattern.pmatch (CsrDecoder.sub_pattern aw (fst p)) a.

Lemma creach_dec aw subs a :
  creach (HDec aw subs) a =
  match find (sub_hit aw a) subs with
  | Some (w, ch) => creach ch (trunc (Z.min (CsrDecoder.s_aw w) aw) a)
  | None => None
  end.
Proof.
  cbn [creach]. induction subs as [|[w ch] l IH]; [reflexivity|].
  cbn [find]. unfold sub_hit at 1. cbn [fst].
  destruct (CsrPattern.pmatch (CsrDecoder.sub_pattern aw w) a); [reflexivity|exact IH].
Qed.

Lemma dec_subs_In {H} ranges (kids : list (Z * H)) w h : In (w, h) (dec_subs ranges kids) <->
  exists x id caw, In x ranges /\ e_asg x = AW id /\ nth_error kids (Z.to_nat id) = Some (caw, h) /\
    w = {| CsrDecoder.s_aw := caw; CsrDecoder.s_start := e_start x; CsrDecoder.s_stop := e_stop x |}.
Proof.
  unfold dec_subs. rewrite in_flat_map. split.
  - intros (x & Hx & Hin). destruct (e_asg x) as [i|i] eqn:Ea; [contradiction|].
    destruct (nth_error kids (Z.to_nat i)) as [[caw h']|] eqn:En; [|contradiction].
    destruct Hin as [Hin|[]]. injection Hin as <- <-. exists x, i, caw. auto.
  - intros (x & id & caw & Hx & Ea & En & ->). exists x. split; [exact Hx|].
    rewrite Ea, En. left. reflexivity.
Qed.

(* truncation to an aligned window: the offset inside it *)
Lemma trunc_offset a ws k : 0 <= k -> ws mod 2 ^ k = 0 -> ws <= a < ws + 2 ^ k -> trunc k a = a - ws.
Proof.
  intros Hk Hm Ha. unfold trunc. pose proof (MemArith.pow2_pos k Hk) as Hp.
  symmetry. apply Z.mod_unique_pos with (q := ws / 2 ^ k); [lia|].
  pose proof (Z.div_mod ws (2 ^ k)). lia.
Qed.

(* ------------------------------------------------------------------ the theorem *)

(* the map reports a resource `id` whose range contains a, a being `off` addresses above its start *)
Definition reports (l : list info) (a id off : Z) : Prop :=
  exists i, In i l /\ i_res i = id /\ i_start i <= a < i_end i /\ off = a - i_start i.

Definition reach_good (n : csrnode) : Prop :=
  forall m h l, csr_map n = Ok m -> csr_hw n = Ok h -> all_resources m = Ok l ->
  forall a, 0 <= a < 2 ^ csr_aw n ->
  forall id off, creach h a = Some (id, off) <-> reports l a id off.

Lemma mux_reach_good aw dw al ops ov : reach_good (MuxLeaf aw dw al ops ov).
Proof.
  intros m h l Hm Hh Hl a Ha id off. cbn [csr_map csr_hw] in *.
  rewrite Hm in Hh. cbn [bind] in Hh.
  destruct (Mux.mk_cfg dw (map snd (mux_regs m ops)) ov) as [c|] eqn:Ec; [|discriminate].
  injection Hh as <-. cbn [creach]. rewrite (mk_cfg_regs _ _ _ _ Ec).
  destruct (mux_map_spec _ _ _ _ _ Hm) as (Hwt & Hw & _ & _ & _ & _ & Hids).
  pose proof (wf_tree_node _ Hwt) as Hwf.
  pose proof Hwf as (_ & _ & _ & _ & Hch & _ & _ & Hndr & _).
  (* a range entry of this map is a resource *)
  assert (Hent : forall x, In x (m_ranges m) -> exists rr, In rr (m_ress m) /\ x = ent_of_res rr).
  { intros x Hx. destruct (range_entry_cases _ _ Hwf Hx) as [H|(wc & Hwc & _)]; [exact H|].
    rewrite Hw in Hwc. contradiction. }
  split.
  - intros H. apply mux_reach_some in H as (r & Hin & Hr & ->).
    apply mux_regs_In in Hin as (x & rr & lf & Hx & Ea & Ef & El & ->). cbn in Hr |- *.
    destruct (Hent x Hx) as (rr' & Hrr' & ->). cbn [ent_of_res e_asg e_start e_stop] in *.
    injection Ea as <-.
    destruct (res_contrib _ _ _ Hwf Hl Hrr') as (i & Hmk & Hi & _).
    apply mk_info_ok in Hmk as (-> & _). exists {| i_res := r_id rr'; i_path := [r_name rr']; i_start := r_start rr';
      i_end := r_stop rr'; i_width := m_dw m |}. cbn. auto.
  - intros (i & Hi & <- & Hr & ->).
    destruct (in_inv _ _ _ Hwf Hl Hi) as [(rr & Hrr & Hmk)|(wn & c0 & _ & _ & Hwc & _)];
      [|rewrite Hw in Hwc; contradiction].
    apply mk_info_ok in Hmk as (-> & _). cbn [i_res i_start i_end] in *.
    destruct (Hids rr Hrr) as (lf & El).
    set (r := {| Mux.r_start := r_start rr; Mux.r_stop := r_stop rr; Mux.r_width := l_width lf;
                 Mux.r_rd := l_rd lf; Mux.r_wr := l_wr lf |}).
    assert (Hin : In (r_id rr, r) (mux_regs m ops)).
    { apply mux_regs_In. exists (ent_of_res rr), rr, lf.
      split; [apply res_has_entry; assumption|]. split; [reflexivity|].
      split; [apply find_res_nodup; assumption|]. split; [exact El|reflexivity]. }
    change (r_start rr) with (Mux.r_start r). apply mux_reach_hit; [exact Hin|exact Hr|].
    intros id' r' Hin' Hr'. apply mux_regs_In in Hin' as (x & rr2 & lf2 & Hx & Ea & Ef & El2 & ->).
    cbn in Hr'.
    assert (x = ent_of_res rr).
    { exact (chain_unique 0 (m_ranges m) _ _ a Hch Hx (res_has_entry _ _ Hwf Hrr) Hr' Hr). }
    subst x. cbn [ent_of_res e_asg e_start e_stop] in *. injection Ea as <-.
    rewrite El in El2. injection El2 as <-. reflexivity.
Qed.

Theorem creach_good n : csr_dom n -> reach_good n.
Proof.
  induction n as [aw dw al ops ov|aw dw al subs IH] using csrnode_ind'; intros Hdom.
  - apply mux_reach_good.
  - apply csr_dom_dec in Hdom.
    assert (Hg : Forall (fun p : wopt * csrnode => map_good (snd p)) subs).
    { rewrite Forall_forall in *. intros p Hp. apply csr_map_good. exact (proj2 (Hdom p Hp)). }
    intros m h l Hm Hh Hl a Ha id off. cbn [csr_aw] in Ha.
    destruct (dec_map_facts _ _ _ _ _ Hg Hdom Hm) as [F Pa]. destruct F as [Hwt Faw Fdw Fress Flen Fwin].
    rewrite csr_hw_dec, Hm in Hh. cbn [bind] in Hh. apply bind_ok in Hh as (hk & Ehk & Hh).
    injection Hh as <-. destruct (hw_kids_nth _ _ Ehk) as [Hklen Hknth].
    pose proof (wf_tree_node _ Hwt) as Hwf.
    pose proof Hwf as (_ & _ & _ & _ & Hch & Hstop & _ & _ & Hndw & _).
    rewrite Forall_forall in IH, Hdom, Hg.
    (* everything known about window number j *)
    assert (Hwin : forall wn c, In (wn, c) (m_wins m) ->
      exists j o cn w hj, nth_error subs j = Some (o, cn) /\ w_id wn = Z.of_nat j /\
        csr_map cn = Ok w /\ c = set_frozen w /\ w_step wn = 1 /\
        nth_error hk j = Some (csr_aw cn, hj) /\ csr_hw cn = Ok hj /\
        m_aw w = csr_aw cn /\ 0 < csr_aw cn <= aw /\ wf_tree w /\
        w_start wn mod 2 ^ csr_aw cn = 0 /\ 0 <= w_start wn /\
        w_start wn + 2 ^ csr_aw cn <= w_stop wn /\ w_stop wn <= 2 ^ aw /\ reach_good cn).
    { intros wn c Hwc. destruct (In_nth_error _ _ Hwc) as [j Hj].
      assert (Hlt : (j < length subs)%nat). { rewrite <- Flen. apply nth_error_Some. congruence. }
      destruct (nth_error subs j) as [[o cn]|] eqn:Es; [|apply nth_error_None in Es; lia].
      destruct (Fwin _ _ _ _ _ Hj Es) as (w & Hmw & -> & Hid & Hstep & Hal).
      destruct (Hknth _ _ _ Es) as (hj & Hhj & Hhw).
      pose proof (nth_error_In _ _ Es) as Hin.
      destruct (Hg _ Hin _ Hmw) as (Hww & Haw & _ & Hpos). cbn [snd] in *.
      destruct (win_step_ok _ _ _ Hwf Hwc) as [_ Hlen]. rewrite Hstep, Z.div_1_r, frozen_aw, Haw in Hlen.
      pose proof (Hstop _ (win_has_entry _ _ Hwf Hwc)) as Hst. cbn [ent_of_win e_stop fst] in Hst.
      rewrite Faw in Hst.
      pose proof (chain_all_ge _ _ Hch) as Hge. rewrite Forall_forall in Hge.
      pose proof (Hge _ (win_has_entry _ _ Hwf Hwc)) as [Hs0 _]. cbn [ent_of_win e_start fst] in Hs0.
      assert (Hle : csr_aw cn <= aw).
      { apply (Z.pow_le_mono_r_iff 2); lia. }
      assert (IHc : reach_good cn) by (apply (IH _ Hin); exact (proj2 (Hdom _ Hin))).
      exists j, o, cn, w, hj. rewrite Haw in Hal.
      repeat (split; [solve [auto | lia]|]). exact IHc. }
    (* a Case of the decoder and the range entry it was made from *)
    assert (Hsub : forall w ch, In (w, ch) (dec_subs (m_ranges m) hk) ->
      exists wn c, In (wn, c) (m_wins m) /\ In (ent_of_win (wn, c)) (m_ranges m) /\
        w = {| CsrDecoder.s_aw := m_aw c; CsrDecoder.s_start := w_start wn; CsrDecoder.s_stop := w_stop wn |} /\
        nth_error hk (Z.to_nat (w_id wn)) = Some (m_aw c, ch)).
    { intros w ch Hin. apply dec_subs_In in Hin as (x & idk & caw & Hx & Ea & En & ->).
      destruct (range_entry_cases _ _ Hwf Hx) as [(rr & Hrr & _)|([wn c] & Hwc & ->)];
        [rewrite Fress in Hrr; contradiction|].
      cbn [ent_of_win e_asg e_start e_stop fst] in *. injection Ea as <-.
      destruct (Hwin _ _ Hwc) as (j & o & cn & w & hj & Es & Hid & Hmw & -> & _ & Hhj & _ & Haw & _).
      rewrite Hid, Nat2Z.id, Hhj in En. injection En as <- <-.
      exists wn, (set_frozen w). rewrite frozen_aw, Haw, Hid, Nat2Z.id. auto. }
    (* when does a Case match *)
    assert (Hmatch : forall wn c, In (wn, c) (m_wins m) ->
      (CsrPattern.pmatch (CsrDecoder.sub_pattern aw
         {| CsrDecoder.s_aw := m_aw c; CsrDecoder.s_start := w_start wn; CsrDecoder.s_stop := w_stop wn |}) a = true
       <-> w_start wn <= a < w_start wn + 2 ^ m_aw c)).
    { intros wn c Hwc.
      destruct (Hwin _ _ Hwc) as (j & o & cn & w & hj & _ & _ & _ & -> & _ & _ & _ & Haw & Hr & _ & Hal & Hs0 & Hlen & Hst & _).
      rewrite frozen_aw, Haw. unfold CsrDecoder.sub_pattern. cbn [CsrDecoder.s_aw CsrDecoder.s_start].
      pose proof (MemArith.pow2_pos (csr_aw cn) ltac:(lia)).
      apply CsrPattern.pattern_matches_aligned; lia. }
    rewrite creach_dec. split.
    + (* hardware -> map *)
      destruct (find (sub_hit aw a) (dec_subs (m_ranges m) hk)) as [[w ch]|] eqn:Ef; [|discriminate].
      apply find_some in Ef as [Hin Hhit]. unfold sub_hit in Hhit. cbn [fst] in Hhit.
      destruct (Hsub _ _ Hin) as (wn & c & Hwc & Hx & -> & Hk).
      apply (Hmatch _ _ Hwc) in Hhit.
      destruct (Hwin _ _ Hwc) as (j & o & cn & wj & hj & Es & Hid & Hmw & -> & Hstep & Hhj & Hhw & Haw & Hr & Hww & Hal & Hs0 & Hlen & Hst & IHc).
      rewrite frozen_aw, Haw in *. rewrite Hid, Nat2Z.id, Hhj in Hk. injection Hk as <-.
      cbn [CsrDecoder.s_aw]. rewrite Z.min_l by lia.
      rewrite (trunc_offset a (w_start wn) (csr_aw cn)) by lia.
      destruct (win_contrib _ _ _ _ Hwf Hl Hwc) as (lc & lx & Hc & HF & _ & Hincl).
      rewrite frozen_all_resources in Hc.
      intros H. apply (IHc _ _ _ Hmw Hhw Hc) in H; [|lia].
      destruct H as (i' & Hi' & Hid' & Hr' & ->).
      destruct (Forall2_in_l _ _ _ _ HF Hi') as (i & Hi & Ht).
      rewrite <- frozen_all_resources in Hc.
      destruct (in_window _ _ _ _ _ _ Hwt Hwc Hc Hi' Ht) as (_ & _ & -> & _).
      exists (translated i' (w_name wn) (w_start wn) (w_step wn)). split; [apply Hincl; exact Hi|].
      rewrite Hstep. cbn [translated i_res i_start i_end]. rewrite !Z.div_1_r.
      split; [exact Hid'|]. split; lia.
    + (* map -> hardware *)
      intros (i & Hi & <- & Hr & ->).
      destruct (in_inv _ _ _ Hwf Hl Hi) as [(rr & Hrr & _)|(wn & c & lc & i' & Hwc & Hc & Hi' & Ht)];
        [rewrite Fress in Hrr; contradiction|].
      destruct (in_window _ _ _ _ _ _ Hwt Hwc Hc Hi' Ht) as (_ & _ & -> & Hlo & Hhi).
      destruct (Hwin _ _ Hwc) as (j & o & cn & wj & hj & Es & Hid & Hmw & -> & Hstep & Hhj & Hhw & Haw & Hrg & Hww & Hal & Hs0 & Hlen & Hst & IHc).
      rewrite frozen_all_resources in Hc.
      cbn [translated i_res i_start i_end] in *. rewrite Hstep, !Z.div_1_r in *.
      destruct (sorted_wf _ Hww _ Hc) as [Hasc Hend].
      pose proof (Hend _ Hi') as He. rewrite Haw in He.
      destruct (ascending_in _ _ _ _ Hasc (in_spans _ _ Hi')) as [Hi0 _].
      set (w := {| CsrDecoder.s_aw := m_aw (set_frozen wj); CsrDecoder.s_start := w_start wn;
                   CsrDecoder.s_stop := w_stop wn |}).
      assert (Hin : In (w, hj) (dec_subs (m_ranges m) hk)).
      { apply dec_subs_In. exists (ent_of_win (wn, set_frozen wj)), (w_id wn), (csr_aw cn).
        split; [apply win_has_entry; assumption|]. split; [reflexivity|].
        rewrite Hid, Nat2Z.id. split; [exact Hhj|]. unfold w. rewrite frozen_aw, Haw. reflexivity. }
      assert (Hhit : sub_hit aw a (w, hj) = true).
      { unfold sub_hit. cbn [fst]. apply (Hmatch _ _ Hwc). rewrite frozen_aw, Haw. lia. }
      destruct (find (sub_hit aw a) (dec_subs (m_ranges m) hk)) as [[w2 ch2]|] eqn:Ef;
        [|exfalso; pose proof (find_none _ _ Ef _ Hin) as Hn; congruence].
      apply find_some in Ef as [Hin2 Hhit2]. unfold sub_hit in Hhit2. cbn [fst] in Hhit2.
      destruct (Hsub _ _ Hin2) as (wn2 & c2 & Hwc2 & Hx2 & -> & Hk2).
      apply (Hmatch _ _ Hwc2) in Hhit2.
      destruct (Hwin _ _ Hwc2) as (j2 & o2 & cn2 & wj2 & hj2 & Es2 & Hid2 & Hmw2 & -> & _ & Hhj2 & _ & Haw2 & _ & _ & _ & _ & Hlen2 & _).
      rewrite frozen_aw, Haw2 in Hhit2.
      assert (Heq : ent_of_win (wn2, set_frozen wj2) = ent_of_win (wn, set_frozen wj)).
      { apply (chain_unique 0 (m_ranges m) _ _ a Hch Hx2 (win_has_entry _ _ Hwf Hwc));
          cbn [ent_of_win e_start e_stop fst]; lia. }
      unfold ent_of_win in Heq. cbn [fst] in Heq. injection Heq as Hs Ht' _ Hi2.
      assert (j2 = j) by lia. subst j2. rewrite Es in Es2. injection Es2 as <- <-.
      rewrite Hid2, Nat2Z.id, Hhj in Hk2. injection Hk2 as _ <-.
      cbn [CsrDecoder.s_aw]. rewrite frozen_aw, Haw2, Z.min_l by lia.
      rewrite (trunc_offset a (w_start wn) (csr_aw cn)) by lia.
      apply (IHc _ _ _ Hmw Hhw Hc); [lia|].
      exists i'. split; [exact Hi'|]. split; [reflexivity|]. split; lia.
Qed.

(* ------------------------------------------------------------------ in the memory map's own words *)

(* reach_iff_decode for CSR trees: decode_address() names the register, all_resources() its range *)
Theorem csr_reach_iff_decode n m h l : csr_dom n ->
  csr_map n = Ok m -> csr_hw n = Ok h -> all_resources m = Ok l ->
  forall a, 0 <= a < 2 ^ csr_aw n ->
  forall id off, creach h a = Some (id, off) <->
    decode_address m a = Some id /\
    exists i, In i l /\ i_res i = id /\ i_start i <= a < i_end i /\ off = a - i_start i.
Proof.
  intros Hdom Hm Hh Hl a Ha id off.
  pose proof (proj1 (csr_map_good n Hdom m Hm)) as Hwt.
  rewrite (creach_good n Hdom m h l Hm Hh Hl a Ha id off). split.
  - intros (i & Hi & Hid & Hr & Ho). split; [|exists i; auto].
    apply (decode_wf m Hwt l Hl). exists i. auto.
  - intros (_ & H). exact H.
Qed.

(* ... and find_resource() its start, when every resource object occurs once in the tree *)
Theorem csr_reach_iff_find n m h l : csr_dom n ->
  csr_map n = Ok m -> csr_hw n = Ok h -> all_resources m = Ok l -> NoDup (map i_res l) ->
  forall a, 0 <= a < 2 ^ csr_aw n ->
  forall id off, creach h a = Some (id, off) <->
    decode_address m a = Some id /\
    exists i, find_resource m id = Ok i /\ off = a - i_start i.
Proof.
  intros Hdom Hm Hh Hl Hnd a Ha id off.
  pose proof (proj1 (csr_map_good n Hdom m Hm)) as Hwt.
  assert (Huniq : forall i1 i2, In i1 l -> In i2 l -> i_res i1 = i_res i2 -> i1 = i2).
  { clear - Hnd. induction l as [|x l IH]; intros i1 i2 H1 H2 He; [contradiction|].
    cbn [map] in Hnd. inversion Hnd as [|? ? Hni Hnd']; subst.
    destruct H1 as [<-|H1]; destruct H2 as [<-|H2]; auto.
    - exfalso. apply Hni. rewrite He. apply in_map. exact H2.
    - exfalso. apply Hni. rewrite <- He. apply in_map. exact H1. }
  destruct (find_wf m Hwt l Hl id) as (F1 & F2 & F3).
  rewrite (csr_reach_iff_decode n m h l Hdom Hm Hh Hl a Ha id off). split.
  - intros (Hd & i & Hi & Hid & Hr & Ho). split; [exact Hd|].
    destruct F3 as [[i0 Hf]|Hk].
    + destruct (F1 _ Hf) as [Hi0 Hid0]. assert (i0 = i) by (apply Huniq; auto; congruence). subst i0. eauto.
    + exfalso. exact (proj1 F2 Hk i Hi Hid).
  - intros (Hd & i & Hf & Ho). split; [exact Hd|]. destruct (F1 _ Hf) as [Hi Hid].
    apply (decode_wf m Hwt l Hl) in Hd as (i1 & Hi1 & Hid1 & Hr1).
    assert (i1 = i) by (apply Huniq; auto; congruence). subst i1. exists i. auto.
Qed.

(* an address the map leaves unassigned selects nothing, and conversely *)
Theorem csr_unassigned_iff_unreached n m h l : csr_dom n ->
  csr_map n = Ok m -> csr_hw n = Ok h -> all_resources m = Ok l ->
  forall a, 0 <= a < 2 ^ csr_aw n -> (decode_address m a = None <-> creach h a = None).
Proof.
  intros Hdom Hm Hh Hl a Ha.
  pose proof (proj1 (csr_map_good n Hdom m Hm)) as Hwt. split.
  - intros Hd. destruct (creach h a) as [[id off]|] eqn:E; [|reflexivity].
    apply (csr_reach_iff_decode n m h l Hdom Hm Hh Hl a Ha) in E as [E _]. congruence.
  - intros Hc. destruct (decode_address m a) as [id|] eqn:E; [|reflexivity].
    apply (decode_wf m Hwt l Hl) in E as (i & Hi & Hid & Hr).
    assert (creach h a = Some (id, a - i_start i)).
    { apply (creach_good n Hdom m h l Hm Hh Hl a Ha). exists i. auto. }
    congruence.
Qed.
