(* Extension of the C02 invariant: the resource / window records and the range-map entries are in
   one-to-one correspondence (distinct identities, each record backed by exactly one range entry),
   hence resources()/windows() report every record that was ever added, once. *)
From Coq Require Import ZArith List Bool Lia ZifyBool Arith.
From Soc Require Import Lib.Res Lib.PyList Model.MemoryMap Model.MemSpec.
From Soc Require Import Proofs.RangeMap Proofs.MemArith Proofs.MemNames Proofs.MemAlloc.
Import ListNotations.
Open Scope Z_scope.

Local Opaque Z.pow Z.shiftl Z.div Z.modulo.

Lemma find_res_some id l r : find_res id l = Some r -> In r l /\ r_id r = id.
Proof.
  induction l as [|y l IH]; cbn [find_res]; intros H; [discriminate|].
  destruct (r_id y =? id) eqn:E.
  - injection H as <-. split; [left; reflexivity|lia].
  - destruct (IH H). split; [right|]; auto.
Qed.

Lemma find_win_some {X} id (l : list (winent * X)) wc : find_win id l = Some wc -> In wc l /\ w_id (fst wc) = id.
Proof.
  induction l as [|[y c] l IH]; cbn [find_win]; intros H; [discriminate|].
  destruct (w_id y =? id) eqn:E.
  - injection H as <-. split; [left; reflexivity|cbn [fst]; lia].
  - destruct (IH H). split; [right|]; auto.
Qed.

Record wf_rec (m : mmap) : Prop := {
  wr_res_find : forall r, In r (m_ress m) -> find_res (r_id r) (m_ress m) = Some r;
  wr_res_range : forall r, In r (m_ress m) -> exists x, In x (m_ranges m) /\ e_asg x = AR (r_id r);
  wr_win_find : forall wc, In wc (m_wins m) -> find_win (w_id (fst wc)) (m_wins m) = Some wc;
  wr_win_range : forall wc, In wc (m_wins m) -> exists x, In x (m_ranges m) /\ e_asg x = AW (w_id (fst wc));
  wr_nodup : NoDup (map e_asg (m_ranges m));
  wr_res_ids : NoDup (map r_id (m_ress m));
  wr_win_ids : NoDup (map (fun wc : winent * mmap => w_id (fst wc)) (m_wins m))
}.

Lemma NoDup_snoc {X} (l : list X) a : NoDup l -> ~ In a l -> NoDup (l ++ [a]).
Proof.
  intros Hnd Hnin. apply (NoDup_Add (Add_app a l [])). rewrite app_nil_r. auto.
Qed.

Lemma has_res_not_in m id : has_res m id = false -> ~ In id (map r_id (m_ress m)).
Proof.
  unfold has_res. generalize (m_ress m) as l. induction l as [|y l IH]; cbn [existsb map In]; intros H; [tauto|].
  apply orb_false_iff in H as (H1 & H2). intros [Hc|Hc]; [lia|]. exact (IH H2 Hc).
Qed.

Lemma has_win_not_in m id : has_win m id = false ->
  ~ In id (map (fun wc : winent * mmap => w_id (fst wc)) (m_wins m)).
Proof.
  unfold has_win. generalize (m_wins m) as l. induction l as [|[y c] l IH]; cbn [existsb map In fst]; intros H; [tauto|].
  apply orb_false_iff in H as (H1 & H2). intros [Hc|Hc]; [lia|]. exact (IH H2 Hc).
Qed.

Lemma nodup_insert l1 l2 (k : entry) :
  NoDup (map e_asg (l1 ++ l2)) -> ~ In (e_asg k) (map e_asg (l1 ++ l2)) ->
  NoDup (map e_asg (l1 ++ k :: l2)).
Proof.
  intros Hnd Hnin. rewrite map_app in *. cbn [map].
  apply (NoDup_Add (Add_app (e_asg k) (map e_asg l1) (map e_asg l2))). auto.
Qed.

Lemma add_resource_rec m id comp nm size addr al m' s e :
  wf_map m -> wf_rec m -> add_resource m id comp nm size addr al = Ok (m', (s, e)) -> wf_rec m'.
Proof.
  intros Hwf Hrec H.
  apply add_resource_inv in H as (n & rs & Hfr & Hcomp & Hhas & Hn & Hav & Hcar & Hins & ->).
  pose proof (res_alignment_ge m al) as HA.
  destruct (insert_after_car _ _ _ _ _ _ 1 (AR id) Hwf HA Hcar) as (rs' & Hins' & _ & Hin).
  rewrite Hins in Hins'. injection Hins' as <-.
  apply rm_insert_split in Hins as (l1 & l2 & Hl & Hrs).
  destruct Hrec as [R1 R2 R3 R4 R5 R6 R7].
  constructor; msimpl.
  - intros r Hr. rewrite find_res_app. apply in_app_or in Hr as [Hr|[<-|[]]].
    + rewrite (R1 r Hr). reflexivity.
    + msimpl. rewrite (has_res_find _ _ Hhas), Z.eqb_refl. reflexivity.
  - intros r Hr. apply in_app_or in Hr as [Hr|[<-|[]]].
    + destruct (R2 r Hr) as (x & Hx & Ha). exists x. split; [apply Hin; right; exact Hx|exact Ha].
    + eexists. split; [apply Hin; left; reflexivity|reflexivity].
  - exact R3.
  - intros wc Hwc. destruct (R4 wc Hwc) as (x & Hx & Ha). exists x. split; [apply Hin; right; exact Hx|exact Ha].
  - rewrite Hrs. apply nodup_insert; rewrite <- Hl; [exact R5|]. msimpl.
    intros Hc. apply in_map_iff in Hc as (x & Ha & Hx).
    pose proof (wf_entries _ Hwf x Hx) as (_ & Hok). rewrite Ha in Hok.
    destruct Hok as (_ & r & Hr & _). rewrite (has_res_find _ _ Hhas) in Hr. discriminate.
  - rewrite map_app. cbn [map]. msimpl. apply NoDup_snoc; [exact R6|apply has_res_not_in; exact Hhas].
  - exact R7.
Qed.

Lemma add_window_rec m wid wm nm addr sparse m' s e r :
  wf_map m -> wf_rec m -> add_window m wid wm nm addr sparse = Ok (m', (s, e, r)) -> wf_rec m'.
Proof.
  intros Hwf Hrec H.
  apply add_window_inv in H as (n & rs & Hfr & Hhas & Hdwle & Hn & Hav & Hr & Hcar & Hins & ->).
  pose proof (win_alignment_ge m wm r) as HA.
  destruct (insert_after_car _ _ _ _ _ _ r (AW wid) Hwf HA Hcar) as (rs' & Hins' & _ & Hin).
  rewrite Hins in Hins'. injection Hins' as <-.
  apply rm_insert_split in Hins as (l1 & l2 & Hl & Hrs).
  destruct Hrec as [R1 R2 R3 R4 R5 R6 R7].
  constructor; msimpl.
  - exact R1.
  - intros x Hx. destruct (R2 x Hx) as (y & Hy & Ha). exists y. split; [apply Hin; right; exact Hy|exact Ha].
  - intros wc Hwc. rewrite find_win_app. apply in_app_or in Hwc as [Hwc|[<-|[]]].
    + rewrite (R3 wc Hwc). reflexivity.
    + msimpl. rewrite (has_win_find _ _ Hhas), Z.eqb_refl. reflexivity.
  - intros wc Hwc. apply in_app_or in Hwc as [Hwc|[<-|[]]].
    + destruct (R4 wc Hwc) as (x & Hx & Ha). exists x. split; [apply Hin; right; exact Hx|exact Ha].
    + eexists. split; [apply Hin; left; reflexivity|reflexivity].
  - rewrite Hrs. apply nodup_insert; rewrite <- Hl; [exact R5|]. msimpl.
    intros Hc. apply in_map_iff in Hc as (x & Ha & Hx).
    pose proof (wf_entries _ Hwf x Hx) as (_ & Hok). rewrite Ha in Hok.
    destruct Hok as (_ & wc & Hw & _). rewrite (has_win_find _ _ Hhas) in Hw. discriminate.
  - exact R6.
  - rewrite map_app. cbn [map]. msimpl. apply NoDup_snoc; [exact R7|apply has_win_not_in; exact Hhas].
Qed.

Lemma set_frozen_rec m : wf_rec m -> wf_rec (set_frozen m).
Proof. intros [R1 R2 R3 R4 R5 R6 R7]. destruct m. constructor; msimpl; auto. Qed.

Lemma set_next_rec m n : wf_rec m -> wf_rec (set_next m n).
Proof. intros [R1 R2 R3 R4 R5 R6 R7]. destruct m. constructor; msimpl; auto. Qed.

Lemma new_map_rec aw dw al m : new_map aw dw al = Ok m -> wf_rec m.
Proof.
  unfold new_map. intros H.
  apply bind_ok in H as (u1 & _ & H). apply bind_ok in H as (u2 & _ & H).
  apply bind_ok in H as (u3 & _ & H). injection H as <-.
  constructor; msimpl; cbn [map]; try (intros ? []); constructor.
Qed.

Definition wf_full (m : mmap) : Prop := wf_map m /\ wf_rec m.

Lemma wstep_wf_full w o : Forall wf_full w -> Forall wf_full (fst (wstep w o)).
Proof.
  intros Hw.
  assert (Hnth : forall i m, nth_error w i = Some m -> wf_full m).
  { intros i m Hn. apply nth_error_In in Hn. eapply Forall_forall in Hw; eauto. }
  destruct o as [aw dw al|mi id comp nm size addr al|mi wo nm addr sparse|mi a|mi]; cbn [wstep].
  - destruct (new_map aw dw al) as [m|e] eqn:E; cbn [fst]; [|exact Hw].
    apply Forall_app. split; [exact Hw|]. constructor; [|constructor].
    split; [eapply new_map_wf|eapply new_map_rec]; eauto.
  - destruct (nth_error w mi) as [m|] eqn:Em; cbn [fst]; [|exact Hw].
    destruct (add_resource m id comp nm size addr al) as [[m' [s e]]|e] eqn:E; cbn [fst]; [|exact Hw].
    destruct (Hnth _ _ Em) as (H1 & H2).
    apply Forall_set_nth; [exact Hw|]. split; [eapply add_resource_wf|eapply add_resource_rec]; eauto.
  - destruct (nth_error w mi) as [m|] eqn:Em; cbn [fst]; [|exact Hw].
    destruct wo as [wi|]; cbn [fst]; [|exact Hw].
    destruct (Nat.eqb wi mi); cbn [fst]; [exact Hw|].
    destruct (nth_error w wi) as [wm|] eqn:Ew; cbn [fst]; [|exact Hw].
    destruct (add_window m (Z.of_nat wi) wm nm addr sparse) as [[m' [[s e] r]]|e] eqn:E; cbn [fst]; [|exact Hw].
    destruct (Hnth _ _ Em) as (H1 & H2). destruct (Hnth _ _ Ew) as (H3 & H4).
    apply Forall_set_nth; [apply Forall_set_nth; [exact Hw|]|].
    + split; [eapply (add_window_wf m _ wm)|eapply (add_window_rec m _ wm)]; eauto.
    + split; [apply set_frozen_wf|apply set_frozen_rec]; auto.
  - destruct (nth_error w mi) as [m|] eqn:Em; cbn [fst]; [|exact Hw].
    destruct (align_to m a) as [[m' n]|e] eqn:E; cbn [fst]; [|exact Hw].
    destruct (Hnth _ _ Em) as (H1 & H2).
    apply Forall_set_nth; [exact Hw|]. split; [eapply align_to_wf; eauto|].
    apply align_to_inv in E as (z & _ & _ & _ & ->). apply set_next_rec. exact H2.
  - destruct (nth_error w mi) as [m|] eqn:Em; cbn [fst]; [|exact Hw].
    destruct (Hnth _ _ Em) as (H1 & H2).
    apply Forall_set_nth; [exact Hw|]. split; [apply set_frozen_wf|apply set_frozen_rec]; auto.
Qed.

Lemma reachable_wf_full w m : reachable w -> In m w -> wf_full m.
Proof.
  intros (ops & ->). unfold world_after.
  assert (H : forall w0, Forall wf_full w0 -> Forall wf_full (fold_left (fun w o => fst (wstep w o)) ops w0)).
  { induction ops as [|o ops IH]; intros w0 H0; cbn [fold_left]; [exact H0|].
    apply IH. apply wstep_wf_full. exact H0. }
  intros Hin. specialize (H [] (Forall_nil _)). eapply Forall_forall in H; eauto.
Qed.

(* every record is reported, with the range it was given, and nothing else is *)
Lemma records_reported m : wf_full m ->
  (forall id n s e, In (id, n, s, e) (resources m) <->
     exists r, In r (m_ress m) /\ r_id r = id /\ r_name r = n /\ r_start r = s /\ r_stop r = e) /\
  (forall id n s e st, In (id, n, s, e, st) (windows m) <->
     exists wn c, In (wn, c) (m_wins m) /\ w_id wn = id /\ w_name wn = n /\ w_start wn = s /\
                  w_stop wn = e /\ w_step wn = st) /\
  NoDup (map e_asg (m_ranges m)) /\
  NoDup (map r_id (m_ress m)) /\ NoDup (map (fun wc => w_id (fst wc)) (m_wins m)).
Proof.
  intros (Hwf & [R1 R2 R3 R4 R5 R6 R7]). pose proof (wf_entries _ Hwf) as Hent.
  split; [|split; [|split; [exact R5|split; [exact R6|exact R7]]]].
  - intros id n s e. unfold resources. rewrite in_flat_map. split.
    + intros (x & Hx & Ht). destruct (Hent x Hx) as (_ & Hok).
      destruct (e_asg x) as [id'|id']; [|destruct Ht].
      destruct Hok as (_ & r & Hr & Hs & He). rewrite Hr in Ht. destruct Ht as [Ht|[]].
      injection Ht as <- <- <- <-. apply find_res_some in Hr as (Hr & Hid). exists r. auto.
    + intros (r & Hr & <- & <- & <- & <-). destruct (R2 r Hr) as (x & Hx & Ha).
      exists x. split; [exact Hx|]. destruct (Hent x Hx) as (_ & Hok). rewrite Ha in *.
      destruct Hok as (_ & r' & Hr' & Hs & He). rewrite (R1 r Hr) in Hr'. injection Hr' as <-.
      rewrite (R1 r Hr). left. congruence.
  - intros id n s e st. unfold windows. rewrite in_flat_map. split.
    + intros (x & Hx & Ht). destruct (Hent x Hx) as (_ & Hok).
      destruct (e_asg x) as [id'|id']; [destruct Ht|].
      destruct Hok as (_ & [wn c] & Hw & Hs & He & Hst). rewrite Hw in Ht. destruct Ht as [Ht|[]].
      injection Ht as <- <- <- <- <-. apply find_win_some in Hw as (Hw & Hid). cbn [fst] in *.
      exists wn, c. repeat split; auto.
    + intros (wn & c & Hw & <- & <- & <- & <- & <-). destruct (R4 _ Hw) as (x & Hx & Ha).
      exists x. split; [exact Hx|]. destruct (Hent x Hx) as (_ & Hok). cbn [fst] in *. rewrite Ha in *.
      destruct Hok as (_ & wc' & Hw' & Hs & He & Hst). pose proof (R3 _ Hw) as Hf. cbn [fst] in Hf.
      rewrite Hf in Hw'. injection Hw' as <-. rewrite Hf. cbn [fst] in *. left. congruence.
Qed.
