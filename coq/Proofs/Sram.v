(* Proofs about the Wishbone SRAM model (C15). *)
From Coq Require Import ZArith List Bool Lia Arith ZifyBool.
From Soc Require Import Lib.Bits Model.Sram.
Import ListNotations.
Open Scope Z_scope.

(* ---------- granule arithmetic ---------- *)

Lemma slice_add_hi off w lo x m : 0 <= off -> 0 <= w -> off + w <= m ->
  slice off w (lo + x * 2 ^ m) = slice off w lo.
Proof.
  intros Ho Hw Hm. unfold slice.
  replace (2 ^ m) with (2 ^ (m - off) * 2 ^ off)
    by (rewrite <- Z.pow_add_r by lia; f_equal; lia).
  rewrite Z.mul_assoc, Z.div_add by (pose proof (pow2_pos off Ho); lia).
  replace (2 ^ (m - off)) with (2 ^ (m - off - w) * 2 ^ w)
    by (rewrite <- Z.pow_add_r by lia; f_equal; lia).
  rewrite Z.mul_assoc, Z.mod_add by (pose proof (pow2_pos w Hw); lia). reflexivity.
Qed.

Lemma slice_top m w lo x : 0 <= m -> 0 <= lo < 2 ^ m ->
  slice m w (lo + x * 2 ^ m) = x mod 2 ^ w.
Proof.
  intros Hm Hlo. unfold slice. rewrite Z.div_add by (pose proof (pow2_pos m Hm); lia).
  rewrite Z.div_small by lia. reflexivity.
Qed.

Lemma mul_nat_nonneg n gr : 0 <= gr -> 0 <= Z.of_nat n * gr.
Proof. intros; apply Z.mul_nonneg_nonneg; lia. Qed.

Lemma merge_nat_range gr en old new : 0 <= gr -> forall n,
  0 <= merge_nat n gr en old new < 2 ^ (Z.of_nat n * gr).
Proof.
  intros Hg. induction n as [|n IH].
  - cbn [merge_nat]. change (Z.of_nat 0) with 0. rewrite Z.mul_0_l, Z.pow_0_r. lia.
  - cbn [merge_nat].
    set (x := if Z.testbit en (Z.of_nat n) then slice (Z.of_nat n * gr) gr new
              else slice (Z.of_nat n * gr) gr old).
    assert (Hx : 0 <= x < 2 ^ gr) by (unfold x; destruct (Z.testbit en (Z.of_nat n)); apply slice_range; auto).
    rewrite Nat2Z.inj_succ, Z.mul_succ_l, Z.pow_add_r by (try apply mul_nat_nonneg; lia).
    set (P := 2 ^ (Z.of_nat n * gr)) in *. set (Q := 2 ^ gr) in *.
    assert (0 <= x * P <= (Q - 1) * P)
      by (split; [apply Z.mul_nonneg_nonneg; lia | apply Z.mul_le_mono_nonneg_r; lia]).
    lia.
Qed.

Lemma merge_nat_slice gr en old new : 0 <= gr -> forall n k, (k < n)%nat ->
  slice (Z.of_nat k * gr) gr (merge_nat n gr en old new) =
  if Z.testbit en (Z.of_nat k) then slice (Z.of_nat k * gr) gr new
  else slice (Z.of_nat k * gr) gr old.
Proof.
  intros Hg. induction n as [|n IH]; intros k Hk; [lia|].
  cbn [merge_nat]. destruct (Nat.eq_dec k n) as [->|Hne].
  - rewrite slice_top; [| apply mul_nat_nonneg; auto | apply merge_nat_range; auto].
    apply Z.mod_small. destruct (Z.testbit en (Z.of_nat n)); apply slice_range; auto.
  - assert (Hkn : Z.of_nat k + 1 <= Z.of_nat n) by lia.
    rewrite slice_add_hi; [apply IH; lia | apply mul_nat_nonneg; auto | auto |].
    rewrite <- Z.mul_succ_l. apply Z.mul_le_mono_nonneg_r; lia.
Qed.

Lemma merge_nat_noen gr en old new : 0 <= gr -> forall n,
  (forall k, (k < n)%nat -> Z.testbit en (Z.of_nat k) = false) ->
  merge_nat n gr en old new = old mod 2 ^ (Z.of_nat n * gr).
Proof.
  intros Hg. induction n as [|n IH]; intros H.
  - cbn [merge_nat]. change (Z.of_nat 0) with 0. rewrite Z.mul_0_l, Z.pow_0_r, Z.mod_1_r. reflexivity.
  - cbn [merge_nat]. rewrite H by lia. rewrite IH by (intros; apply H; lia).
    rewrite Nat2Z.inj_succ, Z.mul_succ_l, Z.pow_add_r by (try apply mul_nat_nonneg; lia).
    rewrite Z.rem_mul_r;
      [| pose proof (pow2_pos (Z.of_nat n * gr) (mul_nat_nonneg n gr Hg)); lia | apply pow2_pos; auto].
    unfold slice. ring.
Qed.

Lemma merge_nat_ext gr en old old' new : forall n,
  (forall k, (k < n)%nat -> Z.testbit en (Z.of_nat k) = false) ->
  (forall k, (k < n)%nat -> slice (Z.of_nat k * gr) gr old = slice (Z.of_nat k * gr) gr old') ->
  merge_nat n gr en old new = merge_nat n gr en old' new.
Proof.
  induction n as [|n IH]; intros He Hs; [reflexivity|].
  cbn [merge_nat]. rewrite He by lia. rewrite Hs by lia. rewrite IH; auto.
Qed.

(* a value of n granules is determined by its granules *)
Lemma granules_determine gr n x y : 0 <= gr ->
  0 <= x < 2 ^ (Z.of_nat n * gr) -> 0 <= y < 2 ^ (Z.of_nat n * gr) ->
  (forall k, (k < n)%nat -> slice (Z.of_nat k * gr) gr x = slice (Z.of_nat k * gr) gr y) ->
  x = y.
Proof.
  intros Hg Hx Hy H.
  rewrite <- (Z.mod_small x (2 ^ (Z.of_nat n * gr))) by lia.
  rewrite <- (Z.mod_small y (2 ^ (Z.of_nat n * gr))) by lia.
  rewrite <- (merge_nat_noen gr 0 x 0 Hg n) by (intros; apply Z.testbit_0_l).
  rewrite <- (merge_nat_noen gr 0 y 0 Hg n) by (intros; apply Z.testbit_0_l).
  apply merge_nat_ext; auto. intros; apply Z.testbit_0_l.
Qed.

(* ---------- lists ---------- *)

Lemma upd_length v : forall l n, length (upd n l v) = length l.
Proof. induction l as [|x l IH]; intros [|n]; simpl; auto. Qed.

Lemma nth_upd_same v d : forall l n, (n < length l)%nat -> nth n (upd n l v) d = v.
Proof.
  induction l as [|x l IH]; intros [|n] H; simpl in *; try lia; auto. apply IH; lia.
Qed.

Lemma nth_upd_other v d : forall l n r, r <> n -> nth r (upd n l v) d = nth r l d.
Proof.
  induction l as [|x l IH]; intros [|n] [|r] H; simpl; auto; try congruence.
Qed.

Lemma upd_Forall (P : Z -> Prop) v : P v -> forall l n, Forall P l -> Forall P (upd n l v).
Proof.
  intros Hv. induction l as [|x l IH]; intros [|n] H; simpl; auto;
    inversion H; subst; constructor; auto.
Qed.

Lemma upd_same d : forall l n, upd n l (nth n l d) = l.
Proof.
  induction l as [|x l IH]; intros [|n]; simpl; auto. f_equal. apply IH.
Qed.

Lemma Forall_nth_in (P : Z -> Prop) d l n : Forall P l -> (n < length l)%nat -> P (nth n l d).
Proof. intros H Hn. rewrite Forall_forall in H. apply H, nth_In, Hn. Qed.

(* ---------- constructor ---------- *)

Lemma is_pow2_log2 s : is_pow2 s = true -> s = 2 ^ Z.log2 s.
Proof.
  unfold is_pow2. intros H. apply andb_prop in H. destruct H as [Hp Hl].
  apply Z.ltb_lt in Hp. apply Z.eqb_eq in Hl.
  destruct (Z.log2_spec s Hp) as [Hlo Hhi].
  destruct (Z.eq_dec s (2 ^ Z.log2 s)) as [|Hne]; auto. exfalso.
  assert (Hk : 0 <= Z.log2 s) by apply Z.log2_nonneg.
  pose proof (pow2_pos _ Hk) as Hpp.
  assert (H1 : Z.log2 (s - 1) = Z.log2 s) by (apply Z.log2_unique; [auto | lia]).
  assert (B1 : Z.testbit s (Z.log2 s) = true) by (apply Z.bit_log2; lia).
  assert (B2 : Z.testbit (s - 1) (Z.log2 s) = true) by (rewrite <- H1; apply Z.bit_log2; lia).
  assert (B : Z.testbit (Z.land s (s - 1)) (Z.log2 s) = true) by (rewrite Z.land_spec, B1, B2; auto).
  rewrite Hl, Z.testbit_0_l in B. discriminate.
Qed.

Lemma width_ok_cases z : width_ok z = true -> z = 8 \/ z = 16 \/ z = 32 \/ z = 64.
Proof. unfold width_ok. lia. Qed.

Lemma width_ok_pow z : width_ok z = true -> exists a, 3 <= a <= 6 /\ z = 2 ^ a.
Proof.
  intros H. destruct (width_ok_cases z H) as [-> | [-> | [-> | ->]]];
    [exists 3 | exists 4 | exists 5 | exists 6]; (split; [lia | reflexivity]).
Qed.

(* what an accepted geometry satisfies; every divisor used by the model is positive here, so no
   statement below holds "because x / 0 = 0" *)
Record wf (g : geom) : Prop := {
  wf_dw    : width_ok (g_dw g) = true;
  wf_gran  : width_ok (g_gran g) = true;
  wf_le    : g_gran g <= g_dw g;
  wf_nsel  : nsel g * g_gran g = g_dw g;
  wf_aw    : 0 <= g_aw g;
  wf_depth : g_depth g = 2 ^ g_aw g;
  wf_cover : g_depth g * g_dw g = g_size g * g_gran g;
  wf_mmaw  : 0 < g_mmaw g;
  wf_mm    : g_size g = 2 ^ g_mmaw g
}.

Definition rows_ok (g : geom) (l : list Z) : Prop :=
  length l = Z.to_nat (g_depth g) /\ Forall (fun x => 0 <= x < 2 ^ g_dw g) l.

Ltac split_ifs :=
  repeat match goal with
         | H : context [if ?c then _ else _] |- _ => destruct c eqn:?; try discriminate H
         end.

(* exactly when, and with what result, the constructor accepts *)
Lemma construct_inv sz d gr wr init ge rows0 :
  construct sz d gr wr init = Ok (ge, rows0) ->
  exists s dd gg,
    sz = VInt s /\ d = VInt dd /\ (gr = VInt gg \/ (gr = VNone /\ gg = dd)) /\
    is_pow2 s = true /\ width_ok dd = true /\ width_ok gg = true /\
    dd <= s * gg /\ gg <= dd /\ Z.of_nat (length init) <= s * gg / dd /\ 0 < Z.log2 s /\
    ge = {| g_size := s; g_dw := dd; g_gran := gg; g_wr := wr; g_depth := s * gg / dd;
            g_aw := Z.log2 (s * gg / dd); g_mmaw := Z.log2 s |} /\
    rows0 = init_rows dd (s * gg / dd) init.
Proof.
  unfold construct. intros H.
  destruct sz as [s|s| |]; try discriminate H.
  destruct d as [dd|dd| |]; destruct gr as [gg|gg| |]; cbn [num is_float orb] in H;
    split_ifs; try discriminate H; injection H as <- <-.
  - exists s, dd, gg. repeat split; auto; lia.
  - exists s, dd, dd. repeat split; auto; lia.
Qed.

Lemma construct_complete s dd gg gr wr init :
  (gr = VInt gg \/ (gr = VNone /\ gg = dd)) ->
  is_pow2 s = true -> width_ok dd = true -> width_ok gg = true ->
  dd <= s * gg -> gg <= dd -> Z.of_nat (length init) <= s * gg / dd -> 0 < Z.log2 s ->
  construct (VInt s) (VInt dd) gr wr init =
  Ok ({| g_size := s; g_dw := dd; g_gran := gg; g_wr := wr; g_depth := s * gg / dd;
         g_aw := Z.log2 (s * gg / dd); g_mmaw := Z.log2 s |}, init_rows dd (s * gg / dd) init).
Proof.
  intros Hg Hs Hd Hgg H1 H2 H3 H4. unfold construct.
  assert (E : num (match gr with VNone => VInt dd | _ => gr end) = Some gg /\
              is_float (match gr with VNone => VInt dd | _ => gr end) = false)
    by (destruct Hg as [-> | [-> ->]]; auto).
  destruct E as [E1 E2]. rewrite E1, E2, Hs. cbn [num is_float negb orb]. rewrite Hd, Hgg. cbn [negb].
  destruct (s * gg <? dd) eqn:A1; [lia|].
  destruct (s * gg / dd <? Z.of_nat (length init)) eqn:A2; [lia|].
  destruct (dd <? gg) eqn:A3; [lia|].
  destruct (Z.log2 s <=? 0) eqn:A4; [lia|]. reflexivity.
Qed.

Lemma construct_wf sz d gr wr init ge rows0 :
  construct sz d gr wr init = Ok (ge, rows0) -> wf ge /\ rows_ok ge rows0.
Proof.
  intros H. apply construct_inv in H.
  destruct H as (s & dd & gg & _ & _ & _ & Hs & Hd & Hg & H1 & H2 & H3 & H4 & -> & ->).
  pose proof (is_pow2_log2 s Hs) as Es.
  destruct (width_ok_pow dd Hd) as (b & Hb & Eb). destruct (width_ok_pow gg Hg) as (a & Ha & Ea).
  set (k := Z.log2 s) in *.
  assert (Hk : 0 <= k) by (unfold k; apply Z.log2_nonneg).
  assert (Hba : b <= k + a).
  { apply (Z.pow_le_mono_r_iff 2); [lia | lia |]. rewrite Z.pow_add_r by lia. rewrite <- Es, <- Ea, <- Eb. auto. }
  assert (Hab : a <= b).
  { apply (Z.pow_le_mono_r_iff 2); [lia | lia |]. rewrite <- Ea, <- Eb. auto. }
  assert (Ed : s * gg / dd = 2 ^ (k + a - b)).
  { rewrite Es, Ea, Eb. rewrite <- Z.pow_add_r by lia. rewrite <- Z.pow_sub_r by lia. reflexivity. }
  assert (En : dd / gg * gg = dd).
  { rewrite Ea, Eb. rewrite <- Z.pow_sub_r by lia. rewrite <- Z.pow_add_r by lia. f_equal; lia. }
  split.
  - constructor; cbn [g_dw g_gran g_aw g_depth g_size g_mmaw]; auto; try lia.
    + apply Z.log2_nonneg.
    + rewrite Ed at 1. rewrite Ed. rewrite Z.log2_pow2 by lia. reflexivity.
    + rewrite Ed. rewrite Es at 1. rewrite Ea, Eb. rewrite <- !Z.pow_add_r by lia. f_equal; lia.
  - unfold rows_ok, init_rows. cbn [g_depth g_dw]. split.
    + rewrite app_length, map_length, repeat_length. lia.
    + apply Forall_app. split.
      * apply Forall_forall. intros x Hx. apply in_map_iff in Hx. destruct Hx as (y & <- & _).
        apply trunc_range. lia.
      * apply Forall_forall. intros x Hx. apply repeat_spec in Hx. subst x.
        pose proof (pow2_pos dd). lia.
Qed.

Lemma init_rows_nth dw depth init r : (r < Z.to_nat depth)%nat ->
  nth r (init_rows dw depth init) 0 = trunc dw (nth r init 0).
Proof.
  intros Hr. unfold init_rows. destruct (Nat.lt_ge_cases r (length init)) as [Hl|Hl].
  - rewrite app_nth1 by (rewrite map_length; auto).
    change 0 with (trunc dw 0) at 1.
    apply map_nth.
  - rewrite app_nth2 by (rewrite map_length; auto). rewrite (nth_overflow init) by auto.
    rewrite nth_repeat. unfold trunc. rewrite Zmod_0_l. reflexivity.
Qed.

(* ---------- the machine ---------- *)

(* a transfer is accepted in a cycle where cyc & stb are presented and ack is not asserted *)
Definition accepted (s : state) (i : inp) : bool := negb (ack s) && (cyc i && stb i).
Definition accepted_write (g : geom) (s : state) (i : inp) : bool := g_wr g && accepted s i && we i.
Definition accepted_read (s : state) (i : inp) : bool := accepted s i && negb (we i).

(* the word addressed by the bus *)
Definition word (g : geom) (i : inp) : Z := trunc (g_aw g) (adr i).
Definition row (l : list Z) (a : Z) : Z := nth (Z.to_nat a) l 0.

Lemma ack_step g s i : ack (next g s i) = accepted s i.
Proof. unfold next, accepted. cbn [ack]. destruct (ack s), (cyc i), (stb i); reflexivity. Qed.

Lemma word_range g i : wf g -> 0 <= word g i < g_depth g.
Proof. intros W. unfold word. rewrite (wf_depth g W). apply trunc_range, (wf_aw g W). Qed.

Lemma wf_gran_pos g : wf g -> 8 <= g_gran g.
Proof. intros W. pose proof (width_ok_cases _ (wf_gran g W)). lia. Qed.

Lemma wf_nsel_pos g : wf g -> 0 < nsel g.
Proof.
  intros W. pose proof (wf_nsel g W). pose proof (wf_gran_pos g W).
  pose proof (width_ok_cases _ (wf_dw g W)).
  destruct (Z.lt_ge_cases 0 (nsel g)) as [|Hn]; auto. exfalso.
  assert (nsel g * g_gran g <= 0) by (apply Z.mul_nonpos_nonneg; lia). lia.
Qed.

Lemma merge_range g en old new : wf g -> 0 <= merge g en old new < 2 ^ g_dw g.
Proof.
  intros W. unfold merge. pose proof (wf_nsel_pos g W). pose proof (wf_gran_pos g W).
  pose proof (merge_nat_range (g_gran g) en old new ltac:(lia) (Z.to_nat (nsel g))) as H1.
  rewrite Z2Nat.id, (wf_nsel g W) in H1 by lia. exact H1.
Qed.

Lemma merge_slice g en old new k : wf g -> 0 <= k < nsel g ->
  slice (k * g_gran g) (g_gran g) (merge g en old new) =
  if Z.testbit en k then slice (k * g_gran g) (g_gran g) new else slice (k * g_gran g) (g_gran g) old.
Proof.
  intros W Hk. unfold merge. pose proof (wf_gran_pos g W).
  pose proof (merge_nat_slice (g_gran g) en old new ltac:(lia) (Z.to_nat (nsel g)) (Z.to_nat k) ltac:(lia)) as H1.
  rewrite Z2Nat.id in H1 by lia. exact H1.
Qed.

Lemma merge_noen g old new : wf g -> 0 <= old < 2 ^ g_dw g -> merge g 0 old new = old.
Proof.
  intros W Ho. unfold merge. pose proof (wf_gran_pos g W). pose proof (wf_nsel_pos g W).
  rewrite merge_nat_noen by (try lia; intros; apply Z.testbit_0_l).
  rewrite Z2Nat.id, (wf_nsel g W) by lia. apply Z.mod_small, Ho.
Qed.

Lemma word_lt_length g s i : wf g -> rows_ok g (rows s) -> (Z.to_nat (word g i) < length (rows s))%nat.
Proof. intros W [Hl _]. pose proof (word_range g i W). rewrite Hl. lia. Qed.

Lemma rows_step_no_write g s i : wf g -> rows_ok g (rows s) ->
  accepted_write g s i = false -> rows (next g s i) = rows s.
Proof.
  intros W R H. unfold next. cbn [rows]. fold (word g i).
  destruct (g_wr g) eqn:Ew; [|reflexivity].
  unfold accepted_write, accepted in H. rewrite Ew in H. cbn [andb] in H.
  assert (E : (if negb (ack s) && (cyc i && stb i) && true then if we i then sel i else 0 else 0) = 0).
  { destruct (negb (ack s) && (cyc i && stb i)); cbn [andb] in *; auto. rewrite H. reflexivity. }
  rewrite E. rewrite merge_noen; auto.
  - apply upd_same.
  - pose proof R as [_ Hf]. apply (Forall_nth_in _ 0 _ _ Hf). apply word_lt_length; auto.
Qed.

Lemma rows_step_write g s i : accepted_write g s i = true ->
  rows (next g s i) =
  upd (Z.to_nat (word g i)) (rows s) (merge g (sel i) (row (rows s) (word g i)) (dat_w i)).
Proof.
  intros H. unfold accepted_write, accepted in H.
  apply andb_prop in H. destruct H as [H Hwe]. apply andb_prop in H. destruct H as [Hw Hacc].
  unfold next. cbn [rows]. fold (word g i). rewrite Hw, Hacc, Hwe. reflexivity.
Qed.

Lemma next_rows_ok g s i : wf g -> rows_ok g (rows s) -> rows_ok g (rows (next g s i)).
Proof.
  intros W R. destruct (accepted_write g s i) eqn:E.
  - rewrite rows_step_write by auto. destruct R as [Hl Hf]. split.
    + rewrite upd_length. auto.
    + apply upd_Forall; auto. apply merge_range; auto.
  - rewrite rows_step_no_write; auto.
Qed.

(* one step, granule by granule: granule k of word a becomes the data granule iff this is an accepted
   write to a with sel[k] set; every other granule of every word keeps its value *)
Lemma next_granule g s i a k : wf g -> rows_ok g (rows s) -> 0 <= a < g_depth g -> 0 <= k < nsel g ->
  slice (k * g_gran g) (g_gran g) (row (rows (next g s i)) a) =
  if accepted_write g s i && (word g i =? a) && Z.testbit (sel i) k
  then slice (k * g_gran g) (g_gran g) (dat_w i)
  else slice (k * g_gran g) (g_gran g) (row (rows s) a).
Proof.
  intros W R Ha Hk. destruct (accepted_write g s i) eqn:E; cbn [andb].
  - rewrite rows_step_write by auto. unfold row at 1.
    destruct (Z.eqb_spec (word g i) a) as [->|Hne]; cbn [andb].
    + rewrite nth_upd_same by (destruct R as [Hl _]; rewrite Hl; lia).
      apply merge_slice; auto.
    + rewrite nth_upd_other by (pose proof (word_range g i W); lia). reflexivity.
  - rewrite rows_step_no_write; auto.
Qed.

Lemma read_step g s i : accepted_read s i = true ->
  latch (next g s i) = row (rows s) (word g i).
Proof.
  intros H. unfold accepted_read, accepted in H. apply andb_prop in H. destruct H as [Hacc Hwe].
  unfold next. cbn [latch]. fold (word g i). rewrite Hacc.
  apply negb_true_iff in Hwe. rewrite Hwe. destruct (g_wr g); reflexivity.
Qed.

(* a read-only SRAM's read port is always enabled *)
Lemma readonly_latch g s i : g_wr g = false -> latch (next g s i) = row (rows s) (word g i).
Proof. intros H. unfold next. cbn [latch]. rewrite H, andb_false_r. reflexivity. Qed.

Lemma readonly_rows g s i : g_wr g = false -> rows (next g s i) = rows s.
Proof. intros H. unfold next. cbn [rows]. rewrite H. reflexivity. Qed.

(* a write-request's data phase of a writable SRAM holds the read data register *)
Lemma write_holds_latch g s i : accepted_write g s i = true -> latch (next g s i) = latch s.
Proof.
  intros H. unfold accepted_write, accepted in H.
  apply andb_prop in H. destruct H as [H Hwe]. apply andb_prop in H. destruct H as [Hw Hacc].
  unfold next. cbn [latch]. rewrite Hw, Hacc, Hwe. reflexivity.
Qed.

(* ---------- traces ---------- *)

(* the acknowledge sequence required by the property: ack(0) = a, ack(t+1) = cyc(t) & stb(t) & ~ack(t) *)
Fixpoint ack_seq (a : bool) (tr : list inp) : list bool :=
  match tr with
  | [] => []
  | i :: tr' => a :: ack_seq (negb a && (cyc i && stb i)) tr'
  end.

Lemma ack_trace g : forall tr s, map o_ack (run g s tr) = ack_seq (ack s) tr.
Proof.
  induction tr as [|i tr IH]; intros s; [reflexivity|].
  cbn [run map ack_seq]. rewrite IH, ack_step. reflexivity.
Qed.

Lemma state_after_app g : forall tr1 tr2 s,
  state_after g s (tr1 ++ tr2) = state_after g (state_after g s tr1) tr2.
Proof. induction tr1 as [|i tr1 IH]; intros tr2 s; [reflexivity|]. cbn [app state_after]. apply IH. Qed.

(* the t-th output of a run is the output of the state reached by the first t inputs *)
Lemma run_nth g : forall tr s t, (t < length tr)%nat ->
  nth_error (run g s tr) t = Some (out (state_after g s (firstn t tr))).
Proof.
  induction tr as [|i tr IH]; intros s t Ht; cbn [length] in Ht; [lia|].
  destruct t as [|t]; [reflexivity|]. cbn [run nth_error firstn state_after]. apply IH. lia.
Qed.

Lemma run_length g : forall tr s, length (run g s tr) = length tr.
Proof. induction tr as [|i tr IH]; intros s; [reflexivity|]. cbn [run length]. rewrite IH. reflexivity. Qed.

Lemma reach_rows_ok g : wf g -> forall tr s, rows_ok g (rows s) -> rows_ok g (rows (state_after g s tr)).
Proof.
  intros W. induction tr as [|i tr IH]; intros s R; [exact R|].
  cbn [state_after]. apply IH, next_rows_ok; auto.
Qed.

(* ---------- the abstract memory, defined on the input history alone ---------- *)

Record wev := { w_adr : Z; w_sel : Z; w_dat : Z }.

(* the accepted writes of a history, oldest first; `a` is the acknowledge at its start.  A read-only
   SRAM accepts (acknowledges) writes but they are not part of its history of contents. *)
Fixpoint writes_of (g : geom) (a : bool) (tr : list inp) : list wev :=
  match tr with
  | [] => []
  | i :: tr' =>
      let acc := negb a && (cyc i && stb i) in
      (if g_wr g && acc && we i
       then [{| w_adr := word g i; w_sel := sel i; w_dat := dat_w i |}] else [])
      ++ writes_of g acc tr'
  end.

(* granule k of word a after the writes ws, starting from the value v0: the data granule of the
   latest write to word a whose sel[k] was set, v0 if there is none *)
Definition agran (gr : Z) (ws : list wev) (a k : Z) (v0 : Z) : Z :=
  fold_left (fun v w => if (w_adr w =? a) && Z.testbit (w_sel w) k
                        then slice (k * gr) gr (w_dat w) else v) ws v0.

Lemma rows_track g : wf g -> forall tr s, rows_ok g (rows s) ->
  forall a k, 0 <= a < g_depth g -> 0 <= k < nsel g ->
  slice (k * g_gran g) (g_gran g) (row (rows (state_after g s tr)) a) =
  agran (g_gran g) (writes_of g (ack s) tr) a k (slice (k * g_gran g) (g_gran g) (row (rows s) a)).
Proof.
  intros W. induction tr as [|i tr IH]; intros s R a k Ha Hk; [reflexivity|].
  cbn [state_after writes_of]. rewrite IH by (auto; apply next_rows_ok; auto).
  rewrite ack_step. unfold accepted. unfold agran at 2. rewrite fold_left_app. fold (agran (g_gran g)).
  f_equal. rewrite next_granule by auto. unfold accepted_write, accepted.
  destruct (g_wr g && (negb (ack s) && (cyc i && stb i)) && we i); reflexivity.
Qed.

(* ---------- statements about an SRAM as constructed ---------- *)

(* word a of the init argument as the memory sees it: cast to the row shape, 0 beyond its end *)
Definition init_word (g : geom) (init : list Z) (a : Z) : Z :=
  trunc (g_dw g) (nth (Z.to_nat a) init 0).

(* the state reached from power-up by the input history tr *)
Definition reach (g : geom) (rows0 : list Z) (tr : list inp) : state :=
  state_after g (init_state rows0) tr.

Lemma construct_rows0 sz d gr wr init g rows0 :
  construct sz d gr wr init = Ok (g, rows0) ->
  g_wr g = wr /\ forall a, 0 <= a < g_depth g -> row rows0 a = init_word g init a.
Proof.
  intros H. apply construct_inv in H.
  destruct H as (s & dd & gg & _ & _ & _ & _ & _ & _ & _ & _ & _ & _ & -> & ->).
  cbn [g_wr g_depth]. split; [reflexivity|]. intros a Ha. unfold row, init_word. cbn [g_dw].
  apply init_rows_nth. lia.
Qed.

Lemma row_determined g x y : wf g -> 0 <= x < 2 ^ g_dw g -> 0 <= y < 2 ^ g_dw g ->
  (forall k, 0 <= k < nsel g ->
     slice (k * g_gran g) (g_gran g) x = slice (k * g_gran g) (g_gran g) y) -> x = y.
Proof.
  intros W Hx Hy H. pose proof (wf_gran_pos g W). pose proof (wf_nsel_pos g W).
  apply (granules_determine (g_gran g) (Z.to_nat (nsel g))); try lia.
  - rewrite Z2Nat.id, (wf_nsel g W) by lia. exact Hx.
  - rewrite Z2Nat.id, (wf_nsel g W) by lia. exact Hy.
  - intros k Hk. apply H. lia.
Qed.

Lemma memory_exact sz d gr wr init g rows0 tr :
  construct sz d gr wr init = Ok (g, rows0) ->
  length (rows (reach g rows0 tr)) = Z.to_nat (g_depth g) /\
  forall a, 0 <= a < g_depth g ->
    0 <= row (rows (reach g rows0 tr)) a < 2 ^ g_dw g /\
    forall k, 0 <= k < nsel g ->
      slice (k * g_gran g) (g_gran g) (row (rows (reach g rows0 tr)) a) =
      agran (g_gran g) (writes_of g false tr) a k
            (slice (k * g_gran g) (g_gran g) (init_word g init a)).
Proof.
  intros H. destruct (construct_wf _ _ _ _ _ _ _ H) as [W R0].
  destruct (construct_rows0 _ _ _ _ _ _ _ H) as [_ Hi].
  assert (R : rows_ok g (rows (reach g rows0 tr))) by (apply reach_rows_ok; auto).
  split; [apply R|]. intros a Ha. split.
  - destruct R as [Hl Hf]. apply (Forall_nth_in _ 0 _ _ Hf). rewrite Hl. lia.
  - intros k Hk. unfold reach. rewrite rows_track by auto. cbn [init_state ack rows].
    rewrite Hi by auto. reflexivity.
Qed.

Lemma write_exact sz d gr wr init g rows0 tr i :
  construct sz d gr wr init = Ok (g, rows0) ->
  let s := reach g rows0 tr in
  (accepted_write g s i = false -> rows (next g s i) = rows s) /\
  (accepted_write g s i = true ->
     length (rows (next g s i)) = length (rows s) /\
     forall a, 0 <= a < g_depth g ->
       0 <= row (rows (next g s i)) a < 2 ^ g_dw g /\
       forall k, 0 <= k < nsel g ->
         slice (k * g_gran g) (g_gran g) (row (rows (next g s i)) a) =
         if (word g i =? a) && Z.testbit (sel i) k
         then slice (k * g_gran g) (g_gran g) (dat_w i)
         else slice (k * g_gran g) (g_gran g) (row (rows s) a)).
Proof.
  intros H s. destruct (construct_wf _ _ _ _ _ _ _ H) as [W R0].
  assert (R : rows_ok g (rows s)) by (apply reach_rows_ok; auto).
  split; [apply rows_step_no_write; auto|]. intros Hw.
  pose proof (next_rows_ok g s i W R) as [Hl Hf]. split; [destruct R; congruence|].
  intros a Ha. split.
  - apply (Forall_nth_in _ 0 _ _ Hf). rewrite Hl. lia.
  - intros k Hk. rewrite next_granule by auto. rewrite Hw. reflexivity.
Qed.

(* the cycle after an accepted transfer accepts nothing: a held request is served once *)
Lemma accepted_once g s i j : accepted s i = true -> accepted (next g s i) j = false.
Proof. intros H. unfold accepted at 1. rewrite ack_step, H. reflexivity. Qed.

Lemma read_returns_latest sz d gr wr init g rows0 tr i :
  construct sz d gr wr init = Ok (g, rows0) ->
  let s := reach g rows0 tr in
  accepted_read s i = true ->
  0 <= o_dat_r (out (next g s i)) < 2 ^ g_dw g /\
  forall k, 0 <= k < nsel g ->
    slice (k * g_gran g) (g_gran g) (o_dat_r (out (next g s i))) =
    agran (g_gran g) (writes_of g false tr) (word g i) k
          (slice (k * g_gran g) (g_gran g) (init_word g init (word g i))).
Proof.
  intros H s Hr. destruct (construct_wf _ _ _ _ _ _ _ H) as [W _].
  cbn [out o_dat_r]. rewrite read_step by auto.
  destruct (memory_exact _ _ _ _ _ _ _ tr H) as [_ M].
  exact (M (word g i) (word_range g i W)).
Qed.

Lemma readonly_rows_trace g : g_wr g = false -> forall tr s, rows (state_after g s tr) = rows s.
Proof.
  intros H. induction tr as [|i tr IH]; intros s; [reflexivity|].
  cbn [state_after]. rewrite IH. apply readonly_rows, H.
Qed.

Lemma readonly_run g : g_wr g = false -> forall tr s o, In o (run g s tr) -> o_mem o = rows s.
Proof.
  intros H. induction tr as [|i tr IH]; intros s o Ho; cbn [run] in Ho; [destruct Ho|].
  destruct Ho as [<-|Ho]; [reflexivity|]. rewrite (IH _ _ Ho). apply readonly_rows, H.
Qed.

Lemma readonly_constant sz d gr init g rows0 tr :
  construct sz d gr false init = Ok (g, rows0) ->
  rows (reach g rows0 tr) = rows0 /\
  (forall o, In o (run g (init_state rows0) tr) -> o_mem o = rows0) /\
  (forall i, ack (next g (reach g rows0 tr) i) = accepted (reach g rows0 tr) i /\
             rows (next g (reach g rows0 tr) i) = rows0 /\
             latch (next g (reach g rows0 tr) i) = row rows0 (word g i)).
Proof.
  intros H. destruct (construct_rows0 _ _ _ _ _ _ _ H) as [Hw _].
  assert (E : rows (reach g rows0 tr) = rows0) by (unfold reach; rewrite readonly_rows_trace; auto).
  split; [exact E|]. split.
  - intros o Ho. apply (readonly_run g Hw _ _ _ Ho).
  - intros i. split; [apply ack_step|]. split.
    + rewrite readonly_rows; auto.
    + rewrite readonly_latch, E; auto.
Qed.

(* ---------- constructor ---------- *)

Lemma log2_pos_iff s : 0 < Z.log2 s <-> 2 <= s.
Proof.
  split; intros H.
  - destruct (Z.le_gt_cases s 1) as [Hs|Hs]; [|lia]. apply Z.log2_null in Hs. lia.
  - apply Z.log2_pos. lia.
Qed.

Lemma construct_accepts_iff sz d gr wr init :
  (exists g rows0, construct sz d gr wr init = Ok (g, rows0)) <->
  (exists s dd gg,
     sz = VInt s /\ d = VInt dd /\ (gr = VInt gg \/ (gr = VNone /\ gg = dd)) /\
     is_pow2 s = true /\ 2 <= s /\ width_ok dd = true /\ width_ok gg = true /\
     gg <= dd /\ dd <= s * gg /\ Z.of_nat (length init) <= s * gg / dd).
Proof.
  split.
  - intros (g & rows0 & H). apply construct_inv in H.
    destruct H as (s & dd & gg & H1 & H2 & H3 & H4 & H5 & H6 & H7 & H8 & H9 & H10 & _).
    exists s, dd, gg. apply log2_pos_iff in H10. repeat split; auto.
  - intros (s & dd & gg & -> & -> & H3 & H4 & H5 & H6 & H7 & H8 & H9 & H10).
    eexists. eexists. apply (construct_complete s dd gg); auto. apply log2_pos_iff; auto.
Qed.

Lemma construct_geometry sz d gr wr init g rows0 :
  construct sz d gr wr init = Ok (g, rows0) ->
  wf g /\ g_wr g = wr /\ length rows0 = Z.to_nat (g_depth g) /\
  forall a, 0 <= a < g_depth g -> row rows0 a = init_word g init a.
Proof.
  intros H. destruct (construct_wf _ _ _ _ _ _ _ H) as [W [Hl _]].
  destruct (construct_rows0 _ _ _ _ _ _ _ H) as [Hw Hi]. auto.
Qed.

(* the documented refusals *)
Lemma construct_size_type_error sz d gr wr init :
  (forall s, sz = VInt s -> is_pow2 s = false) -> construct sz d gr wr init = Err TypeError.
Proof.
  intros H. unfold construct. destruct sz as [s|s| |]; auto. rewrite (H s eq_refl). reflexivity.
Qed.

Lemma construct_width_type_error s d gr wr init :
  (forall z, num d = Some z -> width_ok z = false) -> construct (VInt s) d gr wr init = Err TypeError.
Proof.
  intros H. unfold construct. destruct (is_pow2 s); cbn [negb]; auto.
  destruct (num d) as [z|] eqn:E; auto. rewrite (H z eq_refl). reflexivity.
Qed.

Lemma construct_gran_type_error s dd gg wr init :
  width_ok gg = false -> construct (VInt s) (VInt dd) (VInt gg) wr init = Err TypeError.
Proof.
  intros H. unfold construct. destruct (is_pow2 s); cbn [negb num]; auto.
  destruct (width_ok dd); cbn [negb]; auto. rewrite H. reflexivity.
Qed.

Lemma construct_too_small s dd gg wr init :
  is_pow2 s = true -> width_ok dd = true -> width_ok gg = true -> s * gg < dd ->
  construct (VInt s) (VInt dd) (VInt gg) wr init = Err ValueError.
Proof.
  intros H1 H2 H3 H4. unfold construct. rewrite H1. cbn [negb num]. rewrite H2, H3. cbn [negb].
  destruct (s * gg <? dd) eqn:E; [reflexivity | lia].
Qed.
