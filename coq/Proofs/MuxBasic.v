(* All-traces facts about the multiplexer model that need no protocol premise. *)
From Coq Require Import ZArith List Bool Lia.
From Soc Require Import Lib.Bits Model.Mux.
Import ListNotations.
Open Scope Z_scope.

Lemma state_after_app c : forall is s i, state_after c s (is ++ [i]) = next c (state_after c s is) i.
Proof. induction is as [|x is IH]; simpl; intros s i; [reflexivity|apply IH]. Qed.

Lemma run_app c : forall is s i, run c s (is ++ [i]) = run c s is ++ [out c (state_after c s is) i].
Proof. induction is as [|x is IH]; simpl; intros s i; [reflexivity|]. rewrite IH. reflexivity. Qed.

Lemma r_strobe_exact c s i k r : nth_error (c_regs c) k = Some r ->
  nth_error (o_rstb (out c s i)) k = Some (r_rd r && i_rstb i && (i_addr i =? r_start r)).
Proof. intros H. simpl. rewrite nth_error_map, H. reflexivity. Qed.

Lemma w_strobe_next c s i i' k r : nth_error (c_regs c) k = Some r ->
  nth_error (o_wstb (out c (next c s i) i')) k = Some (r_wr r && i_wstb i && (i_addr i =? r_stop r - 1)).
Proof. intros H. simpl. rewrite nth_error_map, H. reflexivity. Qed.

Lemma w_strobe_init c i k r : nth_error (c_regs c) k = Some r ->
  nth_error (o_wstb (out c (init c) i)) k = Some false.
Proof. intros H. simpl. rewrite nth_error_map, H. reflexivity. Qed.
