(* Acceptance of a resource/window name is decided exactly by the prefix relation against the visible
   names; a refused call leaves the world unchanged. *)
From Coq Require Import ZArith List Bool Lia ZifyBool Arith Permutation.
From Soc Require Import Lib.Res Lib.PyList Model.MemoryMap Model.MemSpec Proofs.RangeMap
                        Proofs.Namespace Proofs.NamespaceInv.
Import ListNotations.
Open Scope Z_scope.

Lemma avail_single names n :
  avail_spec names [n] = forallb (fun x => negb (name_conflictb n x)) names.
Proof. unfold avail_spec. simpl. apply andb_true_r. Qed.

Lemma is_available_single names n :
  (forall x, In x names -> x <> []) -> n <> [] ->
  is_available names [n] = Ok (avail_spec names [n]).
Proof.
  intros Hne Hn. apply is_available_pfree; auto.
  - intros q [<-|[]]; exact Hn.
  - simpl. tauto.
Qed.

Lemma rm_insert_total lo l k :
  chain lo l -> e_start k < e_stop k -> rm_overlaps l (e_start k) (e_stop k) = [] ->
  exists l', rm_insert l k = Ok l'.
Proof.
  intros Hc Hk Ho.
  assert (Hc' : chain (Z.min lo (e_start k)) l) by (eapply chain_weaken; [|exact Hc]; lia).
  rewrite (overlaps_spec _ _ _ _ Hc' Hk) in Ho.
  destruct (insert_ok _ l k Hc' ltac:(lia) Hk Ho) as (l'' & Hi' & _). eauto.
Qed.

Section Resource.
  Variables (w : world) (m : mmap).
  Hypothesis (Hr : reachable w) (Hm : In m w).
  Variables (id : Z) (nm : rawname) (n : name) (size addr al : pyint).
  Hypothesis (Hf : m_frozen m = false) (Hid : has_res m id = false) (Hn : mk_name nm = Ok n).

  Lemma resource_conflict_refused :
    (exists x, In x (m_names m) /\ name_conflict n x) ->
    add_resource m id true nm size addr al = Err ValueError.
  Proof.
    intros (x & Hx & Hc). pose proof (deep_local _ (reachable_deep _ _ Hr Hm)) as Hl.
    unfold add_resource. rewrite Hf, Hid, Hn. cbn [negb check bind].
    rewrite is_available_single; [|apply Hl|eapply mk_name_nonempty; eauto].
    rewrite avail_spec_false; [reflexivity|]. exists n, x. simpl. auto.
  Qed.

  Lemma resource_free_available :
    (forall x, In x (m_names m) -> ~ name_conflict n x) ->
    is_available (m_names m) [n] = Ok true.
  Proof.
    intros Hc. pose proof (deep_local _ (reachable_deep _ _ Hr Hm)) as Hl.
    rewrite is_available_single; [|apply Hl|eapply mk_name_nonempty; eauto].
    f_equal. apply avail_spec_true. intros q x [<-|[]] Hx. auto.
  Qed.

  (* a legal name is never refused: once alignment and placement are acceptable, the call succeeds *)
  Lemma resource_legal_accepted :
    (forall x, In x (m_names m) -> ~ name_conflict n x) ->
    forall A, (al = VNone /\ A = m_al m \/ exists a, al = VInt a /\ 0 <= a /\ A = Z.max a (m_al m)) ->
    forall s e, compute_addr_range m addr size A = Ok (s, e) ->
    exists m', add_resource m id true nm size addr al = Ok (m', (s, e)).
  Proof.
    intros Hc A HA s e Hcar. pose proof (deep_local _ (reachable_deep _ _ Hr Hm)) as Hl.
    assert (HA0 : 0 <= A) by (pose proof (lo_al _ Hl); destruct HA as [(_ & ->)|(a & _ & Ha & ->)]; lia).
    destruct (car_inv _ _ _ _ _ _ HA0 Hcar) as (Hse & Hov).
    destruct (lo_chain _ Hl) as (lo & Hch).
    destruct (rm_insert_total lo (m_ranges m) {| e_start := s; e_stop := e; e_step := 1; e_asg := AR id |}
                Hch Hse Hov) as (rs & Hins).
    unfold add_resource. rewrite Hf, Hid, Hn. cbn [negb check bind].
    rewrite (resource_free_available Hc). cbn [check bind].
    assert (Hal : match al with
                  | VNone => Ok (m_al m)
                  | _ => let! _ := check (nonneg al) ValueError in Ok (Z.max (zof al) (m_al m))
                  end = Ok A).
    { destruct HA as [(-> & ->)|(a & -> & Ha & ->)]; [reflexivity|]. simpl.
      replace (0 <=? a) with true by lia. reflexivity. }
    rewrite Hal. cbn [bind]. rewrite Hcar. cbn [bind]. rewrite Hins. cbn [bind].
    destruct m. eexists. reflexivity.
  Qed.
End Resource.

Section Window.
  Variables (w : world) (m wm : mmap).
  Hypothesis (Hr : reachable w) (Hm : In m w) (Hwm : In wm w).

  Lemma window_queries_ok n nmo : win_name_arg nmo = Ok n ->
    (forall q, In q (win_queries wm n) -> q <> []) /\ pfree (win_queries wm n).
  Proof.
    intros Hn. pose proof (deep_local _ (reachable_deep _ _ Hr Hwm)) as Hlw.
    destruct n as [x|]; simpl.
    - split; [|tauto]. intros q [<-|[]]. eapply win_name_arg_nonempty; eauto.
    - split; apply Hlw.
  Qed.

  Lemma window_available_spec nmo queries :
    (nmo = None /\ queries = m_names wm \/
     exists r n, nmo = Some r /\ mk_name r = Ok n /\ queries = [n]) ->
    is_available (m_names m) queries =
      Ok (forallb (fun q => forallb (fun x => negb (name_conflictb q x)) (m_names m)) queries).
  Proof.
    intros H. pose proof (deep_local _ (reachable_deep _ _ Hr Hm)) as Hl.
    assert (Hq : exists n, win_name_arg nmo = Ok n /\ queries = win_queries wm n).
    { destruct H as [(-> & ->)|(r & n & -> & Hn & ->)].
      - exists None. auto.
      - exists (Some n). simpl. rewrite Hn. auto. }
    destruct Hq as (n & Hn & ->). destruct (window_queries_ok n nmo Hn) as (Hne & Hp).
    apply is_available_pfree; auto. apply Hl.
  Qed.

  (* every check of add_window before the namespace check raises ValueError as well, so a conflicting
     window is refused with ValueError whatever the other arguments are *)
  Lemma window_conflict_refused wid nmo n addr sparse :
    win_name_arg nmo = Ok n ->
    (exists q x, In q (win_queries wm n) /\ In x (m_names m) /\ name_conflict q x) ->
    add_window m wid wm nmo addr sparse = Err ValueError.
  Proof.
    intros Hn Hc. pose proof (deep_local _ (reachable_deep _ _ Hr Hm)) as Hl.
    destruct (window_queries_ok n nmo Hn) as (Hne & Hp).
    unfold add_window. fold (win_name_arg nmo). rewrite Hn.
    destruct (negb (m_frozen m)); [|reflexivity]. cbn [check bind].
    destruct (negb (has_win m wid)); [|reflexivity]. cbn [check bind].
    destruct (negb (m_dw wm >? m_dw m)); [|reflexivity]. cbn [check bind].
    match goal with |- bind ?blk _ = _ => assert (Hb : blk = Ok tt \/ blk = Err ValueError) end.
    { destruct (negb (m_dw wm =? m_dw m)); [|auto].
      destruct sparse as [[|]|]; simpl; auto.
      destruct (negb (negb (m_dw m mod m_dw wm =? 0))); simpl; auto. }
    destruct Hb as [-> | ->]; [|reflexivity]. cbn [bind].
    fold (win_queries wm n).
    rewrite (is_available_pfree _ _ (lo_nonempty _ Hl) Hne Hp).
    rewrite (avail_spec_false _ _ Hc). reflexivity.
  Qed.

  (* conversely the namespace check passes when nothing conflicts *)
  Lemma window_free_available nmo n :
    win_name_arg nmo = Ok n ->
    (forall q x, In q (win_queries wm n) -> In x (m_names m) -> ~ name_conflict q x) ->
    is_available (m_names m) (win_queries wm n) = Ok true.
  Proof.
    intros Hn Hc. pose proof (deep_local _ (reachable_deep _ _ Hr Hm)) as Hl.
    destruct (window_queries_ok n nmo Hn) as (Hne & Hp).
    rewrite (is_available_pfree _ _ (lo_nonempty _ Hl) Hne Hp). f_equal.
    apply avail_spec_true. exact Hc.
  Qed.

  (* the remaining checks of add_window, named *)
  Definition win_sp (sparse : option bool) : bool :=
    match sparse with Some true => true | _ => false end.
  Definition win_width_check (sparse : option bool) : res unit :=
    if negb (m_dw wm =? m_dw m) then
      let! _ := check (match sparse with None => false | _ => true end) ValueError in
      check (negb (negb (win_sp sparse) && negb (m_dw m mod m_dw wm =? 0))) ValueError
    else Ok tt.
  Definition win_ratio (sparse : option bool) : Z :=
    if negb (win_sp sparse) then m_dw m / m_dw wm else 1.
  Definition win_size (sparse : option bool) : Z := Z.shiftl 1 (m_aw wm) / win_ratio sparse.
  Definition win_align (sparse : option bool) : Z := Z.max (m_al m) (m_aw wm / win_ratio sparse).

  Lemma add_window_eq wid nmo addr sparse :
    add_window m wid wm nmo addr sparse =
      let! _ := check (negb (m_frozen m)) ValueError in
      let! _ := check (negb (has_win m wid)) ValueError in
      let! _ := check (negb (m_dw wm >? m_dw m)) ValueError in
      let! _ := win_width_check sparse in
      let! n := win_name_arg nmo in
      let! av := is_available (m_names m) (win_queries wm n) in
      let! _ := check av ValueError in
      let! _ := check (Z.land (win_ratio sparse) (win_ratio sparse - 1) =? 0) ValueError in
      let! _ := check (negb (win_ratio sparse >? Z.shiftl 1 (m_al wm))) ValueError in
      let! '(s, e) := compute_addr_range m addr (VInt (win_size sparse)) (win_align sparse) in
      let! rs := rm_insert (m_ranges m) {| e_start := s; e_stop := e; e_step := win_ratio sparse;
                                           e_asg := AW wid |} in
      match m with
      | MM a d l _ ress wins names _ f =>
          Ok (MM a d l rs ress
                 (wins ++ [({| w_id := wid; w_name := n; w_start := s; w_stop := e;
                               w_step := win_ratio sparse |}, set_frozen wm)])
                 (names ++ win_queries wm n) e f, (s, e, win_ratio sparse))
      end.
  Proof. reflexivity. Qed.

  (* a legal window name is never refused: once every other check passes, the call succeeds (neither
     the assert of is_available nor those of _RangeMap.insert can fire) *)
  Lemma window_legal_accepted wid nmo n addr sparse s e :
    m_frozen m = false -> has_win m wid = false -> (m_dw wm >? m_dw m) = false ->
    win_width_check sparse = Ok tt -> win_name_arg nmo = Ok n ->
    (forall q x, In q (win_queries wm n) -> In x (m_names m) -> ~ name_conflict q x) ->
    Z.land (win_ratio sparse) (win_ratio sparse - 1) = 0 ->
    (win_ratio sparse >? Z.shiftl 1 (m_al wm)) = false ->
    compute_addr_range m addr (VInt (win_size sparse)) (win_align sparse) = Ok (s, e) ->
    exists m', add_window m wid wm nmo addr sparse = Ok (m', (s, e, win_ratio sparse)).
  Proof.
    intros Hf Hid Hdw Hwc Hn Hc Hpow Hra Hcar.
    pose proof (deep_local _ (reachable_deep _ _ Hr Hm)) as Hl.
    assert (HA0 : 0 <= win_align sparse) by (pose proof (lo_al _ Hl); unfold win_align; lia).
    destruct (car_inv _ _ _ _ _ _ HA0 Hcar) as (Hse & Hov).
    destruct (lo_chain _ Hl) as (lo & Hch).
    destruct (rm_insert_total lo (m_ranges m)
                {| e_start := s; e_stop := e; e_step := win_ratio sparse; e_asg := AW wid |}
                Hch Hse Hov) as (rs & Hins).
    rewrite add_window_eq, Hf, Hid, Hdw, Hwc, Hn. cbn [negb check bind].
    rewrite (window_free_available nmo n Hn Hc). cbn [check bind].
    rewrite Hpow, Hra. cbn [Z.eqb negb check bind].
    rewrite Hcar. cbn [bind]. rewrite Hins. cbn [bind].
    destruct m. eexists. reflexivity.
  Qed.
End Window.

(* ------------------------------------------------------------------ refused calls change nothing *)

Lemma refusal_changes_nothing w o : result_failed (snd (wstep w o)) = true -> fst (wstep w o) = w.
Proof.
  destruct o as [aw dw al|mi id comp nm size addr al|mi wo nm addr sparse|mi a|mi]; simpl.
  - destruct (new_map aw dw al); simpl; [discriminate|reflexivity].
  - destruct (nth_error w mi); [|reflexivity].
    destruct (add_resource _ _ _ _ _ _ _) as [[m' r]|e]; simpl; [discriminate|reflexivity].
  - destruct (nth_error w mi); [|reflexivity].
    destruct wo as [wi|]; [|reflexivity].
    destruct (Nat.eqb wi mi); [reflexivity|].
    destruct (nth_error w wi); [|reflexivity].
    destruct (add_window _ _ _ _ _ _) as [[m' r]|e]; simpl; [discriminate|reflexivity].
  - destruct (nth_error w mi); [|reflexivity].
    destruct (align_to _ a) as [[m' n]|e]; simpl; [discriminate|reflexivity].
  - destruct (nth_error w mi); simpl; [discriminate|reflexivity].
Qed.
