(* Auxiliary lemmas for Gen/TieNamespace.v (the namespace translator, harness/translate4.py).
   The loops of the regenerated code are `for_each` over abstract bodies here: each lemma assumes an
   equation for the body (which the tie file proves for the text actually generated, by case analysis)
   and concludes what the loop computes in terms of Model.MemoryMap's conflict_loop / check_reserved /
   is_available / mk_name.  Also: check_reserved does not depend on the order of the reserved names,
   well-formed names survive re-validation, and every name of every reachable world is well-formed. *)
From Coq Require Import ZArith List Bool Lia ZifyBool Arith.
From Soc Require Import Lib.Res Lib.PyList Lib.PyLoop Lib.PyNames Model.MemoryMap Model.MemSpec
                        Proofs.MemNames Proofs.Namespace Proofs.NamespaceInv.
Import ListNotations.
Open Scope Z_scope.

(* ------------------------------------------------------------------ res *)

Lemma bind_ret {A} (r : res A) : bind r (fun x => Ok x) = r.
Proof. destruct r; reflexivity. Qed.

Lemma mapR_ext {X Y} (f g : X -> res Y) : (forall x, f x = g x) -> forall l, mapR f l = mapR g l.
Proof. intros H. induction l as [|x l IH]; cbn [mapR]; [reflexivity|]. rewrite H, IH. reflexivity. Qed.

Lemma mapR_ok_Forall {X Y} (f : X -> res Y) (P : Y -> Prop) :
  (forall x y, f x = Ok y -> P y) -> forall l r, mapR f l = Ok r -> Forall P r.
Proof.
  intros H. induction l as [|x l IH]; cbn [mapR]; intros r Hr.
  - injection Hr as <-. constructor.
  - destruct (f x) as [y|] eqn:E; [|discriminate]. destruct (mapR f l) as [r'|]; [|discriminate].
    injection Hr as <-. constructor; eauto.
Qed.

Definition res_map {A B} (f : A -> B) (r : res A) : res B :=
  match r with Ok a => Ok (f a) | Err e => Err e end.

(* ------------------------------------------------------------------ MemoryMap.Name *)

Lemma valid_cast p q : valid_part p = Ok q -> cast_part p = Ok q.
Proof.
  destruct p as [a|n|]; cbn [valid_part cast_part]; intros H.
  - destruct (a =? 0); [discriminate|exact H].
  - destruct (n >=? 0); [exact H|discriminate].
  - discriminate.
Qed.

Lemma mapR_valid_cast l r : mapR valid_part l = Ok r -> mapR cast_part l = Ok r.
Proof.
  revert r. induction l as [|x l IH]; cbn [mapR]; intros r H; [exact H|].
  destruct (valid_part x) as [y|] eqn:E; [|discriminate]. rewrite (valid_cast _ _ E).
  destruct (mapR valid_part l) as [r'|]; [|discriminate]. rewrite (IH r' eq_refl). exact H.
Qed.

(* the validation loop of Name.__new__ followed by the cast of the whole tuple *)
Lemma validate_loop (body : rawpart -> unit -> res (ctl unit name)) (k : unit -> res name) l :
  (forall p u, body p u = match valid_part p with Ok _ => Ok (Next tt) | Err e => Err e end) ->
  (forall u, k u = mapR cast_part l) ->
  after_loop (for_each body l tt) k = mapR valid_part l.
Proof.
  intros Hb Hk.
  assert (H : for_each body l tt = match mapR valid_part l with Ok _ => Ok (Fell tt) | Err e => Err e end).
  { clear Hk. induction l as [|x l IH]; cbn [for_each mapR]; [reflexivity|].
    rewrite Hb. destruct (valid_part x) as [y|e]; [|reflexivity]. rewrite IH.
    destruct (mapR valid_part l); reflexivity. }
  rewrite H. destruct (mapR valid_part l) as [r|e] eqn:E; cbn [after_loop]; [|reflexivity].
  rewrite Hk. apply mapR_valid_cast. exact E.
Qed.

Lemma py_len_pos {X} (x : X) l : 0 < py_len (x :: l).
Proof. unfold py_len. cbn [length]. lia. Qed.

(* well-formed names: what Name() accepts, seen on the typed side *)
Definition valid_p (p : part) : bool := match p with PStr a => negb (a =? 0) | PInt n => n >=? 0 end.
Definition wf_name (n : name) : Prop := n <> [] /\ forallb valid_p n = true.

Lemma valid_part_wf p q : valid_part p = Ok q -> valid_p q = true /\ raw_of_part q = p.
Proof.
  destruct p as [a|n|]; cbn [valid_part]; intros H.
  - destruct (a =? 0) eqn:E; [discriminate|]. injection H as <-. cbn [valid_p raw_of_part]. rewrite E. auto.
  - destruct (n >=? 0) eqn:E; [|discriminate]. injection H as <-. cbn [valid_p raw_of_part]. auto.
  - discriminate.
Qed.

Lemma mapR_valid_part_wf l r : mapR valid_part l = Ok r -> forallb valid_p r = true /\ map raw_of_part r = l.
Proof.
  revert r. induction l as [|x l IH]; cbn [mapR]; intros r H.
  - injection H as <-. auto.
  - destruct (valid_part x) as [y|] eqn:E; [|discriminate]. destruct (mapR valid_part l) as [r'|]; [|discriminate].
    injection H as <-. destruct (valid_part_wf _ _ E) as (H1 & H2). destruct (IH r' eq_refl) as (H3 & H4).
    cbn [forallb map]. rewrite H1, H3, H2, H4. auto.
Qed.

Lemma mk_name_wf r n : mk_name r = Ok n -> wf_name n.
Proof.
  intros H. split; [eapply mk_name_nonempty; eauto|].
  destruct r as [a|l|]; cbn [mk_name] in H.
  - apply mapR_valid_part_wf in H. apply H.
  - destruct l; [discriminate|]. apply mapR_valid_part_wf in H. apply H.
  - discriminate.
Qed.

Lemma valid_part_raw_of p : valid_p p = true -> valid_part (raw_of_part p) = Ok p.
Proof.
  destruct p as [a|n]; cbn [valid_p raw_of_part valid_part]; intros H.
  - destruct (a =? 0); [discriminate|reflexivity].
  - rewrite H. reflexivity.
Qed.

Lemma mk_name_raw_of n : wf_name n -> mk_name (raw_of_name n) = Ok n.
Proof.
  intros (Hne & Hv). unfold raw_of_name.
  assert (H : mapR valid_part (map raw_of_part n) = Ok n).
  { clear Hne. induction n as [|p n IH]; cbn [map mapR]; [reflexivity|].
    cbn [forallb] in Hv. apply andb_true_iff in Hv as (H1 & H2).
    rewrite (valid_part_raw_of _ H1), (IH H2). reflexivity. }
  destruct n as [|p n]; [congruence|]. cbn [map mk_name]. exact H.
Qed.

Lemma mapR_mk_name_raw_of l : Forall wf_name l -> mapR mk_name (map raw_of_name l) = Ok l.
Proof.
  induction 1 as [|n l Hn Hl IH]; cbn [map mapR]; [reflexivity|].
  rewrite (mk_name_raw_of _ Hn), IH. reflexivity.
Qed.

(* ------------------------------------------------------------------ name equality *)

Lemma name_eqb_eq a : forall b, name_eqb a b = true -> a = b.
Proof.
  unfold name_eqb. induction a as [|x a IH]; intros [|y b]; cbn [length Nat.eqb combine forallb andb]; intros H;
    try reflexivity; try discriminate.
  apply andb_true_iff in H as (Hl & H). apply andb_true_iff in H as (Hxy & H).
  apply part_eqb_iff in Hxy. subst y. f_equal. apply IH. rewrite Hl. exact H.
Qed.

Lemma name_in_iff n l : name_in n l = true <-> In n l.
Proof.
  unfold name_in. rewrite existsb_exists. split.
  - intros (x & Hx & He). apply name_eqb_eq in He. subst x. exact Hx.
  - intros H. exists n. split; [exact H|apply name_eqb_refl].
Qed.

(* ------------------------------------------------------------------ the three loops of is_available *)

Section Avail.
Context {R : Type}.
Variable assigned : list name.

(* what one execution of the innermost body does, as a function of the part index and the part *)
Definition inner_spec (nm rs : name) (c : bool) (idx : Z) (p : part) : res (ctl bool R) :=
  match py_index rs idx with
  | Err e => Err e
  | Ok r => if negb (part_eqb p r) then Ok (Brk c)
            else if idx =? Z.min (py_len nm) (py_len rs) - 1
                 then (if name_in rs assigned then Ok (Brk true) else Err AssertionError)
                 else Ok (Next c)
  end.

Definition inner_result (nm rs : name) (c : bool) : res (fin bool R) :=
  match conflicts nm rs with
  | Err e => Err e
  | Ok false => Ok (Fell c)
  | Ok true => if name_in rs assigned then Ok (Fell true) else Err AssertionError
  end.

Lemma inner_loop (body : Z * part -> bool -> res (ctl bool R)) nm rs :
  (forall idx p c, body (idx, p) c = inner_spec nm rs c idx p) ->
  forall c, for_each body (py_enumerate nm) c = inner_result nm rs c.
Proof.
  intros Hb c. unfold inner_result, conflicts, py_enumerate.
  set (ml := Z.min (Z.of_nat (length nm)) (Z.of_nat (length rs))).
  assert (G : forall sfx pre rs', rs = pre ++ rs' ->
    for_each body (enumerate_from (py_len pre) sfx) c =
    match conflict_loop (py_len pre) ml sfx rs' with
    | Err e => Err e
    | Ok false => Ok (Fell c)
    | Ok true => if name_in rs assigned then Ok (Fell true) else Err AssertionError
    end).
  { induction sfx as [|p sfx IH]; intros pre rs' Hrs; cbn [enumerate_from for_each conflict_loop]; [reflexivity|].
    rewrite Hb. unfold inner_spec. rewrite Hrs at 1. rewrite py_index_app.
    destruct rs' as [|r rs'']; [reflexivity|].
    destruct (negb (part_eqb p r)); [reflexivity|].
    fold ml. unfold py_len at 2 3. fold ml.
    destruct (py_len pre =? ml - 1).
    - destruct (name_in rs assigned); reflexivity.
    - rewrite <- py_len_app1 with (x := r). apply IH. rewrite <- app_assoc. exact Hrs. }
  exact (G nm [] rs eq_refl).
Qed.

Lemma middle_loop (body : name -> bool -> res (ctl bool R)) nm :
  (forall rs c, body rs c = match conflicts nm rs with
                            | Err e => Err e
                            | Ok false => Ok (Next c)
                            | Ok true => if name_in rs assigned then Ok (Next true) else Err AssertionError
                            end) ->
  forall l c, for_each body l c =
    match check_reserved assigned nm l with Ok b => Ok (Fell (c || b)) | Err e => Err e end.
Proof.
  intros Hb. induction l as [|r l IH]; intros c; cbn [for_each check_reserved].
  - rewrite orb_false_r. reflexivity.
  - rewrite Hb. destruct (conflicts nm r) as [[|]|e]; cbn [bind]; [| |reflexivity].
    + destruct (name_in r assigned); [|reflexivity]. rewrite IH.
      destruct (check_reserved assigned nm l); cbn [bind orb]; [rewrite orb_true_r|]; reflexivity.
    + apply IH.
Qed.

End Avail.

(* check_reserved over non-empty names: an AssertionError iff some conflicting reserved name is not assigned,
   otherwise whether some reserved name conflicts; hence independent of order and multiplicity *)
Lemma check_reserved_char assigned nm : nm <> [] -> forall l, (forall r, In r l -> r <> []) ->
  check_reserved assigned nm l =
    if existsb (fun r => name_conflictb nm r && negb (name_in r assigned)) l then Err AssertionError
    else Ok (existsb (name_conflictb nm) l).
Proof.
  intros Hn. induction l as [|r l IH]; intros Hne; cbn [check_reserved existsb]; [reflexivity|].
  rewrite conflicts_spec by (auto; apply Hne; left; reflexivity). cbn [bind].
  rewrite IH by (intros; apply Hne; right; assumption).
  destruct (name_conflictb nm r); cbn [andb orb].
  - destruct (name_in r assigned); cbn [negb orb]; [|reflexivity].
    destruct (existsb (fun r0 : name => name_conflictb nm r0 && negb (name_in r0 assigned)) l); reflexivity.
  - reflexivity.
Qed.

Lemma existsb_same {X} (f : X -> bool) l l' : (forall x, In x l' <-> In x l) -> existsb f l' = existsb f l.
Proof.
  intros H. destruct (existsb f l) eqn:E.
  - apply existsb_exists in E as (x & Hx & Hf). apply existsb_exists. exists x. split; [apply H; exact Hx|exact Hf].
  - destruct (existsb f l') eqn:E'; [|reflexivity].
    apply existsb_exists in E' as (x & Hx & Hf). exfalso.
    assert (existsb f l = true) by (apply existsb_exists; exists x; split; [apply H; exact Hx|exact Hf]). congruence.
Qed.

Lemma check_reserved_order assigned nm l l' : nm <> [] -> (forall r, In r l -> r <> []) ->
  (forall x, In x l' <-> In x l) -> check_reserved assigned nm l' = check_reserved assigned nm l.
Proof.
  intros Hn Hne Hsame. rewrite !check_reserved_char; auto.
  - rewrite (existsb_same _ l l' Hsame), (existsb_same (name_conflictb nm) l l' Hsame). reflexivity.
  - intros r Hr. apply Hne. apply Hsame. exact Hr.
Qed.

Lemma py_slice_from_next {X} (pre : list X) x rest : py_slice_from (pre ++ x :: rest) (py_len pre + 1) = rest.
Proof.
  rewrite <- py_len_app1 with (x := x).
  replace (pre ++ x :: rest) with ((pre ++ [x]) ++ rest) by (rewrite <- app_assoc; reflexivity).
  apply py_slice_from_app.
Qed.

(* is_available as the code runs it: each queried name against `order` of the reserved names *)
Fixpoint is_available_ord (order : list name -> list name) (assigned queries : list name) : res bool :=
  match queries with
  | [] => Ok true
  | nm :: rest =>
      let! c := check_reserved assigned nm (order (assigned ++ rest)) in
      let! r := is_available_ord order assigned rest in
      Ok (negb c && r)
  end.

Section Outer.
Context {R : Type}.
Variable order : list name -> list name.
Variable assigned : list name.

Lemma outer_loop (body : Z * name -> bool -> res (ctl bool R)) (names : list name) :
  (forall pre nm rest c, names = pre ++ nm :: rest ->
     body (py_len pre, nm) c =
     match check_reserved assigned nm (order (assigned ++ rest)) with
     | Ok b => Ok (Next (c || b)) | Err e => Err e end) ->
  forall c, for_each body (py_enumerate names) c =
    match is_available_ord order assigned names with Ok b => Ok (Fell (c || negb b)) | Err e => Err e end.
Proof.
  intros Hb. unfold py_enumerate.
  assert (G : forall sfx pre c, names = pre ++ sfx ->
    for_each body (enumerate_from (py_len pre) sfx) c =
    match is_available_ord order assigned sfx with Ok b => Ok (Fell (c || negb b)) | Err e => Err e end).
  { induction sfx as [|nm rest IH]; intros pre c Hn; cbn [enumerate_from for_each is_available_ord].
    - rewrite orb_false_r. reflexivity.
    - rewrite (Hb pre nm rest c Hn).
      destruct (check_reserved assigned nm (order (assigned ++ rest))) as [b|e]; cbn [bind]; [|reflexivity].
      rewrite <- py_len_app1 with (x := nm). rewrite IH by (rewrite <- app_assoc; exact Hn).
      destruct (is_available_ord order assigned rest) as [b'|e]; cbn [bind]; [|reflexivity].
      destruct c, b, b'; reflexivity. }
  intros c. exact (G names [] c eq_refl).
Qed.

End Outer.

(* with non-empty names everywhere the order does not matter at all *)
Lemma is_available_ord_eq order assigned : (forall l x, In x (order l) <-> In x l) ->
  (forall a, In a assigned -> a <> []) -> forall queries, (forall q, In q queries -> q <> []) ->
  is_available_ord order assigned queries = is_available assigned queries.
Proof.
  intros Hord Ha. induction queries as [|nm rest IH]; intros Hq; cbn [is_available_ord is_available]; [reflexivity|].
  match goal with |- context [check_reserved assigned nm (order ?l)] =>
    rewrite (check_reserved_order assigned nm l (order l)) end.
  - rewrite IH by (intros; apply Hq; right; assumption). reflexivity.
  - apply Hq. left. reflexivity.
  - intros r Hr. apply in_app_or in Hr as [Hr|Hr]; [auto|apply Hq; right; exact Hr].
  - apply Hord.
Qed.

(* without any assumption on the assigned names (an empty tuple among them makes `reserved_name[part_idx]` raise
   IndexError): same result, or an exception on both sides - which one depends on the order *)
Definition res_sim {A} (a b : res A) : Prop :=
  match a, b with Ok x, Ok y => x = y | Err _, Err _ => True | _, _ => False end.

Lemma res_sim_refl {A} (a : res A) : res_sim a a.
Proof. destruct a; cbn; auto. Qed.

Lemma res_sim_bind {A B} (a a' : res A) (f f' : A -> res B) :
  res_sim a a' -> (forall x, res_sim (f x) (f' x)) -> res_sim (bind a f) (bind a' f').
Proof. destruct a as [x|e], a' as [x'|e']; cbn; try tauto. intros -> H. apply H. Qed.

Definition cr_bad (assigned : list name) (nm r : name) : bool :=
  match r with [] => true | _ => name_conflictb nm r && negb (name_in r assigned) end.

Lemma check_reserved_char2 assigned nm : nm <> [] -> forall l,
  if existsb (cr_bad assigned nm) l then exists e, check_reserved assigned nm l = Err e
  else check_reserved assigned nm l = Ok (existsb (name_conflictb nm) l).
Proof.
  intros Hn. induction l as [|r l IH]; cbn [check_reserved existsb]; [reflexivity|].
  destruct r as [|p r].
  - cbn [cr_bad orb]. destruct nm as [|q nm]; [congruence|]. unfold conflicts. cbn [conflict_loop bind]. eauto.
  - rewrite conflicts_spec by (auto; discriminate). cbn [bind]. cbn [cr_bad].
    destruct (name_conflictb nm (p :: r)); cbn [andb orb].
    + destruct (name_in (p :: r) assigned); cbn [negb orb]; [|eauto].
      destruct (existsb (cr_bad assigned nm) l).
      * destruct IH as (e & ->). cbn [bind]. eauto.
      * rewrite IH. reflexivity.
    + exact IH.
Qed.

Lemma check_reserved_sim assigned nm l l' : nm <> [] -> (forall x, In x l' <-> In x l) ->
  res_sim (check_reserved assigned nm l') (check_reserved assigned nm l).
Proof.
  intros Hn Hsame. pose proof (check_reserved_char2 assigned nm Hn l) as H. pose proof (check_reserved_char2 assigned nm Hn l') as H'.
  rewrite (existsb_same _ l l' Hsame) in H'.
  destruct (existsb (cr_bad assigned nm) l).
  - destruct H as (e & ->), H' as (e' & ->). exact I.
  - rewrite H, H'. cbn. apply existsb_same. exact Hsame.
Qed.

Lemma is_available_ord_sim order assigned : (forall l x, In x (order l) <-> In x l) ->
  forall queries, (forall q, In q queries -> q <> []) ->
  res_sim (is_available_ord order assigned queries) (is_available assigned queries).
Proof.
  intros Hord. induction queries as [|nm rest IH]; intros Hq; cbn [is_available_ord is_available]; [reflexivity|].
  apply res_sim_bind.
  - apply check_reserved_sim; [apply Hq; left; reflexivity|apply Hord].
  - intros c. apply res_sim_bind; [apply IH; intros; apply Hq; right; assumption|]. intros r. reflexivity.
Qed.

(* ------------------------------------------------------------------ assign / extend: the dict grows by exactly the new keys *)

Lemma available_not_in assigned q qs : q <> [] -> is_available assigned (q :: qs) = Ok true ->
  name_in q assigned = false /\ ~ In q qs /\ is_available assigned qs = Ok true.
Proof.
  intros Hq H. cbn [is_available] in H.
  apply bind_ok in H as (c & Hc & H). apply bind_ok in H as (r & Hr & H). injection H as H.
  destruct c; [discriminate|]. destruct r; [|discriminate].
  pose proof (check_reserved_false _ _ _ Hc) as Hfree.
  assert (Hself : conflicts q q = Ok true).
  { rewrite conflicts_spec by assumption. f_equal. apply name_conflictb_iff. apply name_conflict_refl. }
  split; [|split; [|exact Hr]].
  - destruct (name_in q assigned) eqn:E; [|reflexivity]. apply name_in_iff in E.
    rewrite (Hfree q) in Hself by (apply in_or_app; left; exact E). discriminate.
  - intros Hin. rewrite (Hfree q) in Hself by (apply in_or_app; right; exact Hin). discriminate.
Qed.

Lemma ns_set_new assigned q : name_in q assigned = false -> ns_set assigned q = assigned ++ [q].
Proof. intros H. unfold ns_set, dict_set, dict_has. fold (name_in q assigned). rewrite H. reflexivity. Qed.

Lemma available_fresh assigned : forall qs, (forall q, In q qs -> q <> []) ->
  is_available assigned qs = Ok true -> (forall x, In x qs -> name_in x assigned = false) /\ NoDup qs.
Proof.
  induction qs as [|q qs IH]; intros Hne H.
  - split; [intros x []|constructor].
  - destruct (available_not_in assigned q qs (Hne q (or_introl eq_refl)) H) as (H1 & H2 & H3).
    destruct (IH (fun z Hz => Hne z (or_intror Hz)) H3) as (H4 & H5).
    split; [|constructor; assumption].
    intros x [<-|Hx]; auto.
Qed.

Lemma fold_ns_set_new : forall l a, (forall x, In x l -> name_in x a = false) -> NoDup l ->
  fold_left (dict_set name_eqb) l a = a ++ l.
Proof.
  induction l as [|x l IHl]; intros a Hn Hd; cbn [fold_left]; [rewrite app_nil_r; reflexivity|].
  fold (ns_set a x). rewrite ns_set_new by (apply Hn; left; reflexivity).
  inversion Hd as [|? ? Hx Hd']; subst. rewrite IHl; [rewrite <- app_assoc; reflexivity| |exact Hd'].
  intros y Hy. destruct (name_in y (a ++ [x])) eqn:E; [|reflexivity].
  apply name_in_iff in E. apply in_app_or in E as [E|[E|[]]].
  - apply name_in_iff in E. rewrite Hn in E by (right; exact Hy). discriminate.
  - subst y. contradiction.
Qed.

Lemma ns_update_new other assigned : (forall q, In q other -> q <> []) ->
  is_available assigned other = Ok true -> ns_update assigned other = assigned ++ other.
Proof.
  intros Hne H. destruct (available_fresh assigned other Hne H) as (H1 & H2).
  unfold ns_update, dict_update. apply fold_ns_set_new; assumption.
Qed.

(* ------------------------------------------------------------------ every name of every reachable world is well-formed *)

Definition world_wf (w : world) : Prop := forall m, In m w -> Forall wf_name (m_names m).

Lemma wstep_wf w o : world_wf w -> world_wf (fst (wstep w o)).
Proof.
  unfold world_wf. intros Hw.
  destruct o as [aw dw al|mi id comp nm size addr al|mi wo nm addr sparse|mi a|mi]; cbn [wstep].
  - destruct (new_map aw dw al) as [m|e] eqn:E; cbn [fst]; auto.
    intros x Hx. apply in_app_or in Hx as [Hx|[<-|[]]]; auto.
    unfold new_map in E. repeat (apply bind_ok in E as (? & _ & E)). injection E as <-. constructor.
  - destruct (nth_error w mi) as [m|] eqn:Em; cbn [fst]; auto.
    destruct (add_resource _ _ _ _ _ _ _) as [[m' r]|e] eqn:E; cbn [fst]; auto.
    intros x Hx. apply in_set_nth in Hx as [->|Hx]; auto.
    apply add_resource_inv in E as (n & al' & s & e0 & rs & _ & _ & _ & Hn & _ & _ & _ & _ & -> & _).
    cbn [m_names]. apply Forall_app. split; [apply Hw; eapply nth_error_In; eauto|].
    constructor; [eapply mk_name_wf; eauto|constructor].
  - destruct (nth_error w mi) as [m|] eqn:Em; cbn [fst]; auto.
    destruct wo as [wi|]; cbn [fst]; auto.
    destruct (Nat.eqb wi mi); cbn [fst]; auto.
    destruct (nth_error w wi) as [wm|] eqn:Ewm; cbn [fst]; auto.
    destruct (add_window _ _ _ _ _ _) as [[m' r]|e] eqn:E; cbn [fst]; auto.
    intros x Hx. apply in_set_nth in Hx as [->|Hx].
    { destruct wm; cbn [set_frozen m_names]. apply (Hw _ (nth_error_In _ _ Ewm)). }
    apply in_set_nth in Hx as [->|Hx]; auto.
    apply add_window_inv in E as (n & al' & sz & s & e0 & ratio & rs & _ & _ & Hn & _ & _ & _ & _ & -> & _).
    cbn [m_names]. apply Forall_app. split; [apply Hw; eapply nth_error_In; eauto|].
    destruct n as [x|]; cbn [win_queries].
    + constructor; [|constructor]. destruct nm as [raw|]; cbn [win_name_arg] in Hn; [|discriminate].
      apply bind_ok in Hn as (y & Hy & Hn). injection Hn as <-. eapply mk_name_wf; eauto.
    + apply Hw. eapply nth_error_In; eauto.
  - destruct (nth_error w mi) as [m|] eqn:Em; cbn [fst]; auto.
    destruct (align_to m a) as [[m' n]|e] eqn:E; cbn [fst]; auto.
    intros x Hx. apply in_set_nth in Hx as [->|Hx]; auto.
    unfold align_to in E. apply bind_ok in E as (u & _ & E). injection E as <- _.
    destruct m; cbn [set_next m_names]. apply (Hw _ (nth_error_In _ _ Em)).
  - destruct (nth_error w mi) as [m|] eqn:Em; cbn [fst]; auto.
    intros x Hx. apply in_set_nth in Hx as [->|Hx]; auto.
    destruct m; cbn [set_frozen m_names]. apply (Hw _ (nth_error_In _ _ Em)).
Qed.

Lemma reachable_wf w m : reachable w -> In m w -> Forall wf_name (m_names m).
Proof.
  intros (ops & ->). unfold world_after.
  assert (H : forall w0, world_wf w0 -> world_wf (fold_left (fun w o => fst (wstep w o)) ops w0)).
  { induction ops as [|o ops IH]; cbn [fold_left]; intros w0 H0; [exact H0|]. apply IH. apply wstep_wf. exact H0. }
  apply H. intros x [].
Qed.
