(* Auxiliary definitions and lemmas for Gen/TieBuilderRest.v (the tie of harness/translate12.py's output to
   Model/Builder.v).  Nothing here mentions generated text: these are facts about the primitives of
   Lib/PyBuilder.v on values that represent model values, plus the loop of as_memory_map for an arbitrary
   loop body that performs the model's add_resource call. *)
From Coq Require Import ZArith List Bool Lia ZifyBool.
From Soc Require Import Lib.Bits Lib.Res Lib.PyLoop Lib.PyBuilder Model.MemoryMap Model.Builder Model.BuilderSpec.
Import ListNotations.
Open Scope Z_scope.

(* ------------------------------------------------------------------ model values as Python values *)

Definition pyoff (o : option Z) : pyint := match o with Some z => VInt z | None => VNone end.

(* one item of self._registers: key id(reg), value (reg, name tuple, offset) *)
Definition emb_reg (r : breg) : Z * (pyobj * list rawpart * pyint) :=
  (b_id r, (OReg (b_id r) (b_width r), map raw_of_part (b_name r), pyoff (b_off r))).

(* arguments as the model classifies them *)
Definition rawstr_of (s : pystr) : rawstr := match s with YStr a => SStr a | _ => SOther end.
Definition regarg_of (o : pyobj) : regarg := match o with OReg i w => RReg i w | OOther _ => RNotReg end.

(* MemoryMap.add_resource as Builder.as_memory_map calls it; a Register is a wiring.Component, what an
   unknown object is cannot be told *)
Definition model_add_resource (m : mmap) (o : pyobj) (nm : rawname) (addr size alignment : pyint)
  : res (mmap * (Z * Z)) :=
  match o with
  | OReg i _ => add_resource m i true nm size addr alignment
  | OOther _ => Err OtherError
  end.

(* ------------------------------------------------------------------ primitives on represented values *)

Lemma od_has_emb (l : list breg) (id : Z) :
  od_has (map emb_reg l) id = existsb (fun x => b_id x =? id) l.
Proof.
  unfold od_has. induction l as [|r l IH]; [reflexivity|].
  cbn [map existsb emb_reg fst]. rewrite IH. reflexivity.
Qed.

Lemma od_set_emb (l : list breg) (r : breg) :
  existsb (fun x => b_id x =? b_id r) l = false ->
  od_set (map emb_reg l) (b_id r) (snd (emb_reg r)) = map emb_reg (l ++ [r]).
Proof.
  intros H. rewrite od_set_fresh by (rewrite od_has_emb; exact H).
  rewrite map_app. reflexivity.
Qed.

Lemma last_map {X Y} (f : X -> Y) (l : list X) d : last (map f l) (f d) = f (last l d).
Proof. induction l as [|x l IH]; [reflexivity|]. destruct l; [reflexivity|]. exact IH. Qed.

Lemma removelast_map {X Y} (f : X -> Y) (l : list X) : removelast (map f l) = map f (removelast l).
Proof. induction l as [|x l IH]; [reflexivity|]. destruct l; [reflexivity|]. cbn [map removelast] in *. rewrite IH. reflexivity. Qed.

Lemma last_default {X} (l : list X) x d d' : last (x :: l) d = last (x :: l) d'.
Proof. revert x. induction l as [|y l IH]; intros x; [reflexivity|]. exact (IH y). Qed.

(* self._scope_stack.pop() on a represented stack: the model's last / removelast *)
Lemma py_pop_emb (s : list part) (p : part) :
  py_pop (map raw_of_part s) =
  match s with
  | [] => Err OtherError
  | x :: l => Ok (raw_of_part (last (x :: l) p), map raw_of_part (removelast (x :: l)))
  end.
Proof.
  destruct s as [|x l]; [reflexivity|].
  unfold py_pop. cbn [map]. change (raw_of_part x :: map raw_of_part l) with (map raw_of_part (x :: l)).
  rewrite last_map, removelast_map. rewrite (last_default l x x p). reflexivity.
Qed.

(* == between a popped item and a validated name part *)
Lemma rawpart_eq_emb (x p : part) : rawpart_eq (raw_of_part x) (raw_of_part p) = Ok (part_eqb x p).
Proof. destruct x, p; reflexivity. Qed.

Lemma part_eqb_sym (x y : part) : part_eqb x y = part_eqb y x.
Proof. destruct x, y; cbn [part_eqb]; try reflexivity; apply Z.eqb_sym. Qed.

(* ------------------------------------------------------------------ the loop of as_memory_map *)

(* any loop body that, on the item representing r, performs the model's add_resource call and goes on *)
Definition body_ok (b : builder) (body : (pyobj * list rawpart * pyint) -> mmap -> res (ctl mmap Empty_set)) : Prop :=
  forall r m, body (snd (emb_reg r)) m =
    match add_resource m (b_id r) true (NTuple (map raw_of_part (b_name r)))
                       (VInt (reg_size b r)) (reg_addr b r) (VInt (ceil_log2 (reg_size b r))) with
    | Ok (m', _) => Ok (Next m')
    | Err e => Err e
    end.

Lemma for_each_add_regs b body : body_ok b body ->
  forall l m, for_each body (od_values (map emb_reg l)) m =
              match add_regs b m l with Ok m' => Ok (Fell m') | Err e => Err e end.
Proof.
  intros Hb. induction l as [|r l IH]; intros m; [reflexivity|].
  unfold od_values in *. cbn [map for_each add_regs]. rewrite Hb.
  destruct (add_resource m (b_id r) true (NTuple (map raw_of_part (b_name r)))
                         (VInt (reg_size b r)) (reg_addr b r) (VInt (ceil_log2 (reg_size b r)))) as [[m' se]|e];
    cbn [bind]; [apply IH|reflexivity].
Qed.

(* ------------------------------------------------------------------ maps without windows *)

Lemma windows_no_wins m : m_wins m = [] -> windows m = [].
Proof.
  destruct m as [aw dw al ranges ress wins names next frozen]. cbn [m_wins]. intros ->.
  unfold windows. cbn [m_ranges m_wins]. induction ranges as [|x l IH]; [reflexivity|].
  cbn [flat_map]. rewrite IH. destruct (e_asg x); reflexivity.
Qed.
