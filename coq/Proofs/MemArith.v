(* Arithmetic of MemoryMap._align_up and of power-of-two multiples.  `align_up` is characterised once
   (align_up_spec) and never unfolded again outside this file. *)
From Coq Require Import ZArith List Bool Lia ZifyBool.
From Soc Require Import Lib.Res Lib.PyList Model.MemoryMap Model.MemSpec.
Open Scope Z_scope.

Lemma pow2_pos a : 0 <= a -> 0 < 2 ^ a.
Proof. intros; apply Z.pow_pos_nonneg; lia. Qed.

Lemma shiftl1 a : Z.shiftl 1 a = 2 ^ a.
Proof. apply Z.shiftl_1_l. Qed.

(* align_up against an arbitrary positive modulus *)
Definition au (k v : Z) : Z := if negb (v mod k =? 0) then v + (k - v mod k) else v.

Lemma align_up_au v a : align_up v a = au (2 ^ a) v.
Proof. unfold align_up, au. rewrite shiftl1. reflexivity. Qed.

Lemma au_spec k v : 0 < k -> least_multiple_ge k v (au k v).
Proof.
  intros Hk. unfold au, least_multiple_ge.
  pose proof (Z.div_mod v k ltac:(lia)) as Hv.
  pose proof (Z.mod_pos_bound v k Hk) as Hm.
  destruct (v mod k =? 0) eqn:E; cbn [negb].
  - split; [lia|]. split; [lia|]. intros; lia.
  - assert (Hm0 : v mod k <> 0) by lia.
    split; [|split; [lia|]].
    + replace (v + (k - v mod k)) with ((v / k + 1) * k) by lia.
      apply Z.mod_mul; lia.
    + intros r' Hr' Hle.
      pose proof (Z.div_mod r' k ltac:(lia)) as Hr. rewrite Hr' in Hr.
      assert (Hq : v / k < r' / k).
      { apply Z.nle_gt; intro Hc. apply (Z.mul_le_mono_nonneg_l _ _ k) in Hc; lia. }
      assert (k * (v / k + 1) <= k * (r' / k)) by (apply Z.mul_le_mono_nonneg_l; lia).
      lia.
Qed.

(* T9 *)
Lemma align_up_spec : forall v a, 0 <= a -> least_multiple_ge (2 ^ a) v (align_up v a).
Proof. intros v a Ha. rewrite align_up_au. apply au_spec, pow2_pos, Ha. Qed.

Lemma align_up_mod v a : 0 <= a -> align_up v a mod 2 ^ a = 0.
Proof. intros Ha. apply (align_up_spec v a Ha). Qed.

Lemma align_up_ge v a : 0 <= a -> v <= align_up v a.
Proof. intros Ha. apply (align_up_spec v a Ha). Qed.

(* an aligned value is left alone *)
Lemma align_up_id v a : 0 <= a -> v mod 2 ^ a = 0 -> align_up v a = v.
Proof.
  intros Ha Hv. destruct (align_up_spec v a Ha) as (_ & Hge & Hleast).
  specialize (Hleast v Hv ltac:(lia)). lia.
Qed.

(* a multiple of 2^a is a multiple of every smaller power of two *)
Lemma mod_pow2_le x a b : 0 <= b <= a -> x mod 2 ^ a = 0 -> x mod 2 ^ b = 0.
Proof.
  intros Hab Hx.
  replace a with (b + (a - b)) in Hx by lia.
  rewrite Z.pow_add_r in Hx by lia.
  pose proof (pow2_pos b ltac:(lia)) as HB. pose proof (pow2_pos (a - b) ltac:(lia)) as HC.
  revert Hx HB HC. generalize (2 ^ b) as B, (2 ^ (a - b)) as C. intros B C Hx HB HC.
  apply Z.mod_divide in Hx; [|lia]. destruct Hx as [q ->].
  replace (q * (B * C)) with (q * C * B) by ring. apply Z.mod_mul; lia.
Qed.

Lemma add_mod0 k x y : 0 < k -> x mod k = 0 -> y mod k = 0 -> (x + y) mod k = 0.
Proof.
  intros Hk Hx Hy. rewrite Z.add_mod by lia. rewrite Hx, Hy. apply Z.mod_0_l; lia.
Qed.
