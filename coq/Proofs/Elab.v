(* C19: proofs about Model/Elab.v — repeated elaboration of a multiplexer, termination of the shadow
   doubling (and divergence of the original loop), submodule naming, and definedness of the partial
   operations accepted constructor arguments lead to. *)
From Coq Require Import ZArith List Bool Lia ZifyBool FinFun.
From Soc Require Import Lib.Bits Lib.Res Lib.Pattern Model.Mux Model.MuxSpec Model.Elab
                        Proofs.ShadowHash Proofs.MuxPrepare.
From Soc Require Model.WbDecoder Model.Arbiter.
Import ListNotations.
Open Scope Z_scope.

(* ------------------------------------------------------------------------------------------ *)
(* the range set                                                                                *)
(* ------------------------------------------------------------------------------------------ *)

Lemma rng_eqb_refl r : rng_eqb r r = true.
Proof. unfold rng_eqb. lia. Qed.

Lemma set_mem_add_same r l : set_mem r (set_add r l) = true.
Proof.
  induction l as [|x l IH]; cbn [set_add].
  - cbn. rewrite rng_eqb_refl. reflexivity.
  - destruct (rng_eqb r x) eqn:E.
    + cbn. rewrite E. reflexivity.
    + destruct (rng_ltb r x); cbn; [rewrite rng_eqb_refl; reflexivity|].
      rewrite E. cbn. exact IH.
Qed.

Lemma set_mem_add_mono r x l : set_mem r l = true -> set_mem r (set_add x l) = true.
Proof.
  induction l as [|y l IH]; cbn [set_add]; intros H; [discriminate|].
  destruct (rng_eqb x y) eqn:E; [exact H|].
  destruct (rng_ltb x y).
  - cbn. cbn in H. rewrite H. apply orb_true_r.
  - cbn in *. destruct (rng_eqb r y); [reflexivity|]. cbn in *. apply IH. exact H.
Qed.

Lemma set_add_In r x l : In r (set_add x l) -> r = x \/ In r l.
Proof.
  induction l as [|y l IH]; cbn [set_add]; intros H.
  - destruct H as [<-|[]]. auto.
  - destruct (rng_eqb x y); [auto|].
    destruct (rng_ltb x y).
    + destruct H as [<-|H]; auto.
    + destruct H as [<-|H]; [right; left; reflexivity|].
      destruct (IH H) as [->|H']; auto. right. right. exact H'.
Qed.

(* ------------------------------------------------------------------------------------------ *)
(* the add() loop on fresh (mutable) and on prepared (frozen) shadows                           *)
(* ------------------------------------------------------------------------------------------ *)

Definition ranges_of (sel : reg -> bool) (regs : list reg) (l0 : list reg) : list reg :=
  fold_left (fun l r => if sel r then set_add r l else l) regs l0.
Definition size_of (sel : reg -> bool) (regs : list reg) (s0 : Z) : Z :=
  fold_left (fun s r => if sel r then Z.max s (reg_size r) else s) regs s0.

Definition mk (l : list reg) (s : Z) (ov : option Z) (c : option ctable) : shadow :=
  {| sh_ranges := Mutable l; sh_size := s; sh_ov := ov; sh_chunks := c |}.

(* both versions of add() behave alike on a set() *)
Definition adds_when_mutable (add : shadow -> reg -> res shadow) : Prop :=
  forall l s ov c r, add (mk l s ov c) r = Ok (mk (set_add r l) (Z.max s (reg_size r)) ov c).

Lemma add_now_mutable : adds_when_mutable add_now.
Proof. intros l s ov c r. reflexivity. Qed.
Lemma add_orig_mutable : adds_when_mutable add_orig.
Proof. intros l s ov c r. reflexivity. Qed.

Lemma add_all_mutable add : adds_when_mutable add ->
  forall regs rl rs ro rc wl wsz wo wc,
  add_all add (mk rl rs ro rc) (mk wl wsz wo wc) regs =
  Ok (mk (ranges_of r_rd regs rl) (size_of r_rd regs rs) ro rc,
      mk (ranges_of r_wr regs wl) (size_of r_wr regs wsz) wo wc).
Proof.
  intros Hadd. induction regs as [|r regs IH]; intros; cbn [add_all ranges_of size_of fold_left].
  - reflexivity.
  - destruct (r_rd r), (r_wr r); rewrite ?Hadd; apply IH.
Qed.

Lemma ranges_of_mono sel regs : forall l0 r, set_mem r l0 = true -> set_mem r (ranges_of sel regs l0) = true.
Proof.
  induction regs as [|x regs IH]; intros l0 r H; cbn [ranges_of fold_left]; [exact H|].
  apply IH. destruct (sel x); [apply set_mem_add_mono|]; exact H.
Qed.

Lemma ranges_of_mem sel regs : forall l0 r, In r regs -> sel r = true ->
  set_mem r (ranges_of sel regs l0) = true.
Proof.
  induction regs as [|x regs IH]; intros l0 r Hin Hs; [destruct Hin|].
  cbn [ranges_of fold_left]. destruct Hin as [->|Hin].
  - rewrite Hs. apply ranges_of_mono. apply set_mem_add_same.
  - apply IH; auto.
Qed.

Lemma add_all_now_frozen regs : forall rs ws lr lw,
  sh_ranges rs = Frozen lr -> sh_ranges ws = Frozen lw ->
  (forall r, In r regs -> r_rd r = true -> set_mem r lr = true) ->
  (forall r, In r regs -> r_wr r = true -> set_mem r lw = true) ->
  add_all add_now rs ws regs = Ok (rs, ws).
Proof.
  induction regs as [|r regs IH]; intros rs ws lr lw Hr Hw Mr Mw; cbn [add_all]; [reflexivity|].
  assert (E1 : (if r_rd r then add_now rs r else Ok rs) = Ok rs).
  { destruct (r_rd r) eqn:E; [|reflexivity]. unfold add_now. rewrite Hr.
    rewrite (Mr r (or_introl eq_refl) E). reflexivity. }
  assert (E2 : (if r_wr r then add_now ws r else Ok ws) = Ok ws).
  { destruct (r_wr r) eqn:E; [|reflexivity]. unfold add_now. rewrite Hw.
    rewrite (Mw r (or_introl eq_refl) E). reflexivity. }
  rewrite E1, E2. apply (IH rs ws lr lw); auto; intros; [apply Mr|apply Mw]; auto; right; auto.
Qed.

(* the original add(): the first register that is readable or writable hits the frozenset *)
Lemma add_all_orig_frozen regs : forall rs ws lr lw,
  sh_ranges rs = Frozen lr -> sh_ranges ws = Frozen lw ->
  (exists r, In r regs /\ (r_rd r || r_wr r) = true) ->
  add_all add_orig rs ws regs = Err OtherError.
Proof.
  induction regs as [|r regs IH]; intros rs ws lr lw Hr Hw (x & Hin & Hx); [destruct Hin|].
  cbn [add_all]. destruct (r_rd r) eqn:Erd.
  - unfold add_orig. rewrite Hr. reflexivity.
  - destruct (r_wr r) eqn:Ewr.
    + unfold add_orig at 1. rewrite Hw. reflexivity.
    + apply (IH rs ws lr lw); auto. destruct Hin as [->|Hin]; [|exists x; auto].
      rewrite Erd, Ewr in Hx. discriminate.
Qed.

(* ------------------------------------------------------------------------------------------ *)
(* the size kept by add() is admissible for the set                                             *)
(* ------------------------------------------------------------------------------------------ *)

Lemma size_ok_nil : size_ok 1 [].
Proof. exists 0. repeat split; [lia|]. intros r []. Qed.

Lemma size_ok_add S l r : size_ok S l -> size_ok (Z.max S (reg_size r)) (set_add r l).
Proof.
  intros (s & -> & Hs & Hall). pose proof (ceil_log2_nonneg (reg_len r)) as Hc.
  exists (Z.max s (ceil_log2 (reg_len r))). split; [|split; [lia|]].
  - unfold reg_size. apply pow2_max; lia.
  - intros x Hx. apply set_add_In in Hx. destruct Hx as [->|Hx]; [lia|]. specialize (Hall x Hx). lia.
Qed.

Lemma size_ok_ranges sel regs : forall l0 s0, size_ok s0 l0 ->
  size_ok (size_of sel regs s0) (ranges_of sel regs l0).
Proof.
  induction regs as [|r regs IH]; intros l0 s0 H; cbn [size_of ranges_of fold_left]; [exact H|].
  apply IH. destruct (sel r); [apply size_ok_add|]; exact H.
Qed.

(* ------------------------------------------------------------------------------------------ *)
(* (ii) prepare() as it is now returns within its fuel                                          *)
(* ------------------------------------------------------------------------------------------ *)

Lemma prepare_fuel_enough ov l S : size_ok S l ->
  exists S', prepare (prepare_fuel l) S ov l = Some S' /\ size_ok S' l.
Proof.
  intros (s & -> & Hs & Hall). rewrite prepare_fuel_succ.
  set (M := fold_left (fun s r => Z.max s (Z.log2_up (r_start r + 1))) l 0).
  assert (HM : 0 <= M) by apply (fold_max_ge (fun r => Z.log2_up (r_start r + 1))).
  apply prepare_total; auto.
  intros r Hr.
  pose proof (fold_max_In (fun r => Z.log2_up (r_start r + 1)) l 0 r Hr) as Hle.
  cbv beta in Hle. fold M in Hle.
  pose proof (log2_up_ge (r_start r + 1)) as Hl.
  pose proof (Z.log2_up_nonneg (r_start r + 1)) as Hn.
  assert (2 ^ Z.log2_up (r_start r + 1) <= 2 ^ (s + Z.of_nat (Z.to_nat (M + 1)))).
  { apply Z.pow_le_mono_r; lia. }
  lia.
Qed.

Lemma prepare_now_total l s ov c : size_ok s l ->
  exists S', prepare_now (mk l s ov c) = Ok (freeze (mk l s ov c) l S') /\ size_ok S' l.
Proof.
  intros H. unfold prepare_now. cbn [sh_ranges mk sh_size].
  destruct (prepare_fuel_enough (effective_ov (mk l s ov c) l) l s H) as (S' & E & Hok).
  rewrite E. exists S'. auto.
Qed.

(* ------------------------------------------------------------------------------------------ *)
(* (i) repeated elaboration                                                                     *)
(* ------------------------------------------------------------------------------------------ *)

(* the instance a first elaboration leaves behind, and what it emitted *)
Definition prepared (regs : list reg) (ov : option Z) (Sr Sw : Z) : inst :=
  {| i_r := freeze (mk (ranges_of r_rd regs []) (size_of r_rd regs 1) ov None) (ranges_of r_rd regs []) Sr;
     i_w := freeze (mk (ranges_of r_wr regs []) (size_of r_wr regs 1) ov None) (ranges_of r_wr regs []) Sw |}.
Definition tables (regs : list reg) (Sr Sw : Z) : emitted :=
  {| e_r := chunk_table Sr (ranges_of r_rd regs []); e_w := chunk_table Sw (ranges_of r_wr regs []) |}.

Lemma elaborate_first regs ov : exists Sr Sw,
  elaborate_now (new_inst ov) regs = Ok (prepared regs ov Sr Sw, tables regs Sr Sw) /\
  size_ok Sr (ranges_of r_rd regs []) /\ size_ok Sw (ranges_of r_wr regs []).
Proof.
  unfold elaborate_now, elaborate, new_inst, new_shadow. cbn [i_r i_w].
  change {| sh_ranges := Mutable []; sh_size := 1; sh_ov := ov; sh_chunks := None |} with (mk [] 1 ov None).
  rewrite (add_all_mutable add_now add_now_mutable).
  destruct (prepare_now_total (ranges_of r_rd regs []) (size_of r_rd regs 1) ov None
              (size_ok_ranges r_rd regs [] 1 size_ok_nil)) as (Sr & Er & Hr).
  destruct (prepare_now_total (ranges_of r_wr regs []) (size_of r_wr regs 1) ov None
              (size_ok_ranges r_wr regs [] 1 size_ok_nil)) as (Sw & Ew & Hw).
  rewrite Er, Ew. exists Sr, Sw. split; [reflexivity|]. auto.
Qed.

Lemma elaborate_again regs ov Sr Sw :
  elaborate_now (prepared regs ov Sr Sw) regs = Ok (prepared regs ov Sr Sw, tables regs Sr Sw).
Proof.
  unfold elaborate_now, elaborate.
  rewrite (add_all_now_frozen regs _ _ (ranges_of r_rd regs []) (ranges_of r_wr regs [])); try reflexivity.
  - intros r Hin H. apply ranges_of_mem; auto.
  - intros r Hin H. apply ranges_of_mem; auto.
Qed.

Lemma elab_n_fixpoint regs i e : elaborate_now i regs = Ok (i, e) ->
  forall k, elab_n_now k i regs = Ok (i, repeat e k).
Proof.
  intros H. induction k as [|k IH]; [reflexivity|].
  unfold elab_n_now in *. cbn [elab_n repeat]. fold elaborate_now. rewrite H, IH. reflexivity.
Qed.

(* Every number k >= 1 of elaborations of one multiplexer instance succeeds, leaves the instance in
   the state the first one left it in, and emits the same chunk tables every time — for every
   register list (any layout) and every sharing limit. *)
Theorem elaborate_idempotent regs ov k : exists i e,
  elaborate_now (new_inst ov) regs = Ok (i, e) /\
  elaborate_now i regs = Ok (i, e) /\
  elab_n_now (S k) (new_inst ov) regs = Ok (i, repeat e (S k)).
Proof.
  destruct (elaborate_first regs ov) as (Sr & Sw & E1 & _ & _).
  pose proof (elaborate_again regs ov Sr Sw) as E2.
  exists (prepared regs ov Sr Sw), (tables regs Sr Sw). split; [exact E1|]. split; [exact E2|].
  unfold elab_n_now. cbn [elab_n]. fold elaborate_now. rewrite E1.
  pose proof (elab_n_fixpoint regs _ _ E2 k) as Hk. unfold elab_n_now in Hk. rewrite Hk. reflexivity.
Qed.

(* what the emitted tables are: the hash tables of Model/Mux.v at admissible shadow sizes *)
Theorem elaborate_emits regs ov i e : elaborate_now (new_inst ov) regs = Ok (i, e) ->
  exists Sr Sw, size_ok Sr (ranges_of r_rd regs []) /\ size_ok Sw (ranges_of r_wr regs []) /\
    sh_size (i_r i) = Sr /\ sh_size (i_w i) = Sw /\
    map fst (e_r e) = table Sr (ranges_of r_rd regs []) /\
    map fst (e_w e) = table Sw (ranges_of r_wr regs []).
Proof.
  intros H. destruct (elaborate_first regs ov) as (Sr & Sw & E1 & Hr & Hw).
  rewrite E1 in H. injection H as <- <-. exists Sr, Sw. repeat split; auto.
  - cbn. unfold chunk_table. rewrite map_map. cbn. apply map_id.
  - cbn. unfold chunk_table. rewrite map_map. cbn. apply map_id.
Qed.

(* F1: with the original add(), a second elaboration of any multiplexer that has a register fails *)
Theorem elaborate_twice_orig_refuted fuel regs ov i e :
  elaborate_orig fuel (new_inst ov) regs = Ok (i, e) ->
  (exists r, In r regs /\ (r_rd r || r_wr r) = true) ->
  elaborate_orig fuel i regs = Err OtherError.
Proof.
  unfold elaborate_orig, elaborate, new_inst, new_shadow. cbn [i_r i_w].
  change {| sh_ranges := Mutable []; sh_size := 1; sh_ov := ov; sh_chunks := None |} with (mk [] 1 ov None).
  rewrite (add_all_mutable add_orig add_orig_mutable).
  unfold prepare_orig at 1 2. cbn [sh_ranges mk].
  destruct (prepare_loop_orig fuel _ _ (ranges_of r_rd regs [])) as [Sr|]; [|discriminate].
  destruct (prepare_loop_orig fuel _ _ (ranges_of r_wr regs [])) as [Sw|]; [|discriminate].
  cbn [freeze sh_chunks]. intros H Hex. injection H as <- _. cbn [i_r i_w].
  rewrite (add_all_orig_frozen regs _ _ (ranges_of r_rd regs []) (ranges_of r_wr regs [])); auto.
Qed.

(* ------------------------------------------------------------------------------------------ *)
(* (ii) the original doubling loop diverges on layouts that alias whatever the size             *)
(* ------------------------------------------------------------------------------------------ *)

Definition covered (s : Z) (l : list reg) : Prop :=
  forall r, In r l -> ceil_log2 (reg_len r) <= s /\ 0 <= r_start r < 2 ^ s.

(* once the size exceeds every start address, doubling no longer changes any offset *)
Lemma offsets_saturated s l : 0 <= s -> covered s l -> offsets (2 ^ (s + 1)) l = offsets (2 ^ s) l.
Proof.
  intros Hs Hc. unfold offsets. induction l as [|r l IH]; [reflexivity|].
  cbn [flat_map]. f_equal.
  - apply map_ext. intros a. destruct (Hc r (or_introl eq_refl)) as [H1 H2].
    pose proof (ceil_log2_nonneg (reg_len r)). apply decode_stable; lia.
  - apply IH. intros x Hx. apply Hc. right. exact Hx.
Qed.

Lemma unbalanced_saturated s ov l : 0 <= s -> covered s l ->
  unbalanced (2 ^ (s + 1)) ov l = unbalanced (2 ^ s) ov l.
Proof.
  intros Hs Hc. unfold unbalanced, occupancy. rewrite (offsets_saturated s l Hs Hc). reflexivity.
Qed.

Lemma covered_succ s l : 0 <= s -> covered s l -> covered (s + 1) l.
Proof.
  intros Hs Hc r Hr. destruct (Hc r Hr) as [H1 H2].
  assert (2 ^ s <= 2 ^ (s + 1)) by (apply Z.pow_le_mono_r; lia). lia.
Qed.

Theorem prepare_orig_diverges ov l : forall fuel s, 0 <= s -> covered s l ->
  unbalanced (2 ^ s) ov l = true -> prepare_loop_orig fuel (2 ^ s) ov l = None.
Proof.
  induction fuel as [|f IH]; intros s Hs Hc Hu; [reflexivity|].
  cbn [prepare_loop_orig]. rewrite Hu.
  replace (2 * 2 ^ s) with (2 ^ (s + 1)) by (rewrite Z.pow_add_r by lia; lia).
  apply IH; [lia | apply covered_succ; auto |].
  rewrite unbalanced_saturated; auto.
Qed.

(* F2's witness: registers [2,3) and [3,5), sharing limit 0 *)
Definition f2_regs : list reg :=
  [ {| r_start := 2; r_stop := 3; r_width := 8; r_rd := true; r_wr := true |};
    {| r_start := 3; r_stop := 5; r_width := 16; r_rd := true; r_wr := true |} ].

Lemma f2_covered : covered 2 f2_regs.
Proof.
  intros r [<-|[<-|[]]]; cbn [reg_len r_start r_stop]; unfold ceil_log2; cbn; split; try lia.
Qed.

Theorem prepare_orig_diverges_refuted : forall fuel,
  prepare_loop_orig fuel 2 0 f2_regs = None /\
  elaborate_orig fuel (new_inst (Some 0)) f2_regs = Err OtherError.
Proof.
  assert (H4 : forall f, prepare_loop_orig f 4 0 f2_regs = None).
  { intros f. apply (prepare_orig_diverges 0 f2_regs f 2); [lia | exact f2_covered | reflexivity]. }
  assert (H2 : forall fuel, prepare_loop_orig fuel 2 0 f2_regs = None).
  { intros [|f]; [reflexivity|]. cbn [prepare_loop_orig].
    replace (unbalanced 2 0 f2_regs) with true by reflexivity. exact (H4 f). }
  intros fuel. split; [apply H2|].
  unfold elaborate_orig, elaborate, new_inst, new_shadow. cbn [i_r i_w].
  change {| sh_ranges := Mutable []; sh_size := 1; sh_ov := Some 0; sh_chunks := None |} with (mk [] 1 (Some 0) None).
  rewrite (add_all_mutable add_orig add_orig_mutable).
  unfold prepare_orig at 1. cbn [sh_ranges mk sh_size effective_ov sh_ov].
  replace (ranges_of r_rd f2_regs []) with f2_regs by reflexivity.
  replace (size_of r_rd f2_regs 1) with 2 by reflexivity.
  rewrite H2. reflexivity.
Qed.

(* ------------------------------------------------------------------------------------------ *)
(* (iii) submodule names                                                                        *)
(* ------------------------------------------------------------------------------------------ *)

Lemma py_join_strs (f : part -> str) n : exists s, py_join (map (fun p => VStr (f p)) n) = Ok s.
Proof.
  induction n as [|p n IH]; [exists []; reflexivity|].
  destruct IH as (t & Ht). cbn [map]. destruct n as [|q n].
  - exists (f p). reflexivity.
  - cbn [map] in *. exists (f p ++ sep ++ t). cbn [py_join]. cbn [py_join] in Ht. rewrite Ht. reflexivity.
Qed.

Lemma str_part_is_str p : str_part p = VStr (match p with PStr s => s | PInt n => str_of_int n end).
Proof. destruct p; reflexivity. Qed.

(* F3: joining is defined for every name, integer parts included *)
Theorem submodule_name_total n : exists s, join_name n = Ok s.
Proof.
  unfold join_name.
  rewrite (map_ext str_part (fun p => VStr (match p with PStr s => s | PInt n => str_of_int n end)) str_part_is_str).
  apply py_join_strs.
Qed.

(* ... which the original join was not: any integer part is a TypeError *)
Theorem join_name_orig_refuted n k : In (PInt k) n -> join_name_orig n = Err TypeError.
Proof.
  unfold join_name_orig. induction n as [|p n IH]; intros H; [destruct H|].
  destruct H as [->|H].
  - reflexivity.
  - specialize (IH H). cbn [map]. destruct p as [s|m]; [|reflexivity].
    cbn [as_is]. destruct (map as_is n) as [|v l] eqn:E.
    + destruct n; [destruct H | discriminate E].
    + cbn [py_join]. cbn [py_join] in IH. rewrite IH. reflexivity.
Qed.

Theorem join_name_orig_agrees n : (forall p, In p n -> exists s, p = PStr s) -> join_name_orig n = join_name n.
Proof.
  intros H. unfold join_name_orig, join_name. f_equal. apply map_ext_in.
  intros p Hp. destruct (H p Hp) as (s & ->). reflexivity.
Qed.

Theorem assign_names_total b : forall names seen, exists r,
  assign_names b seen names = Ok r /\ length r = length names.
Proof.
  induction names as [|n names IH]; intros seen; [exists []; auto|].
  cbn [assign_names]. destruct (submodule_name_total n) as (s & ->).
  destruct (str_mem s seen || (b && match n with [] => true | _ => false end)).
  - destruct (IH seen) as (r & -> & Hl). exists (None :: r). cbn. auto.
  - destruct (IH (s :: seen)) as (r & -> & Hl). exists (Some s :: r). cbn. auto.
Qed.

(* E1 (F11-F13): the names handed to m.submodules[...] are never already taken *)
Theorem assign_names_accepted b : forall names seen r,
  assign_names b seen names = Ok r -> names_accepted seen r = true.
Proof.
  induction names as [|n names IH]; intros seen r H; cbn [assign_names] in H.
  - injection H as <-. reflexivity.
  - destruct (join_name n) as [s|e]; [|discriminate].
    destruct (str_mem s seen || (b && match n with [] => true | _ => false end)) eqn:E.
    + destruct (assign_names b seen names) as [r'|] eqn:E'; [|discriminate]. injection H as <-.
      cbn [names_accepted]. apply (IH seen); auto.
    + destruct (assign_names b (s :: seen) names) as [r'|] eqn:E'; [|discriminate]. injection H as <-.
      cbn [names_accepted]. apply orb_false_elim in E. destruct E as [E _]. rewrite E. cbn.
      apply (IH (s :: seen)); auto.
Qed.

(* the name the while loop of Bridge.elaborate settles on is free *)
Lemma pick_name_free seen j : forall fuel k c s, pick_name fuel seen j k c = Ok s -> str_mem s seen = false.
Proof.
  induction fuel as [|f IH]; intros k c s H; cbn [pick_name] in H.
  - destruct (str_mem c seen) eqn:E; [discriminate|]. injection H as <-. exact E.
  - destruct (str_mem c seen) eqn:E; [eapply IH; exact H|]. injection H as <-. exact E.
Qed.

(* E1 for csr.Bridge after 823f054: whenever the loop returns, the names handed to m.submodules[...]
   are pairwise distinct and every register gets a (named) submodule of its own *)
Theorem bridge_names_accepted : forall names seen r, bridge_names seen names = Ok r ->
  names_accepted seen r = true /\ length r = length names /\ Forall (fun o => o <> None) r.
Proof.
  induction names as [|n names IH]; intros seen r H; cbn [bridge_names] in H.
  - injection H as <-. repeat split. constructor.
  - destruct (join_name n) as [j|e]; [|discriminate].
    destruct (pick_name (length seen) seen j 0 j) as [s|e] eqn:Ep; [|discriminate].
    destruct (bridge_names (s :: seen) names) as [r'|e] eqn:E'; [|discriminate]. injection H as <-.
    destruct (IH _ _ E') as (A & B & C). cbn [names_accepted length].
    rewrite (pick_name_free _ _ _ _ _ _ Ep). cbn. repeat split; auto. constructor; [discriminate|exact C].
Qed.

Theorem register_submodules_ok paths : exists r,
  register_submodules paths = Ok r /\ names_accepted [] r = true /\ length r = length paths.
Proof.
  unfold register_submodules. destruct (assign_names_total true paths []) as (r & E & Hl).
  exists r. split; [exact E|]. split; [|exact Hl]. apply (assign_names_accepted true paths); auto.
Qed.

(* ------------------------------------------------------------------------------------------ *)
(* (iv) accepted constructor arguments make the partial operations of elaborate() defined       *)
(* ------------------------------------------------------------------------------------------ *)

Module WB := Soc.Model.WbDecoder.

(* F6: the Case pattern of every window has exactly addr_width characters, also for addr_width = 0
   (where the memory map is one bit wider than the address) *)
Theorem wbdec_pattern_fits c s : 0 <= WB.c_aw c -> 0 <= WB.w_aw (WB.s_win s) ->
  0 <= WB.gbits (WB.c_geom c) ->
  Z.of_nat (length (WB.sub_pattern c s)) = WB.c_aw c.
Proof.
  intros Ha Hw Hg. unfold WB.sub_pattern. rewrite firstn_length.
  pose proof (window_pattern_length_ge (WB.map_aw (WB.c_geom c)) (WB.w_aw (WB.s_win s))
                (WB.w_start (WB.s_win s)) Hw) as H.
  unfold WB.map_aw in *. unfold WB.c_aw in *. lia.
Qed.

Lemma wbdec_gbits_nonneg g : 0 <= WB.gbits g.
Proof. unfold WB.gbits. apply Z.log2_nonneg. Qed.

(* the pattern as it was before fix 2796297 (not truncated): one character too many when
   addr_width = 0 and granularity = data_width *)
Theorem wbdec_pattern_orig_refuted : exists aw_map w_aw start,
  aw_map = Z.max 1 (0 + 0) /\ length (window_pattern aw_map w_aw start) <> 0%nat.
Proof. exists 1, 0, 0. split; [reflexivity|]. vm_compute. discriminate. Qed.

(* wishbone.Arbiter: every accepted initiator's select fan-out ratio granularity // bus granularity is
   at least one (Cat(sel.replicate(ratio) ...) is then as wide as the bus select) *)
Module AR := Soc.Model.Arbiter.

Lemma first_refused_none c : forall l k, AR.first_refused c k l = None ->
  forall ic, In ic l -> AR.add_ok c ic = true.
Proof.
  induction l as [|x l IH]; intros k H ic Hin; [destruct Hin|].
  cbn [AR.first_refused] in H. destruct (AR.add_ok c x) eqn:E; [|discriminate].
  destruct Hin as [<-|Hin]; [exact E|]. apply (IH (S k)); auto.
Qed.

Theorem arbiter_ratio_defined c ic : 0 < AR.c_g c ->
  AR.first_refused c 0 (AR.c_intrs c) = None -> In ic (AR.c_intrs c) ->
  1 <= AR.i_ratio c ic /\ AR.i_aw ic = AR.c_aw c /\ AR.i_dw ic = AR.c_dw c.
Proof.
  intros Hg H Hin. pose proof (first_refused_none c _ _ H ic Hin) as Hok.
  unfold AR.add_ok in Hok. repeat (apply andb_prop in Hok; destruct Hok as [Hok ?]).
  split; [|split; lia]. unfold AR.i_ratio. apply Z.div_le_lower_bound; lia.
Qed.

(* ------------------------------------------------------------------------------------------ *)
(* (iii, continued) the suffix loop of csr.Bridge.elaborate (fix 823f054) terminates            *)
(* ------------------------------------------------------------------------------------------ *)

(* ---------- decimal printing is injective ---------- *)
Lemma digits_lsd_nonempty f n : digits_lsd (S f) n <> [].
Proof. cbn. discriminate. Qed.

Lemma digits_lsd_inj : forall f n m, 0 <= n < 10 ^ Z.of_nat f -> 0 <= m < 10 ^ Z.of_nat f ->
  digits_lsd f n = digits_lsd f m -> n = m.
Proof.
  induction f as [|f IH]; intros n m Hn Hm H.
  - change (Z.of_nat 0) with 0 in Hn, Hm. rewrite Z.pow_0_r in Hn, Hm. lia.
  - cbn [digits_lsd] in H.
    pose proof (f_equal (@hd Z 0) H) as Hd. pose proof (f_equal (@tl Z) H) as Ht. cbn [hd tl] in Hd, Ht.
    assert (Hmod : n mod 10 = m mod 10) by lia.
    rewrite Nat2Z.inj_succ, Z.pow_succ_r in Hn, Hm by lia.
    destruct (n <? 10) eqn:En; destruct (m <? 10) eqn:Em.
    + rewrite Z.mod_small in Hmod by lia. rewrite Z.mod_small in Hmod by lia. exact Hmod.
    + destruct f; [cbn in Hm; lia|]. exfalso. symmetry in Ht. exact (digits_lsd_nonempty _ _ Ht).
    + destruct f; [cbn in Hn; lia|]. exfalso. exact (digits_lsd_nonempty _ _ Ht).
    + assert (n / 10 = m / 10).
      { apply IH; auto; split; try (apply Z.div_pos; lia); apply Z.div_lt_upper_bound; lia. }
      rewrite (Z.div_mod n 10), (Z.div_mod m 10) by lia. lia.
Qed.

Lemma digits_lsd_fuel : forall f f' n, 0 <= n < 10 ^ Z.of_nat (S f) -> n < 10 ^ Z.of_nat (S f') ->
  digits_lsd (S f) n = digits_lsd (S f') n.
Proof.
  induction f as [|f IH]; intros f' n Hn Hn'.
  - cbn in Hn. cbn [digits_lsd]. replace (n <? 10) with true by lia. reflexivity.
  - cbn [digits_lsd]. destruct (n <? 10) eqn:E; [reflexivity|].
    destruct f' as [|f']; [cbn in Hn'; lia|]. f_equal.
    rewrite Nat2Z.inj_succ, Z.pow_succ_r in Hn, Hn' by lia.
    apply IH; [split; [apply Z.div_pos; lia | apply Z.div_lt_upper_bound; lia] | apply Z.div_lt_upper_bound; lia].
Qed.

Lemma fuel_covers n : 0 <= n -> n < 10 ^ Z.of_nat (S (Z.to_nat (Z.log2 n))).
Proof.
  intros Hn. pose proof (Z.log2_nonneg n) as Hl.
  rewrite Nat2Z.inj_succ, Z2Nat.id by lia.
  destruct (Z.eq_dec n 0) as [->|Hne]; [cbn; lia|].
  destruct (Z.log2_spec n ltac:(lia)) as [_ Hhi].
  assert (2 ^ Z.succ (Z.log2 n) <= 10 ^ Z.succ (Z.log2 n)) by (apply Z.pow_le_mono_l; lia). lia.
Qed.

Lemma str_of_nat_inj n m : 0 <= n -> 0 <= m -> str_of_nat n = str_of_nat m -> n = m.
Proof.
  intros Hn Hm H. unfold str_of_nat in H.
  apply (f_equal (@rev Z)) in H. rewrite !rev_involutive in H.
  pose proof (fuel_covers n Hn) as Fn. pose proof (fuel_covers m Hm) as Fm.
  set (a := Z.to_nat (Z.log2 n)) in *. set (b := Z.to_nat (Z.log2 m)) in *.
  assert (Ha : 10 ^ Z.of_nat (S a) <= 10 ^ Z.of_nat (S (Nat.max a b))) by (apply Z.pow_le_mono_r; lia).
  assert (Hb : 10 ^ Z.of_nat (S b) <= 10 ^ Z.of_nat (S (Nat.max a b))) by (apply Z.pow_le_mono_r; lia).
  rewrite (digits_lsd_fuel a (Nat.max a b) n) in H by lia.
  rewrite (digits_lsd_fuel b (Nat.max a b) m) in H by lia.
  apply (digits_lsd_inj (S (Nat.max a b))); auto; lia.
Qed.

(* ---------- the suffix loop of Bridge.elaborate terminates ---------- *)
Lemma str_eqb_eq a : forall b, str_eqb a b = true <-> a = b.
Proof.
  induction a as [|x a IH]; destruct b as [|y b]; cbn [str_eqb]; split; intros H; try discriminate; auto.
  - apply andb_prop in H. destruct H as [H1 H2]. apply IH in H2. apply Z.eqb_eq in H1. subst. reflexivity.
  - injection H as -> ->. rewrite Z.eqb_refl. apply IH. reflexivity.
Qed.

Lemma str_mem_In s l : str_mem s l = true <-> In s l.
Proof.
  unfold str_mem. rewrite existsb_exists. split.
  - intros (x & Hx & E). apply str_eqb_eq in E. subst. exact Hx.
  - intros H. exists s. split; auto. apply str_eqb_eq. reflexivity.
Qed.

(* the k-th candidate name: joined, joined_1, joined_2, ... *)
Definition cand (j : str) (k : Z) : str := if k =? 0 then j else j ++ 95 :: str_of_int k.

Lemma cand_inj j a b : 0 <= a -> 0 <= b -> cand j a = cand j b -> a = b.
Proof.
  unfold cand. intros Ha Hb H. destruct (a =? 0) eqn:Ea; destruct (b =? 0) eqn:Eb; try lia.
  - exfalso. apply (f_equal (@length Z)) in H. rewrite app_length in H. cbn [length] in H. lia.
  - exfalso. apply (f_equal (@length Z)) in H. rewrite app_length in H. cbn [length] in H. lia.
  - apply app_inv_head in H. pose proof (f_equal (@tl Z) H) as Ht. cbn [tl] in Ht.
    unfold str_of_int in Ht. replace (a <? 0) with false in Ht by lia. replace (b <? 0) with false in Ht by lia.
    apply str_of_nat_inj; auto.
Qed.

Lemma pick_name_finds seen j : forall fuel k, 0 <= k ->
  (exists i, k <= i <= k + Z.of_nat fuel /\ str_mem (cand j i) seen = false) ->
  exists s, pick_name fuel seen j k (cand j k) = Ok s.
Proof.
  induction fuel as [|f IH]; intros k Hk (i & Hi & Hfree).
  - assert (i = k) by lia. subst. cbn [pick_name]. rewrite Hfree. eauto.
  - cbn [pick_name]. destruct (str_mem (cand j k) seen) eqn:E; [|eauto].
    replace (j ++ 95 :: str_of_int (k + 1)) with (cand j (k + 1))
      by (unfold cand; replace (k + 1 =? 0) with false by lia; reflexivity).
    apply IH; [lia|]. exists i. split; auto.
    assert (i <> k) by (intro; subst; congruence). lia.
Qed.

Lemma forallb_false {X} (f : X -> bool) l : forallb f l = false -> exists x, In x l /\ f x = false.
Proof.
  induction l as [|x l IH]; cbn; [discriminate|]. destruct (f x) eqn:E; cbn; intros H.
  - destruct (IH H) as (y & Hy & Ey). eauto.
  - eauto.
Qed.

(* pigeonhole: of the |seen| + 1 pairwise distinct candidates one is not taken *)
Lemma some_cand_free seen j : exists i, 0 <= i <= Z.of_nat (length seen) /\ str_mem (cand j i) seen = false.
Proof.
  set (cs := map (fun n => cand j (Z.of_nat n)) (seq 0 (S (length seen)))).
  destruct (forallb (fun c => str_mem c seen) cs) eqn:E.
  - exfalso.
    assert (Hnd : NoDup cs).
    { apply Injective_map_NoDup; [|apply seq_NoDup].
      intros a b H. apply cand_inj in H; lia. }
    assert (Hincl : incl cs seen).
    { intros c Hc. rewrite forallb_forall in E. apply str_mem_In. apply E. exact Hc. }
    pose proof (NoDup_incl_length Hnd Hincl) as Hlen.
    unfold cs in Hlen. rewrite map_length, seq_length in Hlen. lia.
  - apply forallb_false in E. destruct E as (c & Hc & Ec). unfold cs in Hc.
    apply in_map_iff in Hc. destruct Hc as (n & <- & Hn). apply in_seq in Hn.
    exists (Z.of_nat n). split; [lia | exact Ec].
Qed.

Theorem bridge_names_total : forall names seen, exists r, bridge_names seen names = Ok r.
Proof.
  induction names as [|n names IH]; intros seen; [exists []; reflexivity|].
  cbn [bridge_names]. destruct (submodule_name_total n) as (j & ->).
  destruct (some_cand_free seen j) as (i & Hi & Hfree).
  destruct (pick_name_finds seen j (length seen) 0 ltac:(lia)) as (s & Hs).
  { exists i. split; [lia | exact Hfree]. }
  change (cand j 0) with j in Hs. rewrite Hs.
  destruct (IH (s :: seen)) as (r & ->). eauto.
Qed.

(* csr.Bridge: for every list of register names, naming succeeds, the multiplexer and every register get
   a named submodule of their own, and no name handed to m.submodules[...] is already taken *)
Theorem bridge_submodules_ok names : exists r,
  bridge_submodules names = Ok r /\ names_accepted [] r = true /\ length r = S (length names) /\
  Forall (fun o => o <> None) r.
Proof.
  unfold bridge_submodules. destruct (bridge_names_total names [mux_name]) as (r & E). rewrite E.
  destruct (bridge_names_accepted names [mux_name] r E) as (A & B & C).
  exists (Some mux_name :: r). split; [reflexivity|]. split; [|split; [cbn; lia|]].
  - cbn [names_accepted str_mem existsb negb andb]. exact A.
  - constructor; [discriminate | exact C].
Qed.
