(* csr.Builder.as_memory_map (C17): the loop of add_resource calls succeeds exactly on legal layouts and
   then reports exactly the closed-form layout.  Allocation itself is not re-proved: the per-call
   facts come from Proofs/MemAlloc.v, MemReports.v (C02) and Namespace*.v (C18). *)
From Coq Require Import ZArith List Bool Lia ZifyBool Arith.
From Soc Require Import Lib.Res Lib.Bits Lib.PyList Model.MemoryMap Model.MemSpec Model.Builder
                        Model.BuilderSpec.
From Soc Require Import Proofs.RangeMap Proofs.MemArith Proofs.Namespace Proofs.NamespaceDecide
                        Proofs.MemNames Proofs.MemAlloc Proofs.MemReports Proofs.BuilderArith.
Import ListNotations.
Open Scope Z_scope.

Local Opaque Z.pow Z.shiftl Z.div Z.modulo.

(* ------------------------------------------------------------------ what the API guarantees about a builder *)

Definition part_ok (p : part) : Prop := match p with PStr a => a <> 0 | PInt n => 0 <= n end.

Record geom_ok (b : builder) : Prop := {
  go_aw : 0 < bd_aw b;
  go_dw : 0 < bd_dw b;
  go_g : 0 < bd_gran b;
  go_div : bd_dw b = bd_dw b / bd_gran b * bd_gran b
}.

Definition reg_ok (b : builder) (r : breg) : Prop :=
  0 <= b_width r /\ b_name r <> [] /\ Forall part_ok (b_name r) /\
  match b_off r with
  | Some o => 0 <= o /\ o mod (bd_dw b / bd_gran b) = 0
  | None => True
  end.

Record binv (b : builder) : Prop := {
  bi_geom : geom_ok b;
  bi_regs : Forall (reg_ok b) (bd_regs b);
  bi_ids : NoDup (map b_id (bd_regs b));
  bi_stack : Forall part_ok (bd_stack b)
}.

(* ------------------------------------------------------------------ small facts *)

Lemma mk_name_raw nm : nm <> [] -> Forall part_ok nm -> mk_name (NTuple (map raw_of_part nm)) = Ok nm.
Proof.
  intros Hne Hok.
  assert (H : mapR valid_part (map raw_of_part nm) = Ok nm).
  { clear Hne. induction Hok as [|p l Hp Hl IH]; [reflexivity|].
    cbn [map mapR]. rewrite IH.
    destruct p as [a|n]; cbn [raw_of_part valid_part part_ok] in *.
    - replace (a =? 0) with false by lia. reflexivity.
    - replace (n >=? 0) with true by lia. reflexivity. }
  destruct nm as [|p l]; [contradiction|]. cbn [map mk_name] in *. exact H.
Qed.

Lemma match_filter_forallb {X Y} (f : X -> bool) (l : list X) (a c : Y) :
  match filter f l with [] => a | _ :: _ => c end =
  if forallb (fun x => negb (f x)) l then a else c.
Proof.
  induction l as [|x l IH]; [reflexivity|]. cbn [filter forallb].
  destruct (f x); cbn [negb andb]; [reflexivity|exact IH].
Qed.

Lemma forallb_false_ex {X} (f : X -> bool) l : forallb f l = false -> exists x, In x l /\ f x = false.
Proof.
  induction l as [|x l IH]; cbn [forallb]; [discriminate|].
  destruct (f x) eqn:E; cbn [andb]; intros H.
  - destruct (IH H) as (y & Hy & Hf). exists y. split; [right; exact Hy|exact Hf].
  - exists x. split; [left; reflexivity|exact E].
Qed.

Lemma units_reg_size b r : reg_size b r = units b r.
Proof. reflexivity. Qed.

Lemma span_pos b r : 0 < span b r.
Proof. unfold span. apply pow2_pos, ceil_log2_nonneg. Qed.

(* ------------------------------------------------------------------ _compute_addr_range as a boolean *)

Lemma car_bool m addr size A a :
  wf_map m -> m_al m = 0 -> 0 <= A -> 0 <= size ->
  (addr = VNone /\ a = align_up (m_next m) A \/ addr = VInt a /\ 0 <= a) ->
  compute_addr_range m addr (VInt size) A =
    if (a + align_up (Z.max size 1) A <=? 2 ^ m_aw m) &&
       forallb (fun x => negb (isect a (a + align_up (Z.max size 1) A) x)) (m_ranges m)
    then Ok (a, a + align_up (Z.max size 1) A) else Err ValueError.
Proof.
  intros Hwf Hal HA Hsz Haddr. unfold compute_addr_range.
  pose proof (align_up_ge (Z.max size 1) A HA) as Hge.
  set (sz := align_up (Z.max size 1) A) in *.
  assert (Ha : match addr with
               | VNone => Ok (align_up (m_next m) A)
               | _ => let! _ := check (nonneg addr) ValueError in
                      let! _ := check (zof addr mod Z.shiftl 1 (m_al m) =? 0) ValueError in
                      Ok (zof addr)
               end = Ok a).
  { destruct Haddr as [(-> & ->)|(-> & Ha0)]; [reflexivity|].
    cbn [nonneg zof]. rewrite Hal, shiftl1, Z.pow_0_r, Z.mod_1_r.
    replace (0 <=? a) with true by lia. reflexivity. }
  rewrite Ha. cbn [bind nonneg zof]. replace (0 <=? size) with true by lia. cbn [check bind].
  rewrite shiftl1. fold sz.
  assert (Hb : negb ((a >? 2 ^ m_aw m) || (a + sz >? 2 ^ m_aw m)) = (a + sz <=? 2 ^ m_aw m)) by lia.
  rewrite Hb. destruct (a + sz <=? 2 ^ m_aw m); cbn [check bind andb]; [|reflexivity].
  rewrite (overlaps_spec 0 _ _ _ (wf_chain _ Hwf)) by lia.
  apply match_filter_forallb.
Qed.

(* ------------------------------------------------------------------ the loop invariant *)

Definition to_res (p : pent) : resent :=
  {| r_id := p_id p; r_name := p_name p; r_start := p_start p; r_stop := p_end p |}.
Definition to_entry (p : pent) : entry :=
  {| e_start := p_start p; e_stop := p_end p; e_step := 1; e_asg := AR (p_id p) |}.

(* the map after the registers P have been added, the last one ending at cur *)
Record minv (b : builder) (m : mmap) (P : list pent) (cur : Z) : Prop := {
  mi_wf : wf_map m;
  mi_frozen : m_frozen m = false;
  mi_aw : m_aw m = bd_aw b;
  mi_dw : m_dw m = bd_dw b;
  mi_al : m_al m = 0;
  mi_wins : m_wins m = [];
  mi_next : m_next m = cur;
  mi_ress : m_ress m = map to_res P;
  mi_names : m_names m = map p_name P;
  mi_ranges : forall x, In x (m_ranges m) <-> In x (map to_entry P);
  mi_reports : forall t, In t (resources m) <-> In t P
}.

Definition new_pent (b : builder) (cur : Z) (r : breg) : pent :=
  (b_id r, b_name r, start_of b cur r, start_of b cur r + span b r).

Definition step_ok (b : builder) (P : list pent) (p : pent) : Prop :=
  p_end p <= 2 ^ bd_aw b /\
  forall q, In q P -> ~ overlap p q /\ ~ name_conflict (p_name p) (p_name q).

Definition bad_step (b : builder) (P : list pent) (p : pent) : Prop :=
  2 ^ bd_aw b < p_end p \/
  exists q, In q P /\ (overlap p q \/ name_conflict (p_name p) (p_name q)).

Lemma bad_not_ok b P p : bad_step b P p -> step_ok b P p -> False.
Proof.
  intros [Hb|(q & Hq & Hb)] (He & Hall); [lia|].
  destruct (Hall q Hq) as (H1 & H2). destruct Hb; auto.
Qed.

Lemma has_res_fresh m P id : m_ress m = map to_res P -> ~ In id (map p_id P) -> has_res m id = false.
Proof.
  intros H Hn. unfold has_res. rewrite H. apply existsb_false. intros x Hx.
  apply in_map_iff in Hx as (q & <- & Hq). cbn [to_res r_id].
  destruct (Z.eqb_spec (p_id q) id) as [E|]; [|reflexivity].
  exfalso. apply Hn. rewrite <- E. apply in_map. exact Hq.
Qed.

Lemma isect_overlap p q :
  isect (p_start p) (p_end p) (to_entry q) = true <-> overlap p q.
Proof. unfold isect, overlap. cbn [to_entry e_start e_stop]. lia. Qed.

(* one iteration of the loop in as_memory_map *)
Lemma add_step b m P cur r :
  geom_ok b -> minv b m P cur -> reg_ok b r -> ~ In (b_id r) (map p_id P) ->
  let p := new_pent b cur r in
  let call := add_resource m (b_id r) true (NTuple (map raw_of_part (b_name r)))
                           (VInt (reg_size b r)) (reg_addr b r) (VInt (ceil_log2 (reg_size b r))) in
  (step_ok b P p /\ exists m', call = Ok (m', (p_start p, p_end p)) /\ minv b m' (P ++ [p]) (p_end p)) \/
  (bad_step b P p /\ call = Err ValueError).
Proof.
  intros Hg Hm (Hw & Hne & Hparts & Hoff) Hfresh p call.
  destruct Hg as [Haw Hdw Hgr Hdiv].
  pose proof Hm as [Hwf Hfr Hmaw Hmdw Hmal Hwins Hnext Hress Hnames Hranges Hreports].
  destruct (units_ceil (bd_dw b) (b_width r) Hdw Hw) as (Hu0 & _).
  fold (units b r) in Hu0.
  pose proof (ceil_log2_nonneg (units b r)) as Hcl.
  assert (Hsp : align_up (Z.max (units b r) 1) (ceil_log2 (units b r)) = span b r)
    by (apply align_up_span; exact Hu0).
  assert (Hpow : 2 ^ ceil_log2 (units b r) = span b r)
    by (unfold span; rewrite ceil_log2_max1 by exact Hu0; reflexivity).
  (* the address argument *)
  assert (Haddr : reg_addr b r = VNone /\ p_start p = align_up (m_next m) (ceil_log2 (units b r)) \/
                  reg_addr b r = VInt (p_start p) /\ 0 <= p_start p).
  { subst p. unfold reg_addr, new_pent, start_of. cbn [p_start].
    destruct (b_off r) as [o|].
    - right. destruct Hoff as (Ho & Hmod).
      destruct (offset_exact _ _ o Hgr Hdw Hdiv Ho Hmod) as (_ & H0 & _). auto.
    - left. split; [reflexivity|]. rewrite Hnext, align_up_next_multiple, Hpow by exact Hcl. reflexivity. }
  assert (Hpe : p_end p = p_start p + span b r) by reflexivity.
  assert (Hpn : p_name p = b_name r) by reflexivity.
  assert (Hpi : p_id p = b_id r) by reflexivity.
  (* the checks of add_resource, in order *)
  assert (Hcall : call =
    if avail_spec (m_names m) [b_name r] then
      let! '(s, e) := compute_addr_range m (reg_addr b r) (VInt (units b r)) (ceil_log2 (units b r)) in
      let! rs := rm_insert (m_ranges m) {| e_start := s; e_stop := e; e_step := 1; e_asg := AR (b_id r) |} in
      Ok (MM (m_aw m) (m_dw m) (m_al m) rs
             (m_ress m ++ [{| r_id := b_id r; r_name := b_name r; r_start := s; r_stop := e |}])
             (m_wins m) (m_names m ++ [b_name r]) e (m_frozen m), (s, e))
    else Err ValueError).
  { subst call. unfold add_resource. rewrite Hfr. cbn [negb check bind].
    rewrite (has_res_fresh m P _ Hress Hfresh). cbn [negb check bind].
    rewrite (mk_name_raw _ Hne Hparts). cbn [bind].
    rewrite is_available_single;
      [|apply names_ok_nonempty, (wf_names _ Hwf)|exact Hne].
    cbn [bind]. destruct (avail_spec (m_names m) [b_name r]); cbn [check bind]; [|reflexivity].
    cbn [nonneg zof]. rewrite units_reg_size. replace (0 <=? ceil_log2 (units b r)) with true by lia.
    cbn [check bind]. rewrite Hmal, Z.max_l by lia.
    destruct (compute_addr_range m (reg_addr b r) (VInt (units b r)) (ceil_log2 (units b r)))
      as [[s e]|err]; cbn [bind]; [|reflexivity].
    destruct (rm_insert _ _) as [rs|err]; cbn [bind]; [|reflexivity].
    destruct m. msimpl. rewrite Hmal, Hfr. reflexivity. }
  rewrite (car_bool m _ _ _ (p_start p) Hwf Hmal Hcl Hu0) in Hcall by exact Haddr.
  rewrite Hsp, <- Hpe, Hmaw in Hcall.
  destruct (avail_spec (m_names m) [b_name r]) eqn:Hav.
  2:{ right. split; [|exact Hcall].
      right. destruct (avail_spec_true (m_names m) [b_name r]) as (_ & Hback).
      (* some name conflicts *)
      unfold avail_spec in Hav. cbn [forallb] in Hav. rewrite andb_true_r in Hav.
      apply forallb_false_ex in Hav as (x & Hx & Hc).
      rewrite Hnames in Hx. apply in_map_iff in Hx as (q & <- & Hq).
      exists q. split; [exact Hq|]. right. rewrite Hpn.
      apply name_conflictb_iff. destruct (name_conflictb (b_name r) (p_name q)); [reflexivity|discriminate]. }
  assert (Hnoconf : forall q, In q P -> ~ name_conflict (p_name p) (p_name q)).
  { intros q Hq. rewrite Hpn. apply (proj1 (avail_spec_true _ _) Hav); [left; reflexivity|].
    rewrite Hnames. apply in_map. exact Hq. }
  destruct (p_end p <=? 2 ^ bd_aw b) eqn:Hbound; cbn [andb] in Hcall.
  2:{ right. split; [left; lia|exact Hcall]. }
  destruct (forallb _ (m_ranges m)) eqn:Hov.
  2:{ right. split; [|exact Hcall]. right.
      apply forallb_false_ex in Hov as (x & Hx & Hc).
      apply Hranges in Hx. apply in_map_iff in Hx as (q & <- & Hq).
      exists q. split; [exact Hq|]. left. apply isect_overlap.
      destruct (isect _ _ _); [reflexivity|discriminate]. }
  (* success *)
  left.
  assert (Hok : step_ok b P p).
  { split; [lia|]. intros q Hq. split; [|apply Hnoconf, Hq].
    intros Ho. apply isect_overlap in Ho.
    rewrite forallb_forall in Hov. specialize (Hov (to_entry q)).
    rewrite Ho in Hov. discriminate Hov. apply Hranges, in_map, Hq. }
  split; [exact Hok|].
  assert (Hcar : compute_addr_range m (reg_addr b r) (VInt (units b r)) (ceil_log2 (units b r)) =
                 Ok (p_start p, p_end p)).
  { rewrite (car_bool m _ _ _ (p_start p) Hwf Hmal Hcl Hu0) by exact Haddr.
    rewrite Hsp, <- Hpe, Hmaw, Hbound, Hov. reflexivity. }
  assert (HA : m_al m <= ceil_log2 (units b r)) by lia.
  destruct (insert_after_car _ _ _ _ _ _ 1 (AR (b_id r)) Hwf HA Hcar) as (rs & Hins & _ & Hin).
  cbn [bind] in Hcall. rewrite Hins in Hcall. cbn [bind] in Hcall.
  eexists. split; [exact Hcall|]. unfold call in Hcall.
  pose proof (add_resource_wf _ _ _ _ _ _ _ _ _ _ Hwf Hcall) as Hwf'.
  destruct (add_resource_spec _ _ _ _ _ _ _ _ _ _ Hwf Hcall)
    as (n & sz & A & Hn & _ & _ & _ & _ & _ & _ & _ & Hrep & _).
  rewrite (mk_name_raw _ Hne Hparts) in Hn. injection Hn as <-.
  constructor; msimpl; auto.
  - rewrite Hress, map_app. reflexivity.
  - rewrite Hnames, map_app. reflexivity.
  - intros x. rewrite Hin, map_app, in_app_iff, Hranges. cbn [map In].
    change {| e_start := p_start p; e_stop := p_end p; e_step := 1; e_asg := AR (b_id r) |}
      with (to_entry p).
    intuition auto.
  - intros t. rewrite Hrep, in_app_iff, Hreports. cbn [In]. subst p. unfold new_pent.
    intuition auto.
Qed.

(* ------------------------------------------------------------------ the whole loop *)

Fixpoint legal_from (b : builder) (P : list pent) (cur : Z) (l : list breg) : Prop :=
  match l with
  | [] => True
  | r :: l' => step_ok b P (new_pent b cur r) /\
               legal_from b (P ++ [new_pent b cur r]) (p_end (new_pent b cur r)) l'
  end.

Fixpoint illegal_from (b : builder) (P : list pent) (cur : Z) (l : list breg) : Prop :=
  match l with
  | [] => False
  | r :: l' => bad_step b P (new_pent b cur r) \/
               illegal_from b (P ++ [new_pent b cur r]) (p_end (new_pent b cur r)) l'
  end.

Lemma place_all_cons b cur r l :
  place_all b cur (r :: l) = new_pent b cur r :: place_all b (p_end (new_pent b cur r)) l.
Proof. reflexivity. Qed.

Lemma legal_illegal_excl b l : forall P cur, legal_from b P cur l -> illegal_from b P cur l -> False.
Proof.
  induction l as [|r l IH]; intros P cur; cbn [legal_from illegal_from]; [auto|].
  intros (Hok & Hl) [Hbad|Hi]; [exact (bad_not_ok _ _ _ Hbad Hok)|exact (IH _ _ Hl Hi)].
Qed.

Lemma add_regs_spec b : geom_ok b -> forall l m P cur,
  minv b m P cur -> Forall (reg_ok b) l -> NoDup (map p_id P ++ map b_id l) ->
  (legal_from b P cur l /\
   exists m' cur', add_regs b m l = Ok m' /\ minv b m' (P ++ place_all b cur l) cur') \/
  (illegal_from b P cur l /\ add_regs b m l = Err ValueError).
Proof.
  intros Hg. induction l as [|r l IH]; intros m P cur Hm Hregs Hnd.
  - left. split; [exact I|]. exists m, cur. cbn [add_regs place_all]. rewrite app_nil_r. auto.
  - inversion Hregs as [|? ? Hr Hl]; subst.
    cbn [map] in Hnd.
    assert (Hfresh : ~ In (b_id r) (map p_id P)).
    { apply NoDup_remove_2 in Hnd. intros Hin. apply Hnd. apply in_or_app. left. exact Hin. }
    cbn [legal_from illegal_from add_regs]. rewrite place_all_cons.
    set (p := new_pent b cur r) in *.
    destruct (add_step b m P cur r Hg Hm Hr Hfresh) as [(Hok & m' & Hcall & Hm')|(Hbad & Hcall)];
      fold p in Hok, Hcall, Hm' || fold p in Hbad, Hcall.
    + rewrite Hcall. cbn [bind].
      assert (Hnd' : NoDup (map p_id (P ++ [p]) ++ map b_id l)).
      { rewrite map_app, <- app_assoc. exact Hnd. }
      destruct (IH m' (P ++ [p]) (p_end p) Hm' Hl Hnd')
        as [(Hleg & m'' & cur' & Hadd & Hm'')|(Hill & Hadd)].
      * left. split; [split; assumption|]. exists m'', cur'. split; [exact Hadd|].
        rewrite <- app_assoc in Hm''. exact Hm''.
      * right. split; [right; exact Hill|exact Hadd].
    + right. split; [left; exact Hbad|]. rewrite Hcall. reflexivity.
Qed.

Lemma legal_from_spec b : forall l P cur,
  legal_from b P cur l <->
  forall before p after, place_all b cur l = before ++ p :: after ->
    p_end p <= 2 ^ bd_aw b /\
    forall q, In q (P ++ before) -> ~ overlap p q /\ ~ name_conflict (p_name p) (p_name q).
Proof.
  induction l as [|r l IH]; intros P cur.
  - cbn [legal_from place_all]. split; [|auto].
    intros _ before p after H. destruct before; discriminate H.
  - cbn [legal_from]. rewrite place_all_cons. set (p := new_pent b cur r). split.
    + intros (Hok & Hrest) before q after Heq.
      destruct before as [|p0 before]; cbn [app] in Heq; injection Heq as Hp Heq.
      * subst q. rewrite app_nil_r. exact Hok.
      * subst p0. pose proof (proj1 (IH _ _) Hrest before q after Heq) as Hrest'. clear Hrest. rename Hrest' into Hrest.
        rewrite <- app_assoc in Hrest. exact Hrest.
    + intros H. split.
      * specialize (H [] p _ eq_refl). rewrite app_nil_r in H. exact H.
      * apply IH. intros before q after Heq.
        specialize (H (p :: before) q after). cbn [app] in H. rewrite Heq in H.
        specialize (H eq_refl). rewrite <- app_assoc. exact H.
Qed.

Lemma illegal_from_spec b : forall l P cur,
  illegal_from b P cur l <->
  exists before p after, place_all b cur l = before ++ p :: after /\
    (2 ^ bd_aw b < p_end p \/
     exists q, In q (P ++ before) /\ (overlap p q \/ name_conflict (p_name p) (p_name q))).
Proof.
  induction l as [|r l IH]; intros P cur.
  - cbn [illegal_from place_all]. split; [contradiction|].
    intros (before & p & after & H & _). destruct before; discriminate H.
  - cbn [illegal_from]. rewrite place_all_cons. set (p := new_pent b cur r). split.
    + intros [Hbad|Hrest].
      * exists [], p, (place_all b (p_end p) l). split; [reflexivity|]. rewrite app_nil_r. exact Hbad.
      * apply (proj1 (IH _ _)) in Hrest as (before & q & after & Heq & Hq).
        exists (p :: before), q, after. cbn [app]. rewrite Heq. split; [reflexivity|].
        rewrite <- app_assoc in Hq. exact Hq.
    + intros (before & q & after & Heq & Hq).
      destruct before as [|p0 before]; cbn [app] in Heq; injection Heq as Hp Heq.
      * subst q. left. rewrite app_nil_r in Hq. exact Hq.
      * subst p0. right. apply IH. exists before, q, after. split; [exact Heq|].
        rewrite <- app_assoc. exact Hq.
Qed.

(* ------------------------------------------------------------------ as_memory_map *)

Lemma resources_set_frozen m : resources (set_frozen m) = resources m.
Proof. destruct m; reflexivity. Qed.
Lemma windows_set_frozen m : windows (set_frozen m) = windows m.
Proof. destruct m; reflexivity. Qed.

Lemma set_frozen_proj m :
  m_frozen (set_frozen m) = true /\ m_aw (set_frozen m) = m_aw m /\ m_dw (set_frozen m) = m_dw m /\
  m_al (set_frozen m) = m_al m /\ m_wins (set_frozen m) = m_wins m /\ m_ress (set_frozen m) = m_ress m.
Proof. destruct m; repeat split; reflexivity. Qed.

Lemma binv_freeze b : binv b -> binv (bfreeze b).
Proof. intros [[? ? ? ?] ? ? ?]. constructor; [constructor|..]; assumption. Qed.

Lemma new_map_minv b : geom_ok b ->
  exists m, new_map (VInt (bd_aw b)) (VInt (bd_dw b)) (VInt 0) = Ok m /\ minv b m [] 0.
Proof.
  intros [Haw Hdw Hg Hdiv]. unfold new_map. cbn [posint nonneg zof].
  replace (0 <? bd_aw b) with true by lia. replace (0 <? bd_dw b) with true by lia.
  cbn [Z.leb Z.compare check bind]. eexists. split; [reflexivity|].
  constructor; msimpl; try reflexivity.
  eapply (new_map_wf (VInt (bd_aw b)) (VInt (bd_dw b)) (VInt 0)).
  unfold new_map. cbn [posint nonneg zof].
  replace (0 <? bd_aw b) with true by lia. replace (0 <? bd_dw b) with true by lia. reflexivity.
Qed.

Lemma place_all_freeze b l : forall cur, place_all (bfreeze b) cur l = place_all b cur l.
Proof. induction l as [|r l IH]; intros cur; [reflexivity|]. cbn [place_all]. rewrite IH. reflexivity. Qed.

Lemma placed_freeze b : placed (bfreeze b) = placed b.
Proof. apply place_all_freeze. Qed.

(* the result of as_memory_map, for any builder the API can produce *)
Theorem as_memory_map_spec b : binv b ->
  (legal b /\
   exists m, snd (as_memory_map b) = Ok m /\ wf_map m /\
     m_frozen m = true /\ m_aw m = bd_aw b /\ m_dw m = bd_dw b /\ m_al m = 0 /\ m_wins m = [] /\
     m_ress m = map to_res (placed b) /\
     (forall t, In t (resources m) <-> In t (placed b))) \/
  (illegal b /\ snd (as_memory_map b) = Err ValueError).
Proof.
  intros Hb. pose proof (binv_freeze b Hb) as [Hg Hregs Hids _].
  unfold as_memory_map. cbn [snd].
  destruct (new_map_minv _ Hg) as (m0 & Hnew & Hm0). rewrite Hnew. cbn [bind].
  destruct (add_regs_spec _ Hg (bd_regs (bfreeze b)) m0 [] 0 Hm0 Hregs Hids)
    as [(Hleg & m' & cur' & Hadd & Hm')|(Hill & Hadd)]; rewrite Hadd; cbn [bind].
  - left. fold (placed (bfreeze b)) in Hm'. rewrite placed_freeze in Hm'. split.
    + intros before p after Heq. rewrite legal_from_spec in Hleg.
      fold (placed (bfreeze b)) in Hleg. rewrite placed_freeze in Hleg. exact (Hleg before p after Heq).
    + exists (set_frozen m'). destruct Hm' as [Hwf Hfr Hmaw Hmdw Hmal Hwins Hnext Hress Hnames Hranges Hrep].
      split; [reflexivity|]. split; [apply set_frozen_wf, Hwf|].
      destruct (set_frozen_proj m') as (-> & -> & -> & -> & -> & ->).
      rewrite app_nil_l in *. repeat split; auto.
      * intros Ht. apply Hrep. rewrite resources_set_frozen in Ht. exact Ht.
      * intros Ht. rewrite resources_set_frozen. apply Hrep. exact Ht.
  - right. split; [|reflexivity].
    apply illegal_from_spec in Hill as (before & p & after & Heq & Hbad).
    fold (placed (bfreeze b)) in Heq. rewrite placed_freeze in Heq.
    exists before, p, after. split; [exact Heq|exact Hbad].
Qed.
