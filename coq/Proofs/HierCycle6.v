(* C01, rung 3 (d, data): a held Wishbone READ through a bridge returns, in the lanes of a register lying entirely
   inside the addressed word, the chunks of ONE snapshot of that register (the value it presented in the cycle
   its first chunk was addressed): C10's read lanes (bridge_transfer) composed with C06's tree_read_atomic on the
   CSR-bus trace below the bridge.  The registers of the tree occupy disjoint ranges (the map's ascending
   all_resources()), so no chunk of the register is the first address of another one. *)
From Coq Require Import ZArith List Bool Lia ZifyBool Arith.
From Soc Require Import Lib.Res Lib.Bits Model.MemoryMap Model.MemSpec Model.Hierarchy Proofs.Lookup Proofs.LookupWf
  Proofs.HierCsr Proofs.HierWf
  Proofs.HierInert Proofs.HierWb Proofs.HierCycle1 Proofs.HierCycle2 Proofs.HierCycle3 Proofs.HierCycle4
  Proofs.CsrTreeFlat Proofs.CsrTreeRegs.
From Soc Require Lib.CsrPattern Model.Mux Model.CsrDecoder Model.WbDecoder Model.WbCsrBridge Model.Sram
  Proofs.WbDecoder Proofs.Sram Proofs.WbCsrBridge.
Import ListNotations.
Open Scope Z_scope.

Local Opaque Z.pow.

(* in an ascending list of ranges no range starts strictly inside another *)
Lemma ascending_no_inside : forall l lo s e s' e', ascending lo l -> In (s, e) l -> In (s', e') l ->
  s < s' -> s' < e -> False.
Proof.
  induction l as [|[s0 e0] l IH]; intros lo s e s' e' Ha H1 H2 Hlt Hin; [contradiction|].
  cbn [ascending] in Ha. destruct Ha as (_ & Hne & Ha).
  destruct H1 as [H1|H1]; destruct H2 as [H2|H2].
  - injection H1 as <- <-. injection H2 as <- <-. lia.
  - injection H1 as <- <-. destruct (ascending_in _ _ _ _ Ha H2). lia.
  - injection H2 as <- <-. destruct (ascending_in _ _ _ _ Ha H1). lia.
  - exact (IH _ _ _ _ _ Ha H1 H2 Hlt Hin).
Qed.

Theorem bridge_read_atomic h k bc ch s c mc lc : wbhw_wf h -> BP.wf bc ->
  nth_error (wh_subs h) k = Some (HBridge bc ch) -> nth_error (D.c_subs (wh_cfg h)) k = Some s ->
  csr_dom c -> csr_widths c -> csr_map c = Ok mc -> csr_hw c = Ok ch -> all_resources mc = Ok lc ->
  B.c_caw bc = csr_aw c ->
  forall pre q rvs post, length rvs = (BP.nratio bc + 2)%nat ->
  D.cyc q = true -> D.stb q = true -> D.selected (wh_cfg h) (D.adr q) = Some k ->
  Forall ack_low (wb_after h (map winit (wh_subs h)) pre) ->
  (forall sk, nth_error (wb_after h (map winit (wh_subs h)) pre) k = Some sk -> sub_idle sk) ->
  let R := BP.nratio bc in
  let tr := pre ++ held q rvs ++ post in
  let t0 := length pre in
  let so := sub_req (wh_cfg h) k s q in
  let A := D.o_adr so * B.ratio bc in
  D.we q = false ->
  (* the addressed word lies inside the CSR address space (always so in a constructed hierarchy) *)
  0 <= D.o_adr so -> (D.o_adr so + 1) * B.ratio bc <= 2 ^ B.c_caw bc ->
  (* a readable register reported by the tree's map, entirely inside the word, all its granules selected *)
  forall i L kk r, In i lc -> reg_at (csr_aw c) ch i L kk r -> Mux.r_rd r = true ->
  A <= i_start i -> i_end i <= A + B.ratio bc ->
  (forall gz, i_start i <= A + gz < i_end i -> Z.testbit (D.o_sel so) gz = true) ->
  let gf := Z.to_nat (i_start i - A) in
  exists o, nth_error (wb_run h (map winit (wh_subs h)) tr) (t0 + R + 1)%nat = Some o /\ wo_ack o = true /\
    forall gn, i_start i <= A + Z.of_nat gn < i_end i ->
      (Z.of_nat gn + 1) * B.c_g bc <= D.c_dw (wh_cfg h) ->
      B.lane bc (Z.of_nat gn) (wo_dat_r o) =
      trunc (B.c_g bc)
        (Mux.word (csr_dw c) (Mux.r_width r) (Z.of_nat gn - Z.of_nat gf)
                  (trunc (Mux.r_width r) (nth (Z.to_nat (i_res i)) (nth gf rvs []) 0))).
Proof.
  intros Hwf Hbc Hh Hs Hd Hw Hm Hhw Hl Hcaw pre q rvs post Hrvs Hcyc Hstb Hsel Hlow Hidle R tr t0 so A
         Hwe Ha0 Ha1 i L kk r Hi Hreg Hrd Hlo Hhi Hselg gf.
  destruct (bridge_transfer h k bc ch s Hwf Hbc Hh Hs pre q rvs post Hrvs Hcyc Hstb Hsel Hlow Hidle)
    as (Hrange & Hclen & Hgran & _ & _ & (P & _ & Hcyc_j) & _).
  fold R tr t0 so in Hrange, Hclen, Hgran, Hcyc_j.
  set (ctr := br_ctr h k bc ch s tr) in *.
  rewrite Hcaw in Hrange.
  pose proof (tree_ok_intro c mc ch lc Hd Hw Hm Hhw Hl) as Hok.
  pose proof (BP.nratio_eq bc Hbc) as HR. fold R in HR.
  pose proof (BP.ratio_pos bc Hbc) as Hrp.
  destruct (Hcyc_j (R + 1)%nat ltac:(lia)) as (o & rd & los & L1 & L2 & C1 & _ & C3 & _ & _ & _ & C7).
  exists o. rewrite Nat.add_assoc in C1. split; [exact C1|]. split; [rewrite C3; apply Nat.eqb_refl|].
  intros gn Hgn Hfit.
  (* the register is not empty *)
  pose proof Hreg as (_ & (_ & _ & Hr0 & Hr1 & _) & Es & Ee).
  assert (Hne : i_start i < i_end i) by lia.
  assert (Hgf : Z.of_nat gf = i_start i - A) by (unfold gf; lia).
  assert (HgnR : (gn < R)%nat) by lia.
  assert (HgfR : (gf < R)%nat) by lia.
  rewrite (C7 eq_refl gn HgnR Hfit). f_equal.
  replace (t0 + gn + 1)%nat with (S (t0 + gn)) by lia.
  (* no truncation of the CSR addresses of this word *)
  assert (Hnt : forall g, (g < R)%nat -> trunc (B.c_caw bc) (A + Z.of_nat g) = A + Z.of_nat g).
  { intros g Hg. apply trunc_small. unfold A. nia. }
  (* ascending, disjoint reported ranges *)
  pose proof (proj1 (csr_map_good c Hd mc Hm)) as Hwt.
  destruct (sorted_wf _ Hwt _ Hl) as [Hasc _].
  eapply (tree_read_atomic c ch lc Hok i L kk r ctr (t0 + gf) (t0 + gn) (Z.of_nat gn - Z.of_nat gf));
    [exact Hi|exact Hreg|exact Hrd|exact Hrange|exact (Hgran gf HgfR)| | | | |exact (Hgran gn HgnR)| | |].
  - cbn [CD.r_stb]. rewrite Hwe, (Hselg (Z.of_nat gf)) by lia. reflexivity.
  - cbn [CD.addr]. fold A. rewrite Hnt by exact HgfR. lia.
  - lia.
  - intros u bu rvu i' Hu Hnu Hsu Hi' Hau.
    replace u with (t0 + (u - t0))%nat in Hnu by lia.
    rewrite (Hgran (u - t0)%nat ltac:(lia)) in Hnu. injection Hnu as <- _.
    cbn [CD.addr] in Hau. fold A in Hau. rewrite Hnt in Hau by lia.
    apply (ascending_no_inside _ _ _ _ _ _ Hasc (in_spans _ _ Hi) (in_spans _ _ Hi')); lia.
  - cbn [CD.r_stb]. rewrite Hwe, (Hselg (Z.of_nat gn)) by lia. reflexivity.
  - cbn [CD.addr]. fold A. rewrite Hnt by exact HgnR. lia.
  - lia.
Qed.

(* WRITE data: a writable register inside the addressed word, all its granules selected, receives with its w_stb
   (cycle t0+ge, ge = index after its last granule) the concatenation of the dat_w lanes of its chunks:
   C10's per-granule accesses composed with C06's tree_write_atomic on the CSR-bus trace. *)
Theorem bridge_write_atomic h k bc ch s c mc lc : wbhw_wf h -> BP.wf bc ->
  nth_error (wh_subs h) k = Some (HBridge bc ch) -> nth_error (D.c_subs (wh_cfg h)) k = Some s ->
  csr_dom c -> csr_widths c -> csr_map c = Ok mc -> csr_hw c = Ok ch -> all_resources mc = Ok lc ->
  B.c_caw bc = csr_aw c ->
  forall pre q rvs post, length rvs = (BP.nratio bc + 2)%nat ->
  D.cyc q = true -> D.stb q = true -> D.selected (wh_cfg h) (D.adr q) = Some k ->
  Forall ack_low (wb_after h (map winit (wh_subs h)) pre) ->
  (forall sk, nth_error (wb_after h (map winit (wh_subs h)) pre) k = Some sk -> sub_idle sk) ->
  let R := BP.nratio bc in
  let tr := pre ++ held q rvs ++ post in
  let t0 := length pre in
  let so := sub_req (wh_cfg h) k s q in
  let A := D.o_adr so * B.ratio bc in
  D.we q = true ->
  0 <= D.o_adr so -> (D.o_adr so + 1) * B.ratio bc <= 2 ^ B.c_caw bc ->
  forall i L kk r, In i lc -> reg_at (csr_aw c) ch i L kk r -> Mux.r_wr r = true ->
  A <= i_start i -> i_end i <= A + B.ratio bc ->
  (forall gz, i_start i <= A + gz < i_end i -> Z.testbit (D.o_sel so) gz = true) ->
  let gf := Z.to_nat (i_start i - A) in
  let ge := Z.to_nat (i_end i - A) in
  (gf < ge <= R)%nat /\
  exists o lo, nth_error (wb_run h (map winit (wh_subs h)) tr) (t0 + ge)%nat = Some o /\ wo_ack o = false /\
    In lo (wo_leaves o) /\ lo_id lo = i_res i /\ lo_wstb lo = true /\
    lo_wdata lo = MuxSpec.assemble (csr_dw c) (Mux.r_width r)
                    (fun j => trunc (csr_dw c) (B.lane bc (Z.of_nat gf + j) (D.o_dat_w so)))
                    (Z.to_nat (i_end i - i_start i)).
Proof.
  intros Hwf Hbc Hh Hs Hd Hw Hm Hhw Hl Hcaw pre q rvs post Hrvs Hcyc Hstb Hsel Hlow Hidle R tr t0 so A
         Hwe Ha0 Ha1 i L kk r Hi Hreg Hwr Hlo Hhi Hselg gf ge.
  destruct (bridge_transfer h k bc ch s Hwf Hbc Hh Hs pre q rvs post Hrvs Hcyc Hstb Hsel Hlow Hidle)
    as (Hrange & Hclen & Hgran & Hend & _ & (P & _ & Hcyc_j) & _).
  fold R tr t0 so in Hrange, Hclen, Hgran, Hend, Hcyc_j.
  set (ctr := br_ctr h k bc ch s tr) in *.
  rewrite Hcaw in Hrange.
  pose proof (tree_ok_intro c mc ch lc Hd Hw Hm Hhw Hl) as Hok.
  pose proof (BP.nratio_eq bc Hbc) as HR. fold R in HR.
  pose proof (BP.ratio_pos bc Hbc) as Hrp.
  pose proof Hreg as (_ & (_ & _ & Hr0 & Hr1 & _) & Es & Ee).
  assert (Hne : i_start i < i_end i) by lia.
  assert (Hgf : Z.of_nat gf = i_start i - A) by (unfold gf; lia).
  assert (Hge : Z.of_nat ge = i_end i - A) by (unfold ge; lia).
  assert (Hb : (gf < ge <= R)%nat) by lia.
  split; [exact Hb|].
  assert (Hnt : forall g, (g < R)%nat -> trunc (B.c_caw bc) (A + Z.of_nat g) = A + Z.of_nat g).
  { intros g Hg. apply trunc_small. unfold A. nia. }
  destruct (Hcyc_j ge ltac:(lia)) as (o & rd & los & L1 & L2 & C1 & C2 & C3 & _ & C5 & _).
  (* the bus in the cycle of the w_stb: some entry *)
  assert (Hnext : exists b' rv', nth_error ctr (S (t0 + (ge - 1))) = Some (b', rv')).
  { replace (S (t0 + (ge - 1))) with (t0 + ge)%nat by lia.
    destruct (Nat.lt_ge_cases ge R) as [Hlt|Hge'].
    - eexists _, _. exact (Hgran ge Hlt).
    - destruct (Hend ge ltac:(lia)) as (b' & Hb' & _). eexists _, _. exact Hb'. }
  destruct Hnext as (b' & rv' & Hnext).
  destruct (tree_write_atomic c ch lc Hok i L kk r ctr (t0 + (ge - 1)) _ _
              (fun j => (t0 + gf + Z.to_nat j)%nat)
              (fun j => trunc (csr_dw c) (B.lane bc (Z.of_nat gf + j) (D.o_dat_w so)))
              Hi Hreg Hwr Hrange (Hgran (ge - 1)%nat ltac:(lia))) with (b' := b') (rv' := rv')
    as (rd' & los' & lo & Hrun & Hlo' & Hid & Hws & Hwd).
  - cbn [CD.w_stb]. rewrite Hwe, (Hselg (Z.of_nat (ge - 1))) by lia. reflexivity.
  - cbn [CD.addr]. fold A. rewrite Hnt by lia. lia.
  - intros j Hj _. split; [lia|]. split.
    + eexists _, _. rewrite <- Nat.add_assoc. split; [exact (Hgran (gf + Z.to_nat j)%nat ltac:(lia))|].
      cbn [CD.w_stb CD.addr CD.w_data]. fold A.
      rewrite Hwe, (Hselg (Z.of_nat (gf + Z.to_nat j))) by lia. rewrite Hnt by lia.
      split; [reflexivity|]. split; [lia|]. f_equal. f_equal. lia.
    + intros u bu rvu Hu Hnu [_ Hau].
      replace u with (t0 + (u - t0))%nat in Hnu by lia.
      rewrite (Hgran (u - t0)%nat ltac:(lia)) in Hnu. injection Hnu as <- _.
      cbn [CD.addr] in Hau. fold A in Hau. rewrite Hnt in Hau by lia. lia.
  - intros j u bu rvu i' Hj _ Hu Hnu _ _ _.
    replace u with (t0 + (u - t0))%nat in Hnu by lia.
    rewrite (Hgran (u - t0)%nat ltac:(lia)) in Hnu. injection Hnu as <- _.
    cbn [CD.addr]. fold A. rewrite Hnt by lia. lia.
  - exact Hnext.
  - replace (S (t0 + (ge - 1))) with (t0 + ge)%nat in Hrun by lia.
    rewrite C2 in Hrun. injection Hrun as <- <-.
    exists o, lo. split; [exact C1|]. split.
    { rewrite C3. destruct (Nat.eqb_spec ge (R + 1)); [lia|reflexivity]. }
    split; [rewrite C5; apply in_or_app; right; apply in_or_app; left; exact Hlo'|].
    split; [exact Hid|]. split; [exact Hws|exact Hwd].
Qed.
