(* C01, part 1: what the memory maps of a hierarchy look like.  The maps are built by the API calls of
   Model/MemoryMap.v; here: they are well-formed trees (C03's invariant), a multiplexer's map has
   only resources, a decoder's map has only windows, window number k is the k-th child, every window
   has ratio 1 and starts at a multiple of its size. *)
From Coq Require Import ZArith List Bool Lia ZifyBool Arith Permutation.
From Soc Require Import Lib.Res Lib.PyList Lib.Bits Model.MemoryMap Model.MemSpec Model.Hierarchy
  Proofs.RangeMap Proofs.LookupArith Proofs.LookupWf Proofs.Lookup Proofs.MemArith.
Import ListNotations.
Open Scope Z_scope.

Local Opaque Z.pow.

(* everything but the implicit next address and the frozen flag *)
Definition core (m : mmap) := (m_aw m, m_dw m, m_al m, m_ranges m, m_ress m, m_wins m).

Lemma core_fields m m' : core m' = core m ->
  m_aw m' = m_aw m /\ m_dw m' = m_dw m /\ m_al m' = m_al m /\ m_ranges m' = m_ranges m /\
  m_ress m' = m_ress m /\ m_wins m' = m_wins m.
Proof. unfold core. intros H. injection H as -> -> -> -> -> ->. repeat split. Qed.

Lemma frozen_all_resources w : all_resources (set_frozen w) = all_resources w.
Proof. destruct w; reflexivity. Qed.
Lemma frozen_decode w a : decode_address (set_frozen w) a = decode_address w a.
Proof. destruct w; reflexivity. Qed.
Lemma frozen_aw w : m_aw (set_frozen w) = m_aw w.
Proof. destruct w; reflexivity. Qed.
Lemma frozen_dw w : m_dw (set_frozen w) = m_dw w.
Proof. destruct w; reflexivity. Qed.

(* ------------------------------------------------------------------ align_to *)

Lemma align_to_wf m a m' n : wf_tree m -> align_to m (VInt a) = Ok (m', n) ->
  wf_tree m' /\ core m' = core m.
Proof.
  intros Hm E. unfold align_to in E. apply bind_ok in E as (u & Hc & E). injection E as <- <-.
  split.
  - apply wf_set_next; [exact Hm|].
    pose proof (wf_tree_node _ Hm) as (_ & _ & Hal & Hnx & _).
    cbn [zof]. assert (H0 : 0 <= Z.max a (m_al m)) by lia.
    pose proof (LookupArith.align_up_ge (m_next m) _ H0). lia.
  - destruct m; reflexivity.
Qed.

Lemma do_aligns_wf l : forall m m', wf_tree m -> do_aligns m l = Ok m' -> wf_tree m' /\ core m' = core m.
Proof.
  induction l as [|a l IH]; cbn [do_aligns]; intros m m' Hm H.
  - injection H as <-. auto.
  - apply bind_ok in H as ([m1 n] & E & H).
    destruct (align_to_wf _ _ _ _ Hm E) as [H1 C1]. destruct (IH _ _ H1 H) as [H2 C2].
    split; [exact H2|congruence].
Qed.

(* ------------------------------------------------------------------ a multiplexer's map *)

Lemma add_resource_shape m id comp nm size addr al m' r :
  add_resource m id comp nm size addr al = Ok (m', r) ->
  m_aw m' = m_aw m /\ m_dw m' = m_dw m /\ m_wins m' = m_wins m /\
  exists x, m_ress m' = m_ress m ++ [x] /\ r_id x = id.
Proof.
  intros H. unfold add_resource in H.
  apply bind_ok in H as (u1 & _ & H). apply bind_ok in H as (u2 & _ & H).
  apply bind_ok in H as (u3 & _ & H). apply bind_ok in H as (n & _ & H).
  apply bind_ok in H as (av & _ & H). apply bind_ok in H as (u4 & _ & H).
  apply bind_ok in H as (al' & _ & H). apply bind_ok in H as ([s e] & _ & H).
  apply bind_ok in H as (rs & _ & H).
  destruct m as [aw dw al_ ranges ress wins names next frozen]. injection H as <- <-.
  cbn [m_aw m_dw m_wins m_ress]. repeat split. eexists. split; [reflexivity|reflexivity].
Qed.

Definition leaf_ids_ok (ops : list mop) (m : mmap) : Prop :=
  forall r, In r (m_ress m) -> exists lf, find_leaf (r_id r) ops = Some lf.

(* every register of the finished map was added by an MAdd of the list *)
Lemma mux_ops_spec ops : forall m m', wf_tree m -> m_wins m = [] -> mux_ops m ops = Ok m' ->
  wf_tree m' /\ m_wins m' = [] /\ m_aw m' = m_aw m /\ m_dw m' = m_dw m /\
  forall r, In r (m_ress m') -> In r (m_ress m) \/ exists lf, find_leaf (r_id r) ops = Some lf.
Proof.
  induction ops as [|[lf|a] ops IH]; cbn [mux_ops]; intros m m' Hm Hw H.
  - injection H as <-. repeat split; auto.
  - apply bind_ok in H as ([m1 rr] & E & H).
    destruct (add_resource_shape _ _ _ _ _ _ _ _ _ E) as (Ha & Hd & Hw1 & x & Hr & Hx).
    pose proof (wf_tree_eq m) as [Hm' _]. specialize (Hm' Hm) as [Hn HF].
    destruct (add_resource_wf _ _ _ _ _ _ _ _ _ Hn E) as [Hn1 _].
    assert (Hm1 : wf_tree m1). { apply wf_tree_eq. rewrite Hw1. split; [exact Hn1|exact HF]. }
    rewrite Hw in Hw1.
    destruct (IH _ _ Hm1 Hw1 H) as (H1 & H2 & H3 & H4 & H5).
    repeat split; auto; try congruence.
    intros r Hin. destruct (H5 r Hin) as [Hr1|(lf' & Hl)].
    + rewrite Hr in Hr1. apply in_app_or in Hr1 as [Hr1|[<-|[]]]; [left; exact Hr1|].
      right. cbn [find_leaf]. rewrite Hx, Z.eqb_refl. eauto.
    + right. cbn [find_leaf]. destruct (l_id lf =? r_id r); eauto.
  - apply bind_ok in H as ([m1 n] & E & H).
    destruct (align_to_wf _ _ _ _ Hm E) as [Hm1 C]. apply core_fields in C as (Ca & Cd & _ & _ & Cr & Cw).
    rewrite <- Cw in Hw. destruct (IH _ _ Hm1 Hw H) as (H1 & H2 & H3 & H4 & H5).
    repeat split; auto; try congruence.
    intros r Hin. destruct (H5 r Hin) as [Hr1|Hl]; [left; congruence|right].
    cbn [find_leaf]. exact Hl.
Qed.

Lemma new_map_fields aw dw al m : new_map (VInt aw) (VInt dw) (VInt al) = Ok m ->
  m_aw m = aw /\ m_dw m = dw /\ m_al m = al /\ m_ranges m = [] /\ m_ress m = [] /\ m_wins m = [] /\
  0 < aw /\ 0 < dw.
Proof.
  unfold new_map. intros H.
  apply bind_ok in H as (u1 & Hc1 & H). apply check_ok in Hc1.
  apply bind_ok in H as (u2 & Hc2 & H). apply check_ok in Hc2.
  apply bind_ok in H as (u3 & Hc3 & H). injection H as <-. cbn in *. repeat split; lia.
Qed.

Lemma mux_map_spec aw dw al ops m : mux_map aw dw al ops = Ok m ->
  wf_tree m /\ m_wins m = [] /\ m_aw m = aw /\ m_dw m = dw /\ 0 < aw /\ 0 < dw /\ leaf_ids_ok ops m.
Proof.
  unfold mux_map. intros H. apply bind_ok in H as (m0 & E0 & H).
  pose proof (new_map_wf _ _ _ _ E0) as H0.
  destruct (new_map_fields _ _ _ _ E0) as (Fa & Fd & _ & _ & Fr & Fw & Pa & Pd).
  destruct (mux_ops_spec _ _ _ H0 Fw H) as (H1 & H2 & H3 & H4 & H5).
  repeat split; auto; try congruence.
  intros r Hin. destruct (H5 r Hin) as [Hr|Hl]; [rewrite Fr in Hr; contradiction|exact Hl].
Qed.

(* ------------------------------------------------------------------ a decoder's map *)

(* what one add_window() leaves behind, in the detail the hierarchy theorems need *)
Lemma add_window_shape m wid w nm addr sparse m' r :
  wf_node m -> wf_node w -> add_window m wid w nm addr sparse = Ok (m', r) ->
  m_aw m' = m_aw m /\ m_dw m' = m_dw m /\ m_al m' = m_al m /\ m_ress m' = m_ress m /\
  exists wn, m_wins m' = m_wins m ++ [(wn, set_frozen w)] /\ w_id wn = wid /\
    w_step wn = (if match sparse with Some true => true | _ => false end then 1 else m_dw m / m_dw w) /\
    (sparse = None -> m_dw w = m_dw m) /\
    (addr = VNone -> w_start wn mod 2 ^ (m_aw w / w_step wn) = 0) /\
    (forall z, addr = VInt z -> w_start wn = z) /\ addr <> VBad.
Proof.
  intros Hwf Hwfw H. unfold add_window in H.
  apply bind_ok in H as (u1 & Hc1 & H).
  apply bind_ok in H as (u2 & Hc2 & H).
  apply bind_ok in H as (u3 & Hc3 & H). apply check_ok in Hc3.
  apply bind_ok in H as (u4 & Hc4 & H).
  apply bind_ok in H as (n & Hn & H).
  apply bind_ok in H as (av & Hav & H).
  apply bind_ok in H as (u5 & Hc5 & H).
  apply bind_ok in H as (u6 & Hc6 & H).
  apply bind_ok in H as (u7 & Hc7 & H).
  apply bind_ok in H as ([s e] & Hcar & H).
  apply bind_ok in H as (rs & Hins & H).
  set (sp := match sparse with Some true => true | _ => false end) in *.
  set (ratio := if negb sp then m_dw m / m_dw w else 1) in *.
  pose proof Hwf as (Haw & Hdw & Hal0 & Hnx & _).
  pose proof Hwfw as (Haww & Hdww & _).
  assert (Hratio : 1 <= ratio).
  { unfold ratio. destruct (negb sp); [|lia].
    assert (0 < m_dw m / m_dw w) by (apply Z.div_str_pos; lia). lia. }
  destruct m as [aw dw al_ ranges ress wins names next frozen].
  injection H as <- <-. cbn [m_aw m_dw m_al m_ress m_wins] in *.
  repeat split. eexists. split; [reflexivity|]. cbn [w_id w_step w_start].
  split; [reflexivity|]. split; [unfold ratio; destruct sp; reflexivity|].
  split; [|split; [|split]].
  - intros ->. destruct (negb (m_dw w =? dw)) eqn:E.
    + apply bind_ok in Hc4 as (u8 & Hc8 & _). apply check_ok in Hc8. discriminate.
    + apply negb_false_iff, Z.eqb_eq in E. exact E.
  - intros ->. unfold compute_addr_range in Hcar. cbn [bind] in Hcar.
    apply bind_ok in Hcar as (u9 & _ & Hcar). apply bind_ok in Hcar as (u10 & _ & Hcar).
    cbn [m_ranges m_aw m_next] in Hcar.
    destruct (rm_overlaps _ _ _) in Hcar; [|discriminate]. injection Hcar as <- _.
    apply (mod_pow2_le _ (Z.max al_ (m_aw w / ratio))).
    + split; [apply Z.div_pos; lia|lia].
    + apply align_up_mod. lia.
  - intros z ->. unfold compute_addr_range in Hcar.
    apply bind_ok in Hcar as (a & Ha & Hcar).
    apply bind_ok in Ha as (u9 & _ & Ha). apply bind_ok in Ha as (u10 & _ & Ha). injection Ha as <-.
    apply bind_ok in Hcar as (u11 & _ & Hcar). apply bind_ok in Hcar as (u12 & _ & Hcar).
    destruct (rm_overlaps _ _ _) in Hcar; [|discriminate]. injection Hcar as <- _. reflexivity.
  - intros ->. unfold compute_addr_range in Hcar. cbn in Hcar. discriminate.
Qed.

(* the children of a decoder: options, sparse flag, the child's own map *)
Definition kidmaps := list (wopt * option bool * mmap).

(* domain of C01 for one add(): an explicit address is a multiple of the window size *)
Definition opt_ok (o : wopt) (w : mmap) : Prop :=
  forall z, o_addr o = VInt z -> z mod 2 ^ m_aw w = 0.

(* window number j of the decoder is child number j, ratio 1, aligned to its size *)
Definition win_is (wn : winent) (c : mmap) (k : Z) (w : mmap) : Prop :=
  c = set_frozen w /\ w_id wn = k /\ w_step wn = 1 /\ w_start wn mod 2 ^ m_aw w = 0.

Lemma add_windows_spec (kids : kidmaps) : forall m k m',
  wf_tree m -> Forall (fun x => wf_tree (snd x)) kids ->
  Forall (fun x => opt_ok (fst (fst x)) (snd x)) kids ->
  Forall (fun x => snd (fst x) <> Some false \/ m_dw (snd x) = m_dw m) kids ->
  add_windows m k kids = Ok m' ->
  wf_tree m' /\ m_aw m' = m_aw m /\ m_dw m' = m_dw m /\ m_ress m' = m_ress m /\
  exists wins', m_wins m' = m_wins m ++ wins' /\ length wins' = length kids /\
    forall j wn c o sp w, nth_error wins' j = Some (wn, c) -> nth_error kids j = Some (o, sp, w) ->
                          win_is wn c (k + Z.of_nat j) w.
Proof.
  induction kids as [|[[o sp] w] kids IH]; cbn [add_windows]; intros m k m' Hm Hk Ho Hd H.
  - injection H as <-. repeat split; auto. exists []. rewrite app_nil_r. split; [reflexivity|]. split; [reflexivity|].
    intros j wn c o sp w Hj. destruct j; discriminate.
  - apply bind_ok in H as (m1 & E1 & H). apply bind_ok in H as ([m2 rr] & E2 & H).
    inversion Hk as [|? ? Hw Hk']; subst. inversion Ho as [|? ? Ho1 Ho']; subst.
    inversion Hd as [|? ? Hd1 Hd']; subst. cbn [fst snd] in *.
    destruct (do_aligns_wf _ _ _ Hm E1) as [Hm1 C1].
    apply core_fields in C1 as (Ca & Cd & Cl & Cr & Cs & Cw).
    pose proof (wf_tree_eq m1) as [Hm1' _]. specialize (Hm1' Hm1) as [Hn1 HF1].
    pose proof (wf_tree_node _ Hw) as Hnw.
    destruct (add_window_wf _ _ _ _ _ _ _ _ Hn1 Hnw E2) as [Hn2 _].
    destruct (add_window_shape _ _ _ _ _ _ _ _ Hn1 Hnw E2)
      as (Ha2 & Hd2 & Hl2 & Hr2 & wn & Hw2 & Hid & Hstep & Hsp & Himp & Hexp & Hnb).
    assert (Hm2 : wf_tree m2).
    { apply wf_tree_eq. rewrite Hw2. split; [exact Hn2|]. apply Forall_app. split; [exact HF1|].
      constructor; [|constructor]. cbn [snd]. apply wf_set_frozen. exact Hw. }
    assert (Hd'' : Forall (fun x => snd (fst x) <> Some false \/ m_dw (snd x) = m_dw m2) kids).
    { rewrite Hd2, Cd. exact Hd'. }
    destruct (IH _ _ _ Hm2 Hk' Ho' Hd'' H) as (H1 & H2 & H3 & H4 & wins' & H5 & H6 & H7).
    repeat split; auto; try congruence.
    exists ((wn, set_frozen w) :: wins'). split; [|split].
    + rewrite H5, Hw2, Cw, <- app_assoc. reflexivity.
    + cbn [length]. congruence.
    + intros j wn0 c0 o0 sp0 w0 Hj Hkj. destruct j as [|j]; cbn [nth_error] in Hj, Hkj.
      * injection Hj as <- <-. injection Hkj as <- <- <-.
        assert (Hs1 : w_step wn = 1).
        { rewrite Hstep. pose proof Hnw as (_ & Hdwpos & _).
          destruct sp as [[|]|]; [reflexivity| |].
          - destruct Hd1 as [Hd1|Hd1]; [congruence|]. rewrite Cd, Hd1. apply Z.div_same. lia.
          - rewrite (Hsp eq_refl). apply Z.div_same. rewrite <- (Hsp eq_refl). lia. }
        unfold win_is. rewrite Z.add_0_r. repeat split; auto.
        destruct (o_addr o) as [z| |] eqn:Eo.
        -- rewrite (Hexp z eq_refl). apply Ho1. exact Eo.
        -- pose proof (Himp eq_refl) as Hi. rewrite Hs1, Z.div_1_r in Hi. exact Hi.
        -- exfalso. exact (Hnb eq_refl).
      * replace (k + Z.of_nat (S j)) with (k + 1 + Z.of_nat j) by lia. eapply H7; eauto.
Qed.
