(* Facts about the vocabulary of Lib/BusRep.v used by Gen/TieDecArb.v (compiled once with the framework, so that
   the tie file itself stays small): validating loops under permutation of the iteration order, exact_log2 on
   powers of two, dict_store on a fresh key. *)
From Coq Require Import String ZArith List Bool Lia Permutation.
From Soc Require Import Lib.Bits Lib.Res Lib.BusRep.
From Soc Require Model.WbCsrBridge Proofs.WbCsrBridge.
Import ListNotations.
Open Scope Z_scope.

Definition is_ok {A} (r : res A) : bool := match r with Ok _ => true | Err _ => false end.

(* a loop whose body, on every item, either passes (Ok true) or raises one and the same exception *)
Lemma loop_each_check : forall X (body : X -> res bool) e l,
  Forall (fun x => body x = Ok true \/ body x = Err e) l ->
  loop_each body l = if forallb (fun x => is_ok (body x)) l then Ok tt else Err e.
Proof.
  intros X body e l H. induction H as [|x l Hx _ IH]; [reflexivity|].
  cbn [loop_each forallb]. destruct Hx as [Hx|Hx]; rewrite Hx; cbn [is_ok andb]; [exact IH|reflexivity].
Qed.

Lemma forallb_perm : forall X (f : X -> bool) l l', Permutation l l' -> forallb f l = forallb f l'.
Proof.
  intros X f l l' P. induction P as [|x l l' _ IH|x y l|l l' l'' _ IH1 _ IH2]; cbn [forallb].
  - reflexivity.
  - rewrite IH. reflexivity.
  - destruct (f x), (f y); reflexivity.
  - congruence.
Qed.

(* ... does the same whatever the order in which a Python set hands out its elements *)
Lemma loop_each_perm : forall X (body : X -> res bool) e l l',
  Permutation l l' ->
  Forall (fun x => body x = Ok true \/ body x = Err e) l' ->
  loop_each body l = loop_each body l'.
Proof.
  intros X body e l l' P H.
  rewrite (loop_each_check X body e l').
  2: exact H.
  rewrite (loop_each_check X body e l).
  - rewrite (forallb_perm X _ l l' P). reflexivity.
  - rewrite Forall_forall in *. intros x Hx. apply H. eapply Permutation_in; eassumption.
Qed.

Lemma py_exact_log2_pow2 k : 0 <= k -> py_exact_log2 (2 ^ k) = Ok k.
Proof.
  intros Hk. pose proof (Proofs.WbCsrBridge.exact_log2_pow2 k Hk) as H. unfold Model.WbCsrBridge.exact_log2 in H. unfold py_exact_log2.
  destruct ((2 ^ k <=? 0) || negb (Z.land (2 ^ k) (2 ^ k - 1) =? 0)); [discriminate|].
  injection H as H. change (py_bit_length (2 ^ k - 1)) with (Model.WbCsrBridge.bit_length (2 ^ k - 1)). rewrite H. reflexivity.
Qed.

Lemma dict_store_fresh : forall V k (v : V) d,
  existsb (fun p => fst p =? k) d = false -> dict_store k v d = d ++ [(k, v)].
Proof.
  induction d as [|[k' v'] d IH]; cbn [dict_store existsb app fst]; [reflexivity|].
  destruct (k' =? k); cbn [orb]; [discriminate|]. intros H. rewrite IH by exact H. reflexivity.
Qed.
