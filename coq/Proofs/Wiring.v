(* Proofs for C20 (Model/Wiring.v). *)
From Coq Require Import ZArith List Bool Lia.
From Soc Require Import Lib.Bits Model.Wiring.
Import ListNotations.
Open Scope Z_scope.

(* ================================================================ equality of signatures *)

Lemma access_eqb_eq a b : access_eqb a b = true <-> a = b.
Proof. destruct a, b; simpl; split; intro H; try reflexivity; discriminate H. Qed.

Lemma faccess_eqb_eq a b : faccess_eqb a b = true <-> a = b.
Proof. destruct a, b; simpl; split; intro H; try reflexivity; discriminate H. Qed.

Lemma trigger_eqb_eq a b : trigger_eqb a b = true <-> a = b.
Proof. destruct a, b; simpl; split; intro H; try reflexivity; discriminate H. Qed.

Lemma features_eqb_eq a b : features_eqb a b = true <-> a = b.
Proof.
  destruct a as [a1 a2 a3 a4 a5 a6], b as [b1 b2 b3 b4 b5 b6]. unfold features_eqb. simpl.
  rewrite !andb_true_iff, !Bool.eqb_true_iff. split.
  - intros [[[[[H1 H2] H3] H4] H5] H6]. subst. reflexivity.
  - intro H. injection H as H1 H2 H3 H4 H5 H6. subst. tauto.
Qed.

Theorem sig_eqb_iff_params_equal a b : sig_eqb a b = true <-> a = b.
Proof.
  destruct a as [p|p|p|p|t|], b as [q|q|q|q|u|]; simpl;
    try (split; intro H; discriminate H).
  - destruct p as [a1 d1], q as [a2 d2]. simpl. rewrite andb_true_iff, !Z.eqb_eq. split.
    + intros [H1 H2]. subst. reflexivity.
    + intro H. injection H as H1 H2. auto.
  - destruct p as [w1 a1], q as [w2 a2]. simpl. rewrite andb_true_iff, Z.eqb_eq, access_eqb_eq. split.
    + intros [H1 H2]. subst. reflexivity.
    + intro H. injection H as H1 H2. auto.
  - destruct p as [w1 s1 a1], q as [w2 s2 a2]. simpl.
    rewrite !andb_true_iff, Z.eqb_eq, Bool.eqb_true_iff, faccess_eqb_eq. split.
    + intros [[H1 H2] H3]. subst. reflexivity.
    + intro H. injection H as H1 H2 H3. auto.
  - destruct p as [a1 d1 g1 f1], q as [a2 d2 g2 f2]. simpl.
    rewrite !andb_true_iff, !Z.eqb_eq, features_eqb_eq. split.
    + intros [[[H1 H2] H3] H4]. subst. reflexivity.
    + intro H. injection H as H1 H2 H3 H4. auto.
  - rewrite trigger_eqb_eq. split.
    + intro H. subst. reflexivity.
    + intro H. injection H as H. exact H.
  - split; reflexivity.
Qed.

Lemma sig_eqb_refl s : sig_eqb s s = true.
Proof. apply sig_eqb_iff_params_equal. reflexivity. Qed.

Lemma sig_eqb_sym a b : sig_eqb a b = sig_eqb b a.
Proof.
  destruct (sig_eqb a b) eqn:E1, (sig_eqb b a) eqn:E2; try reflexivity.
  - apply sig_eqb_iff_params_equal in E1. subst. rewrite sig_eqb_refl in E2. discriminate E2.
  - apply sig_eqb_iff_params_equal in E2. subst. rewrite sig_eqb_refl in E1. discriminate E1.
Qed.

(* == never looks at a flip *)
Lemma sigv_eqb_ignores_flip a b :
  sigv_eqb a (flip b) = sigv_eqb a b /\ sigv_eqb (flip a) b = sigv_eqb a b /\
  sigv_eqb (flip a) (flip b) = sigv_eqb a b.
Proof. destruct a, b. unfold sigv_eqb, flip. simpl. auto. Qed.

(* ================================================================ create() round trip *)

Lemma create_same args s : construct args = Ok s -> create s = Ok s.
Proof.
  destruct args as [aw dw|w a|sl a|aw dw g f bd|t|]; simpl; intro H.
  - unfold mk_csr in H.
    destruct (aw <=? 0) eqn:E1; [discriminate H|].
    destruct (dw <=? 0) eqn:E2; [discriminate H|].
    injection H as H. subst s. cbn [create c_addr_width c_data_width]. unfold mk_csr. rewrite E1, E2. reflexivity.
  - unfold mk_elem in H.
    destruct (w <? 0) eqn:E1; [discriminate H|].
    destruct a as [a|]; [|discriminate H].
    injection H as H. subst s. cbn [create e_width e_access]. unfold mk_elem. rewrite E1. reflexivity.
  - unfold mk_field in H.
    destruct (match sl with
              | SLInt n => if n <? 0 then None else Some (n, false)
              | SLCast w s0 => Some (w, s0)
              | SLBad => None
              end) as [[w sg]|]; [|discriminate H].
    destruct a as [a|]; [|discriminate H].
    injection H as H. subst s. reflexivity.
  - unfold mk_wb in H.
    destruct (aw <? 0) eqn:E1; [discriminate H|].
    destruct (negb (wb_width_ok dw)) eqn:E2; [discriminate H|].
    destruct (negb (wb_width_ok match g with Some g0 => g0 | None => dw end)) eqn:E3; [discriminate H|].
    destruct (dw <? match g with Some g0 => g0 | None => dw end) eqn:E4; [discriminate H|].
    destruct bd; [discriminate H|].
    injection H as H. subst s.
    cbn [create w_addr_width w_data_width w_granularity w_features]. unfold mk_wb.
    rewrite E1, E2, E3, E4. reflexivity.
  - unfold mk_src in H. destruct t as [t|]; [|discriminate H].
    injection H as H. subst s. reflexivity.
  - unfold mk_pin in H. injection H as H. subst s. reflexivity.
Qed.

Theorem create_roundtrip args s :
  construct args = Ok s ->
  exists s', create s = Ok s' /\ sig_eqb s s' = true /\ sig_eqb s' s = true /\ members s' = members s.
Proof.
  intro H. exists s. split; [exact (create_same args s H)|].
  rewrite sig_eqb_refl. auto.
Qed.

(* what the constructors accept (the guards under which members / create are meaningful) *)
Lemma wb_width_ok_spec w : wb_width_ok w = true <-> w = 8 \/ w = 16 \/ w = 32 \/ w = 64.
Proof. unfold wb_width_ok. rewrite !orb_true_iff, !Z.eqb_eq. tauto. Qed.

Lemma construct_wb_accepts aw dw g f bd s :
  construct (AWb aw dw g f bd) = Ok s ->
  let g' := match g with Some x => x | None => dw end in
  0 <= aw /\ wb_width_ok dw = true /\ wb_width_ok g' = true /\ g' <= dw /\ bd = false /\
  s = SWb {| w_addr_width := aw; w_data_width := dw; w_granularity := g'; w_features := f |}.
Proof.
  simpl. unfold mk_wb. intro H.
  destruct (aw <? 0) eqn:E1; [discriminate H|].
  destruct (negb (wb_width_ok dw)) eqn:E2; [discriminate H|].
  destruct (negb (wb_width_ok match g with Some g0 => g0 | None => dw end)) eqn:E3; [discriminate H|].
  destruct (dw <? match g with Some g0 => g0 | None => dw end) eqn:E4; [discriminate H|].
  destruct bd; [discriminate H|].
  injection H as H. apply negb_false_iff in E2. apply negb_false_iff in E3.
  apply Z.ltb_ge in E1. apply Z.ltb_ge in E4. repeat split; auto.
Qed.

Lemma construct_csr_accepts aw dw s :
  construct (ACsr aw dw) = Ok s ->
  0 < aw /\ 0 < dw /\ s = SCsr {| c_addr_width := aw; c_data_width := dw |}.
Proof.
  simpl. unfold mk_csr. intro H.
  destruct (aw <=? 0) eqn:E1; [discriminate H|].
  destruct (dw <=? 0) eqn:E2; [discriminate H|].
  injection H as H. apply Z.leb_gt in E1. apply Z.leb_gt in E2. auto.
Qed.

(* ================================================================ paths *)

Lemma name_code_inj x y : name_code x = name_code y -> x = y.
Proof. destruct x, y; simpl; intro H; try reflexivity; discriminate H. Qed.

Lemma path_compare_refl a : path_compare a a = Eq.
Proof. induction a as [|x a IH]; simpl; [reflexivity|]. rewrite Z.compare_refl. exact IH. Qed.

Lemma path_compare_eq a : forall b, path_compare a b = Eq -> a = b.
Proof.
  induction a as [|x a IH]; intros [|y b] H; simpl in H; try reflexivity; try discriminate H.
  destruct (name_code x ?= name_code y) eqn:E; try discriminate H.
  apply Z.compare_eq in E. apply name_code_inj in E. subst. f_equal. apply IH. exact H.
Qed.

Lemma path_eqb_refl a : path_eqb a a = true.
Proof. unfold path_eqb. rewrite path_compare_refl. reflexivity. Qed.

Lemma path_eqb_eq a b : path_eqb a b = true <-> a = b.
Proof.
  split.
  - unfold path_eqb. destruct (path_compare a b) eqn:E; intro H; try discriminate H.
    apply path_compare_eq. exact E.
  - intro H. subst. apply path_eqb_refl.
Qed.

(* member lookup by name, as `sig.members[name]` *)
Definition lookup (n : mname) (l : list member) : option member :=
  find (fun m => path_eqb (m_path m) [n]) l.

Fixpoint nodup_pathsb (l : list path) : bool :=
  match l with
  | [] => true
  | x :: l' => negb (existsb (path_eqb x) l') && nodup_pathsb l'
  end.

Lemma nodup_pathsb_sound l : nodup_pathsb l = true -> NoDup l.
Proof.
  induction l as [|x l IH]; simpl; intro H; [constructor|].
  apply andb_true_iff in H. destruct H as [H1 H2]. constructor; [|apply IH; exact H2].
  intro Hin. apply negb_true_iff in H1.
  assert (E : existsb (path_eqb x) l = true).
  { apply existsb_exists. exists x. split; [exact Hin|apply path_eqb_refl]. }
  rewrite E in H1. discriminate H1.
Qed.

(* ================================================================ members follow the parameters *)

Theorem member_names_unique s : NoDup (map m_path (members s)).
Proof.
  apply nodup_pathsb_sound.
  destruct s as [p|p|p|p|t|].
  - reflexivity.
  - destruct p as [w a]. destruct a; reflexivity.
  - reflexivity.
  - destruct p as [aw dw g f]. destruct f as [b1 b2 b3 b4 b5 b6].
    destruct b1, b2, b3, b4, b5, b6; reflexivity.
  - reflexivity.
  - reflexivity.
Qed.

Definition b2n (b : bool) : nat := if b then 1%nat else 0%nat.
Definition feature_count (f : features) : nat :=
  (b2n (ft_err f) + b2n (ft_rty f) + b2n (ft_stall f) + b2n (ft_lock f) + b2n (ft_cti f) + b2n (ft_bte f))%nat.

Lemma wb_member_count p : length (members (SWb p)) = (8 + feature_count (w_features p))%nat.
Proof.
  destruct p as [aw dw g f]. destruct f as [b1 b2 b3 b4 b5 b6].
  destruct b1, b2, b3, b4, b5, b6; reflexivity.
Qed.

Lemma csr_members p n :
  lookup n (members (SCsr p)) =
  match n with
  | Naddr => Some (mem Naddr FOut (c_addr_width p))
  | Nr_data => Some (mem Nr_data FIn (c_data_width p))
  | Nr_stb => Some (mem Nr_stb FOut 1)
  | Nw_data => Some (mem Nw_data FOut (c_data_width p))
  | Nw_stb => Some (mem Nw_stb FOut 1)
  | _ => None
  end.
Proof. destruct n; reflexivity. Qed.

Lemma elem_members p n :
  lookup n (members (SElem p)) =
  match n with
  | Nr_data => if readable (e_access p) then Some (mem Nr_data FIn (e_width p)) else None
  | Nr_stb => if readable (e_access p) then Some (mem Nr_stb FOut 1) else None
  | Nw_data => if writable (e_access p) then Some (mem Nw_data FOut (e_width p)) else None
  | Nw_stb => if writable (e_access p) then Some (mem Nw_stb FOut 1) else None
  | _ => None
  end.
Proof. destruct p as [w a]. destruct a, n; reflexivity. Qed.

Lemma field_members p n :
  lookup n (members (SField p)) =
  match n with
  | Nr_data => Some (mem_s Nr_data FIn (fp_width p) (fp_signed p))
  | Nr_stb => Some (mem Nr_stb FOut 1)
  | Nw_data => Some (mem_s Nw_data FOut (fp_width p) (fp_signed p))
  | Nw_stb => Some (mem Nw_stb FOut 1)
  | _ => None
  end.
Proof. destruct n; reflexivity. Qed.

Lemma wb_members p n :
  lookup n (members (SWb p)) =
  let f := w_features p in
  match n with
  | Nadr => Some (mem Nadr FOut (w_addr_width p))
  | Ndat_w => Some (mem Ndat_w FOut (w_data_width p))
  | Ndat_r => Some (mem Ndat_r FIn (w_data_width p))
  | Nsel => Some (mem Nsel FOut (w_data_width p / w_granularity p))
  | Ncyc => Some (mem Ncyc FOut 1)
  | Nstb => Some (mem Nstb FOut 1)
  | Nwe => Some (mem Nwe FOut 1)
  | Nack => Some (mem Nack FIn 1)
  | Nerr => if ft_err f then Some (mem Nerr FIn 1) else None
  | Nrty => if ft_rty f then Some (mem Nrty FIn 1) else None
  | Nstall => if ft_stall f then Some (mem Nstall FIn 1) else None
  | Nlock => if ft_lock f then Some (mem Nlock FOut 1) else None
  | Ncti => if ft_cti f then Some (mem Ncti FOut 3) else None
  | Nbte => if ft_bte f then Some (mem Nbte FOut 2) else None
  | _ => None
  end.
Proof.
  destruct p as [aw dw g f]. destruct f as [b1 b2 b3 b4 b5 b6].
  destruct b1, b2, b3, b4, b5, b6; destruct n; reflexivity.
Qed.

Lemma src_members t n :
  lookup n (members (SSrc t)) =
  match n with Ni => Some (mem Ni FOut 1) | Ntrg => Some (mem Ntrg FIn 1) | _ => None end.
Proof. destruct n; reflexivity. Qed.

Lemma pin_members n :
  lookup n (members SPin) =
  match n with Ni => Some (mem Ni FIn 1) | No => Some (mem No FOut 1) | Noe => Some (mem Noe FOut 1) | _ => None end.
Proof. destruct n; reflexivity. Qed.

(* the select width is a positive number of granules for every accepted wishbone signature
   (no theorem above relies on the totalised x / 0) *)
Lemma wb_sel_width aw dw g f bd s :
  construct (AWb aw dw g f bd) = Ok s ->
  exists p, s = SWb p /\ 0 < w_granularity p /\ 1 <= w_data_width p / w_granularity p /\
            w_data_width p = (w_data_width p / w_granularity p) * w_granularity p.
Proof.
  intro H. apply construct_wb_accepts in H. cbv zeta in H.
  destruct H as (_ & Hd & Hg & Hle & _ & Hs). eexists. split; [exact Hs|]. simpl.
  apply wb_width_ok_spec in Hd. apply wb_width_ok_spec in Hg.
  destruct Hd as [Hd|[Hd|[Hd|Hd]]], Hg as [Hg|[Hg|[Hg|Hg]]]; rewrite Hd, Hg in *; try lia;
    (split; [lia|]); vm_compute; split; (discriminate || reflexivity).
Qed.

(* ================================================================ flips and connect() *)

Lemma flip_flow_invol f : flip_flow (flip_flow f) = f.
Proof. destruct f; reflexivity. Qed.

Lemma flip_members_invol l : flip_members (flip_members l) = l.
Proof.
  induction l as [|x l IH]; simpl; [reflexivity|]. rewrite IH. f_equal.
  destruct x as [p f w s]. unfold flip_member. simpl. rewrite flip_flow_invol. reflexivity.
Qed.

Lemma connectable_flip l : connectable l (flip_members l).
Proof.
  induction l as [|x l IH]; simpl; constructor; [|exact IH].
  unfold complementary, flip_member. simpl. rewrite flip_flow_invol. auto.
Qed.

Lemma connectable_flip' l : connectable (flip_members l) l.
Proof.
  induction l as [|x l IH]; simpl; constructor; [|exact IH].
  unfold complementary, flip_member. simpl. auto.
Qed.

(* sorting two complementary lists moves their members in step *)
Lemma insert_complementary x y a b :
  complementary x y -> Forall2 complementary a b -> Forall2 complementary (insert x a) (insert y b).
Proof.
  intros Hxy H. induction H as [|u v a b Huv H IH]; simpl.
  - constructor; [exact Hxy|constructor].
  - destruct Hxy as (Hp & Hrest). destruct Huv as (Hq & Hrest').
    rewrite <- Hp, <- Hq.
    destruct (path_leb (m_path x) (m_path u)).
    + constructor; [split; assumption|]. constructor; [split; assumption|exact H].
    + constructor; [split; assumption|]. apply IH.
Qed.

Lemma sort_complementary a b :
  Forall2 complementary a b -> Forall2 complementary (sort a) (sort b).
Proof.
  intro H. induction H as [|x y a b Hxy H IH]; simpl; [constructor|].
  apply insert_complementary; assumption.
Qed.

Lemma walk_complementary a b :
  Forall2 complementary a b -> forall ai ao, (ai = true -> ao = true) -> walk a b ai ao = ConnOk.
Proof.
  intro H. induction H as [|x y a b Hxy H IH]; intros ai ao Himp; simpl.
  - destruct ai; [rewrite (Himp eq_refl)|]; reflexivity.
  - destruct Hxy as (Hp & Hw & _ & Hf).
    rewrite Hp, path_eqb_refl, Hw, Z.eqb_refl. simpl.
    rewrite Hf. destruct (m_flow y); simpl; apply IH; auto.
Qed.

(* connectable interfaces pass every check connect() makes *)
Theorem connectable_connects a b : connectable a b -> connect_check a b = ConnOk.
Proof.
  intro H. unfold connect_check. apply walk_complementary.
  - apply sort_complementary. exact H.
  - intro H0. discriminate H0.
Qed.

Lemma insert_in m x l : In m (insert x l) <-> m = x \/ In m l.
Proof.
  induction l as [|y l IH]; simpl.
  - split; intros [H|H]; auto.
  - destruct (path_leb (m_path x) (m_path y)); simpl.
    + split; intros [H|H]; auto.
    + rewrite IH. split; intros [H|[H|H]]; auto.
Qed.

Lemma sort_in m l : In m (sort l) <-> In m l.
Proof.
  induction l as [|x l IH]; simpl; [tauto|].
  rewrite insert_in, IH. split; intros [H|H]; auto.
Qed.

Lemma walk_self l : forall ai ao,
  (exists m, In m l /\ m_flow m = FOut) -> walk l l ai ao = ConnSeveralOut.
Proof.
  induction l as [|x l IH]; intros ai ao [m [Hin Hm]]; [destruct Hin|].
  simpl. rewrite path_eqb_refl, Z.eqb_refl. simpl.
  destruct (m_flow x) eqn:Ex; [|reflexivity].
  apply IH. exists m. split; [|exact Hm].
  destruct Hin as [Hin|Hin]; [|exact Hin]. subst. rewrite Hm in Ex. discriminate Ex.
Qed.

(* two copies of the same interface (both initiator-shaped, or both target-shaped): two drivers *)
Lemma connect_self l :
  (exists m, In m l /\ m_flow m = FOut) -> connect_check l l = ConnSeveralOut.
Proof.
  intros [m [Hin Hm]]. unfold connect_check. apply walk_self.
  exists m. split; [apply sort_in; exact Hin|exact Hm].
Qed.

Lemma members_have_output s : exists m, In m (members s) /\ m_flow m = FOut.
Proof.
  destruct s as [p|p|p|p|t|].
  - eexists. split; [left; reflexivity|reflexivity].
  - destruct p as [w a]. destruct a.
    + eexists. split; [right; left; reflexivity|reflexivity].
    + eexists. split; [left; reflexivity|reflexivity].
    + eexists. split; [right; left; reflexivity|reflexivity].
  - eexists. split; [right; left; reflexivity|reflexivity].
  - eexists. split; [left; reflexivity|reflexivity].
  - eexists. split; [left; reflexivity|reflexivity].
  - eexists. split; [right; left; reflexivity|reflexivity].
Qed.

Lemma not_connectable_self l : l <> [] -> ~ connectable l l.
Proof.
  intros Hne H. destruct l as [|x l]; [apply Hne; reflexivity|].
  inversion H as [|? ? ? ? Hxx _]; subst. destruct Hxx as (_ & _ & _ & Hf).
  destruct (m_flow x); discriminate Hf.
Qed.

Lemma members_nonempty s : members s <> [].
Proof.
  destruct (members_have_output s) as [m [Hin _]]. intro E. rewrite E in Hin. destruct Hin.
Qed.

(* ================================================================ ports *)

Lemma outside_IN s : as_seen_outside (IN (base s)) = flip_members (members s).
Proof. reflexivity. Qed.

Lemma outside_OUT s : as_seen_outside (OUT (base s)) = members s.
Proof. reflexivity. Qed.

(* In(<signature of an In port>): flipped twice, so the port looks like an initiator *)
Theorem double_flip_is_initiator s :
  let inner := IN (base s) in
  as_seen_outside (IN (signature_of_port inner)) = members s /\
  as_seen_outside (IN (flip (signature_of_port inner))) = flip_members (members s) /\
  ~ connectable (members s) (as_seen_outside (IN (signature_of_port inner))) /\
  connect_check (members s) (as_seen_outside (IN (signature_of_port inner))) = ConnSeveralOut /\
  connectable (members s) (as_seen_outside (IN (flip (signature_of_port inner)))).
Proof.
  cbv zeta.
  assert (E1 : as_seen_outside (IN (signature_of_port (IN (base s)))) = members s) by reflexivity.
  assert (E2 : as_seen_outside (IN (flip (signature_of_port (IN (base s))))) = flip_members (members s))
    by reflexivity.
  rewrite E1, E2. repeat split.
  - apply not_connectable_self. apply members_nonempty.
  - apply connect_self. apply members_have_output.
  - apply connectable_flip.
Qed.

(* A port that is well-declared for its role: the declared signature is an unflipped standard
   signature; wired to the complementary standard interface every member meets its mirror image. *)
Definition well_declared (p : port) : Prop :=
  fst (p_sig p) = false /\
  match p_flow p with
  | FIn => connectable (members (snd (p_sig p))) (as_seen_outside p)
  | FOut => connectable (as_seen_outside p) (flip_members (members (snd (p_sig p))))
  end.

Lemma well_declared_IN s : well_declared (IN (base s)).
Proof. split; [reflexivity|]. simpl. rewrite outside_IN. apply connectable_flip. Qed.

Lemma well_declared_OUT s : well_declared (OUT (base s)).
Proof. split; [reflexivity|]. simpl. rewrite outside_OUT. apply connectable_flip. Qed.

Lemma well_declared_connects p :
  well_declared p ->
  match p_flow p with
  | FIn => connect_check (members (snd (p_sig p))) (as_seen_outside p) = ConnOk
  | FOut => connect_check (as_seen_outside p) (flip_members (members (snd (p_sig p)))) = ConnOk
  end.
Proof. intros [_ H]. destruct (p_flow p); apply connectable_connects; exact H. Qed.

(* ---- what each constructor declares, when it accepts ---- *)

Lemma bind_ok {X Y} (r : res X) (k : X -> res Y) y :
  bind r k = Ok y -> exists x, r = Ok x /\ k x = Ok y.
Proof. destruct r as [x|e]; simpl; intro H; [exists x; auto|discriminate H]. Qed.

Lemma mk_csr_ok aw dw s :
  mk_csr aw dw = Ok s -> s = SCsr {| c_addr_width := aw; c_data_width := dw |}.
Proof. intro H. apply (construct_csr_accepts aw dw s) in H. tauto. Qed.

Lemma mk_wb_ok aw dw g f bd s :
  mk_wb aw dw g f bd = Ok s ->
  s = SWb {| w_addr_width := aw; w_data_width := dw;
             w_granularity := match g with Some x => x | None => dw end; w_features := f |}.
Proof. intro H. apply (construct_wb_accepts aw dw g f bd s) in H. cbv zeta in H. tauto. Qed.

Lemma mux_bus_ok aw dw p :
  mux_bus aw dw = Ok p -> p = IN (base (SCsr {| c_addr_width := aw; c_data_width := dw |})).
Proof.
  unfold mux_bus. intro H. apply bind_ok in H. destruct H as (s & Hs & H).
  apply mk_csr_ok in Hs. subst. injection H as H. auto.
Qed.

Lemma csrdec_bus_ok aw dw p :
  csrdec_bus aw dw = Ok p -> p = IN (base (SCsr {| c_addr_width := aw; c_data_width := dw |})).
Proof. exact (mux_bus_ok aw dw p). Qed.

Lemma bridge_bus_ok aw dw p :
  bridge_bus aw dw = Ok p -> p = IN (base (SCsr {| c_addr_width := aw; c_data_width := dw |})).
Proof.
  unfold bridge_bus. intro H. apply bind_ok in H. destruct H as (_ & _ & H).
  apply bind_ok in H. destruct H as (s & Hs & H).
  apply mk_csr_ok in Hs. subst. injection H as H. auto.
Qed.

Lemma evmon_ports_ok n dw al t ps :
  evmon_ports n dw al t = Ok ps ->
  exists t', t = Some t' /\
  ps = [ IN (flip (signature_of_port
                     (IN (base (SCsr {| c_addr_width := evmon_addr_width n dw al; c_data_width := dw |})))));
         OUT (signature_of_port (OUT (base (SSrc t')))) ].
Proof.
  unfold evmon_ports. intro H.
  destruct (dw <=? 0); [discriminate H|]. destruct (al <? 0); [discriminate H|].
  apply bind_ok in H. destruct H as (ms & Hms & H).
  apply bind_ok in H. destruct H as (mx & Hmx & H).
  apply mux_bus_ok in Hmx. subst mx.
  unfold monitor_src in Hms. apply bind_ok in Hms. destruct Hms as (s & Hs & Hms).
  unfold mk_src in Hs. destruct t as [t'|]; [|discriminate Hs].
  injection Hs as Hs. subst s. injection Hms as Hms. subst ms.
  exists t'. split; [reflexivity|]. injection H as H. auto.
Qed.

Lemma gpio_ports_ok pins aw dw ps :
  gpio_ports pins aw dw = Ok ps ->
  ps = [ IN (base (SCsr {| c_addr_width := aw; c_data_width := dw |})); OUT (base SPin) ].
Proof.
  unfold gpio_ports. intro H.
  destruct (pins <=? 0); [discriminate H|]. destruct (aw <=? 0); [discriminate H|].
  destruct (dw <=? 0); [discriminate H|]. destruct (negb (dw =? dw / 8 * 8)); [discriminate H|].
  apply bind_ok in H. destruct H as (s & Hs & H).
  apply mk_csr_ok in Hs. subst. injection H as H. auto.
Qed.

Lemma exact_log2_ok n k : exact_log2 n = Ok k -> is_pow2 n = true /\ k = Z.log2 n.
Proof. unfold exact_log2. destruct (is_pow2 n); intro H; [injection H as H; auto|discriminate H]. Qed.

Lemma wbcsr_bus_ok caw cdw dw p :
  wbcsr_bus caw cdw dw = Ok p ->
  let d := match dw with Some d => d | None => cdw end in
  is_pow2 (d / cdw) = true /\ Z.log2 (d / cdw) <= caw /\
  p = IN (base (SWb {| w_addr_width := Z.max 0 (caw - Z.log2 (d / cdw)); w_data_width := d;
                       w_granularity := cdw; w_features := no_features |})).
Proof.
  unfold wbcsr_bus. intro H. cbv zeta.
  destruct (negb (wb_width_ok cdw)); [discriminate H|].
  apply bind_ok in H. destruct H as (k & Hk & H).
  apply exact_log2_ok in Hk. destruct Hk as [Hp Hk].
  apply bind_ok in H. destruct H as (s & Hs & H).
  apply mk_wb_ok in Hs.
  destruct (negb (caw =? Z.max 1 (Z.max 0 (caw - k) + k))) eqn:E; [discriminate H|].
  apply negb_false_iff in E. apply Z.eqb_eq in E.
  injection H as H. subst. repeat split; auto. lia.
Qed.

Lemma sram_bus_ok size dw g p :
  sram_bus size dw g = Ok p ->
  let g' := match g with Some x => x | None => dw end in
  is_pow2 size = true /\ 0 < Z.log2 size /\ dw <= size * g' /\
  p = IN (base (SWb {| w_addr_width := Z.log2 (size * g' / dw); w_data_width := dw;
                       w_granularity := g'; w_features := no_features |})).
Proof.
  unfold sram_bus. intro H. cbv zeta.
  destruct (negb (is_pow2 size)) eqn:E0; [discriminate H|].
  destruct (negb (wb_width_ok dw)); [discriminate H|].
  destruct (negb (wb_width_ok match g with Some g0 => g0 | None => dw end)); [discriminate H|].
  destruct (size * match g with Some g0 => g0 | None => dw end <? dw) eqn:E3; [discriminate H|].
  apply bind_ok in H. destruct H as (k & Hk & H). apply exact_log2_ok in Hk. destruct Hk as [_ Hk].
  apply bind_ok in H. destruct H as (s & Hs & H). apply mk_wb_ok in Hs.
  apply bind_ok in H. destruct H as (ks & Hks & H). apply exact_log2_ok in Hks. destruct Hks as [_ Hks].
  destruct (ks <=? 0) eqn:E4; [discriminate H|].
  injection H as H. apply negb_false_iff in E0. apply Z.ltb_ge in E3. apply Z.leb_gt in E4.
  subst. repeat split; auto.
Qed.

Lemma wbdec_bus_ok aw dw g f bd p :
  wbdec_bus aw dw g f bd = Ok p ->
  p = IN (base (SWb {| w_addr_width := aw; w_data_width := dw;
                       w_granularity := match g with Some x => x | None => dw end; w_features := f |})).
Proof.
  unfold wbdec_bus. intro H. apply bind_ok in H. destruct H as (s & Hs & H).
  apply mk_wb_ok in Hs. subst. injection H as H. auto.
Qed.

Lemma arb_bus_ok aw dw g f bd p :
  arb_bus aw dw g f bd = Ok p ->
  p = OUT (base (SWb {| w_addr_width := aw; w_data_width := dw;
                        w_granularity := match g with Some x => x | None => dw end; w_features := f |})).
Proof.
  unfold arb_bus. intro H. apply bind_ok in H. destruct H as (s & Hs & H).
  apply mk_wb_ok in Hs. subst. injection H as H. auto.
Qed.

Lemma one_ok r ps : one r = Ok ps -> exists p, r = Ok p /\ ps = [p].
Proof.
  unfold one. intro H. apply bind_ok in H. destruct H as (p & Hp & H).
  exists p. injection H as H. auto.
Qed.

(* every modelled port of every accepted component is well declared, and has the role-implied flow:
   only the arbiter's bus, the event monitor's src and the GPIO pins are outputs *)
Definition role (c : comp) (k : nat) : flow :=
  match c, k with
  | CArb _ _ _ _ _, _ => FOut
  | CEvMon _ _ _ _, S _ => FOut
  | CGpio _ _ _, S _ => FOut
  | _, _ => FIn
  end.

Theorem ports_well_declared c ps k p :
  ports c = Ok ps -> nth_error ps k = Some p -> well_declared p /\ p_flow p = role c k.
Proof.
  intros H Hk.
  destruct c as [aw dw|aw dw|aw dw|n dw al t|pins aw dw|caw cdw dw|size dw g|aw dw g f bd|aw dw g f bd];
    simpl in H.
  - apply one_ok in H. destruct H as (q & Hq & ->). apply mux_bus_ok in Hq. subst q.
    destruct k as [|[|k]]; simpl in Hk; try discriminate Hk. injection Hk as <-.
    split; [apply well_declared_IN|reflexivity].
  - apply one_ok in H. destruct H as (q & Hq & ->). apply csrdec_bus_ok in Hq. subst q.
    destruct k as [|[|k]]; simpl in Hk; try discriminate Hk. injection Hk as <-.
    split; [apply well_declared_IN|reflexivity].
  - apply one_ok in H. destruct H as (q & Hq & ->). apply bridge_bus_ok in Hq. subst q.
    destruct k as [|[|k]]; simpl in Hk; try discriminate Hk. injection Hk as <-.
    split; [apply well_declared_IN|reflexivity].
  - apply evmon_ports_ok in H. destruct H as (t' & -> & ->).
    destruct k as [|[|[|k]]]; simpl in Hk; try discriminate Hk; injection Hk as <-.
    + split; [apply (well_declared_IN (SCsr _))|reflexivity].
    + split; [apply (well_declared_OUT (SSrc t'))|reflexivity].
  - apply gpio_ports_ok in H. subst ps.
    destruct k as [|[|[|k]]]; simpl in Hk; try discriminate Hk; injection Hk as <-.
    + split; [apply well_declared_IN|reflexivity].
    + split; [apply well_declared_OUT|reflexivity].
  - apply one_ok in H. destruct H as (q & Hq & ->). apply wbcsr_bus_ok in Hq. cbv zeta in Hq.
    destruct Hq as (_ & _ & ->).
    destruct k as [|[|k]]; simpl in Hk; try discriminate Hk. injection Hk as <-.
    split; [apply well_declared_IN|reflexivity].
  - apply one_ok in H. destruct H as (q & Hq & ->). apply sram_bus_ok in Hq. cbv zeta in Hq.
    destruct Hq as (_ & _ & _ & ->).
    destruct k as [|[|k]]; simpl in Hk; try discriminate Hk. injection Hk as <-.
    split; [apply well_declared_IN|reflexivity].
  - apply one_ok in H. destruct H as (q & Hq & ->). apply wbdec_bus_ok in Hq. subst q.
    destruct k as [|[|k]]; simpl in Hk; try discriminate Hk. injection Hk as <-.
    split; [apply well_declared_IN|reflexivity].
  - apply one_ok in H. destruct H as (q & Hq & ->). apply arb_bus_ok in Hq. subst q.
    destruct k as [|[|k]]; simpl in Hk; try discriminate Hk. injection Hk as <-.
    split; [apply well_declared_OUT|reflexivity].
Qed.

(* the arbiter's output against any well-declared target port of the same signature *)
Lemma initiator_to_target s : connectable (as_seen_outside (OUT (base s))) (as_seen_outside (IN (base s))).
Proof. rewrite outside_OUT, outside_IN. apply connectable_flip. Qed.

Theorem arbiter_to_sram aw dw g f bd size pa ps :
  arb_bus aw dw (Some g) f bd = Ok pa -> sram_bus size dw (Some g) = Ok ps ->
  f = no_features -> Z.log2 (size * g / dw) = aw ->
  connectable (as_seen_outside pa) (as_seen_outside ps).
Proof.
  intros Ha Hs Hf Haw. apply arb_bus_ok in Ha. apply sram_bus_ok in Hs. cbv zeta in Hs.
  destruct Hs as (_ & _ & _ & Hs). subst. apply initiator_to_target.
Qed.

Theorem arbiter_to_decoder aw dw g f bd pa pd :
  arb_bus aw dw g f bd = Ok pa -> wbdec_bus aw dw g f bd = Ok pd ->
  connectable (as_seen_outside pa) (as_seen_outside pd).
Proof.
  intros Ha Hd. apply arb_bus_ok in Ha. apply wbdec_bus_ok in Hd. subst. apply initiator_to_target.
Qed.
