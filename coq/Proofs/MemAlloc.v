(* Memory-map allocation (C02): a per-map invariant holds in every reachable world; from it, placement
   is disjoint, in bounds, aligned and exactly reported, failed calls change nothing, frozen maps
   reject additions, and the internal assertions of _RangeMap.insert / _Namespace never fire. *)
From Coq Require Import ZArith List Bool Lia ZifyBool Arith.
From Soc Require Import Lib.Res Lib.PyList Model.MemoryMap Model.MemSpec.
From Soc Require Import Proofs.RangeMap Proofs.MemArith Proofs.MemNames.
Import ListNotations.
Open Scope Z_scope.

Local Opaque Z.pow Z.shiftl Z.div Z.modulo.

Ltac msimpl := cbn [m_aw m_dw m_al m_ranges m_ress m_wins m_names m_next m_frozen set_next set_frozen
                    e_start e_stop e_step e_asg r_id r_name r_start r_stop
                    w_id w_name w_start w_stop w_step fst snd] in *.

(* ------------------------------------------------------------------ lists *)

Lemma insert_at_split {A} n (x : A) l : exists l1 l2, l = l1 ++ l2 /\ insert_at n x l = l1 ++ x :: l2.
Proof.
  revert l; induction n as [|n IH]; intros l; cbn [insert_at].
  - exists [], l. auto.
  - destruct l as [|y l].
    + exists [], []. auto.
    + destruct (IH l) as (l1 & l2 & Hl & Hi). exists (y :: l1), l2. rewrite Hi, Hl at 1. auto.
Qed.

Lemma rm_insert_split l x rs : rm_insert l x = Ok rs ->
  exists l1 l2, l = l1 ++ l2 /\ rs = l1 ++ x :: l2.
Proof.
  unfold rm_insert. destruct (rm_overlaps _ _ _); [|discriminate].
  destruct (Nat.eqb _ _); [|discriminate]. intros H; injection H as <-. apply insert_at_split.
Qed.

Lemma set_nth_length {X} n (x : X) l : length (set_nth n x l) = length l.
Proof. revert n; induction l as [|y l IH]; intros [|n]; cbn [set_nth length]; auto. Qed.

Lemma nth_error_set_nth_eq {X} n (x : X) l : (n < length l)%nat -> nth_error (set_nth n x l) n = Some x.
Proof.
  revert n; induction l as [|y l IH]; intros [|n]; cbn [set_nth length nth_error]; intros H; try lia; auto.
  apply IH. lia.
Qed.

Lemma nth_error_set_nth_neq {X} n k (x : X) l : n <> k -> nth_error (set_nth n x l) k = nth_error l k.
Proof.
  revert n k; induction l as [|y l IH]; intros [|n] [|k]; cbn [set_nth nth_error]; intros H; auto; try congruence.
Qed.

Lemma Forall_set_nth {X} (P : X -> Prop) n x l : Forall P l -> P x -> Forall P (set_nth n x l).
Proof.
  intros Hl Hx. revert n; induction Hl as [|y l Hy Hl IH]; intros [|n]; cbn [set_nth]; auto.
Qed.

Lemma nth_error_lt {X} (l : list X) n x : nth_error l n = Some x -> (n < length l)%nat.
Proof. intros H. apply nth_error_Some. congruence. Qed.

(* ------------------------------------------------------------------ find_res / find_win *)

Lemma find_res_app id l r :
  find_res id (l ++ [r]) =
  match find_res id l with Some x => Some x | None => if r_id r =? id then Some r else None end.
Proof.
  induction l as [|y l IH]; cbn [app find_res]; [reflexivity|].
  destruct (r_id y =? id); [reflexivity|exact IH].
Qed.

Lemma has_res_find m id : has_res m id = false -> find_res id (m_ress m) = None.
Proof.
  unfold has_res. generalize (m_ress m) as l. induction l as [|y l IH]; cbn [existsb find_res]; intros H; [reflexivity|].
  apply orb_false_iff in H as (H1 & H2). rewrite H1. auto.
Qed.

Lemma find_win_app {X} id (l : list (winent * X)) wc :
  find_win id (l ++ [wc]) =
  match find_win id l with Some x => Some x | None => if w_id (fst wc) =? id then Some wc else None end.
Proof.
  induction l as [|[y c] l IH]; cbn [app find_win].
  - destruct wc as [y c]; cbn [fst]. reflexivity.
  - destruct (w_id y =? id); [reflexivity|exact IH].
Qed.

Lemma has_win_find m id : has_win m id = false -> find_win id (m_wins m) = None.
Proof.
  unfold has_win. generalize (m_wins m) as l. induction l as [|[y c] l IH]; cbn [existsb find_win]; intros H; [reflexivity|].
  apply orb_false_iff in H as (H1 & H2). rewrite H1. auto.
Qed.

(* ------------------------------------------------------------------ the invariant *)

(* one range-map entry: inside the address space, and backed by the resource / window record of the
   same identity carrying the same range *)
Definition entry_ok (aw : Z) (ress : list resent) (wins : list (winent * mmap)) (x : entry) : Prop :=
  e_stop x <= 2 ^ aw /\
  match e_asg x with
  | AR id => e_step x = 1 /\
             exists r, find_res id ress = Some r /\ r_start r = e_start x /\ r_stop r = e_stop x
  | AW id => 1 <= e_step x /\
             exists wc, find_win id wins = Some wc /\ w_start (fst wc) = e_start x /\
                        w_stop (fst wc) = e_stop x /\ w_step (fst wc) = e_step x
  end.

Record wf_map (m : mmap) : Prop := {
  wf_aw : 0 < m_aw m;
  wf_dw : 0 < m_dw m;
  wf_al : 0 <= m_al m;
  wf_chain : chain 0 (m_ranges m);
  wf_entries : forall x, In x (m_ranges m) -> entry_ok (m_aw m) (m_ress m) (m_wins m) x;
  wf_next : 0 <= m_next m /\ m_next m mod 2 ^ m_al m = 0;
  wf_names : names_ok (m_names m)
}.

Definition wf_world (w : world) : Prop := Forall wf_map w.

Lemma entry_ok_res_app aw ress wins new x :
  entry_ok aw ress wins x -> entry_ok aw (ress ++ [new]) wins x.
Proof.
  unfold entry_ok. intros (H1 & H2). split; [exact H1|].
  destruct (e_asg x) as [id|id]; [|exact H2].
  destruct H2 as (Hs & r & Hr & Hrs & Hre). split; [exact Hs|]. exists r.
  rewrite find_res_app, Hr. auto.
Qed.

Lemma entry_ok_win_app aw ress wins new x :
  entry_ok aw ress wins x -> entry_ok aw ress (wins ++ [new]) x.
Proof.
  unfold entry_ok. intros (H1 & H2). split; [exact H1|].
  destruct (e_asg x) as [id|id]; [exact H2|].
  destruct H2 as (Hs & wc & Hr & Hrest). split; [exact Hs|]. exists wc.
  rewrite find_win_app, Hr. auto.
Qed.

(* ------------------------------------------------------------------ _compute_addr_range *)

Lemma car_ok m addr size al s e :
  compute_addr_range m addr size al = Ok (s, e) ->
  exists sz, size = VInt sz /\ 0 <= sz /\ e = s + align_up (Z.max sz 1) al /\
    match addr with
    | VInt a => s = a /\ 0 <= a /\ a mod 2 ^ m_al m = 0
    | VNone => s = align_up (m_next m) al
    | VBad => False
    end /\
    s <= 2 ^ m_aw m /\ e <= 2 ^ m_aw m /\ rm_overlaps (m_ranges m) s e = [].
Proof.
  unfold compute_addr_range. intros H.
  apply bind_ok in H as (a & Ha & H).
  apply bind_ok in H as (u & Hsz & H). apply check_ok in Hsz.
  apply bind_ok in H as (u' & Hb & H). apply check_ok in Hb.
  destruct (rm_overlaps (m_ranges m) a _) eqn:Ho; [|discriminate].
  injection H as <- <-.
  destruct size as [sz| |]; cbn [nonneg] in Hsz; try discriminate.
  exists sz. cbn [zof] in *. rewrite !shiftl1 in *.
  split; [reflexivity|]. split; [lia|]. split; [reflexivity|].
  split; [|split; [lia|split; [lia|exact Ho]]].
  destruct addr as [z| |].
  - apply bind_ok in Ha as (u1 & Hc1 & Ha). apply check_ok in Hc1.
    apply bind_ok in Ha as (u2 & Hc2 & Ha). apply check_ok in Hc2.
    injection Ha as <-. cbn [nonneg zof] in *. lia.
  - injection Ha as <-. reflexivity.
  - apply bind_ok in Ha as (u1 & Hc1 & Ha). apply check_ok in Hc1. discriminate.
Qed.

Lemma car_err m addr size al e : compute_addr_range m addr size al = Err e -> e = ValueError.
Proof.
  unfold compute_addr_range. intros H.
  apply bind_err in H as [H|(a & Ha & H)].
  { destruct addr; [|discriminate|].
    - apply bind_err in H as [H|(u & _ & H)]; [eapply check_err; eauto|].
      apply bind_err in H as [H|(u' & _ & H)]; [eapply check_err; eauto|discriminate].
    - apply bind_err in H as [H|(u & _ & H)]; [eapply check_err; eauto|].
      apply bind_err in H as [H|(u' & _ & H)]; [eapply check_err; eauto|discriminate]. }
  apply bind_err in H as [H|(u & _ & H)]; [eapply check_err; eauto|].
  apply bind_err in H as [H|(u' & _ & H)]; [eapply check_err; eauto|].
  destruct (rm_overlaps _ _ _); [discriminate|]. injection H; auto.
Qed.

(* on a well-formed map a computed range is non-empty, non-negative, in bounds, ends on a multiple
   of the map's alignment and intersects no stored range *)
Lemma car_placed m addr size A s e :
  wf_map m -> m_al m <= A -> compute_addr_range m addr size A = Ok (s, e) ->
  0 <= s /\ s < e /\ e <= 2 ^ m_aw m /\ s mod 2 ^ m_al m = 0 /\ e mod 2 ^ m_al m = 0 /\
  filter (isect s e) (m_ranges m) = [].
Proof.
  intros Hwf HA H. destruct Hwf as [Haw Hdw Hal Hch Hent (Hn0 & Hnm) Hnames].
  apply car_ok in H as (sz & -> & Hsz & -> & Haddr & Hs & He & Ho).
  assert (HA0 : 0 <= A) by lia.
  pose proof (align_up_ge (Z.max sz 1) A HA0) as Hge.
  pose proof (align_up_mod (Z.max sz 1) A HA0) as Hmod.
  apply (mod_pow2_le _ A (m_al m)) in Hmod; [|lia].
  assert (Hs0 : 0 <= s /\ s mod 2 ^ m_al m = 0).
  { destruct addr as [a| |]; [destruct Haddr as (-> & ? & ?); auto| |contradiction]. subst s.
    pose proof (align_up_ge (m_next m) A HA0). split; [lia|].
    apply (mod_pow2_le _ A); [lia|]. apply align_up_mod, HA0. }
  destruct Hs0 as (Hs0 & Hsm).
  split; [exact Hs0|]. split; [lia|]. split; [exact He|]. split; [exact Hsm|].
  split; [apply add_mod0; auto; apply pow2_pos; exact Hal|].
  rewrite <- (overlaps_spec 0 _ _ _ Hch); [exact Ho|lia].
Qed.

(* ------------------------------------------------------------------ add_resource *)

Definition res_alignment (m : mmap) (al : pyint) : Z :=
  match al with VInt a => Z.max a (m_al m) | _ => m_al m end.

Lemma add_resource_inv m id comp nm size addr al m' s e :
  add_resource m id comp nm size addr al = Ok (m', (s, e)) ->
  exists n rs,
    m_frozen m = false /\ comp = true /\ has_res m id = false /\ mk_name nm = Ok n /\
    is_available (m_names m) [n] = Ok true /\
    compute_addr_range m addr size (res_alignment m al) = Ok (s, e) /\
    rm_insert (m_ranges m) {| e_start := s; e_stop := e; e_step := 1; e_asg := AR id |} = Ok rs /\
    m' = MM (m_aw m) (m_dw m) (m_al m) rs
            (m_ress m ++ [{| r_id := id; r_name := n; r_start := s; r_stop := e |}])
            (m_wins m) (m_names m ++ [n]) e (m_frozen m).
Proof.
  unfold add_resource. intros H.
  apply bind_ok in H as (u1 & Hfr & H). apply check_ok in Hfr.
  apply bind_ok in H as (u2 & Hcomp & H). apply check_ok in Hcomp.
  apply bind_ok in H as (u3 & Hhas & H). apply check_ok in Hhas.
  apply bind_ok in H as (n & Hn & H).
  apply bind_ok in H as (av & Hav & H).
  apply bind_ok in H as (u4 & Hchk & H). apply check_ok in Hchk. subst av.
  apply bind_ok in H as (A & HA & H).
  apply bind_ok in H as ([s0 e0] & Hcar & H).
  apply bind_ok in H as (rs & Hins & H).
  assert (HA' : A = res_alignment m al).
  { destruct al as [a| |]; cbn [res_alignment].
    - apply bind_ok in HA as (u5 & _ & HA). injection HA as <-. reflexivity.
    - injection HA as <-. reflexivity.
    - apply bind_ok in HA as (u5 & Hc & _). apply check_ok in Hc. discriminate. }
  subst A. destruct m as [a d l ranges ress wins names next f]. msimpl.
  injection H as <- <- <-. exists n, rs.
  repeat split; auto.
  - destruct f; [discriminate|reflexivity].
  - destruct (has_res _ id); [discriminate|reflexivity].
Qed.

Lemma res_alignment_ge m al : m_al m <= res_alignment m al.
Proof. unfold res_alignment. destruct al; lia. Qed.

(* insertion after a successful _compute_addr_range cannot fail, and says what the new list is *)
Lemma insert_after_car m addr size A s e st asg :
  wf_map m -> m_al m <= A -> compute_addr_range m addr size A = Ok (s, e) ->
  exists rs, rm_insert (m_ranges m) {| e_start := s; e_stop := e; e_step := st; e_asg := asg |} = Ok rs /\
             chain 0 rs /\
             (forall x, In x rs <-> x = {| e_start := s; e_stop := e; e_step := st; e_asg := asg |} \/ In x (m_ranges m)).
Proof.
  intros Hwf HA Hcar.
  destruct (car_placed _ _ _ _ _ _ Hwf HA Hcar) as (Hs0 & Hse & He & _ & _ & Hf).
  destruct (insert_ok 0 (m_ranges m) {| e_start := s; e_stop := e; e_step := st; e_asg := asg |})
    as (rs & Hins & Hch & Hin & _); msimpl; auto.
  - apply (wf_chain _ Hwf).
  - exists rs. auto.
Qed.

Lemma add_resource_wf m id comp nm size addr al m' s e :
  wf_map m -> add_resource m id comp nm size addr al = Ok (m', (s, e)) -> wf_map m'.
Proof.
  intros Hwf H.
  apply add_resource_inv in H as (n & rs & Hfr & Hcomp & Hhas & Hn & Hav & Hcar & Hins & ->).
  pose proof (res_alignment_ge m al) as HA.
  destruct (car_placed _ _ _ _ _ _ Hwf HA Hcar) as (Hs0 & Hse & He & Hsm & Hem & Hf).
  destruct (insert_after_car _ _ _ _ _ _ 1 (AR id) Hwf HA Hcar) as (rs' & Hins' & Hch' & Hin').
  rewrite Hins in Hins'. injection Hins' as <-.
  destruct Hwf as [Haw Hdw Hal Hch Hent Hnext Hnames].
  constructor; msimpl; auto.
  - intros x Hx. apply Hin' in Hx as [->|Hx].
    + unfold entry_ok; msimpl. split; [exact He|]. split; [reflexivity|].
      eexists. rewrite find_res_app, (has_res_find _ _ Hhas). msimpl. rewrite Z.eqb_refl.
      split; [reflexivity|]. msimpl. auto.
    + apply entry_ok_res_app. auto.
  - split; [lia|exact Hem].
  - apply is_available_true in Hav as (Hok & Hcross).
    + apply names_ok_app; auto.
      intros a r Ha [<-|[]].
      rewrite conflicts_sym; [apply Hcross; [left; reflexivity|exact Ha]| |].
      * apply (names_ok_nonempty _ Hnames). exact Ha.
      * eapply mk_name_nonempty; eauto.
    + intros q [<-|[]]. eapply mk_name_nonempty; eauto.
Qed.

Lemma add_resource_err m id comp nm size addr al e :
  wf_map m -> add_resource m id comp nm size addr al = Err e -> e = ValueError \/ e = TypeError.
Proof.
  intros Hwf. unfold add_resource. intros H.
  apply bind_err in H as [H|(u1 & _ & H)]; [apply check_err in H; auto|].
  apply bind_err in H as [H|(u2 & _ & H)]; [apply check_err in H; auto|].
  apply bind_err in H as [H|(u3 & _ & H)]; [apply check_err in H; auto|].
  apply bind_err in H as [H|(n & Hn & H)]; [apply mk_name_err in H; auto|].
  destruct (is_available_total (m_names m) [n]) as (b & Hb).
  { apply names_ok_nonempty, (wf_names _ Hwf). }
  { cbn [names_ok]. split; [eapply mk_name_nonempty; eauto|]. split; [intros r []|exact I]. }
  rewrite Hb in H. cbn [bind] in H.
  apply bind_err in H as [H|(u4 & _ & H)]; [apply check_err in H; auto|].
  apply bind_err in H as [H|(A & HA & H)].
  { destruct al; [|discriminate|].
    - apply bind_err in H as [H|(u5 & _ & H)]; [apply check_err in H; auto|discriminate].
    - apply bind_err in H as [H|(u5 & _ & H)]; [apply check_err in H; auto|discriminate]. }
  assert (HA' : m_al m <= A).
  { destruct al as [a| |].
    - apply bind_ok in HA as (u5 & _ & HA). injection HA as <-. lia.
    - injection HA as <-. lia.
    - apply bind_ok in HA as (u5 & Hc & _). apply check_ok in Hc. discriminate. }
  apply bind_err in H as [H|([s0 e0] & Hcar & H)]; [apply car_err in H; auto|].
  destruct (insert_after_car _ _ _ _ _ _ 1 (AR id) Hwf HA' Hcar) as (rs' & Hins' & _).
  rewrite Hins' in H. cbn [bind] in H. destruct m; discriminate.
Qed.

(* ------------------------------------------------------------------ add_window *)

Definition win_sparse (sparse : option bool) : bool :=
  match sparse with Some true => true | _ => false end.
Definition win_ratio (m wm : mmap) (sparse : option bool) : Z :=
  if win_sparse sparse then 1 else m_dw m / m_dw wm.
Definition win_queries (wm : mmap) (n : option name) : list name :=
  match n with None => m_names wm | Some x => [x] end.
Definition win_name_ok (nm : option rawname) (n : option name) : Prop :=
  match nm with None => n = None | Some rn => exists x, mk_name rn = Ok x /\ n = Some x end.
Definition win_alignment (m wm : mmap) (r : Z) : Z := Z.max (m_al m) (m_aw wm / r).

Lemma add_window_inv m wid wm nm addr sparse m' s e r :
  add_window m wid wm nm addr sparse = Ok (m', (s, e, r)) ->
  exists n rs,
    m_frozen m = false /\ has_win m wid = false /\ m_dw wm <= m_dw m /\
    win_name_ok nm n /\
    is_available (m_names m) (win_queries wm n) = Ok true /\
    r = win_ratio m wm sparse /\
    compute_addr_range m addr (VInt (2 ^ m_aw wm / r)) (win_alignment m wm r) = Ok (s, e) /\
    rm_insert (m_ranges m) {| e_start := s; e_stop := e; e_step := r; e_asg := AW wid |} = Ok rs /\
    m' = MM (m_aw m) (m_dw m) (m_al m) rs (m_ress m)
            (m_wins m ++ [({| w_id := wid; w_name := n; w_start := s; w_stop := e; w_step := r |},
                           set_frozen wm)])
            (m_names m ++ win_queries wm n) e (m_frozen m).
Proof.
  unfold add_window. cbv zeta. intros H.
  change (match sparse with Some true => true | _ => false end) with (win_sparse sparse) in H.
  assert (Hr : (if negb (win_sparse sparse) then m_dw m / m_dw wm else 1) = win_ratio m wm sparse).
  { unfold win_ratio. destruct (win_sparse sparse); reflexivity. }
  rewrite !Hr in H. clear Hr. rewrite !shiftl1 in H.
  set (r0 := win_ratio m wm sparse) in *.
  apply bind_ok in H as (u1 & Hfr & H). apply check_ok in Hfr.
  apply bind_ok in H as (u2 & Hhas & H). apply check_ok in Hhas.
  apply bind_ok in H as (u3 & Hdw & H). apply check_ok in Hdw.
  apply bind_ok in H as (u4 & _ & H).
  apply bind_ok in H as (n & Hn & H).
  change (match n with None => m_names wm | Some x => [x] end) with (win_queries wm n) in H.
  apply bind_ok in H as (av & Hav & H).
  apply bind_ok in H as (u5 & Hchk & H). apply check_ok in Hchk. subst av.
  apply bind_ok in H as (u6 & _ & H).
  apply bind_ok in H as (u7 & _ & H).
  apply bind_ok in H as ([s0 e0] & Hcar & H).
  apply bind_ok in H as (rs & Hins & H).
  destruct m as [a d l ranges ress wins names next f]. msimpl.
  injection H as <- <- <- <-. exists n, rs.
  repeat split; auto.
  - destruct f; [discriminate|reflexivity].
  - destruct (has_win _ wid); [discriminate|reflexivity].
  - lia.
  - unfold win_name_ok. destruct nm as [rn|].
    + apply bind_ok in Hn as (x & Hx & Hn). injection Hn as <-. eauto.
    + injection Hn as <-. reflexivity.
Qed.

Lemma win_ratio_ge1 m wm sparse : 0 < m_dw wm -> m_dw wm <= m_dw m -> 1 <= win_ratio m wm sparse.
Proof.
  intros H0 Hle. unfold win_ratio. destruct (win_sparse sparse); [lia|].
  apply Z.div_le_lower_bound; lia.
Qed.

Lemma win_alignment_ge m wm r : m_al m <= win_alignment m wm r.
Proof. unfold win_alignment. lia. Qed.

Lemma win_queries_ok wm nm n : wf_map wm -> win_name_ok nm n -> names_ok (win_queries wm n).
Proof.
  intros Hwf Hn. destruct nm as [rn|]; cbn [win_name_ok] in Hn.
  - destruct Hn as (x & Hx & ->). cbn [win_queries names_ok].
    split; [eapply mk_name_nonempty; eauto|]. split; [intros r []|exact I].
  - subst n. cbn [win_queries]. apply (wf_names _ Hwf).
Qed.

Lemma add_window_wf m wid wm nm addr sparse m' s e r :
  wf_map m -> wf_map wm -> add_window m wid wm nm addr sparse = Ok (m', (s, e, r)) -> wf_map m'.
Proof.
  intros Hwf Hwm H.
  apply add_window_inv in H as (n & rs & Hfr & Hhas & Hdwle & Hn & Hav & Hr & Hcar & Hins & ->).
  pose proof (win_alignment_ge m wm r) as HA.
  pose proof (win_ratio_ge1 m wm sparse (wf_dw _ Hwm) Hdwle) as Hr1. rewrite <- Hr in Hr1.
  destruct (car_placed _ _ _ _ _ _ Hwf HA Hcar) as (Hs0 & Hse & He & Hsm & Hem & Hf).
  destruct (insert_after_car _ _ _ _ _ _ r (AW wid) Hwf HA Hcar) as (rs' & Hins' & Hch' & Hin').
  rewrite Hins in Hins'. injection Hins' as <-.
  pose proof (win_queries_ok wm nm n Hwm Hn) as Hq.
  destruct Hwf as [Haw Hdw Hal Hch Hent Hnext Hnames].
  constructor; msimpl; auto.
  - intros x Hx. apply Hin' in Hx as [->|Hx].
    + unfold entry_ok; msimpl. split; [exact He|]. split; [exact Hr1|].
      eexists. rewrite find_win_app, (has_win_find _ _ Hhas). msimpl. rewrite Z.eqb_refl.
      split; [reflexivity|]. msimpl. auto.
    + apply entry_ok_win_app. auto.
  - split; [lia|exact Hem].
  - apply is_available_true in Hav as (Hok & Hcross); [|apply names_ok_nonempty; exact Hq].
    apply names_ok_app; auto.
    intros a q Ha Hq'.
    rewrite conflicts_sym; [apply Hcross; auto| |].
    + apply (names_ok_nonempty _ Hnames). exact Ha.
    + apply (names_ok_nonempty _ Hq). exact Hq'.
Qed.

Lemma add_window_err m wid wm nm addr sparse e :
  wf_map m -> wf_map wm -> add_window m wid wm nm addr sparse = Err e ->
  e = ValueError \/ e = TypeError.
Proof.
  intros Hwf Hwm. unfold add_window. cbv zeta. intros H.
  apply bind_err in H as [H|(u1 & _ & H)]; [apply check_err in H; auto|].
  apply bind_err in H as [H|(u2 & _ & H)]; [apply check_err in H; auto|].
  apply bind_err in H as [H|(u3 & _ & H)]; [apply check_err in H; auto|].
  apply bind_err in H as [H|(u4 & _ & H)].
  { destruct (negb (m_dw wm =? m_dw m)); [|discriminate].
    apply bind_err in H as [H|(u5 & _ & H)]; apply check_err in H; auto. }
  apply bind_err in H as [H|(n & Hn & H)].
  { destruct nm as [rn|]; [|discriminate].
    apply bind_err in H as [H|(x & _ & H)]; [apply mk_name_err in H; auto|discriminate]. }
  assert (Hnok : win_name_ok nm n).
  { unfold win_name_ok. destruct nm as [rn|].
    - apply bind_ok in Hn as (x & Hx & Hn). injection Hn as <-. eauto.
    - injection Hn as <-. reflexivity. }
  change (match n with None => m_names wm | Some x => [x] end) with (win_queries wm n) in H.
  destruct (is_available_total (m_names m) (win_queries wm n)) as (b & Hb).
  { apply names_ok_nonempty, (wf_names _ Hwf). }
  { eapply win_queries_ok; eauto. }
  rewrite Hb in H. cbn [bind] in H.
  apply bind_err in H as [H|(u5 & _ & H)]; [apply check_err in H; auto|].
  apply bind_err in H as [H|(u6 & _ & H)]; [apply check_err in H; auto|].
  apply bind_err in H as [H|(u7 & _ & H)]; [apply check_err in H; auto|].
  apply bind_err in H as [H|([s0 e0] & Hcar & H)]; [apply car_err in H; auto|].
  match type of Hcar with compute_addr_range _ _ _ ?A = _ => assert (HA : m_al m <= A) by lia end.
  match type of H with context [{| e_start := _; e_stop := _; e_step := ?st; e_asg := _ |}] =>
    destruct (insert_after_car _ _ _ _ _ _ st (AW wid) Hwf HA Hcar) as (rs' & Hins' & _) end.
  rewrite Hins' in H. cbn [bind] in H. destruct m; discriminate.
Qed.

(* ------------------------------------------------------------------ the other operations *)

Lemma set_frozen_wf m : wf_map m -> wf_map (set_frozen m).
Proof. intros [H1 H2 H3 H4 H5 H6 H7]. destruct m. constructor; msimpl; auto. Qed.

Lemma new_map_wf aw dw al m : new_map aw dw al = Ok m -> wf_map m.
Proof.
  unfold new_map. intros H.
  apply bind_ok in H as (u1 & H1 & H). apply check_ok in H1.
  apply bind_ok in H as (u2 & H2 & H). apply check_ok in H2.
  apply bind_ok in H as (u3 & H3 & H). apply check_ok in H3.
  injection H as <-.
  destruct aw as [a| |]; cbn [posint] in H1; try discriminate.
  destruct dw as [d| |]; cbn [posint] in H2; try discriminate.
  destruct al as [l| |]; cbn [nonneg] in H3; try discriminate.
  cbn [zof]. constructor; msimpl; cbn [chain names_ok]; auto; try lia.
  - intros x [].
  - split; [lia|]. apply Z.mod_0_l. pose proof (pow2_pos l); lia.
Qed.

Lemma new_map_err aw dw al e : new_map aw dw al = Err e -> e = ValueError.
Proof.
  unfold new_map. intros H.
  apply bind_err in H as [H|(u1 & _ & H)]; [eapply check_err; eauto|].
  apply bind_err in H as [H|(u2 & _ & H)]; [eapply check_err; eauto|].
  apply bind_err in H as [H|(u3 & _ & H)]; [eapply check_err; eauto|discriminate].
Qed.

Lemma align_to_inv m a m' n : align_to m a = Ok (m', n) ->
  exists z, a = VInt z /\ 0 <= z /\ n = align_up (m_next m) (Z.max z (m_al m)) /\ m' = set_next m n.
Proof.
  unfold align_to. intros H. apply bind_ok in H as (u & Hc & H). apply check_ok in Hc.
  injection H as <- <-. destruct a as [z| |]; cbn [nonneg] in Hc; try discriminate.
  exists z. cbn [zof]. repeat split; auto. lia.
Qed.

Lemma align_to_err m a e : align_to m a = Err e -> e = ValueError.
Proof.
  unfold align_to. intros H.
  apply bind_err in H as [H|(u & _ & H)]; [eapply check_err; eauto|discriminate].
Qed.

Lemma align_to_wf m a m' n : wf_map m -> align_to m a = Ok (m', n) -> wf_map m'.
Proof.
  intros [H1 H2 H3 H4 H5 (H6 & H6') H7] H.
  apply align_to_inv in H as (z & -> & Hz & -> & ->).
  assert (HA : 0 <= Z.max z (m_al m)) by lia.
  pose proof (align_up_ge (m_next m) _ HA). pose proof (align_up_mod (m_next m) _ HA) as Hm.
  apply (mod_pow2_le _ _ (m_al m)) in Hm; [|lia].
  destruct m. constructor; msimpl; auto. split; [lia|exact Hm].
Qed.

(* T8: the cursor probe align_to(0) changes nothing and returns the cursor *)
Lemma align_to_zero m : wf_map m -> align_to m (VInt 0) = Ok (m, m_next m).
Proof.
  intros [H1 H2 H3 H4 H5 (H6 & H6') H7]. unfold align_to. cbn [nonneg zof].
  change (0 <=? 0) with true. cbn [check bind].
  rewrite Z.max_r by lia. rewrite align_up_id by auto. destruct m; reflexivity.
Qed.

(* ------------------------------------------------------------------ worlds *)

Lemma wf_world_nth w i m : wf_world w -> nth_error w i = Some m -> wf_map m.
Proof. intros Hw Hn. apply nth_error_In in Hn. eapply Forall_forall in Hw; eauto. Qed.

Lemma wstep_wf w o : wf_world w -> wf_world (fst (wstep w o)).
Proof.
  intros Hw. unfold wf_world in *. destruct o as [aw dw al|mi id comp nm size addr al|mi wo nm addr sparse|mi a|mi]; cbn [wstep].
  - destruct (new_map aw dw al) as [m|e] eqn:E; cbn [fst]; [|exact Hw].
    apply Forall_app. split; [exact Hw|]. constructor; [|constructor]. eapply new_map_wf; eauto.
  - destruct (nth_error w mi) as [m|] eqn:Em; cbn [fst]; [|exact Hw].
    destruct (add_resource m id comp nm size addr al) as [[m' [s e]]|e] eqn:E; cbn [fst]; [|exact Hw].
    apply Forall_set_nth; [exact Hw|]. eapply add_resource_wf; eauto. eapply wf_world_nth; eauto.
  - destruct (nth_error w mi) as [m|] eqn:Em; cbn [fst]; [|exact Hw].
    destruct wo as [wi|]; cbn [fst]; [|exact Hw].
    destruct (Nat.eqb wi mi); cbn [fst]; [exact Hw|].
    destruct (nth_error w wi) as [wm|] eqn:Ew; cbn [fst]; [|exact Hw].
    destruct (add_window m (Z.of_nat wi) wm nm addr sparse) as [[m' [[s e] r]]|e] eqn:E; cbn [fst]; [|exact Hw].
    pose proof (wf_world_nth _ _ _ Hw Em). pose proof (wf_world_nth _ _ _ Hw Ew).
    apply Forall_set_nth; [apply Forall_set_nth; [exact Hw|]|].
    + eapply (add_window_wf m _ wm); eauto.
    + apply set_frozen_wf; auto.
  - destruct (nth_error w mi) as [m|] eqn:Em; cbn [fst]; [|exact Hw].
    destruct (align_to m a) as [[m' n]|e] eqn:E; cbn [fst]; [|exact Hw].
    apply Forall_set_nth; [exact Hw|]. eapply align_to_wf; eauto. eapply wf_world_nth; eauto.
  - destruct (nth_error w mi) as [m|] eqn:Em; cbn [fst]; [|exact Hw].
    apply Forall_set_nth; [exact Hw|]. apply set_frozen_wf. eapply wf_world_nth; eauto.
Qed.

Lemma reachable_wf w : reachable w -> wf_world w.
Proof.
  intros (ops & ->). unfold world_after.
  assert (H : forall w0, wf_world w0 -> wf_world (fold_left (fun w o => fst (wstep w o)) ops w0)).
  { induction ops as [|o ops IH]; intros w0 H0; cbn [fold_left]; [exact H0|].
    apply IH. apply wstep_wf. exact H0. }
  apply H. constructor.
Qed.

Lemma reachable_in_wf w m : reachable w -> In m w -> wf_map m.
Proof. intros Hr Hin. apply reachable_wf in Hr. eapply Forall_forall in Hr; eauto. Qed.
