(* C01, rung 2: from the root MAP's windows to the root Wishbone decoder's selection.  The configuration
   `wh_cfg h` that wbroot_hw reads off the map is inside the domain of C07's selection theorems
   (Proofs.WbDecoder.dom), hence: a word outside every window of the root map selects no subordinate. *)
From Coq Require Import ZArith List Bool Lia ZifyBool Arith Permutation.
From Soc Require Import Lib.Res Lib.PyList Lib.Bits Model.MemoryMap Model.MemSpec Model.Hierarchy
  Proofs.RangeMap Proofs.LookupArith Proofs.LookupWf Proofs.Lookup Proofs.MemArith Proofs.HierMap
  Proofs.HierCsr Proofs.HierInert Proofs.HierWf Proofs.HierWb Proofs.HierWb2.
From Soc Require Model.Sram Model.WbCsrBridge Model.WbDecoder Proofs.Sram Proofs.WbCsrBridge
  Proofs.WbDecoder.
Import ListNotations.
Open Scope Z_scope.

Local Opaque Z.pow.

(* ------------------------------------------------------------------ the subordinates' interfaces *)

Lemma pow2_quot a b : 0 <= a <= b -> 2 ^ b / 2 ^ a = 2 ^ (b - a).
Proof. intros H. rewrite <- Z.pow_sub_r by lia. reflexivity. Qed.

(* WishboneSRAM: data width / granularity = 2^gb, the memory map has gb more address bits than the bus *)
Lemma sram_hw_spec id size dw gran wr init g hh :
  wb_hw (SramLeaf id size dw gran wr init) = Ok (g, hh) ->
  exists ge rows0 gb, hh = HSram id ge rows0 /\
    0 <= gb /\ dw / gran = 2 ^ gb /\ gb <= Z.log2 size /\ 0 < Z.log2 size /\ size = 2 ^ Z.log2 size /\
    WbDecoder.g_aw g = Z.log2 size - gb /\ WbDecoder.g_dw g = dw /\ WbDecoder.g_g g = gran /\
    Sram.g_aw ge = Z.log2 size - gb /\ Sram.nsel ge = 2 ^ gb.
Proof.
  cbn [wb_hw]. intros H.
  destruct (Sram.construct _ _ _ _ _) as [[ge rows0]|] eqn:E; [|discriminate]. injection H as <- <-.
  pose proof (Proofs.Sram.construct_wf _ _ _ _ _ _ _ E) as [W _].
  apply Proofs.Sram.construct_inv in E.
  destruct E as (s & dd & gg & Es & Ed & Eg & Hs & Hd & Hg & H1 & H2 & H3 & H4 & -> & _).
  injection Es as <-. injection Ed as <-.
  assert (gg = gran) by (destruct Eg as [Eg|[Eg _]]; [injection Eg as <-; reflexivity|discriminate]). subst gg.
  destruct W as [_ _ _ Wn Wa Wd Wc Wm Wmm].
  cbn [Sram.g_dw Sram.g_gran Sram.g_aw Sram.g_depth Sram.g_size Sram.g_mmaw] in *.
  destruct (Proofs.Sram.width_ok_pow dw Hd) as (b & Hb & Eb).
  destruct (Proofs.Sram.width_ok_pow gran Hg) as (a & Ha & Ea).
  assert (Hab : a <= b).
  { apply (Z.pow_le_mono_r_iff 2); [lia | lia |]. rewrite <- Ea, <- Eb. exact H2. }
  assert (Eq : dw / gran = 2 ^ (b - a)) by (rewrite Ea, Eb; apply pow2_quot; lia).
  set (k := Z.log2 size) in *. set (ga := Z.log2 (size * gran / dw)) in *.
  assert (Hsum : ga + b = k + a).
  { apply (Z.pow_inj_r 2); [lia|lia|lia|]. rewrite !Z.pow_add_r by lia.
    rewrite <- Wd, <- Eb, <- Ea, <- Wmm. exact Wc. }
  eexists. exists rows0, (b - a). split; [reflexivity|].
  cbn [WbDecoder.g_aw WbDecoder.g_dw WbDecoder.g_g Sram.g_aw Sram.g_dw Sram.g_gran].
  unfold Sram.nsel. cbn [Sram.g_dw Sram.g_gran]. fold ga.
  repeat split; auto; try lia.
Qed.

(* WishboneCSRBridge: wb data width / CSR data width = 2^gb = len(sel), wb addr_width = CSR addr_width - gb *)
Lemma bridge_hw_spec dw nm c g hh : 0 < csr_aw c ->
  wb_hw (BridgeNode dw nm c) = Ok (g, hh) ->
  exists bc ch gb, hh = HBridge bc ch /\ csr_hw c = Ok ch /\
    0 <= gb /\ dw / csr_dw c = 2 ^ gb /\ gb <= csr_aw c /\
    WbDecoder.g_aw g = csr_aw c - gb /\ WbDecoder.g_dw g = dw /\ WbDecoder.g_g g = csr_dw c /\
    WbCsrBridge.c_r bc = gb /\ WbCsrBridge.c_caw bc = csr_aw c.
Proof.
  cbn [wb_hw]. intros Hpos H. apply bind_ok in H as (ch & Ech & H).
  destruct (WbCsrBridge.construct _) as [g0|] eqn:E; [|discriminate]. injection H as <- <-.
  apply Proofs.WbCsrBridge.construct_ok in E; [|cbn [WbCsrBridge.k_caw]; lia].
  cbn [WbCsrBridge.k_caw WbCsrBridge.k_cdw WbCsrBridge.k_dw] in E.
  destruct E as (Lc & Ld & Hr & Edw & Hle & Eg & _).
  eexists. exists ch, (WbCsrBridge.g_r g0). split; [reflexivity|]. split; [exact Ech|].
  assert (Hc0 : 0 < csr_dw c) by (apply Proofs.WbCsrBridge.legal_w_cases in Lc; lia).
  assert (Eq : dw / csr_dw c = 2 ^ WbCsrBridge.g_r g0).
  { rewrite Edw at 1. rewrite Z.mul_comm. apply Z.div_mul. lia. }
  rewrite Eg. cbn [WbDecoder.g_aw WbDecoder.g_dw WbDecoder.g_g WbCsrBridge.g_wb_aw WbCsrBridge.g_wb_dw
                   WbCsrBridge.g_gran WbCsrBridge.cfg_of WbCsrBridge.c_r WbCsrBridge.c_caw WbCsrBridge.g_r
                   WbCsrBridge.k_caw].
  repeat split; auto; lia.
Qed.

(* either kind, in the root's terms: gb = log2(data_width / granularity) of the ROOT is also the
   subordinate's *)
Lemma sub_geom r o sp n w g hh : wsub_dom r (o, sp, n) -> wb_map n = Ok w -> wb_hw n = Ok (g, hh) ->
  0 <= wbroot_gbits r <= wb_maw n /\ 0 < wb_maw n /\ wb_ndw n / wb_ngran n = 2 ^ wbroot_gbits r /\
  WbDecoder.g_aw g = wb_maw n - wbroot_gbits r /\ WbDecoder.g_dw g / WbDecoder.g_g g = 2 ^ wbroot_gbits r.
Proof.
  intros (Hgeo & _ & Hc) Hm Hh. cbn [fst snd] in *.
  assert (Hk : exists gb, 0 <= gb <= wb_maw n /\ 0 < wb_maw n /\ wb_ndw n / wb_ngran n = 2 ^ gb /\
                 WbDecoder.g_aw g = wb_maw n - gb /\ WbDecoder.g_dw g = wb_ndw n /\ WbDecoder.g_g g = wb_ngran n).
  { destruct n as [id size dw gran wr init|dw nm c]; cbn [wb_maw wb_ndw wb_ngran] in *.
    - destruct (sram_hw_spec _ _ _ _ _ _ _ _ Hh) as (ge & rows0 & gb & _ & G0 & Gq & Gle & Gp & _ & Ga & Gd & Gg & _).
      exists gb. repeat split; auto; lia.
    - destruct (bridge_map_spec _ _ _ _ Hc Hm) as (w0 & wn & _ & _ & _ & _ & Hpos & _).
      destruct (bridge_hw_spec _ _ _ _ _ Hpos Hh) as (bc & ch & gb & _ & _ & G0 & Gq & Gle & Ga & Gd & Gg & _).
      exists gb. repeat split; auto; lia. }
  destruct Hk as (gb & Hgb & Hpos & Hq & Ga & Gd & Gg).
  assert (Egb : wbroot_gbits r = gb).
  { destruct Hgeo as [(_ & Hdw & Hgr)|(_ & H0 & Heq)].
    - unfold wbroot_gbits. rewrite <- Hdw, <- Hgr, Hq. apply Z.log2_pow2. lia.
    - rewrite H0. apply (Z.pow_inj_r 2); [lia|lia|lia|]. rewrite <- Hq, Heq.
      assert (wb_ngran n <> 0).
      { intros E0. rewrite Heq, E0 in Hq. cbn in Hq. pose proof (pow2_pos gb). lia. }
      rewrite Z.div_same by assumption. reflexivity. }
  rewrite Egb, Gd, Gg. repeat split; auto; lia.
Qed.

(* ------------------------------------------------------------------ the decoder's configuration *)

Lemma wb_subs_nth m : forall l k res, wb_subs m k l = Ok res ->
  length res = length l /\
  forall j o sp n, nth_error l j = Some (o, sp, n) ->
    exists g hh w, wb_hw n = Ok (g, hh) /\ win_of m (k + Z.of_nat j) = Some w /\
      nth_error res j = Some ({| WbDecoder.s_geom := g; WbDecoder.s_sparse := sp; WbDecoder.s_win := w |}, hh).
Proof.
  induction l as [|[[o sp] n] l IH]; cbn [wb_subs]; intros k res H.
  - injection H as <-. split; [reflexivity|]. intros j o sp n Hj. destruct j; discriminate.
  - apply bind_ok in H as ([g hh] & Eh & H). destruct (win_of m k) as [w|] eqn:Ew; [|discriminate].
    apply bind_ok in H as (r' & Er & H). injection H as <-.
    destruct (IH _ _ Er) as [Hlen Hn]. split; [cbn [length]; congruence|].
    intros j o' sp' n' Hj. destruct j as [|j]; cbn [nth_error] in *.
    + injection Hj as <- <- <-. exists g, hh, w. rewrite Z.add_0_r. auto.
    + destruct (Hn _ _ _ _ Hj) as (g' & hh' & w' & H1 & H2 & H3). exists g', hh', w'.
      split; [exact H1|]. split; [|exact H3]. rewrite <- H2. f_equal. lia.
Qed.

(* subordinate number j: its add() call, its window in the root map, its hardware, its entry in the
   decoder's configuration *)
Record sub_is (r : wbroot) (m : mmap) (h : wbhw) (j : nat)
              (o : wopt) (sp : bool) (n : wbnode) (wn : winent) (w : mmap) (g : WbDecoder.geom) (hh : whw) : Prop := {
  si_sub : nth_error (wr_subs r) j = Some (o, sp, n);
  si_dom : wsub_dom r (o, sp, n);
  si_win : nth_error (m_wins m) j = Some (wn, set_frozen w);
  si_id : w_id wn = Z.of_nat j;
  si_step : w_step wn = 1;
  si_al : w_start wn mod 2 ^ m_aw w = 0;
  si_map : wb_map n = Ok w;
  si_hw : wb_hw n = Ok (g, hh);
  si_hh : nth_error (wh_subs h) j = Some hh;
  si_cfg : nth_error (WbDecoder.c_subs (wh_cfg h)) j =
           Some {| WbDecoder.s_geom := g; WbDecoder.s_sparse := sp;
                   WbDecoder.s_win := {| WbDecoder.w_start := w_start wn; WbDecoder.w_stop := w_stop wn;
                                         WbDecoder.w_ratio := w_step wn; WbDecoder.w_aw := m_aw w |} |}
}.

Lemma wbroot_hw_unfold r m h : wbroot_map r = Ok m -> wbroot_hw r = Ok h ->
  exists l, wb_subs m 0 (wr_subs r) = Ok l /\
    wh_cfg h = {| WbDecoder.c_geom := {| WbDecoder.g_aw := wr_aw r; WbDecoder.g_dw := wr_dw r;
                                         WbDecoder.g_g := wr_gran r; WbDecoder.g_feat := nofeat |};
                  WbDecoder.c_subs := map fst l |} /\
    wh_subs h = map snd l.
Proof.
  intros Hm H. unfold wbroot_hw in H. rewrite Hm in H. cbn [bind] in H.
  apply bind_ok in H as (l & Hl & H). injection H as <-. exists l. auto.
Qed.

Lemma sub_view r m h : wb_dom r -> wbroot_map r = Ok m -> wbroot_hw r = Ok h ->
  length (WbDecoder.c_subs (wh_cfg h)) = length (wr_subs r) /\
  length (m_wins m) = length (wr_subs r) /\
  forall j, (j < length (wr_subs r))%nat ->
    exists o sp n wn w g hh, sub_is r m h j o sp n wn w g hh.
Proof.
  intros Hdom Hm Hh. pose proof (wbroot_map_facts r m Hdom Hm) as [Hwt Faw Fdw Fress Flen Fwin].
  destruct (wbroot_hw_unfold r m h Hm Hh) as (l & Hl & Ecfg & Esubs).
  destruct (wb_subs_nth m _ _ _ Hl) as [Hlen Hnth].
  split; [rewrite Ecfg; cbn [WbDecoder.c_subs]; rewrite map_length; exact Hlen|]. split; [exact Flen|].
  intros j Hj.
  destruct (nth_error (wr_subs r) j) as [[[o sp] n]|] eqn:Es; [|apply nth_error_None in Es; lia].
  destruct (nth_error (m_wins m) j) as [[wn c]|] eqn:Ew; [|apply nth_error_None in Ew; lia].
  destruct (Fwin _ _ _ _ _ _ Ew Es) as (w & Hmw & -> & Hid & Hstep & Hal).
  destruct (Hnth _ _ _ _ Es) as (g & hh & ww & Hhw & Hwin & Hres).
  pose proof (wf_tree_node _ Hwt) as Hwf. pose proof Hwf as (_ & _ & _ & _ & _ & _ & _ & _ & Hndw & _).
  (* add() number j returned window number j *)
  assert (Eww : ww = {| WbDecoder.w_start := w_start wn; WbDecoder.w_stop := w_stop wn;
                        WbDecoder.w_ratio := w_step wn; WbDecoder.w_aw := m_aw w |}).
  { unfold win_of in Hwin. cbn [Z.add] in Hwin.
    pose proof (find_win_nodup (m_wins m) (wn, set_frozen w) Hndw (nth_error_In _ _ Ew)) as Hf.
    unfold wid_of in Hf. cbn [fst] in Hf. rewrite Hid in Hf. rewrite Hf in Hwin.
    injection Hwin as <-. rewrite frozen_aw. reflexivity. }
  subst ww. exists o, sp, n, wn, w, g, hh.
  destruct Hdom as [_ Hd]. rewrite Forall_forall in Hd.
  constructor; auto.
  - apply Hd. exact (nth_error_In _ _ Es).
  - rewrite Esubs. rewrite nth_error_map, Hres. reflexivity.
  - rewrite Ecfg. cbn [WbDecoder.c_subs]. rewrite nth_error_map, Hres. reflexivity.
Qed.

(* where the root map put window number j *)
Lemma sub_window r m h j o sp n wn w g hh : wb_dom r -> wbroot_map r = Ok m ->
  sub_is r m h j o sp n wn w g hh ->
  In (wn, set_frozen w) (m_wins m) /\ wf_tree w /\ m_aw w = wb_maw n /\
  0 <= w_start wn /\ w_start wn + 2 ^ wb_maw n <= w_stop wn /\ w_stop wn <= 2 ^ wbroot_map_aw r.
Proof.
  intros Hdom Hm S. pose proof (wbroot_map_facts r m Hdom Hm) as [Hwt Faw _ _ _ _].
  destruct S as [Es Hd Ew _ Hstep _ Hmw _ _ _].
  pose proof (nth_error_In _ _ Ew) as Hin. pose proof (wf_tree_node _ Hwt) as Hwf.
  assert (Hg : wf_tree w /\ m_aw w = wb_maw n /\ m_dw w = wb_ngran n).
  { apply wb_map_good; [|exact Hmw]. destruct Hd as (_ & _ & Hc). cbn [snd] in Hc.
    destruct n; [exact I|exact Hc]. }
  destruct Hg as (Hww & Haw & _).
  destruct (win_step_ok _ _ _ Hwf Hin) as [_ Hlen]. rewrite Hstep, Z.div_1_r, frozen_aw, Haw in Hlen.
  pose proof Hwf as (_ & _ & _ & _ & Hch & Hstop & _).
  pose proof (Hstop _ (win_has_entry _ _ Hwf Hin)) as Hst. cbn [ent_of_win e_stop fst] in Hst.
  pose proof (chain_all_ge _ _ Hch) as Hge. rewrite Forall_forall in Hge.
  pose proof (Hge _ (win_has_entry _ _ Hwf Hin)) as [Hs0 _]. cbn [ent_of_win e_start fst] in Hs0.
  rewrite Faw in Hst. repeat split; auto; lia.
Qed.

(* (a) the configuration read off the map is inside the domain of C07's selection theorems *)
Theorem wbroot_cfg_dom r m h : wb_dom r -> wbroot_map r = Ok m -> wbroot_hw r = Ok h ->
  Proofs.WbDecoder.dom (wh_cfg h).
Proof.
  intros Hdom Hm Hh. destruct (sub_view r m h Hdom Hm Hh) as (Hlc & Hlw & Hsub).
  destruct (wbroot_hw_unfold r m h Hm Hh) as (l & _ & Ecfg & _).
  pose proof (wbroot_map_facts r m Hdom Hm) as [Hwt _ _ _ _ _]. pose proof (wf_tree_node _ Hwt) as Hwf.
  assert (Egeom : WbDecoder.c_geom (wh_cfg h) =
            {| WbDecoder.g_aw := wr_aw r; WbDecoder.g_dw := wr_dw r;
               WbDecoder.g_g := wr_gran r; WbDecoder.g_feat := nofeat |}) by (rewrite Ecfg; reflexivity).
  assert (Hview : forall j s, nth_error (WbDecoder.c_subs (wh_cfg h)) j = Some s ->
            exists o sp n wn w g hh, sub_is r m h j o sp n wn w g hh).
  { intros j s Hj. apply Hsub. rewrite <- Hlc. apply nth_error_Some. congruence. }
  split; [|split].
  - unfold WbDecoder.c_aw. rewrite Egeom. exact (proj1 Hdom).
  - intros s Hs. apply In_nth_error in Hs as [j Hj].
    destruct (Hview j s Hj) as (o & sp & n & wn & w & g & hh & S).
    destruct (sub_window _ _ _ _ _ _ _ _ _ _ _ Hdom Hm S) as (Hin & Hww & Haw & Hs0 & Hlen & Hst).
    destruct (sub_geom r o sp n w g hh (si_dom _ _ _ _ _ _ _ _ _ _ _ S) (si_map _ _ _ _ _ _ _ _ _ _ _ S)
                (si_hw _ _ _ _ _ _ _ _ _ _ _ S)) as (Hgb & Hpos & _).
    rewrite (si_cfg _ _ _ _ _ _ _ _ _ _ _ S) in Hj. injection Hj as <-.
    unfold Proofs.WbDecoder.win_dom. cbn [WbDecoder.s_win WbDecoder.w_ratio WbDecoder.w_aw WbDecoder.w_start WbDecoder.w_stop].
    rewrite Egeom. unfold WbDecoder.map_aw, WbDecoder.gbits. cbn [WbDecoder.g_aw WbDecoder.g_dw WbDecoder.g_g].
    fold (wbroot_gbits r). fold (wbroot_map_aw r). rewrite Haw.
    pose proof (si_al _ _ _ _ _ _ _ _ _ _ _ S) as Hal. rewrite Haw in Hal.
    pose proof (si_step _ _ _ _ _ _ _ _ _ _ _ S). repeat split; auto; lia.
  - intros j k sj sk Hne Hj Hk.
    destruct (Hview j sj Hj) as (o & sp & n & wn & w & g & hh & S).
    destruct (Hview k sk Hk) as (o2 & sp2 & n2 & wn2 & w2 & g2 & hh2 & S2).
    destruct (sub_window _ _ _ _ _ _ _ _ _ _ _ Hdom Hm S) as (Hin & _).
    destruct (sub_window _ _ _ _ _ _ _ _ _ _ _ Hdom Hm S2) as (Hin2 & _).
    rewrite (si_cfg _ _ _ _ _ _ _ _ _ _ _ S) in Hj. injection Hj as <-.
    rewrite (si_cfg _ _ _ _ _ _ _ _ _ _ _ S2) in Hk. injection Hk as <-.
    cbn [WbDecoder.s_win WbDecoder.w_start WbDecoder.w_stop].
    pose proof Hwf as (_ & _ & _ & _ & Hch & _).
    pose proof (win_has_entry _ _ Hwf Hin) as Hx. pose proof (win_has_entry _ _ Hwf Hin2) as Hx2.
    pose proof (chain_all_ge _ _ Hch) as Hge. rewrite Forall_forall in Hge.
    pose proof (Hge _ Hx) as [_ Hne1]. pose proof (Hge _ Hx2) as [_ Hne2].
    cbn [ent_of_win e_start e_stop fst] in Hne1, Hne2.
    destruct (Z_le_gt_dec (w_stop wn) (w_start wn2)) as [|G1]; [left; assumption|].
    destruct (Z_le_gt_dec (w_stop wn2) (w_start wn)) as [|G2]; [right; assumption|]. exfalso.
    (* overlapping entries of a chain are the same entry: the same window id *)
    assert (Heq : ent_of_win (wn, set_frozen w) = ent_of_win (wn2, set_frozen w2)).
    { apply (chain_unique 0 (m_ranges m) _ _ (Z.max (w_start wn) (w_start wn2)) Hch Hx Hx2);
        cbn [ent_of_win e_start e_stop fst]; lia. }
    unfold ent_of_win in Heq. cbn [fst] in Heq. injection Heq as _ _ _ Hid.
    rewrite (si_id _ _ _ _ _ _ _ _ _ _ _ S), (si_id _ _ _ _ _ _ _ _ _ _ _ S2) in Hid. lia.
Qed.

(* ------------------------------------------------------------------ spans in the map's own units *)

Lemma scaled_interval x k a g : 0 < g -> (x <= a < x + k <-> x * g <= a * g < x * g + k * g).
Proof. intros Hg. nia. Qed.

(* the words of a window's span are the words whose first granule lies in [start, start + 2^aw) *)
Lemma in_span_iff c s a : Proofs.WbDecoder.win_dom c s ->
  (Proofs.WbDecoder.in_span c s a <->
   WbDecoder.w_start (WbDecoder.s_win s) <= a * 2 ^ WbDecoder.gbits (WbDecoder.c_geom c)
     < WbDecoder.w_start (WbDecoder.s_win s) + 2 ^ WbDecoder.w_aw (WbDecoder.s_win s)).
Proof.
  intros (Hr & Hw1 & Hgw & Hst & Hal & Hsz & Hstop).
  unfold Proofs.WbDecoder.in_span, Proofs.WbDecoder.start_word, Proofs.WbDecoder.span_words.
  set (GB := WbDecoder.gbits (WbDecoder.c_geom c)) in *. set (W := WbDecoder.w_aw (WbDecoder.s_win s)) in *.
  set (ST := WbDecoder.w_start (WbDecoder.s_win s)) in *.
  assert (HGB : 0 <= GB) by apply Proofs.WbDecoder.gbits_nonneg.
  assert (HG : 0 < 2 ^ GB) by (apply Z.pow_pos_nonneg; lia).
  assert (HWs : 2 ^ W = 2 ^ (W - GB) * 2 ^ GB) by (rewrite <- Z.pow_add_r by lia; f_equal; lia).
  assert (HST : ST = ST / 2 ^ W * 2 ^ W) by (pose proof (Z.div_mod ST (2 ^ W)); lia).
  assert (Hsw : ST / 2 ^ GB = ST / 2 ^ W * 2 ^ (W - GB)).
  { rewrite HST at 1. rewrite HWs, Z.mul_assoc. apply Z.div_mul. lia. }
  rewrite Hsw. rewrite (scaled_interval _ (2 ^ (W - GB)) a (2 ^ GB) HG).
  rewrite <- Z.mul_assoc, <- HWs, <- HST. reflexivity.
Qed.

(* (b) a word outside every window of the root map selects no subordinate *)
Theorem wb_outside_windows_unselected r m h : wb_dom r -> wbroot_map r = Ok m -> wbroot_hw r = Ok h ->
  forall q, 0 <= WbDecoder.adr q < 2 ^ wr_aw r ->
  (forall wn c, In (wn, c) (m_wins m) ->
     ~ (w_start wn <= WbDecoder.adr q * 2 ^ wbroot_gbits r < w_start wn + 2 ^ m_aw c)) ->
  unselected h q.
Proof.
  intros Hdom Hm Hh q Ha Hout. right.
  pose proof (wbroot_cfg_dom r m h Hdom Hm Hh) as D.
  destruct (sub_view r m h Hdom Hm Hh) as (Hlc & _ & Hsub).
  destruct (wbroot_hw_unfold r m h Hm Hh) as (l & _ & Ecfg & _).
  assert (Egeom : WbDecoder.c_geom (wh_cfg h) =
            {| WbDecoder.g_aw := wr_aw r; WbDecoder.g_dw := wr_dw r;
               WbDecoder.g_g := wr_gran r; WbDecoder.g_feat := nofeat |}) by (rewrite Ecfg; reflexivity).
  apply (Proofs.WbDecoder.selected_none_iff _ _ D).
  { unfold WbDecoder.c_aw. rewrite Egeom. exact Ha. }
  intros j s Hj Sp.
  assert (Hlt : (j < length (wr_subs r))%nat) by (rewrite <- Hlc; apply nth_error_Some; congruence).
  destruct (Hsub j Hlt) as (o & sp & n & wn & w & g & hh & S).
  destruct (sub_window _ _ _ _ _ _ _ _ _ _ _ Hdom Hm S) as (Hin & _).
  apply (in_span_iff _ _ _ (proj1 (proj2 D) s (nth_error_In _ _ Hj))) in Sp.
  rewrite (si_cfg _ _ _ _ _ _ _ _ _ _ _ S) in Hj. injection Hj as <-.
  cbn [WbDecoder.s_win WbDecoder.w_start WbDecoder.w_aw] in Sp. rewrite Egeom in Sp.
  apply (Hout _ _ Hin). rewrite frozen_aw. exact Sp.
Qed.

(* ... so it is never acknowledged, no SRAM sees cyc, no register is strobed, memory keeps its contents *)
Theorem wb_outside_windows_inert r m h : wb_dom r -> wb_dom_subs (wr_subs r) ->
  wbroot_map r = Ok m -> wbroot_hw r = Ok h -> forall tr,
  (forall q rv, In (q, rv) tr ->
     WbDecoder.cyc q = false \/
     (0 <= WbDecoder.adr q < 2 ^ wr_aw r /\
      forall wn c, In (wn, c) (m_wins m) ->
        ~ (w_start wn <= WbDecoder.adr q * 2 ^ wbroot_gbits r < w_start wn + 2 ^ m_aw c))) ->
  forall o, In o (wb_run h (map winit (wh_subs h)) tr) ->
    wo_ack o = false /\
    (forall lo, In lo (wo_leaves o) -> lo_rstb lo = false) /\
    (forall x, In x (wo_srams o) -> snd (fst x) = false) /\
    map (fun x : Z * bool * list Z => snd x) (wo_srams o) = concat (map sram_rows (map winit (wh_subs h))).
Proof.
  intros Hdom Hds Hm Hh tr Htr. apply unselected_trace_init.
  - exact (wbroot_hw_wf r h Hds Hh).
  - intros q rv Hin. destruct (Htr q rv Hin) as [Hc|[Ha Hout]]; [left; exact Hc|].
    exact (wb_outside_windows_unselected r m h Hdom Hm Hh q Ha Hout).
Qed.
