(* C01, rung 2: the memory maps of a Wishbone hierarchy (wishbone.Decoder over WishboneSRAM /
   WishboneCSRBridge).  What the maps built by the constructors look like: a leaf SRAM's map holds one
   resource [0, size), a bridge's map one ratio-1 window at 0 over the CSR tree's map, the root's map one
   ratio-1, size-aligned window per add() call, window number k being the k-th subordinate. *)
From Coq Require Import ZArith List Bool Lia ZifyBool Arith Permutation.
From Soc Require Import Lib.Res Lib.PyList Lib.Bits Model.MemoryMap Model.MemSpec Model.Hierarchy
  Proofs.RangeMap Proofs.LookupArith Proofs.LookupWf Proofs.Lookup Proofs.MemArith Proofs.HierMap
  Proofs.HierCsr.
From Soc Require Model.Sram Model.WbCsrBridge Model.WbDecoder Proofs.Sram Proofs.WbCsrBridge.
Import ListNotations.
Open Scope Z_scope.

Local Opaque Z.pow.

(* ------------------------------------------------------------------ the property's domain *)

(* the address width / data width (granularity) of a subordinate's memory map, its bus data width *)
Definition wb_maw (n : wbnode) : Z :=
  match n with SramLeaf _ size _ _ _ _ => Z.log2 size | BridgeNode _ _ c => csr_aw c end.
Definition wb_ngran (n : wbnode) : Z :=
  match n with SramLeaf _ _ _ gran _ _ => gran | BridgeNode _ _ c => csr_dw c end.
Definition wb_ndw (n : wbnode) : Z :=
  match n with SramLeaf _ _ dw _ _ _ => dw | BridgeNode dw _ _ => dw end.

(* one add(): a dense window between equal geometries, or a sparse one under a decoder whose granularity
   is its data width (gbits = 0; add() itself demands granularity = data width of the subordinate then);
   an explicit address is a multiple of the window size (note N2); the tree behind a bridge is in rung 1's
   domain *)
Definition wsub_dom (r : wbroot) (x : wopt * bool * wbnode) : Prop :=
  ((snd (fst x) = false /\ wb_ndw (snd x) = wr_dw r /\ wb_ngran (snd x) = wr_gran r) \/
   (snd (fst x) = true /\ wbroot_gbits r = 0 /\ wb_ndw (snd x) = wb_ngran (snd x))) /\
  (forall z, o_addr (fst (fst x)) = VInt z -> z mod 2 ^ wb_maw (snd x) = 0) /\
  match snd x with BridgeNode _ _ c => csr_dom c | SramLeaf _ _ _ _ _ _ => True end.

(* the decoder's own address width is not negative (wishbone.Signature checks it; the model of the
   hierarchy does not) *)
Definition wb_dom (r : wbroot) : Prop := 0 <= wr_aw r /\ Forall (wsub_dom r) (wr_subs r).

(* ------------------------------------------------------------------ leaf maps *)

Lemma new_map_explicit aw dw al m : new_map (VInt aw) (VInt dw) (VInt al) = Ok m ->
  m = MM aw dw al [] [] [] [] 0 false /\ 0 < aw /\ 0 < dw /\ 0 <= al.
Proof.
  unfold new_map. intros H.
  apply bind_ok in H as (u1 & Hc1 & H). apply check_ok in Hc1.
  apply bind_ok in H as (u2 & Hc2 & H). apply check_ok in Hc2.
  apply bind_ok in H as (u3 & Hc3 & H). apply check_ok in Hc3.
  injection H as <-. cbn in *. repeat split; lia.
Qed.

(* WishboneSRAM's map: one resource, the SRAM itself, at [0, max size 1) *)
Lemma sram_map_spec id size dw gran wr init w :
  wb_map (SramLeaf id size dw gran wr init) = Ok w ->
  wf_tree w /\ m_aw w = Z.log2 size /\ m_dw w = gran /\ m_wins w = [] /\
  exists x, m_ress w = [x] /\ r_id x = id /\ r_start x = 0 /\ r_stop x = Z.max size 1.
Proof.
  cbn [wb_map]. intros H. apply bind_ok in H as (m0 & E0 & H).
  apply bind_ok in H as ([m1 rr] & E1 & H). injection H as <-.
  pose proof (new_map_wf _ _ _ _ E0) as Hwt0.
  destruct (new_map_explicit _ _ _ _ E0) as (-> & Paw & Pdw & _).
  pose proof (wf_tree_node _ Hwt0) as Hn0.
  destruct (add_resource_wf _ _ _ _ _ _ _ _ _ Hn0 E1) as [Hn1 Hw1].
  destruct (add_resource_shape _ _ _ _ _ _ _ _ _ E1) as (Ha & Hd & _ & x & Hr & Hx).
  cbn [m_aw m_dw m_wins m_ress app] in *.
  split; [apply wf_tree_eq; rewrite Hw1; split; [exact Hn1|constructor]|].
  split; [exact Ha|]. split; [exact Hd|]. split; [exact Hw1|].
  exists x. split; [exact Hr|]. split; [exact Hx|].
  (* the range add_resource() computed *)
  unfold add_resource in E1.
  apply bind_ok in E1 as (u1 & _ & E1). apply bind_ok in E1 as (u2 & _ & E1).
  apply bind_ok in E1 as (u3 & _ & E1). apply bind_ok in E1 as (n & _ & E1).
  apply bind_ok in E1 as (av & _ & E1). apply bind_ok in E1 as (u4 & _ & E1).
  apply bind_ok in E1 as (al' & Hal & E1). apply bind_ok in E1 as ([s e] & Hcar & E1).
  apply bind_ok in E1 as (rs & _ & E1).
  injection Hal as <-. cbn [m_al] in Hcar.
  unfold compute_addr_range in Hcar. cbn [bind m_next m_ranges m_aw] in Hcar.
  apply bind_ok in Hcar as (u5 & _ & Hcar). apply bind_ok in Hcar as (u6 & _ & Hcar).
  destruct (rm_overlaps _ _ _) in Hcar; [|discriminate]. injection Hcar as <- <-.
  injection E1 as E1 _. rewrite <- E1 in Hr. cbn [m_ress app] in Hr. injection Hr as <-.
  cbn [r_start r_stop zof].
  assert (A0 : align_up 0 0 = 0) by reflexivity.
  assert (A1 : align_up (Z.max size 1) 0 = Z.max size 1).
  { apply align_up_id; [lia|]. change (2 ^ 0) with 1. apply Z.mod_1_r. }
  rewrite A0, A1. split; [reflexivity|lia].
Qed.

(* WishboneCSRBridge's map: the CSR tree's map as the only window, ratio 1, at 0 *)
Lemma bridge_map_spec dw nm c wm : csr_dom c -> wb_map (BridgeNode dw nm c) = Ok wm ->
  exists w wn, csr_map c = Ok w /\ wf_tree w /\ m_aw w = csr_aw c /\ m_dw w = csr_dw c /\ 0 < csr_aw c /\
    wf_tree wm /\ m_aw wm = csr_aw c /\ m_dw wm = csr_dw c /\ m_ress wm = [] /\
    m_wins wm = [(wn, set_frozen w)] /\ w_step wn = 1 /\ w_start wn = 0.
Proof.
  cbn [wb_map]. intros Hdom H. apply bind_ok in H as (w & Ew & H).
  apply bind_ok in H as (m0 & E0 & H). apply bind_ok in H as ([m1 rr] & E1 & H). injection H as <-.
  destruct (csr_map_good c Hdom w Ew) as (Hww & Haw & Hdw & Hpos).
  pose proof (new_map_wf _ _ _ _ E0) as Hwt0.
  destruct (new_map_explicit _ _ _ _ E0) as (-> & Paw & Pdw & _).
  pose proof (wf_tree_node _ Hwt0) as Hn0. pose proof (wf_tree_node _ Hww) as Hnw.
  destruct (add_window_wf _ _ _ _ _ _ _ _ Hn0 Hnw E1) as [Hn1 _].
  destruct (add_window_shape _ _ _ _ _ _ _ _ Hn0 Hnw E1)
    as (Ha & Hd & _ & Hr & wn & Hw1 & _ & Hstep & _ & Himp & _ & _).
  cbn [m_aw m_dw m_ress m_wins app] in *.
  assert (Hs1 : w_step wn = 1) by (rewrite Hstep; apply Z.div_same; lia).
  exists w, wn. split; [exact Ew|]. split; [exact Hww|]. split; [exact Haw|]. split; [exact Hdw|].
  split; [exact Hpos|].
  assert (Hwt1 : wf_tree m1).
  { apply wf_tree_eq. rewrite Hw1. split; [exact Hn1|]. constructor; [|constructor].
    cbn [snd]. apply wf_set_frozen. exact Hww. }
  split; [exact Hwt1|]. split; [congruence|]. split; [congruence|]. split; [exact Hr|].
  split; [exact Hw1|]. split; [exact Hs1|].
  (* the window starts at a multiple of its size and ends inside a map of that size *)
  pose proof (Himp eq_refl) as Hal. rewrite Hs1, Z.div_1_r in Hal.
  assert (Hin : In (wn, set_frozen w) (m_wins m1)) by (rewrite Hw1; left; reflexivity).
  destruct (win_step_ok _ _ _ Hn1 Hin) as [_ Hlen]. rewrite Hs1, Z.div_1_r, frozen_aw in Hlen.
  pose proof Hn1 as (_ & _ & _ & _ & Hch & Hstop & _).
  pose proof (Hstop _ (win_has_entry _ _ Hn1 Hin)) as Hst. cbn [ent_of_win e_stop fst] in Hst.
  pose proof (chain_all_ge _ _ Hch) as Hge. rewrite Forall_forall in Hge.
  pose proof (Hge _ (win_has_entry _ _ Hn1 Hin)) as [Hs0 _]. cbn [ent_of_win e_start fst] in Hs0.
  rewrite Ha in Hst. lia.
Qed.

(* the map of either kind of subordinate *)
Lemma wb_map_good n w : match n with BridgeNode _ _ c => csr_dom c | _ => True end ->
  wb_map n = Ok w -> wf_tree w /\ m_aw w = wb_maw n /\ m_dw w = wb_ngran n.
Proof.
  destruct n as [id size dw gran wr init|dw nm c]; intros Hd H.
  - destruct (sram_map_spec _ _ _ _ _ _ _ H) as (H1 & H2 & H3 & _). auto.
  - destruct (bridge_map_spec _ _ _ _ Hd H) as (w0 & wn & _ & _ & _ & _ & _ & H1 & H2 & H3 & _). auto.
Qed.

(* ------------------------------------------------------------------ the root's map *)

Lemma wb_kids_nth subs : forall kids, wb_kids subs = Ok kids ->
  length kids = length subs /\
  forall j o sp n, nth_error subs j = Some (o, sp, n) ->
                   exists w, nth_error kids j = Some (o, Some sp, w) /\ wb_map n = Ok w.
Proof.
  induction subs as [|[[o sp] n] l IH]; cbn [wb_kids]; intros kids H.
  - injection H as <-. split; [reflexivity|]. intros j o sp n Hj. destruct j; discriminate.
  - apply bind_ok in H as (w & Ew & H). apply bind_ok in H as (r & Er & H). injection H as <-.
    destruct (IH _ Er) as [Hlen Hn]. split; [cbn [length]; congruence|].
    intros j o' sp' n' Hj. destruct j as [|j]; cbn [nth_error] in *.
    + injection Hj as <- <- <-. eauto.
    + apply Hn. exact Hj.
Qed.

(* what is known about the root decoder's finished map *)
Record wroot_facts (r : wbroot) (m : mmap) : Prop := {
  wf_wt : wf_tree m;
  wf_maw : m_aw m = wbroot_map_aw r;
  wf_mdw : m_dw m = wr_gran r;
  wf_ress : m_ress m = [];
  wf_len : length (m_wins m) = length (wr_subs r);
  wf_win : forall j wn c o sp n, nth_error (m_wins m) j = Some (wn, c) ->
             nth_error (wr_subs r) j = Some (o, sp, n) ->
             exists w, wb_map n = Ok w /\ win_is wn c (Z.of_nat j) w
}.

Lemma wbroot_map_facts r m : wb_dom r -> wbroot_map r = Ok m -> wroot_facts r m.
Proof.
  intros [_ Hdom] H. unfold wbroot_map in H.
  apply bind_ok in H as (kids & Ek & H). apply bind_ok in H as (m0 & E0 & H).
  destruct (wb_kids_nth _ _ Ek) as [Hlen Hnth].
  pose proof (new_map_wf _ _ _ _ E0) as H0.
  destruct (new_map_fields _ _ _ _ E0) as (Fa & Fd & _ & _ & Fr & Fw & Pa & Pd).
  rewrite Forall_forall in Hdom.
  assert (Hk : forall x, In x kids -> exists j o sp n, nth_error (wr_subs r) j = Some (o, sp, n) /\
                                       x = (o, Some sp, snd x) /\ wb_map n = Ok (snd x)).
  { intros x Hx. apply In_nth_error in Hx as [j Hj].
    assert (Hlt : (j < length (wr_subs r))%nat). { rewrite <- Hlen. apply nth_error_Some. congruence. }
    destruct (nth_error (wr_subs r) j) as [[[o sp] n]|] eqn:Es; [|apply nth_error_None in Es; lia].
    destruct (Hnth _ _ _ _ Es) as (w & Hw & Hm). rewrite Hw in Hj. injection Hj as <-.
    exists j, o, sp, n. auto. }
  assert (Hgood : forall j o sp n w, nth_error (wr_subs r) j = Some (o, sp, n) -> wb_map n = Ok w ->
                    wf_tree w /\ m_aw w = wb_maw n /\ m_dw w = wb_ngran n).
  { intros j o sp n w Es Hm. apply wb_map_good; [|exact Hm].
    destruct (Hdom _ (nth_error_In _ _ Es)) as (_ & _ & Hc). cbn [snd] in Hc.
    destruct n; [exact I|exact Hc]. }
  assert (K1 : Forall (fun x : wopt * option bool * mmap => wf_tree (snd x)) kids).
  { apply Forall_forall. intros x Hx. destruct (Hk x Hx) as (j & o & sp & n & Es & _ & Hm).
    exact (proj1 (Hgood _ _ _ _ _ Es Hm)). }
  assert (K2 : Forall (fun x : wopt * option bool * mmap => opt_ok (fst (fst x)) (snd x)) kids).
  { apply Forall_forall. intros x Hx. destruct (Hk x Hx) as (j & o & sp & n & Es & Ex & Hm).
    rewrite Ex. cbn [fst snd]. intros z Hz.
    destruct (Hgood _ _ _ _ _ Es Hm) as (_ & -> & _).
    destruct (Hdom _ (nth_error_In _ _ Es)) as (_ & Ha & _). exact (Ha z Hz). }
  assert (K3 : Forall (fun x : wopt * option bool * mmap =>
                         snd (fst x) <> Some false \/ m_dw (snd x) = m_dw m0) kids).
  { apply Forall_forall. intros x Hx. destruct (Hk x Hx) as (j & o & sp & n & Es & Ex & Hm).
    destruct (Hdom _ (nth_error_In _ _ Es)) as ([(_ & _ & Hg)|(Hsp & _)] & _); cbn [fst snd] in *.
    - right. destruct (Hgood _ _ _ _ _ Es Hm) as (_ & _ & ->). congruence.
    - left. rewrite Ex. cbn [fst snd]. rewrite Hsp. discriminate. }
  destruct (add_windows_spec kids _ _ _ H0 K1 K2 K3 H) as (W1 & W2 & W3 & W4 & wins' & W5 & W6 & W7).
  rewrite Fw in W5. cbn [app] in W5.
  constructor; try congruence.
  intros j wn c o sp n Hj Hs. destruct (Hnth _ _ _ _ Hs) as (w & Hw & Hm).
  exists w. split; [exact Hm|]. rewrite W5 in Hj. exact (W7 _ _ _ _ _ _ Hj Hw).
Qed.
