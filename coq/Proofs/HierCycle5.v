(* C01, rung 3 (e): from the ROOT memory map to the premises of the cycle-exact transfer theorems.
   A granule address ga that the root map reports inside resource i (all_resources / decode_address) makes
   the root decoder select, for the word ga / 2^gbits, the subordinate whose window holds ga; if that is an
   SRAM, it is the SRAM `i_res i`, its window starts at i_start i and the row / lane the relayed request
   names are (ga - i_start i) / lanes and (ga - i_start i) mod lanes; if it is a bridge, the CSR tree below it
   reaches (i_res i, ga - i_start i) at the CSR address ga - window start = relayed word * ratio + lane. *)
From Coq Require Import ZArith List Bool Lia ZifyBool Arith Permutation.
From Soc Require Import Lib.Res Lib.PyList Lib.Bits Model.MemoryMap Model.MemSpec Model.Hierarchy
  Proofs.RangeMap Proofs.LookupArith Proofs.LookupWf Proofs.Lookup Proofs.MemArith Proofs.HierMap
  Proofs.HierCsr Proofs.HierInert Proofs.HierWf Proofs.HierWb Proofs.HierWb2 Proofs.HierWb3 Proofs.HierWb4
  Proofs.HierCycle1.
From Soc Require Model.Sram Model.WbCsrBridge Model.WbDecoder Proofs.Sram Proofs.WbCsrBridge
  Proofs.WbDecoder.
Import ListNotations.
Open Scope Z_scope.

Local Opaque Z.pow.

(* the map's report decides which subordinate the hardware selects, and what that subordinate reaches *)
Theorem decode_selects r m h l : wb_dom r ->
  wbroot_map r = Ok m -> wbroot_hw r = Ok h -> all_resources m = Ok l ->
  forall ga, 0 <= ga < 2 ^ (wr_aw r + wbroot_gbits r) ->
  forall i, In i l -> i_start i <= ga < i_end i ->
  decode_address m ga = Some (i_res i) /\
  exists j o sp n wn w g hh, sub_is r m h j o sp n wn w g hh /\
    WbDecoder.selected (wh_cfg h) (ga / 2 ^ wbroot_gbits r) = Some j /\
    w_start wn <= ga < w_start wn + 2 ^ wb_maw n /\
    node_reach hh (ga - w_start wn) = Some (i_res i, ga - i_start i).
Proof.
  intros Hdom Hm Hh Hl ga Hga i Hi Hr.
  assert (Hreach : wreach h ga = Some (i_res i, ga - i_start i)).
  { apply (wb_reach_iff_decode r m h l Hdom Hm Hh Hl ga Hga). split.
    - pose proof (wf_wt _ _ (wbroot_map_facts r m Hdom Hm)) as Hwt.
      apply (decode_wf m Hwt l Hl). exists i. auto.
    - exists i. auto. }
  split.
  { apply (wb_reach_iff_decode r m h l Hdom Hm Hh Hl ga Hga (i_res i) (ga - i_start i)). exact Hreach. }
  destruct (sub_view r m h Hdom Hm Hh) as (Hlc & Hlw & Hsub).
  destruct (WbDecoder.selected (wh_cfg h) (ga / 2 ^ wbroot_gbits r)) as [j|] eqn:Hsel.
  2:{ unfold wreach in Hreach. cbv zeta in Hreach. rewrite (cfg_gbits r m h Hm Hh), Hsel in Hreach. discriminate. }
  assert (Hlt : (j < length (wr_subs r))%nat).
  { rewrite <- Hlc. exact (Proofs.WbDecoder.matches_idx_lt _ _ _ (Proofs.WbDecoder.selected_some _ _ _ Hsel)). }
  destruct (Hsub j Hlt) as (o & sp & n & wn & w & g & hh & S).
  pose proof (proj1 (sel_iff_range _ _ _ _ _ _ _ _ _ _ _ Hdom Hm Hh S ga Hga) Hsel) as Hrange.
  exists j, o, sp, n, wn, w, g, hh. split; [exact S|]. split; [reflexivity|]. split; [exact Hrange|].
  rewrite <- (wreach_sub _ _ _ _ _ _ _ _ _ _ _ Hdom Hm Hh S ga Hsel Hrange). exact Hreach.
Qed.

(* the address subordinate j is sent: the word address cut to its width (ratio-1 windows) *)
Lemma sub_req_adr r m h j o sp n wn w g hh : sub_is r m h j o sp n wn w g hh ->
  forall s q, nth_error (WbDecoder.c_subs (wh_cfg h)) j = Some s ->
  WbDecoder.o_adr (sub_req (wh_cfg h) j s q) = trunc (WbDecoder.g_aw g) (WbDecoder.adr q).
Proof.
  intros S s q Hs. rewrite (si_cfg _ _ _ _ _ _ _ _ _ _ _ S) in Hs. injection Hs as <-.
  cbn [sub_req WbDecoder.sub_out WbDecoder.o_adr WbDecoder.s_win WbDecoder.w_ratio].
  rewrite (si_step _ _ _ _ _ _ _ _ _ _ _ S). change (Z.log2 1) with 0. rewrite Z.shiftl_0_r. reflexivity.
Qed.

(* SRAM case: row and lane of the reported granule *)
Theorem decode_selects_sram r m h l : wb_dom r ->
  wbroot_map r = Ok m -> wbroot_hw r = Ok h -> all_resources m = Ok l ->
  forall ga, 0 <= ga < 2 ^ (wr_aw r + wbroot_gbits r) ->
  forall i, In i l -> i_start i <= ga < i_end i ->
  forall j id ge rows0 s, WbDecoder.selected (wh_cfg h) (ga / 2 ^ wbroot_gbits r) = Some j ->
  nth_error (wh_subs h) j = Some (HSram id ge rows0) ->
  nth_error (WbDecoder.c_subs (wh_cfg h)) j = Some s ->
  forall q, WbDecoder.adr q = ga / 2 ^ wbroot_gbits r ->
  id = i_res i /\ Sram.nsel ge = 2 ^ wbroot_gbits r /\
  trunc (Sram.g_aw ge) (WbDecoder.o_adr (sub_req (wh_cfg h) j s q)) = (ga - i_start i) / Sram.nsel ge /\
  ga mod 2 ^ wbroot_gbits r = (ga - i_start i) mod Sram.nsel ge.
Proof.
  intros Hdom Hm Hh Hl ga Hga i Hi Hr j id ge rows0 s Hsel Hhh Hs q Hq.
  destruct (decode_selects r m h l Hdom Hm Hh Hl ga Hga i Hi Hr)
    as (_ & j' & o & sp & n & wn & w & g & hh & S & Hsel' & Hrange & Hnode).
  rewrite Hsel in Hsel'. injection Hsel' as <-.
  pose proof (si_hh _ _ _ _ _ _ _ _ _ _ _ S) as Hhh'. rewrite Hhh in Hhh'. injection Hhh' as <-.
  cbn [node_reach] in Hnode. injection Hnode as Hid Hoff.
  pose proof (si_dom _ _ _ _ _ _ _ _ _ _ _ S) as Hd. pose proof (si_map _ _ _ _ _ _ _ _ _ _ _ S) as Hmw.
  pose proof (si_hw _ _ _ _ _ _ _ _ _ _ _ S) as Hhw.
  destruct (sub_geom r o sp n w g _ Hd Hmw Hhw) as (Hgb & Hpos & Hqq & Ga & Gdg).
  destruct (sub_window _ _ _ _ _ _ _ _ _ _ _ Hdom Hm S) as (_ & _ & Haw & _).
  pose proof (si_al _ _ _ _ _ _ _ _ _ _ _ S) as Hal. rewrite Haw in Hal.
  destruct n as [id0 size dw gran wr init|dw nm c].
  2:{ cbn [wb_maw] in *. destruct Hd as (_ & _ & Hc). cbn [snd] in Hc.
      destruct (bridge_map_spec _ _ _ _ Hc Hmw) as (wc & wnb & _ & _ & _ & _ & Hcpos & _).
      destruct (bridge_hw_spec _ _ _ _ _ Hcpos Hhw) as (bc & ch & gb' & E & _). discriminate. }
  destruct (sram_hw_spec _ _ _ _ _ _ _ _ Hhw) as (ge' & rows0' & gb' & E & G0 & Gq & _ & _ & _ & _ & _ & _ & Gaw & Gn).
  injection E as <- <- <-. cbn [wb_maw wb_ndw wb_ngran] in *.
  set (gb := wbroot_gbits r) in *.
  assert (Egb : gb' = gb).
  { apply (Z.pow_inj_r 2); [lia|lia|lia|]. rewrite <- Gq, <- Hqq. reflexivity. }
  rewrite Egb in *. clear Egb.
  assert (HG : 0 < 2 ^ gb) by (apply Z.pow_pos_nonneg; lia).
  pose proof (win_offset ga (w_start wn) gb (Z.log2 size) Hgb Hal Hrange) as Hwo.
  rewrite (sub_req_adr _ _ _ _ _ _ _ _ _ _ _ S s q Hs), Ga, Gaw, Hq. cbn [wb_maw].
  rewrite trunc_idem by lia.
  assert (Es : i_start i = w_start wn) by lia.
  pose proof (Z.mod_pos_bound ga (2 ^ gb) HG) as Hlane.
  split; [exact Hid|]. split; [exact Gn|]. rewrite Gn, Es.
  set (row := trunc (Z.log2 size - gb) (ga / 2 ^ gb)) in *.
  assert (Hrow : ga - w_start wn = row * 2 ^ gb + ga mod 2 ^ gb) by lia.
  rewrite Hrow. split.
  - rewrite Z.div_add_l by lia. rewrite Z.div_small by lia. lia.
  - rewrite Z.add_comm, Z.mod_add by lia. rewrite Z.mod_mod by lia. reflexivity.
Qed.

(* bridge case: what the tree below the bridge reaches at the CSR address of the granule *)
Theorem decode_selects_bridge r m h l : wb_dom r ->
  wbroot_map r = Ok m -> wbroot_hw r = Ok h -> all_resources m = Ok l ->
  forall ga, 0 <= ga < 2 ^ (wr_aw r + wbroot_gbits r) ->
  forall i, In i l -> i_start i <= ga < i_end i ->
  forall j bc ch s, WbDecoder.selected (wh_cfg h) (ga / 2 ^ wbroot_gbits r) = Some j ->
  nth_error (wh_subs h) j = Some (HBridge bc ch) ->
  nth_error (WbDecoder.c_subs (wh_cfg h)) j = Some s ->
  forall q, WbDecoder.adr q = ga / 2 ^ wbroot_gbits r ->
  exists wn, In wn (map fst (m_wins m)) /\ w_id wn = Z.of_nat j /\
    w_start wn <= ga < w_start wn + 2 ^ WbCsrBridge.c_caw bc /\
    WbCsrBridge.c_r bc = wbroot_gbits r /\
    (* the CSR address of the granule, as C10 computes it from the relayed request *)
    WbDecoder.o_adr (sub_req (wh_cfg h) j s q) * WbCsrBridge.ratio bc + ga mod 2 ^ wbroot_gbits r = ga - w_start wn /\
    0 <= WbDecoder.o_adr (sub_req (wh_cfg h) j s q) /\
    (WbDecoder.o_adr (sub_req (wh_cfg h) j s q) + 1) * WbCsrBridge.ratio bc <= 2 ^ WbCsrBridge.c_caw bc /\
    creach ch (ga - w_start wn) = Some (i_res i, ga - i_start i).
Proof.
  intros Hdom Hm Hh Hl ga Hga i Hi Hr j bc ch s Hsel Hhh Hs q Hq.
  destruct (decode_selects r m h l Hdom Hm Hh Hl ga Hga i Hi Hr)
    as (_ & j' & o & sp & n & wn & w & g & hh & S & Hsel' & Hrange & Hnode).
  rewrite Hsel in Hsel'. injection Hsel' as <-.
  pose proof (si_hh _ _ _ _ _ _ _ _ _ _ _ S) as Hhh'. rewrite Hhh in Hhh'. injection Hhh' as <-.
  cbn [node_reach] in Hnode.
  pose proof (si_dom _ _ _ _ _ _ _ _ _ _ _ S) as Hd. pose proof (si_map _ _ _ _ _ _ _ _ _ _ _ S) as Hmw.
  pose proof (si_hw _ _ _ _ _ _ _ _ _ _ _ S) as Hhw.
  destruct (sub_geom r o sp n w g _ Hd Hmw Hhw) as (Hgb & Hpos & Hqq & Ga & Gdg).
  destruct (sub_window _ _ _ _ _ _ _ _ _ _ _ Hdom Hm S) as (Hin & _ & Haw & _).
  pose proof (si_al _ _ _ _ _ _ _ _ _ _ _ S) as Hal. rewrite Haw in Hal.
  destruct n as [id0 size dw gran wr init|dw nm c].
  1:{ destruct (sram_hw_spec _ _ _ _ _ _ _ _ Hhw) as (ge' & rows0' & gb' & E & _). discriminate. }
  cbn [wb_maw wb_ndw wb_ngran] in *.
  destruct Hd as (_ & _ & Hc). cbn [snd] in Hc.
  destruct (bridge_map_spec _ _ _ _ Hc Hmw) as (wc & wnb & _ & _ & _ & _ & Hcpos & _).
  destruct (bridge_hw_spec _ _ _ _ _ Hcpos Hhw) as (bc' & ch' & gb' & E & _ & G0 & Gq & _ & _ & _ & _ & Gr & Gcaw).
  injection E as <- <-.
  set (gb := wbroot_gbits r) in *.
  assert (Egb : gb' = gb).
  { apply (Z.pow_inj_r 2); [lia|lia|lia|]. rewrite <- Gq, <- Hqq. reflexivity. }
  rewrite Egb in *. clear Egb.
  assert (HG : 0 < 2 ^ gb) by (apply Z.pow_pos_nonneg; lia).
  pose proof (win_offset ga (w_start wn) gb (csr_aw c) Hgb Hal Hrange) as Hwo.
  rewrite (sub_req_adr _ _ _ _ _ _ _ _ _ _ _ S s q Hs), Ga, Hq. cbn [wb_maw].
  unfold WbCsrBridge.ratio. rewrite Gr, Gcaw.
  exists wn. split; [apply in_map_iff; exists (wn, set_frozen w); auto|].
  split; [exact (si_id _ _ _ _ _ _ _ _ _ _ _ S)|]. split; [exact Hrange|]. split; [reflexivity|].
  split; [exact Hwo|].
  pose proof (trunc_range (csr_aw c - gb) (ga / 2 ^ gb) ltac:(lia)) as Htr.
  split; [lia|]. split; [|exact Hnode].
  assert (HWs : 2 ^ csr_aw c = 2 ^ (csr_aw c - gb) * 2 ^ gb) by (rewrite <- Z.pow_add_r by lia; f_equal; lia).
  rewrite HWs. apply Z.mul_le_mono_nonneg_r; lia.
Qed.

(* ------------------------------------------------------------------ constructed bridges *)

(* the bridge of a constructed hierarchy: its configuration is well formed (C10's `wf`), its CSR side has the
   address width of the tree below it and its granule is the tree's data width *)
Lemma bridge_cfg_wf dw nm c g bc ch : 0 < csr_aw c ->
  wb_hw (BridgeNode dw nm c) = Ok (g, HBridge bc ch) ->
  Proofs.WbCsrBridge.wf bc /\ WbCsrBridge.c_caw bc = csr_aw c /\ WbCsrBridge.c_g bc = csr_dw c /\ csr_hw c = Ok ch.
Proof.
  cbn [wb_hw]. intros Hpos H. apply bind_ok in H as (ch' & Ech & H).
  destruct (WbCsrBridge.construct _) as [g0|] eqn:E; [|discriminate]. injection H as _ <- <-.
  apply Proofs.WbCsrBridge.construct_ok in E; [|cbn [WbCsrBridge.k_caw]; lia].
  destruct E as (_ & _ & _ & _ & _ & Eg & Hwf). split; [exact Hwf|].
  rewrite Eg. cbn. auto.
Qed.

Lemma sub_is_bridge r m h j o sp n wn w g bc ch : wb_dom r -> wbroot_map r = Ok m ->
  sub_is r m h j o sp n wn w g (HBridge bc ch) ->
  exists dw nm c, n = BridgeNode dw nm c /\ csr_dom c /\
    Proofs.WbCsrBridge.wf bc /\ WbCsrBridge.c_caw bc = csr_aw c /\ WbCsrBridge.c_g bc = csr_dw c /\ csr_hw c = Ok ch.
Proof.
  intros Hdom Hm S.
  pose proof (si_dom _ _ _ _ _ _ _ _ _ _ _ S) as Hd. pose proof (si_map _ _ _ _ _ _ _ _ _ _ _ S) as Hmw.
  pose proof (si_hw _ _ _ _ _ _ _ _ _ _ _ S) as Hhw.
  destruct n as [id0 size dw gran wr init|dw nm c].
  - destruct (sram_hw_spec _ _ _ _ _ _ _ _ Hhw) as (ge' & rows0' & gb' & E & _). discriminate.
  - destruct Hd as (_ & _ & Hc). cbn [snd] in Hc.
    destruct (bridge_map_spec _ _ _ _ Hc Hmw) as (wc & wnb & _ & _ & _ & _ & Hcpos & _).
    exists dw, nm, c. split; [reflexivity|]. split; [exact Hc|].
    exact (bridge_cfg_wf dw nm c g bc ch Hcpos Hhw).
Qed.
