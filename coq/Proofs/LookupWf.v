(* Well-formedness of memory-map trees built through the API: the invariant the lookup theorems
   (C03) rest on, and its preservation by every call of the world step. *)
From Coq Require Import ZArith List Bool Lia ZifyBool Arith Permutation.
From Soc Require Import Lib.Res Lib.PyList Model.MemoryMap Model.MemSpec Proofs.RangeMap Proofs.LookupArith.
Import ListNotations.
Open Scope Z_scope.

Local Opaque Z.pow.

(* ------------------------------------------------------------------ result monad *)

Lemma bind_ok {A B} (r : res A) (f : A -> res B) y :
  bind r f = Ok y -> exists x, r = Ok x /\ f x = Ok y.
Proof. destruct r as [a|e]; simpl; intros H; [eauto|discriminate]. Qed.

Lemma check_ok b e u : check b e = Ok u -> b = true.
Proof. destruct b; simpl; [auto|discriminate]. Qed.

Lemma mapR_ok {X Y} (f : X -> res Y) l l' :
  mapR f l = Ok l' -> Forall2 (fun x y => f x = Ok y) l l'.
Proof.
  revert l'; induction l as [|x l IH]; simpl; intros l' H.
  - injection H as <-. constructor.
  - destruct (f x) as [y|] eqn:E; [|discriminate].
    destruct (mapR f l) as [r|] eqn:E2; [|discriminate].
    injection H as <-. constructor; auto.
Qed.

Lemma concatR_map_ok {X Y} (f : X -> res (list Y)) xs r :
  concatR (map f xs) = Ok r -> exists ls, Forall2 (fun x lx => f x = Ok lx) xs ls /\ r = concat ls.
Proof.
  revert r; induction xs as [|x xs IH]; simpl; intros r H.
  - injection H as <-. exists []. split; [constructor|reflexivity].
  - destruct (f x) as [lx|] eqn:E; [|discriminate].
    destruct (concatR (map f xs)) as [r'|] eqn:E2; [|discriminate].
    injection H as <-. destruct (IH _ eq_refl) as (ls & HF & ->).
    exists (lx :: ls). split; [constructor; auto|reflexivity].
Qed.

Lemma Forall2_in_l {X Y} (R : X -> Y -> Prop) l l' x :
  Forall2 R l l' -> In x l -> exists y, In y l' /\ R x y.
Proof.
  induction 1 as [|a b l l' Hab HF IH]; simpl; intros Hin; [contradiction|].
  destruct Hin as [<-|Hin]; [eauto|]. destruct (IH Hin) as (y & Hy & HR); eauto.
Qed.

Lemma Forall2_in_r {X Y} (R : X -> Y -> Prop) l l' y :
  Forall2 R l l' -> In y l' -> exists x, In x l /\ R x y.
Proof.
  induction 1 as [|a b l l' Hab HF IH]; simpl; intros Hin; [contradiction|].
  destruct Hin as [<-|Hin]; [eauto|]. destruct (IH Hin) as (x & Hx & HR); eauto.
Qed.

(* ------------------------------------------------------------------ induction over trees *)

Section MmapInd.
  Variable P : mmap -> Prop.
  Hypothesis HMM : forall aw dw al ranges ress wins names next frozen,
    Forall (fun wc : winent * mmap => P (snd wc)) wins ->
    P (MM aw dw al ranges ress wins names next frozen).
  Fixpoint mmap_ind' (m : mmap) : P m :=
    match m with
    | MM aw dw al ranges ress wins names next frozen =>
        HMM aw dw al ranges ress wins names next frozen
          ((fix go (l : list (winent * mmap)) : Forall (fun wc : winent * mmap => P (snd wc)) l :=
              match l with
              | [] => Forall_nil _
              | (w, c) :: l' => @Forall_cons _ (fun wc : winent * mmap => P (snd wc)) (w, c) l'
                                  (mmap_ind' c) (go l')
              end) wins)
    end.
End MmapInd.

(* ------------------------------------------------------------------ the invariant *)

Definition ent_of_res (r : resent) : entry :=
  {| e_start := r_start r; e_stop := r_stop r; e_step := 1; e_asg := AR (r_id r) |}.
Definition ent_of_win (wc : winent * mmap) : entry :=
  {| e_start := w_start (fst wc); e_stop := w_stop (fst wc); e_step := w_step (fst wc);
     e_asg := AW (w_id (fst wc)) |}.

Definition wid_of (wc : winent * mmap) : Z := w_id (fst wc).

(* a window divides by at least 1 and is at least as long as the address space behind it *)
Definition win_ok (wc : winent * mmap) : Prop :=
  1 <= w_step (fst wc) /\
  2 ^ m_aw (snd wc) / w_step (fst wc) <= w_stop (fst wc) - w_start (fst wc).

(* one node: the range map is sorted, disjoint, inside [0, 2^aw), and holds exactly one entry per
   element of the resource and window dictionaries, whose keys are distinct *)
Definition wf_node (m : mmap) : Prop :=
  0 < m_aw m /\ 0 < m_dw m /\ 0 <= m_al m /\ 0 <= m_next m /\
  chain 0 (m_ranges m) /\
  (forall x, In x (m_ranges m) -> e_stop x <= 2 ^ m_aw m) /\
  Permutation (m_ranges m) (map ent_of_res (m_ress m) ++ map ent_of_win (m_wins m)) /\
  NoDup (map r_id (m_ress m)) /\
  NoDup (map wid_of (m_wins m)) /\
  Forall win_ok (m_wins m).

Fixpoint wf_tree (m : mmap) : Prop :=
  wf_node m /\
  match m with
  | MM _ _ _ _ _ wins _ _ _ =>
      (fix go (l : list (winent * mmap)) : Prop :=
         match l with [] => True | (_, c) :: l' => wf_tree c /\ go l' end) wins
  end.

Lemma wf_tree_eq m : wf_tree m <-> wf_node m /\ Forall (fun wc => wf_tree (snd wc)) (m_wins m).
Proof.
  destruct m as [aw dw al ranges ress wins names next frozen].
  cbn [wf_tree m_wins].
  assert (HG : forall l,
    (fix go (l : list (winent * mmap)) : Prop :=
       match l with [] => True | (_, c) :: l' => wf_tree c /\ go l' end) l <->
    Forall (fun wc => wf_tree (snd wc)) l).
  { induction l as [|[w c] l IH].
    - split; auto.
    - split.
      + intros [H1 H2]. constructor; [exact H1|apply IH; exact H2].
      + intros H. inversion H as [|? ? H1 H2]; subst. split; [exact H1|apply IH; exact H2]. }
  rewrite HG. reflexivity.
Qed.

Lemma wf_tree_node m : wf_tree m -> wf_node m.
Proof. intros H; apply wf_tree_eq in H; tauto. Qed.

Lemma wf_tree_child m wn c : wf_tree m -> In (wn, c) (m_wins m) -> wf_tree c.
Proof.
  intros H Hin. apply wf_tree_eq in H as [_ H]. rewrite Forall_forall in H. exact (H _ Hin).
Qed.

Lemma wf_set_frozen m : wf_tree m -> wf_tree (set_frozen m).
Proof.
  intros H. apply wf_tree_eq in H as [H1 H2]. apply wf_tree_eq.
  destruct m as [aw dw al ranges ress wins names next frozen]. exact (conj H1 H2).
Qed.

Lemma wf_set_next m n : wf_tree m -> 0 <= n -> wf_tree (set_next m n).
Proof.
  intros H Hn. apply wf_tree_eq in H as [H1 H2]. apply wf_tree_eq.
  destruct m as [aw dw al ranges ress wins names next frozen]. split; [|exact H2].
  unfold wf_node in *. cbn [set_next m_aw m_dw m_al m_next m_ranges m_ress m_wins] in *. tauto.
Qed.

(* ------------------------------------------------------------------ dictionaries with distinct keys *)

Lemma find_res_nodup l r : NoDup (map r_id l) -> In r l -> find_res (r_id r) l = Some r.
Proof.
  induction l as [|r0 l IH]; simpl; intros Hnd Hin; [contradiction|].
  inversion Hnd as [|? ? Hni Hnd']; subst.
  destruct Hin as [->|Hin].
  - rewrite Z.eqb_refl. reflexivity.
  - destruct (r_id r0 =? r_id r) eqn:E.
    + exfalso. apply Hni. apply Z.eqb_eq in E. rewrite E. apply in_map. exact Hin.
    + apply IH; auto.
Qed.

Lemma find_res_some id l r : find_res id l = Some r -> In r l /\ r_id r = id.
Proof.
  induction l as [|r0 l IH]; simpl; intros H; [discriminate|].
  destruct (r_id r0 =? id) eqn:E.
  - injection H as <-. split; [auto|lia].
  - destruct (IH H); auto.
Qed.

Lemma find_res_none id l : find_res id l = None -> forall r, In r l -> r_id r <> id.
Proof.
  induction l as [|r0 l IH]; simpl; intros H r Hin; [contradiction|].
  destruct (r_id r0 =? id) eqn:E; [discriminate|].
  destruct Hin as [<-|Hin]; [lia|auto].
Qed.

Lemma find_win_nodup (l : list (winent * mmap)) wc :
  NoDup (map wid_of l) -> In wc l -> find_win (wid_of wc) l = Some wc.
Proof.
  induction l as [|[w0 c0] l IH]; simpl; intros Hnd Hin; [contradiction|].
  inversion Hnd as [|? ? Hni Hnd']; subst.
  destruct Hin as [<-|Hin].
  - unfold wid_of at 1. cbn [fst]. rewrite Z.eqb_refl. reflexivity.
  - destruct (w_id w0 =? wid_of wc) eqn:E.
    + exfalso. apply Hni. apply Z.eqb_eq in E. unfold wid_of at 1. cbn [fst]. rewrite E.
      apply in_map. exact Hin.
    + apply IH; auto.
Qed.

(* ------------------------------------------------------------------ lists of maps *)

Lemma Forall_set_nth {X} (P : X -> Prop) n x l : Forall P l -> P x -> Forall P (set_nth n x l).
Proof.
  revert n; induction l as [|y l IH]; intros n HF Hx; destruct n; simpl; auto;
    inversion HF; subst; constructor; auto.
Qed.

Lemma Forall_nth_error {X} (P : X -> Prop) n x l : Forall P l -> nth_error l n = Some x -> P x.
Proof. intros HF Hn. rewrite Forall_forall in HF. apply HF. eapply nth_error_In; eauto. Qed.

(* ------------------------------------------------------------------ address allocation *)

Lemma compute_addr_range_ok m addr size al s e :
  wf_node m -> 0 <= al -> compute_addr_range m addr size al = Ok (s, e) ->
  0 <= s /\ s < e /\ e <= 2 ^ m_aw m /\ zof size <= e - s /\
  filter (isect s e) (m_ranges m) = [].
Proof.
  intros (Haw & Hdw & Hal0 & Hnx & Hch & _) Hal H.
  unfold compute_addr_range in H.
  apply bind_ok in H as (a & Ha & H).
  apply bind_ok in H as (u1 & Hsz & H).
  apply bind_ok in H as (u2 & Hb & H).
  apply check_ok in Hb. rewrite shiftl1_pow in Hb.
  pose proof (align_up_ge (Z.max (zof size) 1) al Hal) as Hge.
  set (sz := align_up (Z.max (zof size) 1) al) in *.
  assert (Ha0 : 0 <= a).
  { destruct addr as [z| |].
    - apply bind_ok in Ha as (u3 & Hc1 & Ha). apply bind_ok in Ha as (u4 & Hc2 & Ha).
      apply check_ok in Hc1. injection Ha as <-. simpl in *. lia.
    - injection Ha as <-. pose proof (align_up_ge (m_next m) al Hal). lia.
    - apply bind_ok in Ha as (u3 & Hc1 & Ha). apply check_ok in Hc1. discriminate. }
  destruct (rm_overlaps (m_ranges m) a (a + sz)) as [|x0 l0] eqn:Eo; [|discriminate].
  injection H as <- <-.
  rewrite (overlaps_spec 0 _ _ _ Hch) in Eo by lia.
  repeat split; try lia. exact Eo.
Qed.

(* ------------------------------------------------------------------ add_resource *)

Lemma has_res_false m id : has_res m id = false -> ~ In id (map r_id (m_ress m)).
Proof.
  unfold has_res. intros H Hin. apply in_map_iff in Hin as (r & <- & Hin).
  assert (existsb (fun r0 => r_id r0 =? r_id r) (m_ress m) = true).
  { apply existsb_exists. exists r. split; [auto|apply Z.eqb_refl]. }
  congruence.
Qed.

Lemma has_win_false m id : has_win m id = false -> ~ In id (map wid_of (m_wins m)).
Proof.
  unfold has_win. intros H Hin. apply in_map_iff in Hin as ([w c] & <- & Hin).
  assert (existsb (fun '(w0, _) => w_id w0 =? wid_of (w, c)) (m_wins m) = true).
  { apply existsb_exists. exists (w, c). split; [auto|apply Z.eqb_refl]. }
  congruence.
Qed.

Lemma NoDup_snoc {X} (l : list X) x : NoDup l -> ~ In x l -> NoDup (l ++ [x]).
Proof.
  intros Hnd Hni. apply NoDup_rev in Hnd. rewrite <- (rev_involutive (l ++ [x])).
  apply NoDup_rev. rewrite rev_app_distr. simpl. constructor; [|exact Hnd].
  rewrite <- in_rev. exact Hni.
Qed.

Lemma add_resource_wf m id comp nm size addr alignment m' r :
  wf_node m -> add_resource m id comp nm size addr alignment = Ok (m', r) ->
  wf_node m' /\ m_wins m' = m_wins m.
Proof.
  intros Hwf H. unfold add_resource in H.
  apply bind_ok in H as (u1 & Hc1 & H).
  apply bind_ok in H as (u2 & Hc2 & H).
  apply bind_ok in H as (u3 & Hc3 & H). apply check_ok in Hc3.
  apply bind_ok in H as (n & Hn & H).
  apply bind_ok in H as (av & Hav & H).
  apply bind_ok in H as (u4 & Hc4 & H).
  apply bind_ok in H as (al & Hal & H).
  apply bind_ok in H as ([s e] & Hcar & H).
  apply bind_ok in H as (rs & Hins & H).
  pose proof Hwf as (Haw & Hdw & Hal0 & Hnx & Hch & Hstop & Hperm & Hnd1 & Hnd2 & Hwok).
  assert (Hal' : 0 <= al).
  { destruct alignment as [z| |].
    - apply bind_ok in Hal as (u5 & _ & Hal). injection Hal as <-. lia.
    - injection Hal as <-. lia.
    - apply bind_ok in Hal as (u5 & Hc5 & _). apply check_ok in Hc5. discriminate. }
  destruct (compute_addr_range_ok _ _ _ _ _ _ Hwf Hal' Hcar) as (Hs0 & Hse & He & _ & Hfil).
  set (k := {| e_start := s; e_stop := e; e_step := 1; e_asg := AR id |}) in *.
  destruct (insert_ok 0 (m_ranges m) k Hch Hs0 Hse Hfil)
    as (l' & Hi & Hch' & Hin' & l1 & l2 & Hl & Hl').
  rewrite Hins in Hi. injection Hi as <-.
  destruct m as [aw dw al_ ranges ress wins names next frozen].
  injection H as <- <-.
  cbn [m_aw m_dw m_al m_next m_ranges m_ress m_wins] in *.
  split; [|reflexivity].
  unfold wf_node. cbn [m_aw m_dw m_al m_next m_ranges m_ress m_wins].
  repeat split; auto; try lia.
  - intros x Hx. apply Hin' in Hx as [->|Hx]; [exact He|auto].
  - rewrite Hl'. rewrite map_app. cbn [map]. rewrite <- app_assoc. cbn [app].
    change (ent_of_res {| r_id := id; r_name := n; r_start := s; r_stop := e |}) with k.
    apply Permutation_sym. etransitivity; [apply Permutation_sym, Permutation_middle|].
    etransitivity; [|apply Permutation_middle]. constructor.
    rewrite <- Hl. apply Permutation_sym. exact Hperm.
  - rewrite map_app. cbn [map r_id]. apply NoDup_snoc; [exact Hnd1|].
    apply negb_true_iff in Hc3. apply has_res_false in Hc3. exact Hc3.
Qed.

(* ------------------------------------------------------------------ add_window *)

Lemma add_window_wf m wid w nm addr sparse m' r :
  wf_node m -> wf_node w -> add_window m wid w nm addr sparse = Ok (m', r) ->
  wf_node m' /\ exists wn, m_wins m' = m_wins m ++ [(wn, set_frozen w)].
Proof.
  intros Hwf Hwfw H. unfold add_window in H.
  apply bind_ok in H as (u1 & Hc1 & H).
  apply bind_ok in H as (u2 & Hc2 & H). apply check_ok in Hc2.
  apply bind_ok in H as (u3 & Hc3 & H). apply check_ok in Hc3.
  apply bind_ok in H as (u4 & Hc4 & H).
  apply bind_ok in H as (n & Hn & H).
  apply bind_ok in H as (av & Hav & H).
  apply bind_ok in H as (u5 & Hc5 & H).
  apply bind_ok in H as (u6 & Hc6 & H).
  apply bind_ok in H as (u7 & Hc7 & H).
  apply bind_ok in H as ([s e] & Hcar & H).
  apply bind_ok in H as (rs & Hins & H).
  pose proof Hwf as (Haw & Hdw & Hal0 & Hnx & Hch & Hstop & Hperm & Hnd1 & Hnd2 & Hwok).
  pose proof Hwfw as (Haww & Hdww & _).
  set (sp := match sparse with Some true => true | _ => false end) in *.
  set (ratio := if negb sp then m_dw m / m_dw w else 1) in *.
  assert (Hratio : 1 <= ratio).
  { unfold ratio. destruct (negb sp); [|lia].
    assert (0 < m_dw m / m_dw w) by (apply Z.div_str_pos; lia). lia. }
  assert (Hal' : 0 <= Z.max (m_al m) (m_aw w / ratio)) by lia.
  destruct (compute_addr_range_ok _ _ _ _ _ _ Hwf Hal' Hcar) as (Hs0 & Hse & He & Hsz & Hfil).
  cbn [zof] in Hsz. rewrite shiftl1_pow in Hsz.
  set (k := {| e_start := s; e_stop := e; e_step := ratio; e_asg := AW wid |}) in *.
  destruct (insert_ok 0 (m_ranges m) k Hch Hs0 Hse Hfil)
    as (l' & Hi & Hch' & Hin' & l1 & l2 & Hl & Hl').
  rewrite Hins in Hi. injection Hi as <-.
  destruct m as [aw dw al_ ranges ress wins names next frozen].
  injection H as <- <-.
  cbn [m_aw m_dw m_al m_next m_ranges m_ress m_wins] in *.
  split; [|eexists; reflexivity].
  unfold wf_node. cbn [m_aw m_dw m_al m_next m_ranges m_ress m_wins].
  repeat split; auto; try lia.
  - intros x Hx. apply Hin' in Hx as [->|Hx]; [exact He|auto].
  - rewrite Hl'. rewrite map_app. cbn [map]. rewrite app_assoc.
    match goal with |- Permutation _ (_ ++ [?x]) => change x with k end.
    apply Permutation_sym. etransitivity; [apply Permutation_sym, Permutation_cons_append|].
    etransitivity; [|apply Permutation_middle]. constructor.
    rewrite <- Hl. apply Permutation_sym. exact Hperm.
  - rewrite map_app. cbn [map]. apply NoDup_snoc; [exact Hnd2|].
    apply negb_true_iff in Hc2. apply has_win_false in Hc2. exact Hc2.
  - apply Forall_app. split; [exact Hwok|]. constructor; [|constructor].
    unfold win_ok. cbn [fst snd w_step w_start w_stop].
    replace (m_aw (set_frozen w)) with (m_aw w) by (destruct w; reflexivity).
    split; [exact Hratio|lia].
Qed.

(* ------------------------------------------------------------------ every reachable world *)

Definition wf_world (w : world) : Prop := Forall wf_tree w.

Lemma new_map_wf aw dw al m : new_map aw dw al = Ok m -> wf_tree m.
Proof.
  unfold new_map. intros H.
  apply bind_ok in H as (u1 & Hc1 & H). apply check_ok in Hc1.
  apply bind_ok in H as (u2 & Hc2 & H). apply check_ok in Hc2.
  apply bind_ok in H as (u3 & Hc3 & H). apply check_ok in Hc3.
  injection H as <-. apply wf_tree_eq. cbn [m_wins]. split; [|constructor].
  unfold wf_node. cbn [m_aw m_dw m_al m_next m_ranges m_ress m_wins map app chain].
  destruct aw as [a| |]; try discriminate. destruct dw as [d| |]; try discriminate.
  destruct al as [l| |]; try discriminate. cbn [zof posint nonneg] in *.
  repeat split; try lia; try constructor. intros x [].
Qed.

Lemma wstep_wf w o : wf_world w -> wf_world (fst (wstep w o)).
Proof.
  unfold wf_world. intros HW. destruct o as [aw dw al|mi id comp nm size addr al|mi wo nm addr sparse|mi a|mi];
    cbn [wstep].
  - destruct (new_map aw dw al) as [m|] eqn:E; cbn [fst]; [|exact HW].
    apply Forall_app. split; [exact HW|]. constructor; [|constructor]. eapply new_map_wf; eauto.
  - destruct (nth_error w mi) as [m|] eqn:En; cbn [fst]; [|exact HW].
    destruct (add_resource m id comp nm size addr al) as [[m' r]|] eqn:E; cbn [fst]; [|exact HW].
    apply Forall_set_nth; [exact HW|].
    pose proof (Forall_nth_error _ _ _ _ HW En) as Hm. apply wf_tree_eq in Hm as [Hm1 Hm2].
    destruct (add_resource_wf _ _ _ _ _ _ _ _ _ Hm1 E) as [Hn Hw].
    apply wf_tree_eq. rewrite Hw. auto.
  - destruct (nth_error w mi) as [m|] eqn:En; cbn [fst]; [|exact HW].
    destruct wo as [wi|]; cbn [fst]; [|exact HW].
    destruct (Nat.eqb wi mi); cbn [fst]; [exact HW|].
    destruct (nth_error w wi) as [wm|] eqn:Ew; cbn [fst]; [|exact HW].
    destruct (add_window m (Z.of_nat wi) wm nm addr sparse) as [[m' r]|] eqn:E; cbn [fst]; [|exact HW].
    pose proof (Forall_nth_error _ _ _ _ HW En) as Hm.
    pose proof (Forall_nth_error _ _ _ _ HW Ew) as Hwm.
    apply Forall_set_nth; [apply Forall_set_nth; [exact HW|]|apply wf_set_frozen; exact Hwm].
    apply wf_tree_eq in Hm as [Hm1 Hm2].
    destruct (add_window_wf _ _ _ _ _ _ _ _ Hm1 (wf_tree_node _ Hwm) E) as [Hn [wn Hw]].
    apply wf_tree_eq. rewrite Hw. split; [exact Hn|].
    apply Forall_app. split; [exact Hm2|]. constructor; [|constructor].
    cbn [snd]. apply wf_set_frozen; exact Hwm.
  - destruct (nth_error w mi) as [m|] eqn:En; cbn [fst]; [|exact HW].
    destruct (align_to m a) as [[m' n]|] eqn:E; cbn [fst]; [|exact HW].
    apply Forall_set_nth; [exact HW|].
    pose proof (Forall_nth_error _ _ _ _ HW En) as Hm.
    unfold align_to in E. apply bind_ok in E as (u & Hc & E). injection E as <- <-.
    apply wf_set_next; [exact Hm|].
    pose proof (wf_tree_node _ Hm) as (_ & _ & Hal & Hnx & _).
    pose proof (align_up_ge (m_next m) (Z.max (zof a) (m_al m)) ltac:(lia)). lia.
  - destruct (nth_error w mi) as [m|] eqn:En; cbn [fst]; [|exact HW].
    apply Forall_set_nth; [exact HW|]. apply wf_set_frozen.
    exact (Forall_nth_error _ _ _ _ HW En).
Qed.

Lemma world_after_wf ops : wf_world (world_after ops).
Proof.
  unfold world_after.
  assert (H : forall w0, wf_world w0 -> wf_world (fold_left (fun w o => fst (wstep w o)) ops w0)).
  { induction ops as [|o ops IH]; simpl; intros w0 H0; [exact H0|].
    apply IH. apply wstep_wf. exact H0. }
  apply H. constructor.
Qed.

Theorem reachable_wf w m : reachable w -> In m w -> wf_tree m.
Proof.
  intros [ops ->] Hin. pose proof (world_after_wf ops) as H. unfold wf_world in H.
  rewrite Forall_forall in H. exact (H _ Hin).
Qed.
