(* The read path of the CSR multiplexer model (Model/Mux.v): bus.r_data is zero at reset and whenever the
   previous cycle was not a read strobe inside a readable register; a multi-chunk read returns the
   chunks of ONE snapshot of the register, taken when its first chunk was read (C04). *)
From Coq Require Import ZArith List Bool Lia ZifyBool Arith.
From Soc Require Import Lib.Bits Model.Mux Model.MuxSpec Proofs.ShadowHash Proofs.MuxTable Proofs.MuxBasic.
Import ListNotations.
Open Scope Z_scope.

(* ------------------------------------------------------------------ general list facts *)

Lemma firstn_S_nth {A} (l : list A) : forall t x, nth_error l t = Some x ->
  firstn (S t) l = firstn t l ++ [x].
Proof.
  induction l as [|y l IH]; intros t x H.
  - destruct t; discriminate.
  - destruct t as [|t].
    + simpl in H. injection H as ->. reflexivity.
    + simpl in H. change (y :: firstn (S t) l = y :: (firstn t l ++ [x])).
      f_equal. apply IH. exact H.
Qed.

Lemma nth_error_combine {A B} (l1 : list A) : forall (l2 : list B) k,
  nth_error (combine l1 l2) k =
  match nth_error l1 k, nth_error l2 k with
  | Some a, Some b => Some (a, b)
  | _, _ => None
  end.
Proof.
  induction l1 as [|a l1 IH]; intros l2 k.
  - simpl. destruct k; reflexivity.
  - destruct l2 as [|b l2].
    + simpl. destruct k as [|k]; simpl; [reflexivity|].
      destruct (nth_error l1 k); reflexivity.
    + destruct k as [|k]; simpl; [reflexivity|]. apply IH.
Qed.

Lemma nth_error_padded (l : list Z) n k : (k < n)%nat ->
  nth_error (l ++ repeat 0 n) k = Some (nth k l 0).
Proof.
  intros Hk. destruct (Nat.lt_ge_cases k (length l)) as [Hlt|Hge].
  - rewrite nth_error_app1 by exact Hlt. apply nth_error_nth'. exact Hlt.
  - rewrite nth_error_app2 by exact Hge. rewrite nth_overflow by exact Hge.
    apply nth_error_repeat. lia.
Qed.

Lemma fold_lor_zero (g : Z -> Z) tbl : (forall x, In x tbl -> g x = 0) ->
  fold_left (fun acc x => Z.lor acc (g x)) tbl 0 = 0.
Proof.
  induction tbl as [|x tbl IH]; simpl; intros Hz; [reflexivity|].
  rewrite (Hz x) by auto. simpl. apply IH. intros y Hy. apply Hz. auto.
Qed.

(* ------------------------------------------------------------------ trace positions *)

Lemma st_at_S c is t it : nth_error is t = Some it ->
  st_at c is (S t) = next c (st_at c is t) it.
Proof. intros H. unfold st_at. rewrite (firstn_S_nth _ _ _ H). apply state_after_app. Qed.

(* ------------------------------------------------------------------ layout *)

Lemma layout_from_In regs : forall lo r, layout_from lo regs -> In r regs ->
  lo <= r_start r /\ r_start r < r_stop r /\ 0 <= r_width r.
Proof.
  induction regs as [|x regs IH]; simpl; intros lo r H Hin; [contradiction|].
  destruct H as (H1 & H2 & H3 & H4). destruct Hin as [->|Hin]; [lia|].
  destruct (IH _ _ H4 Hin) as (? & ? & ?). lia.
Qed.

Lemma layout_from_order regs : forall lo k1 k2 r1 r2, layout_from lo regs ->
  nth_error regs k1 = Some r1 -> nth_error regs k2 = Some r2 -> (k1 < k2)%nat ->
  r_stop r1 <= r_start r2.
Proof.
  induction regs as [|x regs IH]; intros lo k1 k2 r1 r2 H H1 H2 Hlt.
  - destruct k1; discriminate.
  - destruct H as (Ha & Hb & Hc & Hd). destruct k2 as [|k2]; [lia|]. simpl in H2.
    destruct k1 as [|k1]; simpl in H1.
    + injection H1 as ->. apply nth_error_In in H2.
      destruct (layout_from_In _ _ _ Hd H2) as (? & ? & ?). lia.
    + apply (IH (r_stop x) k1 k2 r1 r2 Hd H1 H2). lia.
Qed.

(* an address lies in at most one register: by position ... *)
Lemma layout_index_unique regs k1 k2 r1 r2 a : wf_layout regs ->
  nth_error regs k1 = Some r1 -> nth_error regs k2 = Some r2 ->
  r_start r1 <= a < r_stop r1 -> r_start r2 <= a < r_stop r2 -> k1 = k2.
Proof.
  intros Hwf H1 H2 Ha1 Ha2.
  destruct (Nat.lt_trichotomy k1 k2) as [Hlt|[Heq|Hgt]]; [|exact Heq|].
  - pose proof (layout_from_order _ _ _ _ _ _ Hwf H1 H2 Hlt). lia.
  - pose proof (layout_from_order _ _ _ _ _ _ Hwf H2 H1 Hgt). lia.
Qed.

(* ... and by membership *)
Lemma layout_In_unique regs r1 r2 a : wf_layout regs -> In r1 regs -> In r2 regs ->
  r_start r1 <= a < r_stop r1 -> r_start r2 <= a < r_stop r2 -> r1 = r2.
Proof.
  intros Hwf H1 H2 Ha1 Ha2.
  apply In_nth_error in H1. destruct H1 as (k1 & H1).
  apply In_nth_error in H2. destruct H2 as (k2 & H2).
  assert (k1 = k2) by (eapply layout_index_unique; eauto). subst k2. congruence.
Qed.

Lemma rregs_In c r : In r (rregs c) <-> In r (c_regs c) /\ r_rd r = true.
Proof. unfold rregs. apply filter_In. Qed.

Lemma wf_reg_len c r : wf_cfg c -> In r (c_regs c) -> 0 < reg_len r.
Proof.
  intros (_ & Hl & _) Hin. destruct (layout_from_In _ _ _ Hl Hin) as (_ & H & _).
  unfold reg_len. lia.
Qed.

(* the read shadow size is a power of two that covers every readable register *)
Lemma wf_Sr c : wf_cfg c -> exists s, c_Sr c = 2 ^ s /\
  forall r, In r (c_regs c) -> r_rd r = true -> ceil_log2 (reg_len r) <= s.
Proof.
  intros (_ & _ & (s & Hs & _ & Hall) & _). exists s. split; [exact Hs|].
  intros r Hin Hrd. apply Hall. apply rregs_In. auto.
Qed.

Lemma read_encode_decode c r a : wf_cfg c -> In r (c_regs c) -> r_rd r = true ->
  r_start r <= a < r_stop r -> encode r (decode (c_Sr c) r a) = a.
Proof.
  intros Hwf Hin Hrd Ha. destruct (wf_Sr c Hwf) as (s & Hs & Hall). rewrite Hs.
  apply encode_decode; auto. eapply wf_reg_len; eauto.
Qed.

Lemma read_chunk_in_table c r a : In r (c_regs c) -> r_rd r = true ->
  r_start r <= a < r_stop r -> In (decode (c_Sr c) r a) (table (c_Sr c) (rregs c)).
Proof.
  intros Hin Hrd Ha. apply table_In. exists r, a. rewrite rregs_In. auto.
Qed.

(* ------------------------------------------------------------------ the read enable *)

(* chunk o is enabled exactly when the strobe hits the one address of a readable register
   that is stored in o *)
Lemma ren_next_spec c i o : wf_cfg c ->
  (ren_next c i o = 1 <->
   i_rstb i = true /\
   exists r, In r (c_regs c) /\ r_rd r = true /\ r_start r <= i_addr i < r_stop r /\
             o = decode (c_Sr c) r (i_addr i)).
Proof.
  intros Hwf. unfold ren_next. split.
  - destruct (i_rstb i && _) eqn:E; [intros _|discriminate].
    apply andb_true_iff in E. destruct E as [Hs E]. split; [exact Hs|].
    apply existsb_exists in E. destruct E as (r & Hr & E).
    apply rregs_In in Hr. destruct Hr as [Hin Hrd].
    apply andb_true_iff in E. destruct E as [Ht Ea].
    apply touches_spec in Ht. destruct Ht as (a & Ha & Hd).
    apply Z.eqb_eq in Ea.
    assert (Ha' : i_addr i = a).
    { rewrite Ea, <- Hd. apply read_encode_decode; auto. }
    exists r. subst a. auto.
  - intros (Hs & r & Hin & Hrd & Ha & Ho). rewrite Hs. simpl.
    assert (E : existsb (fun r0 => touches (c_Sr c) r0 o && (i_addr i =? encode r0 o)) (rregs c) = true).
    { apply existsb_exists. exists r. split; [apply rregs_In; auto|].
      apply andb_true_iff. split.
      - apply touches_spec. exists (i_addr i). auto.
      - apply Z.eqb_eq. subst o. symmetry. apply read_encode_decode; auto. }
    rewrite E. reflexivity.
Qed.

Lemma get_ren_next c s i o : In o (table (c_Sr c) (rregs c)) ->
  get (s_ren (next c s i)) o = ren_next c i o.
Proof. intros H. cbn [next s_ren]. apply (get_map_table_in (ren_next c i)). exact H. Qed.

Lemma get_rdata_next c s i o : In o (table (c_Sr c) (rregs c)) ->
  get (s_rdata (next c s i)) o = rdata_next c s i o.
Proof. intros H. cbn [next s_rdata]. apply (get_map_table_in (rdata_next c s i)). exact H. Qed.

(* bus.r_data one cycle after a read strobe inside a readable register: that register's chunk *)
Lemma bus_rdata_hit c s i r : wf_cfg c -> In r (c_regs c) -> r_rd r = true ->
  i_rstb i = true -> r_start r <= i_addr i < r_stop r ->
  bus_rdata c (next c s i) = get (s_rdata (next c s i)) (decode (c_Sr c) r (i_addr i)).
Proof.
  intros Hwf Hin Hrd Hs Ha. unfold bus_rdata.
  set (s' := next c s i). set (o0 := decode (c_Sr c) r (i_addr i)).
  pose (g := fun o => if get (s_ren s') o =? 1 then get (s_rdata s') o else 0).
  assert (Ho0 : In o0 (table (c_Sr c) (rregs c))) by (apply read_chunk_in_table; auto).
  transitivity (if existsb (fun y => y =? o0) (table (c_Sr c) (rregs c)) then g o0 else 0).
  - apply (fold_lor_single g); [apply table_NoDup|].
    intros x Hx Hne. unfold g, s'. rewrite get_ren_next by exact Hx.
    destruct (ren_next c i x =? 1) eqn:E; [|reflexivity].
    apply Z.eqb_eq in E. apply ren_next_spec in E; [|exact Hwf].
    destruct E as (_ & r' & Hin' & Hrd' & Ha' & Hx').
    assert (r' = r) by (destruct Hwf as (_ & Hl & _); eapply layout_In_unique; eauto).
    subst r'. contradiction.
  - apply existsb_eqb_In in Ho0. rewrite Ho0. unfold g, s'.
    apply existsb_eqb_In in Ho0. rewrite get_ren_next by exact Ho0.
    assert (E : ren_next c i o0 = 1).
    { apply ren_next_spec; [exact Hwf|]. split; [exact Hs|]. exists r. auto. }
    rewrite E. reflexivity.
Qed.

(* bus.r_data one cycle after anything else: zero *)
Lemma bus_rdata_idle c s i : wf_cfg c ->
  (i_rstb i = false \/
   forall r, In r (c_regs c) -> r_rd r = true -> ~ (r_start r <= i_addr i < r_stop r)) ->
  bus_rdata c (next c s i) = 0.
Proof.
  intros Hwf Hidle. unfold bus_rdata.
  set (s' := next c s i).
  apply (fold_lor_zero (fun o => if get (s_ren s') o =? 1 then get (s_rdata s') o else 0)).
  intros x Hx. unfold s'. rewrite get_ren_next by exact Hx.
  destruct (ren_next c i x =? 1) eqn:E; [|reflexivity].
  exfalso. apply Z.eqb_eq in E. apply ren_next_spec in E; [|exact Hwf].
  destruct E as (Hs & r & Hin & Hrd & Ha & _).
  destruct Hidle as [Hf|Hno]; [congruence|]. exact (Hno r Hin Hrd Ha).
Qed.

Lemma bus_rdata_init c : bus_rdata c (init c) = 0.
Proof.
  unfold bus_rdata.
  apply (fold_lor_zero (fun o => if get (s_ren (init c)) o =? 1 then get (s_rdata (init c)) o else 0)).
  intros x _. reflexivity.
Qed.

(* ------------------------------------------------------------------ the read data chunks *)

Lemma with_vals_nth c i k r : nth_error (c_regs c) k = Some r ->
  nth_error (with_vals c i) k = Some (r, nth k (i_rvals i) 0).
Proof.
  intros H. unfold with_vals. rewrite nth_error_combine, H.
  rewrite nth_error_padded; [reflexivity|]. apply nth_error_Some. congruence.
Qed.

Lemma with_vals_In c i r v : In (r, v) (with_vals c i) ->
  exists k, nth_error (c_regs c) k = Some r /\ v = nth k (i_rvals i) 0.
Proof.
  intros H. apply In_nth_error in H. destruct H as (k & H). exists k.
  unfold with_vals in H. rewrite nth_error_combine in H.
  destruct (nth_error (c_regs c) k) as [r'|] eqn:E; [|discriminate].
  rewrite nth_error_padded in H by (apply nth_error_Some; congruence).
  injection H as -> ->. auto.
Qed.

(* a first-chunk read of register number k loads every chunk of that register with its word of
   the value presented in that cycle *)
Lemma rdata_next_first c s i k r j : wf_cfg c ->
  nth_error (c_regs c) k = Some r -> r_rd r = true ->
  i_rstb i = true -> i_addr i = r_start r -> 0 <= j < reg_len r ->
  rdata_next c s i (decode (c_Sr c) r (r_start r + j)) =
  word (c_dw c) (r_width r) j (trunc (r_width r) (nth k (i_rvals i) 0)).
Proof.
  intros Hwf Hk Hrd Hs Ha Hj.
  assert (Hin : In r (c_regs c)) by (eapply nth_error_In; eauto).
  assert (Hlen : 0 < reg_len r) by (eapply wf_reg_len; eauto).
  assert (Haj : r_start r <= r_start r + j < r_stop r) by (unfold reg_len in *; lia).
  unfold rdata_next.
  set (o := decode (c_Sr c) r (r_start r + j)).
  destruct (find _ (with_vals c i)) as [[r' v']|] eqn:F.
  - apply find_some in F. destruct F as [Hin' HP]. cbn [fst] in HP.
    apply andb_true_iff in HP. destruct HP as [_ He].
    unfold elem_rstb in He. apply andb_true_iff in He. destruct He as [_ He].
    apply Z.eqb_eq in He.
    apply with_vals_In in Hin'. destruct Hin' as (k' & Hk' & Hv').
    assert (Hin2 : In r' (c_regs c)) by (eapply nth_error_In; eauto).
    pose proof (wf_reg_len _ _ Hwf Hin2) as Hlen'.
    assert (k' = k).
    { destruct Hwf as (_ & Hl & _).
      apply (layout_index_unique (c_regs c) k' k r' r (i_addr i) Hl Hk' Hk); unfold reg_len in *; lia. }
    subst k'. rewrite Hk in Hk'. injection Hk' as <-. subst v'.
    unfold o. rewrite read_encode_decode by auto.
    f_equal. lia.
  - exfalso. pose proof (with_vals_nth c i k r Hk) as Hn. apply nth_error_In in Hn.
    pose proof (find_none _ _ F _ Hn) as HP. cbn [fst] in HP.
    assert (Ht : touches (c_Sr c) r o = true).
    { apply touches_spec. exists (r_start r + j). auto. }
    unfold elem_rstb in HP. rewrite Hrd, Ht, Hs, Ha, Z.eqb_refl in HP. discriminate.
Qed.

(* a cycle that is not a first-chunk read of any readable register leaves every chunk alone *)
Lemma rdata_next_stable c s i o :
  (forall r, In r (c_regs c) -> r_rd r = true -> ~ (i_rstb i = true /\ i_addr i = r_start r)) ->
  rdata_next c s i o = get (s_rdata s) o.
Proof.
  intros Hno. unfold rdata_next.
  destruct (find _ (with_vals c i)) as [[r' v']|] eqn:F; [|reflexivity].
  exfalso. apply find_some in F. destruct F as [Hin' HP]. cbn [fst] in HP.
  apply andb_true_iff in HP. destruct HP as [_ He].
  unfold elem_rstb in He. apply andb_true_iff in He. destruct He as [He Ha].
  apply andb_true_iff in He. destruct He as [Hrd Hs]. apply Z.eqb_eq in Ha.
  unfold with_vals in Hin'. apply in_combine_l in Hin'.
  exact (Hno r' Hin' Hrd (conj Hs Ha)).
Qed.

(* ------------------------------------------------------------------ the snapshot invariant *)

(* after a first-chunk read of register k at t0, and as long as no first-chunk read of any readable
   register follows, every chunk of register k holds its word of the value seen at t0 *)
Lemma snapshot c is t0 k r i0 : wf_cfg c ->
  nth_error (c_regs c) k = Some r -> r_rd r = true ->
  nth_error is t0 = Some i0 -> i_rstb i0 = true -> i_addr i0 = r_start r ->
  forall d, (t0 + d < length is)%nat ->
  (forall u, (t0 < u <= t0 + d)%nat -> ~ any_first_read c is u) ->
  forall j, 0 <= j < reg_len r ->
  get (s_rdata (st_at c is (S (t0 + d)))) (decode (c_Sr c) r (r_start r + j)) =
  word (c_dw c) (r_width r) j (rval_at is t0 k (r_width r)).
Proof.
  intros Hwf Hk Hrd Ht0 Hs0 Ha0.
  assert (Hin : In r (c_regs c)) by (eapply nth_error_In; eauto).
  induction d as [|d IH]; intros Hlen Hq j Hj.
  - rewrite Nat.add_0_r. rewrite (st_at_S c is t0 i0 Ht0).
    rewrite get_rdata_next by (apply read_chunk_in_table; auto; unfold reg_len in *; lia).
    unfold rval_at. rewrite Ht0. apply rdata_next_first; auto.
  - replace (t0 + S d)%nat with (S (t0 + d)) in * by lia.
    destruct (nth_error is (S (t0 + d))) as [iu|] eqn:Eu;
      [|apply nth_error_None in Eu; lia].
    rewrite (st_at_S c is _ iu Eu).
    rewrite get_rdata_next by (apply read_chunk_in_table; auto; unfold reg_len in *; lia).
    rewrite rdata_next_stable.
    + apply IH; [lia| |exact Hj]. intros u Hu. apply Hq. lia.
    + intros r' Hin' Hrd' [Hs' Ha']. apply (Hq (S (t0 + d))); [lia|].
      exists iu, r'. auto.
Qed.

(* ------------------------------------------------------------------ C04 *)

Lemma r_data_zero_when_idle c is i : wf_cfg c ->
  (i_rstb i = false \/
   forall r, In r (c_regs c) -> r_rd r = true -> ~ (r_start r <= i_addr i < r_stop r)) ->
  bus_rdata c (next c (state_after c (init c) is) i) = 0.
Proof. intros Hwf H. apply bus_rdata_idle; auto. Qed.

Lemma read_atomic c is t0 t k r j i0 it : wf_cfg c ->
  nth_error (c_regs c) k = Some r -> r_rd r = true ->
  nth_error is t0 = Some i0 -> i_rstb i0 = true -> i_addr i0 = r_start r ->
  (t0 <= t)%nat ->
  (forall u, (t0 < u <= t)%nat -> ~ any_first_read c is u) ->
  nth_error is t = Some it -> i_rstb it = true -> i_addr it = r_start r + j -> 0 <= j < reg_len r ->
  rdata_at c is (S t) = word (c_dw c) (r_width r) j (rval_at is t0 k (r_width r)).
Proof.
  intros Hwf Hk Hrd Ht0 Hs0 Ha0 Hle Hq Ht Hs Ha Hj.
  assert (Hin : In r (c_regs c)) by (eapply nth_error_In; eauto).
  unfold rdata_at. rewrite (st_at_S c is t it Ht).
  rewrite (bus_rdata_hit c _ it r Hwf Hin Hrd Hs) by (unfold reg_len in *; lia).
  rewrite <- (st_at_S c is t it Ht). rewrite Ha.
  replace t with (t0 + (t - t0))%nat by lia.
  eapply snapshot; eauto.
  - assert (t < length is)%nat by (apply nth_error_Some; congruence). lia.
  - intros u Hu. apply Hq. lia.
Qed.

(* zero when idle, by trace position: cycle 0, and every cycle whose predecessor is not a read strobe
   inside a readable register *)
Lemma r_data_zero_trace c is t : wf_cfg c -> (t <= length is)%nat ->
  (forall t' i, t = S t' -> nth_error is t' = Some i ->
     i_rstb i = false \/
     forall r, In r (c_regs c) -> r_rd r = true -> ~ (r_start r <= i_addr i < r_stop r)) ->
  rdata_at c is t = 0.
Proof.
  intros Hwf Hlen Hidle. unfold rdata_at. destruct t as [|t'].
  - unfold st_at. simpl. apply bus_rdata_init.
  - destruct (nth_error is t') as [i|] eqn:E; [|apply nth_error_None in E; lia].
    rewrite (st_at_S c is t' i E). apply bus_rdata_idle; [exact Hwf|].
    apply (Hidle t' i); auto.
Qed.

(* the shadow size (hence the sharing limit it was computed from) is unobservable on the read path:
   two admissible configurations over the same layout return the same data *)
Lemma read_size_independent c1 c2 is t0 t k r j i0 it : wf_cfg c1 -> wf_cfg c2 ->
  c_dw c1 = c_dw c2 -> c_regs c1 = c_regs c2 ->
  nth_error (c_regs c1) k = Some r -> r_rd r = true ->
  nth_error is t0 = Some i0 -> i_rstb i0 = true -> i_addr i0 = r_start r ->
  (t0 <= t)%nat ->
  (forall u, (t0 < u <= t)%nat -> ~ any_first_read c1 is u) ->
  nth_error is t = Some it -> i_rstb it = true -> i_addr it = r_start r + j -> 0 <= j < reg_len r ->
  rdata_at c1 is (S t) = rdata_at c2 is (S t).
Proof.
  intros Hwf1 Hwf2 Hdw Hregs Hk Hrd Ht0 Hs0 Ha0 Hle Hq Ht Hs Ha Hj.
  rewrite (read_atomic c1 is t0 t k r j i0 it); auto.
  rewrite (read_atomic c2 is t0 t k r j i0 it); auto.
  - rewrite Hdw. reflexivity.
  - rewrite <- Hregs. exact Hk.
  - intros u Hu (i & r' & Hn & Hin & Hrest). apply (Hq u Hu).
    exists i, r'. rewrite Hregs. auto.
Qed.
