(* Lookup through windows (C03): all_resources, find_resource and decode_address of a well-formed tree
   of memory maps agree with each other and with plain address arithmetic. *)
From Coq Require Import ZArith List Bool Lia ZifyBool Arith Permutation.
From Soc Require Import Lib.Res Lib.PyList Model.MemoryMap Model.MemSpec
  Proofs.RangeMap Proofs.LookupArith Proofs.LookupWf.
Import ListNotations.
Open Scope Z_scope.

Local Opaque Z.pow.

(* ------------------------------------------------------------------ one-level unfoldings *)

(* what one entry of the range map contributes to all_resources() *)
Definition per_entry (m : mmap) (x : entry) : res (list info) :=
  match e_asg x with
  | AR id =>
      match find_res id (m_ress m) with
      | Some r => let! i := mk_info id [r_name r] (e_start x) (e_stop x) (m_dw m) in Ok [i]
      | None => Err AssertionError
      end
  | AW id =>
      match find_win id (m_wins m) with
      | Some (w, c) =>
          let! l := all_resources c in
          mapR (fun i => translate i (m_dw c) (w_name w) (e_start x) (e_step x)) l
      | None => Err AssertionError
      end
  end.

Lemma find_kids_all id (wins : list (winent * mmap)) :
  find (fun k : winent * Z * res (list info) => w_id (fst (fst k)) =? id)
       (map (fun wc : winent * mmap => (fst wc, m_dw (snd wc), all_resources (snd wc))) wins) =
  match find_win id wins with
  | Some (w, c) => Some (w, m_dw c, all_resources c)
  | None => None
  end.
Proof.
  induction wins as [|[w c] wins IH]; cbn [map find find_win fst snd]; [reflexivity|].
  destruct (w_id w =? id); [reflexivity|exact IH].
Qed.

Lemma all_resources_eq m : all_resources m = concatR (map (per_entry m) (m_ranges m)).
Proof.
  destruct m as [aw dw al ranges ress wins names next frozen].
  cbn [all_resources m_ranges]. f_equal. apply map_ext. intros x.
  unfold per_entry. cbn [m_ress m_wins m_dw].
  destruct (e_asg x) as [id|id]; [reflexivity|].
  rewrite find_kids_all. destruct (find_win id wins) as [[w c]|]; reflexivity.
Qed.

Lemma find_kids_dec id (wins : list (winent * mmap)) :
  find (fun k : winent * (Z -> option Z) => w_id (fst k) =? id)
       (map (fun wc : winent * mmap => (fst wc, fun a' => decode_address (snd wc) a')) wins) =
  match find_win id wins with
  | Some (w, c) => Some (w, fun a' => decode_address c a')
  | None => None
  end.
Proof.
  induction wins as [|[w c] wins IH]; cbn [map find find_win fst snd]; [reflexivity|].
  destruct (w_id w =? id); [reflexivity|exact IH].
Qed.

Lemma decode_address_eq m a :
  decode_address m a =
  match rm_get (m_ranges m) a with
  | None => None
  | Some x =>
      match e_asg x with
      | AR id => Some id
      | AW id =>
          match find_win id (m_wins m) with
          | Some (w, c) => decode_address c ((a - w_start w) * w_step w)
          | None => None
          end
      end
  end.
Proof.
  destruct m as [aw dw al ranges ress wins names next frozen].
  cbn [decode_address m_ranges m_wins].
  destruct (rm_get ranges a) as [x|]; [|reflexivity].
  destruct (e_asg x) as [id|id]; [reflexivity|].
  rewrite find_kids_dec. destruct (find_win id wins) as [[w c]|]; reflexivity.
Qed.

(* the loop of find_resource over the windows, in insertion order *)
Fixpoint find_in_wins (id : Z) (l : list (winent * mmap)) : res info :=
  match l with
  | [] => Err KeyError
  | (w, c) :: l' =>
      match find_resource c id with
      | Ok i => translate i (m_dw c) (w_name w) (w_start w) (w_step w)
      | Err KeyError => find_in_wins id l'
      | Err e => Err e
      end
  end.

Lemma find_resource_eq m id :
  find_resource m id =
  match find_res id (m_ress m) with
  | Some r => mk_info id [r_name r] (r_start r) (r_stop r) (m_dw m)
  | None => find_in_wins id (m_wins m)
  end.
Proof.
  destruct m as [aw dw al ranges ress wins names next frozen].
  cbn [find_resource m_ress m_wins m_dw].
  destruct (find_res id ress) as [r|]; [reflexivity|].
  induction wins as [|[w c] wins IH]; [reflexivity|].
  cbn [find_in_wins]. rewrite <- IH. reflexivity.
Qed.

(* ------------------------------------------------------------------ ResourceInfo and _translate *)

Lemma mk_info_ok id path s e w i : mk_info id path s e w = Ok i ->
  i = {| i_res := id; i_path := path; i_start := s; i_end := e; i_width := w |} /\ 0 <= s /\ s < e.
Proof.
  unfold mk_info. intros H.
  apply bind_ok in H as (u1 & Hc1 & H).
  apply bind_ok in H as (u2 & Hc2 & H). apply check_ok in Hc2.
  apply bind_ok in H as (u3 & Hc3 & H). apply check_ok in Hc3.
  apply bind_ok in H as (u4 & Hc4 & H).
  injection H as <-. repeat split; lia.
Qed.

Definition translated (i' : info) (wname : option name) (ws step : Z) : info :=
  {| i_res := i_res i';
     i_path := match wname with None => i_path i' | Some n => n :: i_path i' end;
     i_start := ws + i_start i' / step;
     i_end := ws + i_end i' / step;
     i_width := i_width i' * step |}.

Lemma translate_ok i' cdw wname ws step i : 1 <= step ->
  translate i' cdw wname ws step = Ok i ->
  i_start i' mod step = 0 /\ i_end i' mod step = 0 /\ i = translated i' wname ws step.
Proof.
  intros Hstep H. unfold translate in H.
  apply bind_ok in H as (u1 & Hc1 & H). apply check_ok in Hc1.
  apply bind_ok in H as (u2 & Hc2 & H). apply check_ok in Hc2.
  apply bind_ok in H as (u3 & Hc3 & H).
  apply mk_info_ok in H as (-> & _ & _).
  apply Z.eqb_eq in Hc1, Hc2.
  destruct (div_split step _ _ Hstep Hc2 Hc1) as [He Hd].
  repeat split; auto. unfold translated. f_equal; lia.
Qed.

(* ------------------------------------------------------------------ who contributes what *)

Lemma entries_of m l : all_resources m = Ok l ->
  exists ls, Forall2 (fun x lx => per_entry m x = Ok lx) (m_ranges m) ls /\ l = concat ls.
Proof. rewrite all_resources_eq. apply concatR_map_ok. Qed.

Lemma in_entries m l i : all_resources m = Ok l ->
  (In i l <-> exists x lx, In x (m_ranges m) /\ per_entry m x = Ok lx /\ In i lx).
Proof.
  intros H. destruct (entries_of _ _ H) as (ls & HF & ->). rewrite in_concat. split.
  - intros (lx & Hlx & Hi). destruct (Forall2_in_r _ _ _ _ HF Hlx) as (x & Hx & Hp). eauto.
  - intros (x & lx & Hx & Hp & Hi). destruct (Forall2_in_l _ _ _ _ HF Hx) as (lx' & Hlx' & Hp').
    rewrite Hp in Hp'. injection Hp' as <-. eauto.
Qed.

Lemma entry_ok m l x : all_resources m = Ok l -> In x (m_ranges m) -> exists lx, per_entry m x = Ok lx.
Proof.
  intros H Hx. destruct (entries_of _ _ H) as (ls & HF & _).
  destruct (Forall2_in_l _ _ _ _ HF Hx) as (lx & _ & Hp). eauto.
Qed.

Lemma range_entry_cases m x : wf_node m -> In x (m_ranges m) ->
  (exists r, In r (m_ress m) /\ x = ent_of_res r) \/
  (exists wc, In wc (m_wins m) /\ x = ent_of_win wc).
Proof.
  intros (_ & _ & _ & _ & _ & _ & Hperm & _) Hx.
  apply (Permutation_in _ Hperm) in Hx. apply in_app_or in Hx as [Hx|Hx];
    apply in_map_iff in Hx as (y & <- & Hy); eauto.
Qed.

Lemma res_has_entry m r : wf_node m -> In r (m_ress m) -> In (ent_of_res r) (m_ranges m).
Proof.
  intros (_ & _ & _ & _ & _ & _ & Hperm & _) Hr.
  apply (Permutation_in _ (Permutation_sym Hperm)). apply in_or_app. left. apply in_map. exact Hr.
Qed.

Lemma win_has_entry m wc : wf_node m -> In wc (m_wins m) -> In (ent_of_win wc) (m_ranges m).
Proof.
  intros (_ & _ & _ & _ & _ & _ & Hperm & _) Hr.
  apply (Permutation_in _ (Permutation_sym Hperm)). apply in_or_app. right. apply in_map. exact Hr.
Qed.

Lemma per_entry_res m r : wf_node m -> In r (m_ress m) ->
  per_entry m (ent_of_res r) =
  (let! i := mk_info (r_id r) [r_name r] (r_start r) (r_stop r) (m_dw m) in Ok [i]).
Proof.
  intros (_ & _ & _ & _ & _ & _ & _ & Hnd & _) Hr.
  unfold per_entry. cbn [ent_of_res e_asg e_start e_stop]. rewrite (find_res_nodup _ _ Hnd Hr). reflexivity.
Qed.

Definition tr_win (wn : winent) (c : mmap) (i' : info) : res info :=
  translate i' (m_dw c) (w_name wn) (w_start wn) (w_step wn).

Lemma per_entry_win m wn c : wf_node m -> In (wn, c) (m_wins m) ->
  per_entry m (ent_of_win (wn, c)) = (let! l := all_resources c in mapR (tr_win wn c) l).
Proof.
  intros (_ & _ & _ & _ & _ & _ & _ & _ & Hnd & _) Hr.
  unfold per_entry. cbn [ent_of_win e_asg e_start e_stop e_step fst].
  pose proof (find_win_nodup _ _ Hnd Hr) as Hf. unfold wid_of in Hf. cbn [fst] in Hf. rewrite Hf.
  reflexivity.
Qed.

Lemma win_step_ok m wn c : wf_node m -> In (wn, c) (m_wins m) ->
  1 <= w_step wn /\ 2 ^ m_aw c / w_step wn <= w_stop wn - w_start wn.
Proof.
  intros (_ & _ & _ & _ & _ & _ & _ & _ & _ & Hok) Hr. rewrite Forall_forall in Hok.
  exact (Hok _ Hr).
Qed.

(* an own resource is reported with its own range *)
Lemma res_contrib m l r : wf_node m -> all_resources m = Ok l -> In r (m_ress m) ->
  exists i, mk_info (r_id r) [r_name r] (r_start r) (r_stop r) (m_dw m) = Ok i /\ In i l /\
            per_entry m (ent_of_res r) = Ok [i].
Proof.
  intros Hwf Hl Hr. pose proof (res_has_entry _ _ Hwf Hr) as Hx.
  destruct (entry_ok _ _ _ Hl Hx) as (lx & Hp). pose proof Hp as Hp0.
  rewrite (per_entry_res _ _ Hwf Hr) in Hp. apply bind_ok in Hp as (i & Hi & Hp). injection Hp as <-.
  exists i. split; [exact Hi|]. split.
  - apply (in_entries _ _ i Hl). exists (ent_of_res r), [i]. simpl; auto.
  - rewrite (per_entry_res _ _ Hwf Hr), Hi. reflexivity.
Qed.

(* every resource of a window is reported, translated *)
Lemma win_contrib m l wn c : wf_node m -> all_resources m = Ok l -> In (wn, c) (m_wins m) ->
  exists lc lx, all_resources c = Ok lc /\
                Forall2 (fun i' i => tr_win wn c i' = Ok i) lc lx /\
                per_entry m (ent_of_win (wn, c)) = Ok lx /\
                (forall i, In i lx -> In i l).
Proof.
  intros Hwf Hl Hr. pose proof (win_has_entry _ _ Hwf Hr) as Hx.
  destruct (entry_ok _ _ _ Hl Hx) as (lx & Hp). pose proof Hp as Hp0.
  rewrite (per_entry_win _ _ _ Hwf Hr) in Hp. apply bind_ok in Hp as (lc & Hc & Hp).
  apply mapR_ok in Hp. exists lc, lx. repeat split; auto.
  intros i Hi. apply (in_entries _ _ i Hl). eauto.
Qed.

(* nothing else is reported *)
Lemma in_inv m l i : wf_node m -> all_resources m = Ok l -> In i l ->
  (exists r, In r (m_ress m) /\
             mk_info (r_id r) [r_name r] (r_start r) (r_stop r) (m_dw m) = Ok i) \/
  (exists wn c lc i', In (wn, c) (m_wins m) /\ all_resources c = Ok lc /\ In i' lc /\
                      tr_win wn c i' = Ok i).
Proof.
  intros Hwf Hl Hi. apply (in_entries _ _ i Hl) in Hi as (x & lx & Hx & Hp & Hi).
  destruct (range_entry_cases _ _ Hwf Hx) as [(r & Hr & ->)|([wn c] & Hw & ->)].
  - left. exists r. split; [exact Hr|].
    rewrite (per_entry_res _ _ Hwf Hr) in Hp. apply bind_ok in Hp as (i0 & Hi0 & Hp).
    injection Hp as <-. destruct Hi as [<-|[]]. exact Hi0.
  - right. rewrite (per_entry_win _ _ _ Hwf Hw) in Hp. apply bind_ok in Hp as (lc & Hc & Hp).
    apply mapR_ok in Hp. destruct (Forall2_in_r _ _ _ _ Hp Hi) as (i' & Hi' & Ht).
    exists wn, c, lc, i'. auto.
Qed.

(* ------------------------------------------------------------------ C03_translation *)

Theorem translation_wf m l : wf_tree m -> all_resources m = Ok l ->
  forall i, In i l <->
    (exists r, In r (m_ress m) /\
        i = {| i_res := r_id r; i_path := [r_name r]; i_start := r_start r; i_end := r_stop r;
               i_width := m_dw m |}) \/
    (exists wn c lc i', In (wn, c) (m_wins m) /\ all_resources c = Ok lc /\ In i' lc /\
        i_start i' mod w_step wn = 0 /\ i_end i' mod w_step wn = 0 /\
        i = {| i_res := i_res i';
               i_path := match w_name wn with None => i_path i' | Some n => n :: i_path i' end;
               i_start := w_start wn + i_start i' / w_step wn;
               i_end := w_start wn + i_end i' / w_step wn;
               i_width := i_width i' * w_step wn |}).
Proof.
  intros Hwt Hl i. pose proof (wf_tree_node _ Hwt) as Hwf. split.
  - intros Hi. destruct (in_inv _ _ _ Hwf Hl Hi) as [(r & Hr & Hm)|(wn & c & lc & i' & Hw & Hc & Hi' & Ht)].
    + left. exists r. split; [exact Hr|]. apply mk_info_ok in Hm. tauto.
    + right. exists wn, c, lc, i'. destruct (win_step_ok _ _ _ Hwf Hw) as [Hs _].
      destruct (translate_ok _ _ _ _ _ _ Hs Ht) as (H1 & H2 & H3). repeat split; auto.
  - intros [(r & Hr & ->)|(wn & c & lc & i' & Hw & Hc & Hi' & _ & _ & ->)].
    + destruct (res_contrib _ _ _ Hwf Hl Hr) as (i & Hm & Hi & _).
      apply mk_info_ok in Hm as (-> & _). exact Hi.
    + destruct (win_contrib _ _ _ _ Hwf Hl Hw) as (lc' & lx & Hc' & HF & _ & Hincl).
      rewrite Hc in Hc'. injection Hc' as <-.
      destruct (Forall2_in_l _ _ _ _ HF Hi') as (i & Hi & Ht).
      destruct (win_step_ok _ _ _ Hwf Hw) as [Hs _].
      destruct (translate_ok _ _ _ _ _ _ Hs Ht) as (_ & _ & ->). apply Hincl. exact Hi.
Qed.

(* ------------------------------------------------------------------ C03_sorted_disjoint *)

Definition spans (l : list info) : list (Z * Z) := map (fun i => (i_start i, i_end i)) l.

Lemma ascending_weaken lo lo' l : lo' <= lo -> ascending lo l -> ascending lo' l.
Proof. destruct l as [|[s e] l]; simpl; intuition lia. Qed.

Lemma ascending_app lo mid l1 l2 :
  ascending lo l1 -> (forall p, In p l1 -> snd p <= mid) -> lo <= mid -> ascending mid l2 ->
  ascending lo (l1 ++ l2).
Proof.
  revert lo; induction l1 as [|[s e] l1 IH]; simpl; intros lo H1 Hb Hlo H2.
  - eapply ascending_weaken; eauto.
  - destruct H1 as (Ha & Hb' & Hc). repeat split; auto.
    apply IH; auto. exact (Hb (s, e) (or_introl eq_refl)).
Qed.

Lemma ascending_in lo l s e : ascending lo l -> In (s, e) l -> lo <= s /\ s < e.
Proof.
  revert lo; induction l as [|[s0 e0] l IH]; simpl; intros lo H Hin; [contradiction|].
  destruct H as (Ha & Hb & Hc). destruct Hin as [Heq|Hin].
  - injection Heq as -> ->. lia.
  - destruct (IH _ Hc Hin). lia.
Qed.

Lemma in_spans i l : In i l -> In (i_start i, i_end i) (spans l).
Proof. intros H. unfold spans. apply (in_map (fun i => (i_start i, i_end i))). exact H. Qed.

(* translation through a window keeps the order *)
Lemma translated_ascending cdw wname ws step lc lx : 1 <= step ->
  Forall2 (fun i' i => translate i' cdw wname ws step = Ok i) lc lx ->
  forall lo, ascending lo (spans lc) -> ascending (ws + lo / step) (spans lx).
Proof.
  intros Hs HF. induction HF as [|i' i lc lx Ht HF IH]; intros lo Ha; [exact I|].
  destruct (translate_ok _ _ _ _ _ _ Hs Ht) as (H1 & H2 & ->).
  cbn [spans map translated i_start i_end] in *. destruct Ha as (Ha & Hb & Hc).
  pose proof (div_le step _ _ Hs Ha). pose proof (div_lt_mult step _ _ Hs H1 H2 Hb).
  repeat split; try lia. apply IH. exact Hc.
Qed.

Definition sorted_at (m : mmap) : Prop :=
  forall l, all_resources m = Ok l ->
    ascending 0 (spans l) /\ forall i, In i l -> i_end i <= 2 ^ m_aw m.

(* what one entry contributes lies inside the entry's range, in order *)
Lemma entry_span m x lx : wf_node m ->
  (forall wn c, In (wn, c) (m_wins m) -> sorted_at c) ->
  In x (m_ranges m) -> per_entry m x = Ok lx ->
  ascending (e_start x) (spans lx) /\ forall i, In i lx -> i_end i <= e_stop x.
Proof.
  intros Hwf Hkids Hx Hp.
  destruct (range_entry_cases _ _ Hwf Hx) as [(r & Hr & ->)|([wn c] & Hw & ->)].
  - rewrite (per_entry_res _ _ Hwf Hr) in Hp. apply bind_ok in Hp as (i & Hi & Hp).
    injection Hp as <-. apply mk_info_ok in Hi as (-> & H0 & Hlt).
    cbn [spans map ent_of_res e_start e_stop i_start i_end ascending]. split; [lia|].
    intros i [<-|[]]. cbn [i_end]. lia.
  - rewrite (per_entry_win _ _ _ Hwf Hw) in Hp. apply bind_ok in Hp as (lc & Hc & Hp).
    apply mapR_ok in Hp. destruct (Hkids _ _ Hw _ Hc) as [Hasc Hend].
    destruct (win_step_ok _ _ _ Hwf Hw) as [Hs Hlen].
    cbn [ent_of_win e_start e_stop fst]. split.
    + pose proof (translated_ascending _ _ _ _ _ _ Hs Hp 0 Hasc) as H.
      rewrite Zdiv_0_l, Z.add_0_r in H. exact H.
    + intros i Hi. destruct (Forall2_in_r _ _ _ _ Hp Hi) as (i' & Hi' & Ht).
      destruct (translate_ok _ _ _ _ _ _ Hs Ht) as (_ & _ & ->). cbn [translated i_end].
      pose proof (div_le (w_step wn) _ _ Hs (Hend _ Hi')). lia.
Qed.

Lemma Forall2_impl_in {X Y} (R R' : X -> Y -> Prop) l l' :
  Forall2 R l l' -> (forall x y, In x l -> R x y -> R' x y) -> Forall2 R' l l'.
Proof.
  induction 1 as [|a b l l' Hab HF IH]; intros Himp; constructor.
  - apply Himp; simpl; auto.
  - apply IH. intros x y Hx. apply Himp. simpl; auto.
Qed.

Lemma concat_ascending xs : forall ls lo, chain lo xs ->
  Forall2 (fun x lx => ascending (e_start x) (spans lx) /\ forall i, In i lx -> i_end i <= e_stop x)
          xs ls ->
  ascending lo (spans (concat ls)).
Proof.
  induction xs as [|x xs IH]; intros ls lo Hc HF; inversion HF as [|? lx ? ls' [Ha Hb] HF']; subst.
  - exact I.
  - cbn [concat chain] in *. destruct Hc as (H1 & H2 & H3). unfold spans. rewrite map_app.
    apply ascending_app with (mid := e_stop x).
    + eapply ascending_weaken; [|exact Ha]. exact H1.
    + intros p Hp. apply in_map_iff in Hp as (i & <- & Hi). cbn [snd]. auto.
    + lia.
    + apply IH; auto.
Qed.

Theorem sorted_wf m : wf_tree m -> sorted_at m.
Proof.
  induction m as [aw dw al ranges ress wins names next frozen IH] using mmap_ind'.
  intros Hwt l Hl. set (m := MM aw dw al ranges ress wins names next frozen) in *.
  pose proof (wf_tree_node _ Hwt) as Hwf.
  assert (Hkids : forall wn c, In (wn, c) (m_wins m) -> sorted_at c).
  { intros wn c Hw. rewrite Forall_forall in IH. apply (IH (wn, c) Hw).
    eapply wf_tree_child; eauto. }
  pose proof Hwf as (_ & _ & _ & _ & Hch & Hstop & _).
  split.
  - destruct (entries_of _ _ Hl) as (ls & HF & ->).
    apply (concat_ascending (m_ranges m)); [exact Hch|].
    eapply Forall2_impl_in; [exact HF|]. intros x lx Hx Hp. cbv beta in Hp.
    eapply entry_span; eauto.
  - intros i Hi. apply (in_entries _ _ i Hl) in Hi as (x & lx & Hx & Hp & Hi).
    destruct (entry_span _ _ _ Hwf Hkids Hx Hp) as [_ Hb].
    pose proof (Hb _ Hi). pose proof (Hstop _ Hx). lia.
Qed.

(* a translated resource lies inside the window it is seen through *)
Lemma in_window m wn c lc i' i : wf_tree m -> In (wn, c) (m_wins m) ->
  all_resources c = Ok lc -> In i' lc -> tr_win wn c i' = Ok i ->
  i_start i' mod w_step wn = 0 /\ i_end i' mod w_step wn = 0 /\
  i = translated i' (w_name wn) (w_start wn) (w_step wn) /\
  w_start wn <= i_start i /\ i_end i <= w_stop wn.
Proof.
  intros Hwt Hw Hc Hi' Ht. pose proof (wf_tree_node _ Hwt) as Hwf.
  destruct (win_step_ok _ _ _ Hwf Hw) as [Hs Hlen].
  destruct (translate_ok _ _ _ _ _ _ Hs Ht) as (H1 & H2 & ->).
  destruct (sorted_wf c (wf_tree_child _ _ _ Hwt Hw) _ Hc) as [Hasc Hend].
  destruct (ascending_in _ _ _ _ Hasc (in_spans _ _ Hi')) as [H0 _].
  pose proof (Hend _ Hi') as He. cbn [translated i_start i_end].
  pose proof (div_le (w_step wn) _ _ Hs He). pose proof (div_le (w_step wn) _ _ Hs H0).
  rewrite Zdiv_0_l in *. repeat split; auto; lia.
Qed.

(* ------------------------------------------------------------------ C03_decode_iff_reported *)

Lemma chain_unique lo l x y p : chain lo l -> In x l -> In y l ->
  e_start x <= p < e_stop x -> e_start y <= p < e_stop y -> x = y.
Proof.
  revert lo; induction l as [|z l IH]; intros lo Hc Hx Hy Hpx Hpy; [contradiction|].
  cbn [chain] in Hc. destruct Hc as (H1 & H2 & H3).
  pose proof (chain_all_ge _ _ H3) as Hall. rewrite Forall_forall in Hall.
  destruct Hx as [<-|Hx]; destruct Hy as [<-|Hy]; auto.
  - specialize (Hall _ Hy). lia.
  - specialize (Hall _ Hx). lia.
  - eapply IH; eauto.
Qed.

Lemma get_some lo l x p : chain lo l -> In x l -> e_start x <= p < e_stop x -> rm_get l p = Some x.
Proof.
  intros Hc Hx Hp. pose proof (get_spec lo l p Hc) as Hg.
  destruct (rm_get l p) as [y|].
  - destruct Hg as [Hy Hpy]. f_equal. eapply chain_unique; eauto.
  - exfalso. exact (Hg _ Hx Hp).
Qed.

Definition decodes_at (m : mmap) : Prop :=
  forall l, all_resources m = Ok l ->
  forall a id, decode_address m a = Some id <->
               exists i, In i l /\ i_res i = id /\ i_start i <= a < i_end i.

Theorem decode_wf m : wf_tree m -> decodes_at m.
Proof.
  induction m as [aw dw al ranges ress wins names next frozen IH] using mmap_ind'.
  intros Hwt l Hl a id. set (m := MM aw dw al ranges ress wins names next frozen) in *.
  pose proof (wf_tree_node _ Hwt) as Hwf.
  assert (Hkids : forall wn c, In (wn, c) (m_wins m) -> decodes_at c).
  { intros wn c Hw. rewrite Forall_forall in IH. apply (IH (wn, c) Hw).
    eapply wf_tree_child; eauto. }
  pose proof Hwf as (_ & _ & _ & _ & Hch & _ & _ & _ & Hndw & _).
  rewrite decode_address_eq. split.
  - pose proof (get_spec 0 (m_ranges m) a Hch) as Hg.
    destruct (rm_get (m_ranges m) a) as [x|]; [|discriminate]. destruct Hg as [Hx Hax].
    destruct (range_entry_cases _ _ Hwf Hx) as [(r & Hr & ->)|([wn c] & Hw & ->)].
    + cbn [ent_of_res e_asg e_start e_stop] in *. intros [= <-].
      destruct (res_contrib _ _ _ Hwf Hl Hr) as (i & Hm & Hi & _).
      apply mk_info_ok in Hm as (-> & _). eexists; split; [exact Hi|]. cbn [i_res i_start i_end]. auto.
    + cbn [ent_of_win e_asg e_start e_stop fst] in *.
      pose proof (find_win_nodup _ _ Hndw Hw) as Hf. unfold wid_of in Hf. cbn [fst] in Hf. rewrite Hf.
      intros Hd.
      destruct (win_contrib _ _ _ _ Hwf Hl Hw) as (lc & lx & Hc & HF & _ & Hincl).
      destruct (proj1 (Hkids _ _ Hw _ Hc _ _) Hd) as (i' & Hi' & Hid & Hr').
      destruct (Forall2_in_l _ _ _ _ HF Hi') as (i & Hi & Ht).
      destruct (in_window _ _ _ _ _ _ Hwt Hw Hc Hi' Ht) as (H1 & H2 & -> & _).
      destruct (win_step_ok _ _ _ Hwf Hw) as [Hs _].
      exists (translated i' (w_name wn) (w_start wn) (w_step wn)).
      split; [apply Hincl; exact Hi|]. split; [exact Hid|]. cbn [translated i_start i_end].
      apply (div_in_mult _ _ _ _ Hs H1 H2) in Hr'. lia.
  - intros (i & Hi & Hid & Hr).
    destruct (in_inv _ _ _ Hwf Hl Hi) as [(r & Hr0 & Hm)|(wn & c & lc & i' & Hw & Hc & Hi' & Ht)].
    + apply mk_info_ok in Hm as (-> & _). cbn [i_res i_start i_end] in *.
      rewrite (get_some 0 _ (ent_of_res r) a Hch (res_has_entry _ _ Hwf Hr0) Hr).
      cbn [ent_of_res e_asg]. f_equal. exact Hid.
    + destruct (in_window _ _ _ _ _ _ Hwt Hw Hc Hi' Ht) as (H1 & H2 & Heq & Hlo & Hhi).
      rewrite (get_some 0 _ (ent_of_win (wn, c)) a Hch (win_has_entry _ _ Hwf Hw))
        by (cbn [ent_of_win e_start e_stop fst]; lia).
      cbn [ent_of_win e_asg fst].
      pose proof (find_win_nodup _ _ Hndw Hw) as Hf. unfold wid_of in Hf. cbn [fst] in Hf. rewrite Hf.
      apply (Hkids _ _ Hw _ Hc). exists i'. split; [exact Hi'|].
      destruct (win_step_ok _ _ _ Hwf Hw) as [Hs _].
      subst i. cbn [translated i_res i_start i_end] in *. split; [exact Hid|].
      apply (div_in_mult _ _ _ _ Hs H1 H2). lia.
Qed.

(* ------------------------------------------------------------------ C03_find_spec *)

Definition finds_at (m : mmap) : Prop :=
  forall l, all_resources m = Ok l -> forall id,
    (forall i, find_resource m id = Ok i -> In i l /\ i_res i = id) /\
    (find_resource m id = Err KeyError <-> forall i, In i l -> i_res i <> id) /\
    ((exists i, find_resource m id = Ok i) \/ find_resource m id = Err KeyError).

(* the loop over windows: first hit in insertion order, KeyError when no window holds the object *)
Lemma find_in_wins_spec m l id : wf_node m -> all_resources m = Ok l ->
  (forall wn c, In (wn, c) (m_wins m) -> finds_at c) ->
  forall ws, incl ws (m_wins m) ->
    (forall i, find_in_wins id ws = Ok i -> In i l /\ i_res i = id) /\
    (find_in_wins id ws = Err KeyError <->
       forall wn c lc i', In (wn, c) ws -> all_resources c = Ok lc -> In i' lc -> i_res i' <> id) /\
    ((exists i, find_in_wins id ws = Ok i) \/ find_in_wins id ws = Err KeyError).
Proof.
  intros Hwf Hl Hkids. induction ws as [|[wn c] ws IHws]; intros Hincl.
  - cbn [find_in_wins]. split; [discriminate|]. split; [|auto]. split; [|auto]. intros _ wn c lc i' [].
  - assert (Hw : In (wn, c) (m_wins m)) by (apply Hincl; simpl; auto).
    assert (Hincl' : incl ws (m_wins m)) by (intros y Hy; apply Hincl; simpl; auto).
    destruct (IHws Hincl') as (IH1 & IH2 & IH3).
    destruct (win_contrib _ _ _ _ Hwf Hl Hw) as (lc & lx & Hc & HF & _ & Hlx).
    destruct (Hkids _ _ Hw _ Hc id) as (K1 & K2 & K3).
    destruct (win_step_ok _ _ _ Hwf Hw) as [Hs _].
    cbn [find_in_wins]. destruct (find_resource c id) as [i'|e] eqn:Ef.
    + destruct (K1 _ eq_refl) as [Hi' Hid].
      destruct (Forall2_in_l _ _ _ _ HF Hi') as (i & Hi & Ht). unfold tr_win in Ht. rewrite Ht.
      destruct (translate_ok _ _ _ _ _ _ Hs Ht) as (_ & _ & Heq).
      split; [|split].
      * intros i0 [= <-]. split; [auto|]. rewrite Heq. exact Hid.
      * split; [discriminate|]. intros Hall. exfalso.
        exact (Hall wn c lc i' (or_introl eq_refl) Hc Hi' Hid).
      * left; eauto.
    + assert (He : e = KeyError).
      { destruct K3 as [[i Hi]|Hk]; [discriminate|]. injection Hk as ->. reflexivity. }
      subst e. split; [exact IH1|]. split; [|exact IH3].
      rewrite IH2. split.
      * intros Hall wn0 c0 lc0 i0 [Heq|Hin] Hc0 Hi0.
        -- injection Heq as <- <-. rewrite Hc in Hc0. injection Hc0 as <-.
           exact (proj1 K2 eq_refl _ Hi0).
        -- exact (Hall wn0 c0 lc0 i0 Hin Hc0 Hi0).
      * intros Hall wn0 c0 lc0 i0 Hin. apply (Hall wn0 c0 lc0 i0). simpl; auto.
Qed.

Theorem find_wf m : wf_tree m -> finds_at m.
Proof.
  induction m as [aw dw al ranges ress wins names next frozen IH] using mmap_ind'.
  intros Hwt l Hl id. set (m := MM aw dw al ranges ress wins names next frozen) in *.
  pose proof (wf_tree_node _ Hwt) as Hwf.
  assert (Hkids : forall wn c, In (wn, c) (m_wins m) -> finds_at c).
  { intros wn c Hw. rewrite Forall_forall in IH. apply (IH (wn, c) Hw).
    eapply wf_tree_child; eauto. }
  rewrite find_resource_eq. destruct (find_res id (m_ress m)) as [r|] eqn:Ef.
  - apply find_res_some in Ef as [Hr Hid]. subst id.
    destruct (res_contrib _ _ _ Hwf Hl Hr) as (i0 & Hm & Hi0 & _). rewrite Hm.
    assert (Hres : i_res i0 = r_id r) by (apply mk_info_ok in Hm as (-> & _); reflexivity).
    split; [|split].
    + intros i [= <-]. auto.
    + split; [discriminate|]. intros Hall. exfalso. exact (Hall _ Hi0 Hres).
    + left; eauto.
  - destruct (find_in_wins_spec m l id Hwf Hl Hkids (m_wins m) (incl_refl _)) as (F1 & F2 & F3).
    split; [exact F1|]. split; [|exact F3]. rewrite F2. split.
    + intros Hall i Hi.
      destruct (in_inv _ _ _ Hwf Hl Hi) as [(r & Hr & Hm)|(wn & c & lc & i' & Hw & Hc & Hi' & Ht)].
      * apply mk_info_ok in Hm as (-> & _). cbn [i_res]. exact (find_res_none _ _ Ef _ Hr).
      * destruct (win_step_ok _ _ _ Hwf Hw) as [Hs _].
        destruct (translate_ok _ _ _ _ _ _ Hs Ht) as (_ & _ & ->). cbn [translated i_res]. eauto.
    + intros Hall wn c lc i' Hw Hc Hi'.
      destruct (win_contrib _ _ _ _ Hwf Hl Hw) as (lc' & lx & Hc' & HF & _ & Hlx).
      rewrite Hc in Hc'. injection Hc' as <-.
      destruct (Forall2_in_l _ _ _ _ HF Hi') as (i & Hi & Ht).
      destruct (win_step_ok _ _ _ Hwf Hw) as [Hs _].
      destruct (translate_ok _ _ _ _ _ _ Hs Ht) as (_ & _ & Heq).
      pose proof (Hall _ (Hlx _ Hi)) as Hne. rewrite Heq in Hne. exact Hne.
Qed.

(* ------------------------------------------------------------------ C03_each_addition_once *)

Definition cnt (m : mmap) (x : entry) : nat :=
  match e_asg x with
  | AR _ => 1%nat
  | AW id => match find_win id (m_wins m) with Some (_, c) => tree_count c | None => 0%nat end
  end.

Lemma list_sum_perm l l' : Permutation l l' -> list_sum l = list_sum l'.
Proof. induction 1; simpl; lia. Qed.

Lemma length_concat {X} (ls : list (list X)) : length (concat ls) = list_sum (map (@length X) ls).
Proof. induction ls as [|a ls IH]; simpl; [reflexivity|]. rewrite app_length, IH. reflexivity. Qed.

Lemma Forall2_length_eq {X Y} (R : X -> Y -> Prop) l l' : Forall2 R l l' -> length l = length l'.
Proof. induction 1; simpl; auto. Qed.

Lemma sum_Forall2 {X Y} (f : X -> nat) (g : Y -> nat) xs ys :
  Forall2 (fun x y => g y = f x) xs ys -> list_sum (map g ys) = list_sum (map f xs).
Proof. induction 1 as [|x y xs ys Hxy HF IH]; simpl; [reflexivity|]. rewrite Hxy, IH. reflexivity. Qed.

Definition counts_at (m : mmap) : Prop :=
  forall l, all_resources m = Ok l -> length l = tree_count m.

Lemma tree_count_eq m :
  tree_count m = (length (m_ress m) +
                  fold_right (fun (wc : winent * mmap) acc => tree_count (snd wc) + acc) 0 (m_wins m))%nat.
Proof. destruct m; reflexivity. Qed.

Theorem count_wf m : wf_tree m -> counts_at m.
Proof.
  induction m as [aw dw al ranges ress wins names next frozen IH] using mmap_ind'.
  intros Hwt l Hl. set (m := MM aw dw al ranges ress wins names next frozen) in *.
  pose proof (wf_tree_node _ Hwt) as Hwf.
  assert (Hkids : forall wn c, In (wn, c) (m_wins m) -> counts_at c).
  { intros wn c Hw. rewrite Forall_forall in IH. apply (IH (wn, c) Hw).
    eapply wf_tree_child; eauto. }
  pose proof Hwf as (_ & _ & _ & _ & _ & _ & Hperm & _ & Hndw & _).
  assert (Hcw : forall wn c, In (wn, c) (m_wins m) -> cnt m (ent_of_win (wn, c)) = tree_count c).
  { intros wn c Hw. unfold cnt. cbn [ent_of_win e_asg fst].
    pose proof (find_win_nodup _ _ Hndw Hw) as Hf. unfold wid_of in Hf. cbn [fst] in Hf. rewrite Hf.
    reflexivity. }
  destruct (entries_of _ _ Hl) as (ls & HF & ->).
  rewrite length_concat.
  assert (Hsum : list_sum (map (@length info) ls) = list_sum (map (cnt m) (m_ranges m))).
  { assert (HF' : Forall2 (fun x lx => length lx = cnt m x) (m_ranges m) ls).
    { eapply Forall2_impl_in; [exact HF|]. intros x lx Hx Hp. cbv beta in Hp.
      destruct (range_entry_cases _ _ Hwf Hx) as [(r & Hr & ->)|([wn c] & Hw & ->)].
      - rewrite (per_entry_res _ _ Hwf Hr) in Hp. apply bind_ok in Hp as (i & _ & Hp).
        injection Hp as <-. reflexivity.
      - rewrite (Hcw _ _ Hw).
        rewrite (per_entry_win _ _ _ Hwf Hw) in Hp. apply bind_ok in Hp as (lc & Hc & Hp).
        apply mapR_ok in Hp. rewrite <- (Forall2_length_eq _ _ _ Hp). exact (Hkids _ _ Hw _ Hc). }
    exact (sum_Forall2 _ _ _ _ HF'). }
  rewrite Hsum.
  rewrite (list_sum_perm _ _ (Permutation_map (cnt m) Hperm)).
  rewrite map_app, list_sum_app, tree_count_eq. f_equal.
  - clear. induction (m_ress m) as [|r rs IHr]; simpl; [reflexivity|]. rewrite IHr. reflexivity.
  - assert (Hgen : forall ws, incl ws (m_wins m) ->
      list_sum (map (cnt m) (map ent_of_win ws)) =
      fold_right (fun (wc : winent * mmap) acc => (tree_count (snd wc) + acc)%nat) 0%nat ws).
    { induction ws as [|[wn c] ws IHw]; intros Hincl; [reflexivity|].
      change (list_sum (map (cnt m) (map ent_of_win ((wn, c) :: ws)))) with
        (cnt m (ent_of_win (wn, c)) + list_sum (map (cnt m) (map ent_of_win ws)))%nat.
      cbn [fold_right snd]. rewrite (Hcw wn c) by (apply Hincl; simpl; auto).
      rewrite IHw; [reflexivity|]. intros y Hy; apply Hincl; simpl; auto. }
    apply Hgen. apply incl_refl.
Qed.

(* ------------------------------------------------------------------ on every reachable world *)

Lemma find_never_asserts m l id : wf_tree m -> all_resources m = Ok l ->
  find_resource m id <> Err AssertionError /\ find_resource m id <> Err TypeError.
Proof.
  intros Hwt Hl. destruct (find_wf m Hwt l Hl id) as (_ & _ & [[i Hi]|Hk]); rewrite ?Hi, ?Hk;
    split; discriminate.
Qed.
