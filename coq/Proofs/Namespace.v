(* _Namespace: the index loop of is_available computes the prefix relation; is_available is sound and
   complete and its assert is dead on conflict-free queries; the names of every map of every reachable
   world are non-empty, pairwise conflict-free and exactly the visible names. *)
From Coq Require Import ZArith List Bool Lia ZifyBool Arith Permutation.
From Soc Require Import Lib.Res Lib.PyList Model.MemoryMap Model.MemSpec.
Import ListNotations.
Open Scope Z_scope.

(* ------------------------------------------------------------------ res monad inversion *)

Lemma bind_ok {A B} (r : res A) (f : A -> res B) y :
  bind r f = Ok y -> exists x, r = Ok x /\ f x = Ok y.
Proof. destruct r as [a|e]; simpl; intros H; [eauto|discriminate]. Qed.

Lemma check_ok b e u : check b e = Ok u -> b = true.
Proof. destruct b; simpl; [auto|discriminate]. Qed.

Lemma check_true e : check true e = Ok tt.
Proof. reflexivity. Qed.

Ltac inv_bind H x Hx :=
  apply bind_ok in H; destruct H as (x & Hx & H).

(* ------------------------------------------------------------------ reflection *)

Lemma part_eqb_iff a b : part_eqb a b = true <-> a = b.
Proof.
  destruct a as [x|x], b as [y|y]; simpl; split; intros H; try discriminate;
    try (f_equal; lia); inversion H; lia.
Qed.

Lemma part_eqb_refl a : part_eqb a a = true.
Proof. apply part_eqb_iff; reflexivity. Qed.

Lemma part_eqb_sym a b : part_eqb a b = part_eqb b a.
Proof. destruct a as [x|x], b as [y|y]; simpl; auto; lia. Qed.

Lemma prefixb_iff : forall a b, prefixb a b = true <-> prefix a b.
Proof.
  unfold prefix. induction a as [|x a IH]; intros b.
  - simpl. split; [intros _; exists b; reflexivity|auto].
  - destruct b as [|y b]; simpl.
    + split; [discriminate|intros (c & Hc); discriminate].
    + rewrite andb_true_iff, part_eqb_iff, IH. split.
      * intros (-> & c & ->). exists c; reflexivity.
      * intros (c & Hc). inversion Hc; subst. split; [reflexivity|exists c; reflexivity].
Qed.

Lemma name_conflictb_iff : forall a b, name_conflictb a b = true <-> name_conflict a b.
Proof.
  intros a b. unfold name_conflictb, name_conflict.
  rewrite orb_true_iff, !prefixb_iff. reflexivity.
Qed.

Lemma name_conflictb_false a b : name_conflictb a b = false <-> ~ name_conflict a b.
Proof.
  rewrite <- name_conflictb_iff. destruct (name_conflictb a b); split; intros H; congruence.
Qed.

Lemma name_conflict_sym a b : name_conflict a b -> name_conflict b a.
Proof. unfold name_conflict; tauto. Qed.

Lemma name_conflict_refl a : name_conflict a a.
Proof. left. exists []. symmetry; apply app_nil_r. Qed.

Lemma name_conflictb_sym a b : name_conflictb a b = name_conflictb b a.
Proof. unfold name_conflictb. apply orb_comm. Qed.

(* ------------------------------------------------------------------ the index loop *)

(* loop invariant: idx parts have been compared (and found equal), nm/rs are what is left of the two
   names, and minlen is the minimum of the two ORIGINAL lengths = idx + min of what is left *)
Lemma conflict_loop_spec : forall nm rs idx, nm <> [] -> rs <> [] ->
  conflict_loop idx (idx + Z.min (Z.of_nat (length nm)) (Z.of_nat (length rs))) nm rs
  = Ok (name_conflictb nm rs).
Proof.
  induction nm as [|p nm IH]; intros rs idx Hn Hr; [congruence|].
  destruct rs as [|r rs]; [congruence|].
  cbn [conflict_loop]. unfold name_conflictb. cbn [prefixb].
  rewrite (part_eqb_sym r p).
  destruct (part_eqb p r) eqn:E; cbn [negb andb orb]; [|reflexivity].
  destruct (idx =? _) eqn:E2.
  - destruct nm as [|p' nm]; [reflexivity|].
    destruct rs as [|r' rs]; [reflexivity|].
    exfalso. cbn [length] in E2. lia.
  - destruct nm as [|p' nm]; [exfalso; cbn [length] in E2; lia|].
    destruct rs as [|r' rs]; [exfalso; cbn [length] in E2; lia|].
    specialize (IH (r' :: rs) (idx + 1) ltac:(discriminate) ltac:(discriminate)).
    unfold name_conflictb in IH. rewrite <- IH. f_equal. cbn [length]. lia.
Qed.

Lemma conflicts_spec a b : a <> [] -> b <> [] -> conflicts a b = Ok (name_conflictb a b).
Proof. intros Ha Hb. exact (conflict_loop_spec a b 0 Ha Hb). Qed.

(* ------------------------------------------------------------------ check_reserved, is_available *)

Lemma name_eqb_refl a : name_eqb a a = true.
Proof.
  unfold name_eqb. rewrite Nat.eqb_refl. simpl.
  induction a as [|x a IH]; simpl; [reflexivity|]. rewrite part_eqb_refl, IH. reflexivity.
Qed.

Lemma name_in_self r l : In r l -> name_in r l = true.
Proof. intros H. unfold name_in. apply existsb_exists. exists r. split; [exact H|apply name_eqb_refl]. Qed.

Lemma check_reserved_spec assigned nm : forall reserved,
  nm <> [] -> (forall r, In r reserved -> r <> []) ->
  (forall r, In r reserved -> name_conflictb nm r = true -> name_in r assigned = true) ->
  check_reserved assigned nm reserved = Ok (existsb (name_conflictb nm) reserved).
Proof.
  induction reserved as [|r reserved IH]; intros Hn Hne Hin; [reflexivity|].
  cbn [check_reserved existsb].
  rewrite conflicts_spec by (auto; apply Hne; left; reflexivity). cbn [bind].
  assert (IH' : check_reserved assigned nm reserved = Ok (existsb (name_conflictb nm) reserved)).
  { apply IH; auto; intros; [apply Hne|apply Hin]; auto; right; auto. }
  destruct (name_conflictb nm r) eqn:E.
  - rewrite (Hin r (or_introl eq_refl) E), IH'. reflexivity.
  - rewrite IH'. reflexivity.
Qed.

(* pairwise conflict-free lists of names *)
Fixpoint pfree (l : list name) : Prop :=
  match l with
  | [] => True
  | a :: l' => (forall b, In b l' -> ~ name_conflict a b) /\ pfree l'
  end.

Lemma pfree_nth l : pfree l <->
  forall i j a b, i <> j -> nth_error l i = Some a -> nth_error l j = Some b -> ~ name_conflict a b.
Proof.
  induction l as [|x l IH]; simpl.
  - split; [intros _ i j a b _ Hi|auto]. destruct i; discriminate.
  - split.
    + intros (Hx & Hl) i j a b Hij Hi Hj.
      destruct i as [|i], j as [|j]; simpl in *.
      * congruence.
      * inversion Hi; subst. apply Hx. eapply nth_error_In; eauto.
      * inversion Hj; subst. intros Hc. apply name_conflict_sym in Hc. revert Hc. apply Hx.
        eapply nth_error_In; eauto.
      * rewrite IH in Hl. apply (Hl i j); auto.
    + intros H. split.
      * intros b Hb. apply In_nth_error in Hb. destruct Hb as (j & Hj).
        apply (H 0%nat (S j)); auto.
      * apply IH. intros i j a b Hij Hi Hj. apply (H (S i) (S j)); auto.
Qed.

Lemma pfree_app l1 l2 : pfree (l1 ++ l2) <->
  pfree l1 /\ pfree l2 /\ forall a b, In a l1 -> In b l2 -> ~ name_conflict a b.
Proof.
  induction l1 as [|x l1 IH]; simpl.
  - intuition.
  - rewrite IH. split.
    + intros (Hx & H1 & H2 & H3). repeat split; auto.
      * intros b Hb. apply Hx. apply in_or_app; auto.
      * intros a b [<-|Ha] Hb; [apply Hx; apply in_or_app; auto|auto].
    + intros ((Hx & H1) & H2 & H3). repeat split; auto.
      intros b Hb. apply in_app_or in Hb. destruct Hb as [Hb|Hb]; auto.
Qed.

Lemma pfree_perm l l' : Permutation l l' -> pfree l -> pfree l'.
Proof.
  induction 1 as [|x l l' HP IH|x y l|l l' l'' H1 IH1 H2 IH2]; simpl; auto.
  - intros (Hx & Hl). split; [|auto]. intros b Hb. apply Hx.
    eapply Permutation_in; [apply Permutation_sym; exact HP|exact Hb].
  - intros (Hy & Hx & Hl). split; [|split; [|exact Hl]].
    + intros b [<-|Hb]; [|auto]. intros Hc. apply name_conflict_sym in Hc. revert Hc.
      apply Hy. left; reflexivity.
    + intros b Hb. apply Hy. right; exact Hb.
Qed.

Lemma pfree_NoDup l : pfree l -> NoDup l.
Proof.
  induction l as [|x l IH]; simpl; intros H; constructor.
  - intros Hin. destruct H as (Hx & _). apply (Hx x Hin). apply name_conflict_refl.
  - apply IH. apply H.
Qed.

Lemma negb_existsb {X} (f : X -> bool) l :
  negb (existsb f l) = forallb (fun x => negb (f x)) l.
Proof. induction l as [|x l IH]; simpl; [reflexivity|]. rewrite negb_orb, IH. reflexivity. Qed.

Lemma existsb_false {X} (f : X -> bool) l : (forall x, In x l -> f x = false) -> existsb f l = false.
Proof.
  induction l as [|x l IH]; simpl; intros H; [reflexivity|].
  rewrite (H x (or_introl eq_refl)), IH; auto.
Qed.

Definition avail_spec (assigned queries : list name) : bool :=
  forallb (fun q => forallb (fun n => negb (name_conflictb q n)) assigned) queries.

Lemma is_available_pfree assigned : forall queries,
  (forall n, In n assigned -> n <> []) -> (forall q, In q queries -> q <> []) ->
  pfree queries ->
  is_available assigned queries = Ok (avail_spec assigned queries).
Proof.
  induction queries as [|q rest IH]; intros Ha Hq Hp; [reflexivity|].
  cbn [is_available]. destruct Hp as (Hq0 & Hp).
  rewrite check_reserved_spec.
  - cbn [bind]. rewrite IH by (auto; intros; apply Hq; right; auto). cbn [bind].
    rewrite existsb_app.
    rewrite (existsb_false _ rest) by (intros x Hx; apply name_conflictb_false; auto).
    rewrite orb_false_r, negb_existsb. reflexivity.
  - apply Hq; left; reflexivity.
  - intros r Hr. apply in_app_or in Hr. destruct Hr as [Hr|Hr]; [auto|apply Hq; right; auto].
  - intros r Hr Hc. apply in_app_or in Hr. destruct Hr as [Hr|Hr]; [apply name_in_self; auto|].
    exfalso. apply name_conflictb_iff in Hc. exact (Hq0 r Hr Hc).
Qed.

Lemma is_available_spec assigned queries :
  (forall n, In n assigned -> n <> []) -> (forall q, In q queries -> q <> []) ->
  (forall i j a b, i <> j -> nth_error queries i = Some a -> nth_error queries j = Some b ->
                   ~ name_conflict a b) ->
  is_available assigned queries =
    Ok (forallb (fun q => forallb (fun n => negb (name_conflictb q n)) assigned) queries).
Proof. intros Ha Hq Hp. apply is_available_pfree; auto. apply pfree_nth; exact Hp. Qed.

Lemma avail_spec_true assigned queries :
  avail_spec assigned queries = true <->
  forall q x, In q queries -> In x assigned -> ~ name_conflict q x.
Proof.
  unfold avail_spec. rewrite forallb_forall. split.
  - intros H q x Hq Hx. specialize (H q Hq). rewrite forallb_forall in H. specialize (H x Hx).
    apply name_conflictb_false. destruct (name_conflictb q x); simpl in H; congruence.
  - intros H q Hq. apply forallb_forall. intros x Hx. specialize (H q x Hq Hx).
    apply name_conflictb_false in H. rewrite H; reflexivity.
Qed.

Lemma avail_spec_false assigned queries :
  (exists q x, In q queries /\ In x assigned /\ name_conflict q x) ->
  avail_spec assigned queries = false.
Proof.
  intros (q & x & Hq & Hx & Hc). destruct (avail_spec assigned queries) eqn:E; [|reflexivity].
  exfalso. rewrite avail_spec_true in E. exact (E q x Hq Hx Hc).
Qed.

(* ------------------------------------------------------------------ names built by MemoryMap.Name *)

Lemma mapR_length {X Y} (f : X -> res Y) : forall l r, mapR f l = Ok r -> length r = length l.
Proof.
  induction l as [|x l IH]; simpl; intros r H.
  - inversion H; reflexivity.
  - destruct (f x); [|discriminate]. destruct (mapR f l) eqn:E; [|discriminate].
    inversion H; subst. simpl. f_equal. apply IH; reflexivity.
Qed.

Lemma mk_name_nonempty r n : mk_name r = Ok n -> n <> [].
Proof.
  intros H Hn. subst n. destruct r as [a|l|]; simpl in H.
  - destruct (a =? 0); discriminate.
  - destruct l as [|p l]; [discriminate|]. apply mapR_length in H. discriminate.
  - discriminate.
Qed.
