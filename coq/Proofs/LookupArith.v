(* Arithmetic facts behind address translation and address allocation: division by a window ratio
   on multiples of it, and MemoryMap._align_up never decreasing its argument. *)
From Coq Require Import ZArith List Bool Lia ZifyBool.
From Soc Require Import Lib.Res Lib.PyList Model.MemoryMap.
Open Scope Z_scope.

Local Opaque Z.pow.
Ltac Zify.zify_post_hook ::= Z.to_euclidean_division_equations.

Lemma shiftl1_pow a : Z.shiftl 1 a = 2 ^ a.
Proof. apply Z.shiftl_1_l. Qed.

Lemma pow2_gt0 a : 0 <= a -> 0 < 2 ^ a.
Proof. intros; apply Z.pow_pos_nonneg; lia. Qed.

(* multiples of step: exact division *)
Lemma mult_of step x : 1 <= step -> x mod step = 0 -> exists k, x = k * step.
Proof.
  intros H1 H2. exists (x / step). rewrite Z.mul_comm. apply Z_div_exact_full_2; lia.
Qed.

Lemma div_split step s e : 1 <= step -> s mod step = 0 -> (e - s) mod step = 0 ->
  e mod step = 0 /\ s / step + (e - s) / step = e / step.
Proof.
  intros H1 H2 H3.
  destruct (mult_of _ _ H1 H2) as (k1 & ->). destruct (mult_of _ _ H1 H3) as (k2 & Hk2).
  assert (He : e = (k1 + k2) * step) by lia.
  rewrite Hk2, He. rewrite Z_mod_mult, !Z_div_mult by lia. auto.
Qed.

Lemma div_lt_mult step s e : 1 <= step -> s mod step = 0 -> e mod step = 0 -> s < e ->
  s / step < e / step.
Proof.
  intros H1 H2 H3 H4.
  destruct (mult_of _ _ H1 H2) as (k1 & ->). destruct (mult_of _ _ H1 H3) as (k2 & ->).
  rewrite !Z_div_mult by lia. nia.
Qed.

Lemma div_le step lo s : 1 <= step -> lo <= s -> lo / step <= s / step.
Proof. intros H1 H2. apply Z.div_le_mono; lia. Qed.

Lemma div_in_mult step s e d : 1 <= step -> s mod step = 0 -> e mod step = 0 ->
  (s <= d * step < e <-> s / step <= d < e / step).
Proof.
  intros H1 H2 H3.
  destruct (mult_of _ _ H1 H2) as (k1 & ->). destruct (mult_of _ _ H1 H3) as (k2 & ->).
  rewrite !Z_div_mult by lia. split; intros H; nia.
Qed.

(* _align_up rounds upwards *)
Lemma align_up_ge x a : 0 <= a -> x <= align_up x a.
Proof.
  intros Ha. unfold align_up. rewrite shiftl1_pow.
  pose proof (pow2_gt0 a Ha) as Hp.
  destruct (negb (x mod 2 ^ a =? 0)) eqn:E; [|lia].
  pose proof (Z.mod_pos_bound x (2 ^ a) Hp). lia.
Qed.
