(* C16: what Peripheral.__init__ accepts, and where the four registers end up. *)
From Coq Require Import ZArith List Bool Lia ZifyBool.
From Soc Require Import Lib.Bits Lib.Res.
From Soc Require Import Model.Mux Model.MuxSpec Model.Gpio Model.GpioSpec Proofs.ShadowHash Proofs.MuxPrepare.
From Soc Require Model.MemoryMap Model.MemSpec Proofs.MemArith.
Import ListNotations.
Open Scope Z_scope.

(* ------------------------------------------------------------------ the documented layout *)

Lemma nsize_pos dw w : 0 < nsize dw w.
Proof. apply pow2_pos, ceil_log2_nonneg. Qed.

Lemma round_up_least x p : 0 < p -> MemSpec.least_multiple_ge p x (round_up x p).
Proof.
  intros Hp. unfold round_up, MemSpec.least_multiple_ge.
  pose proof (Z.div_mod (x + p - 1) p ltac:(lia)) as Hd.
  pose proof (Z.mod_pos_bound (x + p - 1) p Hp) as Hm.
  split; [apply Z.mod_mul; lia|]. split; [lia|].
  intros r' Hr' Hle.
  apply Z.mod_divide in Hr'; [|lia]. destruct Hr' as [q ->].
  assert (Hq : (x + p - 1) / p < q + 1) by (apply Z.div_lt_upper_bound; [lia|]; lia).
  apply Z.mul_le_mono_nonneg_r; lia.
Qed.

Lemma least_unique k v r1 r2 :
  MemSpec.least_multiple_ge k v r1 -> MemSpec.least_multiple_ge k v r2 -> r1 = r2.
Proof.
  intros (M1 & G1 & L1) (M2 & G2 & L2). specialize (L1 r2 M2 G2). specialize (L2 r1 M1 G1). lia.
Qed.

Lemma align_up_round x a : 0 <= a -> MemoryMap.align_up x a = round_up x (2 ^ a).
Proof.
  intros Ha. eapply least_unique; [apply MemArith.align_up_spec, Ha|apply round_up_least, pow2_pos, Ha].
Qed.

(* size = align_up(max(reg_size, 1), ceil_log2(reg_size)) is the power of two itself *)
Lemma align_size n : 0 <= n -> MemoryMap.align_up (Z.max n 1) (ceil_log2 n) = 2 ^ ceil_log2 n.
Proof.
  intros Hn. pose proof (ceil_log2_nonneg n) as Hc.
  pose proof (pow2_pos (ceil_log2 n) Hc) as Hp.
  destruct (MemArith.align_up_spec (Z.max n 1) (ceil_log2 n) Hc) as (Hm & Hge & Hleast).
  assert (Hle : MemoryMap.align_up (Z.max n 1) (ceil_log2 n) <= 2 ^ ceil_log2 n).
  { apply Hleast; [apply Z.mod_same; lia|].
    destruct (Z.leb_spec n 1).
    - unfold ceil_log2. replace (n <=? 1) with true by lia. simpl. lia.
    - pose proof (ceil_log2_ge n ltac:(lia)). lia. }
  set (m := MemoryMap.align_up (Z.max n 1) (ceil_log2 n)) in *.
  destruct (Z.lt_ge_cases m (2 ^ ceil_log2 n)) as [Hlt|]; [|lia].
  rewrite Z.mod_small in Hm by lia. lia.
Qed.

Lemma regsize_nonneg dw w : 0 < dw -> 0 <= w -> 0 <= (w + dw - 1) / dw.
Proof. intros. apply Z.div_pos; lia. Qed.

Lemma shiftl1 a : Z.shiftl 1 a = 2 ^ a.
Proof. apply Z.shiftl_1_l. Qed.

(* the placement loop of Builder.as_memory_map computes the documented layout, or raises ValueError as soon
   as a register would end beyond 2**addr_width — it never moves or shrinks one *)
Lemma place_spec aw dw : 0 < dw -> forall specs cur, Forall (fun s => 0 <= fst s) specs ->
  place aw dw cur specs =
  if forallb (fun r => r_stop r <=? 2 ^ aw) (natural dw cur specs)
  then Ok (natural dw cur specs) else Err ValueError.
Proof.
  intros Hdw. induction specs as [|[w [rd wr]] specs IH]; intros cur Hw; [reflexivity|].
  inversion Hw as [|x l Hw0 Hw']; subst. cbn [fst] in Hw0.
  cbn [place natural forallb r_stop].
  pose proof (regsize_nonneg dw w Hdw Hw0) as Hrs.
  rewrite align_size by exact Hrs.
  rewrite align_up_round by apply ceil_log2_nonneg.
  fold (nsize dw w). rewrite shiftl1.
  pose proof (nsize_pos dw w) as Hp.
  rewrite (IH _ Hw').
  set (a := round_up cur (nsize dw w)).
  destruct (Z.leb_spec (a + nsize dw w) (2 ^ aw)) as [Hfit|Hno].
  - replace ((a >? 2 ^ aw) || (a + nsize dw w >? 2 ^ aw)) with false by lia.
    cbn [andb].
    destruct (forallb (fun r => r_stop r <=? 2 ^ aw) (natural dw (a + nsize dw w) specs)); reflexivity.
  - replace ((a >? 2 ^ aw) || (a + nsize dw w >? 2 ^ aw)) with true by lia. reflexivity.
Qed.

Lemma round_up_ge x p : 0 < p -> x <= round_up x p.
Proof. intros Hp. apply (round_up_least x p Hp). Qed.

Lemma natural_layout dw : forall specs cur lo, lo <= cur -> Forall (fun s => 0 <= fst s) specs ->
  layout_from lo (natural dw cur specs).
Proof.
  induction specs as [|[w [rd wr]] specs IH]; intros cur lo Hlo Hw; [exact I|].
  inversion Hw as [|x l Hw0 Hw']; subst. cbn [fst] in Hw0.
  cbn [natural layout_from r_start r_stop r_width].
  pose proof (nsize_pos dw w). pose proof (round_up_ge cur (nsize dw w) ltac:(lia)).
  repeat split; try lia. apply IH; [lia|exact Hw'].
Qed.

(* stops only grow: the whole block fits iff its last register does *)
Lemma natural_length dw : forall specs cur, length (natural dw cur specs) = length specs.
Proof. induction specs as [|[w [rd wr]] specs IH]; intros; simpl; [reflexivity|]. rewrite IH. reflexivity. Qed.

(* ------------------------------------------------------------------ the constructor *)

Lemma specs_nonneg n : 0 < n -> Forall (fun s : Z * (bool * bool) => 0 <= fst s) (reg_specs n).
Proof. intros. unfold reg_specs. repeat constructor; cbn [fst]; lia. Qed.

Lemma dw8 dw : (dw =? dw / 8 * 8) = (dw mod 8 =? 0).
Proof. pose proof (Z.div_mod dw 8 ltac:(lia)). lia. Qed.

(* the constructor as one case analysis *)
Lemma ctor_cases p :
  ctor p =
  if negb (types_ok p) then Err TypeError
  else if negb (zof (p_dw p) mod 8 =? 0) || negb (fits p) then Err ValueError
  else match mk_cfg (zof (p_dw p)) (layout_of p) None with
       | Some mc => Ok {| g_pins := Z.to_nat (zof (p_pins p)); g_stages := Z.to_nat (zof (p_stages p));
                          g_aw := zof (p_aw p); g_dw := zof (p_dw p); g_mux := mc |}
       | None => Err OtherError
       end.
Proof.
  unfold ctor, types_ok.
  destruct (posint (p_pins p)) eqn:E1; cbn [negb andb]; [|reflexivity].
  destruct (nonneg (p_stages p)) eqn:E2; cbn [negb andb]; [|reflexivity].
  destruct (posint (p_aw p)) eqn:E3; cbn [negb andb]; [|reflexivity].
  destruct (posint (p_dw p)) eqn:E4; cbn [negb andb]; [|reflexivity].
  rewrite dw8. destruct (zof (p_dw p) mod 8 =? 0) eqn:E5; cbn [negb orb]; [|reflexivity].
  assert (Hdw : 0 < zof (p_dw p)) by (destruct (p_dw p); cbn in *; try discriminate; lia).
  assert (Hn : 0 < zof (p_pins p)) by (destruct (p_pins p); cbn in *; try discriminate; lia).
  rewrite (place_spec _ _ Hdw) by (apply specs_nonneg, Hn).
  unfold fits, layout_of.
  destruct (forallb _ _); reflexivity.
Qed.

Lemma layout_of_wf p : types_ok p = true -> wf_layout (layout_of p).
Proof.
  unfold types_ok. intros H.
  assert (Hn : 0 < zof (p_pins p)) by (destruct (p_pins p); cbn in *; try discriminate; lia).
  apply natural_layout; [lia|apply specs_nonneg, Hn].
Qed.

(* an accepted configuration: admissible multiplexer over the documented layout *)
Theorem ctor_ok p c : ctor p = Ok c ->
  types_ok p = true /\ zof (p_dw p) mod 8 = 0 /\ fits p = true /\
  wf_cfg (g_mux c) /\ c_regs (g_mux c) = layout_of p /\ c_dw (g_mux c) = zof (p_dw p) /\
  g_pins c = Z.to_nat (zof (p_pins p)) /\ g_stages c = Z.to_nat (zof (p_stages p)).
Proof.
  rewrite ctor_cases. destruct (types_ok p) eqn:Et; cbn [negb]; [|discriminate].
  destruct (zof (p_dw p) mod 8 =? 0) eqn:E8; cbn [negb orb]; [|discriminate].
  destruct (fits p) eqn:Ef; cbn [negb]; [|discriminate].
  assert (Hdw : 0 < zof (p_dw p)).
  { unfold types_ok in Et. destruct (p_dw p); cbn in *; try (rewrite ?andb_false_r in Et; discriminate). lia. }
  destruct (mk_cfg_total (zof (p_dw p)) (layout_of p) None Hdw (layout_of_wf p Et) I) as (mc & Em & Hwf & Hr & Hd).
  rewrite Em. intros H. injection H as <-. cbn [g_mux g_pins g_stages].
  split; [reflexivity|]. split; [lia|]. split; [reflexivity|]. split; [exact Hwf|]. auto.
Qed.

(* ctor_rejects_iff: TypeError exactly for ill-typed / non-positive arguments, ValueError exactly when the data
   width is not a multiple of the 8-bit granularity or the documented layout does not fit the address space,
   no other failure, and acceptance otherwise *)
Theorem ctor_rejects_iff p :
  (ctor p = Err TypeError <-> types_ok p = false) /\
  (ctor p = Err ValueError <-> types_ok p = true /\ (zof (p_dw p) mod 8 <> 0 \/ fits p = false)) /\
  ((exists c, ctor p = Ok c) <-> types_ok p = true /\ zof (p_dw p) mod 8 = 0 /\ fits p = true) /\
  (forall e, ctor p = Err e -> e = TypeError \/ e = ValueError).
Proof.
  rewrite ctor_cases. destruct (types_ok p) eqn:Et; cbn [negb].
  2:{ split; [split; auto|]. split; [split; [discriminate|intros [H _]; discriminate]|].
      split; [split; [intros [c H]; discriminate|intros [H _]; discriminate]|].
      intros e H. left. congruence. }
  assert (Hdw : 0 < zof (p_dw p)).
  { unfold types_ok in Et. destruct (p_dw p); cbn in *; try (rewrite ?andb_false_r in Et; discriminate). lia. }
  destruct (mk_cfg_total (zof (p_dw p)) (layout_of p) None Hdw (layout_of_wf p Et) I) as (mc & Em & _).
  rewrite Em.
  destruct (zof (p_dw p) mod 8 =? 0) eqn:E8; cbn [negb orb].
  - destruct (fits p) eqn:Ef; cbn [negb].
    + split; [split; discriminate|].
      split; [split; [discriminate|intros (_ & [H|H]); [lia|discriminate]]|].
      split; [split; [intros _; repeat split; lia|intros _; eexists; reflexivity]|].
      intros e H. discriminate.
    + split; [split; discriminate|].
      split; [split; [intros _; split; auto|reflexivity]|].
      split; [split; [intros [c H]; discriminate|intros (_ & _ & H); discriminate]|].
      intros e H. right. congruence.
  - split; [split; discriminate|].
    split; [split; [intros _; split; [reflexivity|left; lia]|reflexivity]|].
    split; [split; [intros [c H]; discriminate|intros (_ & H & _); lia]|].
    intros e H. right. congruence.
Qed.

Theorem ctor_never_other p : ctor p <> Err OtherError.
Proof.
  intros H. destruct (ctor_rejects_iff p) as (_ & _ & _ & Hn). destruct (Hn _ H); discriminate.
Qed.

Lemma layout_of_four p : exists r0 r1 r2 r3, layout_of p = [r0; r1; r2; r3] /\
  r_width r0 = 2 * zof (p_pins p) /\ r_rd r0 = true /\ r_wr r0 = true /\
  r_width r1 = zof (p_pins p) /\ r_rd r1 = true /\ r_wr r1 = false /\
  r_width r2 = zof (p_pins p) /\ r_rd r2 = true /\ r_wr r2 = true /\
  r_width r3 = 2 * zof (p_pins p) /\ r_rd r3 = false /\ r_wr r3 = true.
Proof.
  unfold layout_of, reg_specs. cbn [natural].
  do 4 eexists. split; [reflexivity|]. cbn. repeat split; reflexivity.
Qed.
