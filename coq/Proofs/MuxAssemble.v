(* What `assemble` (the right-hand side of C05_write_atomic) means bit by bit: it is the concatenation of
   the chunk data, dw bits per chunk, clipped to the register width. *)
From Coq Require Import ZArith List Bool Lia.
From Soc Require Import Lib.Bits Model.Mux Model.MuxSpec.
Import ListNotations.
Open Scope Z_scope.

Lemma testbit_add_shift x y lo b : 0 <= lo -> 0 <= x < 2 ^ lo -> 0 <= b ->
  Z.testbit (x + y * 2 ^ lo) b = if b <? lo then Z.testbit x b else Z.testbit y (b - lo).
Proof.
  intros Hlo Hx Hb. assert (Hp : 0 < 2 ^ lo) by (apply pow2_pos; auto).
  destruct (Z.ltb_spec b lo) as [H|H].
  - rewrite <- (Z.mod_pow2_bits_low (x + y * 2 ^ lo) lo b) by lia.
    rewrite Z.mod_add by lia. rewrite Z.mod_small by lia. reflexivity.
  - replace b with ((b - lo) + lo) at 1 by lia.
    rewrite <- Z.div_pow2_bits by lia.
    rewrite Z.div_add by lia. rewrite Z.div_small by lia. reflexivity.
Qed.

Lemma assemble_range dw width data n : 0 < dw -> 0 <= width ->
  0 <= assemble dw width data n < 2 ^ Z.min width (Z.of_nat n * dw).
Proof.
  intros Hdw Hw. induction n as [|n IH].
  - cbn [assemble]. replace (Z.min width (Z.of_nat 0 * dw)) with 0 by lia. simpl. lia.
  - cbn [assemble]. cbv zeta.
    replace (Z.of_nat (S n) * dw) with (Z.of_nat n * dw + dw) by lia.
    replace ((Z.of_nat n + 1) * dw) with (Z.of_nat n * dw + dw) by ring.
    set (lo := Z.of_nat n * dw) in *. assert (Hlo : 0 <= lo) by (unfold lo; lia).
    destruct (Z.leb_spec (Z.min width (lo + dw)) lo) as [H|H].
    + replace (Z.min width (lo + dw)) with (Z.min width lo) by lia. lia.
    + replace (Z.min width lo) with lo in IH by lia.
      set (hi := Z.min width (lo + dw)) in *.
      pose proof (trunc_range (hi - lo) (data (Z.of_nat n))) as Ht. specialize (Ht ltac:(lia)).
      assert (E : 2 ^ hi = 2 ^ (hi - lo) * 2 ^ lo) by (rewrite <- Z.pow_add_r by lia; f_equal; lia).
      rewrite E. nia.
Qed.

(* bit b of the assembled value is bit (b mod dw) of chunk (b / dw), for b below the width and below
   the n chunks assembled; every other bit is zero *)
Lemma assemble_testbit dw width data n b : 0 < dw -> 0 <= width -> 0 <= b ->
  Z.testbit (assemble dw width data n) b =
  if b <? Z.min width (Z.of_nat n * dw) then Z.testbit (data (b / dw)) (b mod dw) else false.
Proof.
  intros Hdw Hw Hb. induction n as [|n IH].
  - cbn [assemble]. rewrite Z.bits_0.
    destruct (Z.ltb_spec b (Z.min width (Z.of_nat 0 * dw))); [lia|reflexivity].
  - cbn [assemble]. cbv zeta.
    pose proof (assemble_range dw width data n Hdw Hw) as Hr.
    replace (Z.of_nat (S n) * dw) with (Z.of_nat n * dw + dw) by lia.
    replace ((Z.of_nat n + 1) * dw) with (Z.of_nat n * dw + dw) by ring.
    set (lo := Z.of_nat n * dw) in *. assert (Hlo : 0 <= lo) by (unfold lo; lia).
    destruct (Z.leb_spec (Z.min width (lo + dw)) lo) as [H|H].
    + rewrite Z.add_0_r, IH.
      replace (Z.min width (lo + dw)) with (Z.min width lo) by lia. reflexivity.
    + replace (Z.min width lo) with lo in * by lia.
      set (hi := Z.min width (lo + dw)) in *.
      rewrite testbit_add_shift by lia. rewrite IH.
      destruct (Z.ltb_spec b lo) as [Hbl|Hbl].
      * destruct (Z.ltb_spec b hi); [reflexivity|lia].
      * rewrite trunc_testbit by lia.
        destruct (Z.ltb_spec (b - lo) (hi - lo)), (Z.ltb_spec b hi); try lia; try reflexivity.
        assert (Eq : b / dw = Z.of_nat n).
        { symmetry. apply (Z.div_unique_pos b dw (Z.of_nat n) (b - lo)); [lia|]. unfold lo. lia. }
        assert (Em : b mod dw = b - lo).
        { symmetry. apply (Z.mod_unique_pos b dw (Z.of_nat n) (b - lo)); [lia|]. unfold lo. lia. }
        rewrite Eq, Em. reflexivity.
Qed.

(* with all the register's chunks assembled and the addresses covering the width (which the memory map
   guarantees: a register occupies at least ceil(width/dw) addresses) only the width clips *)
Lemma assemble_full_testbit dw width data n b : 0 < dw -> 0 <= width -> 0 <= b ->
  width <= Z.of_nat n * dw ->
  Z.testbit (assemble dw width data n) b =
  if b <? width then Z.testbit (data (b / dw)) (b mod dw) else false.
Proof.
  intros Hdw Hw Hb Hcov. rewrite assemble_testbit by auto.
  replace (Z.min width (Z.of_nat n * dw)) with width by lia. reflexivity.
Qed.
