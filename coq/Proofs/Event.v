(* Proofs about the event model (C13): EventMap numbering over all call histories, and the
   Monitor's trigger / pending / interrupt equations over all configurations and traces. *)
From Coq Require Import ZArith List Bool Lia Arith ZifyBool.
From Soc Require Import Model.Event.
Import ListNotations.

(* ========================================================================================== *)
(* generic list facts                                                                          *)
(* ========================================================================================== *)

Lemma nth_error_combine {X Y} : forall (l : list X) (l' : list Y) k a,
  length l = length l' -> nth_error l k = Some a ->
  exists b, nth_error l' k = Some b /\ nth_error (combine l l') k = Some (a, b).
Proof.
  induction l as [|x l IH]; intros l' k a Hlen Hn; destruct k; simpl in *; try discriminate;
    destruct l' as [|y l']; simpl in *; try discriminate.
  - injection Hn as <-. exists y. auto.
  - apply IH; auto.
Qed.

Lemma map_fst_combine {X Y} : forall (l : list X) (l' : list Y),
  length l = length l' -> map fst (combine l l') = l.
Proof.
  induction l as [|x l IH]; intros l' Hlen; destruct l' as [|y l']; simpl in *; try discriminate; auto.
  f_equal. apply IH. lia.
Qed.

Lemma nth_error_seq0 n k : (k < n)%nat -> nth_error (seq 0 n) k = Some k.
Proof.
  intros H. destruct (nth_error (seq 0 n) k) eqn:E.
  - apply nth_error_nth with (d := 0%nat) in E. rewrite seq_nth in E by auto. simpl in E. congruence.
  - apply nth_error_None in E. rewrite seq_length in E. lia.
Qed.

(* a list whose k-th element carries the number k *)
Lemma numbered_nth {X} (f : X -> nat) (l : list X) k x :
  map f l = seq 0 (length l) -> nth_error l k = Some x -> f x = k.
Proof.
  intros Hw Hn.
  assert (Hk : (k < length l)%nat) by (apply nth_error_Some; congruence).
  apply (map_nth_error f) in Hn. rewrite Hw, nth_error_seq0 in Hn by auto. congruence.
Qed.

Lemma numbered_lt {X} (f : X -> nat) (l : list X) x :
  map f l = seq 0 (length l) -> In x l -> (f x < length l)%nat.
Proof.
  intros Hw Hi. apply (in_map f) in Hi. rewrite Hw in Hi. apply in_seq in Hi. lia.
Qed.

Lemma numbered_NoDup {X} (f : X -> nat) (l : list X) :
  map f l = seq 0 (length l) -> NoDup (map f l).
Proof. intros ->. apply seq_NoDup. Qed.

(* ========================================================================================== *)
(* Part 1: EventMap                                                                            *)
(* ========================================================================================== *)

Definition ids (m : emap) : list Z := map fst (em_srcs m).

(* invariant of every map object: numbers are 0..size-1 in insertion order, identities distinct *)
Definition wf_map (m : emap) : Prop :=
  map snd (em_srcs m) = seq 0 (em_size m) /\ NoDup (ids m).

Lemma lookup_none id : forall l, lookup id l = None <-> ~ In id (map fst l).
Proof.
  induction l as [|[i k] l IH]; simpl; [tauto|].
  destruct (Z.eqb_spec i id) as [->|Hne].
  - split; [discriminate|]. intros H; exfalso; apply H; auto.
  - rewrite IH. split; intros H; [intros [E|E]; auto | tauto].
Qed.

Lemma lookup_some_in id k : forall l, lookup id l = Some k -> In (id, k) l.
Proof.
  induction l as [|[i j] l IH]; simpl; [discriminate|].
  destruct (Z.eqb_spec i id) as [->|Hne]; intros H.
  - injection H as ->. auto.
  - right. auto.
Qed.

Lemma in_lookup id k : forall l, NoDup (map fst l) -> In (id, k) l -> lookup id l = Some k.
Proof.
  induction l as [|[i j] l IH]; simpl; intros Hnd Hin; [tauto|].
  apply NoDup_cons_iff in Hnd. destruct Hnd as [Hni Hnd].
  destruct Hin as [E|Hin].
  - injection E as -> ->. rewrite Z.eqb_refl. reflexivity.
  - destruct (Z.eqb_spec i id) as [->|Hne]; auto.
    exfalso. apply Hni. apply (in_map fst) in Hin. exact Hin.
Qed.

Lemma lookup_app id l l' :
  lookup id (l ++ l') = match lookup id l with Some k => Some k | None => lookup id l' end.
Proof.
  induction l as [|[i j] l IH]; simpl; auto. destruct (i =? id)%Z; auto.
Qed.

(* what add() does to the object, case by case *)
Lemma add_cases m a :
  (fst (em_add m a) = m) \/
  (exists id, a = Src id /\ em_frozen m = false /\ lookup id (em_srcs m) = None /\
              fst (em_add m a) = {| em_srcs := em_srcs m ++ [(id, em_size m)]; em_frozen := false |}).
Proof.
  unfold em_add. destruct (em_frozen m) eqn:Hf; auto.
  destruct a as [id|]; auto.
  destruct (lookup id (em_srcs m)) eqn:Hl; auto.
  right. exists id. auto.
Qed.

Lemma wf_empty : wf_map em_empty.
Proof. split; simpl; [reflexivity | constructor]. Qed.

Lemma wf_step m o : wf_map m -> wf_map (fst (step m o)).
Proof.
  intros [Hd Hn]. destruct o as [a|a| | |]; simpl; try (split; assumption).
  destruct (em_add m a) as [m' e] eqn:E. simpl.
  assert (Em : m' = fst (em_add m a)) by (rewrite E; reflexivity).
  destruct (add_cases m a) as [H|(id & -> & Hf & Hl & H)]; rewrite Em, H; [split; assumption|].
  unfold wf_map, ids, em_size in *. simpl. rewrite !map_app, app_length. simpl. split.
  - rewrite Hd. replace (length (em_srcs m) + 1)%nat with (S (length (em_srcs m))) by lia.
    rewrite seq_S. reflexivity.
  - apply lookup_none in Hl.
    apply NoDup_rev in Hn. rewrite <- (rev_involutive (map fst (em_srcs m) ++ [id])).
    apply NoDup_rev. rewrite rev_app_distr. simpl. constructor; auto.
    rewrite <- in_rev. exact Hl.
Qed.

Lemma wf_after_from : forall h m, wf_map m -> wf_map (after_from m h).
Proof. induction h as [|o h IH]; simpl; intros m H; auto. apply IH, wf_step, H. Qed.

Lemma wf_after h : wf_map (after h).
Proof. apply wf_after_from, wf_empty. Qed.

Lemma after_from_app : forall h h' m, after_from m (h ++ h') = after_from (after_from m h) h'.
Proof. induction h as [|o h IH]; simpl; intros; auto. Qed.

Lemma run_ops_state : forall h m, fst (run_ops m h) = after_from m h.
Proof.
  induction h as [|o h IH]; simpl; intros m; auto.
  destruct (step m o) as [m1 r] eqn:E1. specialize (IH m1).
  destruct (run_ops m1 h) as [m2 rs]. simpl in *. exact IH.
Qed.

(* ---- dense numbering; index() and sources() agree ---- *)

Lemma index_iff_sources m id k : wf_map m ->
  (em_index m (Src id) = inl k <-> In (id, k) (em_sources m)).
Proof.
  intros [_ Hn]. unfold em_index, em_sources. split.
  - destruct (lookup id (em_srcs m)) eqn:E; [|discriminate].
    intros H. injection H as ->. apply lookup_some_in, E.
  - intros H. rewrite (in_lookup id k _ Hn H). reflexivity.
Qed.

Lemma index_iff_nth m id k : wf_map m ->
  (em_index m (Src id) = inl k <-> nth_error (em_sources m) k = Some (id, k)).
Proof.
  intros Hw. rewrite (index_iff_sources m id k Hw). destruct Hw as [Hd _]. unfold em_sources. split.
  - intros H. destruct (In_nth_error _ _ H) as [j Hj].
    pose proof (numbered_nth snd _ _ _ Hd Hj) as E. simpl in E. subst j. exact Hj.
  - apply nth_error_In.
Qed.

Lemma index_lt_size m id k : wf_map m -> em_index m (Src id) = inl k -> (k < em_size m)%nat.
Proof.
  intros Hw H. apply (index_iff_sources m id k Hw) in H. destruct Hw as [Hd _].
  apply (numbered_lt snd _ _ Hd) in H. exact H.
Qed.

Lemma index_injective m id id' k : wf_map m ->
  em_index m (Src id) = inl k -> em_index m (Src id') = inl k -> id = id'.
Proof.
  intros Hw H H'. apply (index_iff_nth m _ _ Hw) in H. apply (index_iff_nth m _ _ Hw) in H'.
  congruence.
Qed.

Lemma every_number_used m k : wf_map m -> (k < em_size m)%nat ->
  exists id, em_index m (Src id) = inl k.
Proof.
  intros Hw Hk. destruct (nth_error (em_sources m) k) as [[id j]|] eqn:E.
  - exists id. apply (index_iff_nth m id k Hw). destruct Hw as [Hd _].
    pose proof (numbered_nth snd _ _ _ Hd E) as Ej. simpl in Ej. subst j. exact E.
  - apply nth_error_None in E. unfold em_sources, em_size in *. lia.
Qed.

(* ---- stability ---- *)

Lemma index_stable_step m o id k :
  em_index m (Src id) = inl k -> em_index (fst (step m o)) (Src id) = inl k.
Proof.
  intros H. destruct o as [a|a| | |]; simpl; auto.
  destruct (em_add m a) as [m' e] eqn:E. simpl.
  assert (Em : m' = fst (em_add m a)) by (rewrite E; reflexivity).
  destruct (add_cases m a) as [H1|(id' & _ & _ & _ & H1)]; rewrite Em, H1; auto.
  unfold em_index in *. simpl. rewrite lookup_app.
  destruct (lookup id (em_srcs m)); [exact H|discriminate].
Qed.

Lemma index_stable_from : forall h m id k,
  em_index m (Src id) = inl k -> em_index (after_from m h) (Src id) = inl k.
Proof.
  induction h as [|o h IH]; simpl; intros m id k H; auto. apply IH, index_stable_step, H.
Qed.

(* ---- freeze ---- *)

Lemma frozen_step m o : em_frozen m = true ->
  em_srcs (fst (step m o)) = em_srcs m /\ em_frozen (fst (step m o)) = true.
Proof.
  intros Hf. destruct o as [a|a| | |]; simpl; auto.
  unfold em_add. rewrite Hf. simpl. auto.
Qed.

Lemma frozen_from : forall h m, em_frozen m = true ->
  em_srcs (after_from m h) = em_srcs m /\ em_frozen (after_from m h) = true.
Proof.
  induction h as [|o h IH]; simpl; intros m Hf; auto.
  destruct (frozen_step m o Hf) as [H1 H2]. destruct (IH _ H2) as [H3 H4].
  split; congruence.
Qed.

Lemma frozen_add_raises m a : em_frozen m = true -> em_add m a = (m, Some ValueError).
Proof. intros Hf. unfold em_add. rewrite Hf. reflexivity. Qed.

Lemma not_frozen_from : forall h m, ~ In OFreeze h -> em_frozen m = false ->
  em_frozen (after_from m h) = false.
Proof.
  induction h as [|o h IH]; simpl; intros m Hn Hf; auto.
  apply IH; [tauto|].
  destruct o as [a|a| | |]; simpl; auto; [|tauto].
  destruct (em_add m a) as [m' e] eqn:E. simpl.
  assert (Em : m' = fst (em_add m a)) by (rewrite E; reflexivity).
  destruct (add_cases m a) as [H1|(id' & _ & _ & _ & H1)]; rewrite Em, H1; auto.
Qed.

(* ---- numbering = order of first addition ---- *)

(* the Source identities passed to add() while the map is not yet frozen, in call order *)
Fixpoint added (h : list op) : list Z :=
  match h with
  | [] => []
  | OFreeze :: _ => []
  | OAdd (Src id) :: h' => id :: added h'
  | _ :: h' => added h'
  end.

Lemma ids_after_from : forall h m, em_frozen m = false ->
  forall x, In x (ids (after_from m h)) <-> In x (ids m) \/ In x (added h).
Proof.
  induction h as [|o h IH]; simpl; intros m Hf x; [tauto|].
  destruct o as [a|a| | |]; simpl; try (apply IH; assumption).
  - destruct (em_add m a) as [m' e] eqn:E. simpl.
    assert (Em : m' = fst (em_add m a)) by (rewrite E; reflexivity).
    destruct (add_cases m a) as [H1|(id & -> & _ & Hl & H1)].
    + rewrite Em, H1, (IH m Hf). destruct a as [id|]; [|tauto]. simpl.
      assert (Hin : In id (ids m)).
      { unfold em_add in H1. rewrite Hf in H1.
        destruct (lookup id (em_srcs m)) eqn:El.
        - apply lookup_some_in in El. apply (in_map fst) in El. exact El.
        - exfalso. simpl in H1. apply (f_equal em_srcs) in H1. simpl in H1.
          apply (f_equal (@length _)) in H1. rewrite app_length in H1. simpl in H1. lia. }
      split; [tauto|]. intros [H|[<-|H]]; auto.
    + rewrite Em, H1, IH by reflexivity. unfold ids. simpl. rewrite map_app, in_app_iff. simpl. tauto.
  - destruct (frozen_from h (em_freeze m) eq_refl) as [Hs _]. unfold ids. rewrite Hs. simpl. tauto.
Qed.

Lemma size_is_distinct_added h : em_size (after h) = length (nodup Z.eq_dec (added h)).
Proof.
  destruct (wf_after h) as [_ Hn].
  assert (Hi : forall x, In x (ids (after h)) <-> In x (nodup Z.eq_dec (added h))).
  { intros x. unfold after. rewrite ids_after_from by reflexivity. rewrite nodup_In. simpl. tauto. }
  unfold em_size. rewrite <- (map_length fst). fold (ids (after h)).
  apply Nat.le_antisymm; apply NoDup_incl_length; auto using NoDup_nodup;
    intros x Hx; apply Hi; exact Hx.
Qed.

Lemma first_add_index h1 id h2 :
  ~ In OFreeze h1 -> ~ In id (added h1) ->
  em_index (after (h1 ++ OAdd (Src id) :: h2)) (Src id) = inl (length (nodup Z.eq_dec (added h1))).
Proof.
  intros Hnf Hni. unfold after. rewrite after_from_app. simpl. apply index_stable_from.
  fold (after h1). rewrite <- size_is_distinct_added.
  assert (Hf : em_frozen (after h1) = false) by (apply not_frozen_from; auto).
  assert (Hl : lookup id (em_srcs (after h1)) = None).
  { apply lookup_none. fold (ids (after h1)). unfold after.
    rewrite ids_after_from by reflexivity. simpl. tauto. }
  unfold em_add. rewrite Hf, Hl. simpl. unfold em_index. simpl.
  rewrite lookup_app, Hl. simpl. rewrite Z.eqb_refl. reflexivity.
Qed.

Lemma never_added_keyerror h id : ~ In id (added h) -> em_index (after h) (Src id) = inr KeyError.
Proof.
  intros Hni. unfold em_index.
  assert (Hl : lookup id (em_srcs (after h)) = None).
  { apply lookup_none. fold (ids (after h)). unfold after.
    rewrite ids_after_from by reflexivity. simpl. tauto. }
  rewrite Hl. reflexivity.
Qed.

(* ========================================================================================== *)
(* Part 2: Monitor                                                                             *)
(* ========================================================================================== *)

(* the configuration invariant the event map guarantees: the k-th source carries number k *)
Definition wf_cfg (c : mcfg) : Prop := map s_idx c = seq 0 (length c).

(* one edge register slot per source *)
Definition st_ok (c : mcfg) (s : mstate) : Prop := length (st_prev s) = length c.

Lemma wf_monitor_cfg m md : wf_map m -> wf_cfg (monitor_cfg m md).
Proof.
  intros [Hd _]. unfold wf_cfg, monitor_cfg, em_sources. rewrite map_map, map_length. simpl. exact Hd.
Qed.

Lemma st_ok_init c : st_ok c (init c).
Proof. unfold st_ok, init. simpl. apply map_length. Qed.

Lemma st_ok_next c s i : st_ok c (next c s i).
Proof. unfold st_ok, next. simpl. apply map_length. Qed.

Lemma st_ok_after c : forall is s, st_ok c s -> st_ok c (state_after c s is).
Proof. induction is as [|i is IH]; simpl; intros s H; auto. apply IH, st_ok_next. Qed.

Lemma state_after_app c : forall is is' s,
  state_after c s (is ++ is') = state_after c (state_after c s is) is'.
Proof. induction is as [|i is IH]; simpl; intros; auto. Qed.

Lemma run_nth c : forall is s t i, nth_error is t = Some i ->
  nth_error (run c s is) t = Some (out c (state_after c s (firstn t is)) i).
Proof.
  induction is as [|j is IH]; intros s t i H; destruct t; simpl in *; try discriminate.
  - injection H as <-. reflexivity.
  - apply IH, H.
Qed.

Lemma run_length c : forall is s, length (run c s is) = length is.
Proof. induction is as [|j is IH]; simpl; intros; auto. Qed.

(* ---- trg ---- *)

Lemma trg_of_prev1 i0 sub x :
  trg_of (s_mode sub) (prev1 i0 sub) x = trg_of (s_mode sub) (in_i i0 (s_id sub)) x.
Proof. unfold prev1. destruct (s_mode sub); reflexivity. Qed.

Lemma trg_nth c s i k sub : st_ok c s -> nth_error c k = Some sub ->
  exists p, nth_error (st_prev s) k = Some p /\
            nth_error (o_trg (out c s i)) k = Some (trg_of (s_mode sub) p (in_i i (s_id sub))).
Proof.
  intros Hok Hn. destruct (nth_error_combine c (st_prev s) k sub (eq_sym Hok) Hn) as (p & Hp & Hc).
  exists p. split; auto. simpl. unfold trgs. rewrite (map_nth_error _ _ _ Hc). reflexivity.
Qed.

Lemma trg_first c i k sub : nth_error c k = Some sub ->
  nth_error (o_trg (out c (init c) i)) k = Some (trg_of (s_mode sub) false (in_i i (s_id sub))).
Proof.
  intros Hn. destruct (trg_nth c (init c) i k sub (st_ok_init c) Hn) as (p & Hp & Ht).
  rewrite Ht. unfold init in Hp. simpl in Hp.
  rewrite (map_nth_error _ _ _ Hn) in Hp. injection Hp as <-. reflexivity.
Qed.

Lemma trg_later c s i0 i k sub : nth_error c k = Some sub ->
  nth_error (o_trg (out c (next c s i0) i)) k =
  Some (trg_of (s_mode sub) (in_i i0 (s_id sub)) (in_i i (s_id sub))).
Proof.
  intros Hn. destruct (trg_nth c (next c s i0) i k sub (st_ok_next c s i0) Hn) as (p & Hp & Ht).
  rewrite Ht. unfold next in Hp. simpl in Hp.
  rewrite (map_nth_error _ _ _ Hn) in Hp. injection Hp as <-. rewrite trg_of_prev1. reflexivity.
Qed.

(* the input line of object id in the cycle before the current one; low before the first cycle *)
Definition prev_in (is : list minp) (id : Z) : bool := last (map (fun j => in_i j id) is) false.

Lemma prev_in_nil id : prev_in [] id = false.
Proof. reflexivity. Qed.

Lemma prev_in_snoc is j id : prev_in (is ++ [j]) id = in_i j id.
Proof. unfold prev_in. rewrite map_app. simpl. apply last_last. Qed.

Lemma trg_reach c is i k sub : nth_error c k = Some sub ->
  nth_error (o_trg (out c (state_after c (init c) is) i)) k =
  Some (trg_of (s_mode sub) (prev_in is (s_id sub)) (in_i i (s_id sub))).
Proof.
  intros Hn. destruct is as [|j0 is0] eqn:E.
  - simpl. rewrite prev_in_nil. apply trg_first, Hn.
  - assert (Hne : is <> []) by (rewrite E; discriminate). rewrite <- E.
    destruct (exists_last Hne) as (is' & j & ->).
    rewrite state_after_app. simpl. rewrite prev_in_snoc. apply trg_later, Hn.
Qed.

(* ---- pending ---- *)

Definition idxz (sp : msrc * bool) : Z := Z.of_nat (s_idx (fst sp)).

Lemma pend1_other i acc sp k : idxz sp <> k ->
  Z.testbit (pend1 i acc sp) k = Z.testbit acc k.
Proof.
  intros Hne. unfold pend1. fold (idxz sp).
  destruct (trg1 i sp).
  - apply Z.setbit_neq; auto. unfold idxz. lia.
  - destruct (Z.testbit (in_clear i) (idxz sp)); auto. apply Z.clearbit_neq; auto.
Qed.

Lemma pend1_same i acc sp :
  Z.testbit (pend1 i acc sp) (idxz sp) =
  trg1 i sp || (Z.testbit acc (idxz sp) && negb (Z.testbit (in_clear i) (idxz sp))).
Proof.
  unfold pend1. fold (idxz sp).
  destruct (trg1 i sp); simpl.
  - apply Z.setbit_eq. unfold idxz. lia.
  - destruct (Z.testbit (in_clear i) (idxz sp)); simpl.
    + rewrite Z.clearbit_eq, andb_false_r. reflexivity.
    + rewrite andb_true_r. reflexivity.
Qed.

Lemma fold_pend_untouched i : forall l acc k,
  (forall sp, In sp l -> idxz sp <> k) ->
  Z.testbit (fold_left (pend1 i) l acc) k = Z.testbit acc k.
Proof.
  induction l as [|sp l IH]; simpl; intros acc k H; auto.
  rewrite IH by (intros; apply H; auto). apply pend1_other. apply H. auto.
Qed.

Lemma fold_pend_bit i : forall l acc j sp,
  NoDup (map (fun sp => s_idx (fst sp)) l) -> nth_error l j = Some sp ->
  Z.testbit (fold_left (pend1 i) l acc) (idxz sp) =
  trg1 i sp || (Z.testbit acc (idxz sp) && negb (Z.testbit (in_clear i) (idxz sp))).
Proof.
  induction l as [|a l IH]; intros acc j sp Hnd Hn; destruct j; simpl in *; try discriminate;
    apply NoDup_cons_iff in Hnd; destruct Hnd as [Hni Hnd].
  - injection Hn as ->. rewrite fold_pend_untouched; [apply pend1_same|].
    intros sp' Hin E. apply Hni. apply (in_map (fun sp => s_idx (fst sp))) in Hin.
    unfold idxz in E. apply Nat2Z.inj in E. rewrite <- E. exact Hin.
  - rewrite (IH _ j sp Hnd Hn). rewrite pend1_other; auto.
    intros E. apply Hni. apply nth_error_In in Hn. apply (in_map (fun sp => s_idx (fst sp))) in Hn.
    unfold idxz in E. apply Nat2Z.inj in E. rewrite E. exact Hn.
Qed.

Lemma fold_pend_nonneg i : forall l acc, (0 <= acc)%Z -> (0 <= fold_left (pend1 i) l acc)%Z.
Proof.
  induction l as [|sp l IH]; simpl; intros acc H; auto. apply IH.
  unfold pend1. destruct (trg1 i sp).
  - rewrite Z.setbit_spec'. apply Z.lor_nonneg. split; auto. apply Z.pow_nonneg. lia.
  - destruct (Z.testbit (in_clear i) (Z.of_nat (s_idx (fst sp)))); auto.
    rewrite Z.clearbit_spec'. apply Z.ldiff_nonneg. auto.
Qed.

Lemma combine_idx c s : st_ok c s ->
  map (fun sp => s_idx (fst sp)) (combine c (st_prev s)) = map s_idx c.
Proof.
  intros Hok. rewrite <- (map_map fst s_idx). rewrite map_fst_combine; auto.
Qed.

Lemma pending_step_lemma c s i k sub : wf_cfg c -> st_ok c s -> nth_error c k = Some sub ->
  exists tk, nth_error (o_trg (out c s i)) k = Some tk /\
    Z.testbit (st_pending (next c s i)) (Z.of_nat k) =
    tk || (Z.testbit (st_pending s) (Z.of_nat k) && negb (Z.testbit (in_clear i) (Z.of_nat k))).
Proof.
  intros Hw Hok Hn.
  destruct (nth_error_combine c (st_prev s) k sub (eq_sym Hok) Hn) as (p & Hp & Hc).
  exists (trg1 i (sub, p)). split.
  - simpl. unfold trgs. rewrite (map_nth_error _ _ _ Hc). reflexivity.
  - assert (Hk : s_idx sub = k) by (apply (numbered_nth s_idx c k sub Hw Hn)).
    simpl. unfold next_pending.
    assert (Hnd : NoDup (map (fun sp => s_idx (fst sp)) (combine c (st_prev s)))).
    { rewrite combine_idx by auto. apply numbered_NoDup, Hw. }
    pose proof (fold_pend_bit i _ (st_pending s) k (sub, p) Hnd Hc) as H.
    unfold idxz in H. simpl in H. rewrite Hk in H. exact H.
Qed.

Lemma pending_high_bits c s i k : wf_cfg c -> st_ok c s -> (length c <= k)%nat ->
  Z.testbit (st_pending (next c s i)) (Z.of_nat k) = Z.testbit (st_pending s) (Z.of_nat k).
Proof.
  intros Hw Hok Hk. simpl. unfold next_pending. apply fold_pend_untouched.
  intros sp Hin E. unfold idxz in E. apply Nat2Z.inj in E.
  assert (Hi : In (s_idx (fst sp)) (map s_idx c)).
  { rewrite <- (combine_idx c s Hok). apply (in_map (fun sp => s_idx (fst sp))), Hin. }
  rewrite Hw in Hi. apply in_seq in Hi. lia.
Qed.

(* reachable pending values are non-negative and have no bit beyond the sources *)
Definition pending_ok (c : mcfg) (s : mstate) : Prop :=
  (0 <= st_pending s)%Z /\ forall k, (length c <= k)%nat -> Z.testbit (st_pending s) (Z.of_nat k) = false.

Lemma pending_ok_init c : pending_ok c (init c).
Proof. split; simpl; [lia | intros; apply Z.bits_0]. Qed.

Lemma pending_ok_next c s i : wf_cfg c -> st_ok c s -> pending_ok c s -> pending_ok c (next c s i).
Proof.
  intros Hw Hok [H0 Hb]. split.
  - simpl. apply fold_pend_nonneg, H0.
  - intros k Hk. rewrite pending_high_bits; auto.
Qed.

Lemma pending_ok_after c : wf_cfg c -> forall is s, st_ok c s -> pending_ok c s ->
  pending_ok c (state_after c s is).
Proof.
  intros Hw. induction is as [|i is IH]; simpl; intros s Hok Hp; auto.
  apply IH; [apply st_ok_next | apply pending_ok_next; auto].
Qed.

Lemma pending_holds c k sub : wf_cfg c -> nth_error c k = Some sub ->
  forall is s, st_ok c s ->
  Z.testbit (st_pending s) (Z.of_nat k) = true ->
  (forall j, In j is -> Z.testbit (in_clear j) (Z.of_nat k) = false) ->
  Z.testbit (st_pending (state_after c s is)) (Z.of_nat k) = true.
Proof.
  intros Hw Hn. induction is as [|i is IH]; simpl; intros s Hok Hp Hc; auto.
  apply IH; [apply st_ok_next| |intros; apply Hc; auto].
  destruct (pending_step_lemma c s i k sub Hw Hok Hn) as (tk & _ & ->).
  rewrite Hp, (Hc i) by auto. simpl. apply orb_true_r.
Qed.

(* ---- src.i ---- *)

Lemma irq_spec n e p : (0 <= p)%Z ->
  (forall k, (n <= k)%nat -> Z.testbit p (Z.of_nat k) = false) ->
  (irq e p = true <->
   exists k, (k < n)%nat /\ Z.testbit e (Z.of_nat k) = true /\ Z.testbit p (Z.of_nat k) = true).
Proof.
  intros Hp Hhi. unfold irq. split.
  - intros H. apply negb_true_iff, Z.eqb_neq in H.
    assert (Hl : (0 <= Z.land e p)%Z) by (apply Z.land_nonneg; auto).
    assert (Hpos : (0 < Z.land e p)%Z) by lia.
    pose proof (Z.bit_log2 _ Hpos) as Hb. rewrite Z.land_spec in Hb.
    apply andb_prop in Hb. destruct Hb as [He Hpb].
    pose proof (Z.log2_nonneg (Z.land e p)) as Hnn.
    exists (Z.to_nat (Z.log2 (Z.land e p))). rewrite Z2Nat.id by auto. repeat split; auto.
    destruct (Nat.lt_ge_cases (Z.to_nat (Z.log2 (Z.land e p))) n) as [|Hge]; auto.
    apply Hhi in Hge. rewrite Z2Nat.id in Hge by auto. congruence.
  - intros (k & _ & He & Hpb). apply negb_true_iff, Z.eqb_neq. intros E.
    assert (Hb : Z.testbit (Z.land e p) (Z.of_nat k) = true) by (rewrite Z.land_spec, He, Hpb; auto).
    rewrite E, Z.bits_0 in Hb. discriminate.
Qed.

(* ---- trace-level corollaries ---- *)

Lemma reach_ok c is : wf_cfg c ->
  st_ok c (state_after c (init c) is) /\ pending_ok c (state_after c (init c) is).
Proof.
  intros Hw. split; [apply st_ok_after, st_ok_init|].
  apply pending_ok_after; auto using st_ok_init, pending_ok_init.
Qed.

Lemma no_event_lost_lemma c k sub is0 i is1 : wf_cfg c -> nth_error c k = Some sub ->
  nth_error (o_trg (out c (state_after c (init c) is0) i)) k = Some true ->
  (forall j, In j is1 -> Z.testbit (in_clear j) (Z.of_nat k) = false) ->
  Z.testbit (st_pending (state_after c (init c) (is0 ++ i :: is1))) (Z.of_nat k) = true.
Proof.
  intros Hw Hn Ht Hc. rewrite state_after_app. simpl.
  destruct (reach_ok c is0 Hw) as [Hok _].
  apply (pending_holds c k sub Hw Hn); auto using st_ok_next.
  destruct (pending_step_lemma c _ i k sub Hw Hok Hn) as (tk & Htk & ->).
  rewrite Ht in Htk. injection Htk as <-. reflexivity.
Qed.

Lemma irq_reach c is i : wf_cfg c ->
  (o_irq (out c (state_after c (init c) is) i) = true <->
   exists k, (k < length c)%nat /\ Z.testbit (in_enable i) (Z.of_nat k) = true /\
             Z.testbit (o_pending (out c (state_after c (init c) is) i)) (Z.of_nat k) = true).
Proof.
  intros Hw. destruct (reach_ok c is Hw) as [_ [H0 Hb]]. simpl. apply irq_spec; auto.
Qed.

Lemma monitor_cfg_nth m md id k : wf_map m -> em_index m (Src id) = inl k ->
  nth_error (monitor_cfg m md) k = Some {| s_id := id; s_idx := k; s_mode := md id |}.
Proof.
  intros Hw H. apply (index_iff_nth m id k Hw) in H. unfold monitor_cfg.
  rewrite (map_nth_error _ _ _ H). reflexivity.
Qed.

Lemma monitor_cfg_nth_inv m md k sub : wf_map m -> nth_error (monitor_cfg m md) k = Some sub ->
  em_index m (Src (s_id sub)) = inl k /\ s_idx sub = k /\ s_mode sub = md (s_id sub).
Proof.
  intros Hw H. unfold monitor_cfg in H.
  destruct (nth_error (em_sources m) k) as [[id j]|] eqn:E.
  - rewrite (map_nth_error _ _ _ E) in H. injection H as <-. simpl.
    destruct Hw as [Hd Hn]. pose proof (numbered_nth snd _ _ _ Hd E) as Ej. simpl in Ej. subst j.
    repeat split; auto. apply (index_iff_nth m id k (conj Hd Hn)). exact E.
  - apply nth_error_None in E. assert (Hk : nth_error (map (fun p : Z * nat =>
      {| s_id := fst p; s_idx := snd p; s_mode := md (fst p) |}) (em_sources m)) k = None)
      by (apply nth_error_None; rewrite map_length; exact E). congruence.
Qed.

Lemma bit_k_lemma h md id k is i : em_index (after h) (Src id) = inl k ->
  let c := monitor_cfg (after h) md in
  let s := state_after c (init c) is in
  Z.testbit (st_pending (next c s i)) (Z.of_nat k) =
  trg_of (md id) (prev_in is id) (in_i i id) ||
  (Z.testbit (st_pending s) (Z.of_nat k) && negb (Z.testbit (in_clear i) (Z.of_nat k))).
Proof.
  intros H c s.
  assert (Hw : wf_cfg c) by (apply wf_monitor_cfg, wf_after).
  pose proof (monitor_cfg_nth (after h) md id k (wf_after h) H) as Hn. fold c in Hn.
  destruct (reach_ok c is Hw) as [Hok _]. fold s in Hok.
  destruct (pending_step_lemma c s i k _ Hw Hok Hn) as (tk & Htk & ->).
  unfold s in Htk. rewrite (trg_reach c is i k _ Hn) in Htk. simpl in Htk.
  injection Htk as <-. reflexivity.
Qed.

Lemma monitor_cfg_frozen h h2 md :
  monitor_cfg (after_from (em_freeze (after h)) h2) md = monitor_cfg (after h) md.
Proof.
  unfold monitor_cfg, em_sources.
  destruct (frozen_from h2 (em_freeze (after h)) eq_refl) as [-> _]. reflexivity.
Qed.
