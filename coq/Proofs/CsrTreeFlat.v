(* C06, composition clause: registers spread over a tree of csr.Decoders behave exactly like the same
   registers on one csr.Multiplexer at the root addresses.

   Part 1 (this file): the elaborated hardware only (Model/Hierarchy.v: chw, c_next, c_leaves, c_rdata).
   Under the geometry the memory map guarantees (`geom`: every decoder's windows are aligned, inside its
   address space and pairwise disjoint; Proofs/CsrTreeMap.v derives it from the construction), the decoder
   layers are transparent, on every trace:
     - every multiplexer leaf L, at window offset hl_base L with hl_aw L address bits, sees the root's
       input sequence through `route (hl_sub L)`: strobes gated by "addr in [base, base + 2^aw)", address
       addr - base when it is in the window (the truncated address, with both strobes low, otherwise);
     - the element ports of the tree are the concatenation of the leaves' element ports on these
       sequences, the root's r_data is the OR of the leaves' r_data, which is the r_data of the
       addressed leaf (zero if none). *)
From Coq Require Import ZArith List Bool Lia ZifyBool Arith Znumtheory.
From Soc Require Import Lib.Bits Model.Hierarchy Model.MuxSpec Proofs.HierInert.
From Soc Require Lib.CsrPattern Model.Mux Proofs.CsrDecoder Proofs.MuxBasic Proofs.MuxRead.
From Soc Require Import Model.CsrDecoder.
Import ListNotations.
Open Scope Z_scope.

Module PD := Soc.Proofs.CsrDecoder.

Local Opaque Z.pow.

(* ------------------------------------------------------------------ vocabulary *)

(* an input trace at the root: the bus signals and element.r_data of every register, per cycle *)
Definition btrace := list (bus * list Z).
Definition tmap (f : bus -> bus) (tr : btrace) : btrace := map (fun x => (f (fst x), snd x)) tr.

(* the state after a trace *)
Fixpoint c_after (h : chw) (s : cst) (tr : btrace) : cst :=
  match tr with
  | [] => s
  | x :: tr' => c_after h (c_next h s (snd x) (fst x)) tr'
  end.

(* a multiplexer of the tree: offset of its window in the root's address space (the sum of the window
   starts on its path), its address width, its configuration and register ids *)
Record hleaf := { hl_base : Z; hl_aw : Z; hl_cfg : Mux.cfg; hl_ids : list Z }.

Definition msub (base aw : Z) : sub := {| s_aw := aw; s_start := base; s_stop := base + 2 ^ aw |}.
Definition hl_sub (L : hleaf) : sub := msub (hl_base L) (hl_aw L).

(* depth first = ascending address order; `aw` is the width of the bus h hangs on *)
Fixpoint hw_leaves_from (base aw : Z) (h : chw) : list hleaf :=
  match h with
  | HMux c ids => [{| hl_base := base; hl_aw := aw; hl_cfg := c; hl_ids := ids |}]
  | HDec _ subs =>
      (fix go (l : list (sub * chw)) : list hleaf :=
         match l with
         | [] => []
         | (w, ch) :: l' => hw_leaves_from (base + s_start w) (s_aw w) ch ++ go l'
         end) subs
  end.
Definition hw_leaves (aw : Z) (h : chw) : list hleaf := hw_leaves_from 0 aw h.

(* what leaf L sees, and does, when the ROOT carries the trace tr and then (b, rv) *)
Definition leaf_inp (L : hleaf) (x : bus * list Z) : Mux.inp :=
  mux_inp (hl_ids L) (snd x) (PD.route (hl_sub L) (fst x)).
Definition leaf_is (L : hleaf) (tr : btrace) : list Mux.inp := map (leaf_inp L) tr.
Definition leaf_st (L : hleaf) (tr : btrace) : Mux.st :=
  Mux.state_after (hl_cfg L) (Mux.init (hl_cfg L)) (leaf_is L tr).
Definition leaf_out (L : hleaf) (tr : btrace) (rv : list Z) (b : bus) : Mux.outp :=
  Mux.out (hl_cfg L) (leaf_st L tr) (leaf_inp L (b, rv)).
Definition leaf_obs (L : hleaf) (tr : btrace) (rv : list Z) (b : bus) : list lobs :=
  let o := leaf_out L tr rv b in mux_leaves (hl_ids L) (Mux.o_rstb o) (Mux.o_wstb o) (Mux.o_wdata o).
Definition leaf_rdata (L : hleaf) (tr : btrace) : Z := Mux.bus_rdata (hl_cfg L) (leaf_st L tr).

(* the geometry of the elaborated tree: what the memory map guarantees for every decoder *)
Fixpoint geom (aw : Z) (h : chw) : Prop :=
  match h with
  | HMux _ _ => True
  | HDec aw' subs =>
      aw' = aw /\ Forall (PD.wf_sub aw) (map fst subs) /\ ForallOrdPairs PD.span_disj (map fst subs) /\
      (fix go (l : list (sub * chw)) : Prop :=
         match l with [] => True | (w, ch) :: l' => geom (s_aw w) ch /\ go l' end) subs
  end.

Lemma geom_dec aw aw' subs : geom aw (HDec aw' subs) <->
  aw' = aw /\ Forall (PD.wf_sub aw) (map fst subs) /\ ForallOrdPairs PD.span_disj (map fst subs) /\
  Forall (fun p : sub * chw => geom (s_aw (fst p)) (snd p)) subs.
Proof.
  cbn [geom].
  assert (HG : forall l : list (sub * chw),
    (fix go (l : list (sub * chw)) : Prop :=
       match l with [] => True | (w, ch) :: l' => geom (s_aw w) ch /\ go l' end) l <->
    Forall (fun p : sub * chw => geom (s_aw (fst p)) (snd p)) l).
  { induction l as [|[w ch] l IH].
    - split; auto.
    - split.
      + intros [H1 H2]. constructor; [exact H1|apply IH; exact H2].
      + intros H. inversion H as [|? ? H1 H2]; subst. split; [exact H1|apply IH; exact H2]. }
  rewrite HG. reflexivity.
Qed.

Lemma hw_leaves_dec base aw aw' subs :
  hw_leaves_from base aw (HDec aw' subs) =
  flat_map (fun p : sub * chw => hw_leaves_from (base + s_start (fst p)) (s_aw (fst p)) (snd p)) subs.
Proof.
  cbn [hw_leaves_from]. induction subs as [|[w ch] l IH]; [reflexivity|].
  cbn [flat_map fst snd]. rewrite IH. reflexivity.
Qed.

(* ------------------------------------------------------------------ arithmetic of nested windows *)

Definition acc_ok (base aw : Z) : Prop := 0 <= aw /\ base mod 2 ^ aw = 0.

Lemma mod_pow2_le' x a b : 0 <= b <= a -> x mod 2 ^ a = 0 -> x mod 2 ^ b = 0.
Proof.
  intros Hb Hx. pose proof (pow2_pos a ltac:(lia)) as Ha. pose proof (pow2_pos b ltac:(lia)) as Hpb.
  apply Z.mod_divide; [lia|]. apply Z.mod_divide in Hx; [|lia].
  apply Z.divide_trans with (2 ^ a); [|exact Hx].
  exists (2 ^ (a - b)). rewrite <- Z.pow_add_r by lia. f_equal. lia.
Qed.

Lemma trunc_trunc_le k n a : 0 <= k <= n -> trunc k (trunc n a) = trunc k a.
Proof.
  intros H. unfold trunc. pose proof (pow2_pos k ltac:(lia)). pose proof (pow2_pos n ltac:(lia)).
  symmetry. apply Znumtheory.Zmod_div_mod; [lia|lia|].
  exists (2 ^ (n - k)). rewrite <- Z.pow_add_r by lia. f_equal. lia.
Qed.

Lemma trunc_sub_aligned k base a : 0 <= k -> base mod 2 ^ k = 0 -> trunc k (a - base) = trunc k a.
Proof.
  intros Hk Hb. unfold trunc. pose proof (pow2_pos k Hk) as Hp.
  pose proof (Z.div_mod base (2 ^ k) ltac:(lia)) as Hdm. rewrite Hb, Z.add_0_r in Hdm.
  replace (a - base) with (a + (- (base / 2 ^ k)) * 2 ^ k) by lia.
  apply Z_mod_plus_full.
Qed.

Lemma acc_ok_step base aw w : acc_ok base aw -> PD.wf_sub aw w -> acc_ok (base + s_start w) (s_aw w).
Proof.
  intros [Ha Hb] Hw. pose proof (PD.wf_sub_aw _ _ Hw) as Haw. destruct Hw as (H0 & H1 & Hm & H3).
  split; [exact H0|]. pose proof (pow2_pos (s_aw w) H0).
  pose proof (mod_pow2_le' base aw (s_aw w) Haw Hb) as Hb'.
  rewrite Z.add_mod, Hb', Hm by lia. reflexivity.
Qed.

Lemma route_range w b : 0 <= s_aw w -> 0 <= addr (PD.route w b) < 2 ^ s_aw w.
Proof.
  intros Hw. unfold PD.route. destruct (PD.in_spanb w (addr b)) eqn:E; cbn [addr].
  - apply PD.in_spanb_iff in E. unfold PD.in_span in E. lia.
  - apply trunc_range. exact Hw.
Qed.

(* two decoder levels route like one window at the sum of the offsets *)
Lemma route_comp base aw w b : acc_ok base aw -> PD.wf_sub aw w ->
  PD.route w (PD.route (msub base aw) b) = PD.route (msub (base + s_start w) (s_aw w)) b.
Proof.
  intros [Ha Hb] Hw. pose proof (PD.wf_sub_aw _ _ Hw) as Haw. pose proof Hw as (H0 & H1 & Hm & H3).
  pose proof (pow2_pos (s_aw w) H0) as Hpw. pose proof (pow2_pos aw Ha) as Hpa.
  pose proof (mod_pow2_le' base aw (s_aw w) Haw Hb) as Hb'.
  unfold PD.route at 2. unfold PD.in_spanb at 1. cbn [msub s_aw s_start].
  destruct ((base <=? addr b) && (addr b <? base + 2 ^ aw)) eqn:E1.
  - (* inside the outer window *)
    unfold PD.route, PD.in_spanb. cbn [addr r_stb w_stb w_data msub s_aw s_start].
    assert (E : (s_start w <=? addr b - base) && (addr b - base <? s_start w + 2 ^ s_aw w) =
                (base + s_start w <=? addr b) && (addr b <? base + s_start w + 2 ^ s_aw w)) by lia.
    rewrite E. destruct ((base + s_start w <=? addr b) && (addr b <? base + s_start w + 2 ^ s_aw w)).
    + f_equal. lia.
    + f_equal. apply trunc_sub_aligned; assumption.
  - (* outside: no strobe reaches the inner level, whatever it decides *)
    assert (E2 : PD.in_spanb (msub (base + s_start w) (s_aw w)) (addr b) = false).
    { unfold PD.in_spanb. cbn [msub s_aw s_start]. lia. }
    unfold PD.route at 2. rewrite E2. cbn [msub s_aw].
    unfold PD.route. cbn [addr r_stb w_stb w_data].
    destruct (PD.in_spanb w (trunc aw (addr b))) eqn:E3.
    + f_equal. apply PD.in_spanb_iff in E3.
      rewrite <- (PD.trunc_in_span aw w _ Hw E3). apply trunc_trunc_le. exact Haw.
    + f_equal. apply trunc_trunc_le. exact Haw.
Qed.

Lemma route_root aw b : 0 <= addr b < 2 ^ aw -> PD.route (msub 0 aw) b = b.
Proof.
  intros Hb. unfold PD.route, PD.in_spanb. cbn [msub s_aw s_start].
  replace ((0 <=? addr b) && (addr b <? 0 + 2 ^ aw)) with true by lia.
  destruct b as [a r w d]. cbn [addr r_stb w_stb w_data]. f_equal. lia.
Qed.

(* ------------------------------------------------------------------ rung 1: one decoder level *)

Lemma combine_map_self {X Y} (f : X -> Y) (l : list X) : combine l (map f l) = map (fun x => (x, f x)) l.
Proof. induction l as [|x l IH]; [reflexivity|]. cbn [map combine]. rewrite IH. reflexivity. Qed.

(* the loops of Model/Hierarchy.v drive the children with what Model/CsrDecoder.v's dec_down computes *)
Lemma dec_next_down aw rv b : forall subs (S : sub * chw -> cst) found,
  dec_next aw found subs (map S subs) rv b =
  map (fun pb : (sub * chw) * bus => c_next (snd (fst pb)) (S (fst pb)) rv (snd pb))
      (combine subs (dec_down_from aw found (map fst subs) b)).
Proof.
  induction subs as [|[w ch] subs IH]; intros S found; [reflexivity|].
  cbn [map dec_next dec_down_from combine fst snd]. rewrite IH. reflexivity.
Qed.

Lemma dec_leaves_down aw rv b : forall subs (S : sub * chw -> cst) found,
  dec_leaves aw found subs (map S subs) rv b =
  flat_map (fun pb : (sub * chw) * bus => c_leaves (snd (fst pb)) (S (fst pb)) rv (snd pb))
           (combine subs (dec_down_from aw found (map fst subs) b)).
Proof.
  induction subs as [|[w ch] subs IH]; intros S found; [reflexivity|].
  cbn [map dec_leaves dec_down_from combine flat_map fst snd]. rewrite IH. reflexivity.
Qed.

Lemma dec_rdatas_map subs (S : sub * chw -> cst) :
  dec_rdatas subs (map S subs) = map (fun p : sub * chw => c_rdata (snd p) (S p)) subs.
Proof.
  induction subs as [|[w ch] subs IH]; [reflexivity|]. cbn [map dec_rdatas snd]. rewrite IH. reflexivity.
Qed.

Section OneLevel.
  Variables (aw : Z) (subs : list (sub * chw)).
  Hypothesis Hwf : Forall (PD.wf_sub aw) (map fst subs).
  Hypothesis Hdisj : ForallOrdPairs PD.span_disj (map fst subs).

  (* C06_route_equation, applied to the machine: every child steps on route w b *)
  Lemma dec_next_route rv b (S : sub * chw -> cst) : 0 <= addr b < 2 ^ aw ->
    dec_next aw false subs (map S subs) rv b =
    map (fun p : sub * chw => c_next (snd p) (S p) rv (PD.route (fst p) b)) subs.
  Proof.
    intros Hb. rewrite dec_next_down. change (dec_down_from aw false (map fst subs) b) with (dec_down aw (map fst subs) b).
    rewrite (PD.dec_down_spec aw _ b Hwf Hdisj Hb), map_map, combine_map_self, map_map. reflexivity.
  Qed.

  Lemma dec_leaves_route rv b (S : sub * chw -> cst) : 0 <= addr b < 2 ^ aw ->
    dec_leaves aw false subs (map S subs) rv b =
    flat_map (fun p : sub * chw => c_leaves (snd p) (S p) rv (PD.route (fst p) b)) subs.
  Proof.
    intros Hb. rewrite dec_leaves_down. change (dec_down_from aw false (map fst subs) b) with (dec_down aw (map fst subs) b).
    rewrite (PD.dec_down_spec aw _ b Hwf Hdisj Hb), map_map, combine_map_self.
    rewrite flat_map_concat_map, map_map, <- flat_map_concat_map. reflexivity.
  Qed.

  (* over a whole trace: every child runs on the routed trace *)
  Lemma dec_after : forall (tr : btrace) (S : sub * chw -> cst),
    (forall x, In x tr -> 0 <= addr (fst x) < 2 ^ aw) ->
    c_after (HDec aw subs) (SDec (map S subs)) tr =
    SDec (map (fun p : sub * chw => c_after (snd p) (S p) (tmap (PD.route (fst p)) tr)) subs).
  Proof.
    induction tr as [|x tr IH]; intros S Hr; [reflexivity|].
    cbn [c_after]. rewrite c_next_dec, dec_next_route by (apply Hr; left; reflexivity).
    rewrite IH by (intros y Hy; apply Hr; right; exact Hy). reflexivity.
  Qed.
End OneLevel.

Lemma mux_after c ids : forall (tr : btrace) ms,
  c_after (HMux c ids) (SMux ms) tr =
  SMux (Mux.state_after c ms (map (fun x : bus * list Z => mux_inp ids (snd x) (fst x)) tr)).
Proof. induction tr as [|x tr IH]; intros ms; [reflexivity|]. cbn [c_after c_next map Mux.state_after]. apply IH. Qed.

(* ------------------------------------------------------------------ rung 2: induction over the tree *)

Lemma flat_map_nest {X Y Z'} (f : X -> list Z') (G : X -> list Y) (F : Y -> list Z') l :
  (forall p, In p l -> f p = flat_map F (G p)) -> flat_map f l = flat_map F (flat_map G l).
Proof.
  induction l as [|p l IH]; intros H; [reflexivity|]. cbn [flat_map].
  rewrite flat_map_app, H by (left; reflexivity). f_equal. apply IH. intros q Hq. apply H. right. exact Hq.
Qed.

Lemma dec_up_nest {X Y} (f : X -> Z) (G : X -> list Y) (R : Y -> Z) l :
  (forall p, In p l -> f p = dec_up (map R (G p))) -> dec_up (map f l) = dec_up (map R (flat_map G l)).
Proof.
  induction l as [|p l IH]; intros H; [reflexivity|]. cbn [flat_map map].
  rewrite PD.dec_up_cons, map_app, PD.dec_up_app, H by (left; reflexivity). f_equal.
  apply IH. intros q Hq. apply H. right. exact Hq.
Qed.

Lemma tmap_tmap f g tr : tmap f (tmap g tr) = tmap (fun b => f (g b)) tr.
Proof. unfold tmap. rewrite map_map. reflexivity. Qed.

Lemma tmap_ext f g tr : (forall b, f b = g b) -> tmap f tr = tmap g tr.
Proof. intros H. unfold tmap. apply map_ext. intros x. rewrite H. reflexivity. Qed.

Lemma tmap_range w tr : 0 <= s_aw w -> forall x, In x (tmap (PD.route w) tr) -> 0 <= addr (fst x) < 2 ^ s_aw w.
Proof.
  intros Hw x Hx. unfold tmap in Hx. apply in_map_iff in Hx as (y & <- & _). cbn [fst]. apply route_range. exact Hw.
Qed.

(* below a path of windows summing to `base`, seen through route (msub base aw) *)
Lemma tree_flat_gen h : forall base aw, acc_ok base aw -> geom aw h -> forall tr rv b,
  c_leaves h (c_after h (cinit h) (tmap (PD.route (msub base aw)) tr)) rv (PD.route (msub base aw) b) =
    flat_map (fun L => leaf_obs L tr rv b) (hw_leaves_from base aw h) /\
  c_rdata h (c_after h (cinit h) (tmap (PD.route (msub base aw)) tr)) =
    dec_up (map (fun L => leaf_rdata L tr) (hw_leaves_from base aw h)).
Proof.
  induction h as [c ids|aw' subs IH] using chw_ind'; intros base aw Hacc Hg tr rv b.
  - cbn [cinit hw_leaves_from flat_map map]. rewrite mux_after. unfold tmap. rewrite map_map.
    cbn [c_leaves c_rdata fst snd]. rewrite app_nil_r. split; reflexivity.
  - apply geom_dec in Hg as (-> & Hwf & Hdisj & Hkids).
    pose proof Hacc as [Haw _].
    cbn [cinit].
    rewrite (dec_after aw subs Hwf Hdisj) by (apply (tmap_range (msub base aw)); exact Haw).
    rewrite c_leaves_dec, c_rdata_dec, dec_rdatas_map.
    rewrite (dec_leaves_route aw subs Hwf Hdisj) by (apply (route_range (msub base aw)); exact Haw).
    rewrite hw_leaves_dec. rewrite Forall_forall in IH, Hkids.
    assert (Hw : forall p, In p subs -> PD.wf_sub aw (fst p)).
    { intros p Hp. rewrite Forall_forall in Hwf. apply Hwf. apply in_map. exact Hp. }
    assert (Hstep : forall p, In p subs ->
      tmap (PD.route (fst p)) (tmap (PD.route (msub base aw)) tr) =
      tmap (PD.route (msub (base + s_start (fst p)) (s_aw (fst p)))) tr).
    { intros p Hp. rewrite tmap_tmap. apply tmap_ext. intros b0. apply route_comp; [exact Hacc|apply Hw; exact Hp]. }
    split.
    + apply flat_map_nest. intros p Hp. cbn [snd]. rewrite (Hstep p Hp), (route_comp base aw (fst p) b Hacc (Hw p Hp)).
      exact (proj1 (IH p Hp _ _ (acc_ok_step _ _ _ Hacc (Hw p Hp)) (Hkids p Hp) tr rv b)).
    + apply dec_up_nest. intros p Hp. cbn [snd]. rewrite (Hstep p Hp).
      exact (proj2 (IH p Hp _ _ (acc_ok_step _ _ _ Hacc (Hw p Hp)) (Hkids p Hp) tr rv b)).
Qed.

Definition in_range (aw : Z) (tr : btrace) : Prop := forall x, In x tr -> 0 <= addr (fst x) < 2 ^ aw.

Lemma tmap_root aw tr : in_range aw tr -> tmap (PD.route (msub 0 aw)) tr = tr.
Proof.
  intros Hr. unfold tmap. rewrite <- (map_id tr) at 2. apply map_ext_in. intros [b rv] Hx.
  cbn [fst snd]. rewrite route_root; [reflexivity|]. exact (Hr _ Hx).
Qed.

(* the tree, after any trace, shows exactly what its multiplexers show on their routed traces *)
Theorem tree_flat_hw aw h : 0 <= aw -> geom aw h -> forall tr rv b, in_range aw tr -> 0 <= addr b < 2 ^ aw ->
  c_leaves h (c_after h (cinit h) tr) rv b = flat_map (fun L => leaf_obs L tr rv b) (hw_leaves aw h) /\
  c_rdata h (c_after h (cinit h) tr) = dec_up (map (fun L => leaf_rdata L tr) (hw_leaves aw h)).
Proof.
  intros Haw Hg tr rv b Hr Hb.
  assert (Hacc : acc_ok 0 aw) by (split; [exact Haw|apply Zmod_0_l]).
  pose proof (tree_flat_gen h 0 aw Hacc Hg tr rv b) as H.
  rewrite (tmap_root aw tr Hr), (route_root aw b Hb) in H. exact H.
Qed.

(* ------------------------------------------------------------------ the leaves' windows *)

Definition hl_in (L : hleaf) (a : Z) : Prop := hl_base L <= a < hl_base L + 2 ^ hl_aw L.
Definition hl_inb (L : hleaf) (a : Z) : bool := (hl_base L <=? a) && (a <? hl_base L + 2 ^ hl_aw L).
Definition hl_disj (L1 L2 : hleaf) : Prop :=
  hl_base L1 + 2 ^ hl_aw L1 <= hl_base L2 \/ hl_base L2 + 2 ^ hl_aw L2 <= hl_base L1.
Definition hl_inside (lo hi : Z) (L : hleaf) : Prop :=
  lo <= hl_base L /\ hl_base L + 2 ^ hl_aw L <= hi /\ 0 <= hl_aw L.

Lemma hl_inb_iff L a : hl_inb L a = true <-> hl_in L a.
Proof. unfold hl_inb, hl_in. lia. Qed.

Lemma hl_in_span L a : hl_in L a <-> PD.in_span (hl_sub L) a.
Proof. reflexivity. Qed.

Lemma leaves_inside h : forall base aw, 0 <= aw -> geom aw h ->
  Forall (hl_inside base (base + 2 ^ aw)) (hw_leaves_from base aw h).
Proof.
  induction h as [c ids|aw' subs IH] using chw_ind'; intros base aw Haw Hg.
  - cbn [hw_leaves_from]. constructor; [|constructor]. unfold hl_inside. cbn. lia.
  - apply geom_dec in Hg as (-> & Hwf & _ & Hkids). rewrite hw_leaves_dec.
    rewrite Forall_forall in IH, Hkids, Hwf |- *. intros L HL.
    apply in_flat_map in HL as (p & Hp & HL).
    assert (Hw : PD.wf_sub aw (fst p)) by (apply Hwf; apply in_map; exact Hp).
    pose proof Hw as (H0 & H1 & _ & H3).
    pose proof (IH p Hp (base + s_start (fst p)) _ H0 (Hkids p Hp)) as HI. rewrite Forall_forall in HI.
    destruct (HI L HL) as (A & B & C). unfold hl_inside. lia.
Qed.

Lemma leaves_disjoint h : forall base aw, 0 <= aw -> geom aw h ->
  ForallOrdPairs hl_disj (hw_leaves_from base aw h).
Proof.
  induction h as [c ids|aw' subs IH] using chw_ind'; intros base aw Haw Hg.
  - cbn [hw_leaves_from]. constructor; [constructor|constructor].
  - apply geom_dec in Hg as (-> & Hwf & Hdisj & Hkids). rewrite hw_leaves_dec.
    induction subs as [|p subs IHs]; [constructor|].
    cbn [flat_map map] in *.
    inversion IH as [|? ? IHp IH']; subst. inversion Hwf as [|? ? Hw Hwf']; subst.
    inversion Hdisj as [|? ? Hd Hdisj']; subst. inversion Hkids as [|? ? Hk Hkids']; subst.
    pose proof Hw as (H0 & H1 & _ & H3).
    apply PD.FOP_app; [apply IHp; assumption|apply IHs; assumption|].
    intros L1 L2 HL1 HL2.
    pose proof (leaves_inside (snd p) (base + s_start (fst p)) _ H0 Hk) as HI1. rewrite Forall_forall in HI1.
    destruct (HI1 _ HL1) as (A1 & B1 & C1).
    apply in_flat_map in HL2 as (q & Hq & HL2).
    rewrite Forall_forall in Hkids', Hwf', Hd.
    assert (Hwq : PD.wf_sub aw (fst q)) by (apply Hwf'; apply in_map; exact Hq).
    pose proof Hwq as (Q0 & _).
    pose proof (leaves_inside (snd q) (base + s_start (fst q)) _ Q0 (Hkids' q Hq)) as HI2. rewrite Forall_forall in HI2.
    destruct (HI2 _ HL2) as (A2 & B2 & C2).
    pose proof (Hd (fst q) (in_map fst _ _ Hq)) as Hdq. unfold PD.span_disj in Hdq. unfold hl_disj. lia.
Qed.

(* every multiplexer of a well-formed tree is a well-formed configuration with one id per register *)
Definition hl_wf (L : hleaf) : Prop :=
  wf_cfg (hl_cfg L) /\ length (hl_ids L) = length (Mux.c_regs (hl_cfg L)).

Lemma hw_wf_leaves h : forall base aw, hw_wf h -> Forall hl_wf (hw_leaves_from base aw h).
Proof.
  induction h as [c ids|aw' subs IH] using chw_ind'; intros base aw Hwf.
  - cbn [hw_leaves_from]. constructor; [exact Hwf|constructor].
  - apply hw_wf_dec in Hwf. rewrite hw_leaves_dec. rewrite Forall_forall in IH, Hwf |- *.
    intros L HL. apply in_flat_map in HL as (p & Hp & HL).
    pose proof (IH p Hp (base + s_start (fst p)) (s_aw (fst p)) (Hwf p Hp)) as HI. rewrite Forall_forall in HI. exact (HI L HL).
Qed.

(* ------------------------------------------------------------------ r_data: the addressed leaf's *)

Lemma leaf_st_snoc L tr x :
  leaf_st L (tr ++ [x]) = Mux.next (hl_cfg L) (leaf_st L tr) (leaf_inp L x).
Proof. unfold leaf_st, leaf_is. rewrite map_app. cbn [map]. apply MuxBasic.state_after_app. Qed.

(* a leaf that was not addressed in the last cycle (or saw no read strobe) returns zero *)
Lemma leaf_rdata_unaddressed L tr b rv : wf_cfg (hl_cfg L) ->
  r_stb b = false \/ ~ hl_in L (addr b) -> leaf_rdata L (tr ++ [(b, rv)]) = 0.
Proof.
  intros Hwf Hq. unfold leaf_rdata. rewrite leaf_st_snoc. apply MuxRead.bus_rdata_idle; [exact Hwf|].
  left. unfold leaf_inp, mux_inp. cbn [Mux.i_rstb fst]. unfold PD.route.
  destruct (PD.in_spanb (hl_sub L) (addr b)) eqn:E; cbn [r_stb]; [|reflexivity].
  destruct Hq as [Hq|Hq]; [exact Hq|]. exfalso. apply Hq. apply hl_in_span. apply PD.in_spanb_iff. exact E.
Qed.

Lemma leaf_rdata_nil L : leaf_rdata L [] = 0.
Proof. apply MuxRead.bus_rdata_init. Qed.

Theorem tree_rdata_addressed aw h : 0 <= aw -> geom aw h -> hw_wf h ->
  forall tr b rv, in_range aw (tr ++ [(b, rv)]) ->
  let s := c_after h (cinit h) (tr ++ [(b, rv)]) in
  (forall L, In L (hw_leaves aw h) -> hl_in L (addr b) -> c_rdata h s = leaf_rdata L (tr ++ [(b, rv)])) /\
  ((forall L, In L (hw_leaves aw h) -> ~ hl_in L (addr b)) -> c_rdata h s = 0) /\
  (r_stb b = false -> c_rdata h s = 0).
Proof.
  intros Haw Hg Hwf tr b rv Hr s.
  assert (Hb0 : 0 <= addr {| addr := 0; r_stb := false; w_stb := false; w_data := 0 |} < 2 ^ aw).
  { cbn [addr]. pose proof (pow2_pos aw Haw). lia. }
  destruct (tree_flat_hw aw h Haw Hg (tr ++ [(b, rv)]) [] _ Hr Hb0) as [_ Hrd].
  unfold s. rewrite Hrd. clear Hrd.
  pose proof (leaves_disjoint h 0 aw Haw Hg) as Hd. fold (hw_leaves aw h) in Hd.
  pose proof (hw_wf_leaves h 0 aw Hwf) as Hl. fold (hw_leaves aw h) in Hl. rewrite Forall_forall in Hl.
  split; [|split].
  - intros L HL Hin. apply In_nth_error in HL as [k Hk].
    apply (PD.dec_up_one_hot _ k); [rewrite nth_error_map, Hk; reflexivity|].
    intros j x Hne Hj. rewrite nth_error_map in Hj.
    destruct (nth_error (hw_leaves aw h) j) as [Lj|] eqn:Ej; [|discriminate]. injection Hj as <-.
    apply leaf_rdata_unaddressed; [exact (proj1 (Hl _ (nth_error_In _ _ Ej)))|]. right. intros Hin'.
    destruct (Nat.lt_trichotomy j k) as [Hlt|[Heq|Hgt]]; [|contradiction|].
    + pose proof (PD.FOP_nth_lt _ _ Hd _ _ _ _ Hlt Ej Hk) as D. unfold hl_disj, hl_in in *. lia.
    + pose proof (PD.FOP_nth_lt _ _ Hd _ _ _ _ Hgt Hk Ej) as D. unfold hl_disj, hl_in in *. lia.
  - intros Hnone. apply PD.dec_up_zero. intros x Hx. apply in_map_iff in Hx as (L & <- & HL).
    apply leaf_rdata_unaddressed; [exact (proj1 (Hl _ HL))|]. right. exact (Hnone L HL).
  - intros Hs. apply PD.dec_up_zero. intros x Hx. apply in_map_iff in Hx as (L & <- & HL).
    apply leaf_rdata_unaddressed; [exact (proj1 (Hl _ HL))|]. left. exact Hs.
Qed.

(* ------------------------------------------------------------------ strobes: the flat statement *)

(* a strobe at offset x of the leaf's window is a root strobe at base + x *)
Lemma route_hit_r base aw b x : 0 <= x < 2 ^ aw ->
  r_stb (PD.route (msub base aw) b) && (addr (PD.route (msub base aw) b) =? x) =
  r_stb b && (addr b =? base + x).
Proof.
  intros Hx. unfold PD.route, PD.in_spanb. cbn [msub s_aw s_start].
  destruct ((base <=? addr b) && (addr b <? base + 2 ^ aw)) eqn:E; cbn [r_stb addr].
  - f_equal. lia.
  - assert (E' : (addr b =? base + x) = false) by lia. rewrite E'. rewrite andb_false_r. reflexivity.
Qed.

Lemma route_hit_w base aw b x : 0 <= x < 2 ^ aw ->
  w_stb (PD.route (msub base aw) b) && (addr (PD.route (msub base aw) b) =? x) =
  w_stb b && (addr b =? base + x).
Proof.
  intros Hx. unfold PD.route, PD.in_spanb. cbn [msub s_aw s_start].
  destruct ((base <=? addr b) && (addr b <? base + 2 ^ aw)) eqn:E; cbn [w_stb addr].
  - f_equal. lia.
  - assert (E' : (addr b =? base + x) = false) by lia. rewrite E'. rewrite andb_false_r. reflexivity.
Qed.

(* register number k of leaf L: its id and its (leaf-local) range, inside the leaf's address space *)
Definition leaf_reg (L : hleaf) (k : nat) (id : Z) (r : Mux.reg) : Prop :=
  nth_error (hl_ids L) k = Some id /\ nth_error (Mux.c_regs (hl_cfg L)) k = Some r /\
  0 <= Mux.r_start r /\ Mux.r_start r < Mux.r_stop r /\ Mux.r_stop r <= 2 ^ hl_aw L.

(* C04_r_strobe_exact at the root address: in every cycle, whatever the history *)
Lemma leaf_rstb_flat L k id r tr rv b : leaf_reg L k id r ->
  nth_error (Mux.o_rstb (leaf_out L tr rv b)) k =
  Some (Mux.r_rd r && r_stb b && (addr b =? hl_base L + Mux.r_start r)).
Proof.
  intros (_ & Hr & H0 & H1 & H2). unfold leaf_out.
  rewrite (MuxBasic.r_strobe_exact _ _ _ _ _ Hr). f_equal.
  unfold leaf_inp, mux_inp. cbn [Mux.i_rstb Mux.i_addr fst]. unfold hl_sub.
  rewrite <- !andb_assoc. f_equal. apply route_hit_r. lia.
Qed.

(* C05_w_strobe_exact at the root address: one cycle after a write strobe at the last address *)
Lemma leaf_wstb_flat L k id r tr rv b rv' b' : leaf_reg L k id r ->
  nth_error (Mux.o_wstb (leaf_out L (tr ++ [(b, rv)]) rv' b')) k =
  Some (Mux.r_wr r && w_stb b && (addr b =? hl_base L + Mux.r_stop r - 1)).
Proof.
  intros (_ & Hr & H0 & H1 & H2). unfold leaf_out. rewrite leaf_st_snoc.
  rewrite (MuxBasic.w_strobe_next _ _ _ _ _ _ Hr). f_equal.
  unfold leaf_inp, mux_inp. cbn [Mux.i_wstb Mux.i_addr fst]. unfold hl_sub.
  rewrite <- !andb_assoc. f_equal. replace (hl_base L + Mux.r_stop r - 1) with (hl_base L + (Mux.r_stop r - 1)) by lia.
  apply route_hit_w. lia.
Qed.

Lemma leaf_wstb_reset L k id r rv b : leaf_reg L k id r ->
  nth_error (Mux.o_wstb (leaf_out L [] rv b)) k = Some false.
Proof. intros (_ & Hr & _). unfold leaf_out, leaf_st. cbn. rewrite nth_error_map, Hr. reflexivity. Qed.

(* ------------------------------------------------------------------ the element-port list *)

Lemma mux_leaves_nth ids : forall rs ws wd k id r w d,
  nth_error ids k = Some id -> nth_error rs k = Some r -> nth_error ws k = Some w -> nth_error wd k = Some d ->
  nth_error (mux_leaves ids rs ws wd) k = Some {| lo_id := id; lo_rstb := r; lo_wstb := w; lo_wdata := d |}.
Proof.
  induction ids as [|i ids IH]; intros rs ws wd k id r w d Hi Hr Hw Hd; [destruct k; discriminate|].
  destruct rs as [|r0 rs]; [destruct k; discriminate|]. destruct ws as [|w0 ws]; [destruct k; discriminate|].
  destruct wd as [|d0 wd]; [destruct k; discriminate|]. destruct k as [|k]; cbn [nth_error mux_leaves] in *.
  - congruence.
  - apply IH; assumption.
Qed.

Lemma mux_leaves_In ids : forall rs ws wd lo, In lo (mux_leaves ids rs ws wd) ->
  exists k, nth_error ids k = Some (lo_id lo) /\ nth_error rs k = Some (lo_rstb lo) /\
            nth_error ws k = Some (lo_wstb lo) /\ nth_error wd k = Some (lo_wdata lo).
Proof.
  induction ids as [|i ids IH]; intros rs ws wd lo H; [contradiction|].
  destruct rs as [|r0 rs]; [contradiction|]. destruct ws as [|w0 ws]; [contradiction|].
  destruct wd as [|d0 wd]; [contradiction|]. cbn [mux_leaves] in H. destruct H as [<-|H].
  - exists 0%nat. cbn. auto.
  - destruct (IH _ _ _ _ H) as (k & Hk). exists (S k). exact Hk.
Qed.

(* ------------------------------------------------------------------ by trace position: csr_run *)

Lemma csr_run_nth h : forall tr s t b rv, nth_error tr t = Some (b, rv) ->
  nth_error (csr_run h s tr) t =
  Some (c_rdata h (c_after h s (firstn t tr)), c_leaves h (c_after h s (firstn t tr)) rv b).
Proof.
  induction tr as [|[b0 rv0] tr IH]; intros s t b rv Ht; [destruct t; discriminate|].
  destruct t as [|t]; cbn [nth_error csr_run firstn c_after fst snd] in *.
  - injection Ht as <- <-. reflexivity.
  - apply IH. exact Ht.
Qed.

Lemma firstn_In' {X} (l : list X) : forall t x, In x (firstn t l) -> In x l.
Proof.
  induction l as [|y l IH]; intros t x H; destruct t; cbn [firstn] in H; try contradiction.
  destruct H as [<-|H]; [left; reflexivity|right; eapply IH; exact H].
Qed.

Lemma in_range_firstn aw tr t : in_range aw tr -> in_range aw (firstn t tr).
Proof. intros H x Hx. apply H. eapply firstn_In'; exact Hx. Qed.

Lemma in_range_nth aw tr t b rv : in_range aw tr -> nth_error tr t = Some (b, rv) -> 0 <= addr b < 2 ^ aw.
Proof. intros H Ht. exact (H _ (nth_error_In _ _ Ht)). Qed.

(* cycle t of the machine, for every trace: r_data and element ports are those of the leaves *)
Theorem tree_run_flat aw h : 0 <= aw -> geom aw h -> forall tr, in_range aw tr ->
  forall t b rv, nth_error tr t = Some (b, rv) ->
  nth_error (csr_run h (cinit h) tr) t =
  Some (dec_up (map (fun L => leaf_rdata L (firstn t tr)) (hw_leaves aw h)),
        flat_map (fun L => leaf_obs L (firstn t tr) rv b) (hw_leaves aw h)).
Proof.
  intros Haw Hg tr Hr t b rv Ht. rewrite (csr_run_nth h tr _ t b rv Ht).
  destruct (tree_flat_hw aw h Haw Hg (firstn t tr) rv b (in_range_firstn _ _ _ Hr) (in_range_nth _ _ _ _ _ Hr Ht))
    as [H1 H2].
  rewrite H1, H2. reflexivity.
Qed.

(* ------------------------------------------------------------------ offsets add up along the path *)

Definition hshift (d : Z) (L : hleaf) : hleaf :=
  {| hl_base := d + hl_base L; hl_aw := hl_aw L; hl_cfg := hl_cfg L; hl_ids := hl_ids L |}.

Lemma map_flat_map {X Y Z'} (f : Y -> Z') (g : X -> list Y) l :
  map f (flat_map g l) = flat_map (fun x => map f (g x)) l.
Proof. induction l as [|x l IH]; [reflexivity|]. cbn [flat_map]. rewrite map_app, IH. reflexivity. Qed.

Lemma hw_leaves_shift h : forall base aw,
  hw_leaves_from base aw h = map (hshift base) (hw_leaves_from 0 aw h).
Proof.
  induction h as [c ids|aw' subs IH] using chw_ind'; intros base aw.
  - cbn [hw_leaves_from map]. unfold hshift. cbn [hl_base hl_aw hl_cfg hl_ids]. rewrite Z.add_0_r. reflexivity.
  - rewrite !hw_leaves_dec, map_flat_map. rewrite Forall_forall in IH.
    induction subs as [|p subs IHs]; [reflexivity|]. cbn [flat_map]. f_equal.
    + rewrite (IH p (or_introl eq_refl) (base + s_start (fst p))), (IH p (or_introl eq_refl) (0 + s_start (fst p))).
      rewrite map_map. apply map_ext. intros L. unfold hshift. cbn [hl_base hl_aw hl_cfg hl_ids]. f_equal. lia.
    + apply IHs. intros q Hq. apply IH. right. exact Hq.
Qed.

(* the leaves of a decoder: those of its children, shifted by the window starts *)
Lemma hw_leaves_dec_In aw aw' subs L : In L (hw_leaves aw (HDec aw' subs)) <->
  exists w ch L', In (w, ch) subs /\ In L' (hw_leaves (s_aw w) ch) /\ L = hshift (s_start w) L'.
Proof.
  unfold hw_leaves. rewrite hw_leaves_dec, in_flat_map. split.
  - intros ([w ch] & Hp & HL). cbn [fst snd] in HL. rewrite hw_leaves_shift in HL.
    apply in_map_iff in HL as (L' & <- & HL'). exists w, ch, L'. rewrite Z.add_0_l. auto.
  - intros (w & ch & L' & Hp & HL' & ->). exists (w, ch). split; [exact Hp|]. cbn [fst snd].
    rewrite hw_leaves_shift, Z.add_0_l. apply in_map. exact HL'.
Qed.
