(* C06, composition clause: registers spread over a tree of csr.Decoders behave exactly like the same
   registers on one csr.Multiplexer at the root addresses.

   Part 1 (this file): the elaborated hardware only (Model/Hierarchy.v: chw, c_next, c_leaves, c_rdata).
   Under the geometry the memory map guarantees (`geom`: every decoder's windows are aligned, inside its
   address space and pairwise disjoint; Proofs/CsrTreeMap.v derives it from the construction), the decoder
   layers are transparent, on every trace:
     - every multiplexer leaf L, at window offset hl_base L with hl_aw L address bits, sees the root's
       input sequence through `route (hl_sub L)`: strobes gated by "addr in [base, base + 2^aw)", address
       addr - base when it is in the window (the truncated address, with both strobes low, otherwise);
     - the element ports of the tree are the concatenation of the leaves' element ports on these
       sequences, the root's r_data is the OR of the leaves' r_data, which is the r_data of the
       addressed leaf (zero if none). *)
From Coq Require Import ZArith List Bool Lia ZifyBool Arith Znumtheory.
From Soc Require Import Lib.Bits Model.Hierarchy Model.MuxSpec Proofs.HierInert.
From Soc Require Lib.CsrPattern Model.Mux Proofs.CsrDecoder Proofs.MuxBasic Proofs.MuxRead.
From Soc Require Import Model.CsrDecoder.
Import ListNotations.
Open Scope Z_scope.

Module PD := Soc.Proofs.CsrDecoder.

Local Opaque Z.pow.

(* ------------------------------------------------------------------ vocabulary *)

(* an input trace at the root: the bus signals and element.r_data of every register, per cycle *)
Definition btrace := list (bus * list Z).
Definition tmap (f : bus -> bus) (tr : btrace) : btrace := map (fun x => (f (fst x), snd x)) tr.

(* the state after a trace *)
Fixpoint c_after (h : chw) (s : cst) (tr : btrace) : cst :=
  match tr with
  | [] => s
  | x :: tr' => c_after h (c_next h s (snd x) (fst x)) tr'
  end.

(* a multiplexer of the tree: offset of its window in the root's address space (the sum of the window
   starts on its path), its address width, its configuration and register ids *)
Record hleaf := { hl_base : Z; hl_aw : Z; hl_cfg : Mux.cfg; hl_ids : list Z }.

Definition msub (base aw : Z) : sub := {| s_aw := aw; s_start := base; s_stop := base + 2 ^ aw |}.
Definition hl_sub (L : hleaf) : sub := msub (hl_base L) (hl_aw L).

(* depth first = ascending address order; `aw` is the width of the bus h hangs on *)
Fixpoint hw_leaves_from (base aw : Z) (h : chw) : list hleaf :=
  match h with
  | HMux c ids => [{| hl_base := base; hl_aw := aw; hl_cfg := c; hl_ids := ids |}]
  | HDec _ subs =>
      (fix go (l : list (sub * chw)) : list hleaf :=
         match l with
         | [] => []
         | (w, ch) :: l' => hw_leaves_from (base + s_start w) (s_aw w) ch ++ go l'
         end) subs
  end.
Definition hw_leaves (aw : Z) (h : chw) : list hleaf := hw_leaves_from 0 aw h.

(* what leaf L sees, and does, when the ROOT carries the trace tr and then (b, rv) *)
Definition leaf_inp (L : hleaf) (x : bus * list Z) : Mux.inp :=
  mux_inp (hl_ids L) (snd x) (PD.route (hl_sub L) (fst x)).
Definition leaf_is (L : hleaf) (tr : btrace) : list Mux.inp := map (leaf_inp L) tr.
Definition leaf_st (L : hleaf) (tr : btrace) : Mux.st :=
  Mux.state_after (hl_cfg L) (Mux.init (hl_cfg L)) (leaf_is L tr).
Definition leaf_out (L : hleaf) (tr : btrace) (rv : list Z) (b : bus) : Mux.outp :=
  Mux.out (hl_cfg L) (leaf_st L tr) (leaf_inp L (b, rv)).
Definition leaf_obs (L : hleaf) (tr : btrace) (rv : list Z) (b : bus) : list lobs :=
  let o := leaf_out L tr rv b in mux_leaves (hl_ids L) (Mux.o_rstb o) (Mux.o_wstb o) (Mux.o_wdata o).
Definition leaf_rdata (L : hleaf) (tr : btrace) : Z := Mux.bus_rdata (hl_cfg L) (leaf_st L tr).

(* the geometry of the elaborated tree: what the memory map guarantees for every decoder *)
Fixpoint geom (aw : Z) (h : chw) : Prop :=
  match h with
  | HMux _ _ => True
  | HDec aw' subs =>
      aw' = aw /\ Forall (PD.wf_sub aw) (map fst subs) /\ ForallOrdPairs PD.span_disj (map fst subs) /\
      (fix go (l : list (sub * chw)) : Prop :=
         match l with [] => True | (w, ch) :: l' => geom (s_aw w) ch /\ go l' end) subs
  end.

Lemma geom_dec aw aw' subs : geom aw (HDec aw' subs) <->
  aw' = aw /\ Forall (PD.wf_sub aw) (map fst subs) /\ ForallOrdPairs PD.span_disj (map fst subs) /\
  Forall (fun p : sub * chw => geom (s_aw (fst p)) (snd p)) subs.
Proof.
  cbn [geom].
  assert (HG : forall l : list (sub * chw),
    (fix go (l : list (sub * chw)) : Prop :=
       match l with [] => True | (w, ch) :: l' => geom (s_aw w) ch /\ go l' end) l <->
    Forall (fun p : sub * chw => geom (s_aw (fst p)) (snd p)) l).
  { induction l as [|[w ch] l IH].
    - split; auto.
    - split.
      + intros [H1 H2]. constructor; [exact H1|apply IH; exact H2].
      + intros H. inversion H as [|? ? H1 H2]; subst. split; [exact H1|apply IH; exact H2]. }
  rewrite HG. reflexivity.
Qed.

Lemma hw_leaves_dec base aw aw' subs :
  hw_leaves_from base aw (HDec aw' subs) =
  flat_map (fun p : sub * chw => hw_leaves_from (base + s_start (fst p)) (s_aw (fst p)) (snd p)) subs.
Proof.
  cbn [hw_leaves_from]. induction subs as [|[w ch] l IH]; [reflexivity|].
  cbn [flat_map fst snd]. rewrite IH. reflexivity.
Qed.

(* ------------------------------------------------------------------ arithmetic of nested windows *)

Definition acc_ok (base aw : Z) : Prop := 0 <= aw /\ base mod 2 ^ aw = 0.

Lemma mod_pow2_le' x a b : 0 <= b <= a -> x mod 2 ^ a = 0 -> x mod 2 ^ b = 0.
Proof.
  intros Hb Hx. pose proof (pow2_pos a ltac:(lia)) as Ha. pose proof (pow2_pos b ltac:(lia)) as Hpb.
  apply Z.mod_divide; [lia|]. apply Z.mod_divide in Hx; [|lia].
  apply Z.divide_trans with (2 ^ a); [|exact Hx].
  exists (2 ^ (a - b)). rewrite <- Z.pow_add_r by lia. f_equal. lia.
Qed.

Lemma trunc_trunc_le k n a : 0 <= k <= n -> trunc k (trunc n a) = trunc k a.
Proof.
  intros H. unfold trunc. pose proof (pow2_pos k ltac:(lia)). pose proof (pow2_pos n ltac:(lia)).
  symmetry. apply Znumtheory.Zmod_div_mod; [lia|lia|].
  exists (2 ^ (n - k)). rewrite <- Z.pow_add_r by lia. f_equal. lia.
Qed.

Lemma trunc_sub_aligned k base a : 0 <= k -> base mod 2 ^ k = 0 -> trunc k (a - base) = trunc k a.
Proof.
  intros Hk Hb. unfold trunc. pose proof (pow2_pos k Hk) as Hp.
  pose proof (Z.div_mod base (2 ^ k) ltac:(lia)) as Hdm. rewrite Hb, Z.add_0_r in Hdm.
  replace (a - base) with (a + (- (base / 2 ^ k)) * 2 ^ k) by lia.
  apply Z_mod_plus_full.
Qed.

Lemma acc_ok_step base aw w : acc_ok base aw -> PD.wf_sub aw w -> acc_ok (base + s_start w) (s_aw w).
Proof.
  intros [Ha Hb] Hw. pose proof (PD.wf_sub_aw _ _ Hw) as Haw. destruct Hw as (H0 & H1 & Hm & H3).
  split; [exact H0|]. pose proof (pow2_pos (s_aw w) H0).
  pose proof (mod_pow2_le' base aw (s_aw w) Haw Hb) as Hb'.
  rewrite Z.add_mod, Hb', Hm by lia. reflexivity.
Qed.

Lemma route_range w b : 0 <= s_aw w -> 0 <= addr (PD.route w b) < 2 ^ s_aw w.
Proof.
  intros Hw. unfold PD.route. destruct (PD.in_spanb w (addr b)) eqn:E; cbn [addr].
  - apply PD.in_spanb_iff in E. unfold PD.in_span in E. lia.
  - apply trunc_range. exact Hw.
Qed.

(* two decoder levels route like one window at the sum of the offsets *)
Lemma route_comp base aw w b : acc_ok base aw -> PD.wf_sub aw w ->
  PD.route w (PD.route (msub base aw) b) = PD.route (msub (base + s_start w) (s_aw w)) b.
Proof.
  intros [Ha Hb] Hw. pose proof (PD.wf_sub_aw _ _ Hw) as Haw. pose proof Hw as (H0 & H1 & Hm & H3).
  pose proof (pow2_pos (s_aw w) H0) as Hpw. pose proof (pow2_pos aw Ha) as Hpa.
  pose proof (mod_pow2_le' base aw (s_aw w) Haw Hb) as Hb'.
  unfold PD.route at 2. unfold PD.in_spanb at 1. cbn [msub s_aw s_start].
  destruct ((base <=? addr b) && (addr b <? base + 2 ^ aw)) eqn:E1.
  - (* inside the outer window *)
    unfold PD.route, PD.in_spanb. cbn [addr r_stb w_stb w_data msub s_aw s_start].
    assert (E : (s_start w <=? addr b - base) && (addr b - base <? s_start w + 2 ^ s_aw w) =
                (base + s_start w <=? addr b) && (addr b <? base + s_start w + 2 ^ s_aw w)) by lia.
    rewrite E. destruct ((base + s_start w <=? addr b) && (addr b <? base + s_start w + 2 ^ s_aw w)).
    + f_equal. lia.
    + f_equal. apply trunc_sub_aligned; assumption.
  - (* outside: no strobe reaches the inner level, whatever it decides *)
    assert (E2 : PD.in_spanb (msub (base + s_start w) (s_aw w)) (addr b) = false).
    { unfold PD.in_spanb. cbn [msub s_aw s_start]. lia. }
    unfold PD.route at 2. rewrite E2. cbn [msub s_aw].
    unfold PD.route. cbn [addr r_stb w_stb w_data].
    destruct (PD.in_spanb w (trunc aw (addr b))) eqn:E3.
    + f_equal. apply PD.in_spanb_iff in E3.
      rewrite <- (PD.trunc_in_span aw w _ Hw E3). apply trunc_trunc_le. exact Haw.
    + f_equal. apply trunc_trunc_le. exact Haw.
Qed.

Lemma route_root aw b : 0 <= addr b < 2 ^ aw -> PD.route (msub 0 aw) b = b.
Proof.
  intros Hb. unfold PD.route, PD.in_spanb. cbn [msub s_aw s_start].
  replace ((0 <=? addr b) && (addr b <? 0 + 2 ^ aw)) with true by lia.
  destruct b as [a r w d]. cbn [addr r_stb w_stb w_data]. f_equal. lia.
Qed.

(* ------------------------------------------------------------------ rung 1: one decoder level *)

Lemma combine_map_self {X Y} (f : X -> Y) (l : list X) : combine l (map f l) = map (fun x => (x, f x)) l.
Proof. induction l as [|x l IH]; [reflexivity|]. cbn [map combine]. rewrite IH. reflexivity. Qed.

(* the loops of Model/Hierarchy.v drive the children with what Model/CsrDecoder.v's dec_down computes *)
Lemma dec_next_down aw rv b : forall subs (S : sub * chw -> cst) found,
  dec_next aw found subs (map S subs) rv b =
  map (fun pb : (sub * chw) * bus => c_next (snd (fst pb)) (S (fst pb)) rv (snd pb))
      (combine subs (dec_down_from aw found (map fst subs) b)).
Proof.
  induction subs as [|[w ch] subs IH]; intros S found; [reflexivity|].
  cbn [map dec_next dec_down_from combine fst snd]. rewrite IH. reflexivity.
Qed.

Lemma dec_leaves_down aw rv b : forall subs (S : sub * chw -> cst) found,
  dec_leaves aw found subs (map S subs) rv b =
  flat_map (fun pb : (sub * chw) * bus => c_leaves (snd (fst pb)) (S (fst pb)) rv (snd pb))
           (combine subs (dec_down_from aw found (map fst subs) b)).
Proof.
  induction subs as [|[w ch] subs IH]; intros S found; [reflexivity|].
  cbn [map dec_leaves dec_down_from combine flat_map fst snd]. rewrite IH. reflexivity.
Qed.

Lemma dec_rdatas_map subs (S : sub * chw -> cst) :
  dec_rdatas subs (map S subs) = map (fun p : sub * chw => c_rdata (snd p) (S p)) subs.
Proof.
  induction subs as [|[w ch] subs IH]; [reflexivity|]. cbn [map dec_rdatas snd]. rewrite IH. reflexivity.
Qed.

Section OneLevel.
  Variables (aw : Z) (subs : list (sub * chw)).
  Hypothesis Hwf : Forall (PD.wf_sub aw) (map fst subs).
  Hypothesis Hdisj : ForallOrdPairs PD.span_disj (map fst subs).

  (* C06_route_equation, applied to the machine: every child steps on route w b *)
  Lemma dec_next_route rv b (S : sub * chw -> cst) : 0 <= addr b < 2 ^ aw ->
    dec_next aw false subs (map S subs) rv b =
    map (fun p : sub * chw => c_next (snd p) (S p) rv (PD.route (fst p) b)) subs.
  Proof.
    intros Hb. rewrite dec_next_down. change (dec_down_from aw false (map fst subs) b) with (dec_down aw (map fst subs) b).
    rewrite (PD.dec_down_spec aw _ b Hwf Hdisj Hb), map_map, combine_map_self, map_map. reflexivity.
  Qed.

  Lemma dec_leaves_route rv b (S : sub * chw -> cst) : 0 <= addr b < 2 ^ aw ->
    dec_leaves aw false subs (map S subs) rv b =
    flat_map (fun p : sub * chw => c_leaves (snd p) (S p) rv (PD.route (fst p) b)) subs.
  Proof.
    intros Hb. rewrite dec_leaves_down. change (dec_down_from aw false (map fst subs) b) with (dec_down aw (map fst subs) b).
    rewrite (PD.dec_down_spec aw _ b Hwf Hdisj Hb), map_map, combine_map_self.
    rewrite flat_map_concat_map, map_map, <- flat_map_concat_map. reflexivity.
  Qed.

  (* over a whole trace: every child runs on the routed trace *)
  Lemma dec_after : forall (tr : btrace) (S : sub * chw -> cst),
    (forall x, In x tr -> 0 <= addr (fst x) < 2 ^ aw) ->
    c_after (HDec aw subs) (SDec (map S subs)) tr =
    SDec (map (fun p : sub * chw => c_after (snd p) (S p) (tmap (PD.route (fst p)) tr)) subs).
  Proof.
    induction tr as [|x tr IH]; intros S Hr; [reflexivity|].
    cbn [c_after]. rewrite c_next_dec, dec_next_route by (apply Hr; left; reflexivity).
    rewrite IH by (intros y Hy; apply Hr; right; exact Hy). reflexivity.
  Qed.
End OneLevel.

Lemma mux_after c ids : forall (tr : btrace) ms,
  c_after (HMux c ids) (SMux ms) tr =
  SMux (Mux.state_after c ms (map (fun x : bus * list Z => mux_inp ids (snd x) (fst x)) tr)).
Proof. induction tr as [|x tr IH]; intros ms; [reflexivity|]. cbn [c_after c_next map Mux.state_after]. apply IH. Qed.

(* ------------------------------------------------------------------ rung 2: induction over the tree *)

Lemma flat_map_nest {X Y Z'} (f : X -> list Z') (G : X -> list Y) (F : Y -> list Z') l :
  (forall p, In p l -> f p = flat_map F (G p)) -> flat_map f l = flat_map F (flat_map G l).
Proof.
  induction l as [|p l IH]; intros H; [reflexivity|]. cbn [flat_map].
  rewrite flat_map_app, H by (left; reflexivity). f_equal. apply IH. intros q Hq. apply H. right. exact Hq.
Qed.

Lemma dec_up_nest {X Y} (f : X -> Z) (G : X -> list Y) (R : Y -> Z) l :
  (forall p, In p l -> f p = dec_up (map R (G p))) -> dec_up (map f l) = dec_up (map R (flat_map G l)).
Proof.
  induction l as [|p l IH]; intros H; [reflexivity|]. cbn [flat_map map].
  rewrite PD.dec_up_cons, map_app, PD.dec_up_app, H by (left; reflexivity). f_equal.
  apply IH. intros q Hq. apply H. right. exact Hq.
Qed.

Lemma tmap_tmap f g tr : tmap f (tmap g tr) = tmap (fun b => f (g b)) tr.
Proof. unfold tmap. rewrite map_map. reflexivity. Qed.

Lemma tmap_ext f g tr : (forall b, f b = g b) -> tmap f tr = tmap g tr.
Proof. intros H. unfold tmap. apply map_ext. intros x. rewrite H. reflexivity. Qed.

Lemma tmap_range w tr : 0 <= s_aw w -> forall x, In x (tmap (PD.route w) tr) -> 0 <= addr (fst x) < 2 ^ s_aw w.
Proof.
  intros Hw x Hx. unfold tmap in Hx. apply in_map_iff in Hx as (y & <- & _). cbn [fst]. apply route_range. exact Hw.
Qed.

(* below a path of windows summing to `base`, seen through route (msub base aw) *)
Lemma tree_flat_gen h : forall base aw, acc_ok base aw -> geom aw h -> forall tr rv b,
  c_leaves h (c_after h (cinit h) (tmap (PD.route (msub base aw)) tr)) rv (PD.route (msub base aw) b) =
    flat_map (fun L => leaf_obs L tr rv b) (hw_leaves_from base aw h) /\
  c_rdata h (c_after h (cinit h) (tmap (PD.route (msub base aw)) tr)) =
    dec_up (map (fun L => leaf_rdata L tr) (hw_leaves_from base aw h)).
Proof.
  induction h as [c ids|aw' subs IH] using chw_ind'; intros base aw Hacc Hg tr rv b.
  - cbn [cinit hw_leaves_from flat_map map]. rewrite mux_after. unfold tmap. rewrite map_map.
    cbn [c_leaves c_rdata fst snd]. rewrite app_nil_r. split; reflexivity.
  - apply geom_dec in Hg as (-> & Hwf & Hdisj & Hkids).
    pose proof Hacc as [Haw _].
    cbn [cinit].
    rewrite (dec_after aw subs Hwf Hdisj) by (apply (tmap_range (msub base aw)); exact Haw).
    rewrite c_leaves_dec, c_rdata_dec, dec_rdatas_map.
    rewrite (dec_leaves_route aw subs Hwf Hdisj) by (apply (route_range (msub base aw)); exact Haw).
    rewrite hw_leaves_dec. rewrite Forall_forall in IH, Hkids.
    assert (Hw : forall p, In p subs -> PD.wf_sub aw (fst p)).
    { intros p Hp. rewrite Forall_forall in Hwf. apply Hwf. apply in_map. exact Hp. }
    assert (Hstep : forall p, In p subs ->
      tmap (PD.route (fst p)) (tmap (PD.route (msub base aw)) tr) =
      tmap (PD.route (msub (base + s_start (fst p)) (s_aw (fst p)))) tr).
    { intros p Hp. rewrite tmap_tmap. apply tmap_ext. intros b0. apply route_comp; [exact Hacc|apply Hw; exact Hp]. }
    split.
    + apply flat_map_nest. intros p Hp. cbn [snd]. rewrite (Hstep p Hp), (route_comp base aw (fst p) b Hacc (Hw p Hp)).
      exact (proj1 (IH p Hp _ _ (acc_ok_step _ _ _ Hacc (Hw p Hp)) (Hkids p Hp) tr rv b)).
    + apply dec_up_nest. intros p Hp. cbn [snd]. rewrite (Hstep p Hp).
      exact (proj2 (IH p Hp _ _ (acc_ok_step _ _ _ Hacc (Hw p Hp)) (Hkids p Hp) tr rv b)).
Qed.

Definition in_range (aw : Z) (tr : btrace) : Prop := forall x, In x tr -> 0 <= addr (fst x) < 2 ^ aw.

Lemma tmap_root aw tr : in_range aw tr -> tmap (PD.route (msub 0 aw)) tr = tr.
Proof.
  intros Hr. unfold tmap. rewrite <- (map_id tr) at 2. apply map_ext_in. intros [b rv] Hx.
  cbn [fst snd]. rewrite route_root; [reflexivity|]. exact (Hr _ Hx).
Qed.

(* the tree, after any trace, shows exactly what its multiplexers show on their routed traces *)
Theorem tree_flat_hw aw h : 0 <= aw -> geom aw h -> forall tr rv b, in_range aw tr -> 0 <= addr b < 2 ^ aw ->
  c_leaves h (c_after h (cinit h) tr) rv b = flat_map (fun L => leaf_obs L tr rv b) (hw_leaves aw h) /\
  c_rdata h (c_after h (cinit h) tr) = dec_up (map (fun L => leaf_rdata L tr) (hw_leaves aw h)).
Proof.
  intros Haw Hg tr rv b Hr Hb.
  assert (Hacc : acc_ok 0 aw) by (split; [exact Haw|apply Zmod_0_l]).
  pose proof (tree_flat_gen h 0 aw Hacc Hg tr rv b) as H.
  rewrite (tmap_root aw tr Hr), (route_root aw b Hb) in H. exact H.
Qed.
