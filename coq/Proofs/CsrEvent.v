(* Proofs for the CSR event monitor model (Model/CsrEvent.v): constructor/layout, element-level all-trace
   theorems, bus-level corollaries through the multiplexer theorems (C04/C05) and the monitor theorems (C13). *)
From Coq Require Import ZArith List Bool Lia ZifyBool Arith.
From Soc Require Import Lib.Bits Lib.Res Lib.PyList.
From Soc Require Model.Mux Model.MuxSpec Model.Event Model.MemoryMap Model.MemSpec Model.CsrDecoder.
From Soc Require Proofs.MemArith Proofs.MemAlloc Proofs.CsrDecoder Proofs.MuxBasic Proofs.MuxRead Proofs.MuxWrite Proofs.MuxPrepare Proofs.MuxAssemble Proofs.Event.
From Soc Require Import Model.CsrEvent.
Import ListNotations.
Open Scope Z_scope.

(* ================================================================== 1. constructor arithmetic and layout *)

(* the size each of the two registers gets: align_up(max(reg_size, 1), alignment) *)
Definition span (n dw al : Z) : Z := MemoryMap.align_up (Z.max (reg_size n dw) 1) al.

Lemma reg_size_bounds n dw : 0 < dw -> 0 <= n -> 0 <= reg_size n dw /\ n <= reg_size n dw * dw /\ (reg_size n dw - 1) * dw < n \/ n = 0 /\ reg_size n dw = 0.
Proof.
  intros Hd Hn. unfold reg_size.
  pose proof (Z.div_mod (n + dw - 1) dw ltac:(lia)) as E.
  pose proof (Z.mod_pos_bound (n + dw - 1) dw Hd) as B.
  destruct (Z.eq_dec n 0) as [->|Hn0].
  - right. split; auto. apply Z.div_small. lia.
  - left. nia.
Qed.

Lemma reg_size_nonneg n dw : 0 < dw -> 0 <= n -> 0 <= reg_size n dw.
Proof. intros Hd Hn. destruct (reg_size_bounds n dw Hd Hn) as [H|[_ H]]; lia. Qed.

Lemma reg_size_holds n dw : 0 < dw -> 0 <= n -> n <= reg_size n dw * dw.
Proof. intros Hd Hn. destruct (reg_size_bounds n dw Hd Hn) as [H|[-> H]]; lia. Qed.

Lemma ceil_log2_ge a : a <= 2 ^ ceil_log2 a.
Proof.
  unfold ceil_log2. destruct (a <=? 1) eqn:E; [simpl; lia|]. apply MuxPrepare.log2_up_ge.
Qed.

Lemma ceil_log2_nonneg a : 0 <= ceil_log2 a.
Proof. unfold ceil_log2. destruct (a <=? 1); [lia|apply Z.log2_up_nonneg]. Qed.

Lemma pow2_multiple a b : 0 <= a <= b -> 2 ^ b mod 2 ^ a = 0.
Proof.
  intros H. replace b with ((b - a) + a) by lia. rewrite Z.pow_add_r by lia.
  apply Z.mod_mul. pose proof (MemArith.pow2_pos a); lia.
Qed.

Lemma span_spec n dw al : 0 < dw -> 0 <= n -> 0 <= al ->
  1 <= span n dw al /\ reg_size n dw <= span n dw al /\ span n dw al mod 2 ^ al = 0 /\
  2 * span n dw al <= 2 ^ addr_width n dw al /\
  MemSpec.least_multiple_ge (2 ^ al) (Z.max (reg_size n dw) 1) (span n dw al).
Proof.
  intros Hd Hn Ha. unfold span.
  pose proof (MemArith.align_up_spec (Z.max (reg_size n dw) 1) al Ha) as Hs.
  destruct Hs as (Hm & Hge & Hl).
  split; [lia|]. split; [lia|]. split; [exact Hm|]. split.
  - unfold addr_width. set (M := Z.max (ceil_log2 (reg_size n dw)) al).
    assert (HM : 0 <= M) by (unfold M; lia).
    rewrite Z.pow_add_r by lia. change (2 ^ 1) with 2.
    assert (Hle : MemoryMap.align_up (Z.max (reg_size n dw) 1) al <= 2 ^ M).
    { apply Hl.
      - apply pow2_multiple. unfold M; lia.
      - pose proof (ceil_log2_ge (reg_size n dw)) as H1.
        assert (2 ^ ceil_log2 (reg_size n dw) <= 2 ^ M).
        { apply Z.pow_le_mono_r; [lia|unfold M; lia]. }
        pose proof (MemArith.pow2_pos M HM). lia. }
    lia.
  - repeat split; auto.
Qed.

(* ------------------------------------------------------------------ the memory map *)

Definition final_map (n dw al : Z) : MemoryMap.mmap :=
  let S := span n dw al in
  MemoryMap.MM (addr_width n dw al) dw al
    [ {| MemoryMap.e_start := 0; MemoryMap.e_stop := S; MemoryMap.e_step := 1; MemoryMap.e_asg := MemoryMap.AR id_enable |};
      {| MemoryMap.e_start := S; MemoryMap.e_stop := S + S; MemoryMap.e_step := 1; MemoryMap.e_asg := MemoryMap.AR id_pending |} ]
    [ {| MemoryMap.r_id := id_enable; MemoryMap.r_name := [MemoryMap.PStr atom_enable]; MemoryMap.r_start := 0; MemoryMap.r_stop := S |};
      {| MemoryMap.r_id := id_pending; MemoryMap.r_name := [MemoryMap.PStr atom_pending]; MemoryMap.r_start := S; MemoryMap.r_stop := S + S |} ]
    [] [[MemoryMap.PStr atom_enable]; [MemoryMap.PStr atom_pending]] (S + S) false.

Lemma car_next m rs al nx : 0 <= al -> 0 <= rs -> MemoryMap.m_next m = nx -> 0 <= nx -> nx mod 2 ^ al = 0 ->
  nx + MemoryMap.align_up (Z.max rs 1) al <= 2 ^ MemoryMap.m_aw m ->
  MemoryMap.rm_overlaps (MemoryMap.m_ranges m) nx (nx + MemoryMap.align_up (Z.max rs 1) al) = [] ->
  MemoryMap.compute_addr_range m VNone (VInt rs) al = Ok (nx, nx + MemoryMap.align_up (Z.max rs 1) al).
Proof.
  intros Ha Hrs Hnx Hnx0 Hmod Hfit Hov. unfold MemoryMap.compute_addr_range.
  rewrite Hnx, (MemArith.align_up_id nx al Ha Hmod). cbn [bind MemoryMap.nonneg MemoryMap.zof].
  replace (0 <=? rs) with true by lia. cbn [check bind].
  rewrite MemArith.shiftl1.
  pose proof (MemArith.align_up_ge (Z.max rs 1) al Ha).
  replace (negb ((nx >? 2 ^ MemoryMap.m_aw m) || (nx + MemoryMap.align_up (Z.max rs 1) al >? 2 ^ MemoryMap.m_aw m))) with true by lia.
  cbn [check bind]. rewrite Hov. reflexivity.
Qed.

Lemma add_resource_next aw dw al ranges ress names nx id a rs rs' :
  0 <= al -> 0 <= rs -> 0 <= nx -> nx mod 2 ^ al = 0 ->
  MemoryMap.has_res (MemoryMap.MM aw dw al ranges ress [] names nx false) id = false ->
  negb (a =? 0) = true ->
  MemoryMap.is_available names [[MemoryMap.PStr a]] = Ok true ->
  nx + MemoryMap.align_up (Z.max rs 1) al <= 2 ^ aw ->
  MemoryMap.rm_overlaps ranges nx (nx + MemoryMap.align_up (Z.max rs 1) al) = [] ->
  MemoryMap.rm_insert ranges {| MemoryMap.e_start := nx; MemoryMap.e_stop := nx + MemoryMap.align_up (Z.max rs 1) al;
                                MemoryMap.e_step := 1; MemoryMap.e_asg := MemoryMap.AR id |} = Ok rs' ->
  MemoryMap.add_resource (MemoryMap.MM aw dw al ranges ress [] names nx false) id true
      (MemoryMap.NTuple [MemoryMap.RStr a]) (VInt rs) VNone VNone =
  Ok (MemoryMap.MM aw dw al rs'
        (ress ++ [{| MemoryMap.r_id := id; MemoryMap.r_name := [MemoryMap.PStr a]; MemoryMap.r_start := nx;
                     MemoryMap.r_stop := nx + MemoryMap.align_up (Z.max rs 1) al |}])
        [] (names ++ [[MemoryMap.PStr a]]) (nx + MemoryMap.align_up (Z.max rs 1) al) false,
      (nx, nx + MemoryMap.align_up (Z.max rs 1) al)).
Proof.
  intros Ha Hrs Hnx Hmod Hhas Hatom Hav Hfit Hov Hins.
  unfold MemoryMap.add_resource. rewrite Hhas.
  cbn [MemoryMap.m_frozen negb check bind MemoryMap.m_names MemoryMap.m_al MemoryMap.mk_name mapR MemoryMap.valid_part].
  destruct (a =? 0) eqn:E; [discriminate|]. cbn [bind]. unfold MemoryMap.name in *. rewrite Hav. cbn [bind check].
  rewrite (car_next (MemoryMap.MM aw dw al ranges ress [] names nx false) rs al nx Ha Hrs eq_refl Hnx Hmod Hfit Hov). cbn [bind MemoryMap.m_ranges].
  rewrite Hins. reflexivity.
Qed.

(* the two add_resource() calls never fail, and produce exactly this map *)
Lemma build_map_ok n dw al : 0 < dw -> 0 <= n -> 0 <= al -> build_map n dw al = Ok (final_map n dw al).
Proof.
  intros Hd Hn Ha.
  destruct (span_spec n dw al Hd Hn Ha) as (H1 & Hrs & Hmod & Hfit & _).
  pose proof (reg_size_nonneg n dw Hd Hn) as Hrs0.
  assert (Haw : 0 < addr_width n dw al) by (unfold addr_width; pose proof (ceil_log2_nonneg (reg_size n dw)); lia).
  pose proof (MemArith.pow2_pos al Ha) as Hpal.
  unfold build_map, MemoryMap.new_map. cbn [MemoryMap.posint MemoryMap.nonneg MemoryMap.zof].
  replace (0 <? addr_width n dw al) with true by lia.
  replace (0 <? dw) with true by lia. replace (0 <=? al) with true by lia.
  cbn [check bind].
  assert (Hz : 0 mod 2 ^ al = 0) by (apply Z.mod_0_l; lia).
  assert (HS : MemoryMap.align_up (Z.max (reg_size n dw) 1) al = span n dw al) by reflexivity.
  rewrite (add_resource_next (addr_width n dw al) dw al [] [] [] 0 id_enable atom_enable (reg_size n dw)
             [{| MemoryMap.e_start := 0; MemoryMap.e_stop := 0 + span n dw al; MemoryMap.e_step := 1;
                 MemoryMap.e_asg := MemoryMap.AR id_enable |}] Ha Hrs0 (Z.le_refl 0) Hz eq_refl eq_refl eq_refl
             ltac:(rewrite HS; lia) eq_refl eq_refl).
  rewrite HS. cbn [bind app]. rewrite Z.add_0_l.
  assert (Hov2 : MemoryMap.rm_overlaps
            [{| MemoryMap.e_start := 0; MemoryMap.e_stop := span n dw al; MemoryMap.e_step := 1;
                MemoryMap.e_asg := MemoryMap.AR id_enable |}] (span n dw al) (span n dw al + span n dw al) = []).
  { unfold MemoryMap.rm_overlaps. cbn [MemoryMap.stops MemoryMap.starts map MemoryMap.e_stop MemoryMap.e_start bisect_right bisect_left].
    replace (span n dw al <=? span n dw al) with true by lia.
    replace (0 <? span n dw al + span n dw al) with true by lia. reflexivity. }
  assert (Hins2 : MemoryMap.rm_insert
            [{| MemoryMap.e_start := 0; MemoryMap.e_stop := span n dw al; MemoryMap.e_step := 1;
                MemoryMap.e_asg := MemoryMap.AR id_enable |}]
            {| MemoryMap.e_start := span n dw al; MemoryMap.e_stop := span n dw al + span n dw al; MemoryMap.e_step := 1;
               MemoryMap.e_asg := MemoryMap.AR id_pending |} =
          Ok [{| MemoryMap.e_start := 0; MemoryMap.e_stop := span n dw al; MemoryMap.e_step := 1;
                 MemoryMap.e_asg := MemoryMap.AR id_enable |};
              {| MemoryMap.e_start := span n dw al; MemoryMap.e_stop := span n dw al + span n dw al; MemoryMap.e_step := 1;
                 MemoryMap.e_asg := MemoryMap.AR id_pending |}]).
  { unfold MemoryMap.rm_insert. cbn [MemoryMap.e_start MemoryMap.e_stop]. rewrite Hov2.
    cbn [MemoryMap.stops MemoryMap.starts map MemoryMap.e_stop MemoryMap.e_start bisect_right bisect_left].
    replace (0 <=? span n dw al) with true by lia.
    replace (span n dw al <? span n dw al + span n dw al) with true by lia. reflexivity. }
  rewrite (add_resource_next (addr_width n dw al) dw al
             [{| MemoryMap.e_start := 0; MemoryMap.e_stop := span n dw al; MemoryMap.e_step := 1;
                 MemoryMap.e_asg := MemoryMap.AR id_enable |}]
             [{| MemoryMap.r_id := id_enable; MemoryMap.r_name := [MemoryMap.PStr atom_enable]; MemoryMap.r_start := 0;
                 MemoryMap.r_stop := span n dw al |}]
             [[MemoryMap.PStr atom_enable]] (span n dw al) id_pending atom_pending (reg_size n dw)
             _ Ha Hrs0 ltac:(lia) Hmod eq_refl eq_refl eq_refl
             ltac:(rewrite HS; lia) ltac:(rewrite HS; exact Hov2) ltac:(rewrite HS; exact Hins2)).
  rewrite HS. reflexivity.
Qed.

Lemma resources_final n dw al :
  MemoryMap.resources (final_map n dw al) =
  [ (id_enable, [MemoryMap.PStr atom_enable], 0, span n dw al);
    (id_pending, [MemoryMap.PStr atom_pending], span n dw al, span n dw al + span n dw al) ].
Proof. reflexivity. Qed.

Definition info_enable (n dw al : Z) : MemoryMap.info :=
  {| MemoryMap.i_res := id_enable; MemoryMap.i_path := [[MemoryMap.PStr atom_enable]];
     MemoryMap.i_start := 0; MemoryMap.i_end := span n dw al; MemoryMap.i_width := dw |}.
Definition info_pending (n dw al : Z) : MemoryMap.info :=
  {| MemoryMap.i_res := id_pending; MemoryMap.i_path := [[MemoryMap.PStr atom_pending]];
     MemoryMap.i_start := span n dw al; MemoryMap.i_end := span n dw al + span n dw al; MemoryMap.i_width := dw |}.

Lemma all_resources_final n dw al : 0 < dw -> 0 <= n -> 0 <= al ->
  MemoryMap.all_resources (final_map n dw al) = Ok [info_enable n dw al; info_pending n dw al].
Proof.
  intros Hd Hn Ha. destruct (span_spec n dw al Hd Hn Ha) as (H1 & _).
  unfold final_map. cbn [MemoryMap.all_resources map MemoryMap.e_asg MemoryMap.find_res MemoryMap.r_id].
  replace (id_enable =? id_enable) with true by reflexivity.
  replace (id_enable =? id_pending) with false by reflexivity.
  replace (id_pending =? id_pending) with true by reflexivity.
  unfold MemoryMap.mk_info. cbn [MemoryMap.e_start MemoryMap.e_stop MemoryMap.r_name length Nat.eqb negb check bind].
  replace (0 <=? 0) with true by reflexivity.
  replace (0 <? span n dw al) with true by lia.
  replace (0 <=? dw) with true by lia.
  replace (0 <=? span n dw al) with true by lia.
  replace (span n dw al <? span n dw al + span n dw al) with true by lia.
  reflexivity.
Qed.

(* layout_fits: everything the property file states about the layout, in one lemma *)
Lemma layout_fits n dw al : 0 < dw -> 0 <= n -> 0 <= al ->
  build_map n dw al = Ok (final_map n dw al) /\
  MemoryMap.all_resources (final_map n dw al) = Ok [info_enable n dw al; info_pending n dw al] /\
  MemoryMap.resources (final_map n dw al) =
    [ (id_enable, [MemoryMap.PStr atom_enable], 0, span n dw al);
      (id_pending, [MemoryMap.PStr atom_pending], span n dw al, span n dw al + span n dw al) ] /\
  MemSpec.least_multiple_ge (2 ^ al) (Z.max (reg_size n dw) 1) (span n dw al) /\
  2 * span n dw al <= 2 ^ addr_width n dw al /\
  n <= span n dw al * dw.
Proof.
  intros Hd Hn Ha. destruct (span_spec n dw al Hd Hn Ha) as (H1 & H2 & H3 & H4 & H5).
  pose proof (reg_size_holds n dw Hd Hn).
  repeat split; auto using build_map_ok, all_resources_final, resources_final; try apply H5; nia.
Qed.

(* ------------------------------------------------------------------ the constructor *)

Definition pn (p : params) : Z := Z.of_nat (length (p_modes p)).
Definition pdw (p : params) : Z := MemoryMap.zof (p_dw p).
Definition pal (p : params) : Z := MemoryMap.zof (p_al p).
Definition pspan (p : params) : Z := span (pn p) (pdw p) (pal p).

(* accepted arguments: data_width a positive int, alignment a non-negative int, trigger a valid mode *)
Definition valid (p : params) : Prop :=
  (exists dw, p_dw p = VInt dw /\ 0 < dw) /\ (exists al, p_al p = VInt al /\ 0 <= al) /\ 0 <= p_trigger p < 3.

Definition reg_en (p : params) : Mux.reg :=
  {| Mux.r_start := 0; Mux.r_stop := pspan p; Mux.r_width := pn p; Mux.r_rd := true; Mux.r_wr := true |}.
Definition reg_pe (p : params) : Mux.reg :=
  {| Mux.r_start := pspan p; Mux.r_stop := pspan p + pspan p; Mux.r_width := pn p; Mux.r_rd := true; Mux.r_wr := true |}.

Definition built_ok (p : params) (b : built) : Prop :=
  b_n b = pn p /\ b_aw b = addr_width (pn p) (pdw p) (pal p) /\ b_trigger b = p_trigger p /\
  b_map b = final_map (pn p) (pdw p) (pal p) /\
  MuxSpec.wf_cfg (b_mux b) /\ Mux.c_regs (b_mux b) = [reg_en p; reg_pe p] /\ Mux.c_dw (b_mux b) = pdw p /\
  b_mon b = sources (p_modes p) /\ b_ken b = 0%nat /\ b_kpe b = 1%nat.

Lemma valid_facts p : valid p -> 0 < pdw p /\ 0 <= pal p /\ 0 <= pn p /\
  MemoryMap.posint (p_dw p) = true /\ MemoryMap.nonneg (p_al p) = true.
Proof.
  intros ((dw & Ed & Hd) & (al & Ea & Ha) & _). unfold pdw, pal, pn. rewrite Ed, Ea. cbn. repeat split; lia.
Qed.

Lemma layout_ok p : valid p -> MuxSpec.wf_layout [reg_en p; reg_pe p].
Proof.
  intros Hv. destruct (valid_facts p Hv) as (Hd & Ha & Hn & _).
  destruct (span_spec (pn p) (pdw p) (pal p) Hd Hn Ha) as (H1 & _). fold (pspan p) in H1.
  unfold MuxSpec.wf_layout. cbn [MuxSpec.layout_from Mux.r_start Mux.r_stop Mux.r_width reg_en reg_pe]. lia.
Qed.

Theorem construct_ok p : valid p -> exists b, construct p = Ok b /\ built_ok p b.
Proof.
  intros Hv. destruct (valid_facts p Hv) as (Hd & Ha & Hn & Hpd & Hpa).
  pose proof Hv as Hv'. destruct Hv as (_ & _ & Ht).
  unfold construct. rewrite Hpd, Hpa. replace ((0 <=? p_trigger p) && (p_trigger p <? 3)) with true by lia.
  cbn [check bind]. fold (pn p) (pdw p) (pal p).
  rewrite (build_map_ok (pn p) (pdw p) (pal p) Hd Hn Ha). cbn [bind].
  assert (Hregs : regs_of (pn p) (final_map (pn p) (pdw p) (pal p)) = [reg_en p; reg_pe p]) by reflexivity.
  rewrite Hregs.
  destruct (MuxPrepare.mk_cfg_total (pdw p) [reg_en p; reg_pe p] None Hd (layout_ok p Hv') I) as (c & Ec & Hwf & Hr & Hdw).
  rewrite Ec. rewrite resources_final. cbn [pos_of]. 
  replace (id_enable =? id_enable) with true by reflexivity.
  replace (id_enable =? id_pending) with false by reflexivity.
  replace (id_pending =? id_pending) with true by reflexivity.
  cbn [option_map]. eexists. split; [reflexivity|].
  unfold built_ok. cbn. repeat split; auto; apply Hwf.
Qed.

(* every other argument combination is refused with ValueError, before anything is built *)
Lemma valid_or_refused p : valid p \/ construct p = Err ValueError.
Proof.
  unfold construct, valid.
  destruct (MemoryMap.posint (p_dw p)) eqn:E1; [|right; reflexivity].
  destruct (MemoryMap.nonneg (p_al p)) eqn:E2; [|right; reflexivity].
  destruct ((0 <=? p_trigger p) && (p_trigger p <? 3)) eqn:E3; [|right; reflexivity].
  left. destruct (p_dw p) as [dw| |]; try discriminate. destruct (p_al p) as [al| |]; try discriminate.
  cbn in E1, E2. repeat split; eauto; try lia; eexists; split; eauto; lia.
Qed.

Theorem construct_inv p b : construct p = Ok b -> valid p /\ built_ok p b.
Proof.
  intros H. destruct (valid_or_refused p) as [Hv|He]; [|rewrite He in H; discriminate].
  split; [exact Hv|]. destruct (construct_ok p Hv) as (b' & E & Hb). rewrite E in H. inversion H; subst. exact Hb.
Qed.

(* ================================================================== 2. the machine: element level, all traces *)

(* ------------------------------------------------------------------ vocabulary *)

(* the state before cycle t of the trace (cycles are numbered from 0) *)
Definition st_at (b : built) (is : list cinp) (t : nat) : cst := state_after b (init b) (firstn t is).
(* the enable and pending masks during cycle t, and what bus.r_data shows in cycle t *)
Definition enable_at (b : built) (is : list cinp) (t : nat) : Z := c_enable (st_at b is t).
Definition pending_at (b : built) (is : list cinp) (t : nat) : Z := Event.st_pending (c_mon (st_at b is t)).
Definition rdata_at (b : built) (is : list cinp) (t : nat) : Z := Mux.bus_rdata (b_mux b) (c_mux (st_at b is t)).

(* input line of source k in cycle t (low outside the trace) *)
Definition src_at (is : list cinp) (t k : nat) : bool :=
  match nth_error is t with Some i => nth k (ci_src i) false | None => false end.
(* trigger of source k in cycle t, by its mode: edge modes compare with the previous cycle, low before cycle 0 *)
Definition trg_at (modes : list Event.mode) (is : list cinp) (t k : nat) : bool :=
  Event.trg_of (nth k modes Event.Level)
               (match t with O => false | S t' => src_at is t' k end) (src_at is t k).

(* pending.element.w_stb / w_data and enable.element.w_stb / w_data as the glue sees them in state s *)
Definition pe_wstb (b : built) (s : cst) : bool := nth (b_kpe b) (Mux.s_wstb (c_mux s)) false.
Definition en_wstb (b : built) (s : cst) : bool := nth (b_ken b) (Mux.s_wstb (c_mux s)) false.
(* the ones software wrote to the pending register, effective in state s: w_data while w_stb is up, else none *)
Definition written_ones (p : params) (b : built) (s : cst) : Z :=
  if pe_wstb b s then Mux.elem_wdata (b_mux b) (c_mux s) (reg_pe p) else 0.

(* ------------------------------------------------------------------ plumbing *)

Lemma state_after_app b : forall is s i, state_after b s (is ++ [i]) = next b (state_after b s is) i.
Proof. induction is as [|j is IH]; intros s i; cbn [app state_after]; auto. Qed.

Lemma st_at_S b is t i : nth_error is t = Some i -> st_at b is (S t) = next b (st_at b is t) i.
Proof. intros H. unfold st_at. rewrite (MuxWrite.firstn_S_nth is t i H). apply state_after_app. Qed.

Lemma st_at_0 b is : st_at b is 0 = init b.
Proof. reflexivity. Qed.

Lemma run_nth b : forall is s t i, nth_error is t = Some i ->
  nth_error (run b s is) t = Some (out b (state_after b s (firstn t is)) i).
Proof.
  induction is as [|j is IH]; intros s t i H; destruct t; cbn in *; try discriminate.
  - injection H as <-. reflexivity.
  - apply IH, H.
Qed.

Lemma sources_length modes : length (sources modes) = length modes.
Proof. unfold sources. rewrite map_length, seq_length. reflexivity. Qed.

Lemma sources_wf modes : Event.wf_cfg (sources modes).
Proof.
  unfold Event.wf_cfg. rewrite sources_length. unfold sources. rewrite map_map. cbn [Event.s_idx]. apply map_id.
Qed.

Lemma sources_nth modes k : (k < length modes)%nat ->
  nth_error (sources modes) k =
  Some {| Event.s_id := Z.of_nat k; Event.s_idx := k; Event.s_mode := nth k modes Event.Level |}.
Proof.
  intros H. unfold sources. rewrite (map_nth_error _ _ (seq 0 (length modes)) (d := k)); [reflexivity|].
  apply Event.nth_error_seq0, H.
Qed.

Section Built.
  Variables (p : params) (b : built).
  Hypothesis Hv : valid p.
  Hypothesis Hb : built_ok p b.

  Let Hmon : b_mon b = sources (p_modes p). Proof. apply Hb. Qed.
  Let Hregs : Mux.c_regs (b_mux b) = [reg_en p; reg_pe p]. Proof. apply Hb. Qed.
  Let Hken : b_ken b = 0%nat. Proof. apply Hb. Qed.
  Let Hkpe : b_kpe b = 1%nat. Proof. apply Hb. Qed.
  Let Hdw : Mux.c_dw (b_mux b) = pdw p. Proof. apply Hb. Qed.
  Let Hwf : MuxSpec.wf_cfg (b_mux b). Proof. apply Hb. Qed.

  Lemma mon_wf : Event.wf_cfg (b_mon b).
  Proof. rewrite Hmon. apply sources_wf. Qed.

  Lemma mon_length : length (b_mon b) = length (p_modes p).
  Proof. rewrite Hmon. apply sources_length. Qed.

  (* what the multiplexer is shown as element.r_data: the monitor's enable and pending *)
  Lemma rvals_eq s : rvals b s = [c_enable s; Event.st_pending (c_mon s)].
  Proof. unfold rvals. rewrite Hregs, Hken, Hkpe. reflexivity. Qed.

  (* what the glue reads from the multiplexer *)
  Lemma glue_wstb_en s i : elem_wstb (mux_out b s i) (b_ken b) = en_wstb b s.
  Proof. reflexivity. Qed.
  Lemma glue_wstb_pe s i : elem_wstb (mux_out b s i) (b_kpe b) = pe_wstb b s.
  Proof. reflexivity. Qed.
  Lemma glue_wdata_en s i : elem_wdata (mux_out b s i) (b_ken b) = Mux.elem_wdata (b_mux b) (c_mux s) (reg_en p).
  Proof. unfold elem_wdata, mux_out, Mux.out. cbn [Mux.o_wdata]. rewrite Hregs, Hken. reflexivity. Qed.
  Lemma glue_wdata_pe s i : elem_wdata (mux_out b s i) (b_kpe b) = Mux.elem_wdata (b_mux b) (c_mux s) (reg_pe p).
  Proof. unfold elem_wdata, mux_out, Mux.out. cbn [Mux.o_wdata]. rewrite Hregs, Hkpe. reflexivity. Qed.

  Lemma clear_is_written_ones s i : clear_of b (mux_out b s i) = written_ones p b s.
  Proof. unfold clear_of, written_ones. rewrite glue_wstb_pe, glue_wdata_pe. reflexivity. Qed.

  (* ---------------------------------------------------------------- strobes: one cycle after the bus write *)

  Lemma wstb_init : en_wstb b (init b) = false /\ pe_wstb b (init b) = false.
  Proof. unfold en_wstb, pe_wstb, init, Mux.init. cbn [c_mux Mux.s_wstb]. rewrite Hregs, Hken, Hkpe. auto. Qed.

  Lemma wstb_next s i :
    en_wstb b (next b s i) = ci_wstb i && (ci_addr i =? pspan p - 1) /\
    pe_wstb b (next b s i) = ci_wstb i && (ci_addr i =? pspan p + pspan p - 1).
  Proof.
    unfold en_wstb, pe_wstb, next, Mux.next. cbn [c_mux Mux.s_wstb]. rewrite Hregs, Hken, Hkpe.
    cbn [map nth Mux.wstb_next reg_en reg_pe Mux.r_wr Mux.r_stop mux_inp Mux.i_wstb Mux.i_addr andb]. auto.
  Qed.

  (* ---------------------------------------------------------------- enable *)

  Theorem enable_latch s i :
    c_enable (next b s i) = if en_wstb b s then Mux.elem_wdata (b_mux b) (c_mux s) (reg_en p) else c_enable s.
  Proof. cbn [next c_enable]. unfold enable_next. rewrite glue_wstb_en, glue_wdata_en. reflexivity. Qed.

  Lemma elem_wdata_range s r : 0 <= Mux.r_width r ->
    0 <= Mux.elem_wdata (b_mux b) s r < 2 ^ Mux.r_width r.
  Proof.
    intros Hw. destruct (valid_facts p Hv) as (Hd & _).
    rewrite (MuxWrite.elem_wdata_assemble (b_mux b) s r
               (fun j => Mux.get (Mux.s_wdata s) (Mux.decode (Mux.c_Sw (b_mux b)) r (Mux.r_start r + j))))
      by (rewrite ?Hdw; auto).
    pose proof (MuxAssemble.assemble_range (Mux.c_dw (b_mux b)) (Mux.r_width r)
                  (fun j => Mux.get (Mux.s_wdata s) (Mux.decode (Mux.c_Sw (b_mux b)) r (Mux.r_start r + j)))
                  (Z.to_nat (Mux.reg_len r)) ltac:(rewrite Hdw; auto) Hw) as H.
    split; [lia|]. eapply Z.lt_le_trans; [apply H|]. apply Z.pow_le_mono_r; lia.
  Qed.

  (* ---------------------------------------------------------------- reachable-state invariant *)

  Definition inv (s : cst) : Prop :=
    Event.st_ok (b_mon b) (c_mon s) /\ Event.pending_ok (b_mon b) (c_mon s) /\ 0 <= c_enable s < 2 ^ pn p.

  Lemma inv_init : inv (init b).
  Proof.
    split; [apply Event.st_ok_init|]. split; [apply Event.pending_ok_init|].
    cbn [init c_enable]. destruct (valid_facts p Hv) as (_ & _ & Hn & _).
    pose proof (MemArith.pow2_pos (pn p) Hn). lia.
  Qed.

  Lemma inv_next s i : inv s -> inv (next b s i).
  Proof.
    intros (H1 & H2 & H3). split; [apply Event.st_ok_next|].
    split; [apply Event.pending_ok_next; auto using mon_wf|].
    rewrite enable_latch. destruct (en_wstb b s); [|exact H3].
    destruct (valid_facts p Hv) as (_ & _ & Hn & _). apply (elem_wdata_range (c_mux s) (reg_en p)). exact Hn.
  Qed.

  Lemma inv_after : forall is s, inv s -> inv (state_after b s is).
  Proof. induction is as [|i is IH]; intros s H; cbn [state_after]; auto using inv_next. Qed.

  Lemma inv_at is t : inv (st_at b is t).
  Proof. apply inv_after, inv_init. Qed.

  (* the masks are n-bit values in every reachable state *)
  Lemma mask_ranges is t : 0 <= enable_at b is t < 2 ^ pn p /\ 0 <= pending_at b is t < 2 ^ pn p.
  Proof.
    destruct (inv_at is t) as (_ & (H0 & Hhi) & He). split; [exact He|]. split; [exact H0|].
    destruct (valid_facts p Hv) as (_ & _ & Hn & _).
    unfold pending_at. set (x := Event.st_pending (c_mon (st_at b is t))) in *.
    destruct (Z.eq_dec x 0) as [->|Hx]; [apply MemArith.pow2_pos, Hn|].
    assert (Hpos : 0 < x) by lia. apply Z.log2_lt_pow2; [exact Hpos|].
    destruct (Z.lt_ge_cases (Z.log2 x) (pn p)) as [|Hge]; [assumption|exfalso].
    pose proof (Z.bit_log2 x Hpos) as Hbit. pose proof (Z.log2_nonneg x) as Hl.
    specialize (Hhi (Z.to_nat (Z.log2 x))). rewrite Z2Nat.id in Hhi by lia.
    rewrite Hhi in Hbit; [discriminate|]. rewrite mon_length. unfold pn in Hge. lia.
  Qed.
End Built.

Section Element.
  Variables (p : params) (b : built).
  Hypothesis Hv : valid p.
  Hypothesis Hb : built_ok p b.

  Let Hmon : b_mon b = sources (p_modes p). Proof. apply Hb. Qed.

  (* ---------------------------------------------------------------- triggers *)

  Lemma src_nth k : (k < length (p_modes p))%nat ->
    nth_error (b_mon b) k = Some {| Event.s_id := Z.of_nat k; Event.s_idx := k; Event.s_mode := nth k (p_modes p) Event.Level |}.
  Proof. rewrite Hmon. apply sources_nth. Qed.

  Lemma trg_first i k : (k < length (p_modes p))%nat ->
    nth_error (co_trg (out b (init b) i)) k =
    Some (Event.trg_of (nth k (p_modes p) Event.Level) false (nth k (ci_src i) false)).
  Proof.
    intros Hk. cbn [out co_trg init c_mon].
    rewrite (Event.trg_first (b_mon b) _ k _ (src_nth k Hk)). cbn [Event.s_mode Event.s_id mon_inp Event.in_i].
    rewrite Nat2Z.id. reflexivity.
  Qed.

  Lemma trg_later s i0 i k : (k < length (p_modes p))%nat ->
    nth_error (co_trg (out b (next b s i0) i)) k =
    Some (Event.trg_of (nth k (p_modes p) Event.Level) (nth k (ci_src i0) false) (nth k (ci_src i) false)).
  Proof.
    intros Hk. cbn [out co_trg next c_mon].
    rewrite (Event.trg_later (b_mon b) _ _ _ k _ (src_nth k Hk)). cbn [Event.s_mode Event.s_id mon_inp Event.in_i].
    rewrite Nat2Z.id. reflexivity.
  Qed.

  (* every source's trg output follows its trigger mode, in every cycle of every trace *)
  Theorem trg_follows_mode is t i k : nth_error is t = Some i -> (k < length (p_modes p))%nat ->
    nth_error (co_trg (out b (st_at b is t) i)) k = Some (trg_at (p_modes p) is t k).
  Proof.
    intros Hi Hk. unfold trg_at, src_at. rewrite Hi. destruct t as [|t].
    - rewrite st_at_0. apply trg_first, Hk.
    - destruct (nth_error is t) as [i0|] eqn:E0.
      + rewrite (st_at_S b is t i0 E0). apply trg_later, Hk.
      + exfalso. apply nth_error_None in E0. assert (nth_error is (S t) <> None) by congruence.
        apply nth_error_Some in H. lia.
  Qed.

  (* ---------------------------------------------------------------- pending: read / write-one-to-clear *)

  (* One step from ANY state with one edge register per source (reachable or not), any input:
       pending'[k] = trg[k]  or  (pending[k] and not written_ones[k])
     where written_ones is the pending register's w_data while its w_stb is up and 0 otherwise. *)
  Theorem pending_w1c_step s i k : Event.st_ok (b_mon b) (c_mon s) -> (k < length (p_modes p))%nat ->
    exists tk, nth_error (co_trg (out b s i)) k = Some tk /\
      Z.testbit (Event.st_pending (c_mon (next b s i))) (Z.of_nat k) =
      tk || (Z.testbit (Event.st_pending (c_mon s)) (Z.of_nat k) &&
             negb (Z.testbit (written_ones p b s) (Z.of_nat k))).
  Proof.
    intros Hok Hk.
    destruct (Event.pending_step_lemma (b_mon b) (c_mon s) (mon_inp b s i) k _ (mon_wf p b Hb) Hok (src_nth k Hk))
      as (tk & Ht & Hp).
    exists tk. split; [exact Ht|]. cbn [next c_mon]. rewrite Hp. cbn [mon_inp Event.in_clear].
    rewrite (clear_is_written_ones p b Hb). reflexivity.
  Qed.

  (* the same along a trace, with the trigger spelled out by mode *)
  Theorem pending_w1c is t i k : nth_error is t = Some i -> (k < length (p_modes p))%nat ->
    Z.testbit (pending_at b is (S t)) (Z.of_nat k) =
    trg_at (p_modes p) is t k ||
    (Z.testbit (pending_at b is t) (Z.of_nat k) && negb (Z.testbit (written_ones p b (st_at b is t)) (Z.of_nat k))).
  Proof.
    intros Hi Hk. unfold pending_at. rewrite (st_at_S b is t i Hi).
    destruct (inv_at p b Hv Hb is t) as (Hok & _).
    destruct (pending_w1c_step (st_at b is t) i k Hok Hk) as (tk & Ht & ->).
    rewrite (trg_follows_mode is t i k Hi Hk) in Ht. injection Ht as <-. reflexivity.
  Qed.

  (* bits beyond the sources never appear *)
  Theorem pending_high_bits_zero is t k : (length (p_modes p) <= k)%nat ->
    Z.testbit (pending_at b is t) (Z.of_nat k) = false.
  Proof.
    intros Hk. destruct (inv_at p b Hv Hb is t) as (_ & (_ & Hhi) & _). apply Hhi.
    rewrite (mon_length p b Hb). exact Hk.
  Qed.

  (* ---------------------------------------------------------------- src.i *)

  Theorem irq_follows is t i :
    co_irq (out b (st_at b is t) i) = negb (Z.land (enable_at b is t) (pending_at b is t) =? 0).
  Proof. reflexivity. Qed.

  Theorem irq_iff_enabled_pending is t i :
    co_irq (out b (st_at b is t) i) = true <->
    exists k, (k < length (p_modes p))%nat /\ Z.testbit (enable_at b is t) (Z.of_nat k) = true /\
              Z.testbit (pending_at b is t) (Z.of_nat k) = true.
  Proof.
    destruct (inv_at p b Hv Hb is t) as (_ & (H0 & Hhi) & _).
    rewrite irq_follows. apply (Event.irq_spec (length (p_modes p))); [exact H0|].
    intros k Hk. apply Hhi. rewrite (mon_length p b Hb). exact Hk.
  Qed.

  (* ---------------------------------------------------------------- strobes along a trace *)

  Theorem strobes_at is t :
    en_wstb b (st_at b is t) =
      match t with O => false | S t' => match nth_error is t' with
                                        | Some i => ci_wstb i && (ci_addr i =? pspan p - 1)
                                        | None => en_wstb b (st_at b is t') end end /\
    pe_wstb b (st_at b is t) =
      match t with O => false | S t' => match nth_error is t' with
                                        | Some i => ci_wstb i && (ci_addr i =? pspan p + pspan p - 1)
                                        | None => pe_wstb b (st_at b is t') end end.
  Proof.
    destruct t as [|t]; [rewrite st_at_0; apply (wstb_init p b Hb)|].
    destruct (nth_error is t) as [i|] eqn:E.
    - rewrite (st_at_S b is t i E). apply (wstb_next p b Hb).
    - apply nth_error_None in E. unfold st_at. rewrite !firstn_all2 by lia. auto.
  Qed.
End Element.

(* ================================================================== 3. bus level: through the multiplexer theorems *)

(* the multiplexer's own input trace along a run of the composite (its element.r_data inputs are the monitor's
   enable / pending of that cycle) *)
Fixpoint mux_trace (b : built) (s : cst) (is : list cinp) : list Mux.inp :=
  match is with
  | [] => []
  | i :: is' => mux_inp b s i :: mux_trace b (next b s i) is'
  end.

Lemma mux_after b : forall is s,
  c_mux (state_after b s is) = Mux.state_after (b_mux b) (c_mux s) (mux_trace b s is).
Proof. induction is as [|i is IH]; intros s; cbn [state_after mux_trace Mux.state_after]; auto. rewrite IH. reflexivity. Qed.

Lemma mux_trace_firstn b : forall is s t, firstn t (mux_trace b s is) = mux_trace b s (firstn t is).
Proof.
  induction is as [|i is IH]; intros s [|t]; cbn [firstn mux_trace]; auto. rewrite IH. reflexivity.
Qed.

Lemma mux_trace_nth b : forall is s t,
  nth_error (mux_trace b s is) t =
  match nth_error is t with
  | Some i => Some (mux_inp b (state_after b s (firstn t is)) i)
  | None => None
  end.
Proof.
  induction is as [|i is IH]; intros s [|t]; cbn [nth_error mux_trace firstn state_after]; auto.
Qed.

Lemma mux_st_at b is t : c_mux (st_at b is t) = MuxSpec.st_at (b_mux b) (mux_trace b (init b) is) t.
Proof. unfold st_at, MuxSpec.st_at. rewrite mux_trace_firstn, mux_after. reflexivity. Qed.

(* ------------------------------------------------------------------ vocabulary: bus transactions *)

(* cycle u carries a read strobe at the first address of the enable or of the pending register *)
Definition first_read (p : params) (is : list cinp) (u : nat) : Prop :=
  exists i, nth_error is u = Some i /\ ci_rstb i = true /\ (ci_addr i = 0 \/ ci_addr i = pspan p).

(* cycle u carries a write strobe inside register r *)
Definition write_in (r : Mux.reg) (is : list cinp) (u : nat) : Prop :=
  exists i, nth_error is u = Some i /\ ci_wstb i = true /\ Mux.r_start r <= ci_addr i < Mux.r_stop r.

(* A write transaction to register r completes at cycle t (its last address is written then).  For every word j
   that carries mask bits, tj j <= t is the cycle of the LATEST write to address start+j and dj j the data
   written then; the other register is not written after the earliest of these.  Nothing else is constrained:
   reads, idle cycles, earlier abandoned attempts, unmapped accesses, padding words, the order of the words. *)
Definition write_txn (p : params) (r other : Mux.reg) (is : list cinp) (t : nat)
                     (tj : Z -> nat) (dj : Z -> Z) : Prop :=
  (exists it, nth_error is t = Some it /\ ci_wstb it = true /\ ci_addr it = Mux.r_stop r - 1) /\
  forall j, 0 <= j < Mux.reg_len r -> j * pdw p < pn p ->
    (tj j <= t)%nat /\
    (exists i, nth_error is (tj j) = Some i /\ ci_wstb i = true /\ ci_addr i = Mux.r_start r + j /\
               dj j = trunc (pdw p) (ci_wdata i)) /\
    (forall u i, (tj j < u <= t)%nat -> nth_error is u = Some i ->
                 ~ (ci_wstb i = true /\ ci_addr i = Mux.r_start r + j)) /\
    (forall u, (tj j < u <= t)%nat -> ~ write_in other is u).

(* the value a completed write transaction delivers: the words concatenated, clipped to the n mask bits *)
Definition written_value (p : params) (r : Mux.reg) (dj : Z -> Z) : Z :=
  MuxSpec.assemble (pdw p) (pn p) dj (Z.to_nat (Mux.reg_len r)).

Section Bus.
  Variables (p : params) (b : built).
  Hypothesis Hv : valid p.
  Hypothesis Hb : built_ok p b.

  Let Hregs : Mux.c_regs (b_mux b) = [reg_en p; reg_pe p]. Proof. apply Hb. Qed.
  Let Hdw : Mux.c_dw (b_mux b) = pdw p. Proof. apply Hb. Qed.
  Let Hwf : MuxSpec.wf_cfg (b_mux b). Proof. apply Hb. Qed.

  (* ---------------------------------------------------------------- a completed write delivers its words *)

  Lemma write_lands k r other is t tj dj :
    nth_error [reg_en p; reg_pe p] k = Some r ->
    (forall k' r', nth_error [reg_en p; reg_pe p] k' = Some r' -> k' <> k -> r' = other) ->
    write_txn p r other is t tj dj ->
    Mux.elem_wdata (b_mux b) (c_mux (st_at b is (S t))) r = written_value p r dj.
  Proof.
    intros Hk Hother ((it & Hit & Hws & Ha) & Hj).
    assert (Hw : Mux.r_width r = pn p /\ Mux.r_wr r = true).
    { destruct k as [|[|k]]; cbn in Hk; inversion Hk; subst; cbn; auto. destruct k; discriminate. }
    destruct Hw as (Hwd & Hwr).
    rewrite mux_st_at. unfold written_value. rewrite <- Hdw, <- Hwd.
    apply (MuxWrite.write_atomic (b_mux b) (mux_trace b (init b) is) t k r
             (mux_inp b (state_after b (init b) (firstn t is)) it) tj dj Hwf).
    - rewrite Hregs. exact Hk.
    - exact Hwr.
    - rewrite mux_trace_nth, Hit. reflexivity.
    - exact Hws.
    - exact Ha.
    - intros j Hjr Hjw. rewrite Hdw, Hwd in Hjw. destruct (Hj j Hjr Hjw) as (Hle & (i & Hi & Hiw & Hia & Hd) & Hno & _).
      split; [exact Hle|]. split.
      + exists (mux_inp b (state_after b (init b) (firstn (tj j) is)) i).
        rewrite mux_trace_nth, Hi. cbn [mux_inp Mux.i_wstb Mux.i_addr Mux.i_wdata]. rewrite Hdw. auto.
      + intros u mi Hu Hmi. rewrite mux_trace_nth in Hmi.
        destruct (nth_error is u) as [i'|] eqn:Ei; [|discriminate]. injection Hmi as <-.
        cbn [mux_inp Mux.i_wstb Mux.i_addr]. apply (Hno u i' Hu Ei).
    - intros j u Hjr Hjw Hu (mi & k' & r' & Hmi & Hk' & Hne & _ & Hmw & Hma).
      rewrite Hdw, Hwd in Hjw. destruct (Hj j Hjr Hjw) as (_ & _ & _ & Hnow).
      apply (Hnow u Hu). rewrite Hregs in Hk'. rewrite (Hother k' r' Hk' Hne) in Hma.
      rewrite mux_trace_nth in Hmi. destruct (nth_error is u) as [i'|] eqn:Ei; [|discriminate]. injection Hmi as <-.
      exists i'. cbn [mux_inp Mux.i_wstb Mux.i_addr] in Hmw, Hma. auto.
  Qed.

  Lemma other_of_en k' r' : nth_error [reg_en p; reg_pe p] k' = Some r' -> k' <> 0%nat -> r' = reg_pe p.
  Proof. destruct k' as [|[|k']]; cbn; intros H Hne; try congruence. destruct k'; discriminate. Qed.
  Lemma other_of_pe k' r' : nth_error [reg_en p; reg_pe p] k' = Some r' -> k' <> 1%nat -> r' = reg_en p.
  Proof. destruct k' as [|[|k']]; cbn; intros H Hne; try congruence. destruct k'; discriminate. Qed.

  (* ---------------------------------------------------------------- enable: write *)

  (* two cycles after the last word of a completed enable write, the enable mask is the written value *)
  Theorem enable_write is t tj dj i' :
    write_txn p (reg_en p) (reg_pe p) is t tj dj -> nth_error is (S t) = Some i' ->
    enable_at b is (S (S t)) = written_value p (reg_en p) dj.
  Proof.
    intros Htx Hi'. pose proof Htx as ((it & Hit & Hws & Ha) & _).
    unfold enable_at. rewrite (st_at_S b is (S t) i' Hi'), (enable_latch p b Hb).
    destruct (strobes_at p b Hb is (S t)) as (He & _). rewrite Hit in He. rewrite He, Hws.
    cbn [reg_en Mux.r_stop] in Ha. rewrite Ha, Z.eqb_refl. cbn [andb].
    apply (write_lands 0 (reg_en p) (reg_pe p) is t tj dj eq_refl other_of_en Htx).
  Qed.

  (* the enable mask changes only in the cycle after a write to the enable register's last address *)
  Theorem enable_holds is u u' : (u <= u')%nat ->
    (forall v i, (u <= S v < u')%nat -> nth_error is v = Some i ->
                 ~ (ci_wstb i = true /\ ci_addr i = pspan p - 1)) ->
    enable_at b is u' = enable_at b is u.
  Proof.
    intros Hle. induction Hle as [|u' Hle IH]; intros Hno; [reflexivity|].
    rewrite <- IH by (intros v i Hvi; apply Hno; lia).
    unfold enable_at. destruct (nth_error is u') as [i|] eqn:E.
    - rewrite (st_at_S b is u' i E), (enable_latch p b Hb).
      destruct (strobes_at p b Hb is u') as (He & _).
      destruct u' as [|w]; [rewrite He; reflexivity|].
      destruct (nth_error is w) as [iw|] eqn:Ew.
      + rewrite He. destruct (ci_wstb iw && (ci_addr iw =? pspan p - 1)) eqn:Es; [|reflexivity].
        exfalso. apply (Hno w iw ltac:(lia) Ew). split; lia.
      + apply nth_error_None in Ew. assert (nth_error is (S w) <> None) by congruence.
        apply nth_error_Some in H. lia.
    - apply nth_error_None in E. unfold st_at. rewrite !firstn_all2 by lia. reflexivity.
  Qed.

  (* ---------------------------------------------------------------- reads: atomic snapshot *)

  Lemma no_first_read_mux is u :
    ~ first_read p is u -> ~ MuxSpec.any_first_read (b_mux b) (mux_trace b (init b) is) u.
  Proof.
    intros Hn (mi & r & Hmi & Hin & _ & Hrs & Ha). apply Hn.
    rewrite mux_trace_nth in Hmi. destruct (nth_error is u) as [i|] eqn:Ei; [|discriminate]. injection Hmi as <-.
    exists i. cbn [mux_inp Mux.i_rstb Mux.i_addr] in Hrs, Ha. repeat split; auto.
    rewrite Hregs in Hin. destruct Hin as [<-|[<-|[]]]; cbn [reg_en reg_pe Mux.r_start] in Ha; auto.
  Qed.

  (* A multi-word read of either register returns the words of the value the register had at the cycle its
     FIRST word was read, whatever happens to the mask in between (events arriving, clears, enable writes). *)
  Lemma read_snapshot k r is t0 t j i0 it :
    nth_error [reg_en p; reg_pe p] k = Some r ->
    nth_error is t0 = Some i0 -> ci_rstb i0 = true -> ci_addr i0 = Mux.r_start r ->
    (t0 <= t)%nat -> (forall u, (t0 < u <= t)%nat -> ~ first_read p is u) ->
    nth_error is t = Some it -> ci_rstb it = true -> ci_addr it = Mux.r_start r + j -> 0 <= j < Mux.reg_len r ->
    rdata_at b is (S t) =
    Mux.word (pdw p) (pn p) j (nth k [enable_at b is t0; pending_at b is t0] 0).
  Proof.
    intros Hk Hi0 Hr0 Ha0 Hle Hno Hit Hrt Hat Hj.
    assert (Hw : Mux.r_width r = pn p /\ Mux.r_rd r = true).
    { destruct k as [|[|k]]; cbn in Hk; inversion Hk; subst; cbn; auto. destruct k; discriminate. }
    destruct Hw as (Hwd & Hrd).
    unfold rdata_at. rewrite mux_st_at.
    change (Mux.bus_rdata (b_mux b) (MuxSpec.st_at (b_mux b) (mux_trace b (init b) is) (S t)))
      with (MuxSpec.rdata_at (b_mux b) (mux_trace b (init b) is) (S t)).
    rewrite (MuxRead.read_atomic (b_mux b) (mux_trace b (init b) is) t0 t k r j
               (mux_inp b (state_after b (init b) (firstn t0 is)) i0)
               (mux_inp b (state_after b (init b) (firstn t is)) it) Hwf); auto.
    - rewrite Hdw, Hwd. f_equal. unfold MuxSpec.rval_at. rewrite mux_trace_nth, Hi0.
      cbn [mux_inp Mux.i_rvals]. rewrite (rvals_eq p b Hb).
      fold (st_at b is t0). fold (enable_at b is t0). fold (pending_at b is t0).
      destruct (mask_ranges p b Hv Hb is t0) as (He & Hp).
      destruct k as [|[|k]]; cbn [nth]; try (apply trunc_small; assumption).
      cbn in Hk. destruct k; discriminate.
    - rewrite Hregs. exact Hk.
    - rewrite mux_trace_nth, Hi0. reflexivity.
    - intros u Hu. apply no_first_read_mux, Hno, Hu.
    - rewrite mux_trace_nth, Hit. reflexivity.
  Qed.

  Theorem pending_read_snapshot is t0 t j i0 it :
    nth_error is t0 = Some i0 -> ci_rstb i0 = true -> ci_addr i0 = pspan p ->
    (t0 <= t)%nat -> (forall u, (t0 < u <= t)%nat -> ~ first_read p is u) ->
    nth_error is t = Some it -> ci_rstb it = true -> ci_addr it = pspan p + j -> 0 <= j < pspan p ->
    rdata_at b is (S t) = Mux.word (pdw p) (pn p) j (pending_at b is t0).
  Proof.
    intros. apply (read_snapshot 1 (reg_pe p) is t0 t j i0 it); auto.
    unfold Mux.reg_len. cbn [reg_pe Mux.r_start Mux.r_stop]. lia.
  Qed.

  Theorem enable_read_snapshot is t0 t j i0 it :
    nth_error is t0 = Some i0 -> ci_rstb i0 = true -> ci_addr i0 = 0 ->
    (t0 <= t)%nat -> (forall u, (t0 < u <= t)%nat -> ~ first_read p is u) ->
    nth_error is t = Some it -> ci_rstb it = true -> ci_addr it = j -> 0 <= j < pspan p ->
    rdata_at b is (S t) = Mux.word (pdw p) (pn p) j (enable_at b is t0).
  Proof.
    intros. apply (read_snapshot 0 (reg_en p) is t0 t j i0 it); auto.
    unfold Mux.reg_len. cbn [reg_en Mux.r_start Mux.r_stop]. lia.
  Qed.

  (* ---------------------------------------------------------------- enable: write, then read back *)

  Theorem enable_readback is t tj dj t0 t' j i0 it' :
    write_txn p (reg_en p) (reg_pe p) is t tj dj ->
    (S t < t0)%nat ->
    (forall v i, (t < v)%nat -> (S v < t0)%nat -> nth_error is v = Some i ->
                 ~ (ci_wstb i = true /\ ci_addr i = pspan p - 1)) ->
    nth_error is t0 = Some i0 -> ci_rstb i0 = true -> ci_addr i0 = 0 ->
    (t0 <= t')%nat -> (forall u, (t0 < u <= t')%nat -> ~ first_read p is u) ->
    nth_error is t' = Some it' -> ci_rstb it' = true -> ci_addr it' = j -> 0 <= j < pspan p ->
    rdata_at b is (S t') = Mux.word (pdw p) (pn p) j (written_value p (reg_en p) dj).
  Proof.
    intros Htx Hlt Hno Hi0 Hr0 Ha0 Hle Hnf Hit Hrt Hat Hj.
    rewrite (enable_read_snapshot is t0 t' j i0 it'); auto. f_equal.
    assert (Hex : exists i', nth_error is (S t) = Some i').
    { destruct (nth_error is (S t)) eqn:E; eauto. apply nth_error_None in E.
      assert (nth_error is t0 <> None) by congruence. apply nth_error_Some in H. lia. }
    destruct Hex as (i' & Hi').
    rewrite <- (enable_write is t tj dj i' Htx Hi').
    apply enable_holds; [lia|]. intros v i Hvi Hn. apply (Hno v i); auto; lia.
  Qed.

  (* ---------------------------------------------------------------- pending: write-one-to-clear through the bus *)

  (* the cycle after the last word of a completed pending write, exactly the written ones are cleared, except
     those whose event triggers in that very cycle *)
  Theorem pending_clear_by_write is t tj dj i' k :
    write_txn p (reg_pe p) (reg_en p) is t tj dj -> nth_error is (S t) = Some i' ->
    (k < length (p_modes p))%nat ->
    Z.testbit (pending_at b is (S (S t))) (Z.of_nat k) =
    trg_at (p_modes p) is (S t) k ||
    (Z.testbit (pending_at b is (S t)) (Z.of_nat k) &&
     negb (Z.testbit (written_value p (reg_pe p) dj) (Z.of_nat k))).
  Proof.
    intros Htx Hi' Hk. pose proof Htx as ((it & Hit & Hws & Ha) & _).
    rewrite (pending_w1c p b Hv Hb is (S t) i' k Hi' Hk).
    assert (E : written_ones p b (st_at b is (S t)) = written_value p (reg_pe p) dj).
    { unfold written_ones. destruct (strobes_at p b Hb is (S t)) as (_ & Hp). rewrite Hit in Hp. rewrite Hp, Hws.
      cbn [reg_pe Mux.r_stop] in Ha. rewrite Ha, Z.eqb_refl. cbn [andb].
      apply (write_lands 1 (reg_pe p) (reg_en p) is t tj dj eq_refl other_of_pe Htx). }
    rewrite E. reflexivity.
  Qed.

  (* in every other cycle nothing is cleared: pending bits only get set *)
  Theorem pending_not_cleared_without_write is t i k :
    nth_error is t = Some i -> (k < length (p_modes p))%nat ->
    (forall t' iw, t = S t' -> nth_error is t' = Some iw ->
                   ~ (ci_wstb iw = true /\ ci_addr iw = pspan p + pspan p - 1)) ->
    Z.testbit (pending_at b is (S t)) (Z.of_nat k) =
    trg_at (p_modes p) is t k || Z.testbit (pending_at b is t) (Z.of_nat k).
  Proof.
    intros Hi Hk Hno. rewrite (pending_w1c p b Hv Hb is t i k Hi Hk).
    assert (E : written_ones p b (st_at b is t) = 0).
    { unfold written_ones. destruct (strobes_at p b Hb is t) as (_ & Hp). rewrite Hp.
      destruct t as [|t']; [reflexivity|].
      destruct (nth_error is t') as [iw|] eqn:Ew.
      - destruct (ci_wstb iw && (ci_addr iw =? pspan p + pspan p - 1)) eqn:Es; [|reflexivity].
        exfalso. apply (Hno t' iw eq_refl Ew). split; lia.
      - apply nth_error_None in Ew. assert (nth_error is (S t') <> None) by congruence.
        apply nth_error_Some in H. lia. }
    rewrite E, Z.bits_0. cbn [negb]. rewrite andb_true_r. reflexivity.
  Qed.

  (* writing zeros clears nothing, even in the cycle the write takes effect *)
  Theorem pending_zeros_clear_nothing s i k : Event.st_ok (b_mon b) (c_mon s) -> (k < length (p_modes p))%nat ->
    Z.testbit (written_ones p b s) (Z.of_nat k) = false ->
    Z.testbit (Event.st_pending (c_mon s)) (Z.of_nat k) = true ->
    Z.testbit (Event.st_pending (c_mon (next b s i))) (Z.of_nat k) = true.
  Proof.
    intros Hok Hk Hz Hp. destruct (pending_w1c_step p b Hb s i k Hok Hk) as (tk & _ & ->).
    rewrite Hz, Hp. cbn. apply orb_true_r.
  Qed.
End Bus.

(* ------------------------------------------------------------------ what a completed write delivers, word by word *)

(* word j of an assembled value is word j's data, clipped to the mask bits that word carries *)
Lemma word_assemble dw width data n j : 0 < dw -> 0 <= width -> 0 <= j -> width <= Z.of_nat n * dw ->
  Mux.word dw width j (MuxSpec.assemble dw width data n) =
  trunc (Z.max 0 (Z.min width ((j + 1) * dw) - j * dw)) (data j).
Proof.
  intros Hdw Hw Hj Hcov. unfold Mux.word. cbv zeta.
  set (lo := j * dw). set (hi := Z.min width ((j + 1) * dw)).
  assert (Hlo : 0 <= lo) by (unfold lo; nia).
  destruct (Z.leb_spec hi lo) as [H|H].
  - replace (Z.max 0 (hi - lo)) with 0 by lia. unfold trunc. rewrite Z.pow_0_r, Z.mod_1_r. reflexivity.
  - replace (Z.max 0 (hi - lo)) with (hi - lo) by lia.
    apply Z.bits_inj'. intros i Hi.
    rewrite slice_testbit, trunc_testbit by lia.
    destruct (Z.ltb_spec i (hi - lo)) as [Hlt|]; [|reflexivity].
    rewrite MuxAssemble.assemble_full_testbit by (auto; lia).
    assert (Hhi : hi <= lo + dw) by (unfold hi, lo; lia).
    replace (lo + i <? width) with true by (unfold hi in *; lia).
    assert (Eq : (lo + i) / dw = j).
    { symmetry. apply (Z.div_unique_pos (lo + i) dw j i); [lia|]. unfold lo. lia. }
    assert (Em : (lo + i) mod dw = i).
    { symmetry. apply (Z.mod_unique_pos (lo + i) dw j i); [lia|]. unfold lo. lia. }
    rewrite Eq, Em. reflexivity.
Qed.

Lemma word_written p r dj j : valid p -> (r = reg_en p \/ r = reg_pe p) -> 0 <= j ->
  Mux.word (pdw p) (pn p) j (written_value p r dj) =
  trunc (Z.max 0 (Z.min (pn p) ((j + 1) * pdw p) - j * pdw p)) (dj j).
Proof.
  intros Hv Hr Hj. destruct (valid_facts p Hv) as (Hd & Ha & Hn & _).
  destruct (span_spec (pn p) (pdw p) (pal p) Hd Hn Ha) as (H1 & H2 & _). fold (pspan p) in H1, H2.
  pose proof (reg_size_holds (pn p) (pdw p) Hd Hn) as Hh.
  unfold written_value. apply word_assemble; auto.
  assert (Hl : Mux.reg_len r = pspan p) by (destruct Hr as [-> | ->]; unfold Mux.reg_len; cbn; lia).
  rewrite Hl, Z2Nat.id by lia. nia.
Qed.

(* bit k of the written value is bit (k mod dw) of word k / dw *)
Lemma written_value_testbit p r dj k : valid p -> (r = reg_en p \/ r = reg_pe p) -> 0 <= k ->
  Z.testbit (written_value p r dj) k =
  if k <? pn p then Z.testbit (dj (k / pdw p)) (k mod pdw p) else false.
Proof.
  intros Hv Hr Hk. destruct (valid_facts p Hv) as (Hd & Ha & Hn & _).
  destruct (span_spec (pn p) (pdw p) (pal p) Hd Hn Ha) as (H1 & H2 & _). fold (pspan p) in H1, H2.
  pose proof (reg_size_holds (pn p) (pdw p) Hd Hn) as Hh.
  unfold written_value. apply MuxAssemble.assemble_full_testbit; auto.
  assert (Hl : Mux.reg_len r = pspan p) by (destruct Hr as [-> | ->]; unfold Mux.reg_len; cbn; lia).
  rewrite Hl, Z2Nat.id by lia. nia.
Qed.

(* ================================================================== 4. attachment through a csr.Decoder *)

Lemma build_map_wf n dw al m : build_map n dw al = Ok m -> MemAlloc.wf_map m.
Proof.
  unfold build_map. intros H.
  destruct (MemoryMap.new_map (VInt (addr_width n dw al)) (VInt dw) (VInt al)) as [m0|] eqn:E0; [|discriminate].
  cbn [bind] in H.
  destruct (MemoryMap.add_resource m0 id_enable true _ _ VNone VNone) as [[m1 [s1 e1]]|] eqn:E1; [|discriminate].
  cbn [bind] in H.
  destruct (MemoryMap.add_resource m1 id_pending true _ _ VNone VNone) as [[m2 [s2 e2]]|] eqn:E2; [|discriminate].
  cbn [bind] in H. injection H as <-.
  eapply MemAlloc.add_resource_wf; [|exact E2]. eapply MemAlloc.add_resource_wf; [|exact E1].
  eapply MemAlloc.new_map_wf; exact E0.
Qed.

Definition bus_of (i : cinp) : CsrDecoder.bus :=
  {| CsrDecoder.addr := ci_addr i; CsrDecoder.r_stb := ci_rstb i; CsrDecoder.w_stb := ci_wstb i;
     CsrDecoder.w_data := ci_wdata i |}.
Definition cinp_of (x : CsrDecoder.bus) (src : list bool) : cinp :=
  {| ci_addr := CsrDecoder.addr x; ci_rstb := CsrDecoder.r_stb x; ci_wstb := CsrDecoder.w_stb x;
     ci_wdata := CsrDecoder.w_data x; ci_src := src |}.

(* Decoder.add() places the monitor's window so that the decoder's Case pattern is exact: aligned to the
   window's own size, inside the decoder's address space (explicit addresses: multiples of the window size) *)
Theorem attach_wf p b d a : valid p -> built_ok p b -> attach b d = Ok a ->
  (d_addr d = VNone \/ exists x, d_addr d = VInt x /\ x mod 2 ^ b_aw b = 0) ->
  CsrDecoder.wf_sub (a_aw a) (a_sub a) /\ CsrDecoder.s_aw (a_sub a) = b_aw b /\ a_aw a = d_aw d.
Proof.
  intros Hv Hb Hat Haddr. destruct (valid_facts p Hv) as (Hd & Ha & Hn & _).
  destruct Hb as (_ & Haw & _ & Hmap & _ & _ & Hdw & _).
  unfold attach in Hat.
  destruct (MemoryMap.new_map (VInt (d_aw d)) (VInt (Mux.c_dw (b_mux b))) (VInt (d_al d))) as [dm|] eqn:E0; [|discriminate].
  cbn [bind] in Hat.
  destruct (MemoryMap.add_window dm 0 (b_map b) _ (d_addr d) None) as [[dm' [[s e] r]]|] eqn:E1; [|discriminate].
  cbn [bind] in Hat. injection Hat as <-. cbn [a_aw a_sub CsrDecoder.s_aw].
  split; [|auto].
  pose proof (MemAlloc.new_map_wf _ _ _ _ E0) as Hwdm.
  assert (Hdm : dm = MemoryMap.MM (d_aw d) (Mux.c_dw (b_mux b)) (d_al d) [] [] [] [] 0 false).
  { unfold MemoryMap.new_map in E0.
    destruct (MemoryMap.posint (VInt (d_aw d))); [|discriminate]. destruct (MemoryMap.posint (VInt (Mux.c_dw (b_mux b)))); [|discriminate].
    destruct (MemoryMap.nonneg (VInt (d_al d))); [|discriminate]. cbn in E0. inversion E0. reflexivity. }
  apply MemAlloc.add_window_inv in E1 as (nm & rs & _ & _ & _ & _ & _ & Hr & Hcar & _).
  assert (Hr1 : MemAlloc.win_ratio dm (b_map b) None = 1).
  { unfold MemAlloc.win_ratio. rewrite Hmap, Hdm. cbn [MemAlloc.win_sparse MemoryMap.m_dw final_map]. rewrite Hdw.
    apply Z.div_same. lia. }
  rewrite Hr1 in Hr. subst r. rewrite Z.div_1_r in Hcar.
  apply MemAlloc.car_ok in Hcar as (sz & Hsz & _ & He & Hs & _ & Hbound & _).
  injection Hsz as <-.
  assert (Hbaw : MemoryMap.m_aw (b_map b) = b_aw b) by (rewrite Hmap, Haw; reflexivity).
  rewrite Hbaw in *.
  assert (Hpos : 0 < b_aw b) by (rewrite Haw; unfold addr_width; pose proof (ceil_log2_nonneg (reg_size (pn p) (pdw p))); lia).
  set (A := MemAlloc.win_alignment dm (b_map b) 1) in *.
  assert (HA : b_aw b <= A /\ 0 <= A).
  { unfold A, MemAlloc.win_alignment. rewrite Hbaw, Z.div_1_r. lia. }
  pose proof (MemArith.pow2_pos (b_aw b) ltac:(lia)) as Hp2.
  pose proof (MemArith.align_up_ge (Z.max (2 ^ b_aw b) 1) A ltac:(lia)) as Hge.
  rewrite Hdm in Hbound. cbn [MemoryMap.m_aw] in Hbound.
  unfold CsrDecoder.wf_sub. cbn [CsrDecoder.s_aw CsrDecoder.s_start].
  split; [lia|].
  destruct Haddr as [Hnone|(x & Hx & Hxm)].
  - rewrite Hnone in Hs. rewrite Hdm in Hs. cbn [MemoryMap.m_next] in Hs.
    pose proof (MemArith.align_up_ge 0 A ltac:(lia)). pose proof (MemArith.align_up_mod 0 A ltac:(lia)) as Hm.
    rewrite <- Hs in *. split; [lia|]. split; [|lia].
    apply (MemArith.mod_pow2_le s A (b_aw b)); [lia|exact Hm].
  - rewrite Hx in Hs. destruct Hs as (-> & Hx0 & _). split; [lia|]. split; [exact Hxm|lia].
Qed.

(* what the monitor's bus port sees behind the decoder: inside the window the access with the window start
   subtracted, outside it no strobe *)
Theorem through_route a i : CsrDecoder.wf_sub (a_aw a) (a_sub a) -> 0 <= ci_addr i < 2 ^ a_aw a ->
  through a i = cinp_of (CsrDecoder.route (a_sub a) (bus_of i)) (ci_src i).
Proof.
  intros Hwf Hi. unfold through. fold (bus_of i). unfold CsrDecoder.dec_down. cbn [CsrDecoder.dec_down_from negb andb].
  rewrite (CsrDecoder.sub_match_span (a_aw a) (a_sub a) (CsrDecoder.addr (bus_of i)) Hwf) by exact Hi.
  rewrite (CsrDecoder.sub_drive_route (a_aw a) (a_sub a) (bus_of i) Hwf). reflexivity.
Qed.

Lemma back_id o : back o = o.
Proof. destruct o as [r q t]. unfold back, CsrDecoder.dec_up. cbn. reflexivity. Qed.

(* the monitor behind a decoder IS the monitor, run on the routed trace; the decoder's r_data is the monitor's *)
Theorem run_attached_is_run b a is : run_attached b a is = run b (init b) (map (through a) is).
Proof. unfold run_attached. rewrite (map_ext _ (fun o => o) back_id). apply map_id. Qed.

(* ------------------------------------------------------------------ what the decoder's memory map reports *)

Lemma all_resources_final_frozen n dw al : 0 < dw -> 0 <= n -> 0 <= al ->
  MemoryMap.all_resources (MemoryMap.set_frozen (final_map n dw al)) = Ok [info_enable n dw al; info_pending n dw al].
Proof. intros Hd Hn Ha. rewrite <- (all_resources_final n dw al Hd Hn Ha). reflexivity. Qed.

Definition shifted (s : Z) (i : MemoryMap.info) : MemoryMap.info :=
  {| MemoryMap.i_res := MemoryMap.i_res i; MemoryMap.i_path := [MemoryMap.PStr atom_window] :: MemoryMap.i_path i;
     MemoryMap.i_start := MemoryMap.i_start i + s; MemoryMap.i_end := MemoryMap.i_end i + s;
     MemoryMap.i_width := MemoryMap.i_width i |}.

Lemma translate_shift i dw s : 0 <= MemoryMap.i_start i < MemoryMap.i_end i -> 0 <= s -> 0 <= MemoryMap.i_width i ->
  MemoryMap.translate i dw (Some [MemoryMap.PStr atom_window]) s 1 = Ok (shifted s i).
Proof.
  intros Hi Hs Hw. unfold MemoryMap.translate. rewrite !Z.mod_1_r, !Z.div_1_r, Z.mul_1_r.
  cbn [Z.eqb orb check bind]. unfold MemoryMap.mk_info. cbn [length Nat.eqb negb check bind].
  replace (0 <=? MemoryMap.i_start i + s) with true by lia.
  replace (MemoryMap.i_start i + s <? MemoryMap.i_start i + s + (MemoryMap.i_end i - MemoryMap.i_start i)) with true by lia.
  replace (0 <=? MemoryMap.i_width i) with true by lia.
  change ((1 =? 1)%positive) with true. cbn [orb check bind]. unfold shifted. f_equal. f_equal; lia.
Qed.

(* through the decoder, all_resources() reports the two registers under the window's name, at the window start
   plus their own addresses *)
Theorem attached_layout p b d a : valid p -> built_ok p b -> attach b d = Ok a ->
  MemoryMap.all_resources (a_map a) =
  Ok [shifted (CsrDecoder.s_start (a_sub a)) (info_enable (pn p) (pdw p) (pal p));
      shifted (CsrDecoder.s_start (a_sub a)) (info_pending (pn p) (pdw p) (pal p))].
Proof.
  intros Hv Hb Hat. destruct (valid_facts p Hv) as (Hd & Ha & Hn & _).
  destruct (span_spec (pn p) (pdw p) (pal p) Hd Hn Ha) as (H1 & _).
  destruct Hb as (_ & Haw & _ & Hmap & _ & _ & Hdw & _).
  unfold attach in Hat.
  destruct (MemoryMap.new_map (VInt (d_aw d)) (VInt (Mux.c_dw (b_mux b))) (VInt (d_al d))) as [dm|] eqn:E0; [|discriminate].
  cbn [bind] in Hat.
  destruct (MemoryMap.add_window dm 0 (b_map b) _ (d_addr d) None) as [[dm' [[s e] r]]|] eqn:E1; [|discriminate].
  cbn [bind] in Hat. injection Hat as <-. cbn [a_map a_sub CsrDecoder.s_start].
  assert (Hdm : dm = MemoryMap.MM (d_aw d) (Mux.c_dw (b_mux b)) (d_al d) [] [] [] [] 0 false).
  { unfold MemoryMap.new_map in E0.
    destruct (MemoryMap.posint (VInt (d_aw d))); [|discriminate]. destruct (MemoryMap.posint (VInt (Mux.c_dw (b_mux b)))); [|discriminate].
    destruct (MemoryMap.nonneg (VInt (d_al d))); [|discriminate]. cbn in E0. inversion E0. reflexivity. }
  apply MemAlloc.add_window_inv in E1 as (nm & rs & _ & _ & _ & Hnm & _ & Hr & Hcar & Hins & Hdm').
  assert (Hr1 : MemAlloc.win_ratio dm (b_map b) None = 1).
  { unfold MemAlloc.win_ratio. rewrite Hmap, Hdm. cbn [MemAlloc.win_sparse MemoryMap.m_dw final_map]. rewrite Hdw.
    apply Z.div_same. lia. }
  rewrite Hr1 in Hr. subst r.
  apply MemAlloc.car_ok in Hcar as (sz & _ & _ & _ & Hs & _).
  assert (Hs0 : 0 <= s).
  { destruct (d_addr d) as [x| |]; [lia| |contradiction].
    rewrite Hs. apply (Z.le_trans _ (MemoryMap.m_next dm)); [rewrite Hdm; cbn; lia|].
    apply MemArith.align_up_ge. unfold MemAlloc.win_alignment. rewrite Hdm. cbn [MemoryMap.m_al].
    pose proof (MemAlloc.new_map_wf _ _ _ _ E0) as Hw. pose proof (MemAlloc.wf_al _ Hw). rewrite Hdm in H. cbn in H. lia. }
  assert (Hnm' : nm = Some [MemoryMap.PStr atom_window]).
  { unfold MemAlloc.win_name_ok in Hnm. destruct Hnm as (x & Hx & ->). cbn in Hx. inversion Hx. reflexivity. }
  subst nm. rewrite Hdm in Hins. cbn [MemoryMap.m_ranges] in Hins.
  assert (Hrs : rs = [{| MemoryMap.e_start := s; MemoryMap.e_stop := e; MemoryMap.e_step := 1; MemoryMap.e_asg := MemoryMap.AW 0 |}]).
  { cbn in Hins. inversion Hins. reflexivity. }
  rewrite Hdm', Hrs, Hdm, Hmap.
  cbn [MemoryMap.all_resources MemoryMap.m_aw MemoryMap.m_dw MemoryMap.m_al MemoryMap.m_ress MemoryMap.m_wins app map
       MemoryMap.e_asg fst snd find MemoryMap.w_id].
  replace (0 =? 0) with true by reflexivity.
  fold (MemoryMap.all_resources (MemoryMap.set_frozen (final_map (pn p) (pdw p) (pal p)))).
  rewrite (all_resources_final_frozen (pn p) (pdw p) (pal p) Hd Hn Ha).
  cbn [bind mapR MemoryMap.w_name MemoryMap.e_start MemoryMap.e_step].
  rewrite !translate_shift; try (cbn [info_enable info_pending MemoryMap.i_start MemoryMap.i_end MemoryMap.i_width]; lia).
  reflexivity.
Qed.
