(* The executable codec Engine/BridgeMuxE.v runs the composite BridgeMuxSpec.crun: its transcription
   crun_e (needed because monolithic extraction cannot cross BridgeMuxSpec.v's module aliases) is
   proved equal to the definition the C10 composition theorems speak about. *)
From Coq Require Import ZArith List Bool.
From Soc Require Import Lib.Sx Lib.Bits Model.WbCsrBridge Model.Mux Model.BridgeMuxSpec Engine.BridgeMuxE.
Import ListNotations.
Open Scope Z_scope.

Definition to_cinp (x : xinp) : cinp :=
  {| x_cyc := e_cyc x; x_stb := e_stb x; x_we := e_we x; x_adr := e_adr x; x_sel := e_sel x;
     x_dat_w := e_dat_w x; x_rvals := e_rvals x |}.

Lemma bridge_out_e_eq : forall bc mc s x, bridge_out_e bc mc s x = bridge_out bc mc s (to_cinp x).
Proof. reflexivity. Qed.

Lemma mux_out_e_eq : forall bc mc s x, mux_out_e bc mc s x = mux_out bc mc s (to_cinp x).
Proof. reflexivity. Qed.

Lemma cnext_e_eq : forall bc mc s x, cnext_e bc mc s x = cnext bc mc s (to_cinp x).
Proof. reflexivity. Qed.

Lemma cinit_e_eq : forall mc, cinit_e mc = cinit mc.
Proof. reflexivity. Qed.

Lemma crun_e_eq : forall bc mc xs s, crun_e bc mc s xs = crun bc mc s (map to_cinp xs).
Proof.
  intros bc mc xs. induction xs as [|x xs IH]; intros s; [reflexivity|].
  cbn [crun_e crun map]. rewrite IH, bridge_out_e_eq, mux_out_e_eq, cnext_e_eq. reflexivity.
Qed.

Lemma run_with_ext : forall f g, (forall bc mc xs, f bc mc xs = g bc mc xs) ->
  forall s, run_with f s = run_with g s.
Proof.
  intros f g Hfg s. unfold run_with.
  destruct s as [z|l]; [reflexivity|].
  destruct l as [|[cdw|?] l]; try reflexivity.
  destruct l as [|[wdw|?] l]; try reflexivity.
  destruct l as [|[caw|?] l]; try reflexivity.
  destruct l as [|[?|rs] l]; try reflexivity.
  destruct l as [|ov l]; try reflexivity.
  destruct l as [|[?|cycles] l]; try reflexivity.
  destruct l as [|? l]; try reflexivity.
  destruct (mapM MuxE.dec_reg rs) as [regs|]; [|reflexivity].
  destruct (dec_ov ov) as [ovo|]; [|reflexivity].
  destruct (mapM dec_xinp cycles) as [xs|]; [|reflexivity].
  destruct ((caw <=? 0) || (cdw <=? 0)); [reflexivity|].
  destruct (construct _) as [g0|e]; [|reflexivity].
  destruct (mk_cfg cdw regs ovo) as [mc|]; [|reflexivity].
  rewrite Hfg. reflexivity.
Qed.

(* what the engine prints is the codec around BridgeMuxSpec.crun from BridgeMuxSpec.cinit *)
Lemma engine_runs_composite : forall s,
  run_bridgemux s = run_with (fun bc mc xs => crun bc mc (cinit mc) (map to_cinp xs)) s.
Proof.
  intros s. unfold run_bridgemux. apply run_with_ext.
  intros bc mc xs. rewrite crun_e_eq, cinit_e_eq. reflexivity.
Qed.
