(* all_resources() of a window-free map (such as the one csr.Builder.as_memory_map returns) is its
   resources() with one-element paths and the map's data width. *)
From Coq Require Import ZArith List Bool Lia ZifyBool Arith.
From Soc Require Import Lib.Res Lib.Bits Lib.PyList Model.MemoryMap Model.MemSpec Model.Builder
                        Model.BuilderSpec.
From Soc Require Import Proofs.RangeMap Proofs.MemArith Proofs.MemNames Proofs.MemAlloc Proofs.MemReports
                        Proofs.BuilderMap Proofs.BuilderInv Proofs.Builder.
Import ListNotations.
Open Scope Z_scope.

Local Opaque Z.pow Z.div Z.modulo.

Definition info_of (dw : Z) (t : Z * name * Z * Z) : info :=
  match t with (id, n, s, e) => {| i_res := id; i_path := [n]; i_start := s; i_end := e; i_width := dw |} end.

Lemma all_resources_flat m : wf_map m -> m_wins m = [] ->
  all_resources m = Ok (map (info_of (m_dw m)) (resources m)).
Proof.
  intros Hwf Hw. destruct m as [aw dw al ranges ress wins names next frozen]. msimpl. subst wins.
  pose proof (wf_entries _ Hwf) as Hent. pose proof (chain_all_ge _ _ (wf_chain _ Hwf)) as Hch.
  pose proof (wf_dw _ Hwf) as Hdw. msimpl.
  cbn [all_resources map]. unfold resources. msimpl.
  revert Hent Hch. generalize ranges as l.
  induction l as [|x l IH]; intros Hent Hch; [reflexivity|].
  inversion Hch as [|? ? (Hx0 & Hx1) Hch']; subst.
  destruct (Hent x (or_introl eq_refl)) as (_ & Hx).
  assert (IH' := IH (fun y Hy => Hent y (or_intror Hy)) Hch'). clear IH.
  cbn [map flat_map concatR].
  destruct (e_asg x) as [id|id].
  - destruct Hx as (_ & r & Hr & _). rewrite Hr.
    assert (Hmk : mk_info id [r_name r] (e_start x) (e_stop x) dw =
                  Ok {| i_res := id; i_path := [r_name r]; i_start := e_start x; i_end := e_stop x;
                        i_width := dw |}).
    { unfold mk_info. cbn [length Nat.eqb negb check bind].
      replace (0 <=? e_start x) with true by lia. replace (e_start x <? e_stop x) with true by lia.
      replace (0 <=? dw) with true by lia. reflexivity. }
    rewrite Hmk. cbn [bind concatR].
    rewrite IH'. cbn [app map info_of]. reflexivity.
  - destruct Hx as (_ & wc & Hf & _). discriminate Hf.
Qed.

(* all_resources() of the builder's map: one entry per register, path = (name,), width = data_width *)
Lemma builder_all_resources b m : reachable_builder b -> snd (as_memory_map b) = Ok m ->
  all_resources m = Ok (map (info_of (bd_dw b)) (resources m)).
Proof.
  intros Hr Hm. pose proof (reachable_binv b Hr) as Hb.
  destruct (as_memory_map_spec b Hb) as [(_ & m' & Hm' & Hwf & _ & _ & Hd & _ & Hw & _)|(_ & He)];
    [|rewrite He in Hm; discriminate].
  rewrite Hm in Hm'. injection Hm' as <-. rewrite <- Hd. apply all_resources_flat; assumption.
Qed.
