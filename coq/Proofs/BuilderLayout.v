(* The closed-form layout `placed` (C17) says what the property says: explicit registers at exactly
   offset x granularity / data_width, implicit ones at the first multiple of their own power-of-two
   size at or after the end of the previously added register; and how resources() orders them. *)
From Coq Require Import ZArith List Bool Lia ZifyBool Arith Permutation.
From Soc Require Import Lib.Res Lib.Bits Lib.PyList Model.MemoryMap Model.MemSpec Model.Builder
                        Model.BuilderSpec.
From Soc Require Import Proofs.MemArith Proofs.MemAlloc Proofs.MemReports Proofs.BuilderArith
                        Proofs.BuilderMap.
Import ListNotations.
Open Scope Z_scope.

Local Opaque Z.pow Z.div Z.modulo.

(* end of the register added just before the i-th one (0 for the first) *)
Definition prev_end (b : builder) (i : nat) : Z :=
  match i with
  | O => 0
  | S j => match nth_error (placed b) j with Some q => p_end q | None => 0 end
  end.

Lemma place_all_nth b : forall l cur i r, nth_error l i = Some r ->
  nth_error (place_all b cur l) i =
    Some (new_pent b (match i with
                      | O => cur
                      | S j => match nth_error (place_all b cur l) j with Some q => p_end q | None => 0 end
                      end) r).
Proof.
  induction l as [|r0 l IH]; intros cur [|i] r H; cbn [nth_error] in H; try discriminate.
  - injection H as <-. reflexivity.
  - rewrite place_all_cons. cbn [nth_error]. rewrite (IH _ i r H).
    destruct i as [|i]; reflexivity.
Qed.

Lemma place_all_ids b : forall l cur, map p_id (place_all b cur l) = map b_id l.
Proof. induction l as [|r l IH]; intros cur; [reflexivity|]. cbn [place_all map p_id]. rewrite IH. reflexivity. Qed.

Lemma place_all_length b : forall l cur, length (place_all b cur l) = length l.
Proof. intros l cur. rewrite <- (map_length p_id), place_all_ids, map_length. reflexivity. Qed.

(* the size rule: ceil(width / data_width) bus words, rounded up to the least power of two *)
Lemma span_rule b r : geom_ok b -> 0 <= b_width r ->
  (0 <= units b r /\ b_width r <= units b r * bd_dw b /\ units b r * bd_dw b < b_width r + bd_dw b) /\
  exists k, 0 <= k /\ span b r = 2 ^ k /\ Z.max (units b r) 1 <= 2 ^ k /\
            (0 < k -> 2 ^ (k - 1) < Z.max (units b r) 1).
Proof.
  intros [Haw Hdw Hg Hdiv] Hw. split; [apply (units_ceil (bd_dw b) (b_width r) Hdw Hw)|].
  exists (ceil_log2 (Z.max (units b r) 1)). split; [apply ceil_log2_nonneg|]. split; [reflexivity|].
  split; [apply ceil_log2_ge; lia|].
  intros Hk. apply ceil_log2_tight. unfold ceil_log2 in Hk.
  destruct (Z.leb_spec (Z.max (units b r) 1) 1); lia.
Qed.

(* the placement rule, register by register *)
Lemma layout_rule b : binv b -> forall i r, nth_error (bd_regs b) i = Some r ->
  exists p, nth_error (placed b) i = Some p /\
    p_id p = b_id r /\ p_name p = b_name r /\ p_end p = p_start p + span b r /\
    (forall o, b_off r = Some o -> p_start p * bd_dw b = o * bd_gran b /\ p_start p = o / (bd_dw b / bd_gran b)) /\
    (b_off r = None -> least_multiple_ge (span b r) (prev_end b i) (p_start p)).
Proof.
  intros [[Haw Hdw Hg Hdiv] Hregs _ _] i r Hi.
  unfold placed. rewrite (place_all_nth b _ 0 i r Hi). eexists. split; [reflexivity|].
  assert (Hr : reg_ok b r).
  { rewrite Forall_forall in Hregs. apply Hregs. eapply nth_error_In; eauto. }
  destruct Hr as (_ & _ & _ & Hoff).
  cbn [new_pent p_id p_name p_start p_end].
  split; [reflexivity|]. split; [reflexivity|]. split; [reflexivity|]. split.
  - intros o H. unfold start_of. rewrite H in *. destruct Hoff as (Ho & Hm).
    destruct (offset_exact _ _ o Hg Hdw Hdiv Ho Hm) as (H1 & _ & H3). auto.
  - intros Hnone. unfold start_of. rewrite Hnone.
    assert (Hcur : match i with
                   | O => 0
                   | S j => match nth_error (place_all b 0 (bd_regs b)) j with
                            | Some q => p_end q | None => 0 end
                   end = prev_end b i) by (destruct i; reflexivity).
    rewrite Hcur. apply next_multiple_spec, span_pos.
Qed.

(* ------------------------------------------------------------------ order of resources() *)

Definition keys (l : list pent) : list (Z * Z) := map (fun '(_, _, s, e) => (s, e)) l.

Lemma ascending_all lo l : ascending lo (keys l) -> forall p, In p l -> lo <= p_start p /\ p_start p < p_end p.
Proof.
  revert lo. induction l as [|[[[id n] s] e] l IH]; intros lo H p Hp; [destruct Hp|].
  cbn [keys map ascending] in H. destruct H as (H1 & H2 & H3).
  destruct Hp as [<-|Hp]; [cbn; lia|].
  destruct (IH e H3 p Hp). lia.
Qed.

Lemma ascending_unique (l1 : list pent) : forall l2 lo1 lo2,
  ascending lo1 (keys l1) -> ascending lo2 (keys l2) -> (forall t, In t l1 <-> In t l2) -> l1 = l2.
Proof.
  induction l1 as [|a l1 IH]; intros l2 lo1 lo2 H1 H2 Heq.
  - destruct l2 as [|c l2]; [reflexivity|]. destruct (proj2 (Heq c) (or_introl eq_refl)).
  - destruct l2 as [|c l2]; [destruct (proj1 (Heq a) (or_introl eq_refl))|].
    destruct a as [[[ia na] sa] ea]. destruct c as [[[ic nc] sc] ec].
    cbn [keys map ascending] in H1, H2. fold (keys l1) in H1. fold (keys l2) in H2.
    destruct H1 as (Ha1 & Ha2 & Ha3). destruct H2 as (Hc1 & Hc2 & Hc3).
    pose proof (ascending_all _ _ Ha3) as Hall1. pose proof (ascending_all _ _ Hc3) as Hall2.
    assert (Hac : (ia, na, sa, ea) = (ic, nc, sc, ec)).
    { destruct (proj1 (Heq _) (or_introl eq_refl)) as [E|Hin]; [auto|].
      destruct (proj2 (Heq (ic, nc, sc, ec)) (or_introl eq_refl)) as [E|Hin']; [auto|].
      specialize (Hall2 _ Hin). specialize (Hall1 _ Hin'). cbn in Hall1, Hall2. lia. }
    injection Hac as -> -> -> ->. f_equal.
    apply (IH l2 ec ec Ha3 Hc3). intros t. split; intros Ht.
    + destruct (proj1 (Heq t) (or_intror Ht)) as [E|Hin]; [|exact Hin].
      subst t. specialize (Hall1 _ Ht). cbn in Hall1. lia.
    + destruct (proj2 (Heq t) (or_intror Ht)) as [E|Hin]; [|exact Hin].
      subst t. specialize (Hall2 _ Ht). cbn in Hall2. lia.
Qed.

Lemma ascending_NoDup lo l : ascending lo (keys l) -> NoDup l.
Proof.
  revert lo. induction l as [|a l IH]; intros lo H; [constructor|].
  destruct a as [[[ia na] sa] ea]. cbn [keys map ascending] in H. fold (keys l) in H.
  destruct H as (H1 & H2 & H3). constructor; [|exact (IH _ H3)].
  intros Hin. pose proof (ascending_all _ _ H3 _ Hin) as Hx. cbn in Hx. lia.
Qed.

(* registers without explicit offsets are laid out in ascending address order *)
Lemma implicit_ascending b : forall l cur, (forall r, In r l -> b_off r = None) ->
  ascending cur (keys (place_all b cur l)).
Proof.
  induction l as [|r l IH]; intros cur Hall; [exact I|].
  rewrite place_all_cons. unfold new_pent at 1. cbn [keys map ascending]. fold (keys (place_all b (p_end (new_pent b cur r)) l)).
  pose proof (span_pos b r) as Hsp.
  assert (Hs : cur <= start_of b cur r).
  { unfold start_of. rewrite (Hall r (or_introl eq_refl)). apply next_multiple_spec, Hsp. }
  split; [exact Hs|]. split; [lia|].
  apply IH. intros r' Hr'. apply Hall. right. exact Hr'.
Qed.

(* what resources() of a successfully built map looks like *)
Theorem resources_of_map b m : binv b -> snd (as_memory_map b) = Ok m ->
  legal b /\
  ascending 0 (keys (resources m)) /\
  Permutation (resources m) (placed b) /\
  (ascending 0 (keys (placed b)) -> resources m = placed b).
Proof.
  intros Hb Hm.
  destruct (as_memory_map_spec b Hb) as [(Hleg & m' & Hm' & Hwf & _ & _ & _ & _ & _ & _ & Hrep)|(_ & He)];
    [|rewrite He in Hm; discriminate].
  rewrite Hm in Hm'. injection Hm' as <-.
  pose proof (proj1 (reports_ascending m Hwf)) as Hasc. fold (keys (resources m)) in Hasc.
  split; [exact Hleg|]. split; [exact Hasc|]. split.
  - apply NoDup_Permutation; [exact (ascending_NoDup _ _ Hasc)| |exact Hrep].
    apply (NoDup_map_inv p_id). unfold placed. rewrite place_all_ids. apply (bi_ids _ Hb).
  - intros Hp. exact (ascending_unique _ _ _ _ Hasc Hp Hrep).
Qed.

(* insertion order = address order when no register has an explicit offset *)
Theorem implicit_insertion_order b m : binv b -> snd (as_memory_map b) = Ok m ->
  (forall r, In r (bd_regs b) -> b_off r = None) -> resources m = placed b.
Proof.
  intros Hb Hm Hall. apply (resources_of_map b m Hb Hm). apply implicit_ascending. exact Hall.
Qed.
