(* C16, element level: all-traces facts about the GPIO core (pins, fields, synchroniser), no bus involved. *)
From Coq Require Import ZArith List Bool Lia ZifyBool Arith.
From Soc Require Import Lib.Bits Lib.Res Model.Mux Model.MuxSpec Model.Gpio Model.GpioSpec.
From Soc Require Model.Actions.
Import ListNotations.
Open Scope Z_scope.

(* ------------------------------------------------------------------ lists *)

Lemma last_firstn_S {A} (d : A) : forall m l, (m < length l)%nat -> last (firstn (S m) l) d = nth m l d.
Proof.
  induction m as [|m IH]; intros [|x l] H; simpl in H; try lia.
  - destruct l; reflexivity.
  - destruct l as [|y l]; simpl in H; [lia|].
    change (last (firstn (S (S m)) (x :: y :: l)) d) with (last (firstn (S m) (y :: l)) d).
    change (nth (S m) (x :: y :: l) d) with (nth m (y :: l) d).
    apply IH. simpl. lia.
Qed.

Lemma fold_left_app_one {A B} (f : A -> B -> A) l x a : fold_left f (l ++ [x]) a = f (fold_left f l a) x.
Proof. rewrite fold_left_app. reflexivity. Qed.

(* ------------------------------------------------------------------ the synchroniser chain *)

(* the flops after the levels h (oldest first) have been clocked in from reset: newest level first, padded
   with the reset value, cut to the number of stages *)
Definition chain (stages : nat) (h : list bool) : list bool := firstn stages (rev h ++ repeat false stages).

Lemma chain_length stages h : length (chain stages h) = stages.
Proof. unfold chain. apply firstn_length_le. rewrite app_length, repeat_length. lia. Qed.

Lemma chain_nil stages : chain stages [] = repeat false stages.
Proof. unfold chain. simpl. rewrite <- (repeat_length false stages) at 1. apply firstn_all. Qed.

Lemma sync_next_chain stages h i : sync_next (chain stages h) i = chain stages (h ++ [i]).
Proof.
  destruct stages as [|n]; [reflexivity|].
  unfold chain. rewrite rev_unit.
  set (L := rev h ++ repeat false (S n)).
  assert (HL : (n < length L)%nat) by (unfold L; rewrite app_length, repeat_length; lia).
  destruct (firstn (S n) L) as [|b l] eqn:E.
  - apply (f_equal (@length bool)) in E. rewrite firstn_length_le in E by lia. discriminate.
  - unfold sync_next. rewrite <- E. rewrite removelast_firstn by exact HL. reflexivity.
Qed.

Lemma sync_out_chain stages h i :
  sync_out (chain stages h) i =
  match stages with
  | O => i
  | S _ => if (stages <=? length h)%nat then nth (length h - stages) h false else false
  end.
Proof.
  destruct stages as [|m]; [reflexivity|].
  unfold sync_out, chain.
  rewrite last_firstn_S by (rewrite app_length, repeat_length; lia).
  destruct (Nat.leb_spec (S m) (length h)) as [Hle|Hgt].
  - rewrite app_nth1 by (rewrite rev_length; lia).
    rewrite rev_nth by lia. apply nth_indep. lia.
  - rewrite app_nth2 by (rewrite rev_length; lia).
    rewrite (nth_indep _ i false) by (rewrite repeat_length, rev_length; lia).
    apply nth_repeat.
Qed.

(* ------------------------------------------------------------------ one pin over a trace *)

Definition pin_after (ps : pin_st) (pis : list pin_in) : pin_st := fold_left pin_next pis ps.

Lemma mode_next_eq s w d : mode_next s w d = if w then trunc 2 d else s.
Proof. reflexivity. Qed.

Lemma trunc2_range d : 0 <= trunc 2 d < 4.
Proof. change 4 with (2 ^ 2). apply trunc_range. lia. Qed.

Lemma pin_after_ffs stages : forall pis ps h, ps_ffs ps = chain stages h ->
  ps_ffs (pin_after ps pis) = chain stages (h ++ map pi_i pis).
Proof.
  induction pis as [|pi pis IH]; intros ps h H; simpl.
  - rewrite app_nil_r. exact H.
  - rewrite (IH (pin_next ps pi) (h ++ [pi_i pi])).
    + rewrite <- app_assoc. reflexivity.
    + simpl. rewrite H. apply sync_next_chain.
Qed.

Lemma pin_after_init_ffs stages pis : ps_ffs (pin_after (pin_init stages) pis) = chain stages (map pi_i pis).
Proof. apply (pin_after_ffs stages pis (pin_init stages) []). simpl. symmetry. apply chain_nil. Qed.

Lemma pin_after_mode_range : forall pis ps, 0 <= ps_mode ps < 4 -> 0 <= ps_mode (pin_after ps pis) < 4.
Proof.
  induction pis as [|pi pis IH]; intros ps H; simpl; [exact H|].
  apply IH. simpl. rewrite mode_next_eq. destruct (pi_mode_wstb pi); [apply trunc2_range|exact H].
Qed.

(* ------------------------------------------------------------------ the core is n independent pins *)

Lemma core_next_from_nth : forall s k e j,
  nth_error (core_next_from k s e) j = option_map (fun ps => pin_next ps (pin_slice e (k + j))) (nth_error s j).
Proof.
  induction s as [|ps s IH]; intros k e j; simpl.
  - destruct j; reflexivity.
  - destruct j as [|j]; simpl.
    + rewrite Nat.add_0_r. reflexivity.
    + rewrite IH. replace (S k + j)%nat with (k + S j)%nat by lia. reflexivity.
Qed.

Lemma core_next_nth s e j :
  nth_error (core_next s e) j = option_map (fun ps => pin_next ps (pin_slice e j)) (nth_error s j).
Proof. unfold core_next. rewrite core_next_from_nth. reflexivity. Qed.

Lemma core_next_from_length : forall s k e, length (core_next_from k s e) = length s.
Proof. induction s as [|ps s IH]; intros; simpl; [reflexivity|]. rewrite IH. reflexivity. Qed.

Lemma core_after_length : forall es s, length (core_after s es) = length s.
Proof.
  induction es as [|e es IH]; intros s; simpl; [reflexivity|].
  rewrite IH. apply core_next_from_length.
Qed.

Lemma core_after_app : forall es s e, core_after s (es ++ [e]) = core_next (core_after s es) e.
Proof. induction es as [|x es IH]; intros s e; simpl; [reflexivity|apply IH]. Qed.

(* pin j of the core after a trace = that pin alone run over its own slices of the trace *)
Lemma core_after_nth : forall es s j,
  nth_error (core_after s es) j =
  option_map (fun ps => pin_after ps (map (fun e => pin_slice e j) es)) (nth_error s j).
Proof.
  induction es as [|e es IH]; intros s j; simpl.
  - destruct (nth_error s j); reflexivity.
  - rewrite IH, core_next_nth. destruct (nth_error s j); reflexivity.
Qed.

Lemma core_init_nth n stages j : (j < n)%nat -> nth_error (core_init n stages) j = Some (pin_init stages).
Proof.
  intros H. unfold core_init.
  rewrite (nth_error_nth' _ (pin_init stages)) by (rewrite repeat_length; exact H).
  rewrite nth_repeat. reflexivity.
Qed.

Lemma core_reach_nth n stages es j : (j < n)%nat ->
  nth_error (core_after (core_init n stages) es) j =
  Some (pin_after (pin_init stages) (map (fun e => pin_slice e j) es)).
Proof. intros H. rewrite core_after_nth, core_init_nth by exact H. reflexivity. Qed.

(* ------------------------------------------------------------------ theorems, element level *)

(* reachable modes are 2-bit values *)
Lemma core_mode_range n stages es j ps :
  nth_error (core_after (core_init n stages) es) j = Some ps -> 0 <= ps_mode ps < 4.
Proof.
  intros H. assert (Hj : (j < n)%nat).
  { assert (Hl : (j < length (core_after (core_init n stages) es))%nat) by (apply nth_error_Some; congruence).
    rewrite core_after_length in Hl. unfold core_init in Hl. rewrite repeat_length in Hl. exact Hl. }
  rewrite core_reach_nth in H by exact Hj. injection H as <-.
  apply pin_after_mode_range. cbn. lia.
Qed.

Lemma pin_outputs_documented mode data : 0 <= mode < 4 -> pin_outputs mode data = documented mode data.
Proof.
  intros H. assert (E : mode = 0 \/ mode = 1 \/ mode = 2 \/ mode = 3) by lia.
  destruct E as [-> | [-> | [-> | ->]]]; reflexivity.
Qed.

Lemma alt_iff mode data : 0 <= mode < 4 -> (po_alt (documented mode data) = true <-> mode = 3).
Proof.
  intros H. assert (E : mode = 0 \/ mode = 1 \/ mode = 2 \/ mode = 3) by lia.
  destruct E as [-> | [-> | [-> | ->]]]; simpl; split; intros; try discriminate; try reflexivity; try lia.
Qed.

Lemma core_out_nth s j : nth_error (core_out s) j =
  option_map (fun ps => pin_outputs (ps_mode ps) (ps_out ps)) (nth_error s j).
Proof. unfold core_out. apply nth_error_map. Qed.

Theorem mode_table n stages es j ps :
  nth_error (core_after (core_init n stages) es) j = Some ps ->
  0 <= ps_mode ps < 4 /\
  nth_error (core_out (core_after (core_init n stages) es)) j = Some (documented (ps_mode ps) (ps_out ps)).
Proof.
  intros H. pose proof (core_mode_range _ _ _ _ _ H) as Hr. split; [exact Hr|].
  rewrite core_out_nth, H. simpl. rewrite pin_outputs_documented by exact Hr. reflexivity.
Qed.

(* input delay: what pin j's Input field presents in the cycle after the trace es, when the pin level in that
   cycle is `now`: the level `stages` cycles ago, the reset value 0 during the first `stages` cycles *)
Theorem input_delay n stages es e j ps : (j < n)%nat ->
  nth_error (core_after (core_init n stages) es) j = Some ps ->
  pin_input ps (Z.testbit (e_pins e) (Z.of_nat j)) =
  if (stages <=? length es)%nat then level (es ++ [e]) j (length es - stages) else false.
Proof.
  intros Hj H. rewrite core_reach_nth in H by exact Hj. injection H as <-.
  unfold pin_input. rewrite pin_after_init_ffs, sync_out_chain. rewrite !map_length.
  unfold level.
  destruct stages as [|m].
  - simpl. rewrite Nat.sub_0_r. rewrite nth_error_app2 by lia. rewrite Nat.sub_diag. reflexivity.
  - destruct (Nat.leb_spec (S m) (length es)) as [Hle|Hgt]; [|reflexivity].
    rewrite nth_error_app1 by lia.
    rewrite map_map.
    destruct (nth_error es (length es - S m)) as [e'|] eqn:E.
    + rewrite (nth_error_nth _ _ false (map_nth_error _ _ _ E)). reflexivity.
    + apply nth_error_None in E. lia.
Qed.

(* one step of the Output field of pin j: the set/clear code decides, and beats a simultaneous Output write *)
Lemma two_bits b0 b1 n : 0 <= n ->
  Z.testbit (Z.b2z b0 + 2 * Z.b2z b1) n = if n =? 0 then b0 else if n =? 1 then b1 else false.
Proof.
  intros Hn. replace (Z.b2z b0 + 2 * Z.b2z b1) with (2 * Z.b2z b1 + Z.b2z b0) by ring.
  destruct (Z.eqb_spec n 0) as [->|H0]; [apply Z.testbit_0_r|].
  replace n with (Z.succ (n - 1)) at 1 by lia. rewrite Z.testbit_succ_r by lia.
  destruct (Z.eqb_spec n 1) as [->|H1].
  - destruct b1; reflexivity.
  - destruct b1; simpl Z.b2z.
    + change 1 with (2 ^ 0). apply Z.pow2_bits_false. lia.
    + apply Z.testbit_0_l.
Qed.

Lemma slice2_bits k z : 0 <= k ->
  slice (2 * k) 2 z = Z.b2z (Z.testbit z (2 * k)) + 2 * Z.b2z (Z.testbit z (2 * k + 1)).
Proof.
  intros Hk. apply Z.bits_inj'. intros n Hn.
  rewrite slice_testbit by lia. rewrite two_bits by lia.
  destruct (Z.eqb_spec n 0) as [->|H0].
  - rewrite Z.add_0_r. reflexivity.
  - destruct (Z.eqb_spec n 1) as [->|H1]; [reflexivity|].
    replace (n <? 2) with false by lia. reflexivity.
Qed.

Theorem setclr_code s e j ps : nth_error s j = Some ps ->
  exists ps', nth_error (core_next s e) j = Some ps' /\
  ps_out ps' =
    if e_sc_wstb e && (sc_code e j =? 1) then true                               (* 01 sets *)
    else if e_sc_wstb e && (sc_code e j =? 2) then false                         (* 10 clears *)
    else if e_out_wstb e then Z.testbit (e_out_wdata e) (Z.of_nat j)             (* 00 / 11: a write, if any *)
    else ps_out ps.                                                              (* else unchanged *)
Proof.
  intros H. rewrite core_next_nth, H. cbn [option_map]. eexists; split; [reflexivity|].
  unfold pin_next, pin_slice, outbit_next, out_set, out_clr, sc_code.
  cbn [ps_out pi_set_wstb pi_set_wdata pi_clr_wstb pi_clr_wdata pi_out_wstb pi_out_wdata].
  rewrite slice2_bits by lia.
  set (b0 := Z.testbit (e_sc_wdata e) (2 * Z.of_nat j)).
  set (b1 := Z.testbit (e_sc_wdata e) (2 * Z.of_nat j + 1)).
  destruct (e_sc_wstb e), b0, b1; reflexivity.
Qed.

(* one step of the Mode field of pin j *)
Theorem mode_step s e j ps : nth_error s j = Some ps ->
  exists ps', nth_error (core_next s e) j = Some ps' /\
  ps_mode ps' = if e_mode_wstb e then slice (2 * Z.of_nat j) 2 (e_mode_wdata e) else ps_mode ps.
Proof.
  intros H. rewrite core_next_nth, H. cbn [option_map]. eexists; split; [reflexivity|].
  unfold pin_next, pin_slice. cbn [ps_mode pi_mode_wstb pi_mode_wdata]. rewrite mode_next_eq. destruct (e_mode_wstb e); [|reflexivity].
  apply trunc_small. change (2 ^ 2) with 4. pose proof (slice_range (2 * Z.of_nat j) 2 (e_mode_wdata e)).
  change (2 ^ 2) with 4 in H0. lia.
Qed.

(* independence: two element-level traces that agree on pin j's slices (its pin level and its own bits of
   the three write data words, with the shared strobes) drive pin j through the same states, whatever
   they do to the other pins; so its outputs and its Input/Mode/Output fields agree as well *)
Theorem pins_independent s1 s2 es1 es2 j :
  nth_error s1 j = nth_error s2 j -> agree_on j es1 es2 ->
  nth_error (core_after s1 es1) j = nth_error (core_after s2 es2) j /\
  nth_error (core_out (core_after s1 es1)) j = nth_error (core_out (core_after s2 es2)) j.
Proof.
  intros H0 Ha. assert (E : nth_error (core_after s1 es1) j = nth_error (core_after s2 es2) j).
  { rewrite !core_after_nth, H0. unfold agree_on in Ha. rewrite Ha. reflexivity. }
  split; [exact E|]. rewrite !core_out_nth, E. reflexivity.
Qed.

(* a one-step form: pin j's next state is a function of its own state and its own slice *)
Theorem pin_next_local s e j :
  nth_error (core_next s e) j = option_map (fun ps => pin_next ps (pin_slice e j)) (nth_error s j).
Proof. apply core_next_nth. Qed.

(* ------------------------------------------------------------------ the Output register on its own *)

Lemma oreg_next_from_nth : forall s k i j,
  nth_error (oreg_next_from k s i) j =
  option_map (fun b => outbit_next b (Z.testbit (q_set i) (Z.of_nat (k + j))) (Z.testbit (q_clr i) (Z.of_nat (k + j)))
                                   (q_wstb i) (Z.testbit (q_wdata i) (Z.of_nat (k + j))))
             (nth_error s j).
Proof.
  induction s as [|b s IH]; intros k i j; simpl.
  - destruct j; reflexivity.
  - destruct j as [|j]; simpl.
    + rewrite Nat.add_0_r. reflexivity.
    + rewrite IH. replace (S k + j)%nat with (k + S j)%nat by lia. reflexivity.
Qed.

(* Output field j with free set / clr inputs: exactly one of set, clr decides and beats a register write in the
   same cycle; neither or both leave the bit to the write, if any; each field looks at its own bits only *)
Theorem output_field_priority s i j b : nth_error s j = Some b ->
  nth_error (oreg_next s i) j =
  Some (let st := Z.testbit (q_set i) (Z.of_nat j) in
        let cl := Z.testbit (q_clr i) (Z.of_nat j) in
        if st && negb cl then true
        else if cl && negb st then false
        else if q_wstb i then Z.testbit (q_wdata i) (Z.of_nat j)
        else b).
Proof.
  intros H. unfold oreg_next. rewrite oreg_next_from_nth, H. cbn [option_map Nat.add]. f_equal.
  unfold outbit_next. cbv zeta.
  destruct (Z.testbit (q_set i) (Z.of_nat j)), (Z.testbit (q_clr i) (Z.of_nat j)); reflexivity.
Qed.

(* inside the peripheral the very same function steps pin j's output bit *)
Lemma pin_next_out ps pi :
  ps_out (pin_next ps pi) = outbit_next (ps_out ps) (out_set pi) (out_clr pi) (pi_out_wstb pi) (pi_out_wdata pi).
Proof. reflexivity. Qed.
