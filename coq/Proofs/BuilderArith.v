(* Arithmetic behind the CSR-builder layout (C17): ceil_log2, power-of-two spans, first multiple at or
   after the cursor, exactness of offset x granularity / data_width. *)
From Coq Require Import ZArith List Bool Lia ZifyBool.
From Soc Require Import Lib.Res Lib.Bits Lib.PyList Model.MemoryMap Model.MemSpec Model.Builder
                        Model.BuilderSpec Proofs.MemArith.
Import ListNotations.
Open Scope Z_scope.

Lemma ceil_log2_nonneg n : 0 <= ceil_log2 n.
Proof. unfold ceil_log2. destruct (n <=? 1); [lia|apply Z.log2_up_nonneg]. Qed.

Lemma ceil_log2_ge n : 1 <= n -> n <= 2 ^ ceil_log2 n.
Proof.
  intros H. unfold ceil_log2. destruct (Z.leb_spec n 1).
  - change (2 ^ 0) with 1. lia.
  - apply (Z.log2_up_spec n). lia.
Qed.

Lemma ceil_log2_tight n : 1 < n -> 2 ^ (ceil_log2 n - 1) < n.
Proof.
  intros H. unfold ceil_log2. destruct (Z.leb_spec n 1); [lia|].
  replace (Z.log2_up n - 1) with (Z.pred (Z.log2_up n)) by lia. apply (Z.log2_up_spec n). lia.
Qed.

Lemma ceil_log2_max1 n : 0 <= n -> ceil_log2 (Z.max n 1) = ceil_log2 n.
Proof.
  intros H. destruct (Z.eq_dec n 0) as [->|Hn]; [reflexivity|].
  rewrite Z.max_l by lia. reflexivity.
Qed.

Lemma multiple_pos_ge k r : 0 < k -> 0 < r -> r mod k = 0 -> k <= r.
Proof.
  intros Hk Hr Hm. pose proof (Z.div_mod r k ltac:(lia)) as Hd. rewrite Hm in Hd.
  assert (1 <= r / k) by nia. nia.
Qed.

Lemma least_multiple_unique k v r1 r2 :
  least_multiple_ge k v r1 -> least_multiple_ge k v r2 -> r1 = r2.
Proof.
  intros (Hm1 & Hg1 & Hl1) (Hm2 & Hg2 & Hl2).
  pose proof (Hl1 r2 Hm2 Hg2). pose proof (Hl2 r1 Hm1 Hg1). lia.
Qed.

(* rounding max(n,1) up to a multiple of 2^ceil_log2 n gives the power of two itself *)
Lemma align_up_span n : 0 <= n -> align_up (Z.max n 1) (ceil_log2 n) = 2 ^ ceil_log2 (Z.max n 1).
Proof.
  intros Hn. rewrite ceil_log2_max1 by exact Hn.
  pose proof (ceil_log2_nonneg n) as Hc.
  assert (Hv : Z.max n 1 <= 2 ^ ceil_log2 n).
  { rewrite <- (ceil_log2_max1 n Hn). apply ceil_log2_ge. lia. }
  pose proof (pow2_pos _ Hc) as Hk.
  destruct (align_up_spec (Z.max n 1) (ceil_log2 n) Hc) as (Hm & Hg & Hl).
  assert (Hle : align_up (Z.max n 1) (ceil_log2 n) <= 2 ^ ceil_log2 n).
  { apply Hl; [apply Z.mod_same; lia|exact Hv]. }
  assert (Hpos : 0 < align_up (Z.max n 1) (ceil_log2 n)) by lia.
  pose proof (multiple_pos_ge _ _ Hk Hpos Hm). lia.
Qed.

Lemma next_multiple_spec k v : 0 < k -> least_multiple_ge k v (next_multiple k v).
Proof.
  intros Hk. unfold next_multiple, least_multiple_ge.
  pose proof (Z.div_mod (v + k - 1) k ltac:(lia)) as Hd.
  pose proof (Z.mod_pos_bound (v + k - 1) k Hk) as Hb.
  split; [rewrite Z.mul_comm; apply Z.mod_mul; lia|]. split; [lia|].
  intros r' Hm Hge. pose proof (Z.div_mod r' k ltac:(lia)) as Hd'. rewrite Hm in Hd'.
  assert ((v + k - 1) / k < r' / k + 1) by (apply Z.div_lt_upper_bound; nia).
  nia.
Qed.

Lemma align_up_next_multiple v a : 0 <= a -> align_up v a = next_multiple (2 ^ a) v.
Proof.
  intros Ha. apply (least_multiple_unique (2 ^ a) v).
  - apply align_up_spec, Ha.
  - apply next_multiple_spec, pow2_pos, Ha.
Qed.

(* units = ceil(width / data_width) *)
Lemma units_ceil dw w : 0 < dw -> 0 <= w ->
  let u := (w + dw - 1) / dw in 0 <= u /\ w <= u * dw /\ u * dw < w + dw.
Proof.
  intros Hd Hw u. subst u.
  pose proof (Z.div_mod (w + dw - 1) dw ltac:(lia)) as Hdm.
  pose proof (Z.mod_pos_bound (w + dw - 1) dw Hd) as Hb.
  assert (0 <= (w + dw - 1) / dw) by (apply Z.div_pos; lia).
  nia.
Qed.

(* an accepted explicit offset is a whole number of bus words: address x data_width = offset x granularity *)
Lemma offset_exact dw g o : 0 < g -> 0 < dw -> dw = (dw / g) * g -> 0 <= o -> o mod (dw / g) = 0 ->
  (o * g / dw) * dw = o * g /\ 0 <= o * g / dw /\ o * g / dw = o / (dw / g).
Proof.
  intros Hg Hd Hdiv Ho Hm.
  set (ratio := dw / g) in *.
  assert (Hr : 0 < ratio) by nia.
  pose proof (Z.div_mod o ratio ltac:(lia)) as Hdm. rewrite Hm in Hdm.
  set (t := o / ratio) in *.
  assert (Hog : o * g = t * dw) by nia.
  assert (Ht : 0 <= t) by nia.
  rewrite Hog, Z.div_mul by lia. auto.
Qed.
