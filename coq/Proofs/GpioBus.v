(* C16, peripheral level: the element-level facts of Proofs/Gpio.v hold inside the peripheral for EVERY bus
   trace, and protocol-following bus transactions reach the pins' fields through the multiplexer
   (C04 read_atomic / C05 write_atomic), including multi-chunk Mode / SetClr registers. *)
From Coq Require Import ZArith List Bool Lia ZifyBool Arith.
From Soc Require Import Lib.Bits Lib.Res.
From Soc Require Import Model.Mux Model.MuxSpec Proofs.ShadowHash Proofs.MuxBasic Proofs.MuxRead Proofs.MuxWrite.
From Soc Require Import Proofs.GpioCtor Proofs.Gpio Model.Gpio Model.GpioSpec.
Import ListNotations.
Open Scope Z_scope.

(* ------------------------------------------------------------------ the two inner traces *)

Lemma state_after_app c : forall bs s b, state_after c s (bs ++ [b]) = next c (state_after c s bs) b.
Proof. induction bs as [|x bs IH]; intros s b; simpl; [reflexivity|apply IH]. Qed.

Lemma mux_state c : forall bs s,
  s_mux (state_after c s bs) = Mux.state_after (g_mux c) (s_mux s) (mux_trace c s bs).
Proof. induction bs as [|b bs IH]; intros s; simpl; [reflexivity|]. rewrite IH. reflexivity. Qed.

Lemma core_state c : forall bs s,
  s_core (state_after c s bs) = core_after (s_core s) (elem_trace c s bs).
Proof. induction bs as [|b bs IH]; intros s; simpl; [reflexivity|]. rewrite IH. reflexivity. Qed.

Lemma mux_trace_firstn c : forall t bs s, firstn t (mux_trace c s bs) = mux_trace c s (firstn t bs).
Proof.
  induction t as [|t IH]; intros bs s; [reflexivity|].
  destruct bs as [|b bs]; [reflexivity|]. simpl. rewrite IH. reflexivity.
Qed.

Lemma mux_trace_nth c : forall bs s t,
  nth_error (mux_trace c s bs) t =
  option_map (fun b => mux_in (state_after c s (firstn t bs)) b) (nth_error bs t).
Proof.
  induction bs as [|b bs IH]; intros s t.
  - destruct t; reflexivity.
  - destruct t as [|t]; [reflexivity|]. simpl. apply IH.
Qed.

Lemma elem_trace_nth c : forall bs s t,
  nth_error (elem_trace c s bs) t =
  option_map (fun b => elem_of c (state_after c s (firstn t bs)) b) (nth_error bs t).
Proof.
  induction bs as [|b bs IH]; intros s t.
  - destruct t; reflexivity.
  - destruct t as [|t]; [reflexivity|]. simpl. apply IH.
Qed.

Lemma elem_trace_length c : forall bs s, length (elem_trace c s bs) = length bs.
Proof. induction bs as [|b bs IH]; intros s; simpl; [reflexivity|]. rewrite IH. reflexivity. Qed.

Lemma elem_trace_app c : forall bs s b,
  elem_trace c s (bs ++ [b]) = elem_trace c s bs ++ [elem_of c (state_after c s bs) b].
Proof. induction bs as [|x bs IH]; intros s b; simpl; [reflexivity|]. rewrite IH. reflexivity. Qed.

Lemma at_time_S c bs t b : nth_error bs t = Some b -> at_time c bs (S t) = next c (at_time c bs t) b.
Proof. intros H. unfold at_time. rewrite (firstn_S_nth _ _ _ H). apply state_after_app. Qed.

Lemma st_at_mux c bs t :
  st_at (g_mux c) (mux_trace c (init c) bs) t = s_mux (at_time c bs t).
Proof. unfold st_at, at_time. rewrite mux_trace_firstn, mux_state. reflexivity. Qed.

(* ------------------------------------------------------------------ all bus traces: mode table *)

Theorem periph_mode_table c bs b j ps :
  nth_error (s_core (state_after c (init c) bs)) j = Some ps ->
  0 <= ps_mode ps < 4 /\
  nth_error (o_pins (out c (state_after c (init c) bs) b)) j = Some (documented (ps_mode ps) (ps_out ps)).
Proof.
  rewrite core_state. cbn [init s_core out o_pins]. rewrite core_state. cbn [init s_core].
  apply mode_table.
Qed.

Lemma periph_pins_length c bs b : length (o_pins (out c (state_after c (init c) bs) b)) = g_pins c.
Proof.
  cbn [out o_pins]. unfold core_out. rewrite map_length, core_state, core_after_length.
  cbn [init s_core]. unfold core_init. apply repeat_length.
Qed.

(* ------------------------------------------------------------------ all bus traces: input delay *)

Lemma level_elem_trace c bs j t : level (elem_trace c (init c) bs) j t = blevel bs j t.
Proof. unfold level, blevel. rewrite elem_trace_nth. destruct (nth_error bs t); reflexivity. Qed.

Lemma input_bits_from_nth : forall s k pins j,
  nth_error (input_bits_from k s pins) j =
  option_map (fun ps => pin_input ps (Z.testbit pins (Z.of_nat (k + j)))) (nth_error s j).
Proof.
  induction s as [|ps s IH]; intros k pins j; simpl.
  - destruct j; reflexivity.
  - destruct j as [|j]; simpl.
    + rewrite Nat.add_0_r. reflexivity.
    + rewrite IH. replace (S k + j)%nat with (k + S j)%nat by lia. reflexivity.
Qed.

Lemma pack1_testbit : forall l j, Z.testbit (pack 1 (map Z.b2z l)) (Z.of_nat j) = nth j l false.
Proof.
  induction l as [|b l IH]; intros j; cbn [pack map].
  - destruct j; apply Z.testbit_0_l.
  - assert (Et : trunc 1 (Z.b2z b) = Z.b2z b) by (destruct b; reflexivity).
    rewrite Et. change (2 ^ 1) with 2. rewrite Z.add_comm.
    destruct j as [|j].
    + apply Z.testbit_0_r.
    + rewrite Nat2Z.inj_succ. rewrite Z.testbit_succ_r by lia. apply IH.
Qed.

(* bit j of the Input register's value = pin j's Input field *)
Lemma input_val_bit s pins j ps : nth_error s j = Some ps ->
  Z.testbit (input_val s pins) (Z.of_nat j) = pin_input ps (Z.testbit pins (Z.of_nat j)).
Proof.
  intros H. unfold input_val. rewrite pack1_testbit.
  apply nth_error_nth. rewrite input_bits_from_nth, H. reflexivity.
Qed.

Theorem periph_input_delay c bs b j : (j < g_pins c)%nat ->
  Z.testbit (input_val (s_core (state_after c (init c) bs)) (b_pins b)) (Z.of_nat j) =
  if (g_stages c <=? length bs)%nat then blevel (bs ++ [b]) j (length bs - g_stages c) else false.
Proof.
  intros Hj. rewrite core_state. cbn [init s_core].
  set (es := elem_trace c (init c) bs).
  destruct (nth_error (core_after (core_init (g_pins c) (g_stages c)) es) j) as [ps|] eqn:E.
  2:{ apply nth_error_None in E. rewrite core_after_length in E. unfold core_init in E.
      rewrite repeat_length in E. lia. }
  rewrite (input_val_bit _ _ _ _ E).
  pose proof (input_delay (g_pins c) (g_stages c) es (elem_of c (state_after c (init c) bs) b) j ps Hj E) as H.
  cbn [elem_of e_pins] in H. rewrite H. unfold es. rewrite elem_trace_length.
  rewrite <- elem_trace_app. rewrite level_elem_trace. reflexivity.
Qed.

(* ------------------------------------------------------------------ accepted configurations *)

Lemma ctor_accepted p c : ctor p = Ok c -> exists r0 r1 r2 r3, accepted c (zof (p_pins p)) r0 r1 r2 r3.
Proof.
  intros H. destruct (ctor_ok p c H) as (Ht & _ & _ & Hwf & Hregs & _ & Hp & _).
  destruct (layout_of_four p) as (r0 & r1 & r2 & r3 & El & W0 & R0 & Wr0 & W1 & R1 & Wr1 & W2 & R2 & Wr2 & W3 & R3 & Wr3).
  exists r0, r1, r2, r3.
  assert (Hn : 0 < zof (p_pins p)).
  { unfold types_ok in Ht. destruct (p_pins p); cbn in *; try discriminate. lia. }
  pose proof (layout_of_wf p Ht) as Hl. rewrite El in Hl. unfold wf_layout in Hl. cbn [layout_from] in Hl.
  constructor; auto; try congruence. lia.
Qed.

(* ------------------------------------------------------------------ writes through the bus *)

Lemma write_delivers c bs k r t tj dj : wf_cfg (g_mux c) ->
  nth_error (c_regs (g_mux c)) k = Some r -> r_wr r = true ->
  write_completes c bs k r t tj dj ->
  forall b', let mo := Mux.out (g_mux c) (s_mux (at_time c bs (S t))) (mux_in (at_time c bs (S t)) b') in
    nth_error (o_wstb mo) k = Some true /\
    nth_error (o_wdata mo) k = Some (written c r dj) /\
    (forall k' r', nth_error (c_regs (g_mux c)) k' = Some r' -> r_stop r' <> r_stop r ->
                   nth_error (o_wstb mo) k' = Some false).
Proof.
  intros Hwf Hk Hwr ((bt & Hbt & Hws & Ha) & Hlatest & Hother) b'. cbv zeta.
  set (is := mux_trace c (init c) bs).
  assert (Hit : nth_error is t = Some (mux_in (at_time c bs t) bt)).
  { unfold is. rewrite mux_trace_nth, Hbt. reflexivity. }
  rewrite (at_time_S c bs t bt Hbt). cbn [next s_mux].
  split; [|split].
  - rewrite (w_strobe_next _ _ _ _ k r Hk). cbn [mux_in i_wstb i_addr]. rewrite Hwr, Hws, Ha, Z.eqb_refl. reflexivity.
  - rewrite (o_wdata_nth _ _ _ k r Hk Hwr). f_equal.
    change (Mux.next (g_mux c) (s_mux (at_time c bs t)) (mux_in (at_time c bs t) bt))
      with (s_mux (next c (at_time c bs t) bt)).
    rewrite <- (at_time_S c bs t bt Hbt). rewrite <- st_at_mux. fold is.
    apply (write_atomic (g_mux c) is t k r _ tj dj Hwf Hk Hwr Hit); [exact Hws|exact Ha| |].
    + intros j Hj Hjw. destruct (Hlatest j Hj Hjw) as (Hle & (b & Hb & Hbw & Hba & Hbd) & Hno).
      split; [exact Hle|]. split.
      * exists (mux_in (at_time c bs (tj j)) b). unfold is. rewrite mux_trace_nth, Hb. cbn. auto.
      * intros u i Hu Hi. unfold is in Hi. rewrite mux_trace_nth in Hi.
        destruct (nth_error bs u) as [bu|] eqn:Eu; [|discriminate]. cbn in Hi. injection Hi as <-.
        cbn. apply (Hno u bu Hu Eu).
    + intros j u Hj Hjw Hu (i & k' & r' & Hi & Hk' & Hne & Hwr' & Hiw & Hia).
      apply (Hother j u Hj Hjw Hu). unfold is in Hi. rewrite mux_trace_nth in Hi.
      destruct (nth_error bs u) as [bu|] eqn:Eu; [|discriminate]. cbn in Hi. injection Hi as <-.
      exists bu, k', r'. cbn in Hiw, Hia. repeat split; auto; lia.
  - intros k' r' Hk' Hne. rewrite (w_strobe_next _ _ _ _ k' r' Hk'). cbn [mux_in i_wstb i_addr].
    rewrite Ha. replace (r_stop r - 1 =? r_stop r' - 1) with false by lia.
    rewrite andb_false_r. reflexivity.
Qed.

(* element-level view one cycle after a completed write of Mode / Output / SetClr *)
Lemma elem_after_mode c n r0 r1 r2 r3 bs t tj dj b' : accepted c n r0 r1 r2 r3 ->
  write_completes c bs 0 r0 t tj dj ->
  let e := elem_of c (at_time c bs (S t)) b' in
  e_mode_wstb e = true /\ e_mode_wdata e = written c r0 dj /\ e_out_wstb e = false /\ e_sc_wstb e = false.
Proof.
  intros A Hw. pose proof (a_order _ _ _ _ _ _ A) as Ho.
  assert (Hk : nth_error (c_regs (g_mux c)) 0 = Some r0) by (rewrite (a_regs _ _ _ _ _ _ A); reflexivity).
  destruct (write_delivers c bs 0 r0 t tj dj (a_wf _ _ _ _ _ _ A) Hk (a_wr0 _ _ _ _ _ _ A) Hw b') as (H1 & H2 & H3).
  cbv zeta. unfold elem_of. cbn [e_mode_wstb e_mode_wdata e_out_wstb e_sc_wstb].
  rewrite (nth_error_nth _ _ _ H1), (nth_error_nth _ _ _ H2).
  rewrite (nth_error_nth _ _ false (H3 2%nat r2 ltac:(rewrite (a_regs _ _ _ _ _ _ A); reflexivity) ltac:(lia))).
  rewrite (nth_error_nth _ _ false (H3 3%nat r3 ltac:(rewrite (a_regs _ _ _ _ _ _ A); reflexivity) ltac:(lia))).
  auto.
Qed.

Lemma elem_after_output c n r0 r1 r2 r3 bs t tj dj b' : accepted c n r0 r1 r2 r3 ->
  write_completes c bs 2 r2 t tj dj ->
  let e := elem_of c (at_time c bs (S t)) b' in
  e_out_wstb e = true /\ e_out_wdata e = written c r2 dj /\ e_mode_wstb e = false /\ e_sc_wstb e = false.
Proof.
  intros A Hw. pose proof (a_order _ _ _ _ _ _ A) as Ho.
  assert (Hk : nth_error (c_regs (g_mux c)) 2 = Some r2) by (rewrite (a_regs _ _ _ _ _ _ A); reflexivity).
  destruct (write_delivers c bs 2 r2 t tj dj (a_wf _ _ _ _ _ _ A) Hk (a_wr2 _ _ _ _ _ _ A) Hw b') as (H1 & H2 & H3).
  cbv zeta. unfold elem_of. cbn [e_mode_wstb e_out_wdata e_out_wstb e_sc_wstb].
  rewrite (nth_error_nth _ _ _ H1), (nth_error_nth _ _ _ H2).
  rewrite (nth_error_nth _ _ false (H3 0%nat r0 ltac:(rewrite (a_regs _ _ _ _ _ _ A); reflexivity) ltac:(lia))).
  rewrite (nth_error_nth _ _ false (H3 3%nat r3 ltac:(rewrite (a_regs _ _ _ _ _ _ A); reflexivity) ltac:(lia))).
  auto.
Qed.

Lemma elem_after_setclr c n r0 r1 r2 r3 bs t tj dj b' : accepted c n r0 r1 r2 r3 ->
  write_completes c bs 3 r3 t tj dj ->
  let e := elem_of c (at_time c bs (S t)) b' in
  e_sc_wstb e = true /\ e_sc_wdata e = written c r3 dj /\ e_mode_wstb e = false /\ e_out_wstb e = false.
Proof.
  intros A Hw. pose proof (a_order _ _ _ _ _ _ A) as Ho.
  assert (Hk : nth_error (c_regs (g_mux c)) 3 = Some r3) by (rewrite (a_regs _ _ _ _ _ _ A); reflexivity).
  destruct (write_delivers c bs 3 r3 t tj dj (a_wf _ _ _ _ _ _ A) Hk (a_wr3 _ _ _ _ _ _ A) Hw b') as (H1 & H2 & H3).
  cbv zeta. unfold elem_of. cbn [e_mode_wstb e_sc_wdata e_out_wstb e_sc_wstb].
  rewrite (nth_error_nth _ _ _ H1), (nth_error_nth _ _ _ H2).
  rewrite (nth_error_nth _ _ false (H3 0%nat r0 ltac:(rewrite (a_regs _ _ _ _ _ _ A); reflexivity) ltac:(lia))).
  rewrite (nth_error_nth _ _ false (H3 2%nat r2 ltac:(rewrite (a_regs _ _ _ _ _ _ A); reflexivity) ltac:(lia))).
  auto.
Qed.

(* pin j's state two cycles after the completing write = one core step from its state one cycle after *)
Lemma pin_at_S c bs t j b : nth_error bs t = Some b ->
  pin_at c bs (S t) j = option_map (fun ps => pin_next ps (pin_slice (elem_of c (at_time c bs t) b) j)) (pin_at c bs t j).
Proof. intros H. unfold pin_at. rewrite (at_time_S c bs t b H). cbn [next s_core]. apply core_next_nth. Qed.

Lemma pin_at_some c bs t j : (j < g_pins c)%nat -> exists ps, pin_at c bs t j = Some ps.
Proof.
  intros Hj. unfold pin_at, at_time. rewrite core_state. cbn [init s_core].
  destruct (nth_error _ j) as [ps|] eqn:E; [eauto|].
  apply nth_error_None in E. rewrite core_after_length in E. unfold core_init in E. rewrite repeat_length in E. lia.
Qed.

(* Mode: a completed (possibly multi-chunk) write gives every pin the two bits addressed to it *)
Theorem bus_mode_write c n r0 r1 r2 r3 bs t tj dj b1 j : accepted c n r0 r1 r2 r3 ->
  write_completes c bs 0 r0 t tj dj -> nth_error bs (S t) = Some b1 -> (j < g_pins c)%nat ->
  exists ps ps', pin_at c bs (S t) j = Some ps /\ pin_at c bs (S (S t)) j = Some ps' /\
    ps_mode ps' = slice (2 * Z.of_nat j) 2 (written c r0 dj) /\ ps_out ps' = ps_out ps.
Proof.
  intros A Hw Hb1 Hj. destruct (pin_at_some c bs (S t) j Hj) as (ps & Hps).
  destruct (elem_after_mode c n r0 r1 r2 r3 bs t tj dj b1 A Hw) as (E1 & E2 & E3 & E4).
  exists ps. eexists. split; [exact Hps|]. rewrite (pin_at_S c bs (S t) j b1 Hb1), Hps. cbn [option_map].
  split; [reflexivity|].
  unfold pin_next, pin_slice. cbn [ps_mode ps_out pi_mode_wstb pi_mode_wdata pi_out_wstb pi_out_wdata].
  rewrite mode_next_eq, E1, E2. split.
  - apply trunc_small. change (2 ^ 2) with 4.
    pose proof (slice_range (2 * Z.of_nat j) 2 (written c r0 dj)). change (2 ^ 2) with 4 in H. lia.
  - unfold outbit_next, out_set, out_clr. cbn [pi_set_wstb pi_clr_wstb]. rewrite E3, E4. reflexivity.
Qed.

(* Output: a completed write gives every pin its own bit *)
Theorem bus_output_write c n r0 r1 r2 r3 bs t tj dj b1 j : accepted c n r0 r1 r2 r3 ->
  write_completes c bs 2 r2 t tj dj -> nth_error bs (S t) = Some b1 -> (j < g_pins c)%nat ->
  exists ps ps', pin_at c bs (S t) j = Some ps /\ pin_at c bs (S (S t)) j = Some ps' /\
    ps_out ps' = Z.testbit (written c r2 dj) (Z.of_nat j) /\ ps_mode ps' = ps_mode ps.
Proof.
  intros A Hw Hb1 Hj. destruct (pin_at_some c bs (S t) j Hj) as (ps & Hps).
  destruct (elem_after_output c n r0 r1 r2 r3 bs t tj dj b1 A Hw) as (E1 & E2 & E3 & E4).
  exists ps. eexists. split; [exact Hps|]. rewrite (pin_at_S c bs (S t) j b1 Hb1), Hps. cbn [option_map].
  split; [reflexivity|].
  unfold pin_next, pin_slice. cbn [ps_mode ps_out pi_mode_wstb pi_mode_wdata pi_out_wstb pi_out_wdata].
  rewrite mode_next_eq, E3. split; [|reflexivity].
  unfold outbit_next, out_set, out_clr. cbn [pi_set_wstb pi_clr_wstb]. rewrite E1, E2, E4. reflexivity.
Qed.

(* SetClr: a completed (possibly multi-chunk) write sets, clears or leaves every pin's output bit according to
   the pin's own two-bit code, and touches no mode *)
Theorem bus_setclr_write c n r0 r1 r2 r3 bs t tj dj b1 j : accepted c n r0 r1 r2 r3 ->
  write_completes c bs 3 r3 t tj dj -> nth_error bs (S t) = Some b1 -> (j < g_pins c)%nat ->
  exists ps ps', pin_at c bs (S t) j = Some ps /\ pin_at c bs (S (S t)) j = Some ps' /\
    ps_out ps' = (let code := slice (2 * Z.of_nat j) 2 (written c r3 dj) in
                  if code =? 1 then true else if code =? 2 then false else ps_out ps) /\
    ps_mode ps' = ps_mode ps.
Proof.
  intros A Hw Hb1 Hj. destruct (pin_at_some c bs (S t) j Hj) as (ps & Hps).
  destruct (elem_after_setclr c n r0 r1 r2 r3 bs t tj dj b1 A Hw) as (E1 & E2 & E3 & E4).
  exists ps. eexists. split; [exact Hps|]. rewrite (pin_at_S c bs (S t) j b1 Hb1), Hps. cbn [option_map].
  split; [reflexivity|].
  unfold pin_next, pin_slice. cbn [ps_mode ps_out pi_mode_wstb pi_mode_wdata pi_out_wstb pi_out_wdata].
  rewrite mode_next_eq, E3. split; [|reflexivity].
  cbv zeta. unfold outbit_next, out_set, out_clr.
  cbn [pi_set_wstb pi_clr_wstb pi_set_wdata pi_clr_wdata]. rewrite E1, E2, E4.
  rewrite slice2_bits by lia.
  destruct (Z.testbit (written c r3 dj) (2 * Z.of_nat j)),
           (Z.testbit (written c r3 dj) (2 * Z.of_nat j + 1)); reflexivity.
Qed.

(* ------------------------------------------------------------------ reads through the bus *)

Theorem bus_read c bs k r t0 t j b' : wf_cfg (g_mux c) ->
  nth_error (c_regs (g_mux c)) k = Some r -> r_rd r = true ->
  read_follows c bs r t0 t j ->
  o_rdata (out c (at_time c bs (S t)) b') =
  word (c_dw (g_mux c)) (r_width r) j (trunc (r_width r) (reg_value c bs t0 k)).
Proof.
  intros Hwf Hk Hrd ((b0 & Hb0 & Hs0 & Ha0) & Hle & Hq & (bt & Hbt & Hst & Hat) & Hj).
  cbn [out o_rdata]. rewrite <- st_at_mux.
  set (is := mux_trace c (init c) bs).
  change (bus_rdata (g_mux c) (st_at (g_mux c) is (S t))) with (rdata_at (g_mux c) is (S t)).
  rewrite (read_atomic (g_mux c) is t0 t k r j (mux_in (at_time c bs t0) b0) (mux_in (at_time c bs t) bt) Hwf Hk Hrd);
    auto.
  - unfold rval_at, reg_value, is. rewrite mux_trace_nth, Hb0. reflexivity.
  - unfold is. rewrite mux_trace_nth, Hb0. reflexivity.
  - intros u Hu (i & r' & Hi & Hin & Hrd' & Hs & Ha). apply (Hq u Hu).
    unfold is in Hi. rewrite mux_trace_nth in Hi.
    destruct (nth_error bs u) as [bu|] eqn:Eu; [|discriminate]. cbn in Hi. injection Hi as <-.
    exists bu, r'. cbn in Hs, Ha. auto.
  - unfold is. rewrite mux_trace_nth, Hbt. reflexivity.
Qed.

Lemma nth_error_firstn_lt {A} : forall n (l : list A) k, (k < n)%nat -> nth_error (firstn n l) k = nth_error l k.
Proof.
  induction n as [|n IH]; intros l k Hk; [lia|].
  destruct l as [|x l]; [destruct k; reflexivity|].
  destruct k as [|k]; [reflexivity|]. simpl. apply IH. lia.
Qed.

(* bit i of word j is bit j*dw + i of the value, as long as that lies within the register *)
Lemma word_testbit dw width j v i : 0 < dw -> 0 <= j -> 0 <= i < dw -> j * dw + i < width ->
  Z.testbit (word dw width j (trunc width v)) i = Z.testbit v (j * dw + i).
Proof.
  intros Hdw Hj Hi Hw. unfold word.
  destruct (Z.leb_spec (Z.min width ((j + 1) * dw)) (j * dw)) as [Hle|Hlt]; [nia|].
  rewrite slice_testbit by nia.
  replace (i <? Z.min width ((j + 1) * dw) - j * dw) with true by nia.
  rewrite trunc_testbit by nia. replace (j * dw + i <? width) with true by lia. reflexivity.
Qed.

(* Input register through the bus: every bit returned is the pin's level `input_stages` cycles before the first
   chunk was read (0 during the first `input_stages` cycles), also when the register spans several chunks *)
Theorem bus_input_read c n r0 r1 r2 r3 bs t0 t j i b' : accepted c n r0 r1 r2 r3 ->
  read_follows c bs r1 t0 t j -> 0 <= i < c_dw (g_mux c) -> j * c_dw (g_mux c) + i < n ->
  Z.testbit (o_rdata (out c (at_time c bs (S t)) b')) i =
  if (g_stages c <=? t0)%nat then blevel bs (Z.to_nat (j * c_dw (g_mux c) + i)) (t0 - g_stages c) else false.
Proof.
  intros A Hr Hi Hn.
  assert (Hk : nth_error (c_regs (g_mux c)) 1 = Some r1) by (rewrite (a_regs _ _ _ _ _ _ A); reflexivity).
  rewrite (bus_read c bs 1 r1 t0 t j b' (a_wf _ _ _ _ _ _ A) Hk (a_rd1 _ _ _ _ _ _ A) Hr).
  destruct Hr as ((b0 & Hb0 & _) & Hle & _ & _ & Hj).
  assert (Hdw : 0 < c_dw (g_mux c)) by apply (a_wf _ _ _ _ _ _ A).
  rewrite word_testbit; [|exact Hdw|lia|exact Hi|rewrite (a_w1 _ _ _ _ _ _ A); exact Hn].
  unfold reg_value. rewrite Hb0. cbn [mux_in i_rvals nth].
  set (m := j * c_dw (g_mux c) + i) in *.
  assert (Hm : 0 <= m) by (unfold m; nia).
  rewrite <- (Z2Nat.id m Hm) at 1.
  unfold at_time.
  rewrite periph_input_delay by (rewrite (a_pins _ _ _ _ _ _ A); lia).
  assert (Hlen : length (firstn t0 bs) = t0).
  { apply firstn_length_le. assert (t0 < length bs)%nat by (apply nth_error_Some; congruence). lia. }
  rewrite Hlen. rewrite <- (firstn_S_nth _ _ _ Hb0).
  destruct (g_stages c <=? t0)%nat eqn:Es; [|reflexivity].
  unfold blevel. apply Nat.leb_le in Es.
  rewrite nth_error_firstn_lt by lia. reflexivity.
Qed.

(* Mode and Output registers through the bus: the words of the register's contents at the first-chunk read *)
Theorem bus_mode_read c n r0 r1 r2 r3 bs t0 t j b' b0 : accepted c n r0 r1 r2 r3 ->
  read_follows c bs r0 t0 t j -> nth_error bs t0 = Some b0 ->
  o_rdata (out c (at_time c bs (S t)) b') =
  word (c_dw (g_mux c)) (2 * n) j (trunc (2 * n) (mode_val (s_core (at_time c bs t0)))).
Proof.
  intros A Hr Hb0.
  assert (Hk : nth_error (c_regs (g_mux c)) 0 = Some r0) by (rewrite (a_regs _ _ _ _ _ _ A); reflexivity).
  rewrite (bus_read c bs 0 r0 t0 t j b' (a_wf _ _ _ _ _ _ A) Hk (a_rd0 _ _ _ _ _ _ A) Hr).
  rewrite (a_w0 _ _ _ _ _ _ A). unfold reg_value. rewrite Hb0. reflexivity.
Qed.

Theorem bus_output_read c n r0 r1 r2 r3 bs t0 t j b' b0 : accepted c n r0 r1 r2 r3 ->
  read_follows c bs r2 t0 t j -> nth_error bs t0 = Some b0 ->
  o_rdata (out c (at_time c bs (S t)) b') =
  word (c_dw (g_mux c)) n j (trunc n (output_val (s_core (at_time c bs t0)))).
Proof.
  intros A Hr Hb0.
  assert (Hk : nth_error (c_regs (g_mux c)) 2 = Some r2) by (rewrite (a_regs _ _ _ _ _ _ A); reflexivity).
  rewrite (bus_read c bs 2 r2 t0 t j b' (a_wf _ _ _ _ _ _ A) Hk (a_rd2 _ _ _ _ _ _ A) Hr).
  rewrite (a_w2 _ _ _ _ _ _ A). unfold reg_value. rewrite Hb0. reflexivity.
Qed.

(* the contents of the Mode / Output registers are the pins' fields *)
Lemma pack_slice w : 0 < w -> forall vals k, (k < length vals)%nat ->
  slice (w * Z.of_nat k) w (pack w vals) = trunc w (nth k vals 0).
Proof.
  intros Hw. induction vals as [|v vals IH]; intros k Hk; simpl in Hk; [lia|].
  pose proof (pow2_pos w ltac:(lia)) as Hp.
  pose proof (trunc_range w v ltac:(lia)) as Hr.
  cbn [pack nth]. destruct k as [|k].
  - unfold slice. rewrite Z.mul_0_r. change (2 ^ 0) with 1. rewrite Z.div_1_r.
    replace (trunc w v + 2 ^ w * pack w vals) with (trunc w v + pack w vals * 2 ^ w) by ring.
    rewrite Z.mod_add by lia. apply Z.mod_small. exact Hr.
  - rewrite <- (IH k ltac:(lia)). unfold slice.
    rewrite Nat2Z.inj_succ. replace (w * Z.succ (Z.of_nat k)) with (w + w * Z.of_nat k) by lia.
    rewrite Z.pow_add_r by lia.
    pose proof (pow2_pos (w * Z.of_nat k) ltac:(lia)) as Hq.
    rewrite <- Z.div_div by lia.
    replace (trunc w v + 2 ^ w * pack w vals) with (trunc w v + pack w vals * 2 ^ w) by ring.
    rewrite Z.div_add by lia. rewrite (Z.div_small (trunc w v)) by exact Hr. reflexivity.
Qed.

Theorem mode_val_field s j ps : nth_error s j = Some ps -> 0 <= ps_mode ps < 4 ->
  slice (2 * Z.of_nat j) 2 (mode_val s) = ps_mode ps.
Proof.
  intros H Hr. unfold mode_val.
  assert (Hl : (j < length (map ps_mode s))%nat) by (rewrite map_length; apply nth_error_Some; congruence).
  rewrite pack_slice by (try lia; exact Hl).
  rewrite (nth_error_nth _ _ 0 (map_nth_error ps_mode _ _ H)).
  apply trunc_small. change (2 ^ 2) with 4. exact Hr.
Qed.

Theorem output_val_bit s j ps : nth_error s j = Some ps ->
  Z.testbit (output_val s) (Z.of_nat j) = ps_out ps.
Proof.
  intros H. unfold output_val. rewrite <- map_map. rewrite pack1_testbit.
  apply nth_error_nth. apply map_nth_error. exact H.
Qed.

(* ------------------------------------------------------------------ nothing else moves a pin *)

(* a cycle that does not write the last address of Mode, Output or SetClr (idle cycles, reads, writes to other
   chunks, to the read-only Input register or to unmapped addresses) leaves every pin's mode and output bit as
   they are: only completed writes ever change them *)
Theorem periph_hold c n r0 r1 r2 r3 bs t bt b1 j ps : accepted c n r0 r1 r2 r3 ->
  nth_error bs t = Some bt -> nth_error bs (S t) = Some b1 ->
  (b_wstb bt = false \/
   (b_addr bt <> r_stop r0 - 1 /\ b_addr bt <> r_stop r2 - 1 /\ b_addr bt <> r_stop r3 - 1)) ->
  pin_at c bs (S t) j = Some ps ->
  exists ps', pin_at c bs (S (S t)) j = Some ps' /\ ps_mode ps' = ps_mode ps /\ ps_out ps' = ps_out ps.
Proof.
  intros A Hbt Hb1 Hq Hps.
  rewrite (pin_at_S c bs (S t) j b1 Hb1), Hps. cbn [option_map]. eexists; split; [reflexivity|].
  assert (Hs : forall k r, nth_error (c_regs (g_mux c)) k = Some r ->
               (b_wstb bt = false \/ b_addr bt <> r_stop r - 1) ->
               nth k (o_wstb (Mux.out (g_mux c) (s_mux (at_time c bs (S t))) (mux_in (at_time c bs (S t)) b1))) false = false).
  { intros k r Hk Hn. apply nth_error_nth.
    rewrite (at_time_S c bs t bt Hbt). cbn [next s_mux].
    rewrite (w_strobe_next _ _ _ _ k r Hk). cbn [mux_in i_wstb i_addr]. f_equal.
    destruct Hn as [Hn|Hn]; [rewrite Hn, andb_false_r; reflexivity|].
    replace (b_addr bt =? r_stop r - 1) with false by lia. apply andb_false_r. }
  pose proof (a_regs _ _ _ _ _ _ A) as Er.
  assert (E0 : e_mode_wstb (elem_of c (at_time c bs (S t)) b1) = false).
  { apply (Hs 0%nat r0); [rewrite Er; reflexivity|tauto]. }
  assert (E2 : e_out_wstb (elem_of c (at_time c bs (S t)) b1) = false).
  { apply (Hs 2%nat r2); [rewrite Er; reflexivity|tauto]. }
  assert (E3 : e_sc_wstb (elem_of c (at_time c bs (S t)) b1) = false).
  { apply (Hs 3%nat r3); [rewrite Er; reflexivity|tauto]. }
  unfold pin_next, pin_slice. cbn [ps_mode ps_out pi_mode_wstb pi_mode_wdata pi_out_wstb pi_out_wdata].
  rewrite mode_next_eq, E0. split; [reflexivity|].
  unfold outbit_next, out_set, out_clr. cbn [pi_set_wstb pi_clr_wstb]. rewrite E2, E3. reflexivity.
Qed.

(* out of reset: every pin is an input with output bit 0 *)
Theorem periph_reset c bs j ps : pin_at c bs 0 j = Some ps -> ps_mode ps = 0 /\ ps_out ps = false.
Proof.
  unfold pin_at, at_time. cbn [firstn state_after init s_core]. intros H.
  unfold core_init in H. apply nth_error_In, repeat_spec in H. subst ps. split; reflexivity.
Qed.

(* ------------------------------------------------------------------ glue: the observable trace *)

(* cycle t of the observable trace is `out` of the state before cycle t *)
Lemma run_nth_gen c : forall bs s t b, nth_error bs t = Some b ->
  nth_error (run c s bs) t = Some (out c (state_after c s (firstn t bs)) b).
Proof.
  induction bs as [|x bs IH]; intros s t b H.
  - destruct t; discriminate.
  - destruct t as [|t]; simpl in *.
    + injection H as ->. reflexivity.
    + apply IH. exact H.
Qed.

Theorem run_nth c bs t b : nth_error bs t = Some b ->
  nth_error (run c (init c) bs) t = Some (out c (at_time c bs t) b).
Proof. apply run_nth_gen. Qed.

(* the mode table in terms of trace positions: what pin j shows in cycle t is the documented function of its
   mode and output bit in that cycle, and its alt_mode bit is up iff that mode is ALTERNATE *)
Theorem periph_mode_table_at c bs t b j ps : pin_at c bs t j = Some ps ->
  nth_error (o_pins (out c (at_time c bs t) b)) j = Some (documented (ps_mode ps) (ps_out ps)) /\
  (po_alt (documented (ps_mode ps) (ps_out ps)) = true <-> ps_mode ps = 3).
Proof.
  unfold pin_at, at_time. intros H.
  destruct (periph_mode_table c (firstn t bs) b j ps H) as (Hr & Ho).
  split; [exact Ho|apply alt_iff, Hr].
Qed.
